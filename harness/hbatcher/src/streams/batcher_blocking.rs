//! C07 / C08 / C09 runtime clauses — stream `batcher_blocking` (sampled; the model side is a decision table).
//!
//! Calls the REAL blocking entry points `emit_batcher::sync::{blocking_flush, blocking_send}` and
//! `emit_batcher::tokio::{blocking_flush, blocking_send}` from three calling contexts (a plain thread, a worker of
//! a tokio multi-thread runtime, inside a tokio current-thread runtime) against a live, a stalled (never run) and a
//! dropped receiver, under catch_unwind, and observes the result and that the call returned within
//! timeout + slack.
//!
//! case: (bl API OP CTX RX CAP PREFILL TIMEOUT_MS)
//!   CTX also: mtnd / mtndb (worker of / inside block_on of a multi-thread runtime built WITHOUT time and io
//!   drivers), ctnd (current-thread runtime without drivers).
//!   API ::= sync | tokio | async   OP ::= flush | send   CTX ::= plain | mt | ct   RX ::= live | stalled | gone | hangup
//!   TIMEOUT_MS may also be `max` (Duration::MAX) or `maxsecs` (u64::MAX seconds). RX = late: the receiver is started
//!   30 ms after the call, so the call has to wait and then succeeds because the receiver drains the queue.
//!   RX = refill (blocking_send and the async send, full queue): one take at 0.7·T, the queue refilled at once from
//!   inside an earlier when_empty callback, no further take → output `err(999),within-budget` (returned by 1.4·T) |
//!   `…,over-budget`. The async `tokio::send` measures its timeout with `std::time::Instant`, which a paused tokio
//!   clock does not move, so this case runs in real time like the blocking ones (T = 500 ms).
//!   API = async awaits `emit_batcher::tokio::{flush, send}` inside a current-thread runtime (CTX = ct); `flush` under
//!   a paused clock (virtual time). RX = hangup (async flush only): the receiver takes the batch and the watcher,
//!   never finishes, and is torn down after 10 ms — the oneshot hangs up and the flush resolves `true`.
//!   PREFILL items are `send`-ed before the call; the call itself sends item 999 (OP = send).
//! output: flush → true | false | panic ;  send → (ok | err(ITEM) | err(noitem))[,within-budget|,over-budget],t=T,b=B | panic
//!   T / B = `queue_full_truncated` / `queue_full_blocked` sampled after the call: truncations come from the PREFILL
//!   (plain sends) alone — a blocking send never discards anything, so it never moves that counter — and B is 1 iff
//!   the call's first attempt found the queue full or closed (`b=?` against a live or late receiver thread with a
//!   full queue, where that depends on thread scheduling).
//! case: (blslow API D_MS T_MS N CAP) — a SLOW processor behind the real `emit_batcher::tokio::spawn` (see `run_slow`):
//!   one attempt takes D (1 s … 120 s of the receiver runtime's clock, which the processor pauses so that they cost
//!   nothing), the flush (API async: `tokio::flush` awaited in a current-thread runtime; tokio / sync: the blocking
//!   ones on a plain thread; timeout T, real time) is requested while that attempt is in flight.
//!   output: `<flush result>,<items processed when the batch's watchers were notified>,<… when the flush returned>`;
//!   oracle c07-spawn-flush (true although an item sent before the flush has not been through the processor).
//! Only deterministic combinations are generated: a live receiver gets a timeout of 3 s (so the outcome does not
//! depend on thread scheduling), a stalled or dropped one gets 0 / 30 ms.
//!
//! oracles: c08-panic (a blocking entry point panicked), c08-timeout (returned later than timeout + 1.5 s),
//!          c07-blocking-true (flush returned true while items sent before it are still queued behind a stalled
//!          receiver), c09-handback (send failed without handing the item back although the receiver exists),
//!          c09-count (the blocking send moved `queue_full_truncated`, or `queue_full_blocked` by more than one),
//!          c09-busy-wait (refill scenario: the blocked sender used more CPU time than 0.12·T — it did not wait, it spun,
//!          registering a watcher per turn)

use emit_batcher::{BatchError, Receiver, Sender};
use hcommon::{Rng, Sexp, Stream, Tier};
use std::sync::Arc;
use std::time::{Duration, Instant};

pub fn streams() -> Vec<Stream> {
    vec![
        // everything (all oracles) — for replays and debugging
        Stream { name: "batcher_blocking", gen: gen_all, run: run_blocking },
        // C07: blocking_flush results; C09: blocking_send results; C08: returned (in time) or panicked, every call
        Stream { name: "batcher_blocking_c07", gen: gen_flush, run: run_c07 },
        Stream { name: "batcher_blocking_c08", gen: gen_all, run: run_c08 },
        Stream { name: "batcher_blocking_c09", gen: gen_send, run: run_c09 },
    ]
}

fn keep_fails(full: &str, prefix: &str, map_out: impl Fn(&str) -> String) -> String {
    let (out, fails) = match full.split_once('\t') {
        Some((o, f)) => (o, Some(f)),
        None => (full, None),
    };
    let mut s = if out == "bad-case" { out.to_string() } else { map_out(out) };
    if let Some(f) = fails {
        let kept: Vec<&str> = f.trim_start_matches("FAIL:").split('+').filter(|x| x.starts_with(prefix)).collect();
        if !kept.is_empty() {
            s.push_str("\tFAIL:");
            s.push_str(&kept.join("+"));
        }
    }
    s
}
/// `(bldrop CAP ROUNDS)`: "the whole pending (older) queue is DISCARDED" — the items of a truncated queue are released,
/// not kept somewhere until a receiver happens to run. A receiver that exists but never runs, (CAP + 1) · ROUNDS plain
/// sends of reference-counted items; output `live=N`, the number of items still alive afterwards (the model: what is
/// pending); oracle c09-truncated-items-kept-alive.
fn run_drop(line: &str) -> Option<String> {
    let s = Sexp::parse(line)?;
    let (tag, a) = s.as_tagged()?;
    if tag != "bldrop" || a.len() != 2 {
        return None;
    }
    let (cap, rounds) = (a[0].as_usize()?, a[1].as_usize()?);
    if cap == 0 || cap > 64 || rounds == 0 || rounds > 20 {
        return None;
    }
    let (sender, receiver): (Sender<Vec<Arc<()>>>, Receiver<Vec<Arc<()>>>) = emit_batcher::bounded(cap);
    let mut weak = Vec::new();
    for _ in 0..(cap + 1) * rounds {
        let item = Arc::new(());
        weak.push(Arc::downgrade(&item));
        sender.send(item);
    }
    let live = weak.iter().filter(|w| w.strong_count() > 0).count();
    drop(receiver);
    let out = format!("live={}", live);
    Some(if live <= cap { out } else { format!("{}\tFAIL:c09-truncated-items-kept-alive", out) })
}
fn run_c07(line: &str) -> String {
    keep_fails(&run_blocking(line), "c07", |o| o.to_string())
}
fn run_c09(line: &str) -> String {
    keep_fails(&run_blocking(line), "c09", |o| o.to_string())
}
fn run_c08(line: &str) -> String {
    keep_fails(&run_blocking(line), "c08", |o| {
        if o == "panic" || o == "hang" {
            o.to_string()
        } else if o.contains("-budget") {
            // result and timing verdict; the counters belong to C09
            o.split(',').take(2).collect::<Vec<_>>().join(",")
        } else {
            "returned".into()
        }
    })
}
/// the timing cases (remaining-time accounting of send_or_wait, T = 500 ms): the blocking variants and the async one
fn refill_cases() -> Vec<String> {
    [("sync", "plain"), ("tokio", "mt"), ("tokio", "ct"), ("async", "ct")]
        .iter()
        .map(|(api, ctx)| format!("(bl {} send {} refill 1 1 500)", api, ctx))
        .collect()
}
fn gen_all(rng: &mut Rng, tier: Tier, n: usize) -> Vec<String> {
    // the timing cases always come first
    let mut v: Vec<String> = refill_cases();
    v.extend(seq_cases());
    v.extend(spurious_cases(&["flush", "send"]));
    v.extend(gen_blocking(rng, tier, n, &["flush", "send"]));
    v
}
/// sequences of blocking flushes on one thread (see `run_seq`)
fn seq_cases() -> Vec<String> {
    let mut v: Vec<String> = [("sync", "plain"), ("tokio", "plain"), ("tokio", "mt"), ("tokio", "ct"), ("sync", "mt")]
        .iter()
        .map(|(api, ctx)| format!("(blseq {} {})", api, ctx))
        .collect();
    // calling contexts in sequence on one thread (see `run_ctx_seq`)
    v.push("(blctx tokio mtndb ct plain mtndb ct)".into());
    v.push("(blctx tokio ct mtndb plain)".into());
    v.push("(blctx sync mtndb ct plain)".into());
    v.extend(slow_cases());
    v
}
/// a processor whose single attempt takes long (see `run_slow`): however long, a flush requested meanwhile resolves
/// `true` only after the attempt has finished
fn slow_cases() -> Vec<String> {
    let mut v = Vec::new();
    for d in [1000u64, 29000, 31000, 120000] {
        for (n, cap) in [(1usize, 1usize), (2, 4)] {
            v.push(format!("(blslow async {} 60000 {} {})", d, n, cap));
        }
    }
    for api in ["tokio", "sync"] {
        for d in [1000u64, 31000] {
            v.push(format!("(blslow {} {} 60000 2 4)", api, d));
        }
    }
    v
}
fn gen_flush(rng: &mut Rng, tier: Tier, n: usize) -> Vec<String> {
    let mut v = seq_cases();
    v.extend(spurious_cases(&["flush"]));
    v.extend(gen_blocking(rng, tier, n, &["flush"]));
    v
}
fn gen_send(rng: &mut Rng, tier: Tier, n: usize) -> Vec<String> {
    let mut v = refill_cases();
    v.extend(["(bldrop 1 3)", "(bldrop 3 2)", "(bldrop 8 4)"].iter().map(|s| s.to_string()));
    v.extend(spurious_cases(&["send"]));
    v.extend(gen_blocking(rng, tier, n, &["send"]));
    v
}
/// blocked callers woken spuriously (RX = spurious): calls that genuinely wait (something pending / a full queue in
/// front of a stalled receiver) with a timeout long enough to tell T from 1.7·T
fn spurious_cases(ops: &[&str]) -> Vec<String> {
    let mut v = Vec::new();
    for (api, ctx) in [("sync", "plain"), ("tokio", "plain"), ("tokio", "mt")] {
        for op in ops {
            v.push(format!("(bl {} {} {} spurious 1 1 600)", api, op, ctx));
        }
    }
    // a live receiver spawned from inside the calling runtime (RX = livein), something pending / a full queue: the
    // blocking call made on that runtime's own thread must still see the receiver drain
    for (api, ctx) in [("tokio", "ct"), ("tokio", "mt"), ("sync", "ct")] {
        for op in ops {
            v.push(format!("(bl {} {} {} livein 1 1 3000)", api, op, ctx));
        }
    }
    v
}

const SLACK: Duration = Duration::from_millis(1500);

/// RX = livein: the closure that spawns the receiver, to be run inside the calling runtime
static START_INSIDE: std::sync::Mutex<Option<Box<dyn FnOnce() + Send>>> = std::sync::Mutex::new(None);
fn start_inside() {
    if let Some(start) = START_INSIDE.lock().unwrap().take() {
        start();
    }
}

#[derive(Clone, Copy, PartialEq, Debug)]
enum Api {
    Sync,
    Tokio,
    /// the async entry points `emit_batcher::tokio::{flush, send}` awaited inside a current-thread runtime whose
    /// clock is paused (virtual time, deterministic)
    Async,
}
#[derive(Clone, Copy, PartialEq, Debug)]
enum OpK {
    Flush,
    Send,
}
#[derive(Clone, Copy, PartialEq, Debug)]
enum Ctx {
    Plain,
    Mt,
    Ct,
    /// worker of a multi-thread runtime built WITHOUT time / io drivers (`Builder::new_multi_thread().build()`)
    MtNoDrivers,
    /// inside `block_on` of such a runtime (the thread is in the runtime context but is not a worker)
    MtNoDriversBlockOn,
    /// inside a current-thread runtime built without drivers
    CtNoDrivers,
}
#[derive(Clone, Copy, PartialEq, Debug)]
enum Rx {
    Live,
    Stalled,
    Gone,
    /// stalled when the call starts (so the call genuinely has to wait), started 30 ms later: it drains the queue
    /// and the call succeeds — whatever the timeout, including `Duration::MAX`
    Late,
    /// (blocking_send only; remaining-time accounting of send_or_wait) the queue is full; exactly one take
    /// happens at 0.7·T and a `when_empty` callback registered earlier refills the queue at once, so the woken
    /// sender loses the race and has to wait again — for the REMAINING 0.3·T, not for a whole new T. No further
    /// take: the call must hand the item back at ≈ T.
    Refill,
    /// (async flush only) the receiver takes the batch together with the flush watcher, never finishes it, and is
    /// torn down 10 ms later: the oneshot hangs up
    Hangup,
}

struct Case {
    api: Api,
    op: OpK,
    ctx: Ctx,
    /// RX = spurious: a stalled receiver, and the blocked caller is woken WITHOUT its condition having been signalled
    /// (hook H7 `emit_batcher::verif::wake_blocked_callers_spuriously`, what the OS may do at any time) at 0.45·T and
    /// 0.7·T: the call must still give up at ≈ T, not start a new full wait at every wakeup
    spurious: bool,
    /// RX = livein: a live receiver that is SPAWNED FROM INSIDE the runtime the call is made in (with the same API), right
    /// before the call — a receiver must run on its own thread and drivers wherever it was spawned from
    spawn_inside: bool,
    rx: Rx,
    cap: usize,
    prefill: usize,
    /// `max` = Duration::MAX, `maxsecs` = Duration::from_secs(u64::MAX), otherwise milliseconds
    timeout: Duration,
}

fn parse_timeout(s: &Sexp) -> Option<Duration> {
    Some(match s.as_atom()? {
        "max" => Duration::MAX,
        "maxsecs" => Duration::from_secs(u64::MAX),
        _ => Duration::from_millis(s.as_u64()?),
    })
}

const LATE: Duration = Duration::from_millis(30);

fn parse(line: &str) -> Option<Case> {
    let s = Sexp::parse(line)?;
    let (tag, a) = s.as_tagged()?;
    if tag != "bl" || a.len() != 7 {
        return None;
    }
    let cap = a[4].as_usize()?;
    if cap == 0 {
        return None;
    }
    Some(Case {
        api: match a[0].as_atom()? {
            "sync" => Api::Sync,
            "tokio" => Api::Tokio,
            "async" => Api::Async,
            _ => return None,
        },
        op: match a[1].as_atom()? {
            "flush" => OpK::Flush,
            "send" => OpK::Send,
            _ => return None,
        },
        ctx: match a[2].as_atom()? {
            "plain" => Ctx::Plain,
            "mt" => Ctx::Mt,
            "ct" => Ctx::Ct,
            "mtnd" => Ctx::MtNoDrivers,
            "mtndb" => Ctx::MtNoDriversBlockOn,
            "ctnd" => Ctx::CtNoDrivers,
            _ => return None,
        },
        spurious: a[3].as_atom()? == "spurious",
        spawn_inside: a[3].as_atom()? == "livein",
        rx: match a[3].as_atom()? {
            "live" | "livein" => Rx::Live,
            "stalled" | "spurious" => Rx::Stalled,
            "gone" => Rx::Gone,
            "late" => Rx::Late,
            "refill" => Rx::Refill,
            "hangup" => Rx::Hangup,
            _ => return None,
        },
        cap,
        prefill: a[5].as_usize()?,
        timeout: parse_timeout(&a[6])?,
    })
}

#[derive(Debug, PartialEq)]
enum Out {
    Flush(bool),
    SendOk,
    SendErr(Option<u64>),
    Panic,
}

/// CPU time the calling thread spent inside the last blocking call (Linux; 0 elsewhere): a caller that WAITS costs
/// nothing, a caller that spins through its wait burns the whole of it (and, in `blocking_send`, registers one more
/// `when_empty` watcher on the pending batch per turn — the batch grows without bound).
static LAST_CALL_CPU_NS: std::sync::atomic::AtomicU64 = std::sync::atomic::AtomicU64::new(0);
#[cfg(target_os = "linux")]
fn thread_cpu_ns() -> u64 {
    #[repr(C)]
    struct Timespec {
        sec: i64,
        nsec: i64,
    }
    extern "C" {
        fn clock_gettime(clk: i32, ts: *mut Timespec) -> i32;
    }
    const CLOCK_THREAD_CPUTIME_ID: i32 = 3;
    let mut ts = Timespec { sec: 0, nsec: 0 };
    if unsafe { clock_gettime(CLOCK_THREAD_CPUTIME_ID, &mut ts) } != 0 {
        return 0;
    }
    ts.sec as u64 * 1_000_000_000 + ts.nsec as u64
}
#[cfg(not(target_os = "linux"))]
fn thread_cpu_ns() -> u64 {
    0
}

fn call(api: Api, op: OpK, sender: &Sender<Vec<u64>>, timeout: Duration) -> Out {
    let cpu0 = thread_cpu_ns();
    let out = call_inner(api, op, sender, timeout);
    LAST_CALL_CPU_NS.store(thread_cpu_ns().saturating_sub(cpu0), std::sync::atomic::Ordering::SeqCst);
    out
}

fn call_inner(api: Api, op: OpK, sender: &Sender<Vec<u64>>, timeout: Duration) -> Out {
    match (api, op) {
        (Api::Sync, OpK::Flush) => Out::Flush(emit_batcher::sync::blocking_flush(sender, timeout)),
        (Api::Tokio, OpK::Flush) => Out::Flush(emit_batcher::tokio::blocking_flush(sender, timeout)),
        (Api::Sync, OpK::Send) => send_out(emit_batcher::sync::blocking_send(sender, 999, timeout)),
        (Api::Tokio, OpK::Send) => send_out(emit_batcher::tokio::blocking_send(sender, 999, timeout)),
        (Api::Async, _) => unreachable!(),
    }
}

/// (`queue_full_truncated`, `queue_full_blocked`)
fn counters(sender: &Sender<Vec<u64>>) -> (usize, usize) {
    use emit::metric::Source;
    struct S(std::cell::Cell<(usize, usize)>);
    impl emit::metric::sampler::Sampler for &S {
        fn metric<P: emit::Props>(&self, metric: emit::metric::Metric<P>) {
            let v = metric.value().by_ref().cast::<usize>().unwrap_or(usize::MAX);
            let (t, b) = self.0.get();
            match metric.name().to_string().as_str() {
                "queue_full_truncated" => self.0.set((v, b)),
                "queue_full_blocked" => self.0.set((t, v)),
                _ => {}
            }
        }
    }
    let s = S(std::cell::Cell::new((usize::MAX, usize::MAX)));
    sender.metric_source().sample_metrics(&s);
    s.0.get()
}

/// `,t=T,b=B` for a send (nothing for a flush or a panic) and the c09-count oracle: a blocking send never moves the
/// truncation counter, and moves the blocked counter by at most one.
fn counters_suffix(c: &Case, out: &Out, before: (usize, usize), after: (usize, usize), fails: &mut Vec<&'static str>) -> String {
    if c.op != OpK::Send || *out == Out::Panic {
        return String::new();
    }
    if after.0 != before.0 || !(after.1 == before.1 || after.1 == before.1 + 1) {
        fails.push("c09-count");
    }
    // against a receiver THREAD (live, or started 30 ms after the call) with a full queue, whether the first attempt
    // finds the queue still full depends on thread scheduling: the counter is checked by the oracle only
    if (c.rx == Rx::Live || c.rx == Rx::Late) && c.prefill >= c.cap {
        format!(",t={},b=?", after.0)
    } else {
        format!(",t={},b={}", after.0, after.1)
    }
}

/// RX = refill: a `when_empty` callback registered FIRST (so it runs before the blocked sender's own waker: the
/// freed slot is gone at once) and a hand-polled receiver that performs exactly one take at 0.7·T and then parks
/// until `stop` is set.
fn setup_refill(sender: &Arc<Sender<Vec<u64>>>, r: Receiver<Vec<u64>>, timeout: Duration) -> Arc<std::sync::atomic::AtomicBool> {
    let stop = Arc::new(std::sync::atomic::AtomicBool::new(false));
    let s2 = sender.clone();
    sender.when_empty(move || {
        let _ = s2.try_send(777);
    });
    let at = timeout.mul_f64(0.7);
    let stop2 = stop.clone();
    std::thread::spawn(move || {
        std::thread::sleep(at);
        let mut fut = Box::pin(r.exec(
            |_d| std::future::pending::<()>(),
            |_b: Vec<u64>| std::future::pending::<Result<(), BatchError<Vec<u64>>>>(),
        ));
        let mut cx = std::task::Context::from_waker(std::task::Waker::noop());
        let _ = std::future::Future::poll(fut.as_mut(), &mut cx);
        while !stop2.load(std::sync::atomic::Ordering::SeqCst) {
            std::thread::sleep(Duration::from_millis(5));
        }
        drop(fut);
    });
    stop
}

/// the timing verdict needs a budget that dwarfs scheduling noise: 200 ms ≤ T ≤ 5 s
fn refill_ok(c: &Case) -> bool {
    c.op == OpK::Send && c.prefill >= c.cap && c.timeout >= Duration::from_millis(200) && c.timeout <= Duration::from_secs(5)
}

fn send_out(r: Result<(), BatchError<u64>>) -> Out {
    match r {
        Ok(()) => Out::SendOk,
        Err(e) => Out::SendErr(e.into_retryable()),
    }
}

/// `(blseq API CTX)`: a SEQUENCE of blocking flushes on ONE thread against a hand-driven receiver (deterministic
/// order): item 1 in flight, item 2 queued; flush #1 (50 ms) must time out → false; the receiver completes [1] and
/// takes [2] (with flush #1's watcher); item 3 is sent; flush #2 (3 s) starts; 100 ms later the receiver completes
/// [2] — the watcher of the EARLIER, timed-out flush runs now — and takes [3]; another 100 ms later it completes
/// [3] and flush #2's own watcher runs. Flush #2 may return `true` only then: everything accepted before it was
/// requested has been processed. output: `false,true`; oracle c07-blocking-true.
fn run_seq(line: &str) -> Option<String> {
    use std::sync::atomic::{AtomicUsize, Ordering};
    use std::sync::{mpsc, Mutex};
    let s = Sexp::parse(line)?;
    let (tag, a) = s.as_tagged()?;
    if tag != "blseq" || a.len() != 2 {
        return None;
    }
    let api = match a[0].as_atom()? {
        "sync" => Api::Sync,
        "tokio" => Api::Tokio,
        _ => return None,
    };
    let ctx = match a[1].as_atom()? {
        "plain" => Ctx::Plain,
        "mt" => Ctx::Mt,
        "ct" => Ctx::Ct,
        _ => return None,
    };
    let (sender, receiver): (Sender<Vec<u64>>, Receiver<Vec<u64>>) = emit_batcher::bounded(8);
    let sender = Arc::new(sender);
    let processed: Arc<Mutex<Vec<u64>>> = Arc::new(Mutex::new(Vec::new()));
    let released = Arc::new(AtomicUsize::new(0));
    // a batch is processed when the gate of its on_batch future opens
    struct Gate {
        idx: usize,
        released: Arc<AtomicUsize>,
        batch: Vec<u64>,
        processed: Arc<Mutex<Vec<u64>>>,
    }
    impl std::future::Future for Gate {
        type Output = Result<(), BatchError<Vec<u64>>>;
        fn poll(self: std::pin::Pin<&mut Self>, _: &mut std::task::Context<'_>) -> std::task::Poll<Self::Output> {
            if self.released.load(Ordering::SeqCst) > self.idx {
                self.processed.lock().unwrap().extend(self.batch.iter().copied());
                std::task::Poll::Ready(Ok(()))
            } else {
                std::task::Poll::Pending
            }
        }
    }
    enum Cmd {
        Poll,
        ReleaseAndPoll,
        /// 100 ms, release + poll, 100 ms, release + poll
        Timeline,
        Stop,
    }
    let (cmd_tx, cmd_rx) = mpsc::channel::<Cmd>();
    let (ack_tx, ack_rx) = mpsc::channel::<()>();
    let helper = {
        let (processed, released) = (processed.clone(), released.clone());
        std::thread::spawn(move || {
            let ncalls = std::cell::Cell::new(0usize);
            let mut fut = Box::pin(receiver.exec(
                |_d| std::future::pending::<()>(),
                |batch: Vec<u64>| {
                    let idx = ncalls.get();
                    ncalls.set(idx + 1);
                    Gate { idx, released: released.clone(), batch, processed: processed.clone() }
                },
            ));
            fn poll<F: std::future::Future>(fut: &mut std::pin::Pin<Box<F>>) {
                let mut cx = std::task::Context::from_waker(std::task::Waker::noop());
                let _ = fut.as_mut().poll(&mut cx);
            }
            while let Ok(cmd) = cmd_rx.recv() {
                match cmd {
                    Cmd::Poll => poll(&mut fut),
                    Cmd::ReleaseAndPoll => {
                        released.fetch_add(1, Ordering::SeqCst);
                        poll(&mut fut);
                    }
                    Cmd::Timeline => {
                        let _ = ack_tx.send(());
                        for _ in 0..2 {
                            std::thread::sleep(Duration::from_millis(100));
                            released.fetch_add(1, Ordering::SeqCst);
                            poll(&mut fut);
                        }
                        continue;
                    }
                    Cmd::Stop => break,
                }
                let _ = ack_tx.send(());
            }
            drop(fut);
        })
    };
    let flush = move |sender: &Sender<Vec<u64>>, t: Duration| match api {
        Api::Sync => emit_batcher::sync::blocking_flush(sender, t),
        _ => emit_batcher::tokio::blocking_flush(sender, t),
    };
    let script = {
        let (sender, processed) = (sender.clone(), processed.clone());
        move || -> (bool, bool, Vec<u64>) {
            let step = |c: Cmd| {
                let _ = cmd_tx.send(c);
                let _ = ack_rx.recv();
            };
            sender.send(1);
            step(Cmd::Poll); // the receiver holds [1]
            sender.send(2);
            let f1 = flush(&sender, Duration::from_millis(50));
            step(Cmd::ReleaseAndPoll); // [1] done; [2] taken together with flush #1's watcher
            sender.send(3);
            step(Cmd::Timeline);
            let f2 = flush(&sender, Duration::from_secs(3));
            let seen = processed.lock().unwrap().clone();
            let _ = cmd_tx.send(Cmd::Stop);
            (f1, f2, seen)
        }
    };
    let res: Option<(bool, bool, Vec<u64>)> = match ctx {
        Ctx::Plain => std::thread::spawn(move || hcommon::catch(script)).join().ok().flatten(),
        Ctx::Mt => {
            let rt = tokio::runtime::Builder::new_multi_thread().worker_threads(2).enable_all().build().unwrap();
            let r = rt.block_on(async move { tokio::spawn(async move { script() }).await });
            rt.shutdown_background();
            r.ok()
        }
        _ => {
            let rt = tokio::runtime::Builder::new_current_thread().enable_all().build().unwrap();
            hcommon::catch(|| rt.block_on(async move { script() }))
        }
    };
    let _ = helper.join();
    Some(match res {
        None => "panic\tFAIL:c08-panic".into(),
        Some((f1, f2, seen)) => {
            let mut out = format!("{},{}", f1, f2);
            let mut fails = Vec::new();
            if f1 {
                fails.push("c07-blocking-true"); // [1] was still in flight and 2 queued
            }
            if f2 && !(seen.contains(&1) && seen.contains(&2) && seen.contains(&3)) {
                fails.push("c07-blocking-true");
            }
            if !fails.is_empty() {
                fails.dedup();
                out.push_str("\tFAIL:");
                out.push_str(&fails.join("+"));
            }
            out
        }
    })
}

/// `(blslow API D_MS T_MS N CAP)`: the receiver runs behind the REAL `emit_batcher::tokio::spawn` (its own thread,
/// its own current-thread runtime); N ≤ CAP items are sent before it starts, so its first hand-off takes them all.
/// The processor is slow: one attempt takes D on the receiver runtime's clock — which the processor PAUSES on its
/// first call (`tokio::time::pause()`, a current-thread runtime: tokio then advances the clock to the next timer
/// whenever the runtime is idle, so 120 s cost microseconds) — plus 3 ms of real time, and only then records the
/// batch. It starts its wait only once the flush has been requested (bounded real-time hold), so the request always
/// lands while the attempt is in flight:
///   1. a companion `when_flushed` watcher is registered — it is notified in the same pass as the flush's own
///      watcher and samples, ON THE RECEIVER THREAD at that very instant, how many items have been recorded;
///   2. the flush is requested (async: the future is polled once, which registers its watcher; blocking: the call is
///      made, the hold is released 20 ms later) with a timeout of T of REAL time (the caller's runtime is not paused);
///   3. the processor is released, the flush awaited, the record sampled again when it returns.
/// output `<result>,<recorded at notification>,<recorded at return>`; the flush may report `true` only if all N items
/// are recorded at both instants — however long the attempt took (the model has no time in it: `flush_sound`).
fn run_slow(line: &str) -> Option<String> {
    use std::sync::atomic::{AtomicBool, AtomicUsize, Ordering};
    use std::sync::{mpsc, Mutex};
    let s = Sexp::parse(line)?;
    let (tag, a) = s.as_tagged()?;
    if tag != "blslow" || a.len() != 5 {
        return None;
    }
    let api = match a[0].as_atom()? {
        "sync" => Api::Sync,
        "tokio" => Api::Tokio,
        "async" => Api::Async,
        _ => return None,
    };
    let d = Duration::from_millis(a[1].as_u64()?);
    let timeout = Duration::from_millis(a[2].as_u64()?);
    let (n, cap) = (a[3].as_usize()?, a[4].as_usize()?);
    // the flush has to outlast the (virtual) attempt comfortably in REAL time; no truncation in the prefill
    if n == 0 || n > cap || cap > 64 || d > Duration::from_secs(3600) || timeout < Duration::from_secs(10) || timeout > Duration::from_secs(600) {
        return None;
    }
    let (sender, receiver): (Sender<Vec<u64>>, Receiver<Vec<u64>>) = emit_batcher::bounded(cap);
    for i in 0..n {
        sender.send(i as u64 + 1);
    }
    let processed: Arc<Mutex<Vec<u64>>> = Arc::new(Mutex::new(Vec::new()));
    let started = Arc::new(AtomicUsize::new(0));
    let (go_tx, go_rx) = mpsc::channel::<()>();
    let go_rx = Arc::new(Mutex::new(go_rx));
    let handle = {
        let (processed, started) = (processed.clone(), started.clone());
        let paused = AtomicBool::new(false);
        emit_batcher::tokio::spawn("hbatcher_slow_rx", receiver, move |batch: Vec<u64>| {
            // user code running inside the receiver's runtime: freeze its clock (once)
            if !paused.swap(true, Ordering::SeqCst) {
                tokio::time::pause();
            }
            let (processed, started, go_rx) = (processed.clone(), started.clone(), go_rx.clone());
            async move {
                if started.fetch_add(1, Ordering::SeqCst) == 0 {
                    // real time: hold the attempt until the flush has been requested
                    let _ = go_rx.lock().unwrap().recv_timeout(Duration::from_secs(5));
                }
                tokio::time::sleep(d).await; // the receiver runtime's (frozen, auto-advancing) clock
                std::thread::sleep(Duration::from_millis(3)); // real time
                processed.lock().unwrap().extend(batch);
                Ok(())
            }
        })
        .ok()?
    };
    let t0 = Instant::now();
    while started.load(Ordering::SeqCst) == 0 && t0.elapsed() < Duration::from_secs(5) {
        std::thread::sleep(Duration::from_micros(200));
    }
    let at_notify: Arc<Mutex<Option<usize>>> = Arc::new(Mutex::new(None));
    {
        let (at_notify, processed) = (at_notify.clone(), processed.clone());
        sender.when_flushed(move || {
            *at_notify.lock().unwrap() = Some(processed.lock().unwrap().len());
        });
    }
    let res: Option<(bool, usize)> = match api {
        Api::Async => {
            let rt = tokio::runtime::Builder::new_current_thread().enable_all().build().ok()?;
            let (sender, processed) = (&sender, processed.clone());
            hcommon::catch(|| {
                rt.block_on(async move {
                    let fl = emit_batcher::tokio::flush(sender, timeout);
                    tokio::pin!(fl);
                    // one poll registers the watcher
                    let first = std::future::poll_fn(|cx| std::task::Poll::Ready(std::future::Future::poll(fl.as_mut(), cx))).await;
                    let _ = go_tx.send(());
                    let r = match first {
                        std::task::Poll::Ready(r) => r,
                        std::task::Poll::Pending => fl.await,
                    };
                    (r, processed.lock().unwrap().len())
                })
            })
        }
        _ => {
            std::thread::spawn(move || {
                std::thread::sleep(Duration::from_millis(20));
                let _ = go_tx.send(());
            });
            hcommon::catch(|| {
                let r = match api {
                    Api::Sync => emit_batcher::sync::blocking_flush(&sender, timeout),
                    _ => emit_batcher::tokio::blocking_flush(&sender, timeout),
                };
                (r, processed.lock().unwrap().len())
            })
        }
    };
    drop(sender);
    let _ = handle.join();
    Some(match res {
        None => "panic\tFAIL:c08-panic".into(),
        Some((r, at_return)) => {
            let at_notify = *at_notify.lock().unwrap();
            let mut out = format!("{},{},{}", r, at_notify.map_or("-".to_string(), |k| k.to_string()), at_return);
            if r && (at_notify != Some(n) || at_return != n) {
                out.push_str("\tFAIL:c07-spawn-flush");
            }
            out
        }
    })
}

/// Every case runs under a time limit (guard.rs): the longest legitimate case takes ≈ 1 s (the timing cases) — a
/// live receiver gets a 3 s timeout but is served at once — so a call that has not come back after 8 s (2 s once a
/// hang has been seen in this process) is wedged: the state lock is held for good (e.g. by a receiver that invoked a
/// re-entrant watcher under it). Output `hang`, every property's hang oracle.
fn run_blocking(line: &str) -> String {
    let line = line.to_string();
    match super::guard::run_limited(move || run_blocking_inner(&line), Duration::from_secs(8), Duration::from_secs(2)) {
        super::guard::Verdict::Done(s) => s,
        super::guard::Verdict::Panicked => "panic".into(),
        super::guard::Verdict::Hung => "hang\tFAIL:c07-hang+c08-hang+c09-hang".into(),
    }
}

/// `(blctx API CTX…)`: ONE OS thread makes a blocking send and a blocking flush against a healthy receiver from a
/// SEQUENCE of calling contexts — plain, inside `block_on` of a multi-thread runtime (`mtndb`), inside a
/// current-thread runtime (`ct`) — one after the other. The calling context belongs to the call, not to the thread:
/// whatever an earlier call learned about "its" runtime must not be applied to a later one.
/// output: one `send=…,flush=…` token per context (`ok`/`true` everywhere).
fn run_ctx_seq(line: &str) -> Option<String> {
    let s = Sexp::parse(line)?;
    let (tag, a) = s.as_tagged()?;
    if tag != "blctx" || a.len() < 2 || a.len() > 7 {
        return None;
    }
    let api = match a[0].as_atom()? {
        "sync" => Api::Sync,
        "tokio" => Api::Tokio,
        _ => return None,
    };
    let mut ctxs = Vec::new();
    for c in &a[1..] {
        ctxs.push(match c.as_atom()? {
            "plain" => Ctx::Plain,
            "mtndb" => Ctx::MtNoDriversBlockOn,
            "ct" => Ctx::Ct,
            _ => return None,
        });
    }
    let (sender, receiver): (Sender<Vec<u64>>, Receiver<Vec<u64>>) = emit_batcher::bounded(8);
    let handle = emit_batcher::sync::spawn("hbatcher_blctx_rx", receiver, |_batch: Vec<u64>| Ok(())).ok()?;
    let rt_mt = tokio::runtime::Builder::new_multi_thread().worker_threads(1).build().ok()?;
    let rt_ct = tokio::runtime::Builder::new_current_thread().enable_all().build().ok()?;
    let mut toks = Vec::new();
    for (i, ctx) in ctxs.iter().enumerate() {
        let call = || -> (bool, bool) {
            let t = Duration::from_secs(5);
            match api {
                Api::Sync => (
                    emit_batcher::sync::blocking_send(&sender, i as u64, t).is_ok(),
                    emit_batcher::sync::blocking_flush(&sender, t),
                ),
                _ => (
                    emit_batcher::tokio::blocking_send(&sender, i as u64, t).is_ok(),
                    emit_batcher::tokio::blocking_flush(&sender, t),
                ),
            }
        };
        // a panic is not caught here: the whole case then reads `panic` (what the C08 projection looks for)
        let (s, f) = match ctx {
            Ctx::Plain => call(),
            Ctx::MtNoDriversBlockOn => rt_mt.block_on(async { call() }),
            _ => rt_ct.block_on(async { call() }),
        };
        toks.push(format!("send={},flush={}", if s { "ok" } else { "err" }, f));
    }
    drop(sender);
    let _ = handle.join();
    Some(toks.join(" "))
}

fn run_blocking_inner(line: &str) -> String {
    if line.starts_with("(blseq") {
        return run_seq(line).unwrap_or_else(|| "bad-case".into());
    }
    if line.starts_with("(blctx") {
        return run_ctx_seq(line).unwrap_or_else(|| "bad-case".into());
    }
    if line.starts_with("(blslow") {
        return run_slow(line).unwrap_or_else(|| "bad-case".into());
    }
    if line.starts_with("(bldrop") {
        return run_drop(line).unwrap_or_else(|| "bad-case".into());
    }
    let Some(c) = parse(line) else {
        return "bad-case".into();
    };
    if c.rx == Rx::Refill && !refill_ok(&c) {
        return "bad-case".into();
    }
    if c.api == Api::Async {
        if c.spurious {
            return "bad-case".into();
        }
        return run_async(&c);
    }
    if c.rx == Rx::Hangup {
        return "bad-case".into();
    }
    let (sender, receiver): (Sender<Vec<u64>>, Receiver<Vec<u64>>) = emit_batcher::bounded(c.cap);
    // the receiver: dropped, kept but never run, or started right before the call (after the prefill)
    let mut receiver = Some(receiver);
    if c.rx == Rx::Gone {
        drop(receiver.take());
    }
    if !c.spawn_inside {
        for i in 0..c.prefill {
            sender.send(i as u64 + 1);
        }
    }
    let sender = Arc::new(sender);
    let timeout = c.timeout;
    let (api, op) = (c.api, c.op);
    if c.rx == Rx::Live || c.rx == Rx::Late {
        let receiver = receiver.take().unwrap();
        let start = move || {
            let _detached = match api {
                Api::Sync => emit_batcher::sync::spawn("hbatcher_rx", receiver, |_batch: Vec<u64>| Ok(())).ok(),
                Api::Tokio => {
                    emit_batcher::tokio::spawn("hbatcher_rx", receiver, |_batch: Vec<u64>| async move { Ok(()) })
                        .ok()
                }
                Api::Async => unreachable!(),
            };
        };
        if c.spawn_inside {
            if !matches!(c.ctx, Ctx::Ct | Ctx::Mt) || c.api == Api::Async {
                return "bad-case".into();
            }
            // … spawned into an EMPTY channel, so it is in its idle wait (a timer of whatever drivers it runs on) when
            // the items arrive 30 ms later and the blocking call starts on the runtime's own thread
            let (s2, prefill) = (sender.clone(), c.prefill);
            *START_INSIDE.lock().unwrap() = Some(Box::new(move || {
                start();
                std::thread::sleep(Duration::from_millis(30));
                for i in 0..prefill {
                    s2.send(i as u64 + 1);
                }
            }));
        } else if c.rx == Rx::Live {
            start();
        } else {
            std::thread::spawn(move || {
                std::thread::sleep(LATE);
                start();
            });
        }
    }
    let stop_refill = if c.rx == Rx::Refill {
        setup_refill(&sender, receiver.take().unwrap(), timeout)
    } else {
        Arc::new(std::sync::atomic::AtomicBool::new(false))
    };
    if c.spurious {
        if c.timeout < Duration::from_millis(300) || c.timeout > Duration::from_millis(5000) {
            return "bad-case".into();
        }
        let t = c.timeout;
        std::thread::spawn(move || {
            let t0 = Instant::now();
            for f in [0.45, 0.7] {
                std::thread::sleep(t.mul_f64(f).saturating_sub(t0.elapsed()));
                emit_batcher::verif::wake_blocked_callers_spuriously();
            }
        });
    }
    let before = counters(&sender);
    let started = Instant::now();
    let out = {
        let sender = sender.clone();
        match c.ctx {
            Ctx::Plain => {
                let h = std::thread::spawn(move || hcommon::catch(|| call(api, op, &sender, timeout)));
                h.join().ok().flatten().unwrap_or(Out::Panic)
            }
            Ctx::Mt => {
                let rt = tokio::runtime::Builder::new_multi_thread().worker_threads(2).enable_all().build().unwrap();
                let r = rt.block_on(async move {
                    tokio::spawn(async move {
                        start_inside();
                        call(api, op, &sender, timeout)
                    })
                    .await
                });
                rt.shutdown_background();
                r.unwrap_or(Out::Panic)
            }
            Ctx::Ct => {
                let rt = tokio::runtime::Builder::new_current_thread().enable_all().build().unwrap();
                let r = hcommon::catch(|| {
                    rt.block_on(async move {
                        start_inside();
                        call(api, op, &sender, timeout)
                    })
                });
                r.unwrap_or(Out::Panic)
            }
            Ctx::MtNoDrivers => {
                let rt = tokio::runtime::Builder::new_multi_thread().worker_threads(2).build().unwrap();
                let r = rt.block_on(async move {
                    tokio::spawn(async move { call(api, op, &sender, timeout) }).await
                });
                rt.shutdown_background();
                r.unwrap_or(Out::Panic)
            }
            Ctx::MtNoDriversBlockOn => {
                let rt = tokio::runtime::Builder::new_multi_thread().worker_threads(2).build().unwrap();
                let r = hcommon::catch(|| rt.block_on(async move { call(api, op, &sender, timeout) }));
                rt.shutdown_background();
                r.unwrap_or(Out::Panic)
            }
            Ctx::CtNoDrivers => {
                let rt = tokio::runtime::Builder::new_current_thread().build().unwrap();
                let r = hcommon::catch(|| rt.block_on(async move { call(api, op, &sender, timeout) }));
                r.unwrap_or(Out::Panic)
            }
        }
    };
    let wall = started.elapsed();
    let after = counters(&sender);
    stop_refill.store(true, std::sync::atomic::Ordering::SeqCst);
    drop(receiver);
    let mut fails: Vec<&str> = Vec::new();
    let suffix = counters_suffix(&c, &out, before, after, &mut fails);
    if c.rx == Rx::Refill {
        // HEAD returns at ≈ T; a send_or_wait that grants every wait round the full timeout at ≈ 1.7·T.
        // The bound 1.4·T sits in the middle; the output carries the verdict only, never the measured time.
        let within = wall <= timeout.mul_f64(1.4);
        if !within {
            fails.push("c08-timeout");
            fails.push("c09-timeout"); // "hand it back to the caller when the timeout expires"
        }
        // the woken sender lost the race and waits again for the remaining 0.3·T: waiting costs (next to) no CPU time; a
        // sender that spins through it burns all of it. The bound 0.12·T sits in between
        let cpu = Duration::from_nanos(LAST_CALL_CPU_NS.load(std::sync::atomic::Ordering::SeqCst));
        if cpu > timeout.mul_f64(0.12) {
            fails.push("c09-busy-wait");
        }
        if out == Out::Panic {
            fails.push("c08-panic");
        }
        let o = match out {
            Out::SendErr(Some(x)) => format!("err({})", x),
            Out::SendErr(None) => "err(noitem)".into(),
            Out::SendOk => "ok".into(),
            Out::Panic => "panic".into(),
            Out::Flush(b) => format!("{}", b),
        };
        let mut s = format!("{},{}{}", o, if within { "within-budget" } else { "over-budget" }, suffix);
        if !fails.is_empty() {
            s.push_str("\tFAIL:");
            s.push_str(&fails.join("+"));
        }
        return s;
    }
    if out == Out::Panic {
        fails.push("c08-panic");
    }
    if wall > timeout.saturating_add(SLACK) || (c.rx == Rx::Late && wall > LATE + SLACK) {
        fails.push("c08-timeout");
    }
    // HEAD gives up at ≈ T; a wait loop that re-arms the full timeout after a wakeup at 0.7·T returns at ≈ 1.7·T
    if c.spurious && wall > timeout.mul_f64(1.35) && !fails.contains(&"c08-timeout") {
        fails.push("c08-timeout");
    }
    if out == Out::Flush(true) && c.rx == Rx::Stalled && c.prefill > 0 {
        fails.push("c07-blocking-true");
    }
    // a live receiver keeps running: with seconds to spare it drains what is pending, so the flush succeeds and the
    // send finds room — a call that comes back empty-handed met a receiver that had stopped
    if c.rx == Rx::Live && c.timeout >= Duration::from_millis(2000) && matches!(out, Out::Flush(false) | Out::SendErr(_)) {
        fails.push("c08-live-receiver-stopped");
    }
    if out == Out::SendErr(None) && c.rx != Rx::Gone {
        fails.push("c09-handback");
    }
    if out == Out::Panic && c.op == OpK::Send {
        fails.push("c09-handback"); // the item was neither enqueued nor handed back
    }
    if let Out::SendErr(Some(x)) = out {
        if x != 999 {
            fails.push("c09-handback");
        }
    }
    render(out, &suffix, &fails)
}

/// The async entry points under a paused tokio clock: everything runs on one thread in virtual time, so the
/// outcome and the (virtual) time of return are deterministic.
fn run_async(c: &Case) -> String {
    if c.ctx != Ctx::Ct || (c.rx == Rx::Hangup && c.op != OpK::Flush) {
        return "bad-case".into();
    }
    // `flush` runs in virtual time (paused clock: deterministic, also for the hang-up scenario). `send` measures
    // its timeout with std::time::Instant (tokio.rs:101), which a paused clock does not move, so it runs in real time.
    let paused = c.op == OpK::Flush;
    let rt = tokio::runtime::Builder::new_current_thread().enable_all().start_paused(paused).build().unwrap();
    let (cap, prefill, rxk, op) = (c.cap, c.prefill, c.rx, c.op);
    let timeout = c.timeout;
    let res = hcommon::catch(|| {
        rt.block_on(async move {
            let (sender, receiver): (Sender<Vec<u64>>, Receiver<Vec<u64>>) = emit_batcher::bounded(cap);
            let sender = Arc::new(sender);
            let mut receiver = Some(receiver);
            if rxk == Rx::Gone {
                drop(receiver.take());
            }
            for i in 0..prefill {
                sender.send(i as u64 + 1);
            }
            match rxk {
                Rx::Live => {
                    let r = receiver.take().unwrap();
                    tokio::spawn(r.exec(|d| tokio::time::sleep(d), |_b: Vec<u64>| async move { Ok(()) }));
                }
                Rx::Late => {
                    let r = receiver.take().unwrap();
                    tokio::spawn(async move {
                        tokio::time::sleep(LATE).await;
                        r.exec(|d| tokio::time::sleep(d), |_b: Vec<u64>| async move { Ok(()) }).await
                    });
                }
                Rx::Hangup => {
                    let r = receiver.take().unwrap();
                    let h = tokio::spawn(r.exec(
                        |d| tokio::time::sleep(d),
                        |_b: Vec<u64>| std::future::pending::<Result<(), BatchError<Vec<u64>>>>(),
                    ));
                    tokio::spawn(async move {
                        tokio::time::sleep(Duration::from_millis(10)).await;
                        h.abort();
                    });
                }
                _ => {}
            }
            let stop_refill = if rxk == Rx::Refill {
                Some(setup_refill(&sender, receiver.take().unwrap(), timeout))
            } else {
                None
            };
            let before = counters(&sender);
            let t0 = tokio::time::Instant::now();
            let out = match op {
                OpK::Flush => Out::Flush(emit_batcher::tokio::flush(&sender, timeout).await),
                OpK::Send => send_out(emit_batcher::tokio::send(&sender, 999, timeout).await),
            };
            let virt = t0.elapsed();
            let after = counters(&sender);
            if let Some(stop) = stop_refill {
                stop.store(true, std::sync::atomic::Ordering::SeqCst);
            }
            drop(receiver);
            (out, virt, before, after)
        })
    });
    let (out, virt, before, after) = res.unwrap_or((Out::Panic, Duration::ZERO, (0, 0), (0, 0)));
    let mut fails: Vec<&str> = Vec::new();
    let suffix = counters_suffix(c, &out, before, after, &mut fails);
    if out == Out::Panic {
        fails.push("c08-panic");
    }
    if c.rx == Rx::Refill {
        // HEAD hands the item back at ≈ T; a waiter that is granted the FULL timeout on every round at ≈ 1.7·T
        let within = virt <= timeout.mul_f64(1.4);
        if !within {
            fails.push("c08-timeout");
            fails.push("c09-timeout");
        }
        if out != Out::SendErr(Some(999)) {
            fails.push("c09-handback");
        }
        let budget = if within { ",within-budget" } else { ",over-budget" };
        return render(out, &format!("{}{}", budget, suffix), &fails);
    }
    if virt > timeout.saturating_add(if paused { Duration::from_millis(2) } else { SLACK })
        || (c.rx == Rx::Late && virt > LATE + SLACK)
    {
        fails.push("c08-timeout");
    }
    if out == Out::Panic && c.op == OpK::Send {
        fails.push("c09-handback");
    }
    if out == Out::Flush(true) && c.rx == Rx::Stalled && c.prefill > 0 {
        fails.push("c07-blocking-true");
    }
    if out == Out::SendErr(None) && c.rx != Rx::Gone {
        fails.push("c09-handback");
    }
    if let Out::SendErr(Some(x)) = out {
        if x != 999 {
            fails.push("c09-handback");
        }
    }
    render(out, &suffix, &fails)
}

fn render(out: Out, suffix: &str, fails: &[&str]) -> String {
    let mut s = match out {
        Out::Flush(b) => format!("{}", b),
        Out::SendOk => "ok".into(),
        Out::SendErr(Some(x)) => format!("err({})", x),
        Out::SendErr(None) => "err(noitem)".into(),
        Out::Panic => "panic".into(),
    };
    s.push_str(suffix);
    if !fails.is_empty() {
        s.push_str("\tFAIL:");
        s.push_str(&fails.join("+"));
    }
    s
}

fn gen_blocking(rng: &mut Rng, tier: Tier, n: usize, ops: &[&str]) -> Vec<String> {
    let mut all = Vec::new();
    for api in ["sync", "tokio"] {
        for op in ops.iter().copied() {
            for ctx in ["plain", "mt", "ct"] {
                for rx in ["live", "stalled", "gone"] {
                    for (cap, prefill) in [(1usize, 0usize), (1, 1), (2, 1), (2, 2), (3, 5)] {
                        let timeouts: &[u64] = if rx == "live" { &[3000] } else { &[0, 30] };
                        for t in timeouts {
                            all.push(format!("(bl {} {} {} {} {} {} {})", api, op, ctx, rx, cap, prefill, t));
                        }
                    }
                }
            }
        }
    }
    // extreme timeouts where the call genuinely waits and then succeeds because a late receiver drains: the
    // original returns quickly whatever the timeout (Duration::MAX, u64::MAX seconds); zero returns at once
    for api in ["sync", "tokio", "async"] {
        for op in ops.iter().copied() {
            for ctx in ["plain", "mt", "ct"] {
                if api == "async" && ctx != "ct" {
                    continue;
                }
                for (cap, prefill) in [(1usize, 1usize), (2, 2)] {
                    // (no zero timeout here: whether a call that may not wait at all finds the late receiver already
                    // draining is up to the OS scheduler — `stalled` covers "zero returns at once" deterministically)
                    for t in ["max", "maxsecs", "3000"] {
                        all.push(format!("(bl {} {} {} late {} {} {})", api, op, ctx, cap, prefill, t));
                    }
                }
            }
        }
    }
    // runtimes built without time / io drivers: the blocking entry points must not depend on them. Only calls that
    // genuinely have to wait (stalled: until the timeout; late: until the receiver drains)
    for api in ["sync", "tokio"] {
        for op in ops.iter().copied() {
            for ctx in ["mtnd", "mtndb", "ctnd"] {
                for (cap, prefill) in [(1usize, 1usize), (2, 2)] {
                    all.push(format!("(bl {} {} {} stalled {} {} 30)", api, op, ctx, cap, prefill));
                    for t in ["3000", "max"] {
                        all.push(format!("(bl {} {} {} late {} {} {})", api, op, ctx, cap, prefill, t));
                    }
                }
            }
        }
    }
    // the async entry points (virtual time: any timeout is cheap)
    for op in ops.iter().copied() {
        for rx in ["live", "stalled", "gone", "hangup"] {
            if rx == "hangup" && op != "flush" {
                continue;
            }
            for (cap, prefill) in [(1usize, 0usize), (1, 1), (2, 1), (2, 2), (3, 5)] {
                if rx == "hangup" && prefill == 0 {
                    continue; // nothing to take: the watcher fires at once
                }
                let timeouts: &[u64] = if rx == "live" {
                    &[3000]
                } else if op == "flush" {
                    &[0, 30, 20000]
                } else {
                    &[0, 30]
                };
                for t in timeouts {
                    all.push(format!("(bl async {} ct {} {} {} {})", op, rx, cap, prefill, t));
                }
            }
        }
    }
    let want = match tier {
        Tier::Quick => n.min(all.len()),
        Tier::Thorough => n,
    };
    if want >= all.len() && tier == Tier::Quick {
        return all;
    }
    // sample (with repetition in the thorough tier: the runtime part is what is being sampled)
    (0..want).map(|_| all[rng.usize(all.len())].clone()).collect()
}
