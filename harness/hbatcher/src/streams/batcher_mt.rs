//! C06 / C09 — stream `batcher_mt` (thorough tier only): an OS-scheduled soak on REAL threads. No hook, no model
//! of the schedule: the trace is checked by the implementation-side oracle only, the Lean side prints the constant
//! verdict `conserved` (the conservation law it stands for is theorem C09.truncation_discards_exactly_capacity
//! together with C06.partition_fifo / truncation_counted).
//!
//! case: (mt CAP SENDERS PER MODE SEED)
//!   SENDERS threads share one `Sender` and emit PER items each (id = thread * 1_000_000 + seq) with `send`
//!   (MODE = send), `try_send` (MODE = try), a mix (MODE = mix), or trickled one at a time into a receiver that polls
//!   flat out (MODE = spin: `Receiver::exec` with waits that complete at once); a real receiver thread (`sync::spawn`) records
//!   every batch, sometimes failing it (no retry) or panicking (SEED decides). Then the sender is dropped and the
//!   receiver joined.
//! oracle (I/O only):
//!   mt-dup        no item is delivered twice
//!   mt-order      per sending thread, items are delivered in the order they were sent
//!   mt-unknown    nothing is delivered that was not accepted
//!   mt-conserve   accepted = delivered + capacity × queue_full_truncated   (every truncation discards exactly
//!                 `capacity` items; nothing else is lost once the receiver has drained and returned)
//!   mt-capacity   no batch is larger than the capacity; the sampled queue_length never exceeds it
//!   mt-join       the receiver thread terminates after the sender is dropped
//!
//! case: (rxdrop HOLDER)   the receiver is DROPPED (its `exec` future cancelled / never run) while another thread is
//!   inside the shared state's critical section: HOLDER = push — a sender inside `Channel::push`; HOLDER = len — a
//!   metrics sample inside `Channel::len`. The holder stays there for 150 ms. Once the drop has returned, the channel is
//!   closed: the output is what `try_send` then answers — the model's `dropReceiver` then `trySend` says `closed`
//!   (theorem C06.closed_after_receiver_drop) — an item accepted after the receiver is gone would never be processed,
//!   counted or reported.

use emit_batcher::{BatchError, ChannelMetrics, Receiver, Sender};
use hcommon::{Rng, Sexp, Stream, Tier};
use std::collections::{BTreeMap, BTreeSet};
use std::sync::{Arc, Mutex};

pub fn streams() -> Vec<Stream> {
    vec![Stream { name: "batcher_mt", gen: gen_mt, run: run_mt }]
}

#[derive(Debug)]
struct E;
impl std::fmt::Display for E {
    fn fmt(&self, f: &mut std::fmt::Formatter) -> std::fmt::Result {
        f.write_str("scripted")
    }
}
impl std::error::Error for E {}

fn metric(m: &ChannelMetrics<Vec<u64>>, name: &str) -> usize {
    use emit::metric::Source;
    struct S<'a>(&'a str, std::cell::Cell<usize>);
    impl<'a> emit::metric::sampler::Sampler for S<'a> {
        fn metric<P: emit::Props>(&self, metric: emit::metric::Metric<P>) {
            if metric.name().to_string() == self.0 {
                self.1.set(metric.value().by_ref().cast::<usize>().unwrap_or(usize::MAX));
            }
        }
    }
    let s = S(name, std::cell::Cell::new(usize::MAX));
    m.sample_metrics(&s);
    s.1.get()
}

/// a channel whose `push` / `len` can be made to linger while the caller holds the shared state's lock
struct Gated(Vec<u64>);
static GATE_PUSH: std::sync::atomic::AtomicBool = std::sync::atomic::AtomicBool::new(false);
static GATE_LEN: std::sync::atomic::AtomicBool = std::sync::atomic::AtomicBool::new(false);
static GATE_INSIDE: std::sync::atomic::AtomicBool = std::sync::atomic::AtomicBool::new(false);
fn linger(gate: &std::sync::atomic::AtomicBool) {
    use std::sync::atomic::Ordering::SeqCst;
    if gate.swap(false, SeqCst) {
        GATE_INSIDE.store(true, SeqCst);
        std::thread::sleep(std::time::Duration::from_millis(150));
    }
}
impl emit_batcher::Channel for Gated {
    type Item = u64;
    fn new() -> Self {
        Gated(Vec::new())
    }
    fn push(&mut self, item: u64) {
        linger(&GATE_PUSH);
        self.0.push(item);
    }
    fn len(&self) -> usize {
        linger(&GATE_LEN);
        self.0.len()
    }
    fn clear(&mut self) {
        self.0.clear()
    }
}

fn run_rxdrop(holder: &str) -> String {
    use std::sync::atomic::Ordering::SeqCst;
    let (sender, receiver): (Sender<Gated>, Receiver<Gated>) = emit_batcher::bounded(8);
    let metrics = sender.metric_source();
    GATE_INSIDE.store(false, SeqCst);
    let out = std::thread::scope(|sc| {
        let h = match holder {
            "push" => {
                GATE_PUSH.store(true, SeqCst);
                sc.spawn(|| sender.send(1))
            }
            _ => {
                GATE_LEN.store(true, SeqCst);
                sc.spawn(|| {
                    use emit::metric::Source;
                    metrics.sample_metrics(&emit::metric::sampler::from_fn(|_| {}));
                })
            }
        };
        let t0 = std::time::Instant::now();
        while !GATE_INSIDE.load(SeqCst) && t0.elapsed() < std::time::Duration::from_secs(5) {
            std::thread::yield_now();
        }
        let inside = GATE_INSIDE.load(SeqCst);
        // the holder is inside the critical section now: tear the receiver down
        drop(receiver);
        let _ = h.join();
        GATE_PUSH.store(false, SeqCst);
        GATE_LEN.store(false, SeqCst);
        let r = match sender.try_send(2) {
            Ok(()) => "ok",
            Err(e) => {
                if e.into_retryable().is_some() {
                    "full"
                } else {
                    "closed"
                }
            }
        };
        format!("try={}{}", r, if inside { "" } else { " (holder never got inside)" })
    });
    if out == "try=closed" {
        out
    } else {
        format!("{}\tFAIL:mt-open-after-receiver-drop", out)
    }
}

fn run_mt(line: &str) -> String {
    if let Some(h) = Sexp::parse(line).and_then(|s| {
        let (tag, a) = s.as_tagged()?;
        if tag == "rxdrop" && a.len() == 1 {
            a[0].as_atom().filter(|h| *h == "push" || *h == "len").map(|h| h.to_string())
        } else {
            None
        }
    }) {
        return run_rxdrop(&h);
    }
    let parsed = (|| {
        let s = Sexp::parse(line)?;
        let (tag, a) = s.as_tagged()?;
        if tag != "mt" || a.len() != 5 {
            return None;
        }
        let cap = a[0].as_usize()?;
        let senders = a[1].as_usize()?;
        let per = a[2].as_usize()?;
        let mode = a[3].as_atom()?.to_string();
        let seed = a[4].as_u64()?;
        if cap == 0 || senders == 0 || senders > 16 || per > 100_000 || !["send", "try", "mix", "spin"].contains(&mode.as_str()) {
            return None;
        }
        Some((cap, senders, per, mode, seed))
    })();
    let Some((cap, senders, per, mode, seed)) = parsed else {
        return "bad-case".into();
    };
    let (sender, receiver): (Sender<Vec<u64>>, Receiver<Vec<u64>>) = emit_batcher::bounded(cap);
    let metrics = sender.metric_source();
    let batches: Arc<Mutex<Vec<Vec<u64>>>> = Arc::new(Mutex::new(Vec::new()));
    let spin = mode == "spin";
    let delivered_n = Arc::new(std::sync::atomic::AtomicUsize::new(0));
    let handle = if spin {
        // MODE = spin: the receiver runs `Receiver::exec` with waits that complete at once, so it polls the empty
        // channel flat out (idle back-off at its cap within a few iterations) while the senders trickle items in:
        // each send lands at an arbitrary point of the receiver's idle path (swap-out, bookkeeping, re-allocation)
        let batches = batches.clone();
        let delivered_n = delivered_n.clone();
        std::thread::Builder::new()
            .name("hbatcher_mt_spin".into())
            .spawn(move || {
                tokio::runtime::Builder::new_current_thread().build().unwrap().block_on(receiver.exec(
                    |_| std::future::ready(()),
                    move |batch: Vec<u64>| {
                        delivered_n.fetch_add(batch.len(), std::sync::atomic::Ordering::SeqCst);
                        batches.lock().unwrap().push(batch);
                        std::future::ready(Ok(()))
                    },
                ))
            })
            .unwrap()
    } else {
        let batches = batches.clone();
        let mut rng = Rng::new(seed);
        emit_batcher::sync::spawn("hbatcher_mt_rx", receiver, move |batch: Vec<u64>| {
            batches.lock().unwrap().push(batch);
            match rng.below(12) {
                0 => Err(BatchError::no_retry(E)),
                1 => panic!("scripted panic in the processor"),
                2 => {
                    std::thread::yield_now();
                    Ok(())
                }
                _ => Ok(()),
            }
        })
        .unwrap()
    };
    let sender = Arc::new(sender);
    let accepted: Arc<Mutex<BTreeSet<u64>>> = Arc::new(Mutex::new(BTreeSet::new()));
    let max_q = Arc::new(Mutex::new(0usize));
    let sent_total = Arc::new(std::sync::atomic::AtomicUsize::new(0));
    let mut threads = Vec::new();
    for t in 0..senders {
        let sender = sender.clone();
        let accepted = accepted.clone();
        let mode = mode.clone();
        let metrics = sender.metric_source();
        let max_q = max_q.clone();
        let delivered_n = delivered_n.clone();
        let sent_total = sent_total.clone();
        // pacing (from the seed): how often a sender yields, so that cases range from "senders overwhelm the
        // receiver" (mostly truncation) to "receiver keeps up" (mostly delivery)
        let pace = [1usize, 3, 16, 128, usize::MAX][(seed % 5) as usize];
        threads.push(std::thread::spawn(move || {
            let mut mine = Vec::with_capacity(per);
            let mut seen_q = 0usize;
            for i in 0..per {
                let id = (t as u64) * 1_000_000 + i as u64;
                if spin {
                    // trickle: wait (briefly) until everything sent so far was delivered, then send the next
                    let t0 = std::time::Instant::now();
                    while delivered_n.load(std::sync::atomic::Ordering::SeqCst) < sent_total.load(std::sync::atomic::Ordering::SeqCst)
                        && t0.elapsed() < std::time::Duration::from_millis(2)
                    {
                        std::hint::spin_loop();
                    }
                    sender.send(id);
                    sent_total.fetch_add(1, std::sync::atomic::Ordering::SeqCst);
                    mine.push(id);
                    continue;
                }
                let use_try = match mode.as_str() {
                    "send" => false,
                    "try" => true,
                    _ => i % 3 == 0,
                };
                if use_try {
                    if sender.try_send(id).is_ok() {
                        mine.push(id);
                    }
                } else {
                    // the sender is alive and the receiver has not returned: `send` always accepts
                    sender.send(id);
                    mine.push(id);
                }
                if pace != usize::MAX && i % pace == 0 {
                    if pace == 1 && i % 8 == 0 {
                        std::thread::sleep(std::time::Duration::from_micros(50));
                    } else {
                        std::thread::yield_now();
                    }
                }
                if i % 64 == 0 {
                    seen_q = seen_q.max(metric(&metrics, "queue_length"));
                }
            }
            accepted.lock().unwrap().extend(mine);
            let mut m = max_q.lock().unwrap();
            *m = (*m).max(seen_q);
        }));
    }
    for th in threads {
        let _ = th.join();
    }
    drop(sender);
    // the receiver drains what is queued and returns
    let t0 = std::time::Instant::now();
    while !handle.is_finished() && t0.elapsed() < std::time::Duration::from_secs(20) {
        std::thread::sleep(std::time::Duration::from_millis(1));
    }
    let mut fails: BTreeSet<&'static str> = BTreeSet::new();
    if !handle.is_finished() {
        fails.insert("mt-join");
    } else {
        let _ = handle.join();
    }
    let batches = batches.lock().unwrap().clone();
    let accepted = accepted.lock().unwrap().clone();
    let truncated = metric(&metrics, "queue_full_truncated");
    let mut delivered = BTreeSet::new();
    let mut last_per_thread: BTreeMap<u64, u64> = BTreeMap::new();
    for b in &batches {
        if b.len() > cap {
            fails.insert("mt-capacity");
        }
        for x in b {
            if !delivered.insert(*x) {
                fails.insert("mt-dup");
            }
            if !accepted.contains(x) {
                fails.insert("mt-unknown");
            }
            let th = x / 1_000_000;
            if let Some(prev) = last_per_thread.get(&th) {
                if prev >= x {
                    fails.insert("mt-order");
                }
            }
            last_per_thread.insert(th, *x);
        }
    }
    if *max_q.lock().unwrap() > cap {
        fails.insert("mt-capacity");
    }
    if !fails.contains("mt-join") && accepted.len() != delivered.len() + cap * truncated {
        fails.insert("mt-conserve");
    }
    if fails.is_empty() {
        "conserved".into()
    } else {
        format!(
            "accepted={} delivered={} truncated={} cap={}\tFAIL:{}",
            accepted.len(),
            delivered.len(),
            truncated,
            cap,
            fails.into_iter().collect::<Vec<_>>().join("+")
        )
    }
}

fn gen_mt(rng: &mut Rng, tier: Tier, n: usize) -> Vec<String> {
    let mut out = vec!["(rxdrop push)".to_string(), "(rxdrop len)".to_string()];
    out.extend(gen_mt_soak(rng, tier, n.saturating_sub(2)));
    out
}

fn gen_mt_soak(rng: &mut Rng, tier: Tier, n: usize) -> Vec<String> {
    if tier == Tier::Quick {
        // a handful, so that the stream is exercised when run by hand in the quick tier
        return (0..n.min(8))
            .map(|i| {
                if i % 2 == 1 {
                    format!("(mt {} {} 3000 spin {})", [64, 1024][i / 2 % 2], 1 + i / 4 % 2, rng.below(1000))
                } else {
                    format!("(mt {} 2 200 mix {})", 1 + i % 4, rng.below(1000))
                }
            })
            .collect();
    }
    (0..n)
        .map(|_| {
            let cap = match rng.below(4) {
                0 => 1,
                1 => rng.range(2, 8),
                2 => rng.range(8, 64),
                _ => rng.range(64, 2000),
            };
            let senders = rng.range(1, 6);
            let per = rng.range(50, 3000);
            let mode = *rng.pick(&["send", "try", "mix", "send", "mix", "spin"]);
            format!("(mt {} {} {} {} {})", cap, senders, per, mode, rng.below(1_000_000))
        })
        .collect()
}
