//! C06 / C07 / C08 / C09 — stream `batcher`: schedules interpreted on the REAL `emit_batcher::{Sender, Receiver}`.
//!
//! No threads, no hook: sender operations are called directly by the schedule interpreter; the future returned by
//! `Receiver::exec(wait, on_batch)` is polled by hand with a no-op waker; `wait` and `on_batch` return gate
//! futures the schedule releases with the scripted outcome. The requested wait durations are recorded instead of
//! slept (virtual clock).
//!
//! case: (b CAP (sp I…) (win W…) (ops OP…))   — see lean/EmitModel/Driver/Batcher.lean for the op grammar and output format.
//! Watcher ids ≥ 5000 register a callback that panics after recording that it ran.
//! The channel is a harness-defined type (`Ch`, a `Vec<u64>` behind `emit_batcher::Channel`): windows W ::= (n K …) |
//! (l K …) | (v K …) script sender ops from INSIDE the K-th call the receiver itself makes of `Channel::new` / `len` /
//! `with_capacity`; whether the state lock is held there is probed (`lock_is_free`), `+held` = nothing can run there.
//!
//! Implementation-side oracles (computed from the observed I/O alone, no model):
//!   c06-partition     every first-attempt batch is exactly the accepted-and-not-truncated items not yet delivered,
//!                     in acceptance order (exactly once, FIFO, partition modulo counted truncations)
//!   c06-retry         a retry call gets exactly the remainder returned by the attempt before it
//!   c09-capacity      queue_length ≤ capacity after every operation (capacity ≥ 1)
//!   c09-newest        a truncating send leaves exactly the new item queued; try_send hands back its own item
//!   c07-flush         when a flush callback runs, every item accepted before its registration is finalised or
//!                     truncated (not queued, not in flight, not waiting for a retry)
//!   c08-attempts      at most 1 + 10 calls per batch
//!   c08-once          every callback runs at most once; none is left unfired when the receiver returns
//!   c08-backoff       retry waits within a batch are non-decreasing and ≤ 10 s
//!   c09-count         queue_full_truncated moves only in a plain `send` that found the queue full (by one);
//!                     queue_full_blocked moves only in a blocking / async send whose first attempt failed (by one)
//!   cNN-hang          the channel wedged: an op (or a callback / closure the receiver invoked) never returned
//!
//! WATCHDOG. Every case is interpreted on a fresh helper thread (`guard::run`): a callback that re-enters the
//! channel while the implementation holds its state lock dead-locks that thread, not the harness. The verdict is
//! positive, not a guess: the helper is blocked in the kernel (`/proc/self/task/<tid>/stat` state `S`) for ≥ 80 ms
//! over ≥ 8 consecutive polls while it is not in a wait of its own; a hard limit (10 s; 1 s once a hang has been
//! seen in this process) is the fallback. The case then prints the tokens it got to, `hang|-/-/-`, `x` for the ops
//! that could not be run, `F:hung`, and fails the oracles `c06-hang+c07-hang+c08-hang+c09-hang`.
//! The GENERATOR interprets the schedule it is building on the real code too (to keep receiver ops enabled); it
//! runs under the same watchdog: a schedule that wedges is emitted as it stands (ops up to and including the one
//! that never returned — the reproducer), and after two such schedules the generator stops executing the
//! implementation and draws the remaining schedules blindly.

use emit_batcher::{BatchError, Channel, ChannelMetrics, Receiver, Sender};
use hcommon::{Rng, Sexp, Stream, Tier};
use std::cell::{Cell, RefCell};
use std::collections::{BTreeMap, BTreeSet};
use std::future::Future;
use std::pin::Pin;
use std::rc::Rc;
use std::sync::{Arc, Mutex};
use std::task::{Context, Poll, Waker};
use std::time::Duration;

pub fn streams() -> Vec<Stream> {
    vec![
        // the full trace (all observables, all oracles) — for replays and debugging
        Stream { name: "batcher", gen: gen_batcher, run: run_batcher },
        // the same schedules projected onto the observables each property constrains
        Stream { name: "batcher_c06", gen: gen_batcher, run: run_c06 },
        Stream { name: "batcher_c07", gen: gen_batcher, run: run_c07 },
        Stream { name: "batcher_c08", gen: gen_batcher, run: run_c08 },
        Stream { name: "batcher_c09", gen: gen_batcher, run: run_c09 },
    ]
}

/// Projection of the full trace onto one property's observables (mirrors `project` in Driver/Batcher.lean):
/// which event kinds are kept (by first character), whether the per-op `|queue_length/truncated` suffix and the
/// final counters are kept, and which oracles belong to the property.
struct Proj {
    events: &'static str,
    tags: bool,
    queue: bool,
    /// keep the third component of the `|queue_length/truncated/blocked` suffix
    blocked: bool,
    counters: bool,
    oracles: &'static [&'static str],
}

#[allow(dead_code)]
const FULL: Proj =
    Proj { events: "!?~cwdP+", tags: true, queue: true, blocked: true, counters: true, oracles: &["c0", "receiver"] };
/// C06: every on_batch argument, the send / try_send results, queue length + truncation counter, termination
const P06: Proj = Proj { events: "cdP+", tags: true, queue: true, blocked: false, counters: false, oracles: &["c06"] };
/// C07: when each flush callback ran (or was dropped) relative to the on_batch calls and their outcomes
const P07: Proj = Proj { events: "!~cP", tags: false, queue: false, blocked: false, counters: false, oracles: &["c07"] };
/// C08: calls, wait durations, every callback invocation, termination, the batch counters
const P08: Proj =
    Proj { events: "!?~cwdP", tags: false, queue: false, blocked: false, counters: true, oracles: &["c08", "receiver"] };
/// C09: the queue length, the truncation counter and the blocked counter after every operation (and inside
/// callbacks / windows: `+q=…`), the try_send / blocking-send results
const P09: Proj = Proj { events: "+", tags: true, queue: true, blocked: true, counters: false, oracles: &["c09"] };

fn project(full: &str, p: &Proj) -> String {
    let (trace, fails) = match full.split_once('\t') {
        Some((t, f)) => (t, Some(f)),
        None => (full, None),
    };
    if trace == "bad-case" {
        return full.to_string();
    }
    let mut out = Vec::new();
    for tok in trace.split(' ') {
        if let Some(fin) = tok.strip_prefix("F:") {
            let mut parts = fin.split(',');
            let st = parts.next().unwrap_or("");
            if p.counters {
                out.push(format!("F:{}", fin));
            } else {
                out.push(format!("F:{}", st));
            }
            continue;
        }
        let (body, q) = tok.rsplit_once('|').unwrap_or((tok, ""));
        let mut parts = body.split(',');
        let tag = parts.next().unwrap_or("");
        // a skipped op stays visible in every projection; otherwise the tag is kept only where it is an observable
        let mut t = if p.tags || tag == "x" { tag.to_string() } else { "-".to_string() };
        for e in parts {
            let c = e.chars().next().unwrap_or(' ');
            if p.events.contains(c) {
                t.push(',');
                t.push_str(e);
            }
        }
        if p.queue {
            t.push('|');
            if p.blocked {
                t.push_str(q);
            } else {
                t.push_str(q.rsplit_once('/').map(|(qt, _)| qt).unwrap_or(q));
            }
        }
        out.push(t);
    }
    let mut s = out.join(" ");
    if let Some(f) = fails {
        let kept: Vec<&str> = f
            .trim_start_matches("FAIL:")
            .split('+')
            .filter(|x| p.oracles.iter().any(|o| x.starts_with(o)))
            .collect();
        if !kept.is_empty() {
            s.push_str("\tFAIL:");
            s.push_str(&kept.join("+"));
        }
    }
    s
}

fn run_c06(line: &str) -> String {
    project(&run_batcher(line), &P06)
}
fn run_c07(line: &str) -> String {
    project(&run_batcher(line), &P07)
}
fn run_c08(line: &str) -> String {
    project(&run_batcher(line), &P08)
}
fn run_c09(line: &str) -> String {
    project(&run_batcher(line), &P09)
}

const RETRY_MAX: usize = 10;
const RETRY_CAP_NS: u128 = 10_000_000_000;
const RETRY_STEP_NS: u128 = 700_000_000;

// ------------------------------------------------------------------ the channel type (user code the receiver calls)

/// The channel the scripted streams run on: a `Vec<u64>` behind the `emit_batcher::Channel` trait. `Channel` is
/// USER code, like `wait`, `on_batch` and the watcher callbacks: whenever `Receiver::exec` itself calls one of its
/// methods (`new`, `len`, `with_capacity` — the receiver calls no other), the schedule may script sender ops to be
/// performed from INSIDE that call (windows `(n K …)`, `(l K …)`, `(v K …)`: the K-th receiver-side call of `new` /
/// `len` / `with_capacity`, counted from 0 over the whole case). Whether the implementation holds its state lock at
/// that call is OBSERVED, not assumed (`lock_is_free`): if it does, nothing can be done on the channel from there
/// (std's Mutex is not re-entrant) and the window prints `+held`; if it does not, the ops run there — sender steps
/// landing at that very point of the receiver's code. The model predicts both (Model/Batcher.lean `chanCallsIn`,
/// `chanCallsAfter`): the calls inside the critical section of the hand-off are held, the others are interleaving
/// points between receiver labels.
pub struct Ch(pub Vec<u64>);

#[derive(Clone, Copy, PartialEq, Eq, PartialOrd, Ord, Debug)]
enum ChanCall {
    New,
    Len,
    WithCap,
}
impl ChanCall {
    fn tag(self) -> &'static str {
        match self {
            ChanCall::New => "n",
            ChanCall::Len => "l",
            ChanCall::WithCap => "v",
        }
    }
}

impl Channel for Ch {
    type Item = u64;
    fn new() -> Self {
        chan_call(ChanCall::New);
        Ch(Vec::new())
    }
    fn with_capacity(capacity_hint: usize) -> Self {
        chan_call(ChanCall::WithCap);
        Ch(Vec::with_capacity(capacity_hint.min(1024)))
    }
    fn push(&mut self, item: u64) {
        self.0.push(item)
    }
    fn len(&self) -> usize {
        chan_call(ChanCall::Len);
        self.0.len()
    }
    // `is_empty` is left to the trait's default (`len() == 0`)
    fn clear(&mut self) {
        self.0.clear()
    }
}

thread_local! {
    /// true while the interpreter thread runs `Receiver::exec`'s OWN code: inside the poll of the exec future, minus
    /// everything the harness supplied (the wait / on_batch closures, their gate futures, the watcher callbacks and
    /// the windows). A `Channel` method called while this is set is a receiver-side call.
    static IN_RX: Cell<bool> = const { Cell::new(false) };
}

/// Scope guard: harness code entered from inside the receiver (restores the flag on the way out, also by unwinding).
struct Outside(bool);
impl Outside {
    fn enter() -> Outside {
        Outside(IN_RX.with(|c| c.replace(false)))
    }
}
impl Drop for Outside {
    fn drop(&mut self) {
        IN_RX.with(|c| c.set(self.0));
    }
}

/// Scope guard: the receiver's code is entered (the exec future is polled).
struct Inside(bool);
impl Inside {
    fn enter() -> Inside {
        Inside(IN_RX.with(|c| c.replace(true)))
    }
}
impl Drop for Inside {
    fn drop(&mut self) {
        IN_RX.with(|c| c.set(self.0));
    }
}

/// One lock probe: a helper thread that takes the channel's state lock once (through the public metrics source).
struct Probe {
    tid: Arc<std::sync::atomic::AtomicU64>,
    /// 0 = not there yet, 1 = got the lock (and released it), 2 = the thread ended without getting it
    state: Arc<std::sync::atomic::AtomicU8>,
}

/// Does the implementation hold its state lock right now (we are inside a `Channel` method it called)?
/// POSITIVE both ways, no time-out guess: a helper thread takes the lock through the public API
/// (`ChannelMetrics::sample_metrics` reads the queue length under it). `free` = it got it. `held` = the helper —
/// and every earlier helper of this case that has not finished — is blocked in the kernel (`/proc` state `S`, the
/// futex wait of `Mutex::lock`) in ≥ 3 consecutive looks spanning ≥ 400 µs; a helper that is merely waiting for a
/// CPU is `R` and proves nothing. A helper left blocked finishes by itself as soon as the receiver unlocks.
fn lock_is_free(ctx: &CbCtx) -> bool {
    use std::sync::atomic::Ordering::SeqCst;
    let probe = Probe { tid: Arc::new(Default::default()), state: Arc::new(Default::default()) };
    let (tid, state, metrics) = (probe.tid.clone(), probe.state.clone(), ctx.probe.clone());
    let spawned = std::thread::Builder::new().stack_size(64 << 10).spawn(move || {
        struct Ended(Arc<std::sync::atomic::AtomicU8>);
        impl Drop for Ended {
            fn drop(&mut self) {
                let _ = self.0.compare_exchange(0, 2, SeqCst, SeqCst);
            }
        }
        let ended = Ended(state);
        tid.store(super::guard::my_tid(), SeqCst);
        struct Nop;
        impl emit::metric::sampler::Sampler for Nop {
            fn metric<P: emit::Props>(&self, _: emit::metric::Metric<P>) {}
        }
        use emit::metric::Source;
        metrics.sample_metrics(Nop);
        ended.0.store(1, SeqCst);
    });
    if spawned.is_err() {
        return false;
    }
    let blocked = |p: &Probe| {
        let t = p.tid.load(SeqCst);
        t != 0 && super::guard::thread_state(t) == Some('S')
    };
    let verdict = super::guard::expected_wait(|| {
        let started = std::time::Instant::now();
        let mut looks = 0u32;
        let mut since: Option<std::time::Instant> = None;
        loop {
            match probe.state.load(SeqCst) {
                1 => return true,
                2 => return false, // the lock is poisoned: nothing can be done on this channel
                _ => {}
            }
            let earlier_blocked = ctx.probes.borrow().iter().all(|p| p.state.load(SeqCst) != 0 || blocked(p));
            if blocked(&probe) && earlier_blocked {
                looks += 1;
                let s = *since.get_or_insert_with(std::time::Instant::now);
                if looks >= 3 && s.elapsed() >= Duration::from_micros(400) {
                    return probe.state.load(SeqCst) == 1;
                }
            } else {
                looks = 0;
                since = None;
            }
            if started.elapsed() > Duration::from_secs(5) {
                return false; // no /proc, exotic states: never touch a channel whose lock may be held
            }
            std::thread::sleep(Duration::from_micros(100));
        }
    });
    let mut probes = ctx.probes.borrow_mut();
    probes.retain(|p| p.state.load(SeqCst) == 0);
    probes.push(probe);
    verdict
}

/// A `Channel` method was called. If the receiver's own code called it and the schedule has a window for this call,
/// perform the window's sender ops from right here — provided the state lock is free.
fn chan_call(kind: ChanCall) {
    if !IN_RX.with(|c| c.get()) {
        return;
    }
    let Some(ctx) = cb_ctx() else {
        return;
    };
    let idx = {
        let mut n = ctx.chan_counts.borrow_mut();
        let e = n.entry(kind).or_insert(0usize);
        *e += 1;
        *e - 1
    };
    let Some(ops) = ctx.chans.borrow_mut().remove(&(kind, idx)) else {
        return;
    };
    if ctx.core.borrow().hung.get() {
        return;
    }
    let _o = Outside::enter();
    if lock_is_free(&ctx) {
        for op in &ops {
            let tag = sender_op(&ctx.core, &ctx.sh, op);
            log(&ctx.sh, Ev::Win(tag));
        }
    } else {
        log(&ctx.sh, Ev::Win("held".into()));
    }
}

// ------------------------------------------------------------------ schedule

#[derive(Clone, Debug)]
enum Op {
    Send(u64),
    Try(u64),
    Flush(u64),
    Empty(u64),
    DropSender,
    DropReceiver,
    Poll,
    Ok,
    Fail,
    Retry(Vec<u64>),
    PanicAsync,
    Waited,
    /// sample the channel's metrics with a sampler whose callback performs `try_send(x)` / `send(x)` on the very
    /// channel it samples (a self-monitoring pipeline): sampling must not call out under the state lock
    SampleTry(u64),
    SampleSend(u64),
    /// a blocking / async send with a ZERO timeout (`sync::blocking_send`, `tokio::blocking_send`, `tokio::send`
    /// polled once): `send_or_wait` = one `try_send`, the `queue_full_blocked` accounting, the item handed back —
    /// never a wait, so it can be scripted on the interpreter thread (also inside windows and callbacks)
    Bsend(Bk, u64),
    /// sample the channel's metrics right here (also inside windows and callbacks): `q=<len>/<truncated>/<blocked>`
    Q,
}

#[derive(Clone, Copy, Debug, PartialEq)]
enum Bk {
    Sync,
    Tokio,
    Async,
}
impl Bk {
    fn tag(self) -> &'static str {
        match self {
            Bk::Sync => "bs",
            Bk::Tokio => "bt",
            Bk::Async => "ba",
        }
    }
}

impl Op {
    fn sender_side(&self) -> bool {
        matches!(
            self,
            Op::Send(_)
                | Op::Try(_)
                | Op::Flush(_)
                | Op::Empty(_)
                | Op::DropSender
                | Op::SampleTry(_)
                | Op::SampleSend(_)
                | Op::Bsend(..)
                | Op::Q
        )
    }
}

fn parse_op(s: &Sexp) -> Option<Op> {
    let (tag, a) = s.as_tagged()?;
    Some(match (tag, a.len()) {
        ("s", 1) => Op::Send(a[0].as_u64()?),
        ("m", 1) => Op::SampleTry(a[0].as_u64()?),
        ("ms", 1) => Op::SampleSend(a[0].as_u64()?),
        ("t", 1) => Op::Try(a[0].as_u64()?),
        ("bs", 1) => Op::Bsend(Bk::Sync, a[0].as_u64()?),
        ("bt", 1) => Op::Bsend(Bk::Tokio, a[0].as_u64()?),
        ("ba", 1) => Op::Bsend(Bk::Async, a[0].as_u64()?),
        ("q", 0) => Op::Q,
        ("f", 1) => Op::Flush(a[0].as_u64()?),
        ("e", 1) => Op::Empty(a[0].as_u64()?),
        ("ds", 0) => Op::DropSender,
        ("dr", 0) => Op::DropReceiver,
        ("poll", 0) => Op::Poll,
        ("ok", 0) => Op::Ok,
        ("fail", 0) => Op::Fail,
        ("pa", 0) => Op::PanicAsync,
        ("retry", _) => Op::Retry(a.iter().map(|x| x.as_u64()).collect::<Option<Vec<_>>>()?),
        ("w", 0) => Op::Waited,
        _ => return None,
    })
}

/// Sender operations performed INSIDE the receiver's lock-free windows: `calls[i]` runs at the start of the i-th
/// `on_batch` invocation (i.e. between the receiver's unlock — or the end of the retry wait — and the call),
/// `waits[j]` at the start of the j-th `wait` invocation (between the unlock / the outcome and the wait).
/// This is how sender steps land between the swap-out of a batch and its hand-over without any hook or thread.
/// `cbs[w]` runs from INSIDE the callback of watcher `w`, at the moment it runs (once): sender steps between two
/// callbacks, between the last callback and the hand-over, between the callbacks of an empty hand-off and the
/// exit check — or, on the immediate path, nested in the `when_flushed` / `when_empty` call itself (where the
/// Sender cannot be dropped: `ds` is skipped there).
#[derive(Default, Clone)]
struct Windows {
    calls: BTreeMap<usize, Vec<Op>>,
    waits: BTreeMap<usize, Vec<Op>>,
    cbs: BTreeMap<u64, Vec<Op>>,
    /// `chans[(M, k)]` runs from INSIDE the k-th receiver-side call of `Channel` method M (see `Ch`)
    chans: BTreeMap<(ChanCall, usize), Vec<Op>>,
}

/// What a running callback needs to perform sender ops: the callbacks must be `Send + 'static`, so they cannot
/// capture the (single-threaded) interpreter state; it lives here for the duration of a case.
struct CbCtx {
    core: Rc<RefCell<Core>>,
    sh: Shared,
    cbs: RefCell<BTreeMap<u64, Vec<Op>>>,
    /// the channel windows not yet used, the receiver-side `Channel` calls counted so far, and the lock probes
    chans: RefCell<BTreeMap<(ChanCall, usize), Vec<Op>>>,
    chan_counts: RefCell<BTreeMap<ChanCall, usize>>,
    probe: Arc<ChannelMetrics<Ch>>,
    probes: RefCell<Vec<Probe>>,
    /// > 0 while a `when_flushed` / `when_empty` call is on the stack
    in_sender_call: std::cell::Cell<usize>,
}
thread_local! {
    static CB_CTX: RefCell<Option<Rc<CbCtx>>> = const { RefCell::new(None) };
}
fn cb_ctx() -> Option<Rc<CbCtx>> {
    CB_CTX.with(|c| c.borrow().clone())
}

struct Case {
    cap: usize,
    sp: Vec<usize>,
    win: Windows,
    ops: Vec<Op>,
}

fn parse_case(line: &str) -> Option<Case> {
    let s = Sexp::parse(line)?;
    let (tag, a) = s.as_tagged()?;
    if tag != "b" || a.len() != 4 {
        return None;
    }
    // (capacity 0 is legal — `bounded(0)` — and inside C06's "all capacities": every plain send finds the queue "full",
    // counts a truncation of nothing and keeps its item; C09's bound is stated for capacities ≥ 1)
    let cap = a[0].as_usize()?;
    let (t, sp) = a[1].as_tagged()?;
    if t != "sp" {
        return None;
    }
    let sp = sp.iter().map(|x| x.as_usize()).collect::<Option<Vec<_>>>()?;
    let (t, wins) = a[2].as_tagged()?;
    if t != "win" {
        return None;
    }
    let mut win = Windows::default();
    for w in wins {
        let (kind, rest) = w.as_tagged()?;
        let (idx, ops) = rest.split_first()?;
        let idx = idx.as_usize()?;
        let ops = ops.iter().map(parse_op).collect::<Option<Vec<_>>>()?;
        if !ops.iter().all(|o| o.sender_side() && !matches!(o, Op::SampleTry(_) | Op::SampleSend(_))) {
            return None;
        }
        let dup = match kind {
            "c" => win.calls.insert(idx, ops).is_some(),
            "w" => win.waits.insert(idx, ops).is_some(),
            "cb" => win.cbs.insert(idx as u64, ops).is_some(),
            "n" => win.chans.insert((ChanCall::New, idx), ops).is_some(),
            "l" => win.chans.insert((ChanCall::Len, idx), ops).is_some(),
            "v" => win.chans.insert((ChanCall::WithCap, idx), ops).is_some(),
            _ => return None,
        };
        if dup {
            return None;
        }
    }
    let (t, ops) = a[3].as_tagged()?;
    if t != "ops" {
        return None;
    }
    let ops = ops.iter().map(parse_op).collect::<Option<Vec<_>>>()?;
    Some(Case { cap, sp, win, ops })
}

// ------------------------------------------------------------------ gates and log

/// One ordered log of everything that happens: what emit does (callbacks, calls, waits) and what the harness
/// does to it (sender operations and their results), so that the oracle sees the true order even when sender
/// operations run inside a window of the receiver.
#[derive(Clone, Debug, PartialEq)]
enum Ev {
    // printed
    Fired(u64),
    FiredEmpty(u64),
    Dropped(u64),
    Call(Vec<u64>),
    Wait(u128),
    Done,
    Panic,
    /// result tag of a sender op executed inside a window; printed as `+<tag>` after the events it caused
    Win(String),
    // not printed: inputs of the oracle
    /// the on_batch closure panicked (scripted): the attempt is over
    SyncPanicked,
    Sent { x: u64, q0: usize, t0: usize, q1: usize, t1: usize, b0: usize, b1: usize },
    TryOk(u64),
    TryFull { x: u64, y: u64 },
    /// the counters (truncated, blocked) right before / after an op that is not a plain send; `bump` = the op is a
    /// blocking send whose first attempt failed (the only thing that may move `queue_full_blocked`, by one)
    Counters { t0: usize, b0: usize, t1: usize, b1: usize, bump: bool },
    RegFlush(u64),
    RegEmpty(u64),
    Outcome(Option<Vec<u64>>),
    ReceiverDropped,
    /// a metrics sampling op did not return (the sampler's send blocked on the state lock)
    Hang,
}

enum Scripted {
    Ok,
    Fail,
    Retry(Vec<u64>),
    PanicAsync,
}

#[derive(Default)]
struct Sh {
    log: Vec<Ev>,
    ncalls: usize,
    nwaits: usize,
    sp: Vec<usize>,
    batch_outstanding: bool,
    batch_release: Option<Scripted>,
    wait_outstanding: bool,
    wait_release: bool,
}

type Shared = Arc<Mutex<Sh>>;

fn log(sh: &Shared, e: Ev) {
    sh.lock().unwrap().log.push(e);
}

#[derive(Debug)]
struct E;
impl std::fmt::Display for E {
    fn fmt(&self, f: &mut std::fmt::Formatter) -> std::fmt::Result {
        f.write_str("scripted")
    }
}
impl std::error::Error for E {}

static OUTCOME_FORM: std::sync::atomic::AtomicUsize = std::sync::atomic::AtomicUsize::new(0);

/// "Retry exactly `rem`", built in rotation through every public way a processor can arrive at it (directly, by
/// attaching a remainder to a non-retryable error, by replacing the remainder of a retryable one, by taking an error
/// apart and rebuilding it): the receiver must re-deliver `rem` whichever was used (theorem C06.outcome_forms_agree).
fn retry_outcome(rem: Vec<u64>) -> BatchError<Ch> {
    let rem = Ch(rem);
    match OUTCOME_FORM.fetch_add(1, std::sync::atomic::Ordering::Relaxed) % 4 {
        0 => BatchError::retry(E, rem),
        1 => BatchError::<Ch>::no_retry(E).map_retryable(|_| Some(rem)),
        2 => BatchError::retry(E, Ch(vec![u64::MAX])).map_retryable(|r| r.map(|_| rem)),
        _ => match BatchError::retry(E, rem).try_into_retryable() {
            Ok(r) => BatchError::retry(E, r),
            Err(e) => e,
        },
    }
}

/// "Failed, nothing to retry", likewise.
fn fail_outcome() -> BatchError<Ch> {
    match OUTCOME_FORM.fetch_add(1, std::sync::atomic::Ordering::Relaxed) % 3 {
        0 => BatchError::no_retry(E),
        1 => BatchError::retry(E, Ch(vec![u64::MAX])).map_retryable(|_| None),
        _ => match BatchError::<Ch>::no_retry(E).try_into_retryable() {
            Ok(r) => BatchError::retry(E, r),
            Err(e) => e,
        },
    }
}

struct BatchGate(Shared);
impl Future for BatchGate {
    type Output = Result<(), BatchError<Ch>>;
    fn poll(self: Pin<&mut Self>, _: &mut Context<'_>) -> Poll<Self::Output> {
        let _o = Outside::enter();
        let mut sh = self.0.lock().unwrap();
        match sh.batch_release.take() {
            None => Poll::Pending,
            Some(o) => {
                sh.batch_outstanding = false;
                drop(sh);
                match o {
                    Scripted::Ok => Poll::Ready(Ok(())),
                    Scripted::Fail => Poll::Ready(Err(fail_outcome())),
                    Scripted::Retry(rem) => Poll::Ready(Err(retry_outcome(rem))),
                    Scripted::PanicAsync => panic!("scripted panic inside the on_batch future"),
                }
            }
        }
    }
}

struct WaitGate(Shared);
impl Future for WaitGate {
    type Output = ();
    fn poll(self: Pin<&mut Self>, _: &mut Context<'_>) -> Poll<()> {
        let _o = Outside::enter();
        let mut sh = self.0.lock().unwrap();
        if sh.wait_release {
            sh.wait_release = false;
            sh.wait_outstanding = false;
            Poll::Ready(())
        } else {
            Poll::Pending
        }
    }
}

/// A callback body: records that it ran; records that it was dropped unrun.
struct Cb {
    id: u64,
    flush: bool,
    sh: Shared,
    ran: bool,
}
impl Cb {
    fn run(mut self) {
        let _o = Outside::enter();
        self.ran = true;
        let ev = if self.flush { Ev::Fired(self.id) } else { Ev::FiredEmpty(self.id) };
        log(&self.sh, ev);
        // sender ops scripted for inside this callback
        if let Some(ctx) = cb_ctx() {
            let ops = ctx.cbs.borrow_mut().remove(&self.id);
            if let Some(ops) = ops {
                for op in &ops {
                    let tag = sender_op(&ctx.core, &self.sh, op);
                    log(&self.sh, Ev::Win(tag));
                }
            }
        }
        if self.id >= 5000 {
            panic!("scripted panic inside a callback");
        }
    }
}
impl Drop for Cb {
    fn drop(&mut self) {
        let _o = Outside::enter();
        if !self.ran && self.flush {
            if let Ok(mut sh) = self.sh.lock() {
                sh.log.push(Ev::Dropped(self.id));
            }
        }
    }
}

// ------------------------------------------------------------------ metrics

struct Sample(std::cell::RefCell<Vec<(String, usize)>>);
impl emit::metric::sampler::Sampler for Sample {
    fn metric<P: emit::Props>(&self, metric: emit::metric::Metric<P>) {
        let v = metric.value().by_ref().cast::<usize>().unwrap_or(usize::MAX);
        self.0.borrow_mut().push((metric.name().to_string(), v));
    }
}

fn sample(m: &ChannelMetrics<Ch>) -> impl Fn(&str) -> usize {
    use emit::metric::Source;
    let s = Sample(Default::default());
    m.sample_metrics(&s);
    let v = s.0.into_inner();
    move |name: &str| v.iter().find(|(n, _)| n == name).map(|(_, v)| *v).unwrap_or(usize::MAX)
}

// ------------------------------------------------------------------ implementation-side oracle (I/O only)

#[derive(Default)]
struct Oracle {
    cap: usize,
    fails: BTreeSet<&'static str>,
    queued: Vec<u64>,            // accepted, not truncated, not yet seen in a first attempt
    truncated: BTreeSet<u64>,
    finalised: BTreeSet<u64>,
    inflight: Vec<u64>,          // items of the first-attempt batch whose last attempt has not concluded
    attempts: usize,             // calls made for that batch
    expect_retry: Option<Vec<u64>>,
    batch_waits: Vec<u128>,
    awaiting_outcome: bool,
    obligations: Vec<(u64, Vec<u64>)>,
    fired: Vec<u64>,
    registered: Vec<u64>,
    dropped: Vec<u64>,
    receiver_gone: bool,
}

impl Oracle {
    fn fail(&mut self, what: &'static str) {
        self.fails.insert(what);
    }
    fn conclude(&mut self) {
        let b = std::mem::take(&mut self.inflight);
        self.finalised.extend(b);
        self.attempts = 0;
        self.expect_retry = None;
        self.batch_waits.clear();
    }
    fn event(&mut self, e: &Ev) {
        match e {
            Ev::Sent { x, q0, t0, q1, t1, b0, b1 } => {
                let truncated = t1 != t0;
                if b1 != b0 {
                    self.fail("c09-count"); // a plain send never counts as blocked
                }
                if !truncated && *q0 >= self.cap {
                    self.fail("c09-newest");
                }
                if truncated {
                    if *t1 != t0 + 1 || *q0 < self.cap {
                        self.fail("c09-newest");
                    }
                    // the real queue is the tail of what the oracle still counts as queued (a batch that was
                    // swapped out but not yet handed over is a prefix of it): exactly those q0 items are cleared
                    let keep = self.queued.len().saturating_sub(*q0);
                    let lost = self.queued.split_off(keep);
                    self.truncated.extend(lost);
                }
                let base = if truncated { 0 } else { *q0 };
                if *q1 == base + 1 {
                    self.queued.push(*x);
                    if truncated && *q1 != 1 {
                        self.fail("c09-newest");
                    }
                } else if *q1 != base {
                    self.fail("c09-newest");
                }
            }
            Ev::TryOk(x) => self.queued.push(*x),
            Ev::TryFull { x, y } => {
                if x != y {
                    self.fail("c09-newest");
                }
            }
            Ev::Counters { t0, b0, t1, b1, bump } => {
                // only a plain send that finds the queue full truncates; only a blocking send that finds it
                // full (or closed) counts as blocked
                if t1 != t0 || *b1 != b0 + usize::from(*bump) {
                    self.fail("c09-count");
                }
            }
            Ev::RegFlush(w) => {
                // obligation (I/O only): everything accepted so far that is not yet finalised or truncated
                let mut obs = self.queued.clone();
                obs.extend(self.inflight.iter().copied());
                self.obligations.push((*w, obs));
                self.registered.push(*w);
            }
            Ev::RegEmpty(w) => self.registered.push(*w),
            Ev::Outcome(rem) => {
                self.awaiting_outcome = false;
                match rem {
                    Some(rem) if !rem.is_empty() && self.attempts < 1 + RETRY_MAX => {
                        self.expect_retry = Some(rem.clone());
                    }
                    _ => self.expect_retry = None,
                }
            }
            Ev::ReceiverDropped => self.receiver_gone = true,
            Ev::Hang => self.fail("c09-hang"),
            Ev::Win(_) => {}
            Ev::Call(b) => {
                self.awaiting_outcome = true;
                // a retry call must carry exactly the returned remainder; a call that is exactly the queue is a
                // new batch (the retry was not granted — fewer attempts are allowed by the property)
                let retry = match self.expect_retry.take() {
                    Some(rem) if &rem == b => true,
                    Some(_) if !self.queued.is_empty() && b == &self.queued => false,
                    Some(_) => {
                        self.fail("c06-retry");
                        true
                    }
                    None => false,
                };
                if retry {
                    self.attempts += 1;
                } else {
                    // a new batch: the previous one (if any) is through its last attempt
                    self.conclude();
                    // everything accepted before the swap-out, in order; what was accepted inside the window
                    // between the swap-out and this call stays queued (a prefix is taken, the rest remains)
                    if b.is_empty() || !self.queued.starts_with(b) {
                        self.fail("c06-partition");
                    }
                    let rest = self.queued.split_off(b.len().min(self.queued.len()));
                    self.queued = rest;
                    self.inflight = b.clone();
                    self.attempts = 1;
                }
                if self.attempts > 1 + RETRY_MAX {
                    self.fail("c08-attempts");
                }
            }
            Ev::Wait(d) => {
                if self.expect_retry.is_some() && *d < RETRY_STEP_NS {
                    // shorter than any retry back-off: this is the idle wait, the batch was given up
                    self.conclude();
                }
                if self.expect_retry.is_some() {
                    if let Some(last) = self.batch_waits.last() {
                        if d < last {
                            self.fail("c08-backoff");
                        }
                    }
                    if *d > RETRY_CAP_NS {
                        self.fail("c08-backoff");
                    }
                    self.batch_waits.push(*d);
                }
            }
            Ev::Fired(w) => {
                if self.fired.contains(w) {
                    self.fail("c08-once");
                }
                self.fired.push(*w);
                // a retry that was expected is still pending when callbacks of that batch run => not final
                let pending_retry = self.expect_retry.is_some();
                for (ow, obs) in &self.obligations {
                    if ow == w && !self.receiver_gone {
                        for x in obs {
                            let done = self.finalised.contains(x) || self.truncated.contains(x);
                            let in_flight = self.inflight.contains(x) && (self.awaiting_outcome || pending_retry);
                            let concluded_now = self.inflight.contains(x) && !in_flight;
                            if !(done || concluded_now) || self.queued.contains(x) {
                                self.fails.insert("c07-flush");
                            }
                        }
                    }
                }
            }
            Ev::FiredEmpty(w) => {
                if self.fired.contains(w) {
                    self.fail("c08-once");
                }
                self.fired.push(*w);
            }
            Ev::Dropped(w) => self.dropped.push(*w),
            Ev::Done => {
                self.conclude();
                self.receiver_gone = true;
            }
            Ev::Panic => self.fail("receiver-future-panicked"),
            Ev::SyncPanicked => {
                self.awaiting_outcome = false;
                self.expect_retry = None;
            }
        }
    }
}

// ------------------------------------------------------------------ the interpreter

/// What the schedule interpreter and the closures passed to `exec` share (single thread; the closures run inside
/// `poll`, during which the interpreter holds no borrow).
struct Core {
    sender: Option<Arc<Sender<Ch>>>,
    /// a sampling op did not return within the watchdog limit: the state mutex is held for good, every further op
    /// on this channel would block too — they are skipped
    hung: std::cell::Cell<bool>,
    metrics: ChannelMetrics<Ch>,
}

struct World {
    cap: usize,
    core: Rc<RefCell<Core>>,
    fut: Option<Pin<Box<dyn Future<Output = ()>>>>,
    finished: bool,
    torn_down: bool,
    started: bool,
    sh: Shared,
    or: Oracle,
}

fn items(xs: &[u64]) -> String {
    xs.iter().map(|x| x.to_string()).collect::<Vec<_>>().join(".")
}

/// Execute one sender-side op on the real `Sender`; returns its tag (`x` = no Sender). Everything the oracle needs
/// goes to the log, in order.
fn sender_op(core: &Rc<RefCell<Core>>, sh: &Shared, op: &Op) -> String {
    let ctx = cb_ctx();
    let nested = ctx.as_ref().map(|c| c.in_sender_call.get() > 0).unwrap_or(false);
    struct Depth(Option<Rc<CbCtx>>);
    impl Drop for Depth {
        fn drop(&mut self) {
            if let Some(c) = &self.0 {
                c.in_sender_call.set(c.in_sender_call.get() - 1);
            }
        }
    }
    let enter = || {
        if let Some(c) = &ctx {
            c.in_sender_call.set(c.in_sender_call.get() + 1);
        }
        Depth(ctx.clone())
    };
    if let Op::DropSender = op {
        if nested {
            return "x".into(); // inside a when_flushed / when_empty call: the Sender is borrowed
        }
        let s = core.borrow_mut().sender.take();
        return match s {
            None => "x".into(),
            Some(s) => {
                drop(s);
                "ds".into()
            }
        };
    }
    let core = core.borrow();
    if core.hung.get() {
        return "x".into();
    }
    let Some(s) = core.sender.as_ref() else {
        return "x".into();
    };
    match op {
        Op::SampleTry(x) | Op::SampleSend(x) => {
            // on a helper thread under a watchdog: a deadlock becomes the observable `hang` within 3 s
            let is_try = matches!(op, Op::SampleTry(_));
            let (x, s2, sh2) = (*x, s.clone(), sh.clone());
            let m2 = s.metric_source();
            let verdict = super::guard::run(move || {
                use emit::metric::Source;
                struct Emitting<F: Fn()>(std::cell::Cell<bool>, F);
                impl<F: Fn()> emit::metric::sampler::Sampler for Emitting<F> {
                    fn metric<P: emit::Props>(&self, _: emit::metric::Metric<P>) {
                        if !self.0.replace(true) {
                            (self.1)();
                        }
                    }
                }
                let tag = std::cell::RefCell::new(String::from("m=nocall"));
                let before = sample(&m2);
                let (q0, t0, b0) = (before("queue_length"), before("queue_full_truncated"), before("queue_full_blocked"));
                m2.sample_metrics(&Emitting(std::cell::Cell::new(false), || {
                    *tag.borrow_mut() = if is_try {
                        match s2.try_send(x) {
                            Ok(()) => {
                                log(&sh2, Ev::TryOk(x));
                                "m=ok".into()
                            }
                            Err(e) => match e.into_retryable() {
                                Some(y) => {
                                    log(&sh2, Ev::TryFull { x, y });
                                    format!("m=full({})", y)
                                }
                                None => "m=closed".into(),
                            },
                        }
                    } else {
                        s2.send(x);
                        "ms".into()
                    };
                }));
                if !is_try {
                    let after = sample(&m2);
                    let (q1, t1, b1) = (after("queue_length"), after("queue_full_truncated"), after("queue_full_blocked"));
                    log(&sh2, Ev::Sent { x, q0, t0, q1, t1, b0, b1 });
                }
                drop(s2);
                tag.into_inner()
            });
            // on a helper thread under the watchdog (guard.rs): a sampler that blocks on the state lock is a
            // dead-locked thread, seen within ~0.1 s
            match verdict {
                super::guard::Verdict::Done(tag) => tag,
                _ => {
                    core.hung.set(true);
                    log(sh, Ev::Hang);
                    "m=hang".into()
                }
            }
        }
        Op::Send(x) => {
            let before = sample(&core.metrics);
            let (q0, t0, b0) = (before("queue_length"), before("queue_full_truncated"), before("queue_full_blocked"));
            s.send(*x);
            let after = sample(&core.metrics);
            let (q1, t1, b1) = (after("queue_length"), after("queue_full_truncated"), after("queue_full_blocked"));
            log(sh, Ev::Sent { x: *x, q0, t0, q1, t1, b0, b1 });
            "s".into()
        }
        Op::Try(x) => {
            let before = sample(&core.metrics);
            let (t0, b0) = (before("queue_full_truncated"), before("queue_full_blocked"));
            let r = s.try_send(*x);
            let after = sample(&core.metrics);
            let (t1, b1) = (after("queue_full_truncated"), after("queue_full_blocked"));
            log(sh, Ev::Counters { t0, b0, t1, b1, bump: false });
            match r {
                Ok(()) => {
                    log(sh, Ev::TryOk(*x));
                    "t=ok".into()
                }
                Err(e) => match e.into_retryable() {
                    Some(y) => {
                        log(sh, Ev::TryFull { x: *x, y });
                        format!("t=full({})", y)
                    }
                    None => "t=closed".into(),
                },
            }
        }
        Op::Bsend(k, x) => {
            // ZERO timeout: one try_send, the blocked accounting, the item handed back — no wait anywhere
            let before = sample(&core.metrics);
            let (t0, b0) = (before("queue_full_truncated"), before("queue_full_blocked"));
            let r = match k {
                Bk::Sync => Some(emit_batcher::sync::blocking_send(s, *x, Duration::ZERO)),
                Bk::Tokio => Some(emit_batcher::tokio::blocking_send(s, *x, Duration::ZERO)),
                Bk::Async => {
                    let mut fut = Box::pin(emit_batcher::tokio::send(s, *x, Duration::ZERO));
                    let mut cx = Context::from_waker(Waker::noop());
                    match fut.as_mut().poll(&mut cx) {
                        Poll::Ready(r) => Some(r),
                        Poll::Pending => None,
                    }
                }
            };
            let after = sample(&core.metrics);
            let (t1, b1) = (after("queue_full_truncated"), after("queue_full_blocked"));
            log(sh, Ev::Counters { t0, b0, t1, b1, bump: !matches!(r, Some(Ok(()))) });
            match r {
                None => format!("{}=pending", k.tag()),
                Some(Ok(())) => {
                    log(sh, Ev::TryOk(*x));
                    format!("{}=ok", k.tag())
                }
                Some(Err(e)) => match e.into_retryable() {
                    Some(y) => {
                        log(sh, Ev::TryFull { x: *x, y });
                        format!("{}=full({})", k.tag(), y)
                    }
                    None => format!("{}=closed", k.tag()),
                },
            }
        }
        Op::Q => {
            let m = sample(&core.metrics);
            format!("q={}/{}/{}", m("queue_length"), m("queue_full_truncated"), m("queue_full_blocked"))
        }
        Op::Flush(w) => {
            log(sh, Ev::RegFlush(*w));
            let cb = Cb { id: *w, flush: true, sh: sh.clone(), ran: false };
            let _depth = enter();
            let _ = hcommon::catch(|| s.when_flushed(move || cb.run()));
            "f".into()
        }
        Op::Empty(w) => {
            log(sh, Ev::RegEmpty(*w));
            let cb = Cb { id: *w, flush: false, sh: sh.clone(), ran: false };
            let _depth = enter();
            let _ = hcommon::catch(|| s.when_empty(move || cb.run()));
            "e".into()
        }
        _ => "?".into(),
    }
}

fn run_window(core: &Rc<RefCell<Core>>, sh: &Shared, ops: Option<&Vec<Op>>) {
    if let Some(ops) = ops {
        for op in ops {
            let tag = sender_op(core, sh, op);
            log(sh, Ev::Win(tag));
        }
    }
}

impl World {
    fn new(cap: usize, sp: Vec<usize>, win: Windows) -> World {
        let (sender, receiver): (Sender<Ch>, Receiver<Ch>) = emit_batcher::bounded(cap);
        let metrics = sender.metric_source();
        let probe = Arc::new(sender.metric_source());
        let core = Rc::new(RefCell::new(Core { sender: Some(Arc::new(sender)), metrics, hung: std::cell::Cell::new(false) }));
        let sh: Shared = Arc::new(Mutex::new(Sh { sp, ..Default::default() }));
        CB_CTX.with(|c| {
            *c.borrow_mut() = Some(Rc::new(CbCtx {
                core: core.clone(),
                sh: sh.clone(),
                cbs: RefCell::new(win.cbs.clone()),
                chans: RefCell::new(win.chans.clone()),
                chan_counts: RefCell::new(BTreeMap::new()),
                probe,
                probes: RefCell::new(Vec::new()),
                in_sender_call: std::cell::Cell::new(0),
            }))
        });
        let win = Rc::new(win);
        let fut = {
            let (sh_w, core_w, win_w) = (sh.clone(), core.clone(), win.clone());
            let (sh_b, core_b, win_b) = (sh.clone(), core.clone(), win.clone());
            receiver.exec(
                move |d: Duration| {
                    let _o = Outside::enter();
                    let idx = sh_w.lock().unwrap().nwaits;
                    run_window(&core_w, &sh_w, win_w.waits.get(&idx));
                    let mut s = sh_w.lock().unwrap();
                    s.nwaits += 1;
                    s.log.push(Ev::Wait(d.as_nanos()));
                    s.wait_outstanding = true;
                    s.wait_release = false;
                    drop(s);
                    WaitGate(sh_w.clone())
                },
                move |batch: Ch| {
                    let _o = Outside::enter();
                    let batch = batch.0;
                    let idx = sh_b.lock().unwrap().ncalls;
                    run_window(&core_b, &sh_b, win_b.calls.get(&idx));
                    let mut s = sh_b.lock().unwrap();
                    s.ncalls += 1;
                    s.log.push(Ev::Call(batch));
                    if s.sp.contains(&idx) {
                        s.log.push(Ev::SyncPanicked);
                        drop(s);
                        panic!("scripted panic in the on_batch closure");
                    }
                    s.batch_outstanding = true;
                    s.batch_release = None;
                    drop(s);
                    BatchGate(sh_b.clone())
                },
            )
        };
        World {
            cap,
            core,
            fut: Some(Box::pin(fut)),
            finished: false,
            torn_down: false,
            started: false,
            sh,
            or: Oracle { cap, ..Default::default() },
        }
    }

    fn poll(&mut self) {
        if let Some(f) = self.fut.as_mut() {
            self.started = true;
            let _i = Inside::enter();
            let mut cx = Context::from_waker(Waker::noop());
            match hcommon::catch(|| f.as_mut().poll(&mut cx)) {
                Some(Poll::Ready(())) => {
                    self.fut = None;
                    self.finished = true;
                    log(&self.sh, Ev::Done);
                }
                Some(Poll::Pending) => {}
                None => {
                    self.fut = None;
                    self.finished = true;
                    log(&self.sh, Ev::Panic);
                }
            }
        }
    }

    /// returns the output token of the op
    fn op(&mut self, op: &Op) -> String {
        if self.core.borrow().hung.get() {
            return "x|-/-/-".into(); // the state mutex is held for good: nothing can be done on this channel
        }
        let tag: String = match op {
            Op::Send(_)
            | Op::Try(_)
            | Op::Flush(_)
            | Op::Empty(_)
            | Op::DropSender
            | Op::SampleTry(_)
            | Op::SampleSend(_)
            | Op::Bsend(..)
            | Op::Q => sender_op(&self.core, &self.sh, op),
            Op::DropReceiver => match self.fut.take() {
                None => "x".into(),
                Some(f) => {
                    drop(f);
                    self.torn_down = true;
                    let mut sh = self.sh.lock().unwrap();
                    sh.log.push(Ev::ReceiverDropped);
                    sh.batch_outstanding = false;
                    sh.wait_outstanding = false;
                    "dr".into()
                }
            },
            Op::Poll => {
                if self.fut.is_none() {
                    "x".into()
                } else {
                    self.poll();
                    "r".into()
                }
            }
            Op::Ok | Op::Fail | Op::Retry(_) | Op::PanicAsync => {
                let outstanding = self.fut.is_some() && self.sh.lock().unwrap().batch_outstanding;
                if !outstanding {
                    "x".into()
                } else {
                    {
                        let mut sh = self.sh.lock().unwrap();
                        sh.batch_release = Some(match op {
                            Op::Ok => Scripted::Ok,
                            Op::Fail => Scripted::Fail,
                            Op::Retry(r) => Scripted::Retry(r.clone()),
                            _ => Scripted::PanicAsync,
                        });
                        sh.log.push(Ev::Outcome(match op {
                            Op::Retry(r) => Some(r.clone()),
                            _ => None,
                        }));
                    }
                    self.poll();
                    "r".into()
                }
            }
            Op::Waited => {
                let outstanding = self.fut.is_some() && self.sh.lock().unwrap().wait_outstanding;
                if !outstanding {
                    "x".into()
                } else {
                    self.sh.lock().unwrap().wait_release = true;
                    self.poll();
                    "r".into()
                }
            }
        };
        // events of this op, in the order they happened
        let evs: Vec<Ev> = std::mem::take(&mut self.sh.lock().unwrap().log);
        let mut out = tag;
        for e in &evs {
            self.or.event(e);
            let txt = match e {
                Ev::Fired(w) => format!("!{}", w),
                Ev::FiredEmpty(w) => format!("?{}", w),
                Ev::Dropped(w) => format!("~{}", w),
                Ev::Call(b) => format!("c({})", items(b)),
                Ev::Wait(d) => format!("w{}", d),
                Ev::Done => "done".into(),
                Ev::Panic => "PANIC".into(),
                Ev::Win(t) => format!("+{}", t),
                _ => continue,
            };
            out.push(',');
            out.push_str(&txt);
        }
        if self.core.borrow().hung.get() {
            out.push_str("|-/-/-");
            return out;
        }
        let after = sample(&self.core.borrow().metrics);
        let (q, t, b) = (after("queue_length"), after("queue_full_truncated"), after("queue_full_blocked"));
        // (C09 quantifies over capacities ≥ 1; with the legal capacity 0 every plain send "truncates" an empty queue
        // and keeps its item, so one item is pending)
        if q > self.cap.max(1) {
            self.or.fail("c09-capacity");
        }
        out.push_str(&format!("|{}/{}/{}", q, t, b));
        out
    }

    fn finish(&mut self) -> String {
        if self.core.borrow().hung.get() {
            return "F:hung".into();
        }
        let sh = self.sh.lock().unwrap();
        let st = if self.torn_down {
            "dropped"
        } else if self.finished {
            "done"
        } else if !self.started {
            "new"
        } else if sh.batch_outstanding {
            "proc"
        } else if sh.wait_outstanding {
            "wait"
        } else {
            "lost"
        };
        drop(sh);
        // when exec has returned every registered callback has run exactly once (none dropped, none left)
        if self.finished && !self.torn_down {
            let mut f = self.or.fired.clone();
            let mut r = self.or.registered.clone();
            f.sort();
            r.sort();
            if f != r || !self.or.dropped.is_empty() {
                self.or.fail("c08-once");
            }
            if !self.or.queued.is_empty() {
                self.or.fail("c08-drain");
            }
        }
        let m = sample(&self.core.borrow().metrics);
        format!(
            "F:{},proc={},fail={},panic={},retry={}",
            st,
            m("queue_batch_processed"),
            m("queue_batch_failed"),
            m("queue_batch_panicked"),
            m("queue_batch_retry")
        )
    }
}

impl Drop for World {
    fn drop(&mut self) {
        if self.core.borrow().hung.get() {
            // dropping the Receiver would block on the state mutex: leak it
            std::mem::forget(self.fut.take());
        }
        CB_CTX.with(|c| *c.borrow_mut() = None);
    }
}

/// every property is violated by a channel that wedges (accepted items are never delivered, a flush never
/// completes, the worker makes no progress, a send blocks): each projection keeps its own
const HANG_FAILS: &str = "c06-hang+c07-hang+c08-hang+c09-hang";

fn run_batcher(line: &str) -> String {
    let Some(c) = parse_case(line) else {
        return "bad-case".into();
    };
    let nops = c.ops.len();
    // the case is interpreted on a helper thread under the watchdog (guard.rs); the tokens are shared so that a
    // case that wedges still prints how far it got
    let toks: Arc<Mutex<Vec<String>>> = Arc::new(Mutex::new(Vec::new()));
    let toks2 = toks.clone();
    let verdict = super::guard::run(move || {
        let mut w = World::new(c.cap, c.sp, c.win);
        for op in &c.ops {
            let t = w.op(op);
            toks2.lock().unwrap().push(t);
        }
        let fin = w.finish();
        (fin, w.or.fails.iter().copied().collect::<Vec<_>>().join("+"))
    });
    let mut toks = std::mem::take(&mut *toks.lock().unwrap());
    match verdict {
        super::guard::Verdict::Done((fin, fails)) => {
            toks.push(fin);
            let mut out = toks.join(" ");
            if !fails.is_empty() {
                out.push_str("\tFAIL:");
                out.push_str(&fails);
            }
            out
        }
        super::guard::Verdict::Panicked => "panic".into(),
        super::guard::Verdict::Hung => {
            // the op that never returned, then everything that could not be run
            if toks.len() < nops {
                toks.push("hang|-/-/-".into());
            }
            while toks.len() < nops {
                toks.push("x|-/-/-".into());
            }
            toks.push("F:hung".into());
            format!("{}\tFAIL:{}", toks.join(" "), HANG_FAILS)
        }
    }
}

// ------------------------------------------------------------------ generator

fn show_op(op: &Op) -> Sexp {
    let n = |x: &u64| Sexp::num(*x);
    match op {
        Op::Send(x) => Sexp::tagged("s", vec![n(x)]),
        Op::SampleTry(x) => Sexp::tagged("m", vec![n(x)]),
        Op::SampleSend(x) => Sexp::tagged("ms", vec![n(x)]),
        Op::Try(x) => Sexp::tagged("t", vec![n(x)]),
        Op::Bsend(k, x) => Sexp::tagged(k.tag(), vec![n(x)]),
        Op::Q => Sexp::tagged("q", vec![]),
        Op::Flush(w) => Sexp::tagged("f", vec![n(w)]),
        Op::Empty(w) => Sexp::tagged("e", vec![n(w)]),
        Op::DropSender => Sexp::tagged("ds", vec![]),
        Op::DropReceiver => Sexp::tagged("dr", vec![]),
        Op::Poll => Sexp::tagged("poll", vec![]),
        Op::Ok => Sexp::tagged("ok", vec![]),
        Op::Fail => Sexp::tagged("fail", vec![]),
        Op::PanicAsync => Sexp::tagged("pa", vec![]),
        Op::Retry(r) => Sexp::tagged("retry", r.iter().map(n).collect()),
        Op::Waited => Sexp::tagged("w", vec![]),
    }
}

/// One schedule. The generator interprets the schedule on the real code while it builds it, only to see which
/// gate is outstanding and what the last batch was, so that most receiver-side ops are enabled (an outcome when a
/// batch is being processed, a wait release when waiting) and remainders relate to the batch; every op is legal
/// anywhere — an op that is not enabled prints `x` on both sides — and a share of the ops is drawn blindly.
/// What the generator has decided so far — shared with the watchdog so that a schedule whose interpretation wedges
/// can still be emitted (up to and including the op that never returned: the reproducer).
#[derive(Default)]
struct Partial {
    cap: usize,
    sp: Vec<usize>,
    win: Windows,
    ops: Vec<Op>,
}

fn pick_bk(rng: &mut Rng) -> Bk {
    match rng.below(3) {
        0 => Bk::Sync,
        1 => Bk::Tokio,
        _ => Bk::Async,
    }
}

/// `interpret = false`: the implementation is not executed at all (it wedged earlier in this generator run); the
/// receiver-side ops are then drawn without knowing which gate is outstanding.
fn gen_one(rng: &mut Rng, tier: Tier, interpret: bool, partial: &Mutex<Partial>) -> String {
    let cap = match rng.below(10) {
        0 if rng.chance(1, 4) => 0,
        0 => 1,
        1 => 2,
        2..=5 => rng.range(2, 4) as usize,
        6..=8 => rng.range(3, 8) as usize,
        _ => rng.range(1, 12) as usize,
    };
    let len = match tier {
        Tier::Quick => rng.range(0, 60) as usize,
        Tier::Thorough => rng.range(0, 200) as usize,
    };
    // profile of this schedule
    let retry_heavy = rng.chance(1, 5); // long retry chains (exhaust the budget of 10)
    let exhaust = retry_heavy && rng.chance(1, 2); // … without interruption
    let send_heavy = !exhaust && rng.chance(1, 4); // overflow
    let never_runs = rng.chance(1, 12); // a receiver that is never polled / a processor that never returns
    // a long idle stretch first: ≥ 10 consecutive empty hand-offs, so the idle back-off reaches its cap (500 ms at
    // the 9th wait), with sender ops inside the windows of those LATE idle waits (and between them)
    let idle_heavy = !never_runs && rng.chance(1, 8);
    // … one idle stretch in four goes past 32 consecutive waits (any closed form of the doubling delay in 32-bit
    // arithmetic has run out of bits by then; the delay sits at its cap from the 9th wait on)
    let idle_len = if idle_heavy { if rng.chance(1, 4) { rng.range(33, 40) as usize } else { rng.range(12, 20) as usize } } else { 0 };
    let len = len.max(idle_len + if idle_heavy { 6 } else { 0 });
    let keep_alive = idle_heavy && rng.chance(3, 4);
    let drop_s_at = if !keep_alive && rng.chance(1, 3) { Some(rng.usize(len + 1)) } else { None };
    let drop_r_at = if !keep_alive && rng.chance(1, 8) { Some(rng.usize(len + 1)) } else { None };
    let mut sp = Vec::new();
    for i in 0..24 {
        if rng.chance(1, 14) {
            sp.push(i);
        }
    }
    // sender operations inside the receiver's lock-free windows (half of the schedules)
    let mut win = Windows::default();
    if rng.chance(1, 2) {
        let mut next_win_item = 2000u64;
        let mut next_win_w = 3000u64;
        let mut gen_ops = |rng: &mut Rng| -> Vec<Op> {
            (0..rng.range(1, 3))
                .map(|_| match rng.below(24) {
                    20 | 21 => {
                        next_win_item += 1;
                        Op::Bsend(pick_bk(rng), next_win_item)
                    }
                    22 | 23 => Op::Q,
                    0..=9 => {
                        next_win_item += 1;
                        Op::Send(next_win_item)
                    }
                    10..=12 => {
                        next_win_item += 1;
                        Op::Try(next_win_item)
                    }
                    13..=15 => {
                        next_win_w += 1;
                        Op::Flush(next_win_w)
                    }
                    16..=18 => {
                        next_win_w += 1;
                        Op::Empty(next_win_w)
                    }
                    _ => Op::DropSender,
                })
                .collect()
        };
        for i in 0..16 {
            if rng.chance(1, 4) {
                win.calls.insert(i, gen_ops(rng));
            }
        }
        for j in 0..24 {
            if rng.chance(1, 8) {
                win.waits.insert(j, gen_ops(rng));
            }
        }
    }
    // sender ops from inside the receiver's own calls of the user-supplied `Channel` methods (a quarter of the
    // schedules): `new` (index 0 = when exec starts; then one per hand-off — inside the critical section on the
    // unchanged tree, where the window can only observe `held`), `len` (one inside the critical section, one after the
    // when_empty callbacks of every hand-off, one before the re-allocation for a non-empty batch, one per returned
    // remainder) and `with_capacity` (one per non-empty batch). "send, then ask to be told when it is flushed" is the
    // payload that matters most at a hand-off, so it is the most frequent one.
    if rng.chance(1, 4) {
        let mut next_item = 6000u64;
        let mut next_w = 3500u64;
        let mut gen_ops = |rng: &mut Rng| -> Vec<Op> {
            if rng.chance(1, 2) {
                next_item += 1;
                next_w += 1;
                return vec![Op::Send(next_item), Op::Flush(next_w)];
            }
            (0..rng.range(1, 3))
                .map(|_| match rng.below(12) {
                    0..=3 => {
                        next_item += 1;
                        Op::Send(next_item)
                    }
                    4 => {
                        next_item += 1;
                        Op::Try(next_item)
                    }
                    5 => {
                        next_item += 1;
                        Op::Bsend(pick_bk(rng), next_item)
                    }
                    6..=8 => {
                        next_w += 1;
                        Op::Flush(next_w)
                    }
                    9 => {
                        next_w += 1;
                        Op::Empty(next_w)
                    }
                    10 => Op::Q,
                    _ => Op::DropSender,
                })
                .collect()
        };
        for _ in 0..rng.range(1, 2) {
            let k = if rng.chance(1, 6) { 0 } else { rng.range(1, if idle_heavy { 14 } else { 6 }) as usize };
            let ops = gen_ops(rng);
            win.chans.entry((ChanCall::New, k)).or_insert(ops);
        }
        for _ in 0..rng.range(0, 3) {
            let k = rng.range(0, if idle_heavy { 30 } else { 16 }) as usize;
            let ops = gen_ops(rng);
            win.chans.entry((ChanCall::Len, k)).or_insert(ops);
        }
        if rng.chance(1, 2) {
            let k = rng.range(0, 4) as usize;
            let ops = gen_ops(rng);
            win.chans.entry((ChanCall::WithCap, k)).or_insert(ops);
        }
    }
    // sender ops from inside callbacks (half of the schedules): decided per registered watcher, see below;
    // the watchers registered inside windows get theirs now
    let with_cbs = rng.chance(1, 2);
    let mut next_cb_item = 8000u64;
    let mut next_cb_w = 4000u64;
    let mut gen_cb_ops = |rng: &mut Rng, cbs: &mut BTreeMap<u64, Vec<Op>>| -> Vec<Op> {
        let mut out = Vec::new();
        for _ in 0..rng.range(1, 3) {
            out.push(match rng.below(30) {
                24..=26 => {
                    next_cb_item += 1;
                    Op::Bsend(pick_bk(rng), next_cb_item)
                }
                27..=29 => Op::Q,
                0..=7 => {
                    next_cb_item += 1;
                    Op::Send(next_cb_item)
                }
                8..=11 => {
                    next_cb_item += 1;
                    Op::Try(next_cb_item)
                }
                12..=16 | 17..=20 => {
                    next_cb_w += 1;
                    let w = next_cb_w;
                    // a nested payload for the watcher registered from inside the callback
                    if rng.chance(1, 4) {
                        next_cb_item += 1;
                        let mut inner = vec![match rng.below(5) {
                            0 | 1 => Op::Try(next_cb_item),
                            2 | 3 => Op::Send(next_cb_item),
                            _ => Op::Bsend(pick_bk(rng), next_cb_item),
                        }];
                        if rng.chance(1, 3) {
                            inner.push(Op::Q);
                        }
                        if rng.chance(1, 3) {
                            inner.push(Op::DropSender);
                        }
                        cbs.insert(w, inner);
                    }
                    if rng.below(9) < 5 {
                        Op::Flush(w)
                    } else {
                        Op::Empty(w)
                    }
                }
                _ => Op::DropSender,
            });
        }
        out
    };
    if with_cbs {
        let win_ws: Vec<u64> = win
            .calls
            .values()
            .chain(win.waits.values())
            .chain(win.chans.values())
            .flatten()
            .filter_map(|o| match o {
                Op::Flush(w) | Op::Empty(w) => Some(*w),
                _ => None,
            })
            .collect();
        for w in win_ws {
            if rng.chance(1, 3) {
                let ops = gen_cb_ops(rng, &mut win.cbs);
                win.cbs.insert(w, ops);
            }
        }
    }
    if idle_heavy {
        let mut id = 2500u64;
        for j in 8..=14usize {
            if rng.chance(1, 2) && !win.waits.contains_key(&j) {
                let n = rng.range(1, 2);
                let ops = (0..n)
                    .map(|_| {
                        id += 1;
                        if rng.chance(2, 3) {
                            Op::Send(id)
                        } else {
                            Op::Try(id)
                        }
                    })
                    .collect();
                win.waits.insert(j, ops);
            }
        }
    }
    {
        let mut p = partial.lock().unwrap();
        p.cap = cap;
        p.sp = sp.clone();
        p.win = win.clone();
    }
    let mut world = if interpret { Some(World::new(cap, sp.clone(), win.clone())) } else { None };
    let mut next_item = 1u64;
    let mut next_w = 100u64;
    let mut ops: Vec<Op> = Vec::new();
    let mut last_call: Vec<u64> = Vec::new();
    // a flush storm (one schedule in sixteen): 66-100 flushes in a row, all waiting on the same batch — "any number of
    // concurrent flushers"
    let mut storm_at = if rng.chance(1, 16) { Some(rng.usize(len + 1)) } else { None };
    let mut storm: Vec<Op> = Vec::new();
    let mut i = 0usize;
    while i < len || !storm.is_empty() {
        if Some(i) == storm_at {
            storm_at = None;
            for _ in 0..rng.range(66, 100) {
                next_w += 1;
                storm.push(Op::Flush(next_w));
            }
        }
        let from_storm = !storm.is_empty();
        let op = if let Some(o) = storm.pop() {
            o
        } else if Some(i) == drop_s_at {
            Op::DropSender
        } else if Some(i) == drop_r_at {
            Op::DropReceiver
        } else {
            let (proc_, wait_, gone) = match &world {
                Some(world) => {
                    let sh = world.sh.lock().unwrap();
                    (sh.batch_outstanding, sh.wait_outstanding, world.fut.is_none())
                }
                // not interpreting: guess what the receiver is resting at
                None => (rng.chance(1, 3), rng.chance(1, 3), false),
            };
            let idling = i < idle_len && !gone;
            let blind = !idling && rng.chance(1, 10);
            let rx_turn = !never_runs
                && !gone
                && if send_heavy {
                    rng.chance(1, 4)
                } else if exhaust {
                    rng.chance(5, 6)
                } else {
                    rng.chance(1, 2)
                };
            if idling && !(i > 9 && rng.chance(1, 10)) {
                // keep the receiver going through empty hand-offs; a batch (from a window send) is processed at once
                if proc_ {
                    Op::Ok
                } else if wait_ {
                    Op::Waited
                } else {
                    Op::Poll
                }
            } else if !blind && rx_turn {
                if proc_ {
                    let o = if retry_heavy { rng.below(3) + 2 } else { rng.below(8) };
                    match o {
                        0 | 1 | 7 => Op::Ok,
                        2 | 3 | 4 => {
                            // remainder: usually a sub-list of the batch, sometimes anything (adversarial processor)
                            let rem: Vec<u64> = match if exhaust { 5 } else { rng.below(if retry_heavy { 12 } else { 6 }) } {
                                0 => vec![],
                                1 => last_call.clone(),
                                2 => vec![rng.range(900, 999)],
                                3 => last_call.iter().rev().copied().collect(),
                                4 => last_call.iter().copied().filter(|_| rng.chance(2, 3)).collect(),
                                _ => {
                                    // drop at most one item, never empty
                                    let mut r = last_call.clone();
                                    if r.len() > 1 && rng.bool() {
                                        r.remove(rng.usize(r.len()));
                                    }
                                    r
                                }
                            };
                            Op::Retry(rem)
                        }
                        5 => Op::Fail,
                        _ => Op::PanicAsync,
                    }
                } else if wait_ {
                    Op::Waited
                } else {
                    Op::Poll
                }
            } else {
                let k = rng.below(if blind { 16 } else { 10 });
                match k {
                    0..=4 => {
                        let x = next_item;
                        next_item += 1;
                        if rng.chance(1, 14) {
                            // a self-monitoring pipeline: the metrics sampler emits into the channel it samples
                            if rng.bool() {
                                Op::SampleTry(x)
                            } else {
                                Op::SampleSend(x)
                            }
                        } else if rng.chance(1, 10) {
                            Op::Bsend(pick_bk(rng), x)
                        } else if send_heavy || rng.chance(2, 3) {
                            Op::Send(x)
                        } else {
                            Op::Try(x)
                        }
                    }
                    5 => {
                        let x = next_item;
                        next_item += 1;
                        if rng.chance(1, 3) {
                            Op::Bsend(pick_bk(rng), x)
                        } else {
                            Op::Try(x)
                        }
                    }
                    6 | 7 => {
                        next_w += 1;
                        Op::Flush(if rng.chance(1, 10) { 5000 + next_w } else { next_w })
                    }
                    8 | 9 => {
                        next_w += 1;
                        Op::Empty(if rng.chance(1, 10) { 5000 + next_w } else { next_w })
                    }
                    10 => Op::Poll,
                    11 => Op::Ok,
                    12 => Op::Waited,
                    13 => Op::Retry(vec![rng.range(1, next_item)]),
                    14 => Op::PanicAsync,
                    _ => Op::Fail,
                }
            }
        };
        // sender ops from inside the callback this op registers
        if with_cbs {
            if let Op::Flush(w) | Op::Empty(w) = &op {
                if rng.chance(1, 3) && !win.cbs.contains_key(w) {
                    let mut extra = BTreeMap::new();
                    let cb_ops = gen_cb_ops(rng, &mut extra);
                    extra.insert(*w, cb_ops);
                    if let Some(ctx) = cb_ctx() {
                        ctx.cbs.borrow_mut().extend(extra.clone());
                    }
                    partial.lock().unwrap().win.cbs.extend(extra.clone());
                    win.cbs.extend(extra);
                }
            }
        }
        partial.lock().unwrap().ops.push(op.clone());
        // advance the real code; remember the argument of the last on_batch call
        if let Some(world) = world.as_mut() {
            let tok = world.op(&op);
            for part in tok.split(|c| c == ',' || c == '|') {
                if let Some(b) = part.strip_prefix("c(").and_then(|p| p.strip_suffix(')')) {
                    last_call = b.split('.').filter_map(|x| x.parse().ok()).collect();
                }
            }
        }
        ops.push(op);
        if !from_storm {
            i += 1;
        }
    }
    render_case(cap, &sp, &win, &ops)
}

fn render_case(cap: usize, sp: &[usize], win: &Windows, ops: &[Op]) -> String {
    Sexp::tagged(
        "b",
        vec![
            Sexp::num(cap),
            Sexp::tagged("sp", sp.iter().map(|x| Sexp::num(*x)).collect()),
            Sexp::tagged(
                "win",
                win.calls
                    .iter()
                    .map(|(i, o)| ("c", i, o))
                    .chain(win.waits.iter().map(|(i, o)| ("w", i, o)))
                    .map(|(k, i, o)| {
                        let mut v = vec![Sexp::num(*i)];
                        v.extend(o.iter().map(show_op));
                        Sexp::tagged(k, v)
                    })
                    .chain(win.cbs.iter().map(|(w, o)| {
                        let mut v = vec![Sexp::num(*w)];
                        v.extend(o.iter().map(show_op));
                        Sexp::tagged("cb", v)
                    }))
                    .chain(win.chans.iter().map(|((k, i), o)| {
                        let mut v = vec![Sexp::num(*i)];
                        v.extend(o.iter().map(show_op));
                        Sexp::tagged(k.tag(), v)
                    }))
                    .collect(),
            ),
            Sexp::tagged("ops", ops.iter().map(show_op).collect()),
        ],
    )
    .to_string()
}

/// The generator interprets each schedule on the real code while it builds it — under the watchdog (guard.rs): a
/// schedule whose interpretation wedges is emitted as it stands, and after two of them the implementation is not
/// executed any more (the remaining schedules are drawn blindly), so a wedged implementation costs the generator
/// a fraction of a second, not the 30 minutes `check` would wait.
fn gen_batcher(rng: &mut Rng, tier: Tier, n: usize) -> Vec<String> {
    let mut out = Vec::with_capacity(n);
    let mut wedged = 0;
    for _ in 0..n {
        let partial: Arc<Mutex<Partial>> = Arc::new(Mutex::new(Partial::default()));
        if wedged >= 2 {
            out.push(gen_one(rng, tier, false, &partial));
            continue;
        }
        let (mut r2, p2) = (rng.clone(), partial.clone());
        match super::guard::run(move || {
            let line = gen_one(&mut r2, tier, true, &p2);
            (line, r2)
        }) {
            super::guard::Verdict::Done((line, r)) => {
                *rng = r;
                out.push(line);
            }
            _ => {
                wedged += 1;
                rng.next();
                let p = partial.lock().unwrap();
                out.push(render_case(p.cap.max(1), &p.sp, &p.win, &p.ops));
            }
        }
    }
    out
}
