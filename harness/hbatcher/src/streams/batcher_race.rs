//! C09 — stream `batcher_race` (quick tier, a handful of cases, ~50-100 ms each): the capacity bound under REAL
//! thread interleavings in the one place where deterministic sender steps cannot reach — the teardown of the
//! overflowing queue inside `Sender::send`.
//!
//! The channel holds items whose `Drop` sleeps ~20 ms, so clearing a full queue of `CAP` items takes CAP × 20 ms.
//! Thread A `send`s on the full queue (overflow: clear + count + push); NB other threads start a few ms later and
//! `try_send` CAP more items between them while A is still tearing the old queue down. The code holds the state
//! lock across clear-and-push, so the others wait and the queue never exceeds CAP (theorem C09.capacity_bound:
//! EVERY interleaving of the atomic steps). A `send` that tears the queue down outside the lock and pushes
//! afterwards without re-checking reaches CAP + 1.
//!
//! case: (race CAP NB SEED)      output: max_pending<=cap   (the theorem-determined value; the Lean side prints it)
//! oracle: c09-capacity — the largest queue_length observed (sampled by a monitor thread every ~1 ms and read once
//!         more after all threads have joined) must be ≤ CAP; c09-newest — exactly one truncation was counted by A.

use emit_batcher::{Receiver, Sender};
use hcommon::{Rng, Sexp, Stream, Tier};
use std::sync::atomic::{AtomicBool, AtomicUsize, Ordering};
use std::sync::{Arc, Barrier};
use std::time::Duration;

pub fn streams() -> Vec<Stream> {
    vec![Stream { name: "batcher_race", gen: gen_race, run: run_race }]
}

struct Slow {
    #[allow(dead_code)]
    id: u64,
    slow: Arc<AtomicBool>,
}
impl Drop for Slow {
    fn drop(&mut self) {
        if self.slow.load(Ordering::SeqCst) {
            std::thread::sleep(Duration::from_millis(20));
        }
    }
}

fn queue_length(m: &emit_batcher::ChannelMetrics<Vec<Slow>>, name: &str) -> usize {
    use emit::metric::Source;
    struct S<'a>(&'a str, std::cell::Cell<usize>);
    impl<'a> emit::metric::sampler::Sampler for S<'a> {
        fn metric<P: emit::Props>(&self, metric: emit::metric::Metric<P>) {
            if metric.name().to_string() == self.0 {
                self.1.set(metric.value().by_ref().cast::<usize>().unwrap_or(usize::MAX));
            }
        }
    }
    let s = S(name, std::cell::Cell::new(usize::MAX));
    m.sample_metrics(&s);
    s.1.get()
}

fn run_race(line: &str) -> String {
    let parsed = (|| {
        let s = Sexp::parse(line)?;
        let (tag, a) = s.as_tagged()?;
        if tag != "race" || a.len() != 3 {
            return None;
        }
        let cap = a[0].as_usize()?;
        let nb = a[1].as_usize()?;
        let seed = a[2].as_u64()?;
        if cap == 0 || cap > 8 || nb == 0 || nb > 4 {
            return None;
        }
        Some((cap, nb, seed))
    })();
    let Some((cap, nb, seed)) = parsed else {
        return "bad-case".into();
    };
    let slow = Arc::new(AtomicBool::new(false));
    let (sender, receiver): (Sender<Vec<Slow>>, Receiver<Vec<Slow>>) = emit_batcher::bounded(cap);
    let metrics = sender.metric_source();
    let item = |id: u64| Slow { id, slow: slow.clone() };
    // fill the queue (no receiver ever runs: it is kept alive, stalled)
    for i in 0..cap {
        sender.send(item(i as u64));
    }
    slow.store(true, Ordering::SeqCst);
    let sender = Arc::new(sender);
    let max_seen = Arc::new(AtomicUsize::new(0));
    let stop = Arc::new(AtomicBool::new(false));
    let monitor = {
        let (max_seen, stop) = (max_seen.clone(), stop.clone());
        let metrics = sender.metric_source();
        std::thread::spawn(move || {
            while !stop.load(Ordering::SeqCst) {
                max_seen.fetch_max(queue_length(&metrics, "queue_length"), Ordering::SeqCst);
                std::thread::sleep(Duration::from_millis(1));
            }
        })
    };
    let barrier = Arc::new(Barrier::new(nb + 1));
    // A: the overflowing send (tears down CAP slow items)
    let a = {
        let (sender, barrier, slow) = (sender.clone(), barrier.clone(), slow.clone());
        std::thread::spawn(move || {
            barrier.wait();
            sender.send(Slow { id: 1000, slow });
        })
    };
    // B..: CAP more items between them, a few ms after A has started
    let mut rng = Rng::new(seed);
    let mut bs = Vec::new();
    for t in 0..nb {
        let share = cap / nb + if t < cap % nb { 1 } else { 0 };
        let delay = Duration::from_micros(3000 + rng.below(4000));
        let (sender, barrier, slow) = (sender.clone(), barrier.clone(), slow.clone());
        bs.push(std::thread::spawn(move || {
            barrier.wait();
            std::thread::sleep(delay);
            for i in 0..share {
                let _ = sender.try_send(Slow { id: 2000 + (t * 100 + i) as u64, slow: slow.clone() });
            }
        }));
    }
    let _ = a.join();
    for b in bs {
        let _ = b.join();
    }
    stop.store(true, Ordering::SeqCst);
    let _ = monitor.join();
    let last = queue_length(&metrics, "queue_length");
    let max = max_seen.load(Ordering::SeqCst).max(last);
    let truncated = queue_length(&metrics, "queue_full_truncated");
    // teardown without sleeping
    slow.store(false, Ordering::SeqCst);
    drop(receiver);
    drop(sender);
    let mut fails = Vec::new();
    if max > cap {
        fails.push("c09-capacity");
    }
    if truncated != 1 {
        fails.push("c09-newest");
    }
    if fails.is_empty() {
        "max_pending<=cap".into()
    } else {
        format!("max_pending={} cap={} truncated={}\tFAIL:{}", max, cap, truncated, fails.join("+"))
    }
}

fn gen_race(rng: &mut Rng, tier: Tier, n: usize) -> Vec<String> {
    let fixed = [(1usize, 1usize), (2, 1), (2, 2), (3, 2), (3, 1), (1, 2)];
    let n = match tier {
        Tier::Quick => n.min(8),
        Tier::Thorough => n,
    };
    (0..n)
        .map(|i| {
            let (cap, nb) = if i < fixed.len() { fixed[i] } else { (rng.range(1, 4) as usize, rng.range(1, 3) as usize) };
            format!("(race {} {} {})", cap, nb, rng.below(1_000_000))
        })
        .collect()
}
