//! Shared plumbing of the correspondence harness: the S-expression line protocol, the single PRNG every
//! generator draws from, and the `gen` / `run` command line every harness binary exposes.
//!
//! Protocol (mirrors `lean/EmitModel/Base/Sexp.lean`):
//!   sexp ::= atom | '(' sexp* ')' ; atoms contain no whitespace or parentheses;
//!   strings / byte strings are atoms `x<lower hex of the bytes>`; numbers are decimal atoms.

use std::fmt;
use std::io::{BufRead, Write};

#[derive(Clone, Debug, PartialEq, Eq, Hash)]
pub enum Sexp {
    Atom(String),
    List(Vec<Sexp>),
}

impl fmt::Display for Sexp {
    fn fmt(&self, f: &mut fmt::Formatter) -> fmt::Result {
        match self {
            Sexp::Atom(a) => f.write_str(a),
            Sexp::List(xs) => {
                f.write_str("(")?;
                for (i, x) in xs.iter().enumerate() {
                    if i > 0 {
                        f.write_str(" ")?;
                    }
                    write!(f, "{}", x)?;
                }
                f.write_str(")")
            }
        }
    }
}

impl Sexp {
    pub fn atom(s: impl Into<String>) -> Sexp {
        Sexp::Atom(s.into())
    }
    pub fn list(xs: Vec<Sexp>) -> Sexp {
        Sexp::List(xs)
    }
    /// `(tag args…)`
    pub fn tagged(tag: &str, mut args: Vec<Sexp>) -> Sexp {
        let mut v = vec![Sexp::atom(tag)];
        v.append(&mut args);
        Sexp::List(v)
    }
    pub fn str(s: &str) -> Sexp {
        Sexp::Atom(hex_atom(s.as_bytes()))
    }
    pub fn bytes(b: &[u8]) -> Sexp {
        Sexp::Atom(hex_atom(b))
    }
    pub fn num<T: fmt::Display>(n: T) -> Sexp {
        Sexp::Atom(n.to_string())
    }
    pub fn bool(b: bool) -> Sexp {
        Sexp::Atom(if b { "true".into() } else { "false".into() })
    }

    pub fn parse(line: &str) -> Option<Sexp> {
        let mut toks = Vec::new();
        let mut cur = String::new();
        for c in line.chars() {
            match c {
                '(' | ')' => {
                    if !cur.is_empty() {
                        toks.push(std::mem::take(&mut cur));
                    }
                    toks.push(c.to_string());
                }
                ' ' | '\t' | '\n' | '\r' => {
                    if !cur.is_empty() {
                        toks.push(std::mem::take(&mut cur));
                    }
                }
                c => cur.push(c),
            }
        }
        if !cur.is_empty() {
            toks.push(cur);
        }
        let mut stack: Vec<Vec<Sexp>> = Vec::new();
        let mut done: Option<Sexp> = None;
        for t in toks {
            if done.is_some() {
                return None;
            }
            if t == "(" {
                stack.push(Vec::new());
            } else if t == ")" {
                let top = stack.pop()?;
                match stack.last_mut() {
                    Some(parent) => parent.push(Sexp::List(top)),
                    None => done = Some(Sexp::List(top)),
                }
            } else {
                match stack.last_mut() {
                    Some(parent) => parent.push(Sexp::Atom(t)),
                    None => done = Some(Sexp::Atom(t)),
                }
            }
        }
        if !stack.is_empty() {
            return None;
        }
        done
    }

    pub fn as_atom(&self) -> Option<&str> {
        match self {
            Sexp::Atom(a) => Some(a),
            _ => None,
        }
    }
    pub fn as_list(&self) -> Option<&[Sexp]> {
        match self {
            Sexp::List(l) => Some(l),
            _ => None,
        }
    }
    /// `(tag a b c)` → `("tag", [a, b, c])`
    pub fn as_tagged(&self) -> Option<(&str, &[Sexp])> {
        let l = self.as_list()?;
        let (h, t) = l.split_first()?;
        Some((h.as_atom()?, t))
    }
    pub fn as_u64(&self) -> Option<u64> {
        self.as_atom()?.parse().ok()
    }
    pub fn as_i64(&self) -> Option<i64> {
        self.as_atom()?.parse().ok()
    }
    pub fn as_u128(&self) -> Option<u128> {
        self.as_atom()?.parse().ok()
    }
    pub fn as_i128(&self) -> Option<i128> {
        self.as_atom()?.parse().ok()
    }
    pub fn as_usize(&self) -> Option<usize> {
        self.as_atom()?.parse().ok()
    }
    pub fn as_bool(&self) -> Option<bool> {
        match self.as_atom()? {
            "true" => Some(true),
            "false" => Some(false),
            _ => None,
        }
    }
    pub fn as_bytes(&self) -> Option<Vec<u8>> {
        unhex_atom(self.as_atom()?)
    }
    pub fn as_string(&self) -> Option<String> {
        String::from_utf8(self.as_bytes()?).ok()
    }
}

pub fn hex(b: &[u8]) -> String {
    let mut s = String::with_capacity(b.len() * 2);
    for x in b {
        s.push_str(&format!("{:02x}", x));
    }
    s
}
pub fn hex_atom(b: &[u8]) -> String {
    format!("x{}", hex(b))
}
pub fn unhex_atom(a: &str) -> Option<Vec<u8>> {
    let h = a.strip_prefix('x')?;
    if h.len() % 2 != 0 {
        return None;
    }
    let hb = h.as_bytes();
    let mut out = Vec::with_capacity(hb.len() / 2);
    for i in (0..hb.len()).step_by(2) {
        let d = |c: u8| -> Option<u8> {
            match c {
                b'0'..=b'9' => Some(c - b'0'),
                b'a'..=b'f' => Some(c - b'a' + 10),
                _ => None,
            }
        };
        out.push(d(hb[i])? * 16 + d(hb[i + 1])?);
    }
    Some(out)
}

/// SplitMix64 — the one source of randomness. Seeded from `VERIF_SEED` by the `check` script.
#[derive(Clone)]
pub struct Rng(pub u64);

impl Rng {
    pub fn new(seed: u64) -> Rng {
        // mix the seed first so that neighbouring seeds do not give shifted copies of one stream
        let mut r = Rng(seed ^ 0x1234_5678_9abc_def1);
        let a = r.next();
        let b = r.next();
        Rng(a ^ b.rotate_left(17))
    }
    pub fn next(&mut self) -> u64 {
        self.0 = self.0.wrapping_add(0x9E3779B97F4A7C15);
        let mut z = self.0;
        z = (z ^ (z >> 30)).wrapping_mul(0xBF58476D1CE4E5B9);
        z = (z ^ (z >> 27)).wrapping_mul(0x94D049BB133111EB);
        z ^ (z >> 31)
    }
    /// uniform in `0..n` (n > 0)
    pub fn below(&mut self, n: u64) -> u64 {
        self.next() % n
    }
    pub fn range(&mut self, lo: u64, hi_incl: u64) -> u64 {
        lo + self.below(hi_incl - lo + 1)
    }
    pub fn usize(&mut self, n: usize) -> usize {
        self.below(n as u64) as usize
    }
    pub fn bool(&mut self) -> bool {
        self.next() & 1 == 1
    }
    /// true with probability num/den
    pub fn chance(&mut self, num: u64, den: u64) -> bool {
        self.below(den) < num
    }
    pub fn pick<'a, T>(&mut self, xs: &'a [T]) -> &'a T {
        &xs[self.usize(xs.len())]
    }
    pub fn fork(&mut self) -> Rng {
        Rng(self.next())
    }
}

#[derive(Clone, Copy, PartialEq, Eq, Debug)]
pub enum Tier {
    Quick,
    Thorough,
}

/// One correspondence stream: a generator of case lines and an executor of one case on the REAL code.
pub struct Stream {
    pub name: &'static str,
    /// Generate `n` case lines (may return fewer / more when the stream enumerates a fixed space).
    pub gen: fn(&mut Rng, Tier, usize) -> Vec<String>,
    /// Execute one case on the implementation, returning the canonical output line. Panics escaping
    /// this function are caught by the runner and reported as `panic`; a case that cannot be parsed
    /// must return `bad-case`.
    pub run: fn(&str) -> String,
}

/// Run `f`, mapping a panic to `None`. The default panic hook is silenced for the duration.
pub fn catch<T>(f: impl FnOnce() -> T) -> Option<T> {
    std::panic::catch_unwind(std::panic::AssertUnwindSafe(f)).ok()
}

/// `main` of every harness binary.
///   <bin> list
///   <bin> gen <stream> <seed> <n> <quick|thorough>      → case lines on stdout
///   <bin> run <stream>                                   → reads case lines on stdin, one output line each
pub fn cli_main(streams: &[Stream]) {
    std::panic::set_hook(Box::new(|_| {}));
    let args: Vec<String> = std::env::args().collect();
    let find = |name: &str| -> &Stream {
        match streams.iter().find(|s| s.name == name) {
            Some(s) => s,
            None => {
                eprintln!("unknown stream {}", name);
                std::process::exit(2)
            }
        }
    };
    let stdout = std::io::stdout();
    let mut out = std::io::BufWriter::new(stdout.lock());
    match args.get(1).map(|s| s.as_str()) {
        Some("list") => {
            for s in streams {
                writeln!(out, "{}", s.name).unwrap();
            }
        }
        Some("gen") if args.len() == 6 => {
            let s = find(&args[2]);
            let seed: u64 = args[3].parse().expect("seed");
            let n: usize = args[4].parse().expect("n");
            let tier = if args[5] == "thorough" { Tier::Thorough } else { Tier::Quick };
            let mut rng = Rng::new(seed);
            for line in (s.gen)(&mut rng, tier, n) {
                debug_assert!(!line.contains('\n'));
                writeln!(out, "{}", line).unwrap();
            }
        }
        Some("run") if args.len() == 3 => {
            let s = find(&args[2]);
            let stdin = std::io::stdin();
            for line in stdin.lock().lines() {
                let line = line.unwrap();
                let r = catch(|| (s.run)(&line)).unwrap_or_else(|| "panic".to_string());
                writeln!(out, "{}", r.replace('\n', "\\n")).unwrap();
            }
        }
        _ => {
            eprintln!("usage: list | gen <stream> <seed> <n> <tier> | run <stream>");
            std::process::exit(2);
        }
    }
    out.flush().unwrap();
}
