/-
  Lemmas/BatcherExt.lean — the extended batcher system (`BSt`, `BLabel`, `bstep`: the base LTS plus the first attempt
  of a blocking / async send and the `queue_full_blocked` counter), the two metric counters as exact counts, the
  remaining-time accounting of `send_or_wait`, and what a watcher callback may do (sender steps). Used by C06, C09.
-/
import EmitModel.Lemmas.Batcher

namespace EmitModel.Batcher
open EmitModel.Sched

/-! ### The extended system is the base system plus a write-only counter -/

/-- The base label a label of the extended system performs on the channel state. -/
def BLabel.erase : BLabel → Label
  | .base l => l
  | .sendOrWaitFirst x => .trySend x

theorem sendOrWaitFirst_st (cfg : Cfg) (b : BSt) (x : Nat) :
    (sendOrWaitFirst cfg b x).1.st = (trySend cfg b.st x).1 ∧ (sendOrWaitFirst cfg b x).2 = (trySend cfg b.st x).2 := by
  unfold sendOrWaitFirst
  cases hts : trySend cfg b.st x with
  | mk s r => cases r <;> simp

theorem sendOrWaitFirst_blocked (cfg : Cfg) (b : BSt) (x : Nat) :
    (sendOrWaitFirst cfg b x).1.mBlocked = b.mBlocked + (if (trySend cfg b.st x).2 = .ok then 0 else 1) := by
  unfold sendOrWaitFirst
  cases hts : trySend cfg b.st x with
  | mk s r => cases r <;> simp

/-- Every step of the extended system is a step of the base system on the channel state. -/
theorem bstep_erase (cfg : Cfg) (b b' : BSt) (l : BLabel) (h : bstep cfg b l = some b') :
    step cfg b.st l.erase = some b'.st := by
  cases l with
  | base l =>
    simp only [bstep, Option.map_eq_some_iff] at h
    obtain ⟨s, hs, rfl⟩ := h
    simpa [BLabel.erase] using hs
  | sendOrWaitFirst x =>
    simp only [bstep] at h
    by_cases ha : b.st.senderAlive
    · simp only [ha, if_true, Option.some.injEq] at h
      subst h
      simp [BLabel.erase, step, ha, (sendOrWaitFirst_st cfg b x).1]
    · simp [ha] at h

theorem brun_erase (cfg : Cfg) (ls : List BLabel) : ∀ (b b' : BSt), run (bstep cfg) b ls = some b' →
    run (step cfg) b.st (ls.map BLabel.erase) = some b'.st := by
  induction ls with
  | nil => intro b b' h; simp at h; subst h; rfl
  | cons l ls ih =>
    intro b b' h
    simp only [run] at h
    cases hb : bstep cfg b l with
    | none => simp [hb] at h
    | some b1 =>
      simp only [hb] at h
      simp only [List.map_cons, run, bstep_erase cfg b b1 l hb]
      exact ih b1 b' h

/-- Every state of the extended system is a reachable state of the base system (plus a counter): every theorem
    about `Reachable` holds for the channel under any mix of plain, fallible, blocking and async sends. -/
theorem breachable_base (cfg : Cfg) (b : BSt) (h : BReachable cfg b) : Reachable cfg b.st := by
  obtain ⟨ls, hls⟩ := h
  exact ⟨ls.map BLabel.erase, brun_erase cfg ls binit b hls⟩

/-! ### The two counters -/

theorem send_mTruncated (cfg : Cfg) (s : St) (x : Nat) :
    (send cfg s x).mTruncated = s.mTruncated + (if s.pending.length ≥ cfg.cap then 1 else 0) := by
  unfold send
  by_cases hc : s.pending.length ≥ cfg.cap <;> by_cases ho : s.isOpen <;> simp [hc, ho, truncate, push]

theorem trySend_mTruncated (cfg : Cfg) (s : St) (x : Nat) :
    (trySend cfg s x).1.mTruncated = s.mTruncated ∧ (trySend cfg s x).1.truncations = s.truncations := by
  unfold trySend
  by_cases ho : s.isOpen <;> by_cases hc : s.pending.length < cfg.cap <;> simp [ho, hc, push]

/-- `queue_full_truncated` moves in exactly one place: a plain `send` that finds the queue full. -/
theorem step_mTruncated (cfg : Cfg) (s s' : St) (l : Label) (hs : step cfg s l = some s') :
    s'.mTruncated = s.mTruncated +
      (match l with | .send _ => if s.pending.length ≥ cfg.cap then 1 else 0 | _ => 0) := by
  cases l
  case send x => step_elim hs; exact send_mTruncated cfg s x
  case trySend x => step_elim hs; simpa using (trySend_mTruncated cfg s x).1
  all_goals
    step_elim hs
    all_goals simp

theorem bstep_counters (cfg : Cfg) (b b' : BSt) (l : BLabel) (h : bstep cfg b l = some b') :
    b'.st.mTruncated = b.st.mTruncated + truncatingSend cfg b l ∧
    b'.mBlocked = b.mBlocked + blockedSend cfg b l := by
  cases l with
  | base l =>
    simp only [bstep, Option.map_eq_some_iff] at h
    obtain ⟨s, hs, rfl⟩ := h
    refine ⟨?_, by simp [blockedSend]⟩
    have := step_mTruncated cfg b.st s l hs
    cases l <;> simpa [truncatingSend] using this
  | sendOrWaitFirst x =>
    simp only [bstep] at h
    by_cases ha : b.st.senderAlive
    · simp only [ha, if_true, Option.some.injEq] at h
      subst h
      refine ⟨?_, ?_⟩
      · rw [(sendOrWaitFirst_st cfg b x).1]; simp [truncatingSend, (trySend_mTruncated cfg b.st x).1]
      · simpa [blockedSend] using sendOrWaitFirst_blocked cfg b x
    · simp [ha] at h

theorem brun_counters (cfg : Cfg) (ls : List BLabel) : ∀ (b b' : BSt), run (bstep cfg) b ls = some b' →
    b'.st.mTruncated = b.st.mTruncated + countAlong cfg (truncatingSend cfg) b ls ∧
    b'.mBlocked = b.mBlocked + countAlong cfg (blockedSend cfg) b ls := by
  induction ls with
  | nil => intro b b' h; simp at h; subst h; simp [countAlong]
  | cons l ls ih =>
    intro b b' h
    simp only [run] at h
    cases hb : bstep cfg b l with
    | none => simp [hb] at h
    | some b1 =>
      simp only [hb] at h
      obtain ⟨h1, h2⟩ := bstep_counters cfg b b1 l hb
      obtain ⟨i1, i2⟩ := ih b1 b' h
      simp only [countAlong, hb]
      constructor <;> omega

/-! ### Remaining-time accounting of `send_or_wait` -/

/-- See `C08.send_or_wait_within_budget` / `C09.send_or_wait_total_wait_bound`. -/
theorem sendOrWait_within_budget (δ timeout : Nat) (obs : List (Nat × TryRes)) :
    ∀ (bound : Nat) (err : TryRes) (t : Nat), bound ≤ timeout + δ → sendOrWaitHonest δ timeout bound err obs →
      sendOrWaitLastReading timeout err obs = some t → t ≤ timeout + δ := by
  induction obs with
  | nil => intro bound err t _ _ h; simp [sendOrWaitLastReading] at h
  | cons p rest ih =>
    intro bound err t hb hh ht
    obtain ⟨elapsed, next⟩ := p
    unfold sendOrWaitHonest at hh
    obtain ⟨hle, hrest⟩ := hh
    have he : elapsed ≤ timeout + δ := Nat.le_trans hle hb
    cases err with
    | ok => simp [sendOrWaitLastReading] at ht
    | closed => simp [sendOrWaitLastReading] at ht; omega
    | full x =>
      simp only [sendOrWaitLastReading] at ht
      simp only at hrest
      by_cases hge : elapsed ≥ timeout
      · simp [hge] at ht; omega
      · simp only [hge, if_false] at ht hrest
        cases next with
        | ok => simp at ht; omega
        | full y =>
          simp only at ht hrest
          cases hr : sendOrWaitLastReading timeout (.full y) rest with
          | none => simp [hr] at ht; omega
          | some t' =>
            simp [hr] at ht
            have := ih (elapsed + (timeout - elapsed) + δ) (.full y) t' (by omega) hrest hr
            omega
        | closed =>
          simp only at ht hrest
          cases hr : sendOrWaitLastReading timeout .closed rest with
          | none => simp [hr] at ht; omega
          | some t' =>
            simp [hr] at ht
            have := ih (elapsed + (timeout - elapsed) + δ) .closed t' (by omega) hrest hr
            omega

/-- Every wait `send_or_wait` asks for is the REMAINING time: asked at clock reading `e < timeout`, for exactly
    `timeout - e`. -/
theorem sendOrWaitAsked_remaining (timeout : Nat) (obs : List (Nat × TryRes)) :
    ∀ (err : TryRes) (p : Nat × Nat), p ∈ sendOrWaitAsked timeout err obs → p.1 < timeout ∧ p.1 + p.2 = timeout := by
  induction obs with
  | nil => intro err p h; simp [sendOrWaitAsked] at h
  | cons o rest ih =>
    intro err p h
    obtain ⟨elapsed, next⟩ := o
    cases err with
    | ok => simp [sendOrWaitAsked] at h
    | closed =>
      simp only [sendOrWaitAsked] at h
      by_cases hge : elapsed ≥ timeout
      · simp [hge] at h
      · simp [hge] at h; subst h; simp; omega
    | full x =>
      simp only [sendOrWaitAsked] at h
      by_cases hge : elapsed ≥ timeout
      · simp [hge] at h
      · simp only [hge, if_false, List.mem_cons] at h
        rcases h with h | h
        · subst h; simp; omega
        · cases next with
          | ok => simp at h
          | full y => exact ih (.full y) p h
          | closed => exact ih .closed p h

/-! ### What a watcher callback may do: sender steps -/

/-- The sender-side labels: what any code holding the `Sender` — in particular a `when_empty` / `when_flushed`
    callback that re-enters the channel — can perform. -/
def Label.isSender : Label → Bool
  | .send _ | .trySend _ | .whenFlushed _ | .whenEmpty _ | .dropSender => true
  | _ => false

/-- A sender step leaves everything the receiver holds alone (control point, the batch it took, its watchers),
    hands nothing to the processor, and the `Sender` handle survives unless the step drops it. -/
theorem sender_step_rx (cfg : Cfg) (s s' : St) (l : Label) (hl : l.isSender = true) (hs : step cfg s l = some s') :
    s'.rx = s.rx ∧ s'.calls = s.calls ∧ s'.firstAttempts = s.firstAttempts := by
  cases l <;> simp [Label.isSender] at hl
  case send x => step_elim hs; obtain ⟨e1, _, _, e4, e5⟩ := send_rx cfg s x; exact ⟨e1, e4, e5⟩
  case trySend x => step_elim hs; obtain ⟨e1, _, _, e4, e5⟩ := trySend_rx cfg s x; exact ⟨e1, e4, e5⟩
  all_goals
    step_elim hs
    all_goals simp

theorem sender_run_rx (cfg : Cfg) (ls : List Label) : ∀ (s s' : St), (∀ l ∈ ls, l.isSender = true) →
    run (step cfg) s ls = some s' → s'.rx = s.rx ∧ s'.calls = s.calls ∧ s'.firstAttempts = s.firstAttempts := by
  induction ls with
  | nil => intro s s' _ h; simp at h; subst h; simp
  | cons l ls ih =>
    intro s s' hl h
    simp only [run] at h
    cases hs : step cfg s l with
    | none => simp [hs] at h
    | some s1 =>
      simp only [hs] at h
      obtain ⟨a1, a2, a3⟩ := sender_step_rx cfg s s1 l (hl l (by simp)) hs
      obtain ⟨b1, b2, b3⟩ := ih s1 s' (fun l' hl' => hl l' (by simp [hl'])) h
      exact ⟨b1.trans a1, b2.trans a2, b3.trans a3⟩

/-- With the `Sender` in hand every sender label is enabled in EVERY state — whatever the receiver is doing. -/
theorem sender_enabled (cfg : Cfg) (s : St) (l : Label) (hl : l.isSender = true) (ha : s.senderAlive = true) :
    (step cfg s l).isSome = true := by
  cases l <;> simp [Label.isSender] at hl <;> simp [step, ha]

end EmitModel.Batcher
