/-
  Lemmas/Template.lean — helper lemmas for C16 (Model/Template.lean).
    * `eqLoop_spec`: from any reachable cursor the loop decides equality of the remaining atom streams
    * `eq_atoms`: `eq a b = ok (atoms a = atoms b)`
    * `norm_eq_iff_atoms_eq`: the normal form and the atom stream carry the same information
-/
import EmitModel.Model.Template
namespace EmitModel.Template

theorem restEmpty_iff (ps : List Part) : restEmpty ps = true ↔ atoms ps = [] := by
  induction ps with
  | nil => simp [restEmpty, atoms]
  | cons p ps ih =>
    cases p with
    | text t =>
      simp only [restEmpty, List.all_cons, atoms, Bool.and_eq_true, List.append_eq_nil_iff, List.map_eq_nil_iff] at ih ⊢
      simp [ih]
    | hole l f => simp [restEmpty, atoms]

/-- Cursor invariant of the loop: the byte offset is 0, or points strictly inside the text part under the cursor. -/
def Inv (as : List Part) (ati : Nat) : Prop :=
  ati = 0 ∨ ∃ a as', as = .text a :: as' ∧ ati < a.length

theorem Inv.zero (as : List Part) : Inv as 0 := Or.inl rfl

theorem Inv.nil {ati : Nat} (h : Inv [] ati) : ati = 0 := by
  rcases h with h | ⟨a, as', h, _⟩
  · exact h
  · cases h

theorem Inv.hole {l f as ati} (h : Inv (.hole l f :: as) ati) : ati = 0 := by
  rcases h with h | ⟨a, as', h, _⟩
  · exact h
  · cases h

theorem Inv.text_lt {a as ati} (h : Inv (.text a :: as) ati) (hne : ¬ a.isEmpty = true) : ati < a.length := by
  have : 0 < a.length := by
    cases a with
    | nil => simp at hne
    | cons => simp
  rcases h with h | ⟨a', as', h, hlt⟩
  · omega
  · cases h; exact hlt

theorem Inv.text_empty {a as ati} (h : Inv (.text a :: as) ati) (he : a.isEmpty = true) : ati = 0 := by
  rcases h with h | ⟨a', as', h, hlt⟩
  · exact h
  · cases h; simp [List.isEmpty_iff] at he; subst he; simp at hlt

theorem Inv.text_mk {a as ati} (h : ati < a.length) : Inv (.text a :: as) ati := Or.inr ⟨a, as, rfl, h⟩

theorem drop_atoms_text (a : List UInt8) (as : List Part) (ati : Nat) (h : ati ≤ a.length) :
    (atoms (.text a :: as)).drop ati = (a.drop ati).map Atom.byte ++ atoms as := by
  simp only [atoms]
  rw [List.drop_append_of_le_length (by simpa using h), List.map_drop]

theorem map_byte_inj {x y : List UInt8} (h : x.map Atom.byte = y.map Atom.byte) : x = y := by
  induction x generalizing y with
  | nil => cases y <;> simp_all
  | cons a x ih =>
    cases y with
    | nil => simp at h
    | cons b y =>
      simp only [List.map_cons, List.cons.injEq, Atom.byte.injEq] at h
      rw [h.1, ih h.2]

/-- Past the loop: what is left of one side equals nothing iff it is all empty text. -/
theorem drop_atoms_eq_nil (as : List Part) (ati : Nat) (ha : Inv as ati) :
    (atoms as).drop ati = [] ↔ restEmpty as = true := by
  rw [restEmpty_iff]
  rcases ha with rfl | ⟨a, as', rfl, hlt⟩
  · simp
  · rw [List.drop_eq_nil_iff]
    simp only [atoms, List.length_append, List.length_map, List.append_eq_nil_iff, List.map_eq_nil_iff]
    constructor
    · intro h; omega
    · rintro ⟨rfl, _⟩; simp at hlt

theorem eqLoop_spec (as : List Part) (ati : Nat) (bs : List Part) (bti : Nat)
    (ha : Inv as ati) (hb : Inv bs bti) :
    eqLoop as ati bs bti = .ok (decide ((atoms as).drop ati = (atoms bs).drop bti)) := by
  fun_induction eqLoop as ati bs bti
  case case1 ati bti bs =>
    congr 1
    rw [Bool.eq_iff_iff, ← drop_atoms_eq_nil bs bti hb]
    simp only [atoms, List.drop_nil, decide_eq_true_eq]
    exact eq_comm
  case case2 ati bti ap as =>
    congr 1
    rw [Bool.eq_iff_iff, ← drop_atoms_eq_nil _ ati ha]
    simp [atoms]
  case case3 ati bti a as b bs he ih =>
    have h0 := ha.text_empty he
    subst h0
    rw [ih (Inv.zero _) hb]
    simp only [List.isEmpty_iff] at he
    subst he
    simp [atoms]
  case case4 ati bti a as b bs _ he ih =>
    have h0 := hb.text_empty he
    subst h0
    rw [ih ha (Inv.zero _)]
    simp only [List.isEmpty_iff] at he
    subst he
    simp [atoms]
  case case5 ati bti a as b bs hna hnb hle len hne =>
    have hlta := ha.text_lt hna
    have hltb := hb.text_lt hnb
    rw [drop_atoms_text a as ati hle.1, drop_atoms_text b bs bti hle.2]
    congr 1
    symm
    rw [decide_eq_false_iff_not]
    intro heq
    have h2 := congrArg (List.take len) heq
    have la : len ≤ ((a.drop ati).map Atom.byte).length := by simp [len]; omega
    have lb : len ≤ ((b.drop bti).map Atom.byte).length := by simp [len]; omega
    rw [List.take_append_of_le_length la, List.take_append_of_le_length lb, ← List.map_take, ← List.map_take] at h2
    have := map_byte_inj h2
    simp [this] at hne
  case case6 ati bti a as b bs hna hnb hle len hne h1 h2 ih =>
    rw [drop_atoms_text a as ati hle.1, drop_atoms_text b bs bti hle.2, ih (Inv.zero _) (Inv.zero _)]
    have e1 : (a.drop ati).take len = a.drop ati := List.take_of_length_le (by simp; omega)
    have e2 : (b.drop bti).take len = b.drop bti := List.take_of_length_le (by simp; omega)
    have e : a.drop ati = b.drop bti := by
      rw [e1, e2] at hne; simpa using hne
    rw [e]
    simp
  case case7 ati bti a as b bs hna hnb hle len hne h1 h2 ih =>
    have hltb : bti + len < b.length := by simp only [len] at h1 h2 ⊢; omega
    rw [drop_atoms_text a as ati hle.1, drop_atoms_text b bs bti hle.2, ih (Inv.zero _) (Inv.text_mk hltb),
      drop_atoms_text b bs (bti + len) (by omega)]
    have e1 : (a.drop ati).take len = a.drop ati := List.take_of_length_le (by simp; omega)
    have e : b.drop bti = a.drop ati ++ b.drop (bti + len) := by
      rw [e1] at hne
      have : a.drop ati = (b.drop bti).take len := by simpa using hne
      have := this.symm
      rw [← this, ← List.drop_drop, List.take_append_drop]
    rw [e]
    simp
  case case8 ati bti a as b bs hna hnb hle len hne h1 h2 ih =>
    have hlta : ati + len < a.length := by simp only [len] at h1 h2 ⊢; omega
    rw [drop_atoms_text a as ati hle.1, drop_atoms_text b bs bti hle.2, ih (Inv.text_mk hlta) (Inv.zero _),
      drop_atoms_text a as (ati + len) (by omega)]
    have e2 : (b.drop bti).take len = b.drop bti := List.take_of_length_le (by simp; omega)
    have e : a.drop ati = b.drop bti ++ a.drop (ati + len) := by
      rw [e2] at hne
      have : (a.drop ati).take len = b.drop bti := by simpa using hne
      rw [← this, ← List.drop_drop, List.take_append_drop]
    rw [e]
    simp
  case case9 ati bti a as b bs hna hnb hle len hne h1 h2 ih =>
    exfalso
    simp only [len] at h1 h2
    omega
  case case10 ati bti a as b bs hna hnb hle =>
    exfalso
    have := ha.text_lt hna
    have := hb.text_lt hnb
    omega
  case case11 ati bti a as lb fb bs he ih =>
    have h0 := ha.text_empty he
    subst h0
    rw [ih (Inv.zero _) hb]
    simp only [List.isEmpty_iff] at he
    subst he
    simp [atoms]
  case case12 ati bti a as lb fb bs hna =>
    have hlta := ha.text_lt hna
    have h0 := hb.hole
    subst h0
    rw [drop_atoms_text a as ati (by omega)]
    congr 1
    symm
    rw [decide_eq_false_iff_not]
    intro heq
    have : a.drop ati ≠ [] := by
      intro h; rw [List.drop_eq_nil_iff] at h; omega
    cases hd : a.drop ati with
    | nil => exact this hd
    | cons x xs => rw [hd] at heq; simp [atoms] at heq
  case case13 ati bti la fa as b bs he ih =>
    have h0 := hb.text_empty he
    subst h0
    rw [ih ha (Inv.zero _)]
    simp only [List.isEmpty_iff] at he
    subst he
    simp [atoms]
  case case14 ati bti la fa as b bs hnb =>
    have hltb := hb.text_lt hnb
    have h0 := ha.hole
    subst h0
    rw [drop_atoms_text b bs bti (by omega)]
    congr 1
    symm
    rw [decide_eq_false_iff_not]
    intro heq
    have : b.drop bti ≠ [] := by
      intro h; rw [List.drop_eq_nil_iff] at h; omega
    cases hd : b.drop bti with
    | nil => exact this hd
    | cons x xs => rw [hd] at heq; simp [atoms] at heq
  case case15 ati bti la fa as lb fb bs hne =>
    have h0 := ha.hole
    have h1 := hb.hole
    subst h0 h1
    simp only [bne_iff_ne, ne_eq] at hne
    simp [atoms, hne]
  case case16 ati bti la fa as lb fb bs hne ih =>
    have h0 := ha.hole
    have h1 := hb.hole
    subst h0 h1
    rw [ih (Inv.zero _) (Inv.zero _)]
    simp only [bne_iff_ne, ne_eq, Decidable.not_not] at hne
    simp [atoms, hne]

theorem eq_atoms (a b : List Part) : eq a b = .ok (decide (atoms a = atoms b)) := by
  unfold eq
  split
  · rename_i x y hx hy
    have ea : a = [.text x] := by
      unfold asLiteral at hx; split at hx <;> simp_all
    have eb : b = [.text y] := by
      unfold asLiteral at hy; split at hy <;> simp_all
    subst ea eb
    congr 1
    rw [Bool.eq_iff_iff]
    simp only [beq_iff_eq, atoms, List.append_nil, decide_eq_true_eq]
    exact ⟨fun h => by rw [h], map_byte_inj⟩
  · simpa using eqLoop_spec a 0 b 0 (Inv.zero _) (Inv.zero _)

/-! ### `norm` and `atoms` carry the same information -/

def ungroup : List Seg → List Atom
  | [] => []
  | .text t :: r => t.map Atom.byte ++ ungroup r
  | .hole l :: r => Atom.hole l :: ungroup r

theorem ungroup_consText (t : List UInt8) (r : List Seg) : ungroup (consText t r) = t.map Atom.byte ++ ungroup r := by
  unfold consText
  split
  · simp [ungroup]
  · split
    · simp_all
    · simp [ungroup]

theorem ungroup_norm (ps : List Part) : ungroup (norm ps) = atoms ps := by
  induction ps with
  | nil => rfl
  | cons p ps ih =>
    cases p with
    | text t => simp [norm, atoms, ungroup_consText, ih]
    | hole l f => simp [norm, atoms, ungroup, ih]

/-- Regroup an atom stream into normal form. -/
def group : List Atom → List Seg
  | [] => []
  | .byte b :: r => consText [b] (group r)
  | .hole l :: r => .hole l :: group r

theorem consText_nil (r : List Seg) : consText [] r = r := by
  unfold consText
  split <;> simp

theorem consText_cons (c : UInt8) (t : List UInt8) (r : List Seg) :
    consText [c] (consText t r) = consText (c :: t) r := by
  cases r with
  | nil => by_cases h : t = [] <;> simp [consText, h]
  | cons s r =>
    cases s with
    | text u => simp [consText]
    | hole l => by_cases h : t = [] <;> simp [consText, h]

theorem group_bytes (t : List UInt8) (r : List Atom) : group (t.map Atom.byte ++ r) = consText t (group r) := by
  induction t with
  | nil => simp [consText_nil]
  | cons c t ih => simp only [List.map_cons, List.cons_append, group, ih, consText_cons]

theorem group_atoms (ps : List Part) : group (atoms ps) = norm ps := by
  induction ps with
  | nil => rfl
  | cons p ps ih =>
    cases p with
    | text t => simp [norm, atoms, group_bytes, ih]
    | hole l f => simp [norm, atoms, group, ih]

theorem norm_eq_iff_atoms_eq (a b : List Part) : norm a = norm b ↔ atoms a = atoms b := by
  constructor
  · intro h; rw [← ungroup_norm a, ← ungroup_norm b, h]
  · intro h; rw [← group_atoms a, ← group_atoms b, h]

end EmitModel.Template
