/-
  Lemmas/Template.lean — helper lemmas for C16 (Model/Template.lean).
    * `eqLoop_spec`: from any reachable cursor the loop decides equality of the remaining atom streams
    * `eq_atoms`: `eq a b = ok (atoms a = atoms b)`
    * `norm_eq_iff_atoms_eq`: the normal form and the atom stream carry the same information
    * rendering: specification-level definitions (`partBytes`, `partEv`, `feed`) and the lemmas behind `render_spec`,
      `render_any_writer`, `render_recorded`; conversions are identities; first-wins lookup
-/
import EmitModel.Model.Template
namespace EmitModel.Template

theorem restEmpty_iff (ps : List Part) : restEmpty ps = true ↔ atoms ps = [] := by
  induction ps with
  | nil => simp [restEmpty, atoms]
  | cons p ps ih =>
    cases p with
    | text t =>
      simp only [restEmpty, List.all_cons, atoms, Bool.and_eq_true, List.append_eq_nil_iff, List.map_eq_nil_iff] at ih ⊢
      simp [ih]
    | hole l f => simp [restEmpty, atoms]

/-- Cursor invariant of the loop: the byte offset is 0, or points strictly inside the text part under the cursor. -/
def Inv (as : List Part) (ati : Nat) : Prop :=
  ati = 0 ∨ ∃ a as', as = .text a :: as' ∧ ati < a.length

theorem Inv.zero (as : List Part) : Inv as 0 := Or.inl rfl

theorem Inv.nil {ati : Nat} (h : Inv [] ati) : ati = 0 := by
  rcases h with h | ⟨a, as', h, _⟩
  · exact h
  · cases h

theorem Inv.hole {l f as ati} (h : Inv (.hole l f :: as) ati) : ati = 0 := by
  rcases h with h | ⟨a, as', h, _⟩
  · exact h
  · cases h

theorem Inv.text_lt {a as ati} (h : Inv (.text a :: as) ati) (hne : ¬ a.isEmpty = true) : ati < a.length := by
  have : 0 < a.length := by
    cases a with
    | nil => simp at hne
    | cons => simp
  rcases h with h | ⟨a', as', h, hlt⟩
  · omega
  · cases h; exact hlt

theorem Inv.text_empty {a as ati} (h : Inv (.text a :: as) ati) (he : a.isEmpty = true) : ati = 0 := by
  rcases h with h | ⟨a', as', h, hlt⟩
  · exact h
  · cases h; simp [List.isEmpty_iff] at he; subst he; simp at hlt

theorem Inv.text_mk {a as ati} (h : ati < a.length) : Inv (.text a :: as) ati := Or.inr ⟨a, as, rfl, h⟩

theorem drop_atoms_text (a : List UInt8) (as : List Part) (ati : Nat) (h : ati ≤ a.length) :
    (atoms (.text a :: as)).drop ati = (a.drop ati).map Atom.byte ++ atoms as := by
  simp only [atoms]
  rw [List.drop_append_of_le_length (by simpa using h), List.map_drop]

theorem map_byte_inj {x y : List UInt8} (h : x.map Atom.byte = y.map Atom.byte) : x = y := by
  induction x generalizing y with
  | nil => cases y <;> simp_all
  | cons a x ih =>
    cases y with
    | nil => simp at h
    | cons b y =>
      simp only [List.map_cons, List.cons.injEq, Atom.byte.injEq] at h
      rw [h.1, ih h.2]

/-- Past the loop: what is left of one side equals nothing iff it is all empty text. -/
theorem drop_atoms_eq_nil (as : List Part) (ati : Nat) (ha : Inv as ati) :
    (atoms as).drop ati = [] ↔ restEmpty as = true := by
  rw [restEmpty_iff]
  rcases ha with rfl | ⟨a, as', rfl, hlt⟩
  · simp
  · rw [List.drop_eq_nil_iff]
    simp only [atoms, List.length_append, List.length_map, List.append_eq_nil_iff, List.map_eq_nil_iff]
    constructor
    · intro h; omega
    · rintro ⟨rfl, _⟩; simp at hlt

theorem eqLoop_spec (as : List Part) (ati : Nat) (bs : List Part) (bti : Nat)
    (ha : Inv as ati) (hb : Inv bs bti) :
    eqLoop as ati bs bti = .ok (decide ((atoms as).drop ati = (atoms bs).drop bti)) := by
  fun_induction eqLoop as ati bs bti
  case case1 ati bti bs =>
    congr 1
    rw [Bool.eq_iff_iff, ← drop_atoms_eq_nil bs bti hb]
    simp only [atoms, List.drop_nil, decide_eq_true_eq]
    exact eq_comm
  case case2 ati bti ap as =>
    congr 1
    rw [Bool.eq_iff_iff, ← drop_atoms_eq_nil _ ati ha]
    simp [atoms]
  case case3 ati bti a as b bs he ih =>
    have h0 := ha.text_empty he
    subst h0
    rw [ih (Inv.zero _) hb]
    simp only [List.isEmpty_iff] at he
    subst he
    simp [atoms]
  case case4 ati bti a as b bs _ he ih =>
    have h0 := hb.text_empty he
    subst h0
    rw [ih ha (Inv.zero _)]
    simp only [List.isEmpty_iff] at he
    subst he
    simp [atoms]
  case case5 ati bti a as b bs hna hnb hle len hne =>
    have hlta := ha.text_lt hna
    have hltb := hb.text_lt hnb
    rw [drop_atoms_text a as ati hle.1, drop_atoms_text b bs bti hle.2]
    congr 1
    symm
    rw [decide_eq_false_iff_not]
    intro heq
    have h2 := congrArg (List.take len) heq
    have la : len ≤ ((a.drop ati).map Atom.byte).length := by simp [len]; omega
    have lb : len ≤ ((b.drop bti).map Atom.byte).length := by simp [len]; omega
    rw [List.take_append_of_le_length la, List.take_append_of_le_length lb, ← List.map_take, ← List.map_take] at h2
    have := map_byte_inj h2
    simp [this] at hne
  case case6 ati bti a as b bs hna hnb hle len hne h1 h2 ih =>
    rw [drop_atoms_text a as ati hle.1, drop_atoms_text b bs bti hle.2, ih (Inv.zero _) (Inv.zero _)]
    have e1 : (a.drop ati).take len = a.drop ati := List.take_of_length_le (by simp; omega)
    have e2 : (b.drop bti).take len = b.drop bti := List.take_of_length_le (by simp; omega)
    have e : a.drop ati = b.drop bti := by
      rw [e1, e2] at hne; simpa using hne
    rw [e]
    simp
  case case7 ati bti a as b bs hna hnb hle len hne h1 h2 ih =>
    have hltb : bti + len < b.length := by simp only [len] at h1 h2 ⊢; omega
    rw [drop_atoms_text a as ati hle.1, drop_atoms_text b bs bti hle.2, ih (Inv.zero _) (Inv.text_mk hltb),
      drop_atoms_text b bs (bti + len) (by omega)]
    have e1 : (a.drop ati).take len = a.drop ati := List.take_of_length_le (by simp; omega)
    have e : b.drop bti = a.drop ati ++ b.drop (bti + len) := by
      rw [e1] at hne
      have : a.drop ati = (b.drop bti).take len := by simpa using hne
      have := this.symm
      rw [← this, ← List.drop_drop, List.take_append_drop]
    rw [e]
    simp
  case case8 ati bti a as b bs hna hnb hle len hne h1 h2 ih =>
    have hlta : ati + len < a.length := by simp only [len] at h1 h2 ⊢; omega
    rw [drop_atoms_text a as ati hle.1, drop_atoms_text b bs bti hle.2, ih (Inv.text_mk hlta) (Inv.zero _),
      drop_atoms_text a as (ati + len) (by omega)]
    have e2 : (b.drop bti).take len = b.drop bti := List.take_of_length_le (by simp; omega)
    have e : a.drop ati = b.drop bti ++ a.drop (ati + len) := by
      rw [e2] at hne
      have : (a.drop ati).take len = b.drop bti := by simpa using hne
      rw [← this, ← List.drop_drop, List.take_append_drop]
    rw [e]
    simp
  case case9 ati bti a as b bs hna hnb hle len hne h1 h2 ih =>
    exfalso
    simp only [len] at h1 h2
    omega
  case case10 ati bti a as b bs hna hnb hle =>
    exfalso
    have := ha.text_lt hna
    have := hb.text_lt hnb
    omega
  case case11 ati bti a as lb fb bs he ih =>
    have h0 := ha.text_empty he
    subst h0
    rw [ih (Inv.zero _) hb]
    simp only [List.isEmpty_iff] at he
    subst he
    simp [atoms]
  case case12 ati bti a as lb fb bs hna =>
    have hlta := ha.text_lt hna
    have h0 := hb.hole
    subst h0
    rw [drop_atoms_text a as ati (by omega)]
    congr 1
    symm
    rw [decide_eq_false_iff_not]
    intro heq
    have : a.drop ati ≠ [] := by
      intro h; rw [List.drop_eq_nil_iff] at h; omega
    cases hd : a.drop ati with
    | nil => exact this hd
    | cons x xs => rw [hd] at heq; simp [atoms] at heq
  case case13 ati bti la fa as b bs he ih =>
    have h0 := hb.text_empty he
    subst h0
    rw [ih ha (Inv.zero _)]
    simp only [List.isEmpty_iff] at he
    subst he
    simp [atoms]
  case case14 ati bti la fa as b bs hnb =>
    have hltb := hb.text_lt hnb
    have h0 := ha.hole
    subst h0
    rw [drop_atoms_text b bs bti (by omega)]
    congr 1
    symm
    rw [decide_eq_false_iff_not]
    intro heq
    have : b.drop bti ≠ [] := by
      intro h; rw [List.drop_eq_nil_iff] at h; omega
    cases hd : b.drop bti with
    | nil => exact this hd
    | cons x xs => rw [hd] at heq; simp [atoms] at heq
  case case15 ati bti la fa as lb fb bs hne =>
    have h0 := ha.hole
    have h1 := hb.hole
    subst h0 h1
    simp only [bne_iff_ne, ne_eq] at hne
    simp [atoms, hne]
  case case16 ati bti la fa as lb fb bs hne ih =>
    have h0 := ha.hole
    have h1 := hb.hole
    subst h0 h1
    rw [ih (Inv.zero _) (Inv.zero _)]
    simp only [bne_iff_ne, ne_eq, Decidable.not_not] at hne
    simp [atoms, hne]

theorem eq_atoms (a b : List Part) : eq a b = .ok (decide (atoms a = atoms b)) := by
  unfold eq
  split
  · rename_i x y hx hy
    have ea : a = [.text x] := by
      unfold asLiteral at hx; split at hx <;> simp_all
    have eb : b = [.text y] := by
      unfold asLiteral at hy; split at hy <;> simp_all
    subst ea eb
    congr 1
    rw [Bool.eq_iff_iff]
    simp only [beq_iff_eq, atoms, List.append_nil, decide_eq_true_eq]
    exact ⟨fun h => by rw [h], map_byte_inj⟩
  · simpa using eqLoop_spec a 0 b 0 (Inv.zero _) (Inv.zero _)

/-! ### `norm` and `atoms` carry the same information -/

def ungroup : List Seg → List Atom
  | [] => []
  | .text t :: r => t.map Atom.byte ++ ungroup r
  | .hole l :: r => Atom.hole l :: ungroup r

theorem ungroup_consText (t : List UInt8) (r : List Seg) : ungroup (consText t r) = t.map Atom.byte ++ ungroup r := by
  unfold consText
  split
  · simp [ungroup]
  · split
    · simp_all
    · simp [ungroup]

theorem ungroup_norm (ps : List Part) : ungroup (norm ps) = atoms ps := by
  induction ps with
  | nil => rfl
  | cons p ps ih =>
    cases p with
    | text t => simp [norm, atoms, ungroup_consText, ih]
    | hole l f => simp [norm, atoms, ungroup, ih]

/-- Regroup an atom stream into normal form. -/
def group : List Atom → List Seg
  | [] => []
  | .byte b :: r => consText [b] (group r)
  | .hole l :: r => .hole l :: group r

theorem consText_nil (r : List Seg) : consText [] r = r := by
  unfold consText
  split <;> simp

theorem consText_cons (c : UInt8) (t : List UInt8) (r : List Seg) :
    consText [c] (consText t r) = consText (c :: t) r := by
  cases r with
  | nil => by_cases h : t = [] <;> simp [consText, h]
  | cons s r =>
    cases s with
    | text u => simp [consText]
    | hole l => by_cases h : t = [] <;> simp [consText, h]

theorem group_bytes (t : List UInt8) (r : List Atom) : group (t.map Atom.byte ++ r) = consText t (group r) := by
  induction t with
  | nil => simp [consText_nil]
  | cons c t ih => simp only [List.map_cons, List.cons_append, group, ih, consText_cons]

theorem group_atoms (ps : List Part) : group (atoms ps) = norm ps := by
  induction ps with
  | nil => rfl
  | cons p ps ih =>
    cases p with
    | text t => simp [norm, atoms, group_bytes, ih]
    | hole l f => simp [norm, atoms, group, ih]

theorem norm_eq_iff_atoms_eq (a b : List Part) : norm a = norm b ↔ atoms a = atoms b := by
  constructor
  · intro h; rw [← ungroup_norm a, ← ungroup_norm b, h]
  · intro h; rw [← group_atoms a, ← group_atoms b, h]

/-! ### Rendering -/
open EmitModel.Template

/-- What one part contributes to the default rendering. -/
def partBytes (tbl : Nat → Val → List UInt8) (props : List (List UInt8 × Val)) : Part → List UInt8
  | .text t => t
  | .hole l f =>
    match lookupFirst l props with
    | some v => (match f with | some f => tbl f v | none => v.display)
    | none => [0x7b] ++ l ++ [0x7d]

theorem write_string (tbl : Nat → Val → List UInt8) (props : List (List UInt8 × Val)) (p : Part) (s : List UInt8) :
    p.write (stringWriter tbl) props s = (s ++ partBytes tbl props p, true) := by
  cases p with
  | text t => rfl
  | hole l f =>
    simp only [Part.write, partBytes]
    cases lookupFirst l props with
    | none => simp [stringWriter]
    | some v => cases f <;> rfl

theorem render_spec (tbl : Nat → Val → List UInt8) (props : List (List UInt8 × Val)) (parts : List Part)
    (s : List UInt8) :
    render (stringWriter tbl) props parts s = (s ++ (parts.map (partBytes tbl props)).flatten, true) := by
  induction parts generalizing s with
  | nil => simp [render]
  | cons p ps ih => simp [render, write_string, ih]

/-- The callback a part triggers depends on the part and the properties only. -/
def partEv (props : List (List UInt8 × Val)) : Part → Ev
  | .text t => .text t
  | .hole l f =>
    match lookupFirst l props with
    | some v => (match f with | some f => .holeFmt l v f | none => .holeValue l v)
    | none => .holeLabel l

def Writer.handle {σ : Type} (w : Writer σ) (s : σ) : Ev → σ × Bool
  | .text t => w.writeText s t
  | .holeValue l v => w.writeHoleValue s l v
  | .holeFmt l v f => w.writeHoleFmt s l v f
  | .holeLabel l => w.writeHoleLabel s l

/-- Feed callbacks to a writer in order, stopping at the first one that fails. -/
def feed {σ : Type} (w : Writer σ) : List Ev → σ → σ × Bool
  | [], s => (s, true)
  | e :: es, s =>
    match w.handle s e with
    | (s', true) => feed w es s'
    | (s', false) => (s', false)

theorem render_any_writer {σ : Type} (w : Writer σ) (props : List (List UInt8 × Val)) (parts : List Part) (s : σ) :
    render w props parts s = feed w (parts.map (partEv props)) s := by
  induction parts generalizing s with
  | nil => rfl
  | cons p ps ih =>
    have h : p.write w props s = w.handle s (partEv props p) := by
      cases p with
      | text t => rfl
      | hole l f =>
        simp only [Part.write, partEv]
        cases lookupFirst l props with
        | none => rfl
        | some v => cases f <;> rfl
    simp only [render, List.map_cons, feed, h]
    split <;> simp_all

theorem handle_rec_ok (failAt : Option Nat) (pre : List Ev) (e : Ev) (h : failAt ≠ some pre.length) :
    (recWriter failAt).handle pre e = (pre ++ [e], true) := by
  cases e <;> simp [Writer.handle, recWriter, h]

theorem handle_rec_fail (pre : List Ev) (e : Ev) :
    (recWriter (some pre.length)).handle pre e = (pre, false) := by
  cases e <;> simp [Writer.handle, recWriter]

theorem feed_rec_none (evs pre : List Ev) : feed (recWriter none) evs pre = (pre ++ evs, true) := by
  induction evs generalizing pre with
  | nil => simp [feed]
  | cons e es ih => simp [feed, handle_rec_ok none pre e (by simp), ih]

theorem feed_rec_some (k : Nat) (evs pre : List Ev) (hp : pre.length ≤ k) :
    feed (recWriter (some k)) evs pre = (pre ++ evs.take (k - pre.length), decide (pre.length + evs.length ≤ k)) := by
  induction evs generalizing pre with
  | nil => simp [feed, hp]
  | cons e es ih =>
    by_cases hk : k = pre.length
    · subst hk
      simp [feed, handle_rec_fail]
    · have hlt : (pre ++ [e]).length ≤ k := by simp; omega
      have h3 : k - pre.length = (k - (pre ++ [e]).length) + 1 := by simp; omega
      rw [feed, handle_rec_ok (some k) pre e (by simpa using hk)]
      simp only []
      rw [ih _ hlt, h3, List.take_succ_cons]
      simp only [List.append_assoc, List.singleton_append, List.length_append, List.length_cons, List.length_nil]
      have : (pre.length + (0 + 1) + es.length ≤ k) ↔ (pre.length + (es.length + 1) ≤ k) := by omega
      simp only [this]

/-- The recording writer sees exactly the callbacks of the parts, in order; when it fails on callback `k`, rendering
    stops there: it has seen the first `k` callbacks and `Render::write` returns `Err` iff there was a callback `k`. -/
theorem render_recorded (props : List (List UInt8 × Val)) (parts : List Part) (failAt : Option Nat) :
    render (recWriter failAt) props parts [] =
      match failAt with
      | none => (parts.map (partEv props), true)
      | some k => ((parts.map (partEv props)).take k, decide (parts.length ≤ k)) := by
  rw [render_any_writer]
  cases failAt with
  | none => simp [feed_rec_none]
  | some k => simp [feed_rec_some]


/-! ### Conversions, lookup, formatter-free templates -/

theorem toOwned_id (ps : List Part) : toOwned ps = ps := by
  induction ps with
  | nil => rfl
  | cons p ps ih => cases p <;> simp_all [toOwned, Part.toOwned]

theorem byRef_id (ps : List Part) : byRef ps = ps := by
  induction ps with
  | nil => rfl
  | cons p ps ih => cases p <;> simp_all [byRef, Part.byRef]

theorem lookupFirst_none_iff (l : List UInt8) (props : List (List UInt8 × Val)) :
    lookupFirst l props = none ↔ ∀ kv ∈ props, kv.1 ≠ l := by
  induction props with
  | nil => simp [lookupFirst]
  | cons kv props ih =>
    obtain ⟨k, v⟩ := kv
    by_cases h : k = l <;> simp [lookupFirst, h, ih]

theorem lookupFirst_first (l : List UInt8) (pre post : List (List UInt8 × Val)) (v : Val)
    (h : ∀ kv ∈ pre, kv.1 ≠ l) : lookupFirst l (pre ++ (l, v) :: post) = some v := by
  induction pre with
  | nil => simp [lookupFirst]
  | cons kv pre ih =>
    obtain ⟨k, w⟩ := kv
    have hk : k ≠ l := h (k, w) (by simp)
    simp only [List.cons_append, lookupFirst, hk, if_false]
    exact ih (fun kv hkv => h kv (by simp [hkv]))

/-- No hole carries a formatter. -/
def NoFmt (ps : List Part) : Prop := ∀ l f, Part.hole l f ∈ ps → f = none

def atomBytes (props : List (List UInt8 × Val)) : Atom → List UInt8
  | .byte b => [b]
  | .hole l => match lookupFirst l props with
    | some v => v.display
    | none => [0x7b] ++ l ++ [0x7d]

theorem flatten_bytes (props : List (List UInt8 × Val)) (t : List UInt8) :
    ((t.map Atom.byte).map (atomBytes props)).flatten = t := by
  induction t with
  | nil => rfl
  | cons c t ih => simp_all [atomBytes]

theorem flatten_partBytes_of_noFmt (tbl : Nat → Val → List UInt8) (props : List (List UInt8 × Val)) (ps : List Part)
    (h : NoFmt ps) : (ps.map (partBytes tbl props)).flatten = ((atoms ps).map (atomBytes props)).flatten := by
  induction ps with
  | nil => rfl
  | cons p ps ih =>
    have h' : NoFmt ps := fun l f hm => h l f (by simp [hm])
    cases p with
    | text t =>
      simp only [List.map_cons, List.flatten_cons, partBytes, atoms, List.map_append, List.flatten_append, ih h',
        flatten_bytes]
    | hole l f =>
      have : f = none := h l f (by simp)
      subst this
      simp only [List.map_cons, List.flatten_cons, partBytes, atoms, atomBytes, ih h']


end EmitModel.Template
