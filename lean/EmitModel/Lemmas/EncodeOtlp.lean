/-
  Lemmas/EncodeOtlp.lean — C13. Facts about the any-value bridge and the OTLP attribute streams.
-/
import EmitModel.Model.OtlpRecords
import EmitModel.Lemmas.EncodeDedup

namespace EmitModel.Encode

theorem Enc.bind_ok_iff {α β : Type} (x : Enc α) (f : α → Enc β) (b : β) :
    x.bind f = .ok b ↔ ∃ a, x = .ok a ∧ f a = .ok b := by
  cases x <;> simp [Enc.bind]

theorem Enc.bind_panic_iff {α β : Type} (x : Enc α) (f : α → Enc β) :
    x.bind f = .panic ↔ x = .panic ∨ ∃ a, x = .ok a ∧ f a = .panic := by
  cases x <;> simp [Enc.bind]

def Enc.isOk {α : Type} : Enc α → Bool
  | .ok _ => true
  | .panic => false

@[simp] theorem Enc.isOk_ok {α : Type} (a : α) : (Enc.ok a).isOk = true := rfl
@[simp] theorem Enc.isOk_panic {α : Type} : (Enc.panic : Enc α).isOk = false := rfl

theorem Enc.isOk_iff {α : Type} (x : Enc α) : x.isOk = true ↔ ∃ a, x = .ok a := by
  cases x <;> simp [Enc.isOk]

theorem Enc.isOk_bind {α β : Type} (x : Enc α) (f : α → Enc β) :
    (x.bind f).isOk = true ↔ ∃ a, x = .ok a ∧ (f a).isOk = true := by
  cases x <;> simp [Enc.bind, Enc.isOk]

/-! ### which values the bridge accepts: every map key must be writable as text -/

/-- a value in key position that `AnyStream` can write: everything except bytes, sequences, maps, records,
    tuples and struct / tuple variants (possibly wrapped in `Some` / a newtype variant) -/
def V.keyOk : V → Bool
  | .bytes _ => false
  | .seq _ => false
  | .map _ => false
  | .record _ => false
  | .tuple _ => false
  | .svar _ _ => false
  | .tvar _ _ => false
  | .some k => k.keyOk
  | .nvar _ k => k.keyOk
  | _ => true

mutual
/-- no map anywhere inside the value has a key the bridge cannot write -/
def V.KeysOk : V → Prop
  | .seq xs => V.KeysOkList xs
  | .tuple xs => V.KeysOkList xs
  | .tvar _ xs => V.KeysOkList xs
  | .map kvs => V.KeysOkEntries kvs
  | .record fs => V.KeysOkFields fs
  | .svar _ fs => V.KeysOkFields fs
  | .some v => v.KeysOk
  | .nvar _ v => v.KeysOk
  | _ => True
def V.KeysOkList : List V → Prop
  | [] => True
  | x :: xs => x.KeysOk ∧ V.KeysOkList xs
def V.KeysOkEntries : List (V × V) → Prop
  | [] => True
  | (k, v) :: rest => k.keyOk = true ∧ v.KeysOk ∧ V.KeysOkEntries rest
def V.KeysOkFields : List (String × V) → Prop
  | [] => True
  | (_, v) :: rest => v.KeysOk ∧ V.KeysOkFields rest
end

theorem anyKey_isOk : (k : V) → (anyKey k).isOk = k.keyOk
  | .null => rfl
  | .bool _ => rfl
  | .int _ => rfl
  | .f64 _ _ _ => rfl
  | .f32 _ _ _ => rfl
  | .text _ => rfl
  | .bytes _ => rfl
  | .seq _ => rfl
  | .map _ => rfl
  | .record _ => rfl
  | .tuple _ => rfl
  | .some k => by simp only [anyKey, V.keyOk]; exact anyKey_isOk k
  | .uvar _ => rfl
  | .nvar _ k => by simp only [anyKey, V.keyOk]; exact anyKey_isOk k
  | .svar _ _ => rfl
  | .tvar _ _ => rfl

mutual
theorem anyValue_isOk : (v : V) → ((anyValue v).isOk = true ↔ v.KeysOk)
  | .null => by simp [anyValue, Enc.isOk, V.KeysOk]
  | .bool _ => by simp [anyValue, Enc.isOk, V.KeysOk]
  | .int _ => by simp [anyValue, Enc.isOk, V.KeysOk]
  | .f64 _ _ _ => by simp [anyValue, Enc.isOk, V.KeysOk]
  | .f32 _ _ _ => by simp [anyValue, Enc.isOk, V.KeysOk]
  | .text _ => by simp [anyValue, Enc.isOk, V.KeysOk]
  | .bytes _ => by simp [anyValue, Enc.isOk, V.KeysOk]
  | .uvar _ => by simp [anyValue, Enc.isOk, V.KeysOk]
  | .seq xs => by
    simp only [anyValue, V.KeysOk, Enc.isOk_bind, Enc.isOk_ok, and_true]
    rw [← anyElems_isOk xs, Enc.isOk_iff]
  | .tuple xs => by
    simp only [anyValue, V.KeysOk, Enc.isOk_bind, Enc.isOk_ok, and_true]
    rw [← anyElems_isOk xs, Enc.isOk_iff]
  | .tvar _ xs => by
    simp only [anyValue, V.KeysOk, Enc.isOk_bind, Enc.isOk_ok, and_true]
    rw [← anyElems_isOk xs, Enc.isOk_iff]
  | .map kvs => by
    simp only [anyValue, V.KeysOk, Enc.isOk_bind, Enc.isOk_ok, and_true]
    rw [← anyEntries_isOk kvs, Enc.isOk_iff]
  | .record fs => by
    simp only [anyValue, V.KeysOk, Enc.isOk_bind, Enc.isOk_ok, and_true]
    rw [← anyFields_isOk fs, Enc.isOk_iff]
  | .svar _ fs => by
    simp only [anyValue, V.KeysOk, Enc.isOk_bind, Enc.isOk_ok, and_true]
    rw [← anyFields_isOk fs, Enc.isOk_iff]
  | .some v => by simp only [anyValue, V.KeysOk]; exact anyValue_isOk v
  | .nvar _ v => by simp only [anyValue, V.KeysOk]; exact anyValue_isOk v
theorem anyElems_isOk : (xs : List V) → ((anyElems xs).isOk = true ↔ V.KeysOkList xs)
  | [] => by simp [anyElems, Enc.isOk, V.KeysOkList]
  | x :: xs => by
    simp only [anyElems, V.KeysOkList, Enc.isOk_bind, Enc.isOk_ok, and_true]
    rw [← anyValue_isOk x, ← anyElems_isOk xs, Enc.isOk_iff, Enc.isOk_iff]
    constructor
    · rintro ⟨a, ha, as, has⟩; exact ⟨⟨a, ha⟩, ⟨as, has⟩⟩
    · rintro ⟨⟨a, ha⟩, ⟨as, has⟩⟩; exact ⟨a, ha, as, has⟩
theorem anyEntries_isOk : (kvs : List (V × V)) → ((anyEntries kvs).isOk = true ↔ V.KeysOkEntries kvs)
  | [] => by simp [anyEntries, Enc.isOk, V.KeysOkEntries]
  | (k, v) :: rest => by
    simp only [anyEntries, V.KeysOkEntries, Enc.isOk_bind, Enc.isOk_ok, and_true]
    rw [← anyKey_isOk k, ← anyValue_isOk v, ← anyEntries_isOk rest, Enc.isOk_iff, Enc.isOk_iff, Enc.isOk_iff]
    constructor
    · rintro ⟨ks, hks, a, ha, es, hes⟩; exact ⟨⟨ks, hks⟩, ⟨a, ha⟩, ⟨es, hes⟩⟩
    · rintro ⟨⟨ks, hks⟩, ⟨a, ha⟩, ⟨es, hes⟩⟩; exact ⟨ks, hks, a, ha, es, hes⟩
theorem anyFields_isOk : (fs : List (String × V)) → ((anyFields fs).isOk = true ↔ V.KeysOkFields fs)
  | [] => by simp [anyFields, Enc.isOk, V.KeysOkFields]
  | (l, v) :: rest => by
    simp only [anyFields, V.KeysOkFields, Enc.isOk_bind, Enc.isOk_ok, and_true]
    rw [← anyValue_isOk v, ← anyFields_isOk rest, Enc.isOk_iff, Enc.isOk_iff]
    constructor
    · rintro ⟨a, ha, es, hes⟩; exact ⟨⟨a, ha⟩, ⟨es, hes⟩⟩
    · rintro ⟨⟨a, ha⟩, ⟨es, hes⟩⟩; exact ⟨a, ha, es, hes⟩
end

/-! ### log attributes -/

/-- every property value is acceptable to the bridge -/
def PropsKeysOk (ps : List (String × PV)) : Prop := ∀ p ∈ ps, p.2.image.KeysOk

def logLifted (k : String) : Prop := k = "lvl" ∨ k = "span_id" ∨ k = "trace_id"

instance (k : String) : Decidable (logLifted k) := by unfold logLifted; exact inferInstance

theorem logAttr_isOk (k : String) (v : PV) (h : v.image.KeysOk) : (logAttr k v).isOk = true := by
  obtain ⟨a, ha⟩ := (Enc.isOk_iff _).mp ((anyValue_isOk v.image).mpr h)
  unfold logAttr
  split
  · rfl
  · split <;> simp [ha, Enc.bind, Enc.isOk]

theorem logAttrs_isOk : (ps : List (String × PV)) → PropsKeysOk ps → (logAttrs ps).isOk = true
  | [], _ => rfl
  | (k, v) :: rest, h => by
    simp only [logAttrs, Enc.isOk_bind]
    obtain ⟨as, has⟩ := (Enc.isOk_iff _).mp (logAttr_isOk k v (h (k, v) (by simp)))
    obtain ⟨bs, hbs⟩ := (Enc.isOk_iff _).mp
      (logAttrs_isOk rest (fun p hp => h p (List.mem_cons_of_mem _ hp)))
    exact ⟨as, has, bs, hbs, rfl⟩

/-- an ordinary property contributes exactly `(k, anyValue v)` -/
theorem logAttr_plain (k : String) (v : PV) (hl : ¬ logLifted k) (he : k ≠ "err") :
    logAttr k v = (anyValue v.image).bind fun a => .ok [(k, a)] := by
  unfold logAttr
  have : ¬ (k = "lvl" ∨ k = "span_id" ∨ k = "trace_id") := hl
  simp [this, he]

theorem logAttr_lifted (k : String) (v : PV) (hl : logLifted k) : logAttr k v = .ok [] := by
  unfold logAttr
  have : (k = "lvl" ∨ k = "span_id" ∨ k = "trace_id") := hl
  simp [this]

/-- keys an attribute list produced by `logAttr` can carry -/
theorem logAttr_keys (k : String) (v : PV) (as : List (String × AnyValue)) (h : logAttr k v = .ok as) :
    ∀ q ∈ keys as, (q = k ∧ ¬ logLifted k ∧ k ≠ "err") ∨
      (k = "err" ∧ (q = "exception.message" ∨ q = "exception.stacktrace")) := by
  unfold logAttr at h
  split at h
  · cases h; simp [keys]
  · rename_i hl
    split at h
    · rename_i he
      obtain ⟨a, _, h⟩ := (Enc.bind_ok_iff _ _ _).mp h
      cases h
      intro q hq
      right
      refine ⟨he, ?_⟩
      simp only [keys, List.map_append, List.mem_append, List.map_cons, List.map_nil, List.mem_cons,
        List.not_mem_nil, or_false] at hq
      rcases hq with hq | hq
      · split at hq
        · simp at hq; exact Or.inr hq
        · simp at hq
      · exact Or.inl hq
    · rename_i he
      obtain ⟨a, _, h⟩ := (Enc.bind_ok_iff _ _ _).mp h
      cases h
      intro q hq
      simp only [keys, List.map_cons, List.map_nil, List.mem_cons, List.not_mem_nil, or_false] at hq
      exact Or.inl ⟨hq, hl, he⟩

/-! ### the attribute list as a whole -/

theorem logAttrs_mem : ∀ (ps : List (String × PV)) as, logAttrs ps = .ok as → ∀ k v, (k, v) ∈ ps →
    ¬ logLifted k → k ≠ "err" → ∃ a, anyValue v.image = .ok a ∧ (k, a) ∈ as
  | [], _, _, _, _, hm, _, _ => by simp at hm
  | (k', v') :: rest, as, h, k, v, hm, hl, he => by
    simp only [logAttrs] at h
    obtain ⟨as1, h1, h⟩ := (Enc.bind_ok_iff _ _ _).mp h
    obtain ⟨as2, h2, h⟩ := (Enc.bind_ok_iff _ _ _).mp h
    cases h
    rcases List.mem_cons.mp hm with hm | hm
    · cases hm
      rw [logAttr_plain _ _ hl he] at h1
      obtain ⟨a, ha, h1⟩ := (Enc.bind_ok_iff _ _ _).mp h1
      cases h1
      exact ⟨a, ha, by simp⟩
    · obtain ⟨a, ha, hin⟩ := logAttrs_mem rest as2 h2 k v hm hl he
      exact ⟨a, ha, List.mem_append_right _ hin⟩

/-- what the `err` property contributes -/
theorem logAttrs_err : ∀ (ps : List (String × PV)) as, logAttrs ps = .ok as → ∀ v, ("err", v) ∈ ps →
    ∃ a, anyValue v.image = .ok a ∧ ("exception.message", a) ∈ as ∧
      ∀ top c cs, v.error? = some (top, c :: cs) →
        ("exception.stacktrace", AnyValue.str (stacktraceText (c :: cs))) ∈ as
  | [], _, _, _, hm => by simp at hm
  | (k', v') :: rest, as, h, v, hm => by
    simp only [logAttrs] at h
    obtain ⟨as1, h1, h⟩ := (Enc.bind_ok_iff _ _ _).mp h
    obtain ⟨as2, h2, h⟩ := (Enc.bind_ok_iff _ _ _).mp h
    cases h
    rcases List.mem_cons.mp hm with hm | hm
    · cases hm
      unfold logAttr at h1
      have hne : ¬ ("err" = "lvl" ∨ "err" = "span_id" ∨ "err" = "trace_id") := by decide
      simp only [hne, if_false, if_true] at h1
      obtain ⟨a, ha, h1⟩ := (Enc.bind_ok_iff _ _ _).mp h1
      cases h1
      refine ⟨a, ha, by simp, ?_⟩
      intro top c cs he
      simp [he]
    · obtain ⟨a, ha, hin, hst⟩ := logAttrs_err rest as2 h2 v hm
      exact ⟨a, ha, List.mem_append_right _ hin, fun top c cs he => List.mem_append_right _ (hst top c cs he)⟩

/-- where an attribute key can come from -/
theorem logAttrs_keys : ∀ (ps : List (String × PV)) as, logAttrs ps = .ok as → ∀ q ∈ keys as,
    (q ∈ keys ps ∧ ¬ logLifted q ∧ q ≠ "err") ∨
    ("err" ∈ keys ps ∧ (q = "exception.message" ∨ q = "exception.stacktrace"))
  | [], as, h, q, hq => by simp [logAttrs] at h; subst h; simp [keys] at hq
  | (k, v) :: rest, as, h, q, hq => by
    simp only [logAttrs] at h
    obtain ⟨as1, h1, h⟩ := (Enc.bind_ok_iff _ _ _).mp h
    obtain ⟨as2, h2, h⟩ := (Enc.bind_ok_iff _ _ _).mp h
    cases h
    simp only [keys, List.map_append, List.mem_append] at hq
    rcases hq with hq | hq
    · rcases logAttr_keys k v as1 h1 q hq with ⟨rfl, hl, he⟩ | ⟨rfl, hx⟩
      · exact Or.inl ⟨by simp [keys], hl, he⟩
      · exact Or.inr ⟨by simp [keys], hx⟩
    · rcases logAttrs_keys rest as2 h2 q hq with ⟨hk, hl, he⟩ | ⟨hk, hx⟩
      · exact Or.inl ⟨by simp only [keys, List.map_cons, List.mem_cons]; exact Or.inr hk, hl, he⟩
      · exact Or.inr ⟨by simp only [keys, List.map_cons, List.mem_cons]; exact Or.inr hk, hx⟩

theorem logAttr_nodup (k : String) (v : PV) (as : List (String × AnyValue)) (h : logAttr k v = .ok as) :
    (keys as).Nodup := by
  unfold logAttr at h
  split at h
  · cases h; simp [keys]
  · split at h
    · obtain ⟨a, _, h⟩ := (Enc.bind_ok_iff _ _ _).mp h
      cases h
      split <;> simp [keys]
    · obtain ⟨a, _, h⟩ := (Enc.bind_ok_iff _ _ _).mp h
      cases h; simp [keys]

/-- the user did not name a property like the attributes the `err` lifting synthesises -/
def NoExceptionClash (ps : List (String × PV)) : Prop :=
  "err" ∈ keys ps → "exception.message" ∉ keys ps ∧ "exception.stacktrace" ∉ keys ps

theorem logAttrs_nodup : ∀ (ps : List (String × PV)) as, logAttrs ps = .ok as → (keys ps).Nodup →
    NoExceptionClash ps → (keys as).Nodup
  | [], as, h, _, _ => by simp [logAttrs] at h; subst h; simp [keys]
  | (k, v) :: rest, as, h, hnd, hx => by
    simp only [logAttrs] at h
    obtain ⟨as1, h1, h⟩ := (Enc.bind_ok_iff _ _ _).mp h
    obtain ⟨as2, h2, h⟩ := (Enc.bind_ok_iff _ _ _).mp h
    cases h
    simp only [keys, List.map_cons, List.nodup_cons] at hnd
    have hx' : NoExceptionClash rest := by
      intro he
      have := hx (by simp only [keys, List.map_cons, List.mem_cons]; exact Or.inr he)
      simp only [keys, List.map_cons, List.mem_cons, not_or] at this
      exact ⟨this.1.2, this.2.2⟩
    have ih := logAttrs_nodup rest as2 h2 hnd.2 hx'
    simp only [keys, List.map_append]
    refine List.nodup_append.mpr ⟨logAttr_nodup k v as1 h1, ih, ?_⟩
    intro q hq1 q' hq2 heq
    subst heq
    rcases logAttr_keys k v as1 h1 q hq1 with ⟨rfl, _, hke⟩ | ⟨rfl, hq⟩
    · rcases logAttrs_keys rest as2 h2 q hq2 with ⟨hk, _, _⟩ | ⟨hk, hq⟩
      · exact hnd.1 hk
      · have := hx (by simp only [keys, List.map_cons, List.mem_cons]; exact Or.inr hk)
        simp only [keys, List.map_cons, List.mem_cons, not_or] at this
        rcases hq with hq | hq
        · exact this.1.1 hq.symm
        · exact this.2.1 hq.symm
    · rcases logAttrs_keys rest as2 h2 q hq2 with ⟨hk, _, _⟩ | ⟨hk, _⟩
      · have := hx (by simp [keys])
        simp only [keys, List.map_cons, List.mem_cons, not_or] at this
        rcases hq with hq | hq
        · subst hq; exact this.1.2 hk
        · subst hq; exact this.2.2 hk
      · exact hnd.1 hk

/-! ### last = first on distinct keys -/

theorem keys_reverse {α : Type} (m : List (String × α)) : keys m.reverse = (keys m).reverse := by
  simp [keys]

theorem lookupLast_eq_first {α : Type} (m : List (String × α)) (h : (keys m).Nodup) (k : String) :
    lookupLast k m = lookupFirst k m := by
  unfold lookupLast
  cases hr : lookupFirst k m.reverse with
  | none =>
    have := (lookupFirst_none_iff m.reverse k).mp hr
    rw [keys_reverse, List.mem_reverse] at this
    exact ((lookupFirst_none_iff m k).mpr this).symm
  | some v =>
    have hm := mem_of_lookupFirst m.reverse k v hr
    rw [List.mem_reverse] at hm
    exact (lookupFirst_of_mem m h k v hm).symm

/-! ### `plainAttrs`: the attribute stream of spans and metrics -/

theorem plainAttrs_isOk (lifted : String → Bool) : (ps : List (String × PV)) →
    (∀ p ∈ ps, lifted p.1 = false → p.2.image.KeysOk) → (plainAttrs lifted ps).isOk = true
  | [], _ => rfl
  | (k, v) :: rest, h => by
    simp only [plainAttrs, Enc.isOk_bind]
    have hrest := plainAttrs_isOk lifted rest (fun p hp => h p (List.mem_cons_of_mem _ hp))
    obtain ⟨bs, hbs⟩ := (Enc.isOk_iff _).mp hrest
    unfold plainAttr
    by_cases hl : lifted k = true
    · simp only [hl, if_true]
      exact ⟨[], rfl, bs, hbs, rfl⟩
    · have hl' : lifted k = false := by simpa using hl
      obtain ⟨a, ha⟩ := (Enc.isOk_iff _).mp ((anyValue_isOk v.image).mpr (h (k, v) (by simp) hl'))
      simp only [hl', Bool.false_eq_true, if_false, ha, Enc.bind]
      exact ⟨_, rfl, bs, hbs, rfl⟩

/-- the attribute keys are exactly the non-lifted property keys, in order -/
theorem plainAttrs_keys (lifted : String → Bool) : ∀ (ps : List (String × PV)) as, plainAttrs lifted ps = .ok as →
    keys as = (keys ps).filter fun k => !lifted k
  | [], as, h => by simp [plainAttrs] at h; subst h; rfl
  | (k, v) :: rest, as, h => by
    simp only [plainAttrs] at h
    obtain ⟨as1, h1, h⟩ := (Enc.bind_ok_iff _ _ _).mp h
    obtain ⟨as2, h2, h⟩ := (Enc.bind_ok_iff _ _ _).mp h
    cases h
    have ih := plainAttrs_keys lifted rest as2 h2
    unfold plainAttr at h1
    by_cases hl : lifted k = true
    · simp only [hl, if_true] at h1
      cases h1
      simp only [keys, List.map_cons, List.filter_cons, hl, Bool.not_true, Bool.false_eq_true, if_false,
        List.nil_append]
      exact ih
    · have hl' : lifted k = false := by simpa using hl
      simp only [hl', Bool.false_eq_true, if_false] at h1
      obtain ⟨a, _, h1⟩ := (Enc.bind_ok_iff _ _ _).mp h1
      cases h1
      simp only [keys, List.map_cons, List.filter_cons, hl', Bool.not_false, if_true, List.cons_append,
        List.nil_append]
      simp only [keys] at ih
      rw [ih]

theorem plainAttrs_mem (lifted : String → Bool) : ∀ (ps : List (String × PV)) as, plainAttrs lifted ps = .ok as →
    ∀ k v, (k, v) ∈ ps → lifted k = false → ∃ a, anyValue v.image = .ok a ∧ (k, a) ∈ as
  | [], _, _, _, _, hm, _ => by simp at hm
  | (k', v') :: rest, as, h, k, v, hm, hl => by
    simp only [plainAttrs] at h
    obtain ⟨as1, h1, h⟩ := (Enc.bind_ok_iff _ _ _).mp h
    obtain ⟨as2, h2, h⟩ := (Enc.bind_ok_iff _ _ _).mp h
    cases h
    rcases List.mem_cons.mp hm with hm | hm
    · cases hm
      unfold plainAttr at h1
      simp only [hl, Bool.false_eq_true, if_false] at h1
      obtain ⟨a, ha, h1⟩ := (Enc.bind_ok_iff _ _ _).mp h1
      cases h1
      exact ⟨a, ha, by simp⟩
    · obtain ⟨a, ha, hin⟩ := plainAttrs_mem lifted rest as2 h2 k v hm hl
      exact ⟨a, ha, List.mem_append_right _ hin⟩

theorem plainAttrs_nodup (lifted : String → Bool) (ps : List (String × PV)) (as : List (String × AnyValue))
    (h : plainAttrs lifted ps = .ok as) (hnd : (keys ps).Nodup) : (keys as).Nodup := by
  rw [plainAttrs_keys lifted ps as h]
  exact hnd.filter _

/-- a panic of the attribute stream comes from a non-lifted value the bridge rejects -/
theorem plainAttrs_panic (lifted : String → Bool) : ∀ (ps : List (String × PV)), plainAttrs lifted ps = .panic →
    ∃ p ∈ ps, lifted p.1 = false ∧ ¬ p.2.image.KeysOk := by
  intro ps h
  apply Classical.byContradiction
  intro hne
  have : ∀ p ∈ ps, lifted p.1 = false → p.2.image.KeysOk := by
    intro p hp hl
    apply Classical.byContradiction
    intro hk
    exact hne ⟨p, hp, hl, hk⟩
  have := plainAttrs_isOk lifted ps this
  rw [h] at this
  simp at this

/-- the hypothesis of `log_total_partial` in terms of the properties as emitted -/
theorem propsKeysOk_of_props (e : Event) (h : PropsKeysOk e.props) : PropsKeysOk e.deduped := by
  intro p hp
  have hk : p.1 ∈ keys e.deduped := List.mem_map.mpr ⟨p, hp, rfl⟩
  -- a de-duplicated entry is an entry of the original list
  have : p ∈ e.props := by
    unfold Event.deduped dedup at hp
    split at hp
    · exact hp
    · have aux : ∀ (ps acc : List (String × PV)), (∀ q ∈ dedupSorted acc ps, q ∈ acc ∨ q ∈ ps) := by
        intro ps
        induction ps with
        | nil => intro acc q hq; simp [dedupSorted] at hq; exact Or.inl hq
        | cons x rest ih =>
          intro acc q hq
          obtain ⟨k, v⟩ := x
          simp only [dedupSorted] at hq
          rcases ih _ q hq with h1 | h1
          · rcases insertFirst_mem k v acc q h1 with h2 | h2
            · exact Or.inr (by simp [h2])
            · exact Or.inl h2
          · exact Or.inr (List.mem_cons_of_mem _ h1)
      rcases aux e.props [] p hp with h1 | h1
      · simp at h1
      · exact h1
  exact h p this


theorem keysOk_of_lookup (ps : List (String × PV)) (h : PropsKeysOk ps) (k : String) (v : PV)
    (hv : lookupFirst k ps = some v) : v.image.KeysOk :=
  h (k, v) (mem_of_lookupFirst ps k v hv)


/-! ### metrics -/

/-- the anatomy of a successfully encoded metric -/
theorem metricBody_ok (e : Event) (value : PV) (r : MetricRecord) (h : metricBody e value = some (.ok r)) :
    ∃ attrs pts data points, metricAttrs e.deduped = .ok attrs ∧ extractPts false value.image = some pts ∧
      metricPoints ((lookupFirst "metric_agg" e.props).bind PV.str?) (metricTimes e.extent).1
        (metricTimes e.extent).2.1 (metricTimes e.extent).2.2 attrs pts = some (data, points) ∧
      r = ⟨e.mdl, nameOr "metric_name" e,
        (match lookupLast "metric_unit" e.deduped with | some u => u.display | none => ""), data, points⟩ := by
  unfold metricBody at h
  cases hma : metricAttrs e.deduped with
  | panic => simp [hma] at h
  | ok attrs =>
    cases hep : extractPts false value.image with
    | none => simp [hma, hep] at h
    | some pts =>
      cases hmp : metricPoints ((lookupFirst "metric_agg" e.props).bind PV.str?) (metricTimes e.extent).1
          (metricTimes e.extent).2.1 (metricTimes e.extent).2.2 attrs pts with
      | none => simp [hma, hep, hmp] at h
      | some dp =>
        obtain ⟨data, points⟩ := dp
        simp only [hma, hep, hmp, Option.some.injEq, Enc.ok.injEq] at h
        exact ⟨attrs, pts, data, points, rfl, rfl, hmp, h.symm⟩


/-- every data point of a metric carries the same attributes -/
theorem metricPoints_attrs (agg : Option String) (s t temp : Nat) (attrs : List (String × AnyValue)) (pts : List Pt)
    (data : MetricData) (points : List DataPoint) (h : metricPoints agg s t temp attrs pts = some (data, points)) :
    ∀ p ∈ points, p.attributes = attrs := by
  unfold metricPoints at h
  split at h
  · cases h; simp
  · split at h
    · cases h; simp
    · simp only [Option.map_eq_some_iff] at h
      obtain ⟨ps, hps, hp⟩ := h
      cases hp
      unfold gaugePoints at hps
      split at hps
      · cases hps
      · cases hps; simp
      · cases hps
        intro p hp
        simp only [List.mem_map] at hp
        obtain ⟨⟨⟨_, _⟩, _⟩, _, rfl⟩ := hp
        rfl


theorem zip_values (attrs : List (String × AnyValue)) : ∀ (ts : List (Nat × Nat)) (qs : List Pt),
    ts.length = qs.length →
    ((ts.zip qs).map fun (x : (Nat × Nat) × Pt) => (⟨x.1.1, x.1.2, x.2, attrs⟩ : DataPoint)).map (·.value) = qs
  | [], [], _ => rfl
  | [], _ :: _, h => by simp at h
  | _ :: _, [], h => by simp at h
  | t :: ts, q :: qs, h => by
    simp only [List.length_cons, Nat.add_right_cancel_iff] at h
    simp only [List.zip_cons_cons, List.map_cons, List.cons.injEq, true_and]
    exact zip_values attrs ts qs h


/-! ### structure is preserved as far as OTLP can express it -/

mutual
/-- an OTLP value read back as a structured value: the shapes OTLP can express -/
def embed : AnyValue → V
  | .empty => .null
  | .str s => .text s
  | .bool b => .bool b
  | .int i => .int i
  | .dbl bits => .f64 bits "" ""
  | .arr xs => .seq (embedList xs)
  | .kv kvs => .map (embedEntries kvs)
  | .bytes bs => .bytes bs
def embedList : List AnyValue → List V
  | [] => []
  | x :: xs => embed x :: embedList xs
def embedEntries : List (String × AnyValue) → List (V × V)
  | [] => []
  | (k, v) :: rest => (.text k, embed v) :: embedEntries rest
end

mutual
/-- OTLP integers are 64-bit -/
def IntsFit : AnyValue → Prop
  | .int i => inI64 i = true
  | .arr xs => IntsFitList xs
  | .kv kvs => IntsFitEntries kvs
  | _ => True
def IntsFitList : List AnyValue → Prop
  | [] => True
  | x :: xs => IntsFit x ∧ IntsFitList xs
def IntsFitEntries : List (String × AnyValue) → Prop
  | [] => True
  | (_, v) :: rest => IntsFit v ∧ IntsFitEntries rest
end

mutual
/-- STRUCTURE PRESERVED: every value OTLP can express — null, strings, booleans, 64-bit integers, doubles (bit for
    bit), byte strings, arrays (element by element, `null` elements included) and string-keyed maps (entry by
    entry, in order), nested to any depth — goes through the any-value bridge unchanged. The documented losses
    are exactly the shapes outside this image: integers beyond 64 bits become decimal text
    (`any_value_wide_int`), records / variants become maps / their payload, non-text keys become text. -/
theorem structure_preserved_value : (a : AnyValue) → IntsFit a → anyValue (embed a) = .ok a
  | .empty, _ => rfl
  | .str _, _ => rfl
  | .bool _, _ => rfl
  | .int i, h => by simp only [embed, anyValue]; rw [show inI64 i = true from h]; rfl
  | .dbl _, _ => rfl
  | .bytes _, _ => rfl
  | .arr xs, h => by
    simp only [embed, anyValue, structure_preserved_list xs h, Enc.bind]
  | .kv kvs, h => by
    simp only [embed, anyValue, structure_preserved_entries kvs h, Enc.bind]
theorem structure_preserved_list : (xs : List AnyValue) → IntsFitList xs → anyElems (embedList xs) = .ok xs
  | [], _ => rfl
  | x :: xs, h => by
    simp only [embedList, anyElems, structure_preserved_value x h.1, structure_preserved_list xs h.2, Enc.bind]
theorem structure_preserved_entries : (kvs : List (String × AnyValue)) → IntsFitEntries kvs →
    anyEntries (embedEntries kvs) = .ok kvs
  | [], _ => rfl
  | (k, v) :: rest, h => by
    simp only [embedEntries, anyEntries, anyKey, structure_preserved_value v h.1, structure_preserved_entries rest h.2,
      Enc.bind]
end


end EmitModel.Encode
