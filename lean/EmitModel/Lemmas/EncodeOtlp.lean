/-
  Lemmas/EncodeOtlp.lean — C13. Facts about the any-value bridge and the OTLP attribute streams.
-/
import EmitModel.Model.OtlpRecords
import EmitModel.Lemmas.EncodeDedup

namespace EmitModel.Encode

theorem Enc.bind_ok_iff {α β : Type} (x : Enc α) (f : α → Enc β) (b : β) :
    x.bind f = .ok b ↔ ∃ a, x = .ok a ∧ f a = .ok b := by
  cases x <;> simp [Enc.bind]

theorem Enc.bind_panic_iff {α β : Type} (x : Enc α) (f : α → Enc β) :
    x.bind f = .panic ↔ x = .panic ∨ ∃ a, x = .ok a ∧ f a = .panic := by
  cases x <;> simp [Enc.bind]

def Enc.isOk {α : Type} : Enc α → Bool
  | .ok _ => true
  | .panic => false

@[simp] theorem Enc.isOk_ok {α : Type} (a : α) : (Enc.ok a).isOk = true := rfl
@[simp] theorem Enc.isOk_panic {α : Type} : (Enc.panic : Enc α).isOk = false := rfl

theorem Enc.isOk_iff {α : Type} (x : Enc α) : x.isOk = true ↔ ∃ a, x = .ok a := by
  cases x <;> simp [Enc.isOk]

theorem Enc.isOk_bind {α β : Type} (x : Enc α) (f : α → Enc β) :
    (x.bind f).isOk = true ↔ ∃ a, x = .ok a ∧ (f a).isOk = true := by
  cases x <;> simp [Enc.bind, Enc.isOk]

/-! ### which values the bridge accepts: every map key must be writable as text -/

/-- a value in key position that `AnyStream` can write: everything except bytes, sequences, maps, records,
    tuples and struct / tuple variants (possibly wrapped in `Some` / a newtype variant) -/
def V.keyOk : V → Bool
  | .bytes _ => false
  | .seq _ => false
  | .map _ => false
  | .record _ => false
  | .tuple _ => false
  | .svar _ _ => false
  | .tvar _ _ => false
  | .some k => k.keyOk
  | .nvar _ k => k.keyOk
  | _ => true

mutual
/-- no map anywhere inside the value has a key the bridge cannot write -/
def V.KeysOk : V → Prop
  | .seq xs => V.KeysOkList xs
  | .tuple xs => V.KeysOkList xs
  | .tvar _ xs => V.KeysOkList xs
  | .map kvs => V.KeysOkEntries kvs
  | .record fs => V.KeysOkFields fs
  | .svar _ fs => V.KeysOkFields fs
  | .some v => v.KeysOk
  | .nvar _ v => v.KeysOk
  | _ => True
def V.KeysOkList : List V → Prop
  | [] => True
  | x :: xs => x.KeysOk ∧ V.KeysOkList xs
def V.KeysOkEntries : List (V × V) → Prop
  | [] => True
  | (k, v) :: rest => k.keyOk = true ∧ v.KeysOk ∧ V.KeysOkEntries rest
def V.KeysOkFields : List (String × V) → Prop
  | [] => True
  | (_, v) :: rest => v.KeysOk ∧ V.KeysOkFields rest
end

theorem anyKey_isOk : (k : V) → (anyKey k).isOk = k.keyOk
  | .null => rfl
  | .bool _ => rfl
  | .int _ => rfl
  | .f64 _ _ _ => rfl
  | .f32 _ _ _ => rfl
  | .text _ => rfl
  | .bytes _ => rfl
  | .seq _ => rfl
  | .map _ => rfl
  | .record _ => rfl
  | .tuple _ => rfl
  | .some k => by simp only [anyKey, V.keyOk]; exact anyKey_isOk k
  | .uvar _ => rfl
  | .nvar _ k => by simp only [anyKey, V.keyOk]; exact anyKey_isOk k
  | .svar _ _ => rfl
  | .tvar _ _ => rfl

mutual
theorem anyValue_isOk : (v : V) → ((anyValue v).isOk = true ↔ v.KeysOk)
  | .null => by simp [anyValue, Enc.isOk, V.KeysOk]
  | .bool _ => by simp [anyValue, Enc.isOk, V.KeysOk]
  | .int _ => by simp [anyValue, Enc.isOk, V.KeysOk]
  | .f64 _ _ _ => by simp [anyValue, Enc.isOk, V.KeysOk]
  | .f32 _ _ _ => by simp [anyValue, Enc.isOk, V.KeysOk]
  | .text _ => by simp [anyValue, Enc.isOk, V.KeysOk]
  | .bytes _ => by simp [anyValue, Enc.isOk, V.KeysOk]
  | .uvar _ => by simp [anyValue, Enc.isOk, V.KeysOk]
  | .seq xs => by
    simp only [anyValue, V.KeysOk, Enc.isOk_bind, Enc.isOk_ok, and_true]
    rw [← anyElems_isOk xs, Enc.isOk_iff]
  | .tuple xs => by
    simp only [anyValue, V.KeysOk, Enc.isOk_bind, Enc.isOk_ok, and_true]
    rw [← anyElems_isOk xs, Enc.isOk_iff]
  | .tvar _ xs => by
    simp only [anyValue, V.KeysOk, Enc.isOk_bind, Enc.isOk_ok, and_true]
    rw [← anyElems_isOk xs, Enc.isOk_iff]
  | .map kvs => by
    simp only [anyValue, V.KeysOk, Enc.isOk_bind, Enc.isOk_ok, and_true]
    rw [← anyEntries_isOk kvs, Enc.isOk_iff]
  | .record fs => by
    simp only [anyValue, V.KeysOk, Enc.isOk_bind, Enc.isOk_ok, and_true]
    rw [← anyFields_isOk fs, Enc.isOk_iff]
  | .svar _ fs => by
    simp only [anyValue, V.KeysOk, Enc.isOk_bind, Enc.isOk_ok, and_true]
    rw [← anyFields_isOk fs, Enc.isOk_iff]
  | .some v => by simp only [anyValue, V.KeysOk]; exact anyValue_isOk v
  | .nvar _ v => by simp only [anyValue, V.KeysOk]; exact anyValue_isOk v
theorem anyElems_isOk : (xs : List V) → ((anyElems xs).isOk = true ↔ V.KeysOkList xs)
  | [] => by simp [anyElems, Enc.isOk, V.KeysOkList]
  | x :: xs => by
    simp only [anyElems, V.KeysOkList, Enc.isOk_bind, Enc.isOk_ok, and_true]
    rw [← anyValue_isOk x, ← anyElems_isOk xs, Enc.isOk_iff, Enc.isOk_iff]
    constructor
    · rintro ⟨a, ha, as, has⟩; exact ⟨⟨a, ha⟩, ⟨as, has⟩⟩
    · rintro ⟨⟨a, ha⟩, ⟨as, has⟩⟩; exact ⟨a, ha, as, has⟩
theorem anyEntries_isOk : (kvs : List (V × V)) → ((anyEntries kvs).isOk = true ↔ V.KeysOkEntries kvs)
  | [] => by simp [anyEntries, Enc.isOk, V.KeysOkEntries]
  | (k, v) :: rest => by
    simp only [anyEntries, V.KeysOkEntries, Enc.isOk_bind, Enc.isOk_ok, and_true]
    rw [← anyKey_isOk k, ← anyValue_isOk v, ← anyEntries_isOk rest, Enc.isOk_iff, Enc.isOk_iff, Enc.isOk_iff]
    constructor
    · rintro ⟨ks, hks, a, ha, es, hes⟩; exact ⟨⟨ks, hks⟩, ⟨a, ha⟩, ⟨es, hes⟩⟩
    · rintro ⟨⟨ks, hks⟩, ⟨a, ha⟩, ⟨es, hes⟩⟩; exact ⟨ks, hks, a, ha, es, hes⟩
theorem anyFields_isOk : (fs : List (String × V)) → ((anyFields fs).isOk = true ↔ V.KeysOkFields fs)
  | [] => by simp [anyFields, Enc.isOk, V.KeysOkFields]
  | (l, v) :: rest => by
    simp only [anyFields, V.KeysOkFields, Enc.isOk_bind, Enc.isOk_ok, and_true]
    rw [← anyValue_isOk v, ← anyFields_isOk rest, Enc.isOk_iff, Enc.isOk_iff]
    constructor
    · rintro ⟨a, ha, es, hes⟩; exact ⟨⟨a, ha⟩, ⟨es, hes⟩⟩
    · rintro ⟨⟨a, ha⟩, ⟨es, hes⟩⟩; exact ⟨a, ha, es, hes⟩
end

/-! ### log attributes -/

/-- every property value is acceptable to the bridge -/
def PropsKeysOk (ps : List (String × PV)) : Prop := ∀ p ∈ ps, p.2.image.KeysOk

def logLifted (k : String) : Prop := k = "lvl" ∨ k = "span_id" ∨ k = "trace_id"

instance (k : String) : Decidable (logLifted k) := by unfold logLifted; exact inferInstance

theorem logAttr_isOk (k : String) (v : PV) (h : v.image.KeysOk) : (logAttr k v).isOk = true := by
  obtain ⟨a, ha⟩ := (Enc.isOk_iff _).mp ((anyValue_isOk v.image).mpr h)
  unfold logAttr
  split
  · rfl
  · split <;> simp [ha, Enc.bind, Enc.isOk]

theorem logAttrs_isOk : (ps : List (String × PV)) → PropsKeysOk ps → (logAttrs ps).isOk = true
  | [], _ => rfl
  | (k, v) :: rest, h => by
    simp only [logAttrs, Enc.isOk_bind]
    obtain ⟨as, has⟩ := (Enc.isOk_iff _).mp (logAttr_isOk k v (h (k, v) (by simp)))
    obtain ⟨bs, hbs⟩ := (Enc.isOk_iff _).mp
      (logAttrs_isOk rest (fun p hp => h p (List.mem_cons_of_mem _ hp)))
    exact ⟨as, has, bs, hbs, rfl⟩

/-- an ordinary property contributes exactly `(k, anyValue v)` -/
theorem logAttr_plain (k : String) (v : PV) (hl : ¬ logLifted k) (he : k ≠ "err") :
    logAttr k v = (anyValue v.image).bind fun a => .ok [(k, a)] := by
  unfold logAttr
  have : ¬ (k = "lvl" ∨ k = "span_id" ∨ k = "trace_id") := hl
  simp [this, he]

theorem logAttr_lifted (k : String) (v : PV) (hl : logLifted k) : logAttr k v = .ok [] := by
  unfold logAttr
  have : (k = "lvl" ∨ k = "span_id" ∨ k = "trace_id") := hl
  simp [this]

/-- keys an attribute list produced by `logAttr` can carry -/
theorem logAttr_keys (k : String) (v : PV) (as : List (String × AnyValue)) (h : logAttr k v = .ok as) :
    ∀ q ∈ keys as, (q = k ∧ ¬ logLifted k ∧ k ≠ "err") ∨
      (k = "err" ∧ (q = "exception.message" ∨ q = "exception.stacktrace")) := by
  unfold logAttr at h
  split at h
  · cases h; simp [keys]
  · rename_i hl
    split at h
    · rename_i he
      obtain ⟨a, _, h⟩ := (Enc.bind_ok_iff _ _ _).mp h
      cases h
      intro q hq
      right
      refine ⟨he, ?_⟩
      simp only [keys, List.map_append, List.mem_append, List.map_cons, List.map_nil, List.mem_cons,
        List.not_mem_nil, or_false] at hq
      rcases hq with hq | hq
      · split at hq
        · simp at hq; exact Or.inr hq
        · simp at hq
      · exact Or.inl hq
    · rename_i he
      obtain ⟨a, _, h⟩ := (Enc.bind_ok_iff _ _ _).mp h
      cases h
      intro q hq
      simp only [keys, List.map_cons, List.map_nil, List.mem_cons, List.not_mem_nil, or_false] at hq
      exact Or.inl ⟨hq, hl, he⟩

/-! ### the attribute list as a whole -/

theorem logAttrs_mem : ∀ (ps : List (String × PV)) as, logAttrs ps = .ok as → ∀ k v, (k, v) ∈ ps →
    ¬ logLifted k → k ≠ "err" → ∃ a, anyValue v.image = .ok a ∧ (k, a) ∈ as
  | [], _, _, _, _, hm, _, _ => by simp at hm
  | (k', v') :: rest, as, h, k, v, hm, hl, he => by
    simp only [logAttrs] at h
    obtain ⟨as1, h1, h⟩ := (Enc.bind_ok_iff _ _ _).mp h
    obtain ⟨as2, h2, h⟩ := (Enc.bind_ok_iff _ _ _).mp h
    cases h
    rcases List.mem_cons.mp hm with hm | hm
    · cases hm
      rw [logAttr_plain _ _ hl he] at h1
      obtain ⟨a, ha, h1⟩ := (Enc.bind_ok_iff _ _ _).mp h1
      cases h1
      exact ⟨a, ha, by simp⟩
    · obtain ⟨a, ha, hin⟩ := logAttrs_mem rest as2 h2 k v hm hl he
      exact ⟨a, ha, List.mem_append_right _ hin⟩

/-- where an attribute key can come from -/
theorem logAttrs_keys : ∀ (ps : List (String × PV)) as, logAttrs ps = .ok as → ∀ q ∈ keys as,
    (q ∈ keys ps ∧ ¬ logLifted q ∧ q ≠ "err") ∨
    ("err" ∈ keys ps ∧ (q = "exception.message" ∨ q = "exception.stacktrace"))
  | [], as, h, q, hq => by simp [logAttrs] at h; subst h; simp [keys] at hq
  | (k, v) :: rest, as, h, q, hq => by
    simp only [logAttrs] at h
    obtain ⟨as1, h1, h⟩ := (Enc.bind_ok_iff _ _ _).mp h
    obtain ⟨as2, h2, h⟩ := (Enc.bind_ok_iff _ _ _).mp h
    cases h
    simp only [keys, List.map_append, List.mem_append] at hq
    rcases hq with hq | hq
    · rcases logAttr_keys k v as1 h1 q hq with ⟨rfl, hl, he⟩ | ⟨rfl, hx⟩
      · exact Or.inl ⟨by simp [keys], hl, he⟩
      · exact Or.inr ⟨by simp [keys], hx⟩
    · rcases logAttrs_keys rest as2 h2 q hq with ⟨hk, hl, he⟩ | ⟨hk, hx⟩
      · exact Or.inl ⟨by simp only [keys, List.map_cons, List.mem_cons]; exact Or.inr hk, hl, he⟩
      · exact Or.inr ⟨by simp only [keys, List.map_cons, List.mem_cons]; exact Or.inr hk, hx⟩

theorem logAttr_nodup (k : String) (v : PV) (as : List (String × AnyValue)) (h : logAttr k v = .ok as) :
    (keys as).Nodup := by
  unfold logAttr at h
  split at h
  · cases h; simp [keys]
  · split at h
    · obtain ⟨a, _, h⟩ := (Enc.bind_ok_iff _ _ _).mp h
      cases h
      split <;> simp [keys]
    · obtain ⟨a, _, h⟩ := (Enc.bind_ok_iff _ _ _).mp h
      cases h; simp [keys]

/-- the user did not name a property like the attributes the `err` lifting synthesises -/
def NoExceptionClash (ps : List (String × PV)) : Prop :=
  "err" ∈ keys ps → "exception.message" ∉ keys ps ∧ "exception.stacktrace" ∉ keys ps

theorem logAttrs_nodup : ∀ (ps : List (String × PV)) as, logAttrs ps = .ok as → (keys ps).Nodup →
    NoExceptionClash ps → (keys as).Nodup
  | [], as, h, _, _ => by simp [logAttrs] at h; subst h; simp [keys]
  | (k, v) :: rest, as, h, hnd, hx => by
    simp only [logAttrs] at h
    obtain ⟨as1, h1, h⟩ := (Enc.bind_ok_iff _ _ _).mp h
    obtain ⟨as2, h2, h⟩ := (Enc.bind_ok_iff _ _ _).mp h
    cases h
    simp only [keys, List.map_cons, List.nodup_cons] at hnd
    have hx' : NoExceptionClash rest := by
      intro he
      have := hx (by simp only [keys, List.map_cons, List.mem_cons]; exact Or.inr he)
      simp only [keys, List.map_cons, List.mem_cons, not_or] at this
      exact ⟨this.1.2, this.2.2⟩
    have ih := logAttrs_nodup rest as2 h2 hnd.2 hx'
    simp only [keys, List.map_append]
    refine List.nodup_append.mpr ⟨logAttr_nodup k v as1 h1, ih, ?_⟩
    intro q hq1 q' hq2 heq
    subst heq
    rcases logAttr_keys k v as1 h1 q hq1 with ⟨rfl, _, hke⟩ | ⟨rfl, hq⟩
    · rcases logAttrs_keys rest as2 h2 q hq2 with ⟨hk, _, _⟩ | ⟨hk, hq⟩
      · exact hnd.1 hk
      · have := hx (by simp only [keys, List.map_cons, List.mem_cons]; exact Or.inr hk)
        simp only [keys, List.map_cons, List.mem_cons, not_or] at this
        rcases hq with hq | hq
        · exact this.1.1 hq.symm
        · exact this.2.1 hq.symm
    · rcases logAttrs_keys rest as2 h2 q hq2 with ⟨hk, _, _⟩ | ⟨hk, _⟩
      · have := hx (by simp [keys])
        simp only [keys, List.map_cons, List.mem_cons, not_or] at this
        rcases hq with hq | hq
        · subst hq; exact this.1.2 hk
        · subst hq; exact this.2.2 hk
      · exact hnd.1 hk

/-! ### last = first on distinct keys -/

theorem keys_reverse {α : Type} (m : List (String × α)) : keys m.reverse = (keys m).reverse := by
  simp [keys]

theorem lookupLast_eq_first {α : Type} (m : List (String × α)) (h : (keys m).Nodup) (k : String) :
    lookupLast k m = lookupFirst k m := by
  unfold lookupLast
  cases hr : lookupFirst k m.reverse with
  | none =>
    have := (lookupFirst_none_iff m.reverse k).mp hr
    rw [keys_reverse, List.mem_reverse] at this
    exact ((lookupFirst_none_iff m k).mpr this).symm
  | some v =>
    have hm := mem_of_lookupFirst m.reverse k v hr
    rw [List.mem_reverse] at hm
    exact (lookupFirst_of_mem m h k v hm).symm

end EmitModel.Encode
