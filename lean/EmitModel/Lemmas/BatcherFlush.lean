/-
  Lemmas/BatcherFlush.lean — the inductive invariant behind C07 `flush_sound` (DESIGN Appendix A.2), one lemma
  per label / branch so that every tactic call stays well under the default heartbeat budget.
-/
import EmitModel.Lemmas.BatcherBound
namespace EmitModel.Batcher
open EmitModel.Sched

/-- The item is through: its batch's last attempt has concluded, or it was cleared by a counted truncation. -/
def Done (s : St) (x : Nat) : Prop := x ∈ s.finalised ∨ x ∈ s.truncations.flatten

structure InvFlush (s : St) : Prop where
  open_ : s.senderAlive = true → s.isOpen = true
  taken_closed : ∀ b tw fw, s.rx = .taken b tw fw false → s.senderAlive = false
  inflight_flag : s.rx.inflight ≠ [] → s.inBatch = true
  fired_ok : ∀ w obs, (w, obs) ∈ s.obligations → w ∈ s.fired → ∀ x ∈ obs, Done s x
  pend_ok : ∀ w obs, (w, obs) ∈ s.obligations → w ∈ s.pendFlushW →
    ∀ x ∈ obs, x ∈ s.pending ∨ x ∈ s.rx.inflight ∨ Done s x
  infl_ok : ∀ w obs, (w, obs) ∈ s.obligations → w ∈ s.rx.ws → ∀ x ∈ obs, x ∈ s.rx.inflight ∨ Done s x
  oblig_reg : ∀ w obs, (w, obs) ∈ s.obligations → w ∈ s.registered
  fired_reg : ∀ w ∈ s.fired, w ∈ s.registered
  pend_reg : ∀ w ∈ s.pendFlushW, w ∈ s.registered
  ws_reg : ∀ w ∈ s.rx.ws, w ∈ s.registered

theorem invFlush_init : InvFlush init := by
  constructor <;> simp [init]

theorem invFlush_rxTake (s s' : St) (h : InvFlush s) (hs : rxTake s = some s') : InvFlush s' := by
  obtain ⟨h0, h1, h2, h3, h4, h5, h6, h7, h8, h9⟩ := h
  simp only [rxTake] at hs
  repeat' (split at hs)
  all_goals (first | (simp at hs; done) | skip)
  all_goals (simp only [Option.some.injEq] at hs; subst hs)
  all_goals (constructor <;> simp_all [Done] <;> first | assumption | grind)


macro "flush_close" : tactic => `(tactic|
  (constructor <;> simp_all [Done] <;> first | assumption | grind))

theorem invFlush_rxBegin (cfg : Cfg) (s s' : St) (h : InvFlush s) (hs : rxBegin cfg s = some s') : InvFlush s' := by
  obtain ⟨h0, h1, h2, h3, h4, h5, h6, h7, h8, h9⟩ := h
  simp only [rxBegin] at hs
  repeat' (split at hs)
  all_goals (first | (simp at hs; done) | skip)
  all_goals (simp only [Option.some.injEq] at hs; subst hs)
  all_goals flush_close


macro "flush_split" hs:ident : tactic => `(tactic| (
  repeat' (split at $hs:ident)
  all_goals (first | (simp at $hs:ident; done) | skip)
  all_goals (simp only [Option.some.injEq] at $hs:ident; subst $hs:ident)))

/-- `InvFlush` only reads these fields. -/
theorem invFlush_congr {s t : St} (h : InvFlush s)
    (e1 : t.senderAlive = s.senderAlive) (e2 : t.isOpen = s.isOpen) (e3 : t.rx = s.rx) (e4 : t.inBatch = s.inBatch)
    (e5 : t.obligations = s.obligations) (e6 : t.fired = s.fired) (e7 : t.finalised = s.finalised)
    (e8 : t.truncations = s.truncations) (e9 : t.pendFlushW = s.pendFlushW) (e10 : t.pending = s.pending)
    (e11 : t.registered = s.registered) : InvFlush t := by
  obtain ⟨h0, h1, h2, h3, h4, h5, h6, h7, h8, h9⟩ := h
  constructor <;> simp only [Done, e1, e2, e3, e4, e5, e6, e7, e8, e9, e10, e11] <;> assumption

theorem invFlush_conclude (s : St) (orig cur ws : List Nat) (hrx : s.rx = .processing orig cur ws)
    (h : InvFlush s) : InvFlush (conclude s orig ws) := by
  obtain ⟨h0, h1, h2, h3, h4, h5, h6, h7, h8, h9⟩ := h
  simp only [conclude]
  flush_close

theorem invFlush_retryLater (s : St) (orig cur ws rem : List Nat) (hrx : s.rx = .processing orig cur ws)
    (h : InvFlush s) : InvFlush { s with rx := .retryWait orig rem ws } := by
  obtain ⟨h0, h1, h2, h3, h4, h5, h6, h7, h8, h9⟩ := h
  flush_close

theorem invFlush_rxOutcome (cfg : Cfg) (s s' : St) (o : Outcome) (h : InvFlush s)
    (hs : rxOutcome cfg s o = some s') : InvFlush s' := by
  simp only [rxOutcome] at hs
  split at hs
  case h_2 => simp at hs
  case h_1 orig cur ws hrx =>
    have hc : ∀ t : St, t.senderAlive = s.senderAlive → t.isOpen = s.isOpen → t.rx = s.rx → t.inBatch = s.inBatch →
        t.obligations = s.obligations → t.fired = s.fired → t.finalised = s.finalised →
        t.truncations = s.truncations → t.pendFlushW = s.pendFlushW → t.pending = s.pending →
        t.registered = s.registered → InvFlush (conclude t orig ws) := by
      intro t e1 e2 e3 e4 e5 e6 e7 e8 e9 e10 e11
      exact invFlush_conclude t orig cur ws (e3 ▸ hrx) (invFlush_congr h e1 e2 e3 e4 e5 e6 e7 e8 e9 e10 e11)
    cases o
    case failRetry rem =>
      simp only at hs
      split at hs
      · split at hs
        · simp only [Option.some.injEq] at hs; subst hs
          exact invFlush_congr (invFlush_retryLater s orig cur ws rem hrx h) rfl rfl rfl rfl rfl rfl rfl rfl rfl rfl rfl
        · simp only [Option.some.injEq] at hs; subst hs
          exact hc _ rfl rfl rfl rfl rfl rfl rfl rfl rfl rfl rfl
      · simp only [Option.some.injEq] at hs; subst hs
        exact hc _ rfl rfl rfl rfl rfl rfl rfl rfl rfl rfl rfl
    all_goals
      simp only [Option.some.injEq] at hs; subst hs
      exact hc _ rfl rfl rfl rfl rfl rfl rfl rfl rfl rfl rfl

theorem invFlush_rxFireTake (s s' : St) (h : InvFlush s) (hs : rxFireTake s = some s') : InvFlush s' := by
  obtain ⟨h0, h1, h2, h3, h4, h5, h6, h7, h8, h9⟩ := h
  simp only [rxFireTake] at hs
  flush_split hs
  all_goals flush_close

theorem invFlush_rxFireFlush (s s' : St) (h : InvFlush s) (hs : rxFireFlush s = some s') : InvFlush s' := by
  obtain ⟨h0, h1, h2, h3, h4, h5, h6, h7, h8, h9⟩ := h
  simp only [rxFireFlush] at hs
  flush_split hs
  all_goals flush_close

theorem invFlush_rxRetryWaited (s s' : St) (h : InvFlush s) (hs : rxRetryWaited s = some s') : InvFlush s' := by
  obtain ⟨h0, h1, h2, h3, h4, h5, h6, h7, h8, h9⟩ := h
  simp only [rxRetryWaited] at hs
  flush_split hs
  all_goals flush_close

theorem invFlush_rxIdleWaited (s s' : St) (h : InvFlush s) (hs : rxIdleWaited s = some s') : InvFlush s' := by
  obtain ⟨h0, h1, h2, h3, h4, h5, h6, h7, h8, h9⟩ := h
  simp only [rxIdleWaited] at hs
  flush_split hs
  all_goals flush_close

theorem invFlush_dropSender (s : St) (h : InvFlush s) : InvFlush (dropSender s) := by
  obtain ⟨h0, h1, h2, h3, h4, h5, h6, h7, h8, h9⟩ := h
  simp only [dropSender]
  flush_close

theorem invFlush_truncate (s : St) (h : InvFlush s) : InvFlush (truncate s) := by
  obtain ⟨h0, h1, h2, h3, h4, h5, h6, h7, h8, h9⟩ := h
  simp only [truncate]
  flush_close

theorem invFlush_push (s : St) (x : Nat) (h : InvFlush s) : InvFlush (push s x) := by
  obtain ⟨h0, h1, h2, h3, h4, h5, h6, h7, h8, h9⟩ := h
  simp only [push]
  flush_close

theorem invFlush_whenEmpty (s : St) (w : Nat) (h : InvFlush s) : InvFlush (whenEmpty s w) := by
  obtain ⟨h0, h1, h2, h3, h4, h5, h6, h7, h8, h9⟩ := h
  simp only [whenEmpty]
  split <;> flush_close


theorem invFlush_send (cfg : Cfg) (s : St) (x : Nat) (h : InvFlush s) : InvFlush (send cfg s x) := by
  unfold send
  have ht := invFlush_truncate s h
  by_cases hc : s.pending.length ≥ cfg.cap <;> simp only [hc, if_true, if_false]
  · by_cases ho : (truncate s).isOpen <;> simp [ho, ht, invFlush_push]
  · by_cases ho : s.isOpen <;> simp [ho, h, invFlush_push]

theorem invFlush_trySend (cfg : Cfg) (s : St) (x : Nat) (h : InvFlush s) : InvFlush (trySend cfg s x).1 := by
  unfold trySend
  by_cases ho : s.isOpen <;> by_cases hc : s.pending.length < cfg.cap <;> simp [ho, hc, h, invFlush_push]

/-- `when_flushed` with a fresh watcher name, the `Sender` in hand (so the channel is open). -/
theorem invFlush_whenFlushed (s : St) (w : Nat) (h : InvFlush s) (ha : s.senderAlive = true)
    (hw : w ∉ s.registered) : InvFlush (whenFlushed s w) := by
  obtain ⟨h0, h1, h2, h3, h4, h5, h6, h7, h8, h9⟩ := h
  have ho := h0 ha
  have f1 : w ∉ s.fired := fun hm => hw (h7 w hm)
  have f2 : w ∉ s.pendFlushW := fun hm => hw (h8 w hm)
  have f3 : w ∉ s.rx.ws := fun hm => hw (h9 w hm)
  have f4 : ∀ obs, (w, obs) ∉ s.obligations := fun obs hm => hw (h6 w obs hm)
  simp only [whenFlushed]
  split
  next hc =>
    simp only [ho, Bool.not_true, Bool.or_false, Bool.and_eq_true, Bool.not_eq_eq_eq_not,
      List.isEmpty_iff] at hc
    obtain ⟨hb, hp⟩ := hc
    have hi : s.rx.inflight = [] := by
      by_cases hi : s.rx.inflight = []
      · exact hi
      · have := h2 hi; simp [hb] at this
    refine ⟨h0, h1, h2, ?_, ?_, ?_, ?_, ?_, ?_, ?_⟩
    · intro w' obs hm hf x hx
      simp only [List.mem_append, List.mem_singleton, Prod.mk.injEq] at hm hf
      rcases hm with hm | ⟨rfl, rfl⟩
      · rcases hf with hf | rfl
        · exact h3 w' obs hm hf x hx
        · exact absurd hm (f4 obs)
      · simp [hp, hi] at hx
    · intro w' obs hm hf x hx
      simp only [List.mem_append, List.mem_singleton, Prod.mk.injEq] at hm
      rcases hm with hm | ⟨rfl, rfl⟩
      · exact h4 w' obs hm hf x hx
      · exact absurd hf f2
    · intro w' obs hm hf x hx
      simp only [List.mem_append, List.mem_singleton, Prod.mk.injEq] at hm
      rcases hm with hm | ⟨rfl, rfl⟩
      · exact h5 w' obs hm hf x hx
      · exact absurd hf f3
    · intro w' obs hm
      simp only [List.mem_append, List.mem_singleton, Prod.mk.injEq] at hm ⊢
      rcases hm with hm | ⟨rfl, rfl⟩
      · exact Or.inl (h6 w' obs hm)
      · exact Or.inr rfl
    · intro w' hf
      simp only [List.mem_append, List.mem_singleton] at hf ⊢
      rcases hf with hf | rfl
      · exact Or.inl (h7 w' hf)
      · exact Or.inr rfl
    · intro w' hf
      simp only [List.mem_append, List.mem_singleton]
      exact Or.inl (h8 w' hf)
    · intro w' hf
      simp only [List.mem_append, List.mem_singleton]
      exact Or.inl (h9 w' hf)
  next hc =>
    refine ⟨h0, h1, h2, ?_, ?_, ?_, ?_, ?_, ?_, ?_⟩
    · intro w' obs hm hf x hx
      simp only [List.mem_append, List.mem_singleton, Prod.mk.injEq] at hm
      rcases hm with hm | ⟨rfl, rfl⟩
      · exact h3 w' obs hm hf x hx
      · exact absurd hf f1
    · intro w' obs hm hf x hx
      simp only [List.mem_append, List.mem_singleton, Prod.mk.injEq] at hm hf
      rcases hm with hm | ⟨rfl, rfl⟩
      · rcases hf with hf | rfl
        · exact h4 w' obs hm hf x hx
        · exact absurd hm (f4 obs)
      · simp only [List.mem_append] at hx
        rcases hx with hx | hx
        · exact Or.inl hx
        · exact Or.inr (Or.inl hx)
    · intro w' obs hm hf x hx
      simp only [List.mem_append, List.mem_singleton, Prod.mk.injEq] at hm
      rcases hm with hm | ⟨rfl, rfl⟩
      · exact h5 w' obs hm hf x hx
      · exact absurd hf f3
    · intro w' obs hm
      simp only [List.mem_append, List.mem_singleton, Prod.mk.injEq] at hm ⊢
      rcases hm with hm | ⟨rfl, rfl⟩
      · exact Or.inl (h6 w' obs hm)
      · exact Or.inr rfl
    · intro w' hf
      simp only [List.mem_append, List.mem_singleton]
      exact Or.inl (h7 w' hf)
    · intro w' hf
      simp only [List.mem_append, List.mem_singleton] at hf ⊢
      rcases hf with hf | rfl
      · exact Or.inl (h8 w' hf)
      · exact Or.inr rfl
    · intro w' hf
      simp only [List.mem_append, List.mem_singleton]
      exact Or.inl (h9 w' hf)


/-- The inductive form: as long as flush-watcher names are distinct and the receiver has not been torn down. -/
def InvF (s : St) : Prop := s.registered.Nodup → s.tornDown = false → InvFlush s

theorem invF_init : InvF init := fun _ _ => invFlush_init

theorem invF_step (cfg : Cfg) (s : St) (l : Label) (s' : St) (h : InvF s) (hs : step cfg s l = some s') :
    InvF s' := by
  intro hn ht
  cases l
  case send x =>
    step_elim hs
    obtain ⟨e1, e2⟩ := send_reg cfg s x
    exact invFlush_send cfg s x (h (e1 ▸ hn) (e2 ▸ ht))
  case trySend x =>
    step_elim hs
    obtain ⟨e1, e2⟩ := trySend_reg cfg s x
    exact invFlush_trySend cfg s x (h (e1 ▸ hn) (e2 ▸ ht))
  case whenFlushed w =>
    simp only [step] at hs
    split at hs
    case isFalse => simp at hs
    case isTrue ha =>
      simp only [Option.some.injEq] at hs; subst hs
      have hr : (whenFlushed s w).registered = s.registered ++ [w] := by
        simp only [whenFlushed]; split <;> rfl
      have htd : (whenFlushed s w).tornDown = s.tornDown := by
        simp only [whenFlushed]; split <;> rfl
      rw [hr] at hn
      rw [htd] at ht
      have hn' := List.nodup_append.mp hn
      exact invFlush_whenFlushed s w (h hn'.1 ht) ha (fun hm => (hn'.2.2 w hm w (by simp)) rfl)
  case whenEmpty w =>
    simp only [step] at hs
    split at hs
    case isFalse => simp at hs
    case isTrue ha =>
      simp only [Option.some.injEq] at hs; subst hs
      have hr : (whenEmpty s w).registered = s.registered ∧ (whenEmpty s w).tornDown = s.tornDown := by
        simp only [whenEmpty]; split <;> exact ⟨rfl, rfl⟩
      exact invFlush_whenEmpty s w (h (hr.1 ▸ hn) (hr.2 ▸ ht))
  case rxTake =>
    simp only [step] at hs
    have hr : s'.registered = s.registered ∧ s'.tornDown = s.tornDown := by
      simp only [rxTake] at hs; flush_split hs <;> exact ⟨rfl, rfl⟩
    exact invFlush_rxTake s s' (h (hr.1 ▸ hn) (hr.2 ▸ ht)) hs
  case rxFireTake =>
    simp only [step] at hs
    have hr : s'.registered = s.registered ∧ s'.tornDown = s.tornDown := by
      simp only [rxFireTake] at hs; flush_split hs <;> exact ⟨rfl, rfl⟩
    exact invFlush_rxFireTake s s' (h (hr.1 ▸ hn) (hr.2 ▸ ht)) hs
  case rxFireFlush =>
    simp only [step] at hs
    have hr : s'.registered = s.registered ∧ s'.tornDown = s.tornDown := by
      simp only [rxFireFlush] at hs; flush_split hs <;> exact ⟨rfl, rfl⟩
    exact invFlush_rxFireFlush s s' (h (hr.1 ▸ hn) (hr.2 ▸ ht)) hs
  case rxBegin =>
    simp only [step] at hs
    have hr : s'.registered = s.registered ∧ s'.tornDown = s.tornDown := by
      simp only [rxBegin] at hs; flush_split hs <;> exact ⟨rfl, rfl⟩
    exact invFlush_rxBegin cfg s s' (h (hr.1 ▸ hn) (hr.2 ▸ ht)) hs
  case rxOutcome o =>
    simp only [step] at hs
    have hr : s'.registered = s.registered ∧ s'.tornDown = s.tornDown := by
      simp only [rxOutcome, conclude] at hs; flush_split hs <;> exact ⟨rfl, rfl⟩
    exact invFlush_rxOutcome cfg s s' o (h (hr.1 ▸ hn) (hr.2 ▸ ht)) hs
  case rxRetryWaited =>
    simp only [step] at hs
    have hr : s'.registered = s.registered ∧ s'.tornDown = s.tornDown := by
      simp only [rxRetryWaited] at hs; flush_split hs <;> exact ⟨rfl, rfl⟩
    exact invFlush_rxRetryWaited s s' (h (hr.1 ▸ hn) (hr.2 ▸ ht)) hs
  case rxIdleWaited =>
    simp only [step] at hs
    have hr : s'.registered = s.registered ∧ s'.tornDown = s.tornDown := by
      simp only [rxIdleWaited] at hs; flush_split hs <;> exact ⟨rfl, rfl⟩
    exact invFlush_rxIdleWaited s s' (h (hr.1 ▸ hn) (hr.2 ▸ ht)) hs
  case dropSender =>
    simp only [step] at hs
    split at hs
    case isFalse => simp at hs
    case isTrue ha =>
      simp only [Option.some.injEq] at hs; subst hs
      exact invFlush_dropSender s (h hn ht)
  case dropReceiver =>
    simp only [step, dropReceiver] at hs
    flush_split hs
    simp at ht

theorem invF_reachable (cfg : Cfg) (s : St) (h : Reachable cfg s) : InvF s :=
  invariant_of_step invF_init (invF_step cfg) s h

end EmitModel.Batcher
