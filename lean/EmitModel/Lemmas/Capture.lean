/-
  Lemmas/Capture.lean — helper definitions and lemmas for Thm/C19.lean (about Model/Capture.lean).
-/
import EmitModel.Model.Capture

namespace EmitModel.C19
open EmitModel.Capture

/-! ### Ids -/

/-- An id that is still downcastable was captured through its Display impl (true of every capture except
    `as_debug/as_sval/as_serde(inspect: true)` applied to a `TraceId`/`SpanId`, where the ambient context's typed
    fast path legitimately replaces the Debug/structured capture by the id itself). -/
def IdByDisplay : Cap → Prop
  | .display t (.trace n) => t = traceIdText n
  | .display t (.span n) => t = spanIdText n
  | .debug _ (.trace _) | .debug _ (.span _) => False
  | .sval _ _ (.trace _) | .sval _ _ (.span _) => False
  | .serde _ _ (.trace _) | .serde _ _ (.span _) => False
  | _ => True


/-! ### Integers -/

theorem inRange_iff (t : IntTy) (i : Int) : t.inRange i = true ↔ t.lo ≤ i ∧ i < t.hi := by
  simp [IntTy.inRange]

theorem carrier_inRange (t : IntTy) (i : Int) (h : t.inRange i = true) : t.carrier.inRange i = true := by
  rw [inRange_iff] at *
  cases t <;> simp [IntTy.carrier, IntTy.signed, IntTy.lo, IntTy.hi] at * <;> omega

/-- A cast that holds the integer `i` answers `pull::<T>` with `i` for every integer type `T` that can hold it. -/
theorem toInt_of_int (t : IntTy) (c : Cast) (i : Int) (hc : c.int? = some i) (h : t.inRange i = true) :
    c.toInt t = some i := by
  simp [Cast.toInt, hc, Option.filter, carrier_inRange t i h, h]

def isIntCap : Cap → Bool
  | .signed _ | .unsigned _ | .bigSigned _ | .bigUnsigned _ => true
  | _ => false

/-- Buffering widens `i64`/`u64` to the 128-bit carriers (vb:internal/owned.rs:204-222) — the integer is the same. -/
theorem readVia_int (c : Cap) (p : Path) (hc : isIntCap c = true) :
    (readVia p c).cast.int? = c.cast.int? := by
  cases c <;> simp [isIntCap] at hc <;> cases p <;>
    simp [readVia, toOwned, toShared, ctxtStore, Cap.tid, Cap.cast, Cast.int?]

theorem primLeaf_int (t : IntTy) (i : Int) (h : t.inRange i = true) :
    ∃ c, primLeaf? (.int t i) = some c ∧ c.cast.int? = some i ∧ isIntCap c = true := by
  rw [inRange_iff] at h
  cases t <;> simp [IntTy.lo] at h <;>
    simp [primLeaf?, IntTy.signed, Cap.cast, Cast.int?, isIntCap] <;> omega


theorem toString_toNat (i : Int) (h : 0 ≤ i) : toString i.toNat = toString i := by
  obtain ⟨n, rfl⟩ := Int.eq_ofNat_of_zero_le h
  rfl


/-! ### The sval→serde bridge outside the defect's region -/

theorem seqJson_nil (b : Bool) : seqJson b [] = "[]" := by simp [seqJson]

mutual
  /-- Outside the defect's region the bridge's rendering is the plain one. -/
  theorem json_broken_eq (fw : Fw) : ∀ (v : V) (root : Bool), v.hasSeqBelow root = false →
      v.json fw true root = v.json fw false root
    | .bool _, _, _ | .int _ _, _, _ | .f32 _ _, _, _ | .f64 _, _, _ | .char _ _, _, _ | .str _ _ _, _, _
    | .unit, _, _ | .optNone _, _, _ | .ustruct _, _, _ | .uvar _, _, _ | .err _ _, _, _ | .fmtOnly _ _, _, _
    | .level _, _, _ | .traceId _, _, _ | .spanId _, _, _ => by simp [V.json]
    | .optSome v, _, h => by
      simp only [V.hasSeqBelow] at h
      simp only [V.json]; exact json_broken_eq fw v false h
    | .seq vs, root, h => by
      simp only [V.hasSeqBelow, Bool.or_eq_false_iff] at h
      simp only [V.json]
      rw [jsonList_broken_eq fw vs h.2]
      cases root
      · cases vs with
        | nil => simp [jsonList, seqJson_nil]
        | cons a as => simp at h
      · simp
    | .map kvs, _, h => by
      simp only [V.hasSeqBelow] at h
      simp only [V.json]; rw [jsonKvs_broken_eq fw kvs h]
    | .tuple vs, _, h => by
      simp only [V.hasSeqBelow] at h
      simp only [V.json]; rw [jsonList_broken_eq fw vs h]
    | .record _ fs, _, h => by
      simp only [V.hasSeqBelow] at h
      simp only [V.json]; rw [jsonFields_broken_eq fw fs h]
    | .tstruct _ vs, _, h => by
      simp only [V.hasSeqBelow] at h
      simp only [V.json]; rw [jsonList_broken_eq fw vs h]
    | .nvar _ v, _, h => by
      simp only [V.hasSeqBelow] at h
      simp only [V.json]; rw [json_broken_eq fw v false h]
    | .tvar _ vs, _, h => by
      simp only [V.hasSeqBelow] at h
      simp only [V.json]; rw [jsonList_broken_eq fw vs h]
    | .svar _ fs, _, h => by
      simp only [V.hasSeqBelow] at h
      simp only [V.json]; rw [jsonFields_broken_eq fw fs h]
  theorem jsonList_broken_eq (fw : Fw) : ∀ (vs : List V), anySeqBelow vs = false →
      jsonList fw true vs = jsonList fw false vs
    | [], _ => by simp [jsonList]
    | v :: vs, h => by
      simp only [anySeqBelow, Bool.or_eq_false_iff] at h
      simp only [jsonList]; rw [json_broken_eq fw v false h.1, jsonList_broken_eq fw vs h.2]
  theorem jsonKvs_broken_eq (fw : Fw) : ∀ (kvs : List (V × V)), anySeqBelowKvs kvs = false →
      jsonKvs fw true kvs = jsonKvs fw false kvs
    | [], _ => by simp [jsonKvs]
    | (k, v) :: kvs, h => by
      simp only [anySeqBelowKvs, Bool.or_eq_false_iff] at h
      simp only [jsonKvs]; rw [json_broken_eq fw v false h.1, jsonKvs_broken_eq fw kvs h.2]
  theorem jsonFields_broken_eq (fw : Fw) : ∀ (fs : List (String × V)), anySeqBelowFields fs = false →
      jsonFields fw true fs = jsonFields fw false fs
    | [], _ => by simp [jsonFields]
    | (f, v) :: fs, h => by
      simp only [anySeqBelowFields, Bool.or_eq_false_iff] at h
      simp only [jsonFields]; rw [json_broken_eq fw v false h.1, jsonFields_broken_eq fw fs h.2]
end


theorem primLeaf_json (v : V) (c : Cap) (h : primLeaf? v = some c) (hf : ∀ x w, v ≠ .f32 x w)
    (hr : ∀ ty i, v = .int ty i → ty.inRange i = true) :
    c.serdeJson = v.json .serde false false ∧ c.svalJson = v.json .sval false false := by
  cases v with
  | f32 x w => exact absurd rfl (hf x w)
  | int t i =>
    have hi := (inRange_iff t i).1 (hr t i rfl)
    simp only [primLeaf?, Option.some.injEq] at h; subst h
    cases t <;> simp [IntTy.lo] at hi <;>
      simp [IntTy.signed, Cap.serdeJson, Cap.svalJson, V.json] <;> exact toString_toNat i (by omega)
  | bool b => simp [primLeaf?] at h; subst h; simp [Cap.serdeJson, Cap.svalJson, V.json]
  | f64 x => simp [primLeaf?] at h; subst h; simp [Cap.serdeJson, Cap.svalJson, V.json]
  | char ch d => simp [primLeaf?] at h; subst h; simp [Cap.serdeJson, Cap.svalJson, V.json]
  | str o s d => simp [primLeaf?] at h; subst h; simp [Cap.serdeJson, Cap.svalJson, V.json]
  | _ => simp [primLeaf?] at h


/-! ### Buffering -/

def isErrorCap : Cap → Bool
  | .error _ => true
  | _ => false

def isUnbufferedSval : Cap → Bool
  | .sval _ false _ => true
  | _ => false

/-- The observations buffering may legitimately change, and for which captured values:
    * `downcast_ref` — documented as unreliable once a value is buffered (core/src/value.rs:157-164);
    * the chain and the root-cause display of an ERROR (see `error_chain_lost_when_shared`);
    * borrowing a `&str` out of an sval-captured string (`pull::<&str>`; `pull::<String>` survives). -/
def Survives (o : ObsKind) (c : Cap) : Prop :=
  o ≠ .downcast ∧ (isErrorCap c = true → o ≠ .chain ∧ o ≠ .display) ∧
    (isUnbufferedSval c = true → o ≠ .pullBorrowedStr)

theorem leafCast_sval_buffered (v : V) (b : Bool) :
    (leafCast .sval b v).int? = (leafCast .sval true v).int? ∧
    (leafCast .sval b v).toF64 = (leafCast .sval true v).toF64 ∧
    (leafCast .sval b v).toBool = (leafCast .sval true v).toBool ∧
    (leafCast .sval b v).toStr = (leafCast .sval true v).toStr := by
  cases v <;> simp [leafCast, Cast.int?, Cast.toF64, Cast.toBool, Cast.toStr]

theorem leafCast_serde_buffered (v : V) (b : Bool) : leafCast .serde b v = leafCast .serde true v := by
  cases v <;> simp [leafCast]

/-- `to_owned`: every surviving observation is unchanged — in particular `i64`/`u64` widened to the 128-bit
    carriers answer every typed pull as before. -/
theorem observe_toOwned (o : ObsKind) (c : Cap) (h : Survives o c) : observe o (toOwned c) = observe o c := by
  obtain ⟨hd, _, hs⟩ := h
  cases c with
  | sval v b t =>
    have := leafCast_sval_buffered v b
    cases o <;> simp_all [observe, toOwned, Cap.cast, Cast.toInt, Cap.toDisplay, Cap.toDebug, Cap.serdeJson, Cap.svalJson,
      Cap.chain, Cap.isNull]
    cases b <;> simp_all [isUnbufferedSval]
  | serde v b t =>
    have := leafCast_serde_buffered v b
    cases o <;> simp_all [observe, toOwned, Cap.cast, Cast.toInt, Cap.toDisplay, Cap.toDebug, Cap.serdeJson, Cap.svalJson,
      Cap.chain, Cap.isNull]
  | _ =>
    cases o <;> simp_all [observe, toOwned, Cap.cast, Cast.toInt, Cast.int?, Cast.toF64, Cast.toBool, Cast.toStr,
      Cast.toBorrowedStr, Cap.toDisplay, Cap.toDebug, Cap.serdeJson, Cap.svalJson, Cap.chain, Cap.isNull]

theorem observe_toShared (o : ObsKind) (c : Cap) (h : Survives o c) : observe o (toShared c) = observe o c := by
  by_cases he : ∃ ch, c = .error ch
  · obtain ⟨ch, rfl⟩ := he
    obtain ⟨hd, herr, _⟩ := h
    have := herr rfl
    cases o <;> simp_all [observe, toShared, toOwned, Cap.cast, Cast.toInt, Cast.int?, Cast.toF64, Cast.toBool, Cast.toStr,
      Cast.toBorrowedStr, Cap.toDebug, Cap.serdeJson, Cap.svalJson, Cap.isNull]
  · have : toShared c = toOwned c := by
      cases c <;> simp_all [toShared, toOwned]
    rw [this]; exact observe_toOwned o c h

theorem observe_ctxtStore (o : ObsKind) (c : Cap) (hid : IdByDisplay c) (h : Survives o c) :
    observe o (ctxtStore c) = observe o c := by
  unfold ctxtStore
  cases ht : c.tid with
  | no => simpa using observe_toShared o c h
  | level => simpa using observe_toShared o c h
  | trace n =>
    cases c <;> simp [Cap.tid] at ht <;> subst ht <;> simp [IdByDisplay] at hid
    subst hid
    cases o <;> simp_all [observe, Cap.cast, Cap.toDisplay, Cap.toDebug, Cap.serdeJson, Cap.svalJson, Cap.chain, Cap.isNull,
      Survives]
  | span n =>
    cases c <;> simp [Cap.tid] at ht <;> subst ht <;> simp [IdByDisplay] at hid
    subst hid
    cases o <;> simp_all [observe, Cap.cast, Cap.toDisplay, Cap.toDebug, Cap.serdeJson, Cap.svalJson, Cap.chain, Cap.isNull,
      Survives]


/-! ### Captures produce consistent ids -/

theorem primLeaf_id (v : V) (c : Cap) (h : primLeaf? v = some c) : IdByDisplay c := by
  cases v <;> simp [primLeaf?] at h <;> subst h <;> (try simp [IdByDisplay])
  rename_i t i; cases t <;> simp [IntTy.signed, IdByDisplay]

theorem tryCapture_id (v : V) (c : Cap) (h : tryCapture v = some c) : IdByDisplay c := by
  cases v with
  | optNone b => cases b <;> simp [tryCapture, primLeaf?] at h; subst h; simp [IdByDisplay]
  | optSome v' => exact primLeaf_id v' c (by simpa [tryCapture] using h)
  | _ => exact primLeaf_id _ c (by simpa [tryCapture] using h)

theorem display_tid_id (v : V) (t : String) (h : v.display? = some t) : IdByDisplay (.display t v.tid) := by
  cases v <;> simp [V.display?] at h <;> (try subst h) <;> simp [V.tid, IdByDisplay]

theorem toValue_id : ∀ (v : V) (c : Cap), toValue? v = some c → IdByDisplay c
  | .optSome v', c, h => toValue_id v' c (by simpa [toValue?] using h)
  | .f32 _ _, _, h | .char _ _, _, h => by simp [toValue?] at h
  | .optNone _, c, h | .level _, c, h | .traceId _, c, h | .spanId _, c, h => by
    simp [toValue?] at h; subst h; simp [IdByDisplay]
  | .bool b, c, h => primLeaf_id (.bool b) c (by simpa [toValue?] using h)
  | .int t i, c, h => primLeaf_id (.int t i) c (by simpa [toValue?] using h)
  | .f64 x, c, h => primLeaf_id (.f64 x) c (by simpa [toValue?] using h)
  | .str o s d, c, h => primLeaf_id (.str o s d) c (by simpa [toValue?] using h)
  | .unit, _, h | .seq _, _, h | .map _, _, h | .tuple _, _, h | .record _ _, _, h | .tstruct _ _, _, h
  | .ustruct _, _, h | .uvar _, _, h | .nvar _ _, _, h | .tvar _ _, _, h | .svar _ _, _, h | .err _ _, _, h
  | .fmtOnly _ _, _, h => by simp [toValue?, primLeaf?] at h

end EmitModel.C19
