/-
  Lemmas/EncodeJson.lean — C13. The renderer of Model/Json.lean produces texts of the JSON grammar and never a
  raw newline.
-/
import EmitModel.Model.Json

namespace EmitModel.Json

/-! ### strings -/

theorem IsStrBody.append {a b : List Char} (ha : IsStrBody a) (hb : IsStrBody b) : IsStrBody (a ++ b) := by
  induction ha with
  | nil => simpa using hb
  | plain c rest h1 h2 h3 _ ih => exact IsStrBody.plain c _ h1 h2 h3 ih
  | esc e rest he _ ih => exact IsStrBody.esc e _ he ih
  | uni a b c d rest ha hb hc hd _ ih => exact IsStrBody.uni a b c d _ ha hb hc hd ih

theorem hexDigit_isHex (n : Nat) (h : n < 16) : IsHexDigit (hexDigit n) := by
  unfold hexDigit IsHexDigit
  have : n = 0 ∨ n = 1 ∨ n = 2 ∨ n = 3 ∨ n = 4 ∨ n = 5 ∨ n = 6 ∨ n = 7 ∨ n = 8 ∨ n = 9 ∨ n = 10 ∨ n = 11 ∨
      n = 12 ∨ n = 13 ∨ n = 14 ∨ n = 15 := by omega
  rcases this with h | h | h | h | h | h | h | h | h | h | h | h | h | h | h | h <;> subst h <;> decide

theorem escapeChar_strBody (c : Char) : IsStrBody (escapeChar c) := by
  unfold escapeChar
  split
  · exact IsStrBody.esc _ _ (by simp) IsStrBody.nil
  split
  · exact IsStrBody.esc _ _ (by simp) IsStrBody.nil
  split
  · exact IsStrBody.esc _ _ (by simp) IsStrBody.nil
  split
  · exact IsStrBody.esc _ _ (by simp) IsStrBody.nil
  split
  · exact IsStrBody.esc _ _ (by simp) IsStrBody.nil
  split
  · exact IsStrBody.esc _ _ (by simp) IsStrBody.nil
  split
  · exact IsStrBody.esc _ _ (by simp) IsStrBody.nil
  split
  · rename_i h
    refine IsStrBody.uni '0' '0' _ _ _ (by unfold IsHexDigit; decide) (by unfold IsHexDigit; decide) (hexDigit_isHex _ (by omega)) (hexDigit_isHex _ (by omega))
      IsStrBody.nil
  · rename_i h1 h2 _ _ _ _ _ h8
    exact IsStrBody.plain c _ (by omega) h1 h2 IsStrBody.nil

theorem escape_strBody (cs : List Char) : IsStrBody (escape cs) := by
  induction cs with
  | nil => exact IsStrBody.nil
  | cons c cs ih => exact IsStrBody.append (escapeChar_strBody c) ih

theorem quote_isJson (s : String) : IsJson (quote s) := IsJson.str _ (escape_strBody _)

/-! ### integers -/

theorem digitChar_isDigit (n : Nat) (h : n < 10) : IsDigit (digitChar n) := by
  unfold digitChar IsDigit
  have : n = 0 ∨ n = 1 ∨ n = 2 ∨ n = 3 ∨ n = 4 ∨ n = 5 ∨ n = 6 ∨ n = 7 ∨ n = 8 ∨ n = 9 := by omega
  rcases this with h | h | h | h | h | h | h | h | h | h <;> subst h <;> decide

theorem digitChar_ne_zero (n : Nat) (h : n < 10) (h0 : n ≠ 0) : digitChar n ≠ '0' := by
  unfold digitChar
  have : n = 1 ∨ n = 2 ∨ n = 3 ∨ n = 4 ∨ n = 5 ∨ n = 6 ∨ n = 7 ∨ n = 8 ∨ n = 9 := by omega
  rcases this with h | h | h | h | h | h | h | h | h <;> subst h <;> decide

/-- `natDec n` is `0` or a non-zero digit followed by digits. -/
theorem natDec_spec (n : Nat) :
    (n = 0 ∧ natDec n = ['0']) ∨
    (n ≠ 0 ∧ ∃ d ds, natDec n = d :: ds ∧ IsDigit d ∧ d ≠ '0' ∧ ∀ c ∈ ds, IsDigit c) := by
  induction n using Nat.strongRecOn with
  | _ n ih =>
    rw [natDec]
    by_cases h : n < 10
    · simp only [h, dite_true]
      by_cases h0 : n = 0
      · left; subst h0; exact ⟨rfl, rfl⟩
      · right
        exact ⟨h0, _, [], rfl, digitChar_isDigit n h, digitChar_ne_zero n h h0, by simp⟩
    · simp only [h, dite_false]
      right
      refine ⟨by omega, ?_⟩
      have hq : n / 10 < n := by omega
      have hq0 : n / 10 ≠ 0 := by omega
      rcases ih (n / 10) hq with ⟨h0, _⟩ | ⟨_, d, ds, hd, hdig, hnz, hall⟩
      · exact absurd h0 hq0
      · refine ⟨d, ds ++ [digitChar (n % 10)], by simp [hd], hdig, hnz, ?_⟩
        intro c hc
        rcases List.mem_append.mp hc with hc | hc
        · exact hall c hc
        · simp at hc; subst hc; exact digitChar_isDigit _ (by omega)

theorem natDec_intPart (n : Nat) : IsIntPart (natDec n) := by
  rcases natDec_spec n with ⟨_, h⟩ | ⟨_, d, ds, h, hd, hnz, hall⟩
  · rw [h]; exact IsIntPart.zero
  · rw [h]; exact IsIntPart.nz d ds hd hnz hall

theorem intDec_isNumber (i : Int) : IsNumber (intDec i) := by
  unfold intDec
  split
  · have := IsNumber.mk ['-'] (natDec i.natAbs) [] [] (Or.inr rfl) (natDec_intPart _) IsFrac.none IsExp.none
    simpa using this
  · have := IsNumber.mk [] (natDec i.toNat) [] [] (Or.inl rfl) (natDec_intPart _) IsFrac.none IsExp.none
    simpa using this

/-! ### the renderer -/

mutual
theorem render_isJson : (j : Json) → j.NumsOk → IsJson (render j)
  | .null, _ => by simp only [render]; exact IsJson.null
  | .bool true, _ => by simp only [render]; exact IsJson.tru
  | .bool false, _ => by simp only [render]; exact IsJson.fls
  | .int i, _ => by simp only [render]; exact IsJson.num _ (intDec_isNumber i)
  | .num t, h => by simp only [render]; exact IsJson.num _ h
  | .str s, _ => by simp only [render]; exact quote_isJson s
  | .arr xs, h => by
    simp only [render]
    exact IsJson.arr _ (renderElems_isJson xs h)
  | .obj kvs, h => by
    simp only [render]
    exact IsJson.obj _ (renderMembers_isJson kvs h)
theorem renderElems_isJson : (xs : List Json) → Json.NumsOkList xs → IsJsonList (renderElems xs)
  | [], _ => by simp only [renderElems]; exact IsJsonList.nil
  | x :: xs, h => by
    simp only [renderElems]
    exact IsJsonList.cons _ _ (render_isJson x h.1) (renderElems_isJson xs h.2)
theorem renderMembers_isJson : (kvs : List (String × Json)) → Json.NumsOkMembers kvs → IsMemberList (renderMembers kvs)
  | [], _ => by simp only [renderMembers]; exact IsMemberList.nil
  | (k, v) :: rest, h => by
    simp only [renderMembers, quote]
    exact IsMemberList.cons _ _ _ (escape_strBody _) (render_isJson v h.1) (renderMembers_isJson rest h.2)
end

/-! ### no raw newline (one record per line) -/

theorem escapeChar_no_newline (c : Char) : '\n' ∉ escapeChar c := by
  unfold escapeChar
  split
  · decide
  split
  · decide
  split
  · decide
  split
  · decide
  split
  · decide
  split
  · decide
  split
  · decide
  split
  · rename_i h
    intro hm
    simp only [List.mem_cons, List.not_mem_nil, or_false] at hm
    have hx : ∀ n, n < 16 → hexDigit n ≠ '\n' := by
      intro n hn
      have : n = 0 ∨ n = 1 ∨ n = 2 ∨ n = 3 ∨ n = 4 ∨ n = 5 ∨ n = 6 ∨ n = 7 ∨ n = 8 ∨ n = 9 ∨ n = 10 ∨ n = 11 ∨
          n = 12 ∨ n = 13 ∨ n = 14 ∨ n = 15 := by omega
      rcases this with h | h | h | h | h | h | h | h | h | h | h | h | h | h | h | h <;> subst h <;> decide
    rcases hm with h | h | h | h | h | h
    · exact absurd h (by decide)
    · exact absurd h (by decide)
    · exact absurd h (by decide)
    · exact absurd h (by decide)
    · exact hx _ (by omega) h.symm
    · exact hx _ (by omega) h.symm
  · rename_i _ _ _ _ h10 _ _ _
    intro hm
    simp only [List.mem_cons, List.not_mem_nil, or_false] at hm
    subst hm
    exact h10 (by decide)

theorem escape_no_newline (cs : List Char) : '\n' ∉ escape cs := by
  induction cs with
  | nil => simp [escape]
  | cons c cs ih =>
    simp only [escape, List.mem_append, not_or]
    exact ⟨escapeChar_no_newline c, ih⟩

theorem quote_no_newline (s : String) : '\n' ∉ quote s := by
  unfold quote
  simp only [List.mem_cons, List.mem_append, List.not_mem_nil, or_false, not_or]
  exact ⟨by decide, escape_no_newline _, by decide⟩

theorem isDigit_ne_newline {c : Char} (h : IsDigit c) : c ≠ '\n' := by
  intro hc; subst hc; unfold IsDigit at h; revert h; decide

theorem isNumber_no_newline {t : List Char} (h : IsNumber t) : '\n' ∉ t := by
  cases h with
  | mk sign ip fr ex hs hi hf he =>
    simp only [List.mem_append, not_or]
    refine ⟨?_, ?_, ?_, ?_⟩
    · rcases hs with h | h <;> subst h <;> decide
    · cases hi with
      | zero => decide
      | nz d ds hd _ hall =>
        intro hm
        rcases List.mem_cons.mp hm with h | h
        · exact isDigit_ne_newline hd h.symm
        · exact isDigit_ne_newline (hall _ h) rfl
    · cases hf with
      | none => simp
      | some d ds hd hall =>
        intro hm
        rcases List.mem_cons.mp hm with h | h
        · exact absurd h (by decide)
        rcases List.mem_cons.mp h with h | h
        · exact isDigit_ne_newline hd h.symm
        · exact isDigit_ne_newline (hall _ h) rfl
    · cases he with
      | none => simp
      | some e sign d ds he hsg hd hall =>
        intro hm
        rcases List.mem_cons.mp hm with h | h
        · rcases he with he | he <;> subst he <;> exact absurd h (by decide)
        rcases List.mem_append.mp h with h | h
        · rcases hsg with hs | hs | hs <;> subst hs <;> revert h <;> decide
        rcases List.mem_cons.mp h with h | h
        · exact isDigit_ne_newline hd h.symm
        · exact isDigit_ne_newline (hall _ h) rfl

theorem commaSep_no_newline : (parts : List (List Char)) → (∀ p ∈ parts, '\n' ∉ p) → '\n' ∉ commaSep parts
  | [], _ => by simp [commaSep]
  | [x], h => by simpa [commaSep] using h x (by simp)
  | x :: y :: rest, h => by
    simp only [commaSep, List.mem_append, List.mem_cons, not_or]
    refine ⟨h x (by simp), by decide, ?_⟩
    exact commaSep_no_newline (y :: rest) (fun p hp => h p (List.mem_cons_of_mem _ hp))

mutual
theorem render_no_newline : (j : Json) → j.NumsOk → '\n' ∉ render j
  | .null, _ => by simp only [render]; decide
  | .bool true, _ => by simp only [render]; decide
  | .bool false, _ => by simp only [render]; decide
  | .int i, _ => by simp only [render]; exact isNumber_no_newline (intDec_isNumber i)
  | .num t, h => by simp only [render]; exact isNumber_no_newline h
  | .str s, _ => by simp only [render]; exact quote_no_newline s
  | .arr xs, h => by
    simp only [render, List.mem_cons, List.mem_append, List.not_mem_nil, or_false, not_or]
    exact ⟨by decide, commaSep_no_newline _ (renderElems_no_newline xs h), by decide⟩
  | .obj kvs, h => by
    simp only [render, List.mem_cons, List.mem_append, List.not_mem_nil, or_false, not_or]
    exact ⟨by decide, commaSep_no_newline _ (renderMembers_no_newline kvs h), by decide⟩
theorem renderElems_no_newline : (xs : List Json) → Json.NumsOkList xs → ∀ p ∈ renderElems xs, '\n' ∉ p
  | [], _ => by simp [renderElems]
  | x :: xs, h => by
    intro p hp
    simp only [renderElems, List.mem_cons] at hp
    rcases hp with hp | hp
    · subst hp; exact render_no_newline x h.1
    · exact renderElems_no_newline xs h.2 p hp
theorem renderMembers_no_newline : (kvs : List (String × Json)) → Json.NumsOkMembers kvs →
    ∀ p ∈ renderMembers kvs, '\n' ∉ p
  | [], _ => by simp [renderMembers]
  | (k, v) :: rest, h => by
    intro p hp
    simp only [renderMembers, List.mem_cons] at hp
    rcases hp with hp | hp
    · subst hp
      simp only [List.mem_append, List.mem_cons, not_or]
      exact ⟨quote_no_newline k, by decide, render_no_newline v h.1⟩
    · exact renderMembers_no_newline rest h.2 p hp
end

end EmitModel.Json
