/-
  Lemmas/Calendar.lean — C15. The calendar arithmetic of Model/Timestamp.lean:
    * Rust's truncating `/`,`%` followed by the code's `if rem < 0` fix-up is Euclidean division (`fixup`);
    * the era decomposition of `to_parts` (`era`, `dateOfDays_spec`): days since 2000-03-01 =
      146097·qc + 36524·c + 1461·q + 365·y + r3 with the digit bounds, by `omega`;
    * the month loop over the March-based table (`monthLoop_eq`, 366 cases by kernel evaluation);
    * `start_of_year` of `from_parts` in terms of the same digits, both the 1900–2038 fast path and the general
      path (`startOfYear_spec`).
-/
import EmitModel.Model.Timestamp

namespace EmitModel.Timestamp
open EmitModel.Text

def monthOfDoy (n : Nat) : Nat × Nat :=
  if n < 31 then (0, n) else if n < 61 then (1, n - 31) else if n < 92 then (2, n - 61)
  else if n < 122 then (3, n - 92) else if n < 153 then (4, n - 122) else if n < 184 then (5, n - 153)
  else if n < 214 then (6, n - 184) else if n < 245 then (7, n - 214) else if n < 275 then (8, n - 245)
  else if n < 306 then (9, n - 275) else if n < 337 then (10, n - 306) else (11, n - 337)

theorem monthLoop_eq : ∀ n : Nat, n < 366 →
    monthLoop DAYS_IN_MONTH 0 ((n : Nat) : Int) = .ok ((monthOfDoy n).1, (((monthOfDoy n).2 : Nat) : Int)) := by
  decide +kernel

theorem fixup (a b : Int) (hb : 0 < b) :
    (if a.tmod b < 0 then a.tdiv b - 1 else a.tdiv b) = a / b ∧
    (if a.tmod b < 0 then a.tmod b + b else a.tmod b) = a % b := by
  have h1 := Int.emod_nonneg a (Int.ne_of_gt hb)
  have h2 := Int.emod_lt_of_pos a hb
  rw [Int.tdiv_eq_ediv, Int.tmod_eq_emod]
  simp only [Int.dvd_iff_emod_eq_zero, Int.sign_eq_one_of_pos hb]
  have : (b.natAbs : Int) = b := by omega
  by_cases h : 0 ≤ a ∨ a % b = 0
  · simp only [h, ↓reduceIte]; split <;> omega
  · simp only [h, ↓reduceIte, this]; split <;> omega

/-- the era decomposition computed with Euclidean division -/
structure Era (d qc c q y r3 : Int) : Prop where
  c0 : 0 ≤ c
  c3 : c ≤ 3
  q0 : 0 ≤ q
  q24 : q ≤ 24
  y0 : 0 ≤ y
  y3 : y ≤ 3
  r0 : 0 ≤ r3
  r365 : r3 ≤ 365
  sum : d = 146097 * qc + 36524 * c + 1461 * q + 365 * y + r3
  leap : r3 = 365 → y = 3 ∧ (q = 24 → c = 3)

theorem era (d qc r0 c r1 q r2 y r3 : Int)
    (hqc : qc = d / 146097) (hr0 : r0 = d % 146097)
    (hc : c = if r0 / 36524 = 4 then r0 / 36524 - 1 else r0 / 36524) (hr1 : r1 = r0 - c * 36524)
    (hq : q = if r1 / 1461 = 25 then r1 / 1461 - 1 else r1 / 1461) (hr2 : r2 = r1 - q * 1461)
    (hy : y = if r2 / 365 = 4 then r2 / 365 - 1 else r2 / 365) (hr3 : r3 = r2 - y * 365) :
    Era d qc c q y r3 ∧ 0 ≤ r0 ∧ 0 ≤ r1 ∧ 0 ≤ r2 := by
  refine ⟨⟨?_, ?_, ?_, ?_, ?_, ?_, ?_, ?_, ?_, ?_⟩, ?_, ?_, ?_⟩ <;>
    (split at hc <;> split at hq <;> split at hy <;> omega)

theorem dateOfDays_of (d qc r0 c r1 q r2 y r3 : Int)
    (hqc : qc = d / 146097) (hr0 : r0 = d % 146097)
    (hc : c = if r0 / 36524 = 4 then r0 / 36524 - 1 else r0 / 36524) (hr1 : r1 = r0 - c * 36524)
    (hq : q = if r1 / 1461 = 25 then r1 / 1461 - 1 else r1 / 1461) (hr2 : r2 = r1 - q * 1461)
    (hy : y = if r2 / 365 = 4 then r2 / 365 - 1 else r2 / 365) (hr3 : r3 = r2 - y * 365) :
    dateOfDays d =
      if ((monthOfDoy r3.toNat).1 : Int) ≥ 10 then
        .ok (y + 4 * q + 100 * c + 400 * qc + 1, ((monthOfDoy r3.toNat).1 : Int) - 12, ((monthOfDoy r3.toNat).2 : Int))
      else .ok (y + 4 * q + 100 * c + 400 * qc, ((monthOfDoy r3.toNat).1 : Int), ((monthOfDoy r3.toNat).2 : Int)) := by
  have f := fixup d 146097 (by decide)
  obtain ⟨hE, h0, h1, h2⟩ := era d _ _ _ _ _ _ _ _ hqc hr0 hc hr1 hq hr2 hy hr3
  unfold dateOfDays
  simp only [f.1, f.2]
  rw [← hqc, ← hr0, Int.tdiv_eq_ediv_of_nonneg h0, ← hc, ← hr1, Int.tdiv_eq_ediv_of_nonneg h1, ← hq, ← hr2,
    Int.tdiv_eq_ediv_of_nonneg h2, ← hy, ← hr3]
  have hr := hE.r0
  have hr' := hE.r365
  have hm := monthLoop_eq r3.toNat (by omega)
  rw [Int.toNat_of_nonneg hr] at hm
  rw [hm]

theorem dateOfDays_spec (d : Int) :
    ∃ qc c q y r3 : Int, Era d qc c q y r3 ∧
      dateOfDays d =
        if ((monthOfDoy r3.toNat).1 : Int) ≥ 10 then
          .ok (y + 4 * q + 100 * c + 400 * qc + 1, ((monthOfDoy r3.toNat).1 : Int) - 12, ((monthOfDoy r3.toNat).2 : Int))
        else .ok (y + 4 * q + 100 * c + 400 * qc, ((monthOfDoy r3.toNat).1 : Int), ((monthOfDoy r3.toNat).2 : Int)) :=
  ⟨_, _, _, _, _, (era d _ _ _ _ _ _ _ _ rfl rfl rfl rfl rfl rfl rfl rfl).1,
    dateOfDays_of d _ _ _ _ _ _ _ _ rfl rfl rfl rfl rfl rfl rfl rfl⟩

/-- `leap` of the civil year `2000 + Z`, `Z = y + 4q + 100c + 400qc` -/
def leapOf (y q c : Int) : Bool := decide (y = 0 ∧ (q ≠ 0 ∨ c = 0))

theorem startOfYear_spec (years : Nat) (Z qc c q y : Int) (hY : (years : Int) = 2000 + Z)
    (hZ : Z = y + 4 * q + 100 * c + 400 * qc)
    (y0 : 0 ≤ y) (y3 : y ≤ 3) (q0 : 0 ≤ q) (q24 : q ≤ 24) (c0 : 0 ≤ c) (c3 : c ≤ 3) (hlo : -30 ≤ Z) :
    startOfYear years =
      (leapOf y q c,
       86400 * (365 * Z + q + 24 * c + 97 * qc + 10958 - (if leapOf y q c then 1 else 0))) := by
  unfold startOfYear
  have hyear : (years : Int) - 1900 = Z + 100 := by omega
  simp only [hyear]
  by_cases hfast : 0 ≤ Z + 100 ∧ Z + 100 ≤ 138
  · simp only [hfast, and_self, ↓reduceIte]
    have hq4 : (Z + 100 - 68) / 4 = q + 25 * c + 100 * qc + 8 := by omega
    have hm4 : (Z + 100 - 68) % 4 = y := by omega
    rw [hq4, hm4]
    have hcq : (c = 0 ∧ qc = 0) ∨ (c = 3 ∧ qc = -1) := by omega
    by_cases hy : y = 0
    · have hl : leapOf y q c = true := by
        simp only [leapOf, decide_eq_true_eq]; omega
      simp only [hy, ↓reduceIte] at *
      simp only [hl, ↓reduceIte]
      congr 1
      omega
    · have hl : leapOf y q c = false := by
        simp only [leapOf, decide_eq_false_iff_not]; omega
      simp only [hy, hl, ↓reduceIte, Bool.false_eq_true]
      congr 1
      omega
  · simp only [hfast, ↓reduceIte]
    have hsub : Z + 100 - 100 = Z := by omega
    have f := fixup Z 400 (by decide)
    simp only [hsub, f.1, f.2]
    have hd : Z / 400 = qc := by omega
    have hm : Z % 400 = y + 4 * q + 100 * c := by omega
    rw [hd, hm]
    by_cases hrem : y + 4 * q + 100 * c = 0
    · have hl : leapOf y q c = true := by
        simp only [leapOf, decide_eq_true_eq]; omega
      simp only [hrem, hl, ↓reduceIte]
      congr 1
      omega
    · simp only [hrem, ↓reduceIte]
      have hP : (if y + 4 * q + 100 * c ≥ 200 then
            (if y + 4 * q + 100 * c ≥ 300 then ((3 : Int), y + 4 * q + 100 * c - 300)
             else (2, y + 4 * q + 100 * c - 200))
          else if y + 4 * q + 100 * c ≥ 100 then (1, y + 4 * q + 100 * c - 100)
          else (0, y + 4 * q + 100 * c)) = (c, y + 4 * q) := by
        repeat' split
        all_goals (refine Prod.ext ?_ ?_ <;> simp only [] <;> omega)
      simp only [hP]
      by_cases hr : y + 4 * q = 0
      · have hl : leapOf y q c = false := by
          simp only [leapOf, decide_eq_false_iff_not]; omega
        simp only [hr, hl, ↓reduceIte, Bool.false_eq_true]
        congr 1
        omega
      · have hnn : 0 ≤ y + 4 * q := by omega
        simp only [hr, ↓reduceIte, Int.tdiv_eq_ediv_of_nonneg hnn, Int.tmod_eq_emod_of_nonneg hnn]
        have hd4 : (y + 4 * q) / 4 = q := by omega
        have hm4 : (y + 4 * q) % 4 = y := by omega
        rw [hd4, hm4]
        by_cases hy : y = 0
        · have hl : leapOf y q c = true := by
            simp only [leapOf, decide_eq_true_eq]; omega
          simp only [hy, ↓reduceIte] at *
          simp only [hl, decide_true, ↓reduceIte]
          congr 1
          omega
        · have hl : leapOf y q c = false := by
            simp only [leapOf, decide_eq_false_iff_not]; omega
          simp only [hy, hl, decide_false, ↓reduceIte, Bool.false_eq_true]
          congr 1
          omega

/-! ### the calendar round trip -/

theorem month_facts : ∀ n : Nat, n < 366 →
    ((monthOfDoy n).1 < 10 ∧ CUM_DAYS[((monthOfDoy n).1 + 3 - 1) % 12]! + (monthOfDoy n).2 = n + 59 ∧
        (monthOfDoy n).2 ≤ 30 ∧ n < 306) ∨
    (10 ≤ (monthOfDoy n).1 ∧ (monthOfDoy n).1 ≤ 11 ∧
        CUM_DAYS[((monthOfDoy n).1 - 9 - 1) % 12]! + (monthOfDoy n).2 + 306 = n ∧ (monthOfDoy n).2 ≤ 30) := by
  decide +kernel

theorem tod (rs : Nat) (h : rs < 86400) :
    3600 * ((rs : Int).tdiv 3600).toNat + 60 * (((rs : Int).tdiv 60).tmod 60).toNat + ((rs : Int).tmod 60).toNat = rs ∧
    ((rs : Int).tdiv 3600).toNat ≤ 23 ∧ (((rs : Int).tdiv 60).tmod 60).toNat ≤ 59 ∧ ((rs : Int).tmod 60).toNat ≤ 59 := by
  have h0 : (0 : Int) ≤ (rs : Int) := by omega
  have h1 : (0 : Int) ≤ (rs : Int) / 60 := by omega
  rw [Int.tdiv_eq_ediv_of_nonneg h0, Int.tdiv_eq_ediv_of_nonneg h0, Int.tmod_eq_emod_of_nonneg h0,
    Int.tmod_eq_emod_of_nonneg h1]
  omega

/-- what `from_parts` computes for one-based month 1..12, day ≥ 1, sub-second nanos, year ≥ 1970, given the
    digits of the year -/
theorem fromParts_of_digits (p : Parts) (Z qc c q y : Int) (hY : (p.years : Int) = 2000 + Z)
    (hZ : Z = y + 4 * q + 100 * c + 400 * qc)
    (y0 : 0 ≤ y) (y3 : y ≤ 3) (q0 : 0 ≤ q) (q24 : q ≤ 24) (c0 : 0 ≤ c) (c3 : c ≤ 3) (hlo : -30 ≤ Z)
    (hm : 1 ≤ p.months) (hd : 1 ≤ p.days) (hn : p.nanos < NANOS) (secs : Nat)
    (hsecs : (secs : Int) = 86400 * (365 * Z + q + 24 * c + 97 * qc + 10958 - (if leapOf y q c = true then 1 else 0))
        + ((if leapOf y q c = true ∧ p.months > 2 then
              86400 * CUM_DAYS[(p.months - 1) % 12]! +
                (86400 * (p.days - 1) + 3600 * p.hours + 60 * p.minutes + p.seconds) + 86400
            else
              86400 * CUM_DAYS[(p.months - 1) % 12]! +
                (86400 * (p.days - 1) + 3600 * p.hours + 60 * p.minutes + p.seconds) : Nat) : Int))
    (hmax : secs ≤ MAX_SECS) :
    fromParts p = .ok (some (secs * NANOS + p.nanos)) := by
  unfold fromParts
  rw [startOfYear_spec p.years Z qc c q y hY hZ y0 y3 q0 q24 c0 c3 hlo]
  have hd' : ¬ p.days = 0 := by omega
  have hm' : ¬ p.months = 0 := by omega
  simp only [hd', hm', ↓reduceIte]
  rw [← hsecs]
  have h1 : ¬ ((secs : Int) < 0) := by omega
  have h2 : p.nanos / NANOS = 0 := Nat.div_eq_of_lt hn
  have h3 : p.nanos % NANOS = p.nanos := Nat.mod_eq_of_lt hn
  simp only [h1, ↓reduceIte, Int.toNat_natCast, h2, h3, Nat.add_zero, hmax]


structure InRange (p : Parts) : Prop where
  y : 1970 ≤ p.years ∧ p.years ≤ 9999
  mo : 1 ≤ p.months ∧ p.months ≤ 12
  d : 1 ≤ p.days ∧ p.days ≤ 31
  h : p.hours ≤ 23
  mi : p.minutes ≤ 59
  s : p.seconds ≤ 59
  n : p.nanos ≤ 999999999

theorem year_lo (d qc c q y r3 : Int) (hE : Era d qc c q y r3) (hd : -11017 ≤ d) :
    -31 ≤ y + 4 * q + 100 * c + 400 * qc ∧ (y + 4 * q + 100 * c + 400 * qc = -31 → 306 ≤ r3) := by
  obtain ⟨c0, c3, q0, q24, y0, y3, r0, r365, hsum, hleap⟩ := hE
  have hqc : -1 ≤ qc := by omega
  rcases (by omega : qc = -1 ∨ 0 ≤ qc) with hq | hq
  · subst hq
    have hc : c = 3 := by omega
    subst hc
    have : 17 ≤ q := by omega
    rcases (by omega : q = 17 ∨ 18 ≤ q) with h | h
    · subst h; omega
    · omega
  · omega

theorem year_hi (d qc c q y r3 : Int) (hE : Era d qc c q y r3) (hd : d ≤ 2921879) :
    y + 4 * q + 100 * c + 400 * qc ≤ 7999 ∧ (y + 4 * q + 100 * c + 400 * qc = 7999 → r3 ≤ 305) := by
  obtain ⟨c0, c3, q0, q24, y0, y3, r0, r365, hsum, hleap⟩ := hE
  have hqc : qc ≤ 19 := by omega
  rcases (by omega : qc = 19 ∨ qc ≤ 18) with hq | hq
  · subst hq
    rcases (by omega : c = 3 ∨ c ≤ 2) with h | h
    · subst h
      rcases (by omega : q = 24 ∨ q ≤ 23) with h | h
      · subst h
        omega
      · omega
    · omega
  · omega

theorem calendar_aux (t secs nanos : Nat) (e1 : t / NANOS = secs) (e2 : t % NANOS = nanos)
    (hs : secs ≤ MAX_SECS) (hn : nanos < NANOS) :
    ∃ p, toPartsO t = .ok p ∧ InRange p ∧ p.nanos = nanos ∧ fromParts p = .ok (some (secs * NANOS + nanos)) := by
  obtain ⟨qc, c, q, y, r3, hE, hdate⟩ := dateOfDays_spec (((secs / 86400 : Nat) : Int) - 11017)
  have hrs : ¬ (((secs % 86400 : Nat) : Int) < 0) := by omega
  have hrl : secs % 86400 < 86400 := Nat.mod_lt _ (by decide)
  unfold toPartsO
  simp only [e1, e2, hrs, ↓reduceIte, hdate]
  clear hdate e1 e2 hrs
  have hsm : secs ≤ 253402300799 := hs
  have hnn : nanos < 1000000000 := hn
  have hdn : secs / 86400 ≤ 2932896 := by omega
  obtain ⟨hylo, hylo'⟩ := year_lo _ _ _ _ _ _ hE (by omega)
  obtain ⟨hyhi, hyhi'⟩ := year_hi _ _ _ _ _ _ hE (by omega)
  obtain ⟨c0, c3, q0, q24, y0, y3, r0, r365, hsum, hleap⟩ := hE
  obtain ⟨n, rfl⟩ := Int.eq_ofNat_of_zero_le r0
  simp only [Int.toNat_natCast]
  have hmf := month_facts n (by omega)
  obtain ⟨htod, hh, hmi, hsec⟩ := tod (secs % 86400) hrl
  have hsplit : secs = 86400 * (secs / 86400) + secs % 86400 := (Nat.div_add_mod secs 86400).symm
  generalize (((secs % 86400 : Nat) : Int).tdiv 3600).toNat = H at *
  generalize ((((secs % 86400 : Nat) : Int).tdiv 60).tmod 60).toNat = M at *
  generalize (((secs % 86400 : Nat) : Int).tmod 60).toNat = S at *
  generalize secs % 86400 = rs at *
  generalize secs / 86400 = dn at *
  generalize (monthOfDoy n).1 = mi at *
  generalize (monthOfDoy n).2 = md at *
  rcases hmf with ⟨hlt, hcum, hd30, hn306⟩ | ⟨hge, hle, hcum, hd30⟩
  · have hb : ¬ ((mi : Int) ≥ 10) := by omega
    simp only [hb, ↓reduceIte]
    refine ⟨_, rfl, ?_, rfl, ?_⟩
    · constructor <;> simp only <;> omega
    · have hmo : ((mi : Int) + 3).toNat = mi + 3 := by omega
      have hdy : ((md : Int) + 1).toNat = md + 1 := by omega
      refine fromParts_of_digits _ (y + 4 * q + 100 * c + 400 * qc) qc c q y ?_ rfl y0 y3 q0 q24 c0 c3
        (by omega) ?_ ?_ hn secs ?_ hs
      · simp only; omega
      · simp only; omega
      · simp only; omega
      · simp only [hmo, hdy]
        have hgt : mi + 3 > 2 := by omega
        by_cases hl : leapOf y q c = true
        · simp only [hl, hgt, and_self, ↓reduceIte]
          omega
        · simp only [hl, Bool.false_eq_true, false_and, ↓reduceIte]
          omega
  · have hb : ((mi : Int) ≥ 10) := by omega
    simp only [hb, ↓reduceIte]
    refine ⟨_, rfl, ?_, rfl, ?_⟩
    · constructor <;> simp only <;> omega
    · have hmo : ((mi : Int) - 12 + 3).toNat = mi - 9 := by omega
      have hdy : ((md : Int) + 1).toNat = md + 1 := by omega
      have hng : ¬ (mi - 9 > 2) := by omega
      rcases (by omega : y < 3 ∨ (y = 3 ∧ q < 24) ∨ (y = 3 ∧ q = 24 ∧ c < 3) ∨ (y = 3 ∧ q = 24 ∧ c = 3)) with
        h | ⟨h1, h2⟩ | ⟨h1, h2, h3⟩ | ⟨h1, h2, h3⟩
      · have hl : leapOf (y + 1) (q) (c) = false := by
          simp only [leapOf, decide_eq_false_iff_not]; omega
        refine fromParts_of_digits _ (y + 4 * q + 100 * c + 400 * qc + 1) (qc) (c) (q) (y + 1) ?_ (by omega)
          (by omega) (by omega) (by omega) (by omega) (by omega) (by omega) (by omega) ?_ ?_ hn secs ?_ hs
        · simp only; omega
        · simp only; omega
        · simp only; omega
        · simp only [hmo, hdy, hl, hng, Bool.false_eq_true, and_false, ↓reduceIte]
          omega
      · have hl : leapOf (0) (q + 1) (c) = true := by
          simp only [leapOf, decide_eq_true_eq]; exact ⟨trivial, Or.inl (by omega)⟩
        refine fromParts_of_digits _ (y + 4 * q + 100 * c + 400 * qc + 1) (qc) (c) (q + 1) (0) ?_ (by omega)
          (by omega) (by omega) (by omega) (by omega) (by omega) (by omega) (by omega) ?_ ?_ hn secs ?_ hs
        · simp only; omega
        · simp only; omega
        · simp only; omega
        · simp only [hmo, hdy, hl, hng, and_false, ↓reduceIte]
          omega
      · have hl : leapOf (0) (0) (c + 1) = false := by
          simp only [leapOf, decide_eq_false_iff_not]; omega
        refine fromParts_of_digits _ (y + 4 * q + 100 * c + 400 * qc + 1) (qc) (c + 1) (0) (0) ?_ (by omega)
          (by omega) (by omega) (by omega) (by omega) (by omega) (by omega) (by omega) ?_ ?_ hn secs ?_ hs
        · simp only; omega
        · simp only; omega
        · simp only; omega
        · simp only [hmo, hdy, hl, hng, Bool.false_eq_true, and_false, ↓reduceIte]
          omega
      · have hl : leapOf (0) (0) (0) = true := by
          simp [leapOf]
        refine fromParts_of_digits _ (y + 4 * q + 100 * c + 400 * qc + 1) (qc + 1) (0) (0) (0) ?_ (by omega)
          (by omega) (by omega) (by omega) (by omega) (by omega) (by omega) (by omega) ?_ ?_ hn secs ?_ hs
        · simp only; omega
        · simp only; omega
        · simp only; omega
        · simp only [hmo, hdy, hl, hng, and_false, ↓reduceIte]
          omega

/-- `to_parts` never panics and `from_parts` inverts it, for every instant `MIN ..= MAX`. -/
theorem calendar_roundtrip_lemma (t : Nat) (ht : t ≤ MAX_NS) :
    ∃ p, toPartsO t = .ok p ∧ InRange p ∧ p.nanos = t % NANOS ∧ fromParts p = .ok (some t) := by
  have hn : t % NANOS < NANOS := Nat.mod_lt _ (by decide)
  have hs : t / NANOS ≤ MAX_SECS := by
    have h1 : t ≤ 253402300799 * 1000000000 + 999999999 := ht
    have h2 : t / 1000000000 ≤ 253402300799 := by omega
    exact h2
  obtain ⟨p, h1, h2, hnanos, h3⟩ := calendar_aux t _ _ rfl rfl hs hn
  have e : t / NANOS * NANOS + t % NANOS = t := Nat.div_add_mod' t NANOS
  rw [e] at h3
  exact ⟨p, h1, h2, hnanos, h3⟩

end EmitModel.Timestamp
