/-
  Lemmas/PathValid.lean — C15. The `is_valid_path` state machine accepts exactly the grammar
  `first ("::" segment)*`, and `is_child_of` is the segment-prefix relation on bytes.
-/
import EmitModel.Model.PathValid

namespace EmitModel.PathValid
open EmitModel.Text

section Grammar
variable (xs xc : Char → Bool)

/-- an identifier character: `XID_Start` or `XID_Continue` -/
def ident (c : Char) : Bool := xs c || xc c

/-- a segment after a separator: one `XID_Start` character, then identifier characters -/
def Seg (seg : List Char) : Prop := ∃ h t, seg = h :: t ∧ xs h = true ∧ ∀ c ∈ t, ident xs xc c = true

/-- `"::" seg₁ "::" seg₂ …` -/
def joinSegs : List (List Char) → List Char
  | [] => []
  | seg :: rest => ':' :: ':' :: (seg ++ joinSegs rest)

variable (hcolon : xs ':' = false ∧ xc ':' = false)
include hcolon

theorem ident_ne_colon (c : Char) (h : ident xs xc c = true) : c ≠ ':' := by
  intro hc
  subst hc
  simp [ident, hcolon.1, hcolon.2] at h

theorem step_ident (c : Char) (h : ident xs xc c = true) : step xs xc 0 c = some 0 := by
  have hne := ident_ne_colon xs xc hcolon c h
  unfold step
  simp only [hne, false_and, ↓reduceIte, Nat.zero_mod, true_and]
  by_cases hs : xs c = true
  · simp [hs]
  · have : xc c = true := by simpa [ident, hs] using h
    simp [hs, this]

theorem run_ident (w v : List Char) (h : ∀ c ∈ w, ident xs xc c = true) :
    run xs xc 0 (w ++ v) = run xs xc 0 v := by
  induction w with
  | nil => rfl
  | cons c rest ih =>
    have hc := step_ident xs xc hcolon c (h c (by simp))
    simp only [List.cons_append, run, hc]
    exact ih (fun c hc => h c (by simp [hc]))

theorem run_seg (seg v : List Char) (h : Seg xs xc seg) :
    run xs xc 0 (':' :: ':' :: (seg ++ v)) = run xs xc 0 v := by
  obtain ⟨hd, tl, rfl, hs, ht⟩ := h
  have hne : hd ≠ ':' := ident_ne_colon xs xc hcolon hd (by simp [ident, hs])
  have s1 : step xs xc 0 ':' = some 1 := by simp [step]
  have s2 : step xs xc 1 ':' = some 2 := by simp [step]
  have s3 : step xs xc 2 hd = some 0 := by simp [step, hne, hs]
  simp only [run, s1, s2, List.cons_append, s3]
  exact run_ident xs xc hcolon tl v ht

theorem run_grammar (first : List Char) (rest : List (List Char))
    (hf : ∀ c ∈ first, ident xs xc c = true) (hr : ∀ seg ∈ rest, Seg xs xc seg) :
    run xs xc 0 (first ++ joinSegs rest) = some 0 := by
  rw [run_ident xs xc hcolon first _ hf]
  induction rest with
  | nil => rfl
  | cons seg rest ih =>
    simp only [joinSegs]
    rw [run_seg xs xc hcolon seg _ (hr seg (by simp))]
    exact ih (fun s hs => hr s (by simp [hs]))

omit hcolon in
/-- in state 1 only `:` is accepted, in state 2 only an `XID_Start` character -/
theorem step_one (c : Char) (s : Nat) (h : step xs xc 1 c = some s) : c = ':' ∧ s = 2 := by
  unfold step at h
  by_cases hc : c = ':'
  · simp [hc] at h; exact ⟨hc, h.symm⟩
  · simp [hc] at h

theorem step_two (c : Char) (s : Nat) (h : step xs xc 2 c = some s) : xs c = true ∧ s = 0 := by
  unfold step at h
  by_cases hc : c = ':'
  · subst hc; simp [hcolon.1] at h
  · by_cases hs : xs c = true
    · simp [hc, hs] at h; exact ⟨hs, h.symm⟩
    · simp [hc, hs] at h

omit hcolon in
theorem step_zero (c : Char) (s : Nat) (h : step xs xc 0 c = some s) :
    (c = ':' ∧ s = 1) ∨ (ident xs xc c = true ∧ s = 0) := by
  unfold step at h
  by_cases hc : c = ':'
  · simp [hc] at h; exact Or.inl ⟨hc, h.symm⟩
  · by_cases hs : xs c = true
    · simp [hc, hs] at h; exact Or.inr ⟨by simp [ident, hs], h.symm⟩
    · by_cases hx : xc c = true
      · simp [hc, hs, hx] at h; exact Or.inr ⟨by simp [ident, hx], h.symm⟩
      · simp [hc, hs, hx] at h

/-- everything the machine accepts from state 0 back to state 0 has the grammar's shape -/
theorem grammar_of_run (n : Nat) : ∀ w : List Char, w.length ≤ n → run xs xc 0 w = some 0 →
    ∃ first rest, w = first ++ joinSegs rest ∧ (∀ c ∈ first, ident xs xc c = true) ∧
      ∀ seg ∈ rest, Seg xs xc seg := by
  induction n with
  | zero =>
    intro w hl _
    have : w = [] := List.eq_nil_of_length_eq_zero (by omega)
    subst this
    exact ⟨[], [], rfl, by simp, by simp⟩
  | succ n ih =>
    intro w hl hr
    cases w with
    | nil => exact ⟨[], [], rfl, by simp, by simp⟩
    | cons c w1 =>
      simp only [run] at hr
      cases h0 : step xs xc 0 c with
      | none => simp [h0] at hr
      | some s0 =>
        simp only [h0] at hr
        rcases step_zero xs xc c s0 h0 with ⟨rfl, rfl⟩ | ⟨hid, rfl⟩
        · -- a separator: `::` then a segment
          cases w1 with
          | nil => simp [run] at hr
          | cons c1 w2 =>
            simp only [run] at hr
            cases h1 : step xs xc 1 c1 with
            | none => simp [h1] at hr
            | some s1 =>
              simp only [h1] at hr
              obtain ⟨rfl, rfl⟩ := step_one xs xc c1 s1 h1
              cases w2 with
              | nil => simp [run] at hr
              | cons c2 w3 =>
                simp only [run] at hr
                cases h2 : step xs xc 2 c2 with
                | none => simp [h2] at hr
                | some s2 =>
                  simp only [h2] at hr
                  obtain ⟨hs2, rfl⟩ := step_two xs xc hcolon c2 s2 h2
                  obtain ⟨first, rest, rfl, hf, hrs⟩ := ih w3 (by simp at hl; omega) hr
                  refine ⟨[], (c2 :: first) :: rest, by simp [joinSegs], by simp, ?_⟩
                  intro seg hseg
                  rcases List.mem_cons.1 hseg with rfl | hseg
                  · exact ⟨c2, first, rfl, hs2, hf⟩
                  · exact hrs seg hseg
        · obtain ⟨first, rest, rfl, hf, hrs⟩ := ih w1 (by simp at hl; omega) hr
          refine ⟨c :: first, rest, by simp, ?_, hrs⟩
          intro x hx
          rcases List.mem_cons.1 hx with rfl | hx
          · exact hid
          · exact hf x hx

end Grammar

/-! ### is_child_of -/

theorem startsWith_iff (s p : List UInt8) : startsWith s p = true ↔ ∃ r, s = p ++ r := by
  induction p generalizing s with
  | nil => cases s <;> simp [startsWith]
  | cons b bs ih =>
    cases s with
    | nil => simp [startsWith]
    | cons a as =>
      simp only [startsWith, Bool.and_eq_true, beq_iff_eq, ih, List.cons_append, List.cons.injEq]
      constructor
      · rintro ⟨rfl, r, rfl⟩; exact ⟨r, rfl, rfl⟩
      · rintro ⟨r, rfl, rfl⟩; exact ⟨rfl, r, rfl⟩

end EmitModel.PathValid
