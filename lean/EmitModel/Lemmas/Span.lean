/-
  Lemmas/Span.lean — C04. (1) `runT` (the tree executed on the C03 machine, what the driver runs) computes the
  pure function `spec` of the ambient map and leaves the machine as it found it; (2) for clean trees `spec`
  computes the map-free trace tree `ref`. Property theorems are in Thm/C04.lean.
-/
import EmitModel.Model.Span
import EmitModel.Lemmas.Ctxt
namespace EmitModel.Span
open EmitModel.Ctxt

theorem insertAll_nil {V : Type} (m : List (String × V)) : insertAll m [] = m := rfl

/-- what `runT`/`runL` guarantee about the machine state -/
structure Frame (s s' : St IdVal) (n n' : Nat) : Prop where
  active : ∀ t c, s'.active t c = s.active t c
  slots : ∀ f, f < n → s'.slot f = s.slot f
  mono : n ≤ n'

mutual
theorem runT_eq_spec (tree : Tree) (t c : Nat) (s : St IdVal) (n : Nat) :
    (runT t c tree s n).1 = spec ((s.active t c).getD []) tree ∧
    Frame s (runT t c tree s n).2.1 n (runT t c tree s n).2.2 := by
  cases tree with
  | event eid own => exact ⟨rfl, ⟨fun _ _ => rfl, fun _ _ => rfl, Nat.le_refl _⟩⟩
  | cur cid => exact ⟨rfl, ⟨fun _ _ => rfl, fun _ _ => rfl, Nat.le_refl _⟩⟩
  | span id enabled rt rs user children =>
    -- the states the code goes through
    let amb := (s.active t c).getD []
    let child := newChild (current amb) rt rs
    let kind := if enabled then Kind.push else Kind.disabled
    let s1 := step s (.open t c n kind (spanProps id user child))
    let s2 := step s1 (.enter t c n)
    obtain ⟨h, f⟩ := runL_eq_spec children t c s2 (n + 1)
    have hact2 : s2.active t c = some (if enabled then insertAll amb (spanProps id user child) else amb) := by
      simp only [s2, s1, step, swap, setActive, setSlot, and_self, if_true, Erased.get_new, openFrame, kind, amb]
      cases enabled <;> simp [insertAll]
    have hslot2 : (s2.slot n).get = s.active t c := by
      simp [s2, s1, step, swap, setSlot]
    have hother : ∀ t' c', ¬(t' = t ∧ c' = c) → s2.active t' c' = s.active t' c' := by
      intro t' c' hne
      simp [s2, s1, step, swap, setActive, hne]
    have hslots : ∀ f', f' < n → s2.slot f' = s.slot f' := by
      intro f' hf
      have : f' ≠ n := Nat.ne_of_lt hf
      simp [s2, s1, step, swap, setSlot, this]
    have hrun : runT t c (.span id enabled rt rs user children) s n =
        ((runL t c children s2 (n + 1)).1 ++
          (if enabled then [recOf "s" (pullNum (((runL t c children s2 (n + 1)).2.1.active t c).getD []) "id")
              (((runL t c children s2 (n + 1)).2.1.active t c).getD [])] else []),
         step (runL t c children s2 (n + 1)).2.1 (.exit t c n), (runL t c children s2 (n + 1)).2.2) := by
      simp only [runT]; rfl
    rw [hrun]
    refine ⟨?_, ?_, ?_, ?_⟩
    · simp only [spec]
      rw [h, f.active, hact2]
      cases enabled <;> simp [amb, child]
    · intro t' c'
      simp only [step, swap, setActive]
      split
      · rename_i htc; obtain ⟨rfl, rfl⟩ := htc
        rw [f.slots n (Nat.lt_succ_self n), hslot2]
      · rename_i htc; rw [f.active, hother t' c' htc]
    · intro f' hf
      have hne : f' ≠ n := Nat.ne_of_lt hf
      simp only [step, swap, setSlot, hne, if_false]
      rw [f.slots f' (Nat.lt_succ_of_lt hf), hslots f' hf]
    · exact Nat.le_trans (Nat.le_succ n) f.mono
  | group t' children =>
    let s1 := step s (.open t c n Kind.current [])
    let s2 := step s1 (.enter t' c n)
    obtain ⟨h, f⟩ := runL_eq_spec children t' c s2 (n + 1)
    have hact2 : s2.active t' c = some ((s.active t c).getD []) := by
      simp [s2, s1, step, swap, setActive, setSlot, openFrame, insertAll]
    have hslot2 : (s2.slot n).get = s.active t' c := by
      simp [s2, s1, step, swap, setSlot]
    have hother : ∀ t'' c', ¬(t'' = t' ∧ c' = c) → s2.active t'' c' = s.active t'' c' := by
      intro t'' c' hne
      simp [s2, s1, step, swap, setActive, hne]
    have hslots : ∀ f', f' < n → s2.slot f' = s.slot f' := by
      intro f' hf
      have : f' ≠ n := Nat.ne_of_lt hf
      simp [s2, s1, step, swap, setSlot, this]
    have hrun : runT t c (.group t' children) s n =
        ((runL t' c children s2 (n + 1)).1,
         step (runL t' c children s2 (n + 1)).2.1 (.exit t' c n), (runL t' c children s2 (n + 1)).2.2) := by
      simp only [runT]; rfl
    rw [hrun]
    refine ⟨?_, ?_, ?_, ?_⟩
    · simp only [spec]
      rw [h, hact2]; rfl
    · intro t'' c'
      simp only [step, swap, setActive]
      split
      · rename_i htc; obtain ⟨rfl, rfl⟩ := htc
        rw [f.slots n (Nat.lt_succ_self n), hslot2]
      · rename_i htc; rw [f.active, hother t'' c' htc]
    · intro f' hf
      have hne : f' ≠ n := Nat.ne_of_lt hf
      simp only [step, swap, setSlot, hne, if_false]
      rw [f.slots f' (Nat.lt_succ_of_lt hf), hslots f' hf]
    · exact Nat.le_trans (Nat.le_succ n) f.mono
  | panic => exact ⟨rfl, ⟨fun _ _ => rfl, fun _ _ => rfl, Nat.le_refl _⟩⟩
  | catch_ children =>
    have h := runL_eq_spec children t c s n
    simpa [runT, spec] using h
theorem runL_eq_spec (ts : List Tree) (t c : Nat) (s : St IdVal) (n : Nat) :
    (runL t c ts s n).1 = specL ((s.active t c).getD []) ts ∧
    Frame s (runL t c ts s n).2.1 n (runL t c ts s n).2.2 := by
  cases ts with
  | nil => exact ⟨rfl, ⟨fun _ _ => rfl, fun _ _ => rfl, Nat.le_refl _⟩⟩
  | cons x xs =>
    obtain ⟨h1, f1⟩ := runT_eq_spec x t c s n
    obtain ⟨h2, f2⟩ := runL_eq_spec xs t c (runT t c x s n).2.1 (runT t c x s n).2.2
    simp only [runL, specL]
    cases hp : x.panics with
    | true => simp only [if_true]; exact ⟨by rw [h1]; simp, f1⟩
    | false =>
      simp only [Bool.false_eq_true, if_false]
      refine ⟨?_, ?_⟩
      · rw [h1, h2, f1.active]
      · exact ⟨fun t c => (f2.active t c).trans (f1.active t c),
               fun f hf => (f2.slots f (Nat.lt_of_lt_of_le hf f1.mono)).trans (f1.slots f hf),
               Nat.le_trans f1.mono f2.mono⟩
end

def idKeys : List String := ["trace_id", "span_id", "span_parent"]

def NoKeys (ks : List String) (ps : List (String × IdVal)) : Prop := ∀ p ∈ ps, p.1 ∉ ks

mutual
/-- no event overrides an id key with a property of its own; no span's user ctxt props use an id key or `id` -/
def Clean : Tree → Prop
  | .event _ own => NoKeys idKeys own
  | .cur _ => True
  | .span _ _ _ _ user ch => NoKeys ("id" :: idKeys) user ∧ CleanL ch
  | .group _ ch => CleanL ch
  | .panic => True
  | .catch_ ch => CleanL ch
def CleanL : List Tree → Prop
  | [] => True
  | x :: xs => Clean x ∧ CleanL xs
end

theorem get_append_nokey (own amb : List (String × IdVal)) (k : String) (h : ∀ p ∈ own, p.1 ≠ k) :
    get (own ++ amb) k = get amb k := by
  induction own with
  | nil => rfl
  | cons a own ih =>
    obtain ⟨k', v⟩ := a
    have hne : k' ≠ k := h (k', v) List.mem_cons_self
    simp only [List.cons_append, Ctxt.get, hne, if_false]
    exact ih (fun p hp => h p (List.mem_cons_of_mem _ hp))

theorem current_append_clean (own amb : List (String × IdVal)) (h : NoKeys idKeys own) :
    current (own ++ amb) = current amb := by
  have hk : ∀ k ∈ idKeys, ∀ p ∈ own, p.1 ≠ k := fun k hk p hp e => h p hp (e ▸ hk)
  simp only [current]
  rw [get_append_nokey own amb "trace_id" (hk _ (by simp [idKeys])),
      get_append_nokey own amb "span_parent" (hk _ (by simp [idKeys])),
      get_append_nokey own amb "span_id" (hk _ (by simp [idKeys]))]

theorem lastOf_append (a b : List (String × IdVal)) (k : String) :
    lastOf (a ++ b) k = (lastOf b k).or (lastOf a k) := by
  induction a with
  | nil => simp [lastOf]
  | cons x a ih =>
    obtain ⟨k', v⟩ := x
    simp only [List.cons_append, lastOf, ih]
    cases lastOf b k <;> cases lastOf a k <;> simp

theorem lastOf_nokey (a : List (String × IdVal)) (k : String) (h : ∀ p ∈ a, p.1 ≠ k) : lastOf a k = none := by
  induction a with
  | nil => rfl
  | cons x a ih =>
    obtain ⟨k', v⟩ := x
    have hne : k' ≠ k := h (k', v) List.mem_cons_self
    simp [lastOf, ih (fun p hp => h p (List.mem_cons_of_mem _ hp)), hne]

theorem lastOf_props (c : SpanCtxt) :
    lastOf c.props "trace_id" = c.trace.map IdVal.trace ∧
    lastOf c.props "span_id" = c.span.map IdVal.span ∧
    lastOf c.props "span_parent" = c.parent.map IdVal.span ∧
    lastOf c.props "id" = none := by
  obtain ⟨tr, pa, sp⟩ := c
  cases tr <;> cases pa <;> cases sp <;> simp [SpanCtxt.props, lastOf] <;> decide

theorem castTrace_typed (n : Nat) : castTrace (.trace n) = some n := by simp [castTrace]
theorem castSpan_typed (n : Nat) : castSpan (.span n) = some n := by simp [castSpan]

/-- what the ambient ids are inside an enabled span: the child's, with the outer ones showing through where the
    child has none -/
theorem current_push (amb : List (String × IdVal)) (id : Nat) (user : List (String × IdVal))
    (hu : NoKeys ("id" :: idKeys) user) (child : SpanCtxt) :
    current (insertAll amb (spanProps id user child)) =
      ⟨child.trace.or (current amb).trace, child.parent.or (current amb).parent, child.span.or (current amb).span⟩ ∧
    pullNum (insertAll amb (spanProps id user child)) "id" = some id := by
  have hk : ∀ k ∈ "id" :: idKeys, ∀ p ∈ user, p.1 ≠ k := fun k hk p hp e => hu p hp (e ▸ hk)
  obtain ⟨h1, h2, h3, h4⟩ := lastOf_props child
  have key : ∀ k ∈ "id" :: idKeys, lastOf (spanProps id user child) k =
      (lastOf child.props k).or (if "id" = k then some (IdVal.num id) else none) := by
    intro k hk'
    have : spanProps id user child = [("id", IdVal.num id)] ++ (user ++ child.props) := rfl
    rw [this, lastOf_append, lastOf_append, lastOf_nokey user k (hk k hk')]
    simp [lastOf]
  refine ⟨?_, ?_⟩
  · simp only [current, get_insertAll]
    rw [key "trace_id" (by simp [idKeys]), key "span_id" (by simp [idKeys]), key "span_parent" (by simp [idKeys]),
      h1, h2, h3]
    have e1 : ("id" = "trace_id") = False := by decide
    have e2 : ("id" = "span_id") = False := by decide
    have e3 : ("id" = "span_parent") = False := by decide
    simp only [e1, e2, e3, if_false, Option.or_none]
    congr 1
    · cases child.trace <;> simp [castTrace_typed]
    · cases child.parent <;> simp [castSpan_typed]
    · cases child.span <;> simp [castSpan_typed]
  · simp only [pullNum, get_insertAll]
    rw [key "id" (by simp), h4]
    simp

mutual
theorem spec_eq_ref (tree : Tree) (amb : List (String × IdVal)) (hc : Clean tree) :
    spec amb tree = ref (current amb).trace (current amb).span (current amb).parent tree := by
  cases tree with
  | event eid own =>
    simp only [Clean] at hc
    simp [spec, ref, recOf, current_append_clean own amb hc]
  | cur cid => simp [spec, ref, recOf]
  | span id enabled rt rs user children =>
    simp only [Clean] at hc
    cases enabled with
    | false => simp only [spec, ref]; exact specL_eq_refL children amb hc.2
    | true =>
      obtain ⟨h1, h2⟩ := current_push amb id user hc.1 (newChild (current amb) rt rs)
      simp only [spec, ref, if_true]
      rw [specL_eq_refL children _ hc.2, h2]
      simp only [recOf]
      rw [h1]
      simp only [newChild]
      generalize current amb = cur
      obtain ⟨tr, pa, sp⟩ := cur
      cases tr <;> cases randTrace rt <;> cases randSpan rs <;> cases sp <;> cases pa <;> simp
  | group t children =>
    simp only [Clean] at hc
    simp only [spec, ref]; exact specL_eq_refL children amb hc
  | panic => rfl
  | catch_ children =>
    simp only [Clean] at hc
    simp only [spec, ref]; exact specL_eq_refL children amb hc
theorem specL_eq_refL (ts : List Tree) (amb : List (String × IdVal)) (hc : CleanL ts) :
    specL amb ts = refL (current amb).trace (current amb).span (current amb).parent ts := by
  cases ts with
  | nil => rfl
  | cons x xs =>
    simp only [CleanL] at hc
    simp only [specL, refL, spec_eq_ref x amb hc.1, specL_eq_refL xs amb hc.2]
end

/-! ### The link to C03: `runT`'s effects on the machine are a well-nested, balanced block of C03 events -/

mutual
/-- The C03 events `runT` performs, in order (reading the context — `emit`, `SpanCtxt::current`, a completion —
    is an `observe`). -/
def evsT (t c : Nat) : Tree → St IdVal → Nat → List (Ev IdVal)
  | .event _ _, _, _ => [.observe t c]
  | .cur _, _, _ => [.observe t c]
  | .span id enabled rt rs user children, s, n =>
    let child := newChild (current ((s.active t c).getD [])) rt rs
    let kind := if enabled then Kind.push else Kind.disabled
    let s2 := step (step s (.open t c n kind (spanProps id user child))) (.enter t c n)
    [.open t c n kind (spanProps id user child), .enter t c n] ++ evsL t c children s2 (n + 1) ++
      (if enabled then [.observe t c] else []) ++ [.exit t c n]
  | .group t' children, s, n =>
    let s2 := step (step s (.open t c n Kind.current [])) (.enter t' c n)
    [.open t c n Kind.current [], .enter t' c n] ++ evsL t' c children s2 (n + 1) ++ [.exit t' c n]
  | .panic, _, _ => []
  | .catch_ children, s, n => evsL t c children s n
def evsL (t c : Nat) : List Tree → St IdVal → Nat → List (Ev IdVal)
  | [], _, _ => []
  | x :: xs, s, n =>
    evsT t c x s n ++ (if x.panics then [] else evsL t c xs (runT t c x s n).2.1 (runT t c x s n).2.2)
end

theorem exec_append {V : Type} (a b : List (Ev V)) (s : St V) : exec s (a ++ b) = exec (exec s a) b := by
  induction a generalizing s with
  | nil => rfl
  | cons e es ih => exact ih (step s e)

mutual
theorem exec_evsT (tree : Tree) (t c : Nat) (s : St IdVal) (n : Nat) :
    exec s (evsT t c tree s n) = (runT t c tree s n).2.1 := by
  cases tree with
  | event eid own => rfl
  | cur cid => rfl
  | span id enabled rt rs user children =>
    simp only [evsT, List.cons_append, List.nil_append, exec, exec_append]
    rw [exec_evsL children]
    cases enabled <;> simp [exec, runT, step]
  | group t' children =>
    simp only [evsT, List.cons_append, List.nil_append, exec, exec_append]
    rw [exec_evsL children]
    simp [runT]
  | panic => rfl
  | catch_ children => simpa [evsT, runT] using exec_evsL children t c s n
theorem exec_evsL (ts : List Tree) (t c : Nat) (s : St IdVal) (n : Nat) :
    exec s (evsL t c ts s n) = (runL t c ts s n).2.1 := by
  cases ts with
  | nil => rfl
  | cons x xs =>
    cases hp : x.panics with
    | true => simp [evsL, runL, hp, exec_evsT x]
    | false => simp only [evsL, hp, Bool.false_eq_true, if_false, exec_append, exec_evsT x, exec_evsL xs, runL]
end

/-- handles from `n` on have never been opened -/
def FreshFrom (g : G IdVal) (n : Nat) : Prop := ∀ f, n ≤ f → g.ctxtOf f = none


/-- "this event list is a balanced well-nested block of the C03 discipline, from any consistent bookkeeping in
    which the handles from `n` on are unused" -/
def WN (evs : List (Ev IdVal)) (s : St IdVal) (n n' : Nat) : Prop :=
  ∀ g : G IdVal, Inv s g → FreshFrom g n →
    ∃ g', run s g evs = some (exec s evs, g') ∧ g'.stack = g.stack ∧ FreshFrom g' n'

/-- one frame's block: open handle `n` on thread `t`, enter it on thread `t'`, a balanced body, (an observation,)
    exit -/
theorem wn_block (s : St IdVal) (t t' c n n3 : Nat) (kind : Kind) (ps : List (String × IdVal))
    (body : List (Ev IdVal)) (obs : List (Ev IdVal)) (hobs : obs = [] ∨ obs = [.observe t' c])
    (hb : WN body (step (step s (.open t c n kind ps)) (.enter t' c n)) (n + 1) n3) :
    WN ([.open t c n kind ps, .enter t' c n] ++ body ++ obs ++ [.exit t' c n]) s n n3 := by
  intro g hi hf
  have hcn : g.ctxtOf n = none := hf n (Nat.le_refl n)
  have hln : g.loc n = none := by
    cases h : g.loc n with
    | none => rfl
    | some p => obtain ⟨c', hc'⟩ := hi.opened n p h; simp [hcn] at hc'
  -- open
  let g1 : G IdVal := { g with ctxtOf := setSlot g.ctxtOf n (some c),
                               view := setSlot g.view n (openFrame kind (s.active t c) ps) }
  have hw1 : wstep s g (.open t c n kind ps) = some g1 := by simp [wstep, hcn, g1]
  have hi1 := inv_step hi _ _ hw1
  -- enter
  let g2 : G IdVal := { g1 with stack := setStack g1.stack t' c (n :: g1.stack t' c),
                                loc := setSlot g1.loc n (some (t', c)) }
  have hw2 : wstep (step s (.open t c n kind ps)) g1 (.enter t' c n) = some g2 := by
    simp [wstep, g1, g2, setSlot, hln]
  have hi2 := inv_step hi1 _ _ hw2
  have hf2 : FreshFrom g2 (n + 1) := by
    intro f hle
    have hne : f ≠ n := by omega
    simp only [g2, g1, setSlot, hne, if_false]
    exact hf f (by omega)
  obtain ⟨g3, hr3, hst3, hf3⟩ := hb g2 hi2 hf2
  have hstk : g3.stack t' c = n :: g.stack t' c := by rw [hst3]; simp [g2, g1, setStack]
  -- observe (if any) and exit
  let g4 : G IdVal := { g3 with stack := setStack g3.stack t' c (g.stack t' c), loc := setSlot g3.loc n none }
  have htail : ∀ s3, run s3 g3 (obs ++ [.exit t' c n]) = some (exec s3 (obs ++ [.exit t' c n]), g4) := by
    intro s3
    rcases hobs with rfl | rfl <;> simp [run, wstep, hstk, g4, exec, step]
  refine ⟨g4, ?_, ?_, ?_⟩
  · have e : [Ev.open t c n kind ps, .enter t' c n] ++ body ++ obs ++ [.exit t' c n] =
        .open t c n kind ps :: .enter t' c n :: (body ++ (obs ++ [.exit t' c n])) := by simp
    rw [e]
    simp only [run, hw1, hw2, exec]
    rw [run_append, hr3]
    simp only [Option.bind]
    rw [htail]
    simp only [exec_append]
  · simp only [g4, hst3, g2, g1]; exact setStack_restore _ _ _ _
  · intro f hle; exact hf3 f hle

mutual
theorem evsT_wellNested (tree : Tree) (t c : Nat) (s : St IdVal) (n : Nat) :
    WN (evsT t c tree s n) s n (runT t c tree s n).2.2 := by
  cases tree with
  | event eid own => intro g _ hf; exact ⟨g, by simp [evsT, run, wstep, exec, step], rfl, hf⟩
  | cur cid => intro g _ hf; exact ⟨g, by simp [evsT, run, wstep, exec, step], rfl, hf⟩
  | span id enabled rt rs user children =>
    have hb := evsL_wellNested children t c
      (step (step s (.open t c n (if enabled then Kind.push else Kind.disabled)
        (spanProps id user (newChild (current ((s.active t c).getD [])) rt rs)))) (.enter t c n)) (n + 1)
    have := wn_block s t t c n _ _ _ _ (if enabled then [.observe t c] else [])
      (by cases enabled <;> simp) hb
    simpa [evsT, runT] using this
  | group t' children =>
    have hb := evsL_wellNested children t' c (step (step s (.open t c n Kind.current [])) (.enter t' c n)) (n + 1)
    have := wn_block s t t' c n _ _ _ _ [] (Or.inl rfl) hb
    simpa [evsT, runT] using this
  | panic => intro g _ hf; exact ⟨g, by simp [evsT, run, exec], rfl, hf⟩
  | catch_ children => simpa [evsT, runT] using evsL_wellNested children t c s n
theorem evsL_wellNested (ts : List Tree) (t c : Nat) (s : St IdVal) (n : Nat) :
    WN (evsL t c ts s n) s n (runL t c ts s n).2.2 := by
  cases ts with
  | nil => intro g _ hf; exact ⟨g, by simp [evsL, run, exec], rfl, hf⟩
  | cons x xs =>
    intro g hi hf
    obtain ⟨g1, hr1, hst1, hf1⟩ := evsT_wellNested x t c s n g hi hf
    cases hp : x.panics with
    | true => exact ⟨g1, by simpa [evsL, hp] using hr1, hst1, by simpa [runL, hp] using hf1⟩
    | false =>
      have hi1 := inv_run hi _ _ _ hr1
      rw [exec_evsT] at hr1 hi1
      obtain ⟨g2, hr2, hst2, hf2⟩ := evsL_wellNested xs t c _ _ g1 hi1 hf1
      refine ⟨g2, ?_, hst2.trans hst1, ?_⟩
      · simp only [evsL, hp, Bool.false_eq_true, if_false, run_append, hr1, Option.bind, hr2, exec_append, exec_evsT]
      · simpa [runL, hp] using hf2
end


end EmitModel.Span
