/-
  Lemmas/OtlpAll.lean — the OTLP emitter with its three signals (Model/OtlpAll.lean): every signal runs an execution of
  its own composite (Model/OtlpPipe.lean), and only events the routing (C14) assigns to a signal ever enter its channel.
-/
import EmitModel.Model.OtlpAll
import EmitModel.Lemmas.OtlpPipe
set_option maxHeartbeats 400000

namespace EmitModel.OtlpAll
open EmitModel EmitModel.Otlp

@[simp] theorem get_set_same (s : St) (g : Signal) (p : OtlpPipe.St) : (s.set g p).get g = p := by
  cases g <;> rfl

theorem get_set_other (s : St) (g g' : Signal) (p : OtlpPipe.St) (h : g' ≠ g) : (s.set g p).get g' = s.get g' := by
  cases g <;> cases g' <;> first | rfl | exact absurd rfl h

/-- What a step of the whole emitter is for one signal: nothing, or one step of that signal. -/
theorem step_sig (cfg : Cfg) (s s' : St) (l : Label) (h : step cfg s l = some s') (g : Signal) :
    s'.get g = s.get g ∨
    ∃ pl, OtlpPipe.step (cfg.pipe g) (s.get g) pl = some (s'.get g) ∧
      ((∃ x, l = .emit x ∧ pl = .chan (.send x) ∧ route cfg.logs cfg.traces cfg.metrics (cfg.shape x) = .signal g) ∨
       (l = .sig g pl ∧ isSend pl = false)) := by
  cases l with
  | emit x =>
    simp only [step] at h
    cases hr : route cfg.logs cfg.traces cfg.metrics (cfg.shape x) with
    | discard => simp only [hr, Option.some.injEq] at h; subst h; exact .inl rfl
    | signal g0 =>
      simp only [hr, Option.map_eq_some_iff] at h
      obtain ⟨p, hp, rfl⟩ := h
      by_cases hg : g = g0
      · subst hg
        refine .inr ⟨.chan (.send x), ?_, .inl ⟨x, rfl, rfl, hr⟩⟩
        have : ({ s.set g p with emitted := s.emitted ++ [x] } : St).get g = p := by cases g <;> rfl
        rw [this]; exact hp
      · left
        have : ({ s.set g0 p with emitted := s.emitted ++ [x] } : St).get g = (s.set g0 p).get g := by cases g <;> rfl
        rw [this]; exact get_set_other s g0 g p hg
  | sig g0 pl =>
    simp only [step] at h
    cases hsnd : isSend pl with
    | true => simp [hsnd] at h
    | false =>
      simp only [hsnd, Bool.false_eq_true, if_false, Option.map_eq_some_iff] at h
      obtain ⟨p, hp, rfl⟩ := h
      by_cases hg : g = g0
      · subst hg
        exact .inr ⟨pl, by rw [get_set_same]; exact hp, .inr ⟨rfl, hsnd⟩⟩
      · exact .inl (get_set_other s g0 g p hg)

/-- Every signal of the emitter runs an execution of its own composite, and only events routed to it ever enter its
    channel. -/
theorem reachable_sig (cfg : Cfg) (net0 : Signal → Net) (s : St) (h : Reachable cfg net0 s) (g : Signal) :
    OtlpPipe.Reachable (cfg.pipe g) (net0 g) (s.get g) ∧
    ∀ x ∈ (s.get g).ch.accepted, route cfg.logs cfg.traces cfg.metrics (cfg.shape x) = .signal g := by
  refine Sched.invariant_of_step (Inv := fun s => OtlpPipe.Reachable (cfg.pipe g) (net0 g) (s.get g) ∧
      ∀ x ∈ (s.get g).ch.accepted, route cfg.logs cfg.traces cfg.metrics (cfg.shape x) = .signal g) ?_ ?_ s h
  · refine ⟨by cases g <;> exact Sched.Reachable.init _ _, ?_⟩
    intro x hx
    cases g <;> simp [init, St.get, OtlpPipe.init, Batcher.init] at hx
  · intro s l s' ⟨hr, hacc⟩ hs
    rcases step_sig cfg s s' l hs g with heq | ⟨pl, hp, hkind⟩
    · rw [heq]; exact ⟨hr, hacc⟩
    · refine ⟨hr.step hp, fun x hx => ?_⟩
      obtain ⟨bl, hb, hbl⟩ := OtlpPipe.step_chan (cfg.pipe g) (s.get g) (s'.get g) pl hp
      rcases (Batcher.accepted_step (cfg.pipe g).ch (s.get g).ch (s'.get g).ch bl hb).2.1 x hx with hx | hx | hx
      · exact hacc x hx
      · -- the item of a send: it came through `emit`, which routed it here
        rcases hkind with ⟨y, _, hpl, hroute⟩ | ⟨_, hns⟩
        · rcases hbl with hbl | ⟨hbl, _⟩
          · rw [hpl] at hbl; cases hbl; cases hx; exact hroute
          · rw [hpl] at hbl; cases hbl
        · rcases hbl with hbl | ⟨_, o, ho⟩
          · rw [hbl, hx] at hns; simp [isSend] at hns
          · rw [ho] at hx; cases hx
      · rcases hkind with ⟨y, _, hpl, _⟩ | ⟨_, hns⟩
        · rcases hbl with hbl | ⟨hbl, _⟩
          · rw [hpl] at hbl; cases hbl; cases hx
          · rw [hpl] at hbl; cases hbl
        · rcases hbl with hbl | ⟨_, o, ho⟩
          · rw [hbl, hx] at hns; simp [isSend] at hns
          · rw [ho] at hx; cases hx

end EmitModel.OtlpAll
