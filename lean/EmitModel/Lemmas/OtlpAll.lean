/-
  Lemmas/OtlpAll.lean — the OTLP emitter with its three signals (Model/OtlpAll.lean): every signal runs an execution of
  its own composite (Model/OtlpPipe.lean), and only events the routing (C14) assigns to a signal ever enter its channel.
-/
import EmitModel.Model.OtlpAll
import EmitModel.Lemmas.OtlpPipe
set_option maxHeartbeats 400000

namespace EmitModel.OtlpAll
open EmitModel EmitModel.Otlp

@[simp] theorem get_set_same (s : St) (g : Signal) (p : OtlpPipe.St) : (s.set g p).get g = p := by
  cases g <;> rfl

theorem get_set_other (s : St) (g g' : Signal) (p : OtlpPipe.St) (h : g' ≠ g) : (s.set g p).get g' = s.get g' := by
  cases g <;> cases g' <;> first | rfl | exact absurd rfl h

/-- What a step of the whole emitter is for one signal: nothing, or one step of that signal. -/
theorem step_sig (cfg : Cfg) (s s' : St) (l : Label) (h : step cfg s l = some s') (g : Signal) :
    s'.get g = s.get g ∨
    ∃ pl, OtlpPipe.step (cfg.pipe g) (s.get g) pl = some (s'.get g) ∧
      ((∃ x, l = .emit x ∧ pl = .chan (.send x) ∧ route cfg.logs cfg.traces cfg.metrics (cfg.shape x) = .signal g) ∨
       (l = .sig g pl ∧ isSend pl = false)) := by
  cases l with
  | emit x =>
    simp only [step] at h
    cases hr : route cfg.logs cfg.traces cfg.metrics (cfg.shape x) with
    | discard => simp only [hr, Option.some.injEq] at h; subst h; exact .inl rfl
    | signal g0 =>
      simp only [hr, Option.map_eq_some_iff] at h
      obtain ⟨p, hp, rfl⟩ := h
      by_cases hg : g = g0
      · subst hg
        refine .inr ⟨.chan (.send x), ?_, .inl ⟨x, rfl, rfl, hr⟩⟩
        have : ∀ c, ({ s.set g p with emitted := s.emitted ++ [x], closedDrop := c } : St).get g = p := by
          intro c; cases g <;> rfl
        rw [this]; exact hp
      · left
        have : ∀ c, ({ s.set g0 p with emitted := s.emitted ++ [x], closedDrop := c } : St).get g = (s.set g0 p).get g := by
          intro c; cases g <;> rfl
        rw [this]; exact get_set_other s g0 g p hg
  | sig g0 pl =>
    simp only [step] at h
    cases hsnd : isSend pl with
    | true => simp [hsnd] at h
    | false =>
      simp only [hsnd, Bool.false_eq_true, if_false, Option.map_eq_some_iff] at h
      obtain ⟨p, hp, rfl⟩ := h
      by_cases hg : g = g0
      · subst hg
        exact .inr ⟨pl, by rw [get_set_same]; exact hp, .inr ⟨rfl, hsnd⟩⟩
      · exact .inl (get_set_other s g0 g p hg)

/-- Every signal of the emitter runs an execution of its own composite, and only events routed to it ever enter its
    channel. -/
theorem reachable_sig (cfg : Cfg) (net0 : Signal → Net) (s : St) (h : Reachable cfg net0 s) (g : Signal) :
    OtlpPipe.Reachable (cfg.pipe g) (net0 g) (s.get g) ∧
    ∀ x ∈ (s.get g).ch.accepted, route cfg.logs cfg.traces cfg.metrics (cfg.shape x) = .signal g := by
  refine Sched.invariant_of_step (Inv := fun s => OtlpPipe.Reachable (cfg.pipe g) (net0 g) (s.get g) ∧
      ∀ x ∈ (s.get g).ch.accepted, route cfg.logs cfg.traces cfg.metrics (cfg.shape x) = .signal g) ?_ ?_ s h
  · refine ⟨by cases g <;> exact Sched.Reachable.init _ _, ?_⟩
    intro x hx
    cases g <;> simp [init, St.get, OtlpPipe.init, Batcher.init] at hx
  · intro s l s' ⟨hr, hacc⟩ hs
    rcases step_sig cfg s s' l hs g with heq | ⟨pl, hp, hkind⟩
    · rw [heq]; exact ⟨hr, hacc⟩
    · refine ⟨hr.step hp, fun x hx => ?_⟩
      obtain ⟨bl, hb, hbl⟩ := OtlpPipe.step_chan (cfg.pipe g) (s.get g) (s'.get g) pl hp
      rcases (Batcher.accepted_step (cfg.pipe g).ch (s.get g).ch (s'.get g).ch bl hb).2.1 x hx with hx | hx | hx
      · exact hacc x hx
      · -- the item of a send: it came through `emit`, which routed it here
        rcases hkind with ⟨y, _, hpl, hroute⟩ | ⟨_, hns⟩
        · rcases hbl with hbl | ⟨hbl, _⟩
          · rw [hpl] at hbl; cases hbl; cases hx; exact hroute
          · rw [hpl] at hbl; cases hbl
        · rcases hbl with hbl | ⟨_, o, ho⟩
          · rw [hbl, hx] at hns; simp [isSend] at hns
          · rw [ho] at hx; cases hx
      · rcases hkind with ⟨y, _, hpl, _⟩ | ⟨_, hns⟩
        · rcases hbl with hbl | ⟨hbl, _⟩
          · rw [hpl] at hbl; cases hbl; cases hx
          · rw [hpl] at hbl; cases hbl
        · rcases hbl with hbl | ⟨_, o, ho⟩
          · rw [hbl, hx] at hns; simp [isSend] at hns
          · rw [ho] at hx; cases hx

/-! ### where every emitted event went -/

/-- Where every emitted event went. -/
structure Acct (cfg : Cfg) (s : St) : Prop where
  disc : ∀ x ∈ s.discarded, route cfg.logs cfg.traces cfg.metrics (cfg.shape x) = .discard
  all : ∀ x ∈ s.emitted,
    (route cfg.logs cfg.traces cfg.metrics (cfg.shape x) = .discard ∧ x ∈ s.discarded) ∨
    ∃ g, route cfg.logs cfg.traces cfg.metrics (cfg.shape x) = .signal g ∧
      (x ∈ (s.get g).ch.accepted ∨ x ∈ s.closedDrop)
  count : s.discarded.length = (s.emitted.filter fun x =>
      decide (route cfg.logs cfg.traces cfg.metrics (cfg.shape x) = .discard)).length

theorem acct_reachable (cfg : Cfg) (net0 : Signal → Net) (s : St) (h : Reachable cfg net0 s) : Acct cfg s := by
  refine Sched.invariant_of_step (Inv := Acct cfg) ⟨by simp [init], by simp [init], by simp [init]⟩ ?_ s h
  intro s l s' ⟨hd, ha, hc⟩ hs
  cases l with
  | emit x =>
    simp only [step] at hs
    cases hr : route cfg.logs cfg.traces cfg.metrics (cfg.shape x) with
    | discard =>
      simp only [hr, Option.some.injEq] at hs
      subst hs
      refine ⟨?_, ?_, ?_⟩
      · intro y hy
        simp only [List.mem_append, List.mem_singleton] at hy
        rcases hy with hy | rfl
        · exact hd y hy
        · exact hr
      · intro y hy
        simp only [List.mem_append, List.mem_singleton] at hy
        rcases hy with hy | rfl
        · rcases ha y hy with ⟨h1, h2⟩ | ⟨g, h1, h2⟩
          · exact .inl ⟨h1, List.mem_append_left _ h2⟩
          · exact .inr ⟨g, h1, by cases g <;> exact h2⟩
        · exact .inl ⟨hr, by simp⟩
      · simp [List.filter_append, hc, hr]
    | signal g0 =>
      simp only [hr, Option.map_eq_some_iff] at hs
      obtain ⟨p, hp, rfl⟩ := hs
      -- the channel of `g0` took one `send x`
      have hch : p.ch = Batcher.send (cfg.pipe g0).ch (s.get g0).ch x := by
        simp only [OtlpPipe.step, Batcher.step, Option.map_eq_some_iff] at hp
        obtain ⟨ch', hc', rfl⟩ := hp
        split at hc'
        · cases hc'; rfl
        · cases hc'
      have hacc := Batcher.send_accepted (cfg.pipe g0).ch (s.get g0).ch x
      rw [← hch] at hacc
      have hget : ∀ c g, ({ s.set g0 p with emitted := s.emitted ++ [x], closedDrop := c } : St).get g = (s.set g0 p).get g := by
        intro c g; cases g <;> rfl
      refine ⟨fun y hy => hd y (by cases g0 <;> exact hy), ?_, ?_⟩
      · intro y hy
        simp only [List.mem_append, List.mem_singleton] at hy
        rcases hy with hy | rfl
        · rcases ha y hy with ⟨h1, h2⟩ | ⟨g, h1, h2⟩
          · exact .inl ⟨h1, by cases g0 <;> exact h2⟩
          · refine .inr ⟨g, h1, ?_⟩
            rw [hget]
            rcases h2 with h2 | h2
            · left
              by_cases hg : g = g0
              · subst hg
                rw [get_set_same]
                rcases hacc with e | e <;> rw [e] <;> simp [h2]
              · rw [get_set_other s g0 g p hg]; exact h2
            · right
              simp only
              split <;> simp [h2]
        · refine .inr ⟨g0, hr, ?_⟩
          rw [hget, get_set_same]
          rcases hacc with e | e
          · right
            simp only [e, if_true]
            simp
          · left; rw [e]; simp
      · have : ((s.emitted ++ [x]).filter fun y => decide (route cfg.logs cfg.traces cfg.metrics (cfg.shape y) = .discard)).length
            = (s.emitted.filter fun y => decide (route cfg.logs cfg.traces cfg.metrics (cfg.shape y) = .discard)).length := by
          simp [List.filter_append, hr]
        rw [this]
        have : (s.set g0 p).discarded = s.discarded := by cases g0 <;> rfl
        simp only [this]; exact hc
  | sig g0 pl =>
    simp only [step] at hs
    cases hsnd : isSend pl with
    | true => simp [hsnd] at hs
    | false =>
      simp only [hsnd, Bool.false_eq_true, if_false, Option.map_eq_some_iff] at hs
      obtain ⟨p, hp, rfl⟩ := hs
      obtain ⟨bl, hb, _⟩ := OtlpPipe.step_chan (cfg.pipe g0) (s.get g0) p pl hp
      have hmono := (Batcher.accepted_step (cfg.pipe g0).ch (s.get g0).ch p.ch bl hb).1
      refine ⟨fun y hy => hd y (by cases g0 <;> exact hy), ?_, by cases g0 <;> exact hc⟩
      intro y hy
      have hy' : y ∈ s.emitted := by cases g0 <;> exact hy
      rcases ha y hy' with ⟨h1, h2⟩ | ⟨g, h1, h2⟩
      · exact .inl ⟨h1, by cases g0 <;> exact h2⟩
      · refine .inr ⟨g, h1, ?_⟩
        rcases h2 with h2 | h2
        · left
          by_cases hg : g = g0
          · subst hg; rw [get_set_same]; exact hmono y h2
          · rw [get_set_other s g0 g p hg]; exact h2
        · right; cases g0 <;> exact h2
end EmitModel.OtlpAll
