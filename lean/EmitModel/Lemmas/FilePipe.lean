/-
  Lemmas/FilePipe.lean — the rolling-file emitter as a whole (Model/FilePipe.lean): every composite execution projects
  onto an execution of the channel, and an invariant relating the channel's bookkeeping (which items are finalised,
  which batch the receiver holds) to the filesystem (which events are kept in synced content).
-/
import EmitModel.Model.FilePipe
import EmitModel.Lemmas.BatcherFrame
import EmitModel.Thm.C10
import EmitModel.Thm.C11


namespace EmitModel.FilePipe
open EmitModel EmitModel.FileSet

theorem step_live {cfg : Cfg} {s s' : St} {l : Label} (h : step cfg s l = some s') :
    s.crashed = false ∧ stepLive cfg s l = some s' := by
  unfold step at h
  cases hc : s.crashed with
  | true => simp [hc] at h
  | false => simpa [hc] using h

/-- Every composite step is a step of the channel (with the outcome the worker produced) — or the crash that ends the
    execution, which leaves the channel as it is. -/
theorem step_proj (cfg : Cfg) (s s' : St) (l : Label) (h : step cfg s l = some s') :
    s'.ch = s.ch ∨ ∃ bl, Batcher.step cfg.ch s.ch bl = some s'.ch := by
  have hl := step_live h
  clear h
  obtain ⟨hlive, h⟩ := hl
  cases l with
  | chan bl =>
    refine .inr ⟨bl, ?_⟩
    cases bl
    case rxOutcome o => simp [stepLive] at h
    case rxBegin =>
      simp only [stepLive] at h
      cases hb : Batcher.step cfg.ch s.ch .rxBegin with
      | none => simp [hb] at h
      | some ch' =>
        simp only [hb] at h
        split at h <;> (cases h; rfl)
    all_goals
      simp only [stepLive, Option.map_eq_some_iff] at h
      obtain ⟨ch', hc, rfl⟩ := h
      exact hc
  | process now id =>
    simp only [stepLive] at h
    split at h
    · rename_i orig c ws b hrx hcur
      cases hob : onBatch cfg.file cfg.plan now id b s.fs with
      | mk r fs' =>
        simp only [hob] at h
        cases r with
        | ok =>
          simp only [Option.map_eq_some_iff] at h
          obtain ⟨ch', hc, rfl⟩ := h
          exact .inr ⟨_, hc⟩
        | retry b' =>
          simp only [Option.map_eq_some_iff] at h
          obtain ⟨ch', hc, rfl⟩ := h
          refine .inr ⟨.rxOutcome (.failRetry (remainder c b')), ?_⟩
          rw [hc]; split <;> rfl
        | noRetry =>
          simp only [Option.map_eq_some_iff] at h
          obtain ⟨ch', hc, rfl⟩ := h
          exact .inr ⟨_, hc⟩
        | crashed =>
          simp only [Option.some.injEq] at h
          subst h
          exact .inl rfl
    · simp at h

theorem reachable_proj (cfg : Cfg) (fs0 : FileSet.St) (s : St) (h : Reachable cfg fs0 s) :
    Batcher.Reachable cfg.ch s.ch := by
  obtain ⟨ls, hls⟩ := h
  suffices ∀ (ls : List Label) (s0 s : St), Batcher.Reachable cfg.ch s0.ch → Sched.run (step cfg) s0 ls = some s →
      Batcher.Reachable cfg.ch s.ch from this ls (init fs0) s (Sched.Reachable.init _ _) hls
  intro ls
  induction ls with
  | nil => intro s0 s h0 h; simp at h; subst h; exact h0
  | cons l ls ih =>
    intro s0 s h0 h
    simp only [Sched.run] at h
    cases hs : step cfg s0 l with
    | none => simp [hs] at h
    | some s1 =>
      simp only [hs] at h
      rcases step_proj cfg s0 s1 l hs with heq | ⟨bl, hb⟩
      · exact ih s1 s (by rw [heq]; exact h0) h
      · exact ih s1 s (h0.step hb) h

structure PInv (cfg : Cfg) (E : List Nat → Prop) (c : Nat) (s : St) : Prop where
  fsInv : FileSet.Inv cfg.file E c s.fs
  held : ∀ orig cu, s.ch.rx.held = some (orig, cu) →
    ∃ b done, s.cur = some b ∧ b.Wf ∧ b.rest = cu.map cfg.ev ∧ orig = done ++ cu ∧ s.began ≤ s.fs.log.length ∧
      ∀ x ∈ done, Kept cfg.file c s.began (cfg.ev x) s.fs
  fin : ∀ x ∈ s.ch.finalised, x ∈ s.failed ∨ ∃ L, (x, L) ∈ s.okd
  okd : ∀ p ∈ s.okd, p.2 ≤ s.fs.log.length ∧ Kept cfg.file c p.2 (cfg.ev p.1) s.fs

theorem pinv_init (cfg : Cfg) (E : List Nat → Prop) (c : Nat) (fs0 : FileSet.St) (h0 : FileSet.Inv cfg.file E c fs0) :
    PInv cfg E c (init fs0) :=
  ⟨h0, by intro o cu h; simp [init, Batcher.init, Batcher.Rx.held] at h, by simp [init, Batcher.init],
    by simp [init]⟩

/-- What one `on_batch` call does to everything that was kept before it. -/
theorem onBatch_keeps {cfg : Config} {E : List Nat → Prop} {c : Nat} (hsep : cfg.sep = [c]) (plan : Nat → Fault)
    (now : Parts) (id : Nat) (b : Batch) (s : FileSet.St) (hinv : FileSet.Inv cfg E c s) (hE : ∀ e ∈ b.rest, E e) :
    s.log.length ≤ (onBatch cfg plan now id b s).2.log.length ∧
      ∀ L e, L ≤ s.log.length → Kept cfg c L e s → Kept cfg c L e (onBatch cfg plan now id b s).2 := by
  have hrel : Rel cfg (fun _ => True) s (onBatch cfg plan now id b s).2 :=
    (onBatch_spec (N := fun _ => True) (.inl hsep) plan now id b s trivial hE hinv).1.rel hinv.nodup
  refine ⟨?_, fun L e hL hk => hk.mono hL hrel⟩
  obtain ⟨⟨extra, hlog, _⟩, _⟩ := hrel
  rw [hlog]; simp


theorem Batch.wf_foldl_advance (pre : List (List Nat)) :
    ∀ {b : Batch} {r : List (List Nat)}, b.Wf → b.rest = pre ++ r → (pre.foldl Batch.advance b).Wf := by
  induction pre with
  | nil => intro b r h _; simpa using h
  | cons e pre ih =>
    intro b r h hr
    simp only [List.foldl_cons]
    have hr' : b.rest = e :: (pre ++ r) := by simpa using hr
    exact ih (Batch.wf_advance h hr') (Batch.rest_advance hr')

/-- A retry, summarised: the batch handed back is a well-formed suffix of the one handed in, and what is missing
    from it is kept. -/
theorem retry_facts {cfg : Config} {E : List Nat → Prop} {c : Nat} (hsep : cfg.sep = [c]) (hwf : WfEvents E c)
    (plan : Nat → Fault) (now : Parts) (id : Nat) (b b' : Batch) (s s' : FileSet.St) (hinv : FileSet.Inv cfg E c s)
    (hE : ∀ e ∈ b.rest, E e) (hb : b.Wf) (h : onBatch cfg plan now id b s = (.retry b', s')) :
    ∃ pre, b.rest = pre ++ b'.rest ∧ b'.Wf ∧ ∀ e ∈ pre, ∀ L, Kept cfg c L e s' := by
  have hcnt : (b.rest.map List.length).sum ≤ b.remaining := by rw [hb.2]; exact Nat.le_refl _
  rcases C10.retried_prefix_durable hsep hwf plan now id b b' s s' hinv hE hcnt h with
    rfl | ⟨pre, a0, s0, f, _, hrest, _, hm, hget, hd, _, hocc⟩
  · exact ⟨[], by simp, hb, by simp⟩
  · refine ⟨pre, hrest, ?_, fun e he L => ⟨a0.name, hm, .inr ⟨f, hget, hd, hocc e he⟩⟩⟩
    rcases (C10.failed_batch_rewritten hsep plan now id b b' s s' hinv hE h).2 with
      rfl | ⟨pre', e, post, _, _, _, _, _, k1, _, k3, _⟩
    · exact hb
    · rw [k3]; exact Batch.wf_foldl_advance pre' hb k1

theorem pinv_step {cfg : Cfg} {E : List Nat → Prop} {c : Nat} (hsep : cfg.file.sep = [c]) (hwf : WfEvents E c)
    (hev : ∀ x, E (cfg.ev x)) (s s' : St) (l : Label) (hi : PInv cfg E c s) (h : step cfg s l = some s') :
    PInv cfg E c s' := by
  have hl := step_live h
  clear h
  obtain ⟨hlive, h⟩ := hl
  obtain ⟨i1, i2, i3, i4⟩ := hi
  cases l with
  | chan bl =>
    by_cases hob : ∃ o, bl = .rxOutcome o
    · obtain ⟨o, rfl⟩ := hob; simp [stepLive] at h
    by_cases hbg : bl = .rxBegin
    · subst hbg
      simp only [stepLive] at h
      cases hb : Batcher.step cfg.ch s.ch .rxBegin with
      | none => simp [hb] at h
      | some ch' =>
        simp only [hb] at h
        have hfin : ch'.finalised = s.ch.finalised ∧
            ((∃ b fw, b ≠ [] ∧ ch'.rx = .processing b b fw) ∨ ch'.rx.held = none) := by
          step_elim hb
          all_goals (first | exact ⟨rfl, .inr rfl⟩ | skip)
          rename_i b fw wasOpen hrx hlen
          exact ⟨rfl, .inl ⟨b, fw, by intro hnil; subst hnil; simp at hlen, rfl⟩⟩
        obtain ⟨f1, f2⟩ := hfin
        rcases f2 with ⟨b, fw, hne, hrx'⟩ | hnone
        · simp only [hrx'] at h
          cases h
          refine ⟨i1, ?_, by simpa [f1] using i3, i4⟩
          intro orig cu hh
          simp only [hrx', Batcher.Rx.held, Option.some.injEq, Prod.mk.injEq] at hh
          obtain ⟨h1, h2⟩ := hh
          rw [← h1, ← h2]
          have hb2 := (C11.batch_bytes.2.2.2.2 (b.map cfg.ev))
          exact ⟨_, [], rfl, hb2.1, hb2.2, by simp, Nat.le_refl _, by simp⟩
        · have : s' = { s with ch := ch' } := by
            split at h
            · rename_i o c0 w0 hp; rw [hp] at hnone; simp [Batcher.Rx.held] at hnone
            · cases h; rfl
          subst this
          refine ⟨i1, ?_, by simpa [f1] using i3, i4⟩
          intro orig cu hh
          simp only at hh
          rw [hnone] at hh; cases hh
    · have hgen : ∃ ch', Batcher.step cfg.ch s.ch bl = some ch' ∧ s' = { s with ch := ch' } := by
        cases bl
        case rxOutcome o => exact absurd ⟨o, rfl⟩ hob
        case rxBegin => exact absurd rfl hbg
        all_goals
          simp only [stepLive, Option.map_eq_some_iff] at h
          obtain ⟨ch', hc, rfl⟩ := h
          exact ⟨ch', hc, rfl⟩
      obtain ⟨ch', hc, rfl⟩ := hgen
      obtain ⟨f1, f2⟩ := Batcher.chan_frame cfg.ch s.ch ch' bl (fun o ho => hob ⟨o, ho⟩) hbg hc
      refine ⟨i1, ?_, by simpa [f1] using i3, i4⟩
      intro orig cu hh
      simp only at hh
      rcases f2 with f2 | f2
      · rw [f2] at hh; cases hh
      · rw [f2] at hh; exact i2 orig cu hh
  | process now id =>
    simp only [stepLive] at h
    split at h
    · rename_i orig cu ws b hrx hcur
      obtain ⟨b0, done, hb0, hwfb, hrest, horig, hbegan, hdone⟩ := i2 orig cu (by rw [hrx]; rfl)
      rw [hcur] at hb0; cases hb0
      have hE : ∀ e ∈ b.rest, E e := by
        rw [hrest]; intro e he; obtain ⟨x, _, rfl⟩ := List.mem_map.mp he; exact hev x
      obtain ⟨k1, k2⟩ := onBatch_keeps hsep cfg.plan now id b s.fs i1 hE
      have hinv' := onBatch_inv (.inl hsep) cfg.plan now id b s.fs hE i1
      -- what is already known to be kept stays kept
      have hokd : ∀ p ∈ s.okd, p.2 ≤ (onBatch cfg.file cfg.plan now id b s.fs).2.log.length ∧
          Kept cfg.file c p.2 (cfg.ev p.1) (onBatch cfg.file cfg.plan now id b s.fs).2 :=
        fun p hp => ⟨Nat.le_trans (i4 p hp).1 k1, k2 _ _ (i4 p hp).1 (i4 p hp).2⟩
      have hdone' : ∀ x ∈ done, Kept cfg.file c s.began (cfg.ev x) (onBatch cfg.file cfg.plan now id b s.fs).2 :=
        fun x hx => k2 _ _ hbegan (hdone x hx)
      -- a batch that concludes as failed
      have hfail : ∀ ch' : Batcher.St, ch'.finalised = s.ch.finalised ++ orig → ch'.rx.held = none →
          PInv cfg E c { s with ch := ch', fs := (onBatch cfg.file cfg.plan now id b s.fs).2, cur := none,
                                failed := s.failed ++ orig } := by
        intro ch' hf hh
        refine ⟨hinv', ?_, ?_, hokd⟩
        · intro o cu' hh'; simp only at hh'; rw [hh] at hh'; cases hh'
        · intro x hx
          simp only [hf, List.mem_append] at hx ⊢
          rcases hx with hx | hx
          · rcases i3 x hx with h1 | h1
            · exact .inl (.inl h1)
            · exact .inr h1
          · exact .inl (.inr hx)
      cases hob : onBatch cfg.file cfg.plan now id b s.fs with
      | mk r fs' =>
        rw [hob] at k1 k2 hinv' hokd hdone' hfail
        simp only at k1 k2 hinv' hokd hdone' hfail
        simp only [hob] at h
        cases r with
        | crashed =>
          -- the process is gone; what was kept is still kept in what the crash left
          simp only [Option.some.injEq] at h
          subst h
          refine ⟨hinv', ?_, i3, hokd⟩
          intro o cu' hh'
          simp only at hh'
          rw [hrx] at hh'
          simp only [Batcher.Rx.held, Option.some.injEq, Prod.mk.injEq] at hh'
          obtain ⟨rfl, rfl⟩ := hh'
          exact ⟨b, done, hcur, hwfb, hrest, horig, Nat.le_trans hbegan k1, hdone'⟩
        | noRetry =>
          simp only [Batcher.step, Batcher.rxOutcome, hrx, Batcher.conclude, Option.map_some, Option.some.injEq] at h
          subst h
          exact hfail _ rfl (Batcher.held_afterNotify ws)
        | ok =>
          simp only [Batcher.step, Batcher.rxOutcome, hrx, Batcher.conclude, Option.map_some, Option.some.injEq] at h
          subst h
          obtain ⟨a, f, _, hm, hget, hd, _, hocc⟩ := C10.acked_durable hsep hwf cfg.plan now id b s.fs fs' i1 hE hob
          refine ⟨hinv', ?_, ?_, ?_⟩
          · intro o cu' hh'; simp only [Batcher.held_afterNotify] at hh'; cases hh'
          · intro x hx
            simp only [List.mem_append] at hx ⊢
            rcases hx with hx | hx
            · rcases i3 x hx with h1 | ⟨L, h1⟩
              · exact .inl h1
              · exact .inr ⟨L, .inl h1⟩
            · exact .inr ⟨s.began, .inr (List.mem_map.mpr ⟨x, hx, rfl⟩)⟩
          · intro p hp
            simp only [List.mem_append, List.mem_map] at hp
            rcases hp with hp | ⟨x, hx, rfl⟩
            · exact hokd p hp
            · refine ⟨Nat.le_trans hbegan k1, ?_⟩
              rw [horig] at hx
              rcases List.mem_append.mp hx with hx | hx
              · exact hdone' x hx
              · exact ⟨a.name, hm, .inr ⟨f, hget, hd, hocc _ (by rw [hrest]; exact List.mem_map.mpr ⟨x, hx, rfl⟩)⟩⟩
        | retry b' =>
          obtain ⟨pre, hpre, hwf', hkept⟩ := retry_facts hsep hwf cfg.plan now id b b' s.fs fs' i1 hE hwfb hob
          -- the items still in the batch handed back, and the ones that left it
          have hlen : cu.length = pre.length + b'.rest.length := by
            have := congrArg List.length hpre
            rw [hrest] at this
            simpa using this
          have hrem : (remainder cu b').map cfg.ev = b'.rest := by
            unfold remainder
            rw [List.map_drop, ← hrest, hpre, hlen]
            simp
          have hsplit : cu = cu.take pre.length ++ remainder cu b' := by
            unfold remainder
            rw [hlen]; simp
          have htake : ∀ x ∈ cu.take pre.length, cfg.ev x ∈ pre := by
            intro x hx
            have : cfg.ev x ∈ (cu.map cfg.ev).take pre.length := by
              rw [← List.map_take]; exact List.mem_map.mpr ⟨x, hx, rfl⟩
            rw [← hrest, hpre] at this
            simpa using this
          dsimp only at h
          simp only [Batcher.step, Batcher.rxOutcome, hrx, Batcher.conclude] at h
          split at h
          · split at h
            · -- the retry is granted: the receiver waits, holding the remainder
              simp only [Option.map_some, Option.some.injEq] at h
              subst h
              refine ⟨hinv', ?_, by simpa using i3, hokd⟩
              intro o cu' hh'
              simp only [Batcher.Rx.held, Option.some.injEq, Prod.mk.injEq] at hh'
              obtain ⟨rfl, rfl⟩ := hh'
              refine ⟨b', done ++ cu.take pre.length, rfl, hwf', hrem.symm, ?_, Nat.le_trans hbegan k1, ?_⟩
              · rw [List.append_assoc, ← hsplit]; exact horig
              · intro x hx
                rcases List.mem_append.mp hx with hx | hx
                · exact hdone' x hx
                · exact hkept _ (htake x hx) _
            · simp only [Option.map_some, Option.some.injEq] at h
              subst h
              cases ws <;> exact hfail _ rfl rfl
          · simp only [Option.map_some, Option.some.injEq] at h
            subst h
            cases ws <;> exact hfail _ rfl rfl
    · simp at h

theorem pinv_reachable {cfg : Cfg} {E : List Nat → Prop} {c : Nat} (hsep : cfg.file.sep = [c]) (hwf : WfEvents E c)
    (hev : ∀ x, E (cfg.ev x)) (fs0 : FileSet.St) (h0 : FileSet.Inv cfg.file E c fs0) (s : St)
    (h : Reachable cfg fs0 s) : PInv cfg E c s :=
  Sched.invariant_of_step (pinv_init cfg E c fs0 h0) (fun s l s' hi hs => pinv_step hsep hwf hev s s' l hi hs) s h

/-! ### receiver steps: a composite execution has the receiver steps of its channel execution -/

/-- The composite labels that are steps of the receiver: its channel steps and the conclusions of `on_batch`. -/
def Label.isRx : Label → Bool
  | .chan l => l.isRx
  | .process _ _ => true

theorem step_proj' (cfg : Cfg) (s s' : St) (l : Label) (h : step cfg s l = some s') :
    (s'.crashed = true ∧ s'.ch = s.ch) ∨
    (s'.crashed = false ∧ ∃ bl, Batcher.step cfg.ch s.ch bl = some s'.ch ∧ bl.isRx = Label.isRx l) := by
  have hl := step_live h
  clear h
  obtain ⟨hlive, h⟩ := hl
  cases l with
  | chan bl =>
    cases bl
    case rxOutcome o => simp [stepLive] at h
    case rxBegin =>
      simp only [stepLive] at h
      cases hb : Batcher.step cfg.ch s.ch .rxBegin with
      | none => simp [hb] at h
      | some ch' =>
        simp only [hb] at h
        split at h <;> (cases h; exact .inr ⟨hlive, _, hb, rfl⟩)
    all_goals
      simp only [stepLive, Option.map_eq_some_iff] at h
      obtain ⟨ch', hc, rfl⟩ := h
      exact .inr ⟨hlive, _, hc, rfl⟩
  | process now id =>
    simp only [stepLive] at h
    split at h
    · rename_i orig c ws b hrx hcur
      cases hob : FileSet.onBatch cfg.file cfg.plan now id b s.fs with
      | mk r fs' =>
        simp only [hob] at h
        cases r with
        | ok =>
          simp only [Option.map_eq_some_iff] at h
          obtain ⟨ch', hc, rfl⟩ := h
          exact .inr ⟨hlive, _, hc, rfl⟩
        | retry b' =>
          simp only [Option.map_eq_some_iff] at h
          obtain ⟨ch', hc, rfl⟩ := h
          refine .inr ⟨?_, .rxOutcome (.failRetry (remainder c b')), ?_, rfl⟩
          · split <;> exact hlive
          · rw [hc]; split <;> rfl
        | noRetry =>
          simp only [Option.map_eq_some_iff] at h
          obtain ⟨ch', hc, rfl⟩ := h
          exact .inr ⟨hlive, _, hc, rfl⟩
        | crashed =>
          simp only [Option.some.injEq] at h
          subst h
          exact .inl ⟨rfl, rfl⟩
    · simp at h

theorem run_of_crashed (cfg : Cfg) (s s' : St) (hc : s.crashed = true) (ls : List Label)
    (h : Sched.run (step cfg) s ls = some s') : ls = [] ∧ s' = s := by
  cases ls with
  | nil => simp at h; exact ⟨rfl, h.symm⟩
  | cons l ls => simp [Sched.run, step, hc] at h

/-- A composite execution is an execution of the channel with the same receiver steps — up to the one crash step
    that may end it. -/
theorem run_proj (cfg : Cfg) : ∀ (ls : List Label) (s s' : St), Sched.run (step cfg) s ls = some s' →
    ∃ bls, Sched.run (Batcher.step cfg.ch) s.ch bls = some s'.ch ∧
      (s'.crashed = false → Sched.countSel Batcher.Label.isRx bls = Sched.countSel Label.isRx ls) := by
  intro ls
  induction ls with
  | nil => intro s s' h; simp at h; subst h; exact ⟨[], rfl, fun _ => rfl⟩
  | cons l ls ih =>
    intro s s' h
    simp only [Sched.run] at h
    cases hs : step cfg s l with
    | none => simp [hs] at h
    | some s1 =>
      simp only [hs] at h
      rcases step_proj' cfg s s1 l hs with ⟨hcr, hch⟩ | ⟨hcr, bl, hbl, hrx⟩
      · -- the crash ends the execution
        obtain ⟨rfl, rfl⟩ := run_of_crashed cfg s1 s' hcr ls h
        exact ⟨[], by simp [hch], fun hn => by rw [hcr] at hn; cases hn⟩
      · obtain ⟨bls, hb, hc⟩ := ih s1 s' h
        refine ⟨bl :: bls, by simp [Sched.run, hbl, hb], fun hn => ?_⟩
        rw [Sched.countSel_cons, Sched.countSel_cons, hc hn, hrx]

end EmitModel.FilePipe
