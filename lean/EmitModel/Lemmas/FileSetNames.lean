/-
  Lemmas/FileSetNames.lean — digits, lexicographic order, the descending sort, name formatting and parsing
  of Model/FileSet.lean.
-/
import EmitModel.Model.FileSet

namespace EmitModel.FileSet

/-! ### digits -/

theorem fixedBase_length (b w n : Nat) : (fixedBase b w n).length = w := by
  induction w generalizing n with
  | zero => simp [fixedBase]
  | succ w ih => simp [fixedBase, ih]

theorem digitChar_dec {d : Nat} (h : d < 10) : isDecDigit (digitChar d) = true := by
  simp [isDecDigit, digitChar, h]; omega

theorem digitChar_hex {d : Nat} (h : d < 16) : isHexDigit (digitChar d) = true := by
  unfold isHexDigit isDecDigit digitChar
  by_cases h10 : d < 10
  · simp [h10]; omega
  · simp [h10]; omega

theorem digitChar_lt {a b : Nat} (hb : b < 16) (h : a < b) : digitChar a < digitChar b := by
  unfold digitChar; split <;> split <;> omega

theorem digitChar_inj {a b : Nat} (ha : a < 16) (hb : b < 16) (h : digitChar a = digitChar b) : a = b := by
  unfold digitChar at h; split at h <;> split at h <;> omega

theorem fixedBase_all_dec (w n : Nat) : (fixedBase 10 w n).all isDecDigit = true := by
  induction w generalizing n with
  | zero => simp [fixedBase]
  | succ w ih =>
    simp only [fixedBase, List.all_append, ih, List.all_cons, List.all_nil, Bool.and_true, Bool.true_and]
    exact digitChar_dec (Nat.mod_lt _ (by omega))

theorem fixedBase_all_hex (w n : Nat) : (fixedBase 16 w n).all isHexDigit = true := by
  induction w generalizing n with
  | zero => simp [fixedBase]
  | succ w ih =>
    simp only [fixedBase, List.all_append, ih, List.all_cons, List.all_nil, Bool.and_true, Bool.true_and]
    exact digitChar_hex (Nat.mod_lt _ (by omega))

theorem isDigits_fixedBase (w n : Nat) : isDigits w (fixedBase 10 w n) = true := by
  simp [isDigits, fixedBase_length, fixedBase_all_dec]

theorem isHexDigits_fixedBase (w n : Nat) : isHexDigits w (fixedBase 16 w n) = true := by
  simp [isHexDigits, fixedBase_length, fixedBase_all_hex]

theorem not_mem_of_all_dec {l : List Nat} {c : Nat} (h : l.all isDecDigit = true) (hc : c < 48) : c ∉ l := by
  intro hm
  have := List.all_eq_true.mp h c hm
  simp [isDecDigit] at this; omega

theorem not_mem_of_all_hex {l : List Nat} {c : Nat} (h : l.all isHexDigit = true) (hc : c < 48) : c ∉ l := by
  intro hm
  have := List.all_eq_true.mp h c hm
  simp [isHexDigit, isDecDigit] at this; omega

/-! ### lexicographic order -/

theorem lexLt_irrefl (a : List Nat) : lexLt a a = false := by
  induction a with
  | nil => rfl
  | cons x xs ih => simp [lexLt, ih]

theorem lexLt_asymm {a b : List Nat} (h : lexLt a b = true) : lexLt b a = false := by
  induction a generalizing b with
  | nil => cases b <;> simp_all [lexLt]
  | cons x xs ih =>
    cases b with
    | nil => simp [lexLt] at h
    | cons y ys =>
      simp only [lexLt] at h ⊢
      by_cases h1 : x < y
      · have : ¬ y < x := by omega
        simp [this, h1]
      · by_cases h2 : y < x
        · simp [h1, h2] at h
        · simp [h1, h2] at h ⊢; exact ih h

theorem lexLt_trans {a b c : List Nat} (h1 : lexLt a b = true) (h2 : lexLt b c = true) : lexLt a c = true := by
  induction a generalizing b c with
  | nil =>
    cases b with
    | nil => simp [lexLt] at h1
    | cons y ys => cases c with
      | nil => simp [lexLt] at h2
      | cons z zs => simp [lexLt]
  | cons x xs ih =>
    cases b with
    | nil => simp [lexLt] at h1
    | cons y ys =>
      cases c with
      | nil => simp [lexLt] at h2
      | cons z zs =>
        simp only [lexLt] at h1 h2 ⊢
        by_cases hxy : x < y
        · by_cases hyz : y < z
          · have : x < z := by omega
            simp [this]
          · by_cases hzy : z < y
            · simp [hyz, hzy] at h2
            · have : x < z := by omega
              simp [this]
        · by_cases hyx : y < x
          · simp [hxy, hyx] at h1
          · simp [hxy, hyx] at h1
            have hxy' : x = y := by omega
            subst hxy'
            by_cases hyz : x < z
            · simp [hyz]
            · by_cases hzy : z < x
              · simp [hyz, hzy] at h2
              · simp [hyz, hzy] at h2 ⊢; exact ih h1 h2

/-- Trichotomy: two different names are ordered one way or the other. -/
theorem lexLt_total {a b : List Nat} (h : a ≠ b) : lexLt a b = true ∨ lexLt b a = true := by
  induction a generalizing b with
  | nil =>
    cases b with
    | nil => exact absurd rfl h
    | cons y ys => simp [lexLt]
  | cons x xs ih =>
    cases b with
    | nil => simp [lexLt]
    | cons y ys =>
      simp only [lexLt]
      by_cases h1 : x < y
      · simp [h1]
      · by_cases h2 : y < x
        · simp [h1, h2]
        · have : x = y := by omega
          subst this
          simp only [h1, if_false]
          exact ih (fun e => h (by rw [e]))

/-- `a < b` and `¬ c < b` (that is `b ≤ c`) give `a < c`. -/
theorem lexLt_of_lt_of_not_lt {a b c : List Nat} (h1 : lexLt a b = true) (h2 : lexLt c b = false) :
    lexLt a c = true := by
  by_cases hbc : b = c
  · subst hbc; exact h1
  · rcases lexLt_total hbc with h | h
    · exact lexLt_trans h1 h
    · rw [h] at h2; cases h2

/-- Equal-length blocks decide the comparison: a common prefix, then blocks of one length that compare
    strictly, then anything. -/
theorem lexLt_append_left (p a b : List Nat) : lexLt (p ++ a) (p ++ b) = lexLt a b := by
  induction p with
  | nil => rfl
  | cons x xs ih => simp [lexLt, ih]

theorem lexLt_block {x y : List Nat} (r1 r2 : List Nat) (hlen : x.length = y.length) (h : lexLt x y = true) :
    lexLt (x ++ r1) (y ++ r2) = true := by
  induction x generalizing y with
  | nil => cases y <;> simp_all [lexLt]
  | cons a as ih =>
    cases y with
    | nil => simp at hlen
    | cons b bs =>
      simp only [List.cons_append, lexLt] at h ⊢
      by_cases h1 : a < b
      · simp [h1]
      · by_cases h2 : b < a
        · simp [h1, h2] at h
        · simp [h1, h2] at h ⊢
          exact ih (by simpa using hlen) h

theorem fixedBase_lexLt (b w : Nat) (hb : 2 ≤ b) (hb16 : b ≤ 16) {m n : Nat} (hn : n < b ^ w) (h : m < n) :
    lexLt (fixedBase b w m) (fixedBase b w n) = true := by
  induction w generalizing m n with
  | zero => simp at hn; omega
  | succ w ih =>
    simp only [fixedBase]
    have hbpos : 0 < b := by omega
    by_cases hq : m / b < n / b
    · have hnb : n / b < b ^ w := by
        rw [Nat.div_lt_iff_lt_mul hbpos]; rw [Nat.pow_succ] at hn; exact hn
      exact lexLt_block _ _ (by simp [fixedBase_length]) (ih hnb hq)
    · have hle : m / b ≤ n / b := Nat.div_le_div_right (by omega)
      have heq : m / b = n / b := by omega
      rw [heq, lexLt_append_left]
      have hm : m % b < n % b := by
        have e1 := Nat.div_add_mod m b
        have e2 := Nat.div_add_mod n b
        rw [heq] at e1
        omega
      have := digitChar_lt (a := m % b) (b := n % b) (by have := Nat.mod_lt n hbpos; omega) hm
      simp [lexLt, this]

/-! ### the descending sort -/

theorem mem_insertDesc {n x : List Nat} {l : List (List Nat)} : x ∈ insertDesc n l ↔ x = n ∨ x ∈ l := by
  induction l with
  | nil => simp [insertDesc]
  | cons m ms ih =>
    simp only [insertDesc]
    split
    · simp
    · simp [ih]; constructor
      · rintro (h | h | h) <;> simp [h]
      · rintro (h | h | h) <;> simp [h]

theorem mem_sortDesc {x : List Nat} {l : List (List Nat)} : x ∈ sortDesc l ↔ x ∈ l := by
  induction l with
  | nil => simp [sortDesc]
  | cons n ns ih => simp [sortDesc, mem_insertDesc, ih]

theorem length_insertDesc (n : List Nat) (l : List (List Nat)) : (insertDesc n l).length = l.length + 1 := by
  induction l with
  | nil => simp [insertDesc]
  | cons m ms ih => simp only [insertDesc]; split <;> simp [ih]

theorem length_sortDesc (l : List (List Nat)) : (sortDesc l).length = l.length := by
  induction l with
  | nil => rfl
  | cons n ns ih => simp [sortDesc, length_insertDesc, ih]

/-- Descending: no earlier element is smaller than a later one. -/
def Desc (l : List (List Nat)) : Prop := l.Pairwise fun a b => lexLt a b = false

theorem desc_insertDesc {n : List Nat} {l : List (List Nat)} (h : Desc l) : Desc (insertDesc n l) := by
  induction l with
  | nil => simp [insertDesc, Desc]
  | cons m ms ih =>
    unfold Desc at h ⊢
    rw [List.pairwise_cons] at h
    simp only [insertDesc]
    split
    · rename_i hmn
      rw [List.pairwise_cons]
      refine ⟨?_, List.pairwise_cons.mpr h⟩
      intro x hx
      rcases List.mem_cons.mp hx with rfl | hx
      · exact lexLt_asymm hmn
      · -- x ≤ m < n
        have hmx := h.1 x hx
        cases hnx : lexLt n x with
        | false => rfl
        | true =>
          have := lexLt_of_lt_of_not_lt hmn (by
            cases hxn : lexLt x n with
            | false => rfl
            | true => exact absurd (lexLt_asymm hnx) (by simp [hxn]))
          -- m < x contradicts hmx
          rw [hmx] at this; cases this
    · rename_i hmn
      rw [List.pairwise_cons]
      refine ⟨?_, ih h.2⟩
      intro x hx
      rcases mem_insertDesc.mp hx with rfl | hx
      · simpa using hmn
      · exact h.1 x hx

theorem desc_sortDesc (l : List (List Nat)) : Desc (sortDesc l) := by
  induction l with
  | nil => simp [sortDesc, Desc]
  | cons n ns ih => exact desc_insertDesc ih

theorem nodup_insertDesc {n : List Nat} {l : List (List Nat)} (hn : n ∉ l) (h : l.Nodup) :
    (insertDesc n l).Nodup := by
  induction l with
  | nil => simp [insertDesc]
  | cons m ms ih =>
    simp only [insertDesc]
    split
    · exact List.nodup_cons.mpr ⟨hn, h⟩
    · rw [List.nodup_cons] at h ⊢
      refine ⟨?_, ih (fun hm => hn (List.mem_cons_of_mem _ hm)) h.2⟩
      intro hm
      rcases mem_insertDesc.mp hm with rfl | hm
      · exact hn (List.mem_cons_self)
      · exact h.1 hm

theorem nodup_sortDesc {l : List (List Nat)} (h : l.Nodup) : (sortDesc l).Nodup := by
  induction l with
  | nil => simp [sortDesc]
  | cons n ns ih =>
    rw [List.nodup_cons] at h
    exact nodup_insertDesc (fun hm => h.1 (mem_sortDesc.mp hm)) (ih h.2)

/-! ### strip / split -/

theorem stripPrefix?_append (p l : List Nat) : stripPrefix? p (p ++ l) = some l := by
  induction p with
  | nil => cases l <;> rfl
  | cons x xs ih => simp [stripPrefix?, ih]

theorem stripPrefix?_eq_some {p l r : List Nat} (h : stripPrefix? p l = some r) : l = p ++ r := by
  induction p generalizing l with
  | nil => cases l <;> simp_all [stripPrefix?]
  | cons x xs ih =>
    cases l with
    | nil => simp [stripPrefix?] at h
    | cons y ys =>
      simp only [stripPrefix?] at h
      split at h
      · rename_i hxy; subst hxy; simp [ih h]
      · cases h

theorem stripSuffix?_append (s l : List Nat) : stripSuffix? s (l ++ s) = some l := by
  simp [stripSuffix?, stripPrefix?_append]

theorem stripSuffix?_eq_some {s l r : List Nat} (h : stripSuffix? s l = some r) : l = r ++ s := by
  unfold stripSuffix? at h
  cases h' : stripPrefix? s.reverse l.reverse with
  | none => simp [h'] at h
  | some q =>
    simp [h'] at h
    have := stripPrefix?_eq_some h'
    have e : l = (s.reverse ++ q).reverse := by rw [← this]; simp
    rw [e, ← h]; simp

theorem splitOn_ne_nil (c : Nat) (l : List Nat) : splitOn c l ≠ [] := by
  cases l with
  | nil => simp [splitOn]
  | cons x xs =>
    simp only [splitOn]
    split
    · simp
    · split <;> simp

theorem splitOn_of_not_mem {c : Nat} {l : List Nat} (h : c ∉ l) : splitOn c l = [l] := by
  induction l with
  | nil => rfl
  | cons x xs ih =>
    have hx : x ≠ c := fun e => h (by simp [e])
    have hxs : c ∉ xs := fun hm => h (List.mem_cons_of_mem _ hm)
    simp [splitOn, ih hxs, hx]

theorem splitOn_append_sep {c : Nat} {a : List Nat} (b : List Nat) (h : c ∉ a) :
    splitOn c (a ++ c :: b) = a :: splitOn c b := by
  induction a with
  | nil =>
    simp only [List.nil_append, splitOn]
    cases hs : splitOn c b with
    | nil => exact absurd hs (splitOn_ne_nil c b)
    | cons r rs => simp
  | cons x xs ih =>
    have hx : x ≠ c := fun e => h (by simp [e])
    have hxs : c ∉ xs := fun hm => h (List.mem_cons_of_mem _ hm)
    simp [splitOn, ih hxs, hx]

/-- Joining the pieces with the separator gives the list back. -/
def joinSep (c : Nat) : List (List Nat) → List Nat
  | [] => []
  | [r] => r
  | r :: rs => r ++ c :: joinSep c rs

theorem joinSep_splitOn (c : Nat) (l : List Nat) : joinSep c (splitOn c l) = l := by
  induction l with
  | nil => rfl
  | cons x xs ih =>
    simp only [splitOn]
    cases hs : splitOn c xs with
    | nil => exact absurd hs (splitOn_ne_nil c xs)
    | cons r rs =>
      rw [hs] at ih
      by_cases hx : x = c
      · subst hx; simp [joinSep, ih]
      · simp only [hx, if_false]
        cases rs with
        | nil => simp [joinSep] at ih ⊢; exact ih
        | cons r2 rs2 => simp [joinSep] at ih ⊢; exact ih

theorem not_mem_of_mem_splitOn {c : Nat} {l r : List Nat} (h : r ∈ splitOn c l) : c ∉ r := by
  induction l generalizing r with
  | nil => simp [splitOn] at h; subst h; simp
  | cons x xs ih =>
    simp only [splitOn] at h
    cases hs : splitOn c xs with
    | nil => exact absurd hs (splitOn_ne_nil c xs)
    | cons r0 rs =>
      rw [hs] at h ih
      by_cases hx : x = c
      · simp [hx] at h
        rcases h with rfl | rfl | h
        · simp
        · exact ih (by simp)
        · exact ih (by simp [h])
      · simp [hx] at h
        rcases h with rfl | h
        · have := ih (r := r0) (by simp)
          intro hm; rcases List.mem_cons.mp hm with e | hm
          · exact hx e.symm
          · exact this hm
        · exact ih (by simp [h])

/-! ### period text as dash-joined fixed-width fields -/

/-- `(width, value)` fields joined by dashes. -/
def renderFields : List (Nat × Nat) → List Nat
  | [] => []
  | [f] => fixedBase 10 f.1 f.2
  | f :: g :: rest => fixedBase 10 f.1 f.2 ++ dash :: renderFields (g :: rest)

def periodFields (rb : RollBy) (p : Parts) : List (Nat × Nat) :=
  match rb with
  | .day => [(4, p.years), (2, p.months), (2, p.days)]
  | .hour => [(4, p.years), (2, p.months), (2, p.days), (2, p.hours)]
  | .minute => [(4, p.years), (2, p.months), (2, p.days), (2, p.hours), (2, p.minutes)]

theorem fileTs_eq_render (rb : RollBy) (p : Parts) : fileTs rb p = renderFields (periodFields rb p) := by
  cases rb <;> simp [fileTs, periodFields, renderFields]

/-- Field-wise lexicographic order of two field lists of the same widths. -/
def fieldsLt : List (Nat × Nat) → List (Nat × Nat) → Prop
  | f :: fs, g :: gs => f.1 = g.1 ∧ (f.2 < g.2 ∨ (f.2 = g.2 ∧ fieldsLt fs gs))
  | _, _ => False

def fieldsBounded : List (Nat × Nat) → Prop
  | [] => True
  | f :: fs => f.2 < 10 ^ f.1 ∧ fieldsBounded fs

theorem renderFields_lexLt {a b : List (Nat × Nat)} (r1 r2 : List Nat) (hb : fieldsBounded b) (h : fieldsLt a b) :
    lexLt (renderFields a ++ r1) (renderFields b ++ r2) = true := by
  induction a generalizing b with
  | nil => cases b <;> simp [fieldsLt] at h
  | cons f fs ih =>
    cases b with
    | nil => simp [fieldsLt] at h
    | cons g gs =>
      obtain ⟨hw, hv⟩ := h
      obtain ⟨hgb, hgsb⟩ := hb
      rcases hv with hv | ⟨hv, hrest⟩
      · -- the first field decides
        have hl := fixedBase_lexLt 10 g.1 (by omega) (by omega) hgb hv
        rw [← hw] at hl
        cases fs <;> cases gs <;>
          simp only [renderFields, List.append_assoc] <;>
          exact lexLt_block _ _ (by simp [fixedBase_length, hw]) (by rw [hw] at hl ⊢; exact hl)
      · cases fs with
        | nil => simp [fieldsLt] at hrest
        | cons f2 fs2 =>
          cases gs with
          | nil => simp [fieldsLt] at hrest
          | cons g2 gs2 =>
            simp only [renderFields, List.append_assoc, List.cons_append]
            rw [hw, hv, lexLt_append_left]
            simp only [lexLt, Nat.lt_irrefl, if_false]
            exact ih hgsb hrest

theorem length_renderFields_eq {a b : List (Nat × Nat)} (h : a.map (·.1) = b.map (·.1)) :
    (renderFields a).length = (renderFields b).length := by
  induction a generalizing b with
  | nil => cases b <;> simp_all [renderFields]
  | cons f fs ih =>
    cases b with
    | nil => simp at h
    | cons g gs =>
      simp at h
      cases fs with
      | nil =>
        cases gs with
        | nil => simp [renderFields, fixedBase_length, h.1]
        | cons _ _ => simp at h
      | cons f2 fs2 =>
        cases gs with
        | nil => simp at h
        | cons g2 gs2 =>
          have := ih (b := g2 :: gs2) (by simpa using h.2)
          simp [renderFields, fixedBase_length, h.1, this]

/-! ### the period text is recognised -/

theorem dash_not_mem_fixedBase (w n : Nat) : dash ∉ fixedBase 10 w n :=
  not_mem_of_all_dec (fixedBase_all_dec w n) (by decide)

theorem dot_not_mem_fixedBase (w n : Nat) : dot ∉ fixedBase 10 w n :=
  not_mem_of_all_dec (fixedBase_all_dec w n) (by decide)

theorem dot_not_mem_fixedHex (w n : Nat) : dot ∉ fixedBase 16 w n :=
  not_mem_of_all_hex (fixedBase_all_hex w n) (by decide)

theorem isFileTs_fileTs (rb : RollBy) (p : Parts) : isFileTs (fileTs rb p) = true := by
  cases rb <;>
    simp [fileTs, isFileTs, splitOn_append_sep, dash_not_mem_fixedBase, splitOn_of_not_mem, isDigits_fixedBase]

theorem dot_not_mem_fileTs (rb : RollBy) (p : Parts) : dot ∉ fileTs rb p := by
  have h := dot_not_mem_fixedBase
  cases rb <;> simp [fileTs, h] <;> decide

theorem dot_not_mem_of_isDigits {n : Nat} {l : List Nat} (h : isDigits n l = true) : dot ∉ l := by
  simp [isDigits] at h; exact not_mem_of_all_dec (List.all_eq_true.mpr h.2) (by decide)

theorem dot_not_mem_of_isHexDigits {n : Nat} {l : List Nat} (h : isHexDigits n l = true) : dot ∉ l := by
  simp [isHexDigits] at h; exact not_mem_of_all_hex (List.all_eq_true.mpr h.2) (by decide)

theorem dot_not_mem_of_isFileTs {ts : List Nat} (h : isFileTs ts = true) : dot ∉ ts := by
  unfold isFileTs at h
  have hj := joinSep_splitOn dash ts
  have hd : ∀ {n l}, isDigits n l = true → dot ∉ l := dot_not_mem_of_isDigits
  have hdd : dot ≠ dash := by decide
  split at h
  · rename_i y m d heq
    rw [heq] at hj; simp only [Bool.and_eq_true] at h
    rw [← hj]; simp [joinSep, hd h.1.1, hd h.1.2, hd h.2, hdd]
  · rename_i y m d hh heq
    rw [heq] at hj; simp only [Bool.and_eq_true] at h
    rw [← hj]; simp [joinSep, hd h.1.1.1, hd h.1.1.2, hd h.1.2, hd h.2, hdd]
  · rename_i y m d hh mi heq
    rw [heq] at hj; simp only [Bool.and_eq_true] at h
    rw [← hj]; simp [joinSep, hd h.1.1.1.1, hd h.1.1.1.2, hd h.1.1.2, hd h.1.2, hd h.2, hdd]
  · cases h

/-! ### membership parse: round trip and exactness -/

theorem memberTs?_fileName (pfx ext ts ms hx : List Nat) (hts : isFileTs ts = true)
    (hms : isDigits 8 ms = true) (hhx : isHexDigits 8 hx = true) :
    memberTs? pfx ext (fileName pfx ext ts (ms ++ [dot] ++ hx)) = some ts := by
  have e1 : fileName pfx ext ts (ms ++ [dot] ++ hx) = pfx ++ ([dot] ++ ((ts ++ dot :: (ms ++ dot :: hx)) ++ [dot] ++ ext)) := by
    simp [fileName]
  have e2 : (ts ++ dot :: (ms ++ dot :: hx)) ++ [dot] ++ ext = ((ts ++ dot :: (ms ++ dot :: hx)) ++ [dot]) ++ ext := by
    simp
  unfold memberTs?
  rw [e1, stripPrefix?_append]
  simp only [stripPrefix?_append]
  rw [e2, stripSuffix?_append]
  simp only [stripSuffix?_append]
  rw [splitOn_append_sep _ (dot_not_mem_of_isFileTs hts), splitOn_append_sep _ (dot_not_mem_of_isDigits hms),
    splitOn_of_not_mem (dot_not_mem_of_isHexDigits hhx)]
  simp [hts, hms, hhx]

/-- The name a configuration creates parses back to its period. -/
theorem memberTs?_nameFor (pfx ext : List Nat) (rb : RollBy) (now : Parts) (id : Nat) :
    memberTs? pfx ext (nameFor pfx ext rb now id) = some (fileTs rb now) := by
  unfold nameFor fileId
  exact memberTs?_fileName pfx ext _ _ _ (isFileTs_fileTs rb now) (isDigits_fixedBase 8 _) (isHexDigits_fixedBase 8 _)

/-- Exactness: a name is a member only if it is `prefix.ts.ms.id.ext` with the three fields of the right shape. -/
theorem memberTs?_eq_some {pfx ext name ts : List Nat} (h : memberTs? pfx ext name = some ts) :
    ∃ ms hx, isFileTs ts = true ∧ isDigits 8 ms = true ∧ isHexDigits 8 hx = true ∧
      name = fileName pfx ext ts (ms ++ [dot] ++ hx) := by
  unfold memberTs? at h
  split at h; · cases h
  rename_i r1 h1
  split at h; · cases h
  rename_i r2 h2
  split at h; · cases h
  rename_i r3 h3
  split at h; · cases h
  rename_i mid h4
  split at h
  · rename_i ts' ms hx hsplit
    split at h
    · rename_i hc
      simp only [Bool.and_eq_true] at hc
      cases h
      refine ⟨ms, hx, hc.1.1, hc.1.2, hc.2, ?_⟩
      have hj := joinSep_splitOn dot mid
      rw [hsplit] at hj
      have := stripPrefix?_eq_some h1
      have := stripPrefix?_eq_some h2
      have := stripSuffix?_eq_some h3
      have := stripSuffix?_eq_some h4
      subst_vars
      simp [fileName, joinSep]
    · cases h
  · cases h

/-! ### order of names follows the clock -/

/-- `a` is an earlier instant than `b` at millisecond resolution: lexicographic order of
    (year, month, day, hour, minute, second, millisecond) — for calendar dates the order of the instants. -/
def Parts.before (a b : Parts) : Prop :=
  a.years < b.years ∨ (a.years = b.years ∧ (a.months < b.months ∨ (a.months = b.months ∧
    (a.days < b.days ∨ (a.days = b.days ∧ (a.hours < b.hours ∨ (a.hours = b.hours ∧
      (a.minutes < b.minutes ∨ (a.minutes = b.minutes ∧ (a.seconds < b.seconds ∨ (a.seconds = b.seconds ∧
        a.nanos / 1000000 < b.nanos / 1000000)))))))))))

structure Parts.Valid (p : Parts) : Prop where
  years : p.years ≤ 9999
  months : p.months ≤ 12
  days : p.days ≤ 31
  hours : p.hours ≤ 23
  minutes : p.minutes ≤ 59
  seconds : p.seconds ≤ 59
  nanos : p.nanos ≤ 999999999

theorem periodFields_bounded (rb : RollBy) {p : Parts} (h : p.Valid) : fieldsBounded (periodFields rb p) := by
  obtain ⟨h1, h2, h3, h4, h5, h6, h7⟩ := h
  cases rb <;> simp [periodFields, fieldsBounded] <;> omega

theorem rollingMillis_lt (rb : RollBy) {p : Parts} (h : p.Valid) : rollingMillis rb p < 10 ^ 8 := by
  obtain ⟨h1, h2, h3, h4, h5, h6, h7⟩ := h
  cases rb <;> simp [rollingMillis] <;> omega


/-- An earlier reading either lies in an earlier period, or in the same period at an earlier millisecond. -/
theorem before_cases (rb : RollBy) {a b : Parts} (ha : a.Valid) (hb : b.Valid) (h : a.before b) :
    fieldsLt (periodFields rb a) (periodFields rb b) ∨
      (periodFields rb a = periodFields rb b ∧ rollingMillis rb a < rollingMillis rb b) := by
  obtain ⟨a1, a2, a3, a4, a5, a6, a7⟩ := ha
  obtain ⟨b1, b2, b3, b4, b5, b6, b7⟩ := hb
  rcases h with h | ⟨hy, h⟩
  · left; cases rb <;> simp [periodFields, fieldsLt, h]
  rcases h with h | ⟨hmo, h⟩
  · left; cases rb <;> simp [periodFields, fieldsLt, h, hy]
  rcases h with h | ⟨hd, h⟩
  · left; cases rb <;> simp [periodFields, fieldsLt, h, hy, hmo]
  cases rb with
  | day =>
    right
    refine ⟨by simp [periodFields, hy, hmo, hd], ?_⟩
    simp only [rollingMillis]; omega
  | hour =>
    rcases h with h | ⟨hh, h⟩
    · left; simp [periodFields, fieldsLt, h, hy, hmo, hd]
    right
    refine ⟨by simp [periodFields, hy, hmo, hd, hh], ?_⟩
    simp only [rollingMillis]; omega
  | minute =>
    rcases h with h | ⟨hh, h⟩
    · left; simp [periodFields, fieldsLt, h, hy, hmo, hd]
    rcases h with h | ⟨hmi, h⟩
    · left; simp [periodFields, fieldsLt, h, hy, hmo, hd, hh]
    right
    refine ⟨by simp [periodFields, hy, hmo, hd, hh, hmi], ?_⟩
    simp only [rollingMillis]; omega

theorem nameFor_lexLt (pfx ext : List Nat) (rb : RollBy) {a b : Parts} (ida idb : Nat)
    (ha : a.Valid) (hb : b.Valid) (h : a.before b) :
    lexLt (nameFor pfx ext rb a ida) (nameFor pfx ext rb b idb) = true := by
  have ea : ∀ (p : Parts) (id : Nat), nameFor pfx ext rb p id =
      (pfx ++ [dot]) ++ (renderFields (periodFields rb p) ++
        ([dot] ++ (fixedBase 10 8 (rollingMillis rb p) ++ ([dot] ++ fixedBase 16 8 id ++ [dot] ++ ext)))) := by
    intro p id; simp [nameFor, fileName, fileId, fileTs_eq_render]
  rw [ea, ea, lexLt_append_left]
  rcases before_cases rb ha hb h with hlt | ⟨heq, hms⟩
  · exact renderFields_lexLt _ _ (periodFields_bounded rb hb) hlt
  · rw [heq, lexLt_append_left, lexLt_append_left]
    exact lexLt_block _ _ (by simp [fixedBase_length])
      (fixedBase_lexLt 10 8 (by omega) (by omega) (rollingMillis_lt rb hb) hms)

/-- The largest name of a list comes first after the descending sort. -/
theorem head_sortDesc_of_max {l : List (List Nat)} {n : List Nat} (hn : n ∈ l)
    (hmax : ∀ m ∈ l, m ≠ n → lexLt m n = true) : (sortDesc l).head? = some n := by
  have hs := desc_sortDesc l
  have hmem : n ∈ sortDesc l := mem_sortDesc.mpr hn
  cases hl : sortDesc l with
  | nil => rw [hl] at hmem; cases hmem
  | cons x xs =>
    rw [hl] at hs hmem
    simp only [List.head?_cons, Option.some.injEq]
    rcases List.mem_cons.mp hmem with e | hx
    · exact e.symm
    · have hxl : x ∈ l := mem_sortDesc.mp (by rw [hl]; simp)
      unfold Desc at hs
      have h1 := (List.pairwise_cons.mp hs).1 n hx
      by_cases hxn : x = n
      · exact hxn
      · rw [hmax x hxl hxn] at h1; cases h1

/-! ### the template split -/

theorem splitLast_eq_none {c : Nat} {l : List Nat} (h : splitLast c l = none) : c ∉ l := by
  induction l with
  | nil => simp
  | cons x xs ih =>
    simp only [splitLast] at h
    cases hs : splitLast c xs with
    | some ba => simp [hs] at h
    | none =>
      simp only [hs] at h
      by_cases hx : x = c
      · simp [hx] at h
      · intro hm
        rcases List.mem_cons.mp hm with e | hm
        · exact hx e.symm
        · exact ih hs hm

theorem splitLast_eq_some {c : Nat} {l b a : List Nat} (h : splitLast c l = some (b, a)) :
    l = b ++ c :: a ∧ c ∉ a := by
  induction l generalizing b with
  | nil => simp [splitLast] at h
  | cons x xs ih =>
    simp only [splitLast] at h
    cases hs : splitLast c xs with
    | some ba =>
      obtain ⟨b', a'⟩ := ba
      simp only [hs, Option.some.injEq, Prod.mk.injEq] at h
      obtain ⟨rfl, rfl⟩ := h
      obtain ⟨e1, e2⟩ := ih hs
      exact ⟨by rw [e1]; simp, e2⟩
    | none =>
      simp only [hs] at h
      by_cases hx : x = c
      · simp only [hx, if_true, Option.some.injEq, Prod.mk.injEq] at h
        obtain ⟨rfl, rfl⟩ := h
        exact ⟨by simp [hx], splitLast_eq_none hs⟩
      · simp [hx] at h

end EmitModel.FileSet
