/-
  Lemmas/FileSetFs.lean — the association-list filesystem of Model/FileSet.lean: lookups after each update.
-/
import EmitModel.Lemmas.FileSetChunks

namespace EmitModel.FileSet

def names (fs : List (List Nat × File)) : List (List Nat) := fs.map (·.1)

theorem fsGet_eq_none_iff {fs : List (List Nat × File)} {n : List Nat} : fsGet fs n = none ↔ n ∉ names fs := by
  induction fs with
  | nil => simp [fsGet, names]
  | cons e rest ih =>
    obtain ⟨m, f⟩ := e
    simp only [fsGet, names, List.map_cons, List.mem_cons, not_or] at ih ⊢
    by_cases h : m = n
    · simp [h]
    · have h' : ¬ n = m := fun e => h e.symm
      simp only [h, if_false, ih, h', not_false_eq_true, true_and]

theorem mem_names_of_fsGet {fs : List (List Nat × File)} {n : List Nat} {f : File} (h : fsGet fs n = some f) :
    n ∈ names fs := by
  apply Classical.byContradiction
  intro hn
  rw [fsGet_eq_none_iff.mpr hn] at h; cases h

theorem fsGet_fsSet_same (fs : List (List Nat × File)) (n : List Nat) (f : File) : fsGet (fsSet fs n f) n = some f := by
  induction fs with
  | nil => simp [fsSet, fsGet]
  | cons e rest ih =>
    obtain ⟨m, g⟩ := e
    simp only [fsSet]
    by_cases h : m = n
    · simp [h, fsGet]
    · simp [h, fsGet, ih]

theorem fsGet_fsSet_ne (fs : List (List Nat × File)) {n m : List Nat} (f : File) (h : m ≠ n) :
    fsGet (fsSet fs n f) m = fsGet fs m := by
  induction fs with
  | nil => simp [fsSet, fsGet]; exact fun e => h e.symm
  | cons e rest ih =>
    obtain ⟨k, g⟩ := e
    simp only [fsSet]
    by_cases hk : k = n
    · subst hk
      have : k ≠ m := fun e => h e.symm
      simp [fsGet, this]
    · simp only [hk, if_false, fsGet, ih]

theorem names_fsSet_of_mem {fs : List (List Nat × File)} {n : List Nat} (f : File) (h : n ∈ names fs) :
    names (fsSet fs n f) = names fs := by
  induction fs with
  | nil => simp [names] at h
  | cons e rest ih =>
    obtain ⟨k, g⟩ := e
    simp only [fsSet]
    by_cases hk : k = n
    · simp [hk, names]
    · have : n ∈ names rest := by
        simp [names] at h ⊢
        rcases h with h | h
        · exact absurd h.symm hk
        · exact h
      simp only [hk, if_false, names, List.map_cons] at ih ⊢
      rw [ih this]

theorem fsSet_self {fs : List (List Nat × File)} {n : List Nat} {f : File} (h : fsGet fs n = some f) :
    fsSet fs n f = fs := by
  induction fs with
  | nil => simp [fsGet] at h
  | cons e rest ih =>
    obtain ⟨k, g⟩ := e
    simp only [fsGet] at h
    simp only [fsSet]
    by_cases hk : k = n
    · simp [hk] at h ⊢; exact h.symm
    · simp [hk] at h ⊢; exact ih h

theorem fsGet_fsErase_same (fs : List (List Nat × File)) (n : List Nat) : fsGet (fsErase fs n) n = none := by
  rw [fsGet_eq_none_iff]; simp [names, fsErase]

theorem fsGet_fsErase_ne (fs : List (List Nat × File)) {n m : List Nat} (h : m ≠ n) :
    fsGet (fsErase fs n) m = fsGet fs m := by
  induction fs with
  | nil => rfl
  | cons e rest ih =>
    obtain ⟨k, g⟩ := e
    simp only [fsErase, List.filter_cons] at ih ⊢
    by_cases hk : k = n
    · subst hk
      have : k ≠ m := fun e => h e.symm
      simp only [ne_eq, not_true_eq_false, decide_false, Bool.false_eq_true, if_false, fsGet, this]
      exact ih
    · simp only [hk, ne_eq, not_false_eq_true, decide_true, if_true, fsGet]
      rw [ih]

theorem names_fsErase (fs : List (List Nat × File)) (n : List Nat) :
    names (fsErase fs n) = (names fs).filter fun m => decide (m ≠ n) := by
  simp [names, fsErase, List.filter_map]; rfl

theorem fsGet_append_of_some {fs : List (List Nat × File)} {n : List Nat} {f : File} (l : List (List Nat × File))
    (h : fsGet fs n = some f) : fsGet (fs ++ l) n = some f := by
  induction fs with
  | nil => simp [fsGet] at h
  | cons e rest ih =>
    obtain ⟨k, g⟩ := e
    simp only [fsGet, List.cons_append] at h ⊢
    by_cases hk : k = n
    · simpa [hk] using h
    · simp only [hk, if_false] at h ⊢; exact ih h

theorem fsGet_append_of_none {fs : List (List Nat × File)} {n : List Nat} (l : List (List Nat × File))
    (h : fsGet fs n = none) : fsGet (fs ++ l) n = fsGet l n := by
  induction fs with
  | nil => rfl
  | cons e rest ih =>
    obtain ⟨k, g⟩ := e
    simp only [fsGet, List.cons_append] at h ⊢
    by_cases hk : k = n
    · simp [hk] at h
    · simp only [hk, if_false] at h ⊢; exact ih h

theorem fsGet_map (fs : List (List Nat × File)) (g : File → File) (n : List Nat) :
    fsGet (fs.map fun e => (e.1, g e.2)) n = (fsGet fs n).map g := by
  induction fs with
  | nil => rfl
  | cons e rest ih =>
    obtain ⟨k, f⟩ := e
    simp only [List.map_cons, fsGet]
    by_cases hk : k = n
    · simp [hk]
    · simp [hk, ih]

theorem names_map (fs : List (List Nat × File)) (g : File → File) :
    names (fs.map fun e => (e.1, g e.2)) = names fs := by
  simp [names]

theorem fsGet_filter_of_nodup {fs : List (List Nat × File)} (p : File → Bool) (hnd : (names fs).Nodup) (n : List Nat) :
    fsGet (fs.filter fun e => p e.2) n = (fsGet fs n).bind fun f => if p f then some f else none := by
  induction fs with
  | nil => rfl
  | cons e rest ih =>
    obtain ⟨k, f⟩ := e
    simp only [names, List.map_cons, List.nodup_cons] at hnd
    have ih' := ih hnd.2
    simp only [List.filter_cons, fsGet]
    by_cases hk : k = n
    · subst hk
      by_cases hp : p f = true
      · simp [hp, fsGet]
      · simp only [hp, Bool.false_eq_true, if_false, if_true, Option.bind_some]
        rw [fsGet_eq_none_iff]
        intro hm
        have : k ∈ names rest := by
          simp only [names, List.mem_map] at hm ⊢
          obtain ⟨e, he, hek⟩ := hm
          exact ⟨e, (List.mem_filter.mp he).1, hek⟩
        exact hnd.1 this
    · by_cases hp : p f = true
      · simp [hp, fsGet, hk, ih']
      · simp [hp, hk, ih']

theorem names_filter_sublist (fs : List (List Nat × File)) (p : List Nat × File → Bool) :
    (names (fs.filter p)).Sublist (names fs) := by
  simp only [names]
  exact List.Sublist.map _ List.filter_sublist

theorem fsGet_crashFs {fs : List (List Nat × File)} (lose : List Nat) (dropNew : Bool) (hnd : (names fs).Nodup)
    (n : List Nat) :
    fsGet (crashFs lose dropNew fs) n =
      (fsGet fs n).bind fun f => if f.durable || !dropNew then some (crashFile lose f) else none := by
  unfold crashFs
  rw [fsGet_map, fsGet_filter_of_nodup (fun f => f.durable || !dropNew) hnd]
  cases fsGet fs n with
  | none => rfl
  | some f => by_cases h : (f.durable || !dropNew) = true <;> simp

theorem names_crashFs_sublist (lose : List Nat) (dropNew : Bool) (fs : List (List Nat × File)) :
    (names (crashFs lose dropNew fs)).Sublist (names fs) := by
  unfold crashFs
  rw [names_map]
  exact names_filter_sublist fs _

theorem fsGet_appendBytes_same {fs : List (List Nat × File)} {n : List Nat} {f : File} (bytes : List Nat)
    (h : fsGet fs n = some f) :
    fsGet (appendBytes fs n bytes) n = some { f with unsynced := f.unsynced ++ bytes } := by
  simp [appendBytes, h, fsGet_fsSet_same]

theorem fsGet_appendBytes_ne (fs : List (List Nat × File)) {n m : List Nat} (bytes : List Nat) (h : m ≠ n) :
    fsGet (appendBytes fs n bytes) m = fsGet fs m := by
  unfold appendBytes
  cases hg : fsGet fs n with
  | none => rfl
  | some f => simp [fsGet_fsSet_ne _ _ h]

theorem appendBytes_of_none {fs : List (List Nat × File)} {n : List Nat} (bytes : List Nat)
    (h : fsGet fs n = none) : appendBytes fs n bytes = fs := by
  simp [appendBytes, h]

theorem appendBytes_nil (fs : List (List Nat × File)) (n : List Nat) : appendBytes fs n [] = fs := by
  unfold appendBytes
  cases hg : fsGet fs n with
  | none => rfl
  | some f => simp; exact fsSet_self hg

theorem names_appendBytes (fs : List (List Nat × File)) (n : List Nat) (bytes : List Nat) :
    names (appendBytes fs n bytes) = names fs := by
  unfold appendBytes
  cases hg : fsGet fs n with
  | none => rfl
  | some f => simp; exact names_fsSet_of_mem _ (mem_names_of_fsGet hg)

theorem appendBytes_appendBytes (fs : List (List Nat × File)) (n : List Nat) (a b : List Nat) :
    appendBytes (appendBytes fs n a) n b = appendBytes fs n (a ++ b) := by
  cases hg : fsGet fs n with
  | none => simp [appendBytes_of_none, hg]
  | some f =>
    simp only [appendBytes, hg, fsGet_fsSet_same]
    -- fsSet (fsSet fs n x) n y = fsSet fs n y
    have : ∀ (fs : List (List Nat × File)) (x y : File), fsSet (fsSet fs n x) n y = fsSet fs n y := by
      intro fs x y
      induction fs with
      | nil => simp [fsSet]
      | cons e rest ih =>
        obtain ⟨k, g⟩ := e
        simp only [fsSet]
        by_cases hk : k = n
        · simp [hk, fsSet]
        · simp [hk, fsSet, ih]
    simp [this]

end EmitModel.FileSet
