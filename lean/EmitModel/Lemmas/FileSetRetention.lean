/-
  Lemmas/FileSetRetention.lean — fault-free runs: which calls leave the set of names alone, and the bound on the
  number of member files after a whole `on_batch`.
-/
import EmitModel.Lemmas.FileSetOk

namespace EmitModel.FileSet

theorem memberCount_congr {cfg : Config} {fs fs' : List (List Nat × File)} (h : names fs' = names fs) :
    memberCount cfg fs' = memberCount cfg fs := by simp [memberCount, h]

theorem memberSet_congr {cfg : Config} {fs fs' : List (List Nat × File)} (h : names fs' = names fs) :
    memberSet cfg fs' = memberSet cfg fs := by simp [memberSet, h]

/-! ### calls that keep the names (no faults) -/

theorem openExisting_okPlan (n : List Nat) (s : St) :
    openExisting okPlan n s = .err s.tick ∨
      openExisting okPlan n s = .ok () { s.tick with log := s.log ++ [.opened n] } := by
  unfold openExisting
  rw [simpleOp_okPlan]
  cases fsGet s.tick.fs n with
  | none => exact .inl rfl
  | some f => exact .inr rfl

theorem syncParent_okPlan (s : St) :
    syncParent okPlan s = .ok () { s.tick with fs := s.fs.map fun e => (e.1, e.2.setDurable) } := rfl

theorem fileLen_okPlan (n : List Nat) (s : St) :
    fileLen okPlan n s = .err s.tick ∨ ∃ l, fileLen okPlan n s = .ok l s.tick := by
  unfold fileLen
  rw [simpleOp_okPlan]
  cases fsGet s.tick.fs n with
  | none => exact .inl rfl
  | some f => exact .inr ⟨_, rfl⟩

theorem tryOpenReuse_names (cfg : Config) (n : List Nat) (s : St) :
    names (tryOpenReuse cfg okPlan n s).st.fs = names s.fs := by
  cases hts : memberTs? cfg.pfx cfg.ext n with
  | none => simp [tryOpenReuse, hts, R.st]
  | some ts =>
    cases hget : fsGet s.fs n with
    | none => simp [tryOpenReuse, hts, openExisting, simpleOp_okPlan, St.tick, hget, R.st]
    | some f =>
      have hm : fsGet (List.map (fun e => (e.fst, e.snd.setDurable)) s.fs) n = some f.setDurable := by
        rw [fsGet_map _ File.setDurable, hget]; rfl
      simp [tryOpenReuse, hts, openExisting, syncParent, fileLen, simpleOp_okPlan, St.tick, hget, R.st, hm]
      exact names_map _ File.setDurable

theorem writeAll_names (n buf : List Nat) (s : St) : names (writeAll okPlan n buf s).st.fs = names s.fs := by
  unfold writeAll
  split
  · rfl
  · simp [okPlan, R.st, St.tick, names_appendBytes]

theorem writeAll_okPlan_ok (n buf : List Nat) (s : St) : ∃ s', writeAll okPlan n buf s = .ok () s' := by
  unfold writeAll
  split
  · exact ⟨_, rfl⟩
  · exact ⟨_, rfl⟩

theorem writeEvent_names (cfg : Config) (a : Active) (e : List Nat) (s : St) :
    names (writeEvent cfg okPlan a e s).st.fs = names s.fs := by
  unfold writeEvent
  by_cases hnr : a.needsRecovery = true
  · simp only [hnr, if_true]
    obtain ⟨s1, h1⟩ := writeAll_okPlan_ok a.name cfg.sep s
    have n1 := writeAll_names a.name cfg.sep s
    simp only [h1, R.st] at n1 ⊢
    obtain ⟨s2, h2⟩ := writeAll_okPlan_ok a.name e s1
    have n2 := writeAll_names a.name e s1
    simp only [h2, R.st] at n2 ⊢
    rw [n2, n1]
  · simp only [hnr, Bool.false_eq_true, if_false]
    obtain ⟨s2, h2⟩ := writeAll_okPlan_ok a.name e s
    have n2 := writeAll_names a.name e s
    simp only [h2, R.st] at n2 ⊢
    exact n2

theorem writeEvents_names (cfg : Config) (evs : List (List Nat)) :
    ∀ (a : Active) (b : Batch) (s : St), names (writeEvents cfg okPlan a b s evs).2.2.fs = names s.fs := by
  induction evs with
  | nil => intro a b s; rfl
  | cons e rest ih =>
    intro a b s
    have h1 := writeEvent_names cfg a e s
    simp only [writeEvents]
    cases h : writeEvent cfg okPlan a e s with
    | err s1 => simp only [h, R.st] at h1 ⊢; exact h1
    | crash s1 => simp only [h, R.st] at h1 ⊢; exact h1
    | ok a1 s1 => simp only [h, R.st] at h1 ⊢; rw [ih, h1]

theorem syncAll_names (n : List Nat) (s : St) : names (syncAll okPlan n s).st.fs = names s.fs := by
  unfold syncAll
  rw [simpleOp_okPlan]
  split
  · rename_i f hget
    simp only [R.st]
    exact names_fsSet_of_mem _ (mem_names_of_fsGet hget)
  · rfl

/-- After the file is chosen, a fault-free `on_batch` changes no name. -/
theorem onBatch_names_after_acquire (cfg : Config) (now : Parts) (id : Nat) (b : Batch) (s : St) :
    names (onBatch cfg okPlan now id b s).2.fs = names (acquire cfg okPlan now id b s).st.fs := by
  unfold onBatch
  cases h : acquire cfg okPlan now id b s with
  | err s1 => rfl
  | crash s1 => rfl
  | ok a s1 =>
    simp only [R.st]
    have hw := writeEvents_names cfg b.rest a b s1
    generalize writeEvents cfg okPlan a b s1 b.rest = w at hw
    obtain ⟨res, oa, s2⟩ := w
    simp only at hw
    cases res with
    | retry b' =>
      have key : names (syncWritten okPlan a.name b b' s2).2.fs = names s1.fs := by
        unfold syncWritten
        split
        · have hf : flushFile okPlan s2 = .ok () s2.tick := rfl
          simp only [hf]
          have hy := syncAll_names a.name s2.tick
          cases hs : syncAll okPlan a.name s2.tick with
          | err s4 => simp only [hs, R.st] at hy ⊢; rw [hy]; exact hw
          | crash s4 => simp only [hs, R.st] at hy ⊢; rw [hy]; exact hw
          | ok u s4 => simp only [hs, R.st] at hy ⊢; rw [hy]; exact hw
        · exact hw
      cases oa <;> exact key
    | noRetry => cases oa <;> exact hw
    | crashed => cases oa <;> exact hw
    | ok =>
      cases oa with
      | none => exact hw
      | some a' =>
        simp only
        have hf : flushFile okPlan s2 = .ok () s2.tick := rfl
        simp only [hf]
        have hy := syncAll_names a'.name s2.tick
        cases hs : syncAll okPlan a'.name s2.tick with
        | err s4 => simp only [hs, R.st] at hy ⊢; rw [hy]; exact hw
        | crash s4 => simp only [hs, R.st] at hy ⊢; rw [hy]; exact hw
        | ok u s4 => simp only [hs, R.st] at hy ⊢; rw [hy]; exact hw

/-! ### the count after choosing the file -/

theorem memberCount_createFile {cfg : Config} (hmax : 1 ≤ cfg.maxFiles) (now : Parts) (id : Nat) {s : St}
    (hnd : NamesNodup s) :
    memberCount cfg (createFile cfg okPlan now id (memberSet cfg s.fs) s).st.fs ≤
      max cfg.maxFiles (memberCount cfg s.fs) := by
  obtain ⟨h1, h2⟩ := createFile_okPlan cfg now id (memberSet cfg s.fs) s
  by_cases hnone : fsGet ((victims (cfg.maxFiles - 1) (memberSet cfg s.fs)).foldl fsErase s.fs)
      (nameFor cfg.pfx cfg.ext cfg.rollBy now id) = none
  · obtain ⟨s2, he, _⟩ := h1 hnone
    have := memberCount_after_create hmax hnd he
    rw [he]; simp only [R.st]; omega
  · obtain ⟨s2, he, hfs⟩ := h2 hnone
    rw [he]; simp only [R.st]
    have : memberCount cfg s2.fs ≤ memberCount cfg s.fs := by
      unfold memberCount
      rw [hfs, names_foldl_fsErase]
      exact (List.Sublist.filter _ List.filter_sublist).length_le
    omega

theorem memberCount_openOrCreate {cfg : Config} (hmax : 1 ≤ cfg.maxFiles) (now : Parts) (id : Nat) (b : Batch)
    {s : St} (hnd : NamesNodup s) :
    memberCount cfg (openOrCreate cfg okPlan now id b (memberSet cfg s.fs) s).st.fs ≤
      max cfg.maxFiles (memberCount cfg s.fs) := by
  unfold openOrCreate
  split
  · exact memberCount_createFile hmax now id hnd
  · rename_i n _
    have hn := tryOpenReuse_names cfg n s
    cases h : tryOpenReuse cfg okPlan n s with
    | crash s1 =>
      simp only [h, R.st] at hn ⊢
      rw [memberCount_congr hn]; omega
    | err s1 =>
      simp only [h, R.st] at hn ⊢
      have hnd1 : NamesNodup s1 := by unfold NamesNodup; rw [hn]; exact hnd
      have := memberCount_createFile (cfg := cfg) hmax now id hnd1
      rw [memberSet_congr hn, memberCount_congr hn] at this
      exact this
    | ok a1 s1 =>
      simp only [h, R.st] at hn ⊢
      by_cases hfit : fits cfg now b a1 = true
      · simp only [hfit, if_true]
        rw [memberCount_congr hn]; omega
      · simp only [hfit]
        have hnd1 : NamesNodup s1 := by unfold NamesNodup; rw [hn]; exact hnd
        have := memberCount_createFile (cfg := cfg) hmax now id hnd1
        rw [memberSet_congr hn, memberCount_congr hn] at this
        exact this

theorem acquire_okPlan_none (cfg : Config) (now : Parts) (id : Nat) (b : Batch) (s : St) (hs : s.active = none) :
    acquire cfg okPlan now id b s =
      openOrCreate cfg okPlan now id b (memberSet cfg s.fs) { s with active := none, op := s.op + 1 + 1 } := by
  unfold acquire
  simp only [hs]
  rfl

theorem acquire_okPlan_some (cfg : Config) (now : Parts) (id : Nat) (b : Batch) (s : St) (a : Active)
    (hs : s.active = some a) :
    acquire cfg okPlan now id b s =
      if fits cfg now b a then .ok a { s with active := none }
      else createFile cfg okPlan now id (memberSet cfg s.fs) { s with active := none, op := s.op + 1 } := by
  unfold acquire
  simp only [hs]
  rfl

theorem memberCount_acquire {cfg : Config} (hmax : 1 ≤ cfg.maxFiles) (now : Parts) (id : Nat) (b : Batch)
    {s : St} (hnd : NamesNodup s) :
    memberCount cfg (acquire cfg okPlan now id b s).st.fs ≤ max cfg.maxFiles (memberCount cfg s.fs) := by
  cases hs : s.active with
  | some a0 =>
    rw [acquire_okPlan_some cfg now id b s a0 hs]
    by_cases hfit : fits cfg now b a0 = true
    · simp only [hfit, if_true, R.st]; omega
    · simp only [hfit]
      exact memberCount_createFile (s := { s with active := none, op := s.op + 1 }) hmax now id hnd
  | none =>
    rw [acquire_okPlan_none cfg now id b s hs]
    exact memberCount_openOrCreate (s := { s with active := none, op := s.op + 1 + 1 }) hmax now id b hnd

/-- **Retention over a whole batch** (no faults, unique names): the set never grows beyond
    `max (max_files, what it was)`. -/
theorem memberCount_onBatch {cfg : Config} (hmax : 1 ≤ cfg.maxFiles) (now : Parts) (id : Nat) (b : Batch)
    {s : St} (hnd : NamesNodup s) :
    memberCount cfg (onBatch cfg okPlan now id b s).2.fs ≤ max cfg.maxFiles (memberCount cfg s.fs) := by
  rw [memberCount_congr (onBatch_names_after_acquire cfg now id b s)]
  exact memberCount_acquire hmax now id b hnd

end EmitModel.FileSet
