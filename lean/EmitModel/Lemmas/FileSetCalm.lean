/-
  Lemmas/FileSetCalm.lean — the ghost flag `faulted` means what it says: under a fault plan without short writes
  and crashes (`Calm`: every call succeeds or simply fails) it is never set.
-/
import EmitModel.Lemmas.FileSetRun

namespace EmitModel.FileSet

/-- Every call succeeds or fails cleanly: no short write, no crash. -/
def Calm (plan : Nat → Fault) : Prop := ∀ i, plan i = .ok ∨ plan i = .err

section
variable {plan : Nat → Fault}

theorem simpleOp_calm {α : Type} (hc : Calm plan) (s : St) (act : St → R α)
    (hact : (act s.tick).st.faulted = false) : (simpleOp plan s act).st.faulted = s.faulted ∨
      (simpleOp plan s act).st.faulted = false := by
  unfold simpleOp
  rcases hc s.op with h | h
  · simp only [h]; exact .inr hact
  · simp only [h]; exact .inl rfl

/-- Generic form used below: a `simpleOp` whose action leaves the flag alone leaves the flag alone. -/
theorem simpleOp_calm' {α : Type} (hc : Calm plan) (s : St) (act : St → R α)
    (hact : (act s.tick).st.faulted = s.faulted) : (simpleOp plan s act).st.faulted = s.faulted := by
  unfold simpleOp
  rcases hc s.op with h | h
  · simp only [h]; exact hact
  · simp only [h]; rfl

theorem createDirAll_calm (hc : Calm plan) (s : St) : (createDirAll plan s).st.faulted = s.faulted :=
  simpleOp_calm' hc s _ rfl

theorem readDir_calm (hc : Calm plan) (s : St) : (readDir plan s).st.faulted = s.faulted :=
  simpleOp_calm' hc s _ rfl

theorem flushFile_calm (hc : Calm plan) (s : St) : (flushFile plan s).st.faulted = s.faulted :=
  simpleOp_calm' hc s _ rfl

theorem fileLen_calm (hc : Calm plan) (n : List Nat) (s : St) : (fileLen plan n s).st.faulted = s.faulted :=
  simpleOp_calm' hc s _ (by split <;> rfl)

theorem openNew_calm (hc : Calm plan) (n : List Nat) (s : St) : (openNew plan n s).st.faulted = s.faulted :=
  simpleOp_calm' hc s _ (by split <;> rfl)

theorem syncParent_calm (hc : Calm plan) (s : St) : (syncParent plan s).st.faulted = s.faulted :=
  simpleOp_calm' hc s _ rfl

theorem openExisting_calm (hc : Calm plan) (n : List Nat) (s : St) :
    (openExisting plan n s).st.faulted = s.faulted :=
  simpleOp_calm' hc s _ (by split <;> rfl)

theorem syncAll_calm (hc : Calm plan) (n : List Nat) (s : St) : (syncAll plan n s).st.faulted = s.faulted :=
  simpleOp_calm' hc s _ (by split <;> rfl)

theorem removeFile_calm (hc : Calm plan) (n : List Nat) (s : St) : (removeFile plan n s).st.faulted = s.faulted :=
  simpleOp_calm' hc s _ (by split <;> rfl)

theorem writeAll_calm (hc : Calm plan) (n buf : List Nat) (s : St) :
    (writeAll plan n buf s).st.faulted = s.faulted := by
  unfold writeAll
  split
  · rfl
  · rcases hc s.op with h | h <;> simp only [h] <;> rfl

theorem readSet_calm (cfg : Config) (hc : Calm plan) (s : St) : (readSet cfg plan s).st.faulted = s.faulted := by
  have := readDir_calm hc s
  unfold readSet
  cases h : readDir plan s <;> simp only [h, R.st] at this ⊢ <;> exact this

theorem removeAll_calm (hc : Calm plan) (vs : List (List Nat)) :
    ∀ (s : St), (removeAll plan vs s).st.faulted = s.faulted := by
  induction vs with
  | nil => intro s; rfl
  | cons n ns ih =>
    intro s
    have h1 := removeFile_calm hc n s
    unfold removeAll
    cases h : removeFile plan n s with
    | ok u s1 => simp only [h, R.st] at h1 ⊢; exact (ih s1).trans h1
    | err s1 => simp only [h, R.st] at h1 ⊢; exact (ih s1).trans h1
    | crash s1 => simp only [h, R.st] at h1 ⊢; exact h1

theorem tryOpenReuse_calm (cfg : Config) (hc : Calm plan) (n : List Nat) (s : St) :
    (tryOpenReuse cfg plan n s).st.faulted = s.faulted := by
  unfold tryOpenReuse
  split
  · rfl
  · have h1 := openExisting_calm hc n s
    cases h : openExisting plan n s with
    | err s1 => simp only [h, R.st] at h1 ⊢; exact h1
    | crash s1 => simp only [h, R.st] at h1 ⊢; exact h1
    | ok u s1 =>
      simp only [h, R.st] at h1 ⊢
      have h2 := syncParent_calm hc s1
      cases h' : syncParent plan s1 with
      | err s2 => simp only [h', R.st] at h2 ⊢; exact h2.trans h1
      | crash s2 => simp only [h', R.st] at h2 ⊢; exact h2.trans h1
      | ok u s2 =>
        simp only [h', R.st] at h2 ⊢
        have h3 := fileLen_calm hc n s2
        cases h'' : fileLen plan n s2 <;> simp only [h'', R.st] at h3 ⊢ <;> exact (h3.trans h2).trans h1

theorem createFile_calm (cfg : Config) (hc : Calm plan) (now : Parts) (id : Nat) (set : List (List Nat)) (s : St) :
    (createFile cfg plan now id set s).st.faulted = s.faulted := by
  unfold createFile
  have h0 := removeAll_calm hc (victims (cfg.maxFiles - 1) set) s
  cases h : removeAll plan (victims (cfg.maxFiles - 1) set) s with
  | err s1 => simp only [h, R.st] at h0 ⊢; exact h0
  | crash s1 => simp only [h, R.st] at h0 ⊢; exact h0
  | ok u s1 =>
    simp only [h, R.st] at h0 ⊢
    simp only [memberTs?_nameFor]
    have h1 := openNew_calm hc (nameFor cfg.pfx cfg.ext cfg.rollBy now id) s1
    cases h' : openNew plan (nameFor cfg.pfx cfg.ext cfg.rollBy now id) s1 with
    | err s2 => simp only [h', R.st] at h1 ⊢; exact h1.trans h0
    | crash s2 => simp only [h', R.st] at h1 ⊢; exact h1.trans h0
    | ok u s2 =>
      simp only [h', R.st] at h1 ⊢
      have h2 := syncParent_calm hc s2
      cases h'' : syncParent plan s2 <;> simp only [h'', R.st] at h2 ⊢ <;> exact (h2.trans h1).trans h0

theorem openOrCreate_calm (cfg : Config) (hc : Calm plan) (now : Parts) (id : Nat) (b : Batch) (set : List (List Nat))
    (s : St) : (openOrCreate cfg plan now id b set s).st.faulted = s.faulted := by
  unfold openOrCreate
  split
  · exact createFile_calm cfg hc now id set s
  · rename_i n _
    have h1 := tryOpenReuse_calm cfg hc n s
    cases h : tryOpenReuse cfg plan n s with
    | crash s1 => simp only [h, R.st] at h1 ⊢; exact h1
    | err s1 => simp only [h, R.st] at h1 ⊢; exact (createFile_calm cfg hc now id set s1).trans h1
    | ok a1 s1 =>
      simp only [h, R.st] at h1
      by_cases hfit : fits cfg now b a1 = true
      · simp only [hfit, if_true, R.st]; exact h1
      · simp only [hfit, Bool.false_eq_true, if_false]; exact (createFile_calm cfg hc now id set s1).trans h1

theorem acquire_calm (cfg : Config) (hc : Calm plan) (now : Parts) (id : Nat) (b : Batch) (s : St) :
    (acquire cfg plan now id b s).st.faulted = s.faulted := by
  unfold acquire
  cases hs : s.active with
  | some a0 =>
    simp only []
    by_cases hfit : fits cfg now b a0 = true
    · simp only [hfit, if_true, R.st]
    · simp only [hfit]
      have h1 := readSet_calm cfg hc { s with active := none }
      cases h : readSet cfg plan { s with active := none } with
      | err s1 => simp only [h, R.st] at h1 ⊢; exact h1
      | crash s1 => simp only [h, R.st] at h1 ⊢; exact h1
      | ok set s1 => simp only [h, R.st] at h1 ⊢; exact (createFile_calm cfg hc now id set s1).trans h1
  | none =>
    simp only []
    have h1 := createDirAll_calm hc { s with active := none }
    cases h : createDirAll plan { s with active := none } with
    | err s1 => simp only [h, R.st] at h1 ⊢; exact h1
    | crash s1 => simp only [h, R.st] at h1 ⊢; exact h1
    | ok u s1 =>
      simp only [h, R.st] at h1 ⊢
      have h2 := readSet_calm cfg hc s1
      cases h' : readSet cfg plan s1 with
      | err s2 => simp only [h', R.st] at h2 ⊢; exact h2.trans h1
      | crash s2 => simp only [h', R.st] at h2 ⊢; exact h2.trans h1
      | ok set s2 =>
        simp only [h', R.st] at h2 ⊢
        exact ((openOrCreate_calm cfg hc now id b set s2).trans h2).trans h1

theorem writeEvent_calm (cfg : Config) (hc : Calm plan) (a : Active) (e : List Nat) (s : St) :
    (writeEvent cfg plan a e s).st.faulted = s.faulted := by
  unfold writeEvent
  by_cases hnr : a.needsRecovery = true
  · simp only [hnr, if_true]
    have h1 := writeAll_calm hc a.name cfg.sep s
    cases h : writeAll plan a.name cfg.sep s with
    | err s1 => simp only [h, R.st] at h1 ⊢; exact h1
    | crash s1 => simp only [h, R.st] at h1 ⊢; exact h1
    | ok u s1 =>
      simp only [h, R.st] at h1 ⊢
      have h2 := writeAll_calm hc a.name e s1
      cases h' : writeAll plan a.name e s1 <;> simp only [h', R.st] at h2 ⊢ <;> exact h2.trans h1
  · simp only [hnr, Bool.false_eq_true, if_false]
    have h2 := writeAll_calm hc a.name e s
    cases h' : writeAll plan a.name e s <;> simp only [h', R.st] at h2 ⊢ <;> exact h2

theorem writeEvents_calm (cfg : Config) (hc : Calm plan) (evs : List (List Nat)) :
    ∀ (a : Active) (b : Batch) (s : St), (writeEvents cfg plan a b s evs).2.2.faulted = s.faulted := by
  induction evs with
  | nil => intro a b s; rfl
  | cons e rest ih =>
    intro a b s
    have h1 := writeEvent_calm cfg hc a e s
    simp only [writeEvents]
    cases h : writeEvent cfg plan a e s with
    | err s1 => simp only [h, R.st] at h1 ⊢; exact h1
    | crash s1 => simp only [h, R.st] at h1 ⊢; exact h1
    | ok a1 s1 => simp only [h, R.st] at h1 ⊢; exact (ih a1 _ s1).trans h1

theorem syncWritten_calm (hc : Calm plan) (n : List Nat) (b b' : Batch) (s : St) :
    (syncWritten plan n b b' s).2.faulted = s.faulted := by
  unfold syncWritten
  split
  · have hf := flushFile_calm hc s
    cases hfl : flushFile plan s with
    | err s3 => simp only [hfl, R.st] at hf ⊢; exact hf
    | crash s3 => simp only [hfl, R.st] at hf ⊢; exact hf
    | ok u s3 =>
      simp only [hfl, R.st] at hf ⊢
      have hy := syncAll_calm hc n s3
      cases hs : syncAll plan n s3 <;> simp only [hs, R.st] at hy ⊢ <;> exact hy.trans hf
  · rfl

/-- Under a calm plan `on_batch` never sets the flag. -/
theorem onBatch_calm (cfg : Config) (hc : Calm plan) (now : Parts) (id : Nat) (b : Batch) (s : St) :
    (onBatch cfg plan now id b s).2.faulted = s.faulted := by
  have h0 := acquire_calm cfg hc now id b s
  unfold onBatch
  cases h : acquire cfg plan now id b s with
  | err s1 => simp only [h, R.st] at h0 ⊢; exact h0
  | crash s1 => simp only [h, R.st] at h0 ⊢; exact h0
  | ok a s1 =>
    simp only [h, R.st] at h0 ⊢
    have hw := writeEvents_calm cfg hc b.rest a b s1
    generalize writeEvents cfg plan a b s1 b.rest = w at hw
    obtain ⟨res, oa, s2⟩ := w
    simp only at hw
    cases res with
    | retry b' => cases oa <;> exact ((syncWritten_calm hc a.name b b' s2).trans hw).trans h0
    | noRetry => cases oa <;> exact hw.trans h0
    | crashed => cases oa <;> exact hw.trans h0
    | ok =>
      cases oa with
      | none => exact hw.trans h0
      | some a' =>
        simp only
        have hf := flushFile_calm hc s2
        cases hfl : flushFile plan s2 with
        | err s3 => simp only [hfl, R.st] at hf ⊢; exact (hf.trans hw).trans h0
        | crash s3 => simp only [hfl, R.st] at hf ⊢; exact (hf.trans hw).trans h0
        | ok u s3 =>
          simp only [hfl, R.st] at hf ⊢
          have hy := syncAll_calm hc a'.name s3
          cases hs : syncAll plan a'.name s3 <;> simp only [hs, R.st] at hy ⊢ <;> exact ((hy.trans hf).trans hw).trans h0

theorem run_calm (cfg : Config) (hc : Calm plan) (ops : List Op) :
    ∀ (s : St), (run cfg plan s ops).faulted = s.faulted := by
  induction ops with
  | nil => intro s; rfl
  | cons op ops ih =>
    intro s
    simp only [run, List.foldl_cons]
    have := ih (runOp cfg plan s op)
    simp only [run] at this
    refine this.trans ?_
    cases op with
    | batch now id b => exact onBatch_calm cfg hc now id b s
    | restart => rfl

end

end EmitModel.FileSet
