/-
  Lemmas/BatcherFrame.lean — what the channel steps OTHER than handing a batch to the processor and the conclusion of
  a call leave alone: the finalised items and the batch the receiver holds. Shared by the composite models of the
  emitters built on the channel (Model/FilePipe.lean, Model/OtlpPipe.lean).
-/
import EmitModel.Lemmas.Batcher

namespace EmitModel.Batcher

/-- The batch the receiver holds inside / between `on_batch` calls: (first-attempt items, items of the current or
    next call). -/
def Rx.held : Rx → Option (List Nat × List Nat)
  | .processing o c _ => some (o, c)
  | .retryWait o r _ => some (o, r)
  | _ => none

/-- Channel steps other than handing a batch to the processor and the conclusion of a call neither finalise
    anything nor change the batch the receiver holds (they may only end it, by tearing the receiver down). -/
theorem chan_frame (cfg : Cfg) (s s' : St) (l : Label) (ho : ∀ o, l ≠ .rxOutcome o) (hb : l ≠ .rxBegin)
    (hs : step cfg s l = some s') :
    s'.finalised = s.finalised ∧ (s'.rx.held = none ∨ s'.rx.held = s.rx.held) := by
  cases l
  case send x =>
    step_elim hs
    obtain ⟨e1, _⟩ := send_rx cfg s x
    refine ⟨?_, .inr (by rw [e1])⟩
    unfold send
    by_cases hc : s.pending.length ≥ cfg.cap <;> by_cases ho : s.isOpen <;> simp [hc, ho, truncate, push]
  case trySend x =>
    step_elim hs
    obtain ⟨e1, _⟩ := trySend_rx cfg s x
    refine ⟨?_, .inr (by rw [e1])⟩
    unfold trySend
    by_cases ho : s.isOpen <;> by_cases hc : s.pending.length < cfg.cap <;> simp [ho, hc, push]
  case rxOutcome o => exact absurd rfl (ho o)
  case rxBegin => exact absurd rfl hb
  all_goals
    step_elim hs
    all_goals (first | exact ⟨rfl, .inr rfl⟩ | exact ⟨rfl, .inl rfl⟩ | (constructor <;> simp_all [Rx.held]))

theorem held_afterNotify (ws : List Nat) : (afterNotify ws).held = none := by
  cases ws <;> rfl
/-- … nor the retry counter of the batch it holds. -/
theorem chan_frame_retry (cfg : Cfg) (s s' : St) (l : Label) (ho : ∀ o, l ≠ .rxOutcome o) (hb : l ≠ .rxBegin)
    (hs : step cfg s l = some s') : s'.retryCur = s.retryCur := by
  cases l
  case send x =>
    step_elim hs
    unfold send
    by_cases hc : s.pending.length ≥ cfg.cap <;> by_cases ho : s.isOpen <;> simp [hc, ho, truncate, push]
  case trySend x =>
    step_elim hs
    unfold trySend
    by_cases ho : s.isOpen <;> by_cases hc : s.pending.length < cfg.cap <;> simp [ho, hc, push]
  case rxOutcome o => exact absurd rfl (ho o)
  case rxBegin => exact absurd rfl hb
  all_goals
    step_elim hs
    all_goals rfl
/-- Everything a flush registration recorded as accepted stays in the accepted history, and the history only grows by
    the item of a send. -/
theorem accepted_step (cfg : Cfg) (s s' : St) (l : Label) (hs : step cfg s l = some s') :
    (∀ x ∈ s.accepted, x ∈ s'.accepted) ∧
    (∀ x ∈ s'.accepted, x ∈ s.accepted ∨ l = .send x ∨ l = .trySend x) ∧
    (∀ p ∈ s'.acceptedAt, p ∈ s.acceptedAt ∨ p.2 = s.accepted) := by
  cases l
  case send y =>
    step_elim hs
    unfold send
    by_cases hc : s.pending.length ≥ cfg.cap <;> by_cases ho : s.isOpen <;> simp [hc, ho, truncate, push] <;> grind
  case trySend y =>
    step_elim hs
    unfold trySend
    by_cases ho : s.isOpen <;> by_cases hc : s.pending.length < cfg.cap <;> simp [ho, hc, push] <;> grind
  all_goals
    step_elim hs
    all_goals (refine ⟨fun x hx => ?_, fun x hx => ?_, fun p hp => ?_⟩ <;> simp_all <;> grind)

structure InvAcc (s : St) : Prop where
  sub : ∀ p ∈ s.acceptedAt, ∀ x ∈ p.2, x ∈ s.accepted

theorem invAcc_reachable (cfg : Cfg) (s : St) (h : Reachable cfg s) : InvAcc s := by
  refine Sched.invariant_of_step (Inv := InvAcc) ⟨by simp [init]⟩ ?_ s h
  intro s l s' hi hs
  obtain ⟨h1, _, h3⟩ := accepted_step cfg s s' l hs
  refine ⟨fun p hp x hx => ?_⟩
  rcases h3 p hp with hp | hp
  · exact h1 x (hi.sub p hp x hx)
  · rw [hp] at hx; exact h1 x hx
theorem send_accepted (cfg : Cfg) (s : St) (x : Nat) :
    (send cfg s x).accepted = s.accepted ∨ (send cfg s x).accepted = s.accepted ++ [x] := by
  unfold send
  by_cases hc : s.pending.length ≥ cfg.cap <;> by_cases ho : s.isOpen <;> simp [hc, ho, truncate, push]
end EmitModel.Batcher
