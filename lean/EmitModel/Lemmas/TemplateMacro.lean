/-
  Lemmas/TemplateMacro.lean — helper lemmas and specification-level definitions for the macro half of C16.
    * `BraceOk`: what the fv_template scanner guarantees about a raw text fragment (`scan_ok`, `segments_ok`)
    * `unescape_replace2`: on such fragments, `replace("{{","{").replace("}}","}")` followed by Rust unescaping is the
      unit-by-unit reading `specText`
    * `specSeg` / `literalMeaning`: the meaning of a literal; `visitAll_spec`: the visitor's parts are that meaning
-/
import EmitModel.Model.TemplateMacro
import EmitModel.Lemmas.Template
namespace EmitModel.TemplateMacro
open EmitModel.Template

/-- Braces occur only as aligned doubled pairs. -/
inductive BraceOk : List Char → Prop
  | nil : BraceOk []
  | lbrace {r : List Char} : BraceOk r → BraceOk ('{' :: '{' :: r)
  | rbrace {r : List Char} : BraceOk r → BraceOk ('}' :: '}' :: r)
  | plain {c : Char} {r : List Char} : c ≠ '{' → c ≠ '}' → BraceOk r → BraceOk (c :: r)

def NoBrace (cs : List Char) : Prop := ∀ c ∈ cs, c ≠ '{' ∧ c ≠ '}'

theorem BraceOk.append {a b : List Char} (ha : BraceOk a) (hb : BraceOk b) : BraceOk (a ++ b) := by
  induction ha with
  | nil => exact hb
  | lbrace _ ih => exact .lbrace ih
  | rbrace _ ih => exact .rbrace ih
  | plain h1 h2 _ ih => exact .plain h1 h2 ih

theorem BraceOk.of_noBrace {cs : List Char} (h : NoBrace cs) : BraceOk cs := by
  induction cs with
  | nil => exact .nil
  | cons c r ih =>
    have := h c (by simp)
    exact .plain this.1 this.2 (ih fun d hd => h d (by simp [hd]))

theorem BraceOk.inv_lbrace {rest : List Char} (h : BraceOk ('{' :: rest)) : ∃ r, rest = '{' :: r ∧ BraceOk r := by
  cases h with
  | lbrace h => exact ⟨_, rfl, h⟩
  | plain h1 _ _ => exact absurd rfl h1

theorem BraceOk.inv_rbrace {rest : List Char} (h : BraceOk ('}' :: rest)) : ∃ r, rest = '}' :: r ∧ BraceOk r := by
  cases h with
  | rbrace h => exact ⟨_, rfl, h⟩
  | plain _ h2 _ => exact absurd rfl h2

theorem BraceOk.inv_plain {c : Char} {rest : List Char} (h : BraceOk (c :: rest)) (h1 : c ≠ '{') (h2 : c ≠ '}') :
    BraceOk rest := by
  cases h with
  | lbrace h => exact absurd rfl h1
  | rbrace h => exact absurd rfl h2
  | plain _ _ h => exact h

/-! ### `replace("{{", "{").replace("}}", "}")` on well-formed fragments -/

theorem replaceDouble_cons_ne (c a : Char) (t : List Char) (h : a ≠ c) :
    replaceDouble c (a :: t) = a :: replaceDouble c t := by
  cases t with
  | nil => simp [replaceDouble]
  | cons b r => simp [replaceDouble, h]

theorem replaceDouble_double (c : Char) (r : List Char) : replaceDouble c (c :: c :: r) = c :: replaceDouble c r := by
  simp [replaceDouble]

def replace2 (cs : List Char) : List Char := replaceDouble '}' (replaceDouble '{' cs)

theorem replace2_nil : replace2 [] = [] := by simp [replace2, replaceDouble]

theorem replace2_lbrace (r : List Char) : replace2 ('{' :: '{' :: r) = '{' :: replace2 r := by
  simp only [replace2, replaceDouble_double]
  exact replaceDouble_cons_ne _ _ _ (by decide)

theorem replace2_rbrace (r : List Char) : replace2 ('}' :: '}' :: r) = '}' :: replace2 r := by
  simp only [replace2]
  rw [replaceDouble_cons_ne '{' '}' _ (by decide), replaceDouble_cons_ne '{' '}' _ (by decide), replaceDouble_double]

theorem replace2_plain (c : Char) (r : List Char) (h1 : c ≠ '{') (h2 : c ≠ '}') : replace2 (c :: r) = c :: replace2 r := by
  simp only [replace2]
  rw [replaceDouble_cons_ne '{' c _ h1, replaceDouble_cons_ne '}' c _ h2]

theorem replace2_noBrace {cs : List Char} (h : NoBrace cs) : replace2 cs = cs := by
  induction cs with
  | nil => exact replace2_nil
  | cons c r ih =>
    have := h c (by simp)
    rw [replace2_plain c r this.1 this.2, ih fun d hd => h d (by simp [hd])]

/-! ### The meaning of a raw text fragment, read one unit at a time -/

/-- Reader state of the specification: between units, inside a backslash escape, or after one brace. -/
inductive SpecSt where
  | esc (st : EscSt)
  | lb
  | rb
  deriving Repr, DecidableEq

/-- Left to right, one character at a time: a backslash escape is the character it denotes, `{{` is `{`, `}}` is `}`,
    anything else is itself; a single brace or a broken escape has no meaning. -/
def specSt : SpecSt → List Char → Option (List Char)
  | .esc .normal, [] => some []
  | _, [] => none
  | .esc .normal, c :: r =>
    if c = '\\' then specSt (.esc .bs) r
    else if c = '{' then specSt .lb r
    else if c = '}' then specSt .rb r
    else (c :: ·) <$> specSt (.esc .normal) r
  | .lb, c :: r => if c = '{' then ('{' :: ·) <$> specSt (.esc .normal) r else none
  | .rb, c :: r => if c = '}' then ('}' :: ·) <$> specSt (.esc .normal) r else none
  | .esc .bs, e :: r =>
    if e = 'x' then specSt (.esc .x) r
    else match escChar e with
      | some ch => (ch :: ·) <$> specSt (.esc .normal) r
      | none => none
  | .esc .x, h :: r => specSt (.esc (.xh h)) r
  | .esc (.xh h), l :: r =>
    match hexEsc h l with
    | some ch => (ch :: ·) <$> specSt (.esc .normal) r
    | none => none

def specText (raw : List Char) : Option (List Char) := specSt (.esc .normal) raw

theorem hexEsc_lbrace_left (l : Char) : hexEsc '{' l = none := by
  have : hexVal '{' = none := by decide
  simp [hexEsc, this]
theorem hexEsc_rbrace_left (l : Char) : hexEsc '}' l = none := by
  have : hexVal '}' = none := by decide
  simp [hexEsc, this]
theorem hexEsc_lbrace_right (h : Char) : hexEsc h '{' = none := by
  have : hexVal '{' = none := by decide
  unfold hexEsc; rw [this]; cases hexVal h <;> rfl
theorem hexEsc_rbrace_right (h : Char) : hexEsc h '}' = none := by
  have : hexVal '}' = none := by decide
  unfold hexEsc; rw [this]; cases hexVal h <;> rfl

theorem unescapeSt_xh_lbrace (X : List Char) : unescapeSt (.xh '{') X = none := by
  cases X <;> simp [unescapeSt, hexEsc_lbrace_left]
theorem unescapeSt_xh_rbrace (X : List Char) : unescapeSt (.xh '}') X = none := by
  cases X <;> simp [unescapeSt, hexEsc_rbrace_left]

theorem unescape_replace2 {F : List Char} (hF : BraceOk F) :
    ∀ st, unescapeSt st (replace2 F) = specSt (.esc st) F := by
  induction hF with
  | nil =>
    intro st
    rw [replace2_nil]
    cases st <;> simp [unescapeSt, specSt]
  | @lbrace r _ ih =>
    intro st
    rw [replace2_lbrace]
    cases st with
    | normal => simp [unescapeSt, specSt, ih]
    | bs => simp [unescapeSt, specSt, escChar]
    | x => simp [unescapeSt, specSt, unescapeSt_xh_lbrace, hexEsc_lbrace_left]
    | xh h => simp [unescapeSt, specSt, hexEsc_lbrace_right]
  | @rbrace r _ ih =>
    intro st
    rw [replace2_rbrace]
    cases st with
    | normal => simp [unescapeSt, specSt, ih]
    | bs => simp [unescapeSt, specSt, escChar]
    | x => simp [unescapeSt, specSt, unescapeSt_xh_rbrace, hexEsc_rbrace_left]
    | xh h => simp [unescapeSt, specSt, hexEsc_rbrace_right]
  | @plain c r h1 h2 _ ih =>
    intro st
    rw [replace2_plain c r h1 h2]
    cases st with
    | normal =>
      by_cases hb : c = '\\'
      · simp [unescapeSt, specSt, hb, ih]
      · simp [unescapeSt, specSt, hb, h1, h2, ih]
    | bs =>
      by_cases hx : c = 'x'
      · simp [unescapeSt, specSt, hx, ih]
      · simp only [unescapeSt, specSt, hx, if_false, ih]
        cases escChar c <;> rfl
    | x => simp [unescapeSt, specSt, ih]
    | xh h =>
      simp only [unescapeSt, specSt, ih]
      cases hexEsc h c <;> rfl

theorem unescape_of_no_backslash (t : List Char) (h : t.contains '\\' = false) : unescape t = some t := by
  unfold unescape
  induction t with
  | nil => simp [unescapeSt]
  | cons c r ih =>
    simp only [List.contains_cons, Bool.or_eq_false_iff] at h
    have hc : c ≠ '\\' := by
      intro e; subst e; simp at h
    simp [unescapeSt, hc, ih h.2]

theorem unescapeText_eq (t : List Char) : unescapeText t = unescape t := by
  unfold unescapeText
  split
  · rfl
  · rename_i h
    rw [unescape_of_no_backslash t (by simpa using h)]

/-- What the scanner guarantees about a raw segment. -/
def SegOk : RawSeg → Prop
  | .text raw esc => BraceOk raw ∧ (esc = false → NoBrace raw)
  | .hole _ _ => True

theorem noBrace_append_single {cur : List Char} {c : Char} (h : NoBrace cur) (h1 : c ≠ '{') (h2 : c ≠ '}') :
    NoBrace (cur ++ [c]) := by
  intro d hd
  simp only [List.mem_append, List.mem_singleton] at hd
  rcases hd with hd | rfl
  · exact h d hd
  · exact ⟨h1, h2⟩

theorem flushText_ok {cur : List Char} {esc : Bool} (h1 : BraceOk cur) (h2 : esc = false → NoBrace cur) :
    ∀ s ∈ flushText cur esc, SegOk s := by
  intro s hs
  unfold flushText at hs
  split at hs
  · simp at hs
  · simp only [List.mem_singleton] at hs
    subst hs
    exact ⟨h1, h2⟩

theorem scan_ok : ∀ (n : Nat) (cs : List Char), cs.length ≤ n →
    (∀ cur esc segs, BraceOk cur → (esc = false → NoBrace cur) → textMode cur esc cs = some segs →
      ∀ s ∈ segs, SegOk s) ∧
    (∀ cur st segs, holeMode cur st cs = some segs → ∀ s ∈ segs, SegOk s) := by
  intro n
  induction n with
  | zero =>
    intro cs hn
    have : cs = [] := List.eq_nil_of_length_eq_zero (by omega)
    subst this
    refine ⟨?_, ?_⟩
    · intro cur esc segs h1 h2 h
      simp only [textMode, Option.some.injEq] at h
      subst h
      exact flushText_ok h1 h2
    · intro cur st segs h
      simp [holeMode] at h
  | succ n ih =>
    intro cs hn
    cases cs with
    | nil =>
      refine ⟨?_, ?_⟩
      · intro cur esc segs h1 h2 h
        simp only [textMode, Option.some.injEq] at h
        subst h
        exact flushText_ok h1 h2
      · intro cur st segs h
        simp [holeMode] at h
    | cons c rest =>
      have hrest : rest.length ≤ n := by simp at hn; omega
      refine ⟨?_, ?_⟩
      · intro cur esc segs h1 h2 h
        rw [textMode.eq_def] at h
        simp only at h
        have hr' : ∀ d rest', rest = d :: rest' → rest'.length ≤ n := by
          intro d rest' e; subst e; simp at hrest; omega
        split at h
        · -- c = '{'
          split at h
          · simp at h
          · rename_i d rest'
            split at h
            · exact (ih rest' (hr' d rest' rfl)).1 _ _ _ (h1.append (.lbrace .nil)) (by simp) h
            · simp only [Option.map_eq_map, Option.map_eq_some_iff] at h
              obtain ⟨tl, htl, rfl⟩ := h
              intro s hs
              simp only [List.mem_append] at hs
              rcases hs with hs | hs
              · exact flushText_ok h1 h2 s hs
              · exact (ih (d :: rest') hrest).2 _ _ _ htl s hs
        · split at h
          · -- c = '}'
            split at h
            · simp at h
            · rename_i d rest'
              split at h
              · exact (ih rest' (hr' d rest' rfl)).1 _ _ _ (h1.append (.rbrace .nil)) (by simp) h
              · simp at h
          · rename_i hc1 hc2
            refine (ih rest hrest).1 _ _ _ (h1.append (.plain hc1 hc2 .nil)) ?_ h
            intro he
            exact noBrace_append_single (h2 he) hc1 hc2
      · intro cur st segs h
        rw [holeMode.eq_def] at h
        simp only at h
        have hh := (ih rest hrest).2
        split at h
        · split at h
          · simp at h
          · simp only [Option.map_eq_map, Option.map_eq_some_iff] at h
            obtain ⟨tl, htl, rfl⟩ := h
            intro s hs
            simp only [List.mem_cons] at hs
            rcases hs with rfl | hs
            · trivial
            · exact (ih rest hrest).1 _ _ _ .nil (fun _ => by intro d hd; simp at hd) htl s hs
        · repeat' split at h
          all_goals first | exact hh _ _ _ h | simp at h

theorem segments_ok {src : List Char} {segs : List RawSeg} (h : segments src = some segs) : ∀ s ∈ segs, SegOk s := by
  unfold segments at h
  split at h
  · simp only [Option.some.injEq] at h
    subst h
    intro s hs
    simp only [List.mem_singleton] at hs
    subst hs
    exact ⟨.nil, fun _ => by intro d hd; simp at hd⟩
  · exact (scan_ok src.length src (Nat.le_refl _)).1 [] false segs .nil (fun _ => by intro d hd; simp at hd) h

/-! ### The literal's meaning -/

/-- The specification's reading of one raw segment, as a runtime part (formatters are not part of the meaning). -/
def specSeg : RawSeg → Option Part
  | .text raw _ => (specText raw).map fun t => Part.text (utf8 t)
  | .hole raw esc =>
    (parseHole (finishHole raw esc).length none (finishHole raw esc)).map fun lf => Part.hole (utf8 lf.1) none

def specAll : List RawSeg → Option (List Part)
  | [] => some []
  | s :: r =>
    match specSeg s, specAll r with
    | some p, some ps => some (p :: ps)
    | _, _ => none

/-- The meaning of a template literal: its holes (by label) and the text between them, text read unit by unit
    (`specText`); `none` when the literal is not a template (single brace, broken escape, unreadable hole). -/
def literalMeaning (src : List Char) : Option (List Seg) :=
  match segments src with
  | none => none
  | some segs => (specAll segs).map norm

def strip : Part → Part
  | .text t => .text t
  | .hole l _ => .hole l none

theorem norm_strip (ps : List Part) : norm (ps.map strip) = norm ps := by
  induction ps with
  | nil => rfl
  | cons p ps ih => cases p <;> simp [norm, strip, ih]

theorem visitSeg_spec (ext : List (List Char × List Char)) (s : RawSeg) (p : MPart) (hs : SegOk s)
    (h : visitSeg ext s = some p) (i : Nat) :
    ∃ q, specSeg s = some q ∧ ∀ r, (toPartsFrom i (p :: r)).map strip = q :: (toPartsFrom (i + 1) r).map strip := by
  cases s with
  | text raw esc =>
    obtain ⟨hb, hn⟩ := hs
    have hfin : finishText raw esc = replace2 raw := by
      unfold finishText
      cases esc with
      | true => rfl
      | false => simp [replace2_noBrace (hn rfl)]
    simp only [visitSeg, hfin, unescapeText_eq, unescape, unescape_replace2 hb, Option.map_eq_some_iff] at h
    obtain ⟨t, ht, rfl⟩ := h
    refine ⟨.text (utf8 t), ?_, ?_⟩
    · simp [specSeg, specText, ht]
    · intro r; simp [toPartsFrom, strip]
  | hole raw esc =>
    simp only [visitSeg] at h
    split at h
    · simp at h
    · rename_i label flags hp
      simp only [Option.some.injEq] at h
      subst h
      refine ⟨.hole (utf8 label) none, ?_, ?_⟩
      · simp [specSeg, hp]
      · intro r; simp [toPartsFrom, strip]

theorem visitAll_spec (ext : List (List Char × List Char)) :
    ∀ (segs : List RawSeg) (parts : List MPart) (i : Nat), (∀ s ∈ segs, SegOk s) → visitAll ext segs = some parts →
      specAll segs = some ((toPartsFrom i parts).map strip) := by
  intro segs
  induction segs with
  | nil =>
    intro parts i _ h
    simp only [visitAll, Option.some.injEq] at h
    subst h
    rfl
  | cons s r ih =>
    intro parts i hok h
    simp only [visitAll] at h
    split at h
    · rename_i p ps hp hps
      simp only [Option.some.injEq] at h
      subst h
      obtain ⟨q, hq, hcons⟩ := visitSeg_spec ext s p (hok s (by simp)) hp i
      have := ih ps (i + 1) (fun s' hs' => hok s' (by simp [hs'])) hps
      simp only [specAll, hq, this, hcons]
    · simp at h

/-- Text without braces is scanned as one fragment. -/
theorem textMode_plain (cs cur : List Char) (esc : Bool) (h : NoBrace cs) :
    textMode cur esc cs = some (flushText (cur ++ cs) esc) := by
  induction cs generalizing cur with
  | nil => simp [textMode]
  | cons c r ih =>
    have hc := h c (by simp)
    rw [textMode.eq_def]
    simp only [hc.1, hc.2, if_false]
    rw [ih (cur ++ [c]) (fun d hd => h d (by simp [hd]))]
    simp

/-- No hole of the literal carries `#[emit::fmt]` flags. -/
def NoFlags (parts : List MPart) : Prop := ∀ l f, MPart.hole l f ∈ parts → f = none

theorem noFmt_toParts (parts : List MPart) (h : NoFlags parts) : NoFmt (toParts parts) := by
  unfold toParts
  generalize 0 = i
  induction parts generalizing i with
  | nil => intro l f hm; simp [toPartsFrom] at hm
  | cons p ps ih =>
    have h' : NoFlags ps := fun l f hm => h l f (by simp [hm])
    cases p with
    | text t =>
      intro l f hm
      simp only [toPartsFrom, List.mem_cons, reduceCtorEq, false_or] at hm
      exact ih h' (i + 1) l f hm
    | hole l0 f0 =>
      have hf : f0 = none := h l0 f0 (by simp)
      subst hf
      intro l f hm
      simp only [toPartsFrom, Option.map_none, List.mem_cons, Part.hole.injEq] at hm
      rcases hm with ⟨_, rfl⟩ | hm
      · rfl
      · exact ih h' (i + 1) l f hm

end EmitModel.TemplateMacro
