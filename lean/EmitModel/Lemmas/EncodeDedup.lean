/-
  Lemmas/EncodeDedup.lean — C13. `Props::dedup()` as modelled in Model/Value.lean: the result has pairwise
  distinct keys, the same key set as the input, and maps every key to its FIRST value.
-/
import EmitModel.Model.Value

namespace EmitModel.Encode
open Std

variable {α : Type}

def keys (ps : List (String × α)) : List String := ps.map Prod.fst

def SortedKeys : List (String × α) → Prop
  | [] => True
  | (k, _) :: rest => (∀ p ∈ rest, compare k p.1 = .lt) ∧ SortedKeys rest

theorem lt_ne {a b : String} (h : compare a b = .lt) : a ≠ b := by
  intro e; subst e; simp [ReflCmp.compare_self] at h

theorem gt_ne {a b : String} (h : compare a b = .gt) : a ≠ b := by
  intro e; subst e; simp [ReflCmp.compare_self] at h

theorem gt_swap {a b : String} (h : compare a b = .gt) : compare b a = .lt := by
  rw [OrientedCmp.eq_swap (cmp := (compare : String → String → Ordering))]; simp [h]

theorem insertFirst_mem (k : String) (v : α) : ∀ (m : List (String × α)) (p : String × α),
    p ∈ insertFirst k v m → p = (k, v) ∨ p ∈ m
  | [], p, h => by simp [insertFirst] at h; exact Or.inl h
  | (k', v') :: rest, p, h => by
    simp only [insertFirst] at h
    split at h
    · simp only [List.mem_cons] at h ⊢
      rcases h with h | h | h
      · exact Or.inl h
      · exact Or.inr (Or.inl h)
      · exact Or.inr (Or.inr h)
    · exact Or.inr h
    · simp only [List.mem_cons] at h ⊢
      rcases h with h | h
      · exact Or.inr (Or.inl h)
      · rcases insertFirst_mem k v rest p h with h | h
        · exact Or.inl h
        · exact Or.inr (Or.inr h)

theorem insertFirst_sorted (k : String) (v : α) : ∀ (m : List (String × α)), SortedKeys m →
    SortedKeys (insertFirst k v m)
  | [], _ => by simp [insertFirst, SortedKeys]
  | (k', v') :: rest, h => by
    simp only [insertFirst]
    split
    · rename_i hc
      refine ⟨?_, h⟩
      intro p hp
      rcases List.mem_cons.mp hp with hp | hp
      · subst hp; exact hc
      · exact TransCmp.lt_trans hc (h.1 p hp)
    · exact h
    · rename_i hc
      refine ⟨?_, insertFirst_sorted k v rest h.2⟩
      intro p hp
      rcases insertFirst_mem k v rest p hp with hp | hp
      · subst hp; exact gt_swap hc
      · exact h.1 p hp

theorem lookupFirst_none_of_lt (k : String) : ∀ (m : List (String × α)), (∀ p ∈ m, compare k p.1 = .lt) →
    lookupFirst k m = none
  | [], _ => rfl
  | (k', v') :: rest, h => by
    simp only [lookupFirst]
    have h1 : k' ≠ k := fun e => lt_ne (h (k', v') (by simp)) e.symm
    simp only [h1, if_false]
    exact lookupFirst_none_of_lt k rest (fun p hp => h p (List.mem_cons_of_mem _ hp))

/-- looking a key up after an insert-if-absent: an existing entry wins, else the inserted one -/
theorem lookup_insertFirst (k : String) (v : α) (q : String) : ∀ (m : List (String × α)), SortedKeys m →
    lookupFirst q (insertFirst k v m) =
      match lookupFirst q m with
      | some x => some x
      | none => if k = q then some v else none
  | [], _ => by simp [insertFirst, lookupFirst]
  | (k', v') :: rest, h => by
    simp only [insertFirst]
    split
    · rename_i hc
      -- k < k' : k is new and goes in front
      simp only [lookupFirst]
      by_cases hq : k = q
      · subst hq
        have h1 : k' ≠ k := fun e => lt_ne hc e.symm
        have h2 : lookupFirst k rest = none :=
          lookupFirst_none_of_lt k rest (fun p hp => TransCmp.lt_trans hc (h.1 p hp))
        simp [h1, h2]
      · simp only [hq, if_false]
        by_cases hq' : k' = q
        · simp [hq']
        · simp only [hq', if_false]
          cases lookupFirst q rest <;> simp
    · rename_i hc
      -- k = k' : nothing changes
      have hk : k = k' := LawfulEqCmp.eq_of_compare hc
      subst hk
      simp only [lookupFirst]
      by_cases hq : k = q
      · simp [hq]
      · simp only [hq, if_false]
        cases lookupFirst q rest <;> simp
    · rename_i hc
      simp only [lookupFirst]
      by_cases hq' : k' = q
      · simp [hq']
      · simp only [hq', if_false]
        exact lookup_insertFirst k v q rest h.2

theorem insertFirst_keys (k : String) (v : α) (q : String) : ∀ (m : List (String × α)),
    q ∈ keys (insertFirst k v m) ↔ q = k ∨ q ∈ keys m
  | [] => by simp [insertFirst, keys]
  | (k', v') :: rest => by
    simp only [insertFirst]
    split
    · simp [keys]
    · rename_i hc
      have hk : k = k' := LawfulEqCmp.eq_of_compare hc
      subst hk
      simp [keys]
    · have ih := insertFirst_keys k v q rest
      simp only [keys, List.map_cons, List.mem_cons] at ih ⊢
      rw [ih]
      constructor
      · rintro (h | h | h)
        · exact Or.inr (Or.inl h)
        · exact Or.inl h
        · exact Or.inr (Or.inr h)
      · rintro (h | h | h)
        · exact Or.inr (Or.inl h)
        · exact Or.inl h
        · exact Or.inr (Or.inr h)

theorem dedupSorted_sorted : ∀ (ps acc : List (String × α)), SortedKeys acc → SortedKeys (dedupSorted acc ps)
  | [], acc, h => by simpa [dedupSorted] using h
  | (k, v) :: rest, acc, h => by
    simp only [dedupSorted]
    exact dedupSorted_sorted rest _ (insertFirst_sorted k v acc h)

theorem dedupSorted_lookup (q : String) : ∀ (ps acc : List (String × α)), SortedKeys acc →
    lookupFirst q (dedupSorted acc ps) =
      match lookupFirst q acc with
      | some x => some x
      | none => lookupFirst q ps
  | [], acc, _ => by
    simp only [dedupSorted, lookupFirst]
    cases lookupFirst q acc <;> rfl
  | (k, v) :: rest, acc, h => by
    simp only [dedupSorted]
    rw [dedupSorted_lookup q rest _ (insertFirst_sorted k v acc h), lookup_insertFirst k v q acc h]
    simp only [lookupFirst]
    cases lookupFirst q acc with
    | some x => rfl
    | none =>
      by_cases hq : k = q
      · simp [hq]
      · simp [hq]

theorem dedupSorted_keys (q : String) : ∀ (ps acc : List (String × α)),
    q ∈ keys (dedupSorted acc ps) ↔ q ∈ keys acc ∨ q ∈ keys ps
  | [], acc => by simp [dedupSorted, keys]
  | (k, v) :: rest, acc => by
    simp only [dedupSorted]
    rw [dedupSorted_keys q rest, insertFirst_keys]
    simp only [keys, List.map_cons, List.mem_cons]
    constructor
    · rintro ((h | h) | h)
      · exact Or.inr (Or.inl h)
      · exact Or.inl h
      · exact Or.inr (Or.inr h)
    · rintro (h | h | h)
      · exact Or.inl (Or.inr h)
      · exact Or.inl (Or.inl h)
      · exact Or.inr h

theorem sorted_nodup : ∀ (m : List (String × α)), SortedKeys m → (keys m).Nodup
  | [], _ => by simp [keys]
  | (k, v) :: rest, h => by
    simp only [keys, List.map_cons, List.nodup_cons]
    refine ⟨?_, sorted_nodup rest h.2⟩
    intro hm
    rcases List.mem_map.mp hm with ⟨p, hp, he⟩
    exact lt_ne (h.1 p hp) he.symm

/-- the collection answers `is_unique()` truthfully -/
def UniqueOk (unique : Bool) (ps : List (String × α)) : Prop := unique = true → (keys ps).Nodup

theorem dedup_nodup (u : Bool) (ps : List (String × α)) (h : UniqueOk u ps) : (keys (dedup u ps)).Nodup := by
  unfold dedup
  split
  · rename_i hu; exact h hu
  · exact sorted_nodup _ (dedupSorted_sorted ps [] (by simp [SortedKeys]))

theorem dedup_lookup (u : Bool) (ps : List (String × α)) (q : String) :
    lookupFirst q (dedup u ps) = lookupFirst q ps := by
  unfold dedup
  split
  · rfl
  · rw [dedupSorted_lookup q ps [] (by simp [SortedKeys])]
    simp [lookupFirst]

theorem dedup_keys (u : Bool) (ps : List (String × α)) (q : String) :
    q ∈ keys (dedup u ps) ↔ q ∈ keys ps := by
  unfold dedup
  split
  · rfl
  · rw [dedupSorted_keys q ps []]
    simp [keys]

/-! ### lookups on lists with distinct keys -/

theorem lookupFirst_of_mem : ∀ (m : List (String × α)), (keys m).Nodup → ∀ k v, (k, v) ∈ m →
    lookupFirst k m = some v
  | [], _, _, _, h => by simp at h
  | (k', v') :: rest, hnd, k, v, h => by
    simp only [keys, List.map_cons, List.nodup_cons] at hnd
    simp only [lookupFirst]
    rcases List.mem_cons.mp h with h | h
    · cases h; simp
    · have hk : k' ≠ k := by
        intro e; subst e
        exact hnd.1 (List.mem_map.mpr ⟨(k', v), h, rfl⟩)
      simp only [hk, if_false]
      exact lookupFirst_of_mem rest hnd.2 k v h

theorem mem_of_lookupFirst : ∀ (m : List (String × α)) k v, lookupFirst k m = some v → (k, v) ∈ m
  | [], _, _, h => by simp [lookupFirst] at h
  | (k', v') :: rest, k, v, h => by
    simp only [lookupFirst] at h
    split at h
    · rename_i hk; cases h; subst hk; simp
    · exact List.mem_cons_of_mem _ (mem_of_lookupFirst rest k v h)

theorem lookupFirst_none_iff : ∀ (m : List (String × α)) k, lookupFirst k m = none ↔ k ∉ keys m
  | [], _ => by simp [lookupFirst, keys]
  | (k', v') :: rest, k => by
    simp only [lookupFirst, keys, List.map_cons, List.mem_cons, not_or]
    split
    · rename_i hk; simp [hk]
    · rename_i hk
      have := lookupFirst_none_iff rest k
      simp only [keys] at this
      rw [this]
      constructor
      · intro h; exact ⟨fun e => hk e.symm, h⟩
      · intro h; exact h.2

end EmitModel.Encode
