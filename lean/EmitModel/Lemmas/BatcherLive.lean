/-
  Lemmas/BatcherLive.lean — bounded liveness of the receiver (C08) by ranking functions over `Base/Sched.progress_within`:
  `phase` (distance to the loop head), ranks for flush callbacks, `when_empty` callbacks, pending items and the drain
  after the sender is dropped; `InvDrain` (the state once the receiver has returned).
-/
import EmitModel.Lemmas.BatcherBound
import EmitModel.Lemmas.BatcherCover
namespace EmitModel.Batcher
open EmitModel.Sched

/-- Receiver steps of one full pass of the loop in the worst case: take, begin, `1 + retryMax` calls with
    `retryMax` back-off waits in between. -/
def cycle (cfg : Cfg) : Nat := 2 * cfg.retryMax + 3

/-- Upper bound on the receiver LOOP steps (callback invocations not counted) until the receiver is back at the
    head of its loop (or has returned); `c` = `Retry.current`. -/
def phaseRx (cfg : Cfg) (c : Nat) : Rx → Nat
  | .idle => 0
  | .taken b _ _ o => if b.length > 0 then 2 * cfg.retryMax + 2 else if o then 2 else 1
  | .processing _ _ _ => 2 * (cfg.retryMax - c) + 1
  | .retryWait _ _ _ => 2 * (cfg.retryMax - c) + 2
  | .notifying _ => 0
  | .idleWait => 1
  | .done => 0

def phase (cfg : Cfg) (s : St) : Nat := phaseRx cfg s.retryCur s.rx

@[simp] theorem phaseRx_idle (cfg : Cfg) (c : Nat) : phaseRx cfg c .idle = 0 := rfl
@[simp] theorem phaseRx_taken (cfg : Cfg) (c : Nat) (b tw fw : List Nat) (o : Bool) :
    phaseRx cfg c (.taken b tw fw o) = if b.length > 0 then 2 * cfg.retryMax + 2 else if o then 2 else 1 := rfl
@[simp] theorem phaseRx_processing (cfg : Cfg) (c : Nat) (a b ws : List Nat) :
    phaseRx cfg c (.processing a b ws) = 2 * (cfg.retryMax - c) + 1 := rfl
@[simp] theorem phaseRx_retryWait (cfg : Cfg) (c : Nat) (a b ws : List Nat) :
    phaseRx cfg c (.retryWait a b ws) = 2 * (cfg.retryMax - c) + 2 := rfl
@[simp] theorem phaseRx_notifying (cfg : Cfg) (c : Nat) (ws : List Nat) : phaseRx cfg c (.notifying ws) = 0 := rfl
@[simp] theorem phaseRx_idleWait (cfg : Cfg) (c : Nat) : phaseRx cfg c .idleWait = 1 := rfl
@[simp] theorem phaseRx_done (cfg : Cfg) (c : Nat) : phaseRx cfg c .done = 0 := rfl
@[simp] theorem phaseRx_afterNotify (cfg : Cfg) (c : Nat) (ws : List Nat) : phaseRx cfg c (afterNotify ws) = 0 := by
  cases ws <;> rfl

theorem phase_le (cfg : Cfg) (s : St) (h : InvBound cfg s) : phase cfg s ≤ 2 * cfg.retryMax + 2 := by
  unfold phase
  cases hrx : s.rx
  case retryWait o r w => have := (h.rwait o r w hrx); simp; omega
  case taken b tw fw o => simp; split <;> (try split) <;> omega
  all_goals simp <;> omega

/-- Every receiver loop step not taken from the loop head brings the receiver strictly closer to it. -/
theorem phase_step_rx (cfg : Cfg) (s : St) (l : Label) (s' : St) (h : InvBound cfg s) (hl : l.isRx = true)
    (hne : s.rx ≠ .idle) (hs : step cfg s l = some s') : phase cfg s' < phase cfg s := by
  have hp : ∀ o c w, s.rx = .processing o c w → s.retryCur ≤ cfg.retryMax := fun o c w e => (h.proc o c w e).1
  have hw : ∀ o c w, s.rx = .retryWait o c w → s.retryCur ≤ cfg.retryMax ∧ 1 ≤ s.retryCur :=
    fun o c w e => ⟨(h.rwait o c w e).1, (h.rwait o c w e).2.1⟩
  cases l <;> simp [Label.isRx] at hl
  all_goals
    step_elim hs
    all_goals
      simp_all [phase]
      try omega

/-- The individual callback invocations. -/
def Label.isFire : Label → Bool
  | .rxFireTake | .rxFireFlush => true
  | _ => false

/-- A callback invocation does not move the receiver along its loop. -/
theorem fire_step_phase (cfg : Cfg) (s : St) (l : Label) (s' : St) (hf : l.isFire = true)
    (hs : step cfg s l = some s') :
    phase cfg s' = phase cfg s ∧ s'.tornDown = s.tornDown ∧ s'.rx.takenBatch = s.rx.takenBatch ∧
    s'.pending = s.pending ∧ s'.senderAlive = s.senderAlive ∧ s'.isOpen = s.isOpen := by
  cases l <;> simp [Label.isFire] at hf
  all_goals
    step_elim hs
    all_goals simp_all [phase]

/-- Steps of the environment (senders, flushers, dropping the sender) leave the receiver where it is. -/
theorem env_step_rx (cfg : Cfg) (s : St) (l : Label) (s' : St) (hl : l.isRx = false) (hf : l.isFire = false)
    (hd : l ≠ .dropReceiver)
    (hs : step cfg s l = some s') : s'.rx = s.rx ∧ s'.retryCur = s.retryCur ∧ s'.tornDown = s.tornDown := by
  cases l <;> simp [Label.isRx, Label.isFire] at hl hd hf
  case send x => step_elim hs; exact ⟨(send_bound cfg s x).1, (send_bound cfg s x).2.1, (send_reg cfg s x).2⟩
  case trySend x =>
    step_elim hs; exact ⟨(trySend_bound cfg s x).1, (trySend_bound cfg s x).2.1, (trySend_reg cfg s x).2⟩
  all_goals
    step_elim hs
    all_goals simp

theorem env_step_phase (cfg : Cfg) (s : St) (l : Label) (s' : St) (hl : l.isRx = false) (hf : l.isFire = false)
    (hd : l ≠ .dropReceiver)
    (hs : step cfg s l = some s') : phase cfg s' = phase cfg s := by
  obtain ⟨e1, e2, _⟩ := env_step_rx cfg s l s' hl hf hd hs
  simp [phase, e1, e2]

theorem dropReceiver_tornDown (cfg : Cfg) (s s' : St) (hs : step cfg s .dropReceiver = some s') :
    s'.tornDown = true := by
  step_elim hs <;> rfl

theorem tornDown_mono (cfg : Cfg) (s : St) (l : Label) (s' : St) (h : s.tornDown = true)
    (hs : step cfg s l = some s') : s'.tornDown = true := by
  cases l
  case send x => step_elim hs; rw [(send_reg cfg s x).2]; exact h
  case trySend x => step_elim hs; rw [(trySend_reg cfg s x).2]; exact h
  all_goals
    step_elim hs
    all_goals simp_all


theorem send_fired' (cfg : Cfg) (s : St) (x : Nat) : (send cfg s x).fired = s.fired := by
  unfold send
  by_cases hc : s.pending.length ≥ cfg.cap <;> by_cases ho : s.isOpen <;> simp [hc, ho, truncate, push]

theorem trySend_fired' (cfg : Cfg) (s : St) (x : Nat) : (trySend cfg s x).1.fired = s.fired := by
  unfold trySend
  by_cases ho : s.isOpen <;> by_cases hc : s.pending.length < cfg.cap <;> simp [ho, hc, push]

theorem fired_mono_step' (cfg : Cfg) (s : St) (l : Label) (s' : St) (w : Nat) (h : w ∈ s.fired)
    (hs : step cfg s l = some s') : w ∈ s'.fired := by
  cases l
  case send x => step_elim hs; rw [send_fired' cfg s x]; exact h
  case trySend x => step_elim hs; rw [trySend_fired' cfg s x]; exact h
  all_goals
    step_elim hs
    all_goals simp_all

/-! ### Flush callbacks fire within a bounded number of receiver steps -/

/-- Rank of flush watcher `w`: the receiver steps still needed, at worst, before its callback runs. -/
def rankF (cfg : Cfg) (w : Nat) (s : St) : Nat :=
  if w ∈ s.rx.ws then phase cfg s else phase cfg s + cycle cfg

def GoalF (w : Nat) (s : St) : Prop := w ∈ s.fired ∨ s.tornDown = true

/-- `w` is waiting somewhere (or is through). -/
def InvLiveF (cfg : Cfg) (w : Nat) (s : St) : Prop :=
  InvBound cfg s ∧ (GoalF w s ∨ w ∈ s.pendFlushW ∨ w ∈ s.rx.ws)

theorem send_pendF (cfg : Cfg) (s : St) (x : Nat) :
    (send cfg s x).pendFlushW = s.pendFlushW ∧ (send cfg s x).pendTakeW = s.pendTakeW := by
  unfold send
  by_cases hc : s.pending.length ≥ cfg.cap <;> by_cases ho : s.isOpen <;> simp [hc, ho, truncate, push]

theorem trySend_pendF (cfg : Cfg) (s : St) (x : Nat) :
    (trySend cfg s x).1.pendFlushW = s.pendFlushW ∧ (trySend cfg s x).1.pendTakeW = s.pendTakeW := by
  unfold trySend
  by_cases ho : s.isOpen <;> by_cases hc : s.pending.length < cfg.cap <;> simp [ho, hc, push]

theorem invLiveF_step (cfg : Cfg) (w : Nat) (s : St) (l : Label) (s' : St) (h : InvLiveF cfg w s)
    (hs : step cfg s l = some s') : InvLiveF cfg w s' := by
  refine ⟨invBound_step cfg s l s' h.1 hs, ?_⟩
  obtain ⟨_, hloc⟩ := h
  cases l
  case send x =>
    step_elim hs
    rw [(send_pendF cfg s x).1, (send_bound cfg s x).1]
    unfold GoalF at *
    rw [(send_fired' cfg s x), (send_reg cfg s x).2]
    exact hloc
  case trySend x =>
    step_elim hs
    rw [(trySend_pendF cfg s x).1, (trySend_bound cfg s x).1]
    unfold GoalF at *
    rw [(trySend_fired' cfg s x), (trySend_reg cfg s x).2]
    exact hloc
  all_goals
    step_elim hs
    all_goals
      simp_all [GoalF]
      try grind


theorem goalF_stable (cfg : Cfg) (w : Nat) (s : St) (l : Label) (s' : St) (hg : GoalF w s)
    (hs : step cfg s l = some s') : GoalF w s' := by
  rcases hg with hg | hg
  · exact Or.inl (fired_mono_step' cfg s l s' w hg hs)
  · exact Or.inr (tornDown_mono cfg s l s' hg hs)

theorem rankF_env (cfg : Cfg) (w : Nat) (s : St) (l : Label) (s' : St) (hl : l.isRx = false)
    (hs : step cfg s l = some s') : GoalF w s' ∨ rankF cfg w s' ≤ rankF cfg w s := by
  by_cases hd : l = .dropReceiver
  · subst hd; exact Or.inl (Or.inr (dropReceiver_tornDown cfg s s' hs))
  by_cases hf : l.isFire = true
  · -- a callback runs: it is `w` (goal), or `w` stays where it is
    have hp := (fire_step_phase cfg s l s' hf hs).1
    cases l <;> simp [Label.isFire] at hf
    all_goals
      step_elim hs
      all_goals
        simp_all [rankF, GoalF, phase]
        try grind
  · right
    simp only [Bool.not_eq_true] at hf
    have hp := env_step_phase cfg s l s' hl hf hd hs
    have hr := (env_step_rx cfg s l s' hl hf hd hs).1
    simp [rankF, hp, hr]

theorem rankF_rx (cfg : Cfg) (w : Nat) (s : St) (l : Label) (s' : St) (h : InvLiveF cfg w s) (hg : ¬ GoalF w s)
    (hl : l.isRx = true) (hs : step cfg s l = some s') : GoalF w s' ∨ rankF cfg w s' < rankF cfg w s := by
  obtain ⟨hb, hloc⟩ := h
  have hloc : w ∈ s.pendFlushW ∨ w ∈ s.rx.ws := by
    rcases hloc with a | a
    · exact absurd a hg
    · exact a
  by_cases hidle : s.rx = .idle
  · -- the only receiver step at the loop head is the hand-off: `w` moves from the pending batch to the receiver
    have hb' := invBound_step cfg s l s' hb hs
    have hle := phase_le cfg s' hb'
    cases l <;> simp [Label.isRx] at hl
    all_goals (step_elim hs <;> simp_all [rankF, phase, cycle, GoalF] <;> omega)
  · have hlt := phase_step_rx cfg s l s' hb hl hidle hs
    by_cases hws : w ∈ s.rx.ws
    · -- attached to the batch the receiver holds: stays attached or fires
      cases l <;> simp [Label.isRx] at hl
      all_goals
        step_elim hs
        all_goals
          simp_all [rankF, GoalF]
    · right
      have hw' : w ∉ s'.rx.ws := by
        cases l <;> simp [Label.isRx] at hl
        all_goals (step_elim hs <;> simp_all)
      simp [rankF, hws, hw']; omega


theorem rankF_le (cfg : Cfg) (w : Nat) (s : St) (h : InvBound cfg s) : rankF cfg w s ≤ 4 * cfg.retryMax + 5 := by
  have := phase_le cfg s h
  unfold rankF cycle
  split <;> omega

/-- **Bounded liveness of flush callbacks** (no fairness assumption: the bound counts receiver steps that
    occur). From any state in which `w` is attached to the pending batch or to the batch the receiver holds,
    every execution — any sender steps interleaved, any outcomes — that contains more than `4·retryMax + 5`
    receiver steps has run the callback of `w`, unless the receiver was torn down. -/
theorem flush_fires_within (cfg : Cfg) (w : Nat) (s : St) (hb : InvBound cfg s)
    (hloc : w ∈ s.pendFlushW ∨ w ∈ s.rx.ws) (ls : List Label) (s' : St)
    (hrun : run (step cfg) s ls = some s') (hk : 4 * cfg.retryMax + 5 < countSel Label.isRx ls) :
    w ∈ s'.fired ∨ s'.tornDown = true := by
  have hr := rankF_le cfg w s hb
  exact progress_within (Inv := InvLiveF cfg w) (Goal := GoalF w) (isRx := Label.isRx) (rank := rankF cfg w)
    (fun a l b ia st => invLiveF_step cfg w a l b ia st)
    (fun a l b _ ga st => goalF_stable cfg w a l b ga st)
    (fun a l b ia ng hl st => rankF_rx cfg w a l b ia ng hl st)
    (fun a l b _ _ hl st => rankF_env cfg w a l b hl st)
    ls s s' ⟨hb, Or.inr hloc⟩ hrun (by omega)

/-! ### `when_empty` callbacks -/

def rankT (cfg : Cfg) (w : Nat) (s : St) : Nat :=
  if w ∈ s.rx.takeWs then 1 else phase cfg s + 2

def GoalT (w : Nat) (s : St) : Prop := w ∈ s.firedTake ∨ s.tornDown = true

def InvLiveT (cfg : Cfg) (w : Nat) (s : St) : Prop :=
  InvBound cfg s ∧ (GoalT w s ∨ w ∈ s.pendTakeW ∨ w ∈ s.rx.takeWs)

theorem send_firedTake (cfg : Cfg) (s : St) (x : Nat) : (send cfg s x).firedTake = s.firedTake := by
  unfold send
  by_cases hc : s.pending.length ≥ cfg.cap <;> by_cases ho : s.isOpen <;> simp [hc, ho, truncate, push]

theorem trySend_firedTake (cfg : Cfg) (s : St) (x : Nat) : (trySend cfg s x).1.firedTake = s.firedTake := by
  unfold trySend
  by_cases ho : s.isOpen <;> by_cases hc : s.pending.length < cfg.cap <;> simp [ho, hc, push]

theorem firedTake_mono_step (cfg : Cfg) (s : St) (l : Label) (s' : St) (w : Nat) (h : w ∈ s.firedTake)
    (hs : step cfg s l = some s') : w ∈ s'.firedTake := by
  cases l
  case send x => step_elim hs; rw [send_firedTake cfg s x]; exact h
  case trySend x => step_elim hs; rw [trySend_firedTake cfg s x]; exact h
  all_goals
    step_elim hs
    all_goals simp_all

theorem invLiveT_step (cfg : Cfg) (w : Nat) (s : St) (l : Label) (s' : St) (h : InvLiveT cfg w s)
    (hs : step cfg s l = some s') : InvLiveT cfg w s' := by
  refine ⟨invBound_step cfg s l s' h.1 hs, ?_⟩
  obtain ⟨_, hloc⟩ := h
  cases l
  case send x =>
    step_elim hs
    rw [(send_pendF cfg s x).2, (send_bound cfg s x).1]
    unfold GoalT at *
    rw [(send_firedTake cfg s x), (send_reg cfg s x).2]
    exact hloc
  case trySend x =>
    step_elim hs
    rw [(trySend_pendF cfg s x).2, (trySend_bound cfg s x).1]
    unfold GoalT at *
    rw [(trySend_firedTake cfg s x), (trySend_reg cfg s x).2]
    exact hloc
  all_goals
    step_elim hs
    all_goals
      simp_all [GoalT]
      try grind

theorem goalT_stable (cfg : Cfg) (w : Nat) (s : St) (l : Label) (s' : St) (hg : GoalT w s)
    (hs : step cfg s l = some s') : GoalT w s' := by
  rcases hg with hg | hg
  · exact Or.inl (firedTake_mono_step cfg s l s' w hg hs)
  · exact Or.inr (tornDown_mono cfg s l s' hg hs)

theorem rankT_env (cfg : Cfg) (w : Nat) (s : St) (l : Label) (s' : St) (hl : l.isRx = false)
    (hs : step cfg s l = some s') : GoalT w s' ∨ rankT cfg w s' ≤ rankT cfg w s := by
  by_cases hd : l = .dropReceiver
  · subst hd; exact Or.inl (Or.inr (dropReceiver_tornDown cfg s s' hs))
  by_cases hf : l.isFire = true
  · have hp := (fire_step_phase cfg s l s' hf hs).1
    cases l <;> simp [Label.isFire] at hf
    all_goals
      step_elim hs
      all_goals
        simp_all [rankT, GoalT, phase]
        try grind
  · right
    simp only [Bool.not_eq_true] at hf
    have hp := env_step_phase cfg s l s' hl hf hd hs
    have hr := (env_step_rx cfg s l s' hl hf hd hs).1
    simp [rankT, hp, hr]

theorem rankT_rx (cfg : Cfg) (w : Nat) (s : St) (l : Label) (s' : St) (h : InvLiveT cfg w s) (hg : ¬ GoalT w s)
    (hl : l.isRx = true) (hs : step cfg s l = some s') : GoalT w s' ∨ rankT cfg w s' < rankT cfg w s := by
  obtain ⟨hb, hloc⟩ := h
  have hloc : w ∈ s.pendTakeW ∨ w ∈ s.rx.takeWs := by
    rcases hloc with a | a
    · exact absurd a hg
    · exact a
  by_cases hidle : s.rx = .idle
  · cases l <;> simp [Label.isRx] at hl
    all_goals (step_elim hs <;> simp_all [rankT, phase, GoalT])
  · have hlt := phase_step_rx cfg s l s' hb hl hidle hs
    by_cases hws : w ∈ s.rx.takeWs
    · cases l <;> simp [Label.isRx] at hl
      all_goals
        step_elim hs
        all_goals
          simp_all [rankT, GoalT]
    · right
      have hw' : w ∉ s'.rx.takeWs := by
        cases l <;> simp [Label.isRx] at hl
        all_goals (step_elim hs <;> simp_all)
      simp [rankT, hws, hw']; omega

theorem empty_fires_within (cfg : Cfg) (w : Nat) (s : St) (hb : InvBound cfg s)
    (hloc : w ∈ s.pendTakeW ∨ w ∈ s.rx.takeWs) (ls : List Label) (s' : St)
    (hrun : run (step cfg) s ls = some s') (hk : 2 * cfg.retryMax + 4 < countSel Label.isRx ls) :
    w ∈ s'.firedTake ∨ s'.tornDown = true := by
  have hr : rankT cfg w s ≤ 2 * cfg.retryMax + 4 := by
    have := phase_le cfg s hb
    unfold rankT; split <;> omega
  exact progress_within (Inv := InvLiveT cfg w) (Goal := GoalT w) (isRx := Label.isRx) (rank := rankT cfg w)
    (fun a l b ia st => invLiveT_step cfg w a l b ia st)
    (fun a l b _ ga st => goalT_stable cfg w a l b ga st)
    (fun a l b ia ng hl st => rankT_rx cfg w a l b ia ng hl st)
    (fun a l b _ _ hl st => rankT_env cfg w a l b hl st)
    ls s s' ⟨hb, Or.inr hloc⟩ hrun (by omega)


/-! ### Later batches are still processed: every pending item reaches the processor (or is truncated) -/

def rankI (cfg : Cfg) (x : Nat) (s : St) : Nat :=
  if x ∈ s.rx.takenBatch then 1 else phase cfg s + 2

def GoalI (x : Nat) (s : St) : Prop :=
  x ∈ s.firstAttempts.flatten ∨ x ∈ s.truncations.flatten ∨ s.tornDown = true

def InvLiveI (cfg : Cfg) (x : Nat) (s : St) : Prop :=
  InvBound cfg s ∧ (GoalI x s ∨ x ∈ s.pending ∨ x ∈ s.rx.takenBatch)

theorem send_item (cfg : Cfg) (s : St) (y : Nat) :
    (send cfg s y).firstAttempts = s.firstAttempts ∧
    (∀ x, x ∈ s.truncations.flatten → x ∈ (send cfg s y).truncations.flatten) ∧
    (∀ x, x ∈ s.pending → x ∈ (send cfg s y).pending ∨ x ∈ (send cfg s y).truncations.flatten) := by
  unfold send
  by_cases hc : s.pending.length ≥ cfg.cap <;> by_cases ho : s.isOpen <;> simp [hc, ho, truncate, push] <;> grind

theorem trySend_item (cfg : Cfg) (s : St) (y : Nat) :
    (trySend cfg s y).1.firstAttempts = s.firstAttempts ∧
    (trySend cfg s y).1.truncations = s.truncations ∧
    (∀ x, x ∈ s.pending → x ∈ (trySend cfg s y).1.pending) := by
  unfold trySend
  by_cases ho : s.isOpen <;> by_cases hc : s.pending.length < cfg.cap <;> simp [ho, hc, push] <;> grind

theorem goalI_stable (cfg : Cfg) (x : Nat) (s : St) (l : Label) (s' : St) (hg : GoalI x s)
    (hs : step cfg s l = some s') : GoalI x s' := by
  unfold GoalI at *
  cases l
  case send y =>
    step_elim hs
    obtain ⟨e1, e2, _⟩ := send_item cfg s y
    rw [e1, (send_reg cfg s y).2]
    rcases hg with a | a | a
    · exact Or.inl a
    · exact Or.inr (Or.inl (e2 x a))
    · exact Or.inr (Or.inr a)
  case trySend y =>
    step_elim hs
    obtain ⟨e1, e2, _⟩ := trySend_item cfg s y
    rw [e1, e2, (trySend_reg cfg s y).2]
    exact hg
  all_goals
    step_elim hs
    all_goals
      simp_all
      try grind

theorem invLiveI_step (cfg : Cfg) (x : Nat) (s : St) (l : Label) (s' : St) (h : InvLiveI cfg x s)
    (hs : step cfg s l = some s') : InvLiveI cfg x s' := by
  refine ⟨invBound_step cfg s l s' h.1 hs, ?_⟩
  obtain ⟨_, hloc⟩ := h
  rcases hloc with hg | hloc
  · exact Or.inl (goalI_stable cfg x s l s' hg hs)
  cases l
  case send y =>
    step_elim hs
    obtain ⟨e1, e2, e3⟩ := send_item cfg s y
    rw [(send_bound cfg s y).1]
    rcases hloc with a | a
    · rcases e3 x a with b | b
      · exact Or.inr (Or.inl b)
      · exact Or.inl (Or.inr (Or.inl b))
    · exact Or.inr (Or.inr a)
  case trySend y =>
    step_elim hs
    obtain ⟨e1, e2, e3⟩ := trySend_item cfg s y
    rw [(trySend_bound cfg s y).1]
    rcases hloc with a | a
    · exact Or.inr (Or.inl (e3 x a))
    · exact Or.inr (Or.inr a)
  all_goals
    step_elim hs
    all_goals
      simp_all [GoalI]
      try grind

theorem rankI_env (cfg : Cfg) (x : Nat) (s : St) (l : Label) (s' : St) (hl : l.isRx = false)
    (hs : step cfg s l = some s') : GoalI x s' ∨ rankI cfg x s' ≤ rankI cfg x s := by
  by_cases hd : l = .dropReceiver
  · subst hd; exact Or.inl (Or.inr (Or.inr (dropReceiver_tornDown cfg s s' hs)))
  by_cases hf : l.isFire = true
  · right
    obtain ⟨hp, _, hb, _⟩ := fire_step_phase cfg s l s' hf hs
    simp [rankI, hp, hb]
  · right
    simp only [Bool.not_eq_true] at hf
    have hp := env_step_phase cfg s l s' hl hf hd hs
    have hr := (env_step_rx cfg s l s' hl hf hd hs).1
    simp [rankI, hp, hr]

theorem rankI_rx (cfg : Cfg) (x : Nat) (s : St) (l : Label) (s' : St) (h : InvLiveI cfg x s) (hg : ¬ GoalI x s)
    (hl : l.isRx = true) (hs : step cfg s l = some s') : GoalI x s' ∨ rankI cfg x s' < rankI cfg x s := by
  obtain ⟨hb, hloc⟩ := h
  have hloc : x ∈ s.pending ∨ x ∈ s.rx.takenBatch := by
    rcases hloc with a | a
    · exact absurd a hg
    · exact a
  by_cases hidle : s.rx = .idle
  · cases l <;> simp [Label.isRx] at hl
    all_goals (step_elim hs <;> simp_all [rankI, phase, GoalI])
  · have hlt := phase_step_rx cfg s l s' hb hl hidle hs
    by_cases hws : x ∈ s.rx.takenBatch
    · cases l <;> simp [Label.isRx] at hl
      all_goals
        step_elim hs
        all_goals
          simp_all [rankI, GoalI]
    · right
      have hw' : x ∉ s'.rx.takenBatch := by
        cases l <;> simp [Label.isRx] at hl
        all_goals (step_elim hs <;> simp_all)
      simp [rankI, hws, hw']; omega

theorem item_processed_within (cfg : Cfg) (x : Nat) (s : St) (hb : InvBound cfg s)
    (hloc : x ∈ s.pending) (ls : List Label) (s' : St)
    (hrun : run (step cfg) s ls = some s') (hk : 2 * cfg.retryMax + 4 < countSel Label.isRx ls) :
    x ∈ s'.firstAttempts.flatten ∨ x ∈ s'.truncations.flatten ∨ s'.tornDown = true := by
  have hr : rankI cfg x s ≤ 2 * cfg.retryMax + 4 := by
    have := phase_le cfg s hb
    unfold rankI; split <;> omega
  exact progress_within (Inv := InvLiveI cfg x) (Goal := GoalI x) (isRx := Label.isRx) (rank := rankI cfg x)
    (fun a l b ia st => invLiveI_step cfg x a l b ia st)
    (fun a l b _ ga st => goalI_stable cfg x a l b ga st)
    (fun a l b ia ng hl st => rankI_rx cfg x a l b ia ng hl st)
    (fun a l b _ _ hl st => rankI_env cfg x a l b hl st)
    ls s s' ⟨hb, Or.inr (Or.inl hloc)⟩ hrun (by omega)


/-! ### Drain on close: after the sender is dropped the receiver delivers what is queued and returns -/

def rankD (cfg : Cfg) (s : St) : Nat :=
  let k := if s.pending.length > 0 then cycle cfg + 2 else 2
  match s.rx with
  | .done => 0
  | .taken b _ _ o => if b.length > 0 then phase cfg s + k else if o then phase cfg s + k else 1
  | _ => phase cfg s + k

def GoalD (s : St) : Prop := s.rx = .done

def InvLiveD (cfg : Cfg) (s : St) : Prop :=
  InvBound cfg s ∧ s.senderAlive = false ∧ s.isOpen = false

theorem invLiveD_step (cfg : Cfg) (s : St) (l : Label) (s' : St) (h : InvLiveD cfg s)
    (hs : step cfg s l = some s') : InvLiveD cfg s' := by
  refine ⟨invBound_step cfg s l s' h.1 hs, ?_⟩
  obtain ⟨_, ha, ho⟩ := h
  cases l
  case send x => simp [step, ha] at hs
  case trySend x => simp [step, ha] at hs
  all_goals
    step_elim hs
    all_goals simp_all

theorem goalD_stable (cfg : Cfg) (s : St) (l : Label) (s' : St) (hg : GoalD s)
    (hs : step cfg s l = some s') : GoalD s' := by
  unfold GoalD at *
  cases l
  case send x => step_elim hs; rw [(send_bound cfg s x).1]; exact hg
  case trySend x => step_elim hs; rw [(trySend_bound cfg s x).1]; exact hg
  all_goals
    step_elim hs
    all_goals simp_all

theorem rankD_env (cfg : Cfg) (s : St) (l : Label) (s' : St) (h : InvLiveD cfg s) (hl : l.isRx = false)
    (hs : step cfg s l = some s') : GoalD s' ∨ rankD cfg s' ≤ rankD cfg s := by
  obtain ⟨_, ha, ho⟩ := h
  cases l <;> simp [Label.isRx] at hl
  case send x => simp [step, ha] at hs
  case trySend x => simp [step, ha] at hs
  case whenFlushed w => simp [step, ha] at hs
  case whenEmpty w => simp [step, ha] at hs
  case dropSender => simp [step, ha] at hs
  case dropReceiver => left; step_elim hs <;> rfl
  case rxFireTake => right; step_elim hs; simp_all [rankD, phase]
  case rxFireFlush =>
    right
    step_elim hs
    · simp_all [rankD, phase]
    · rename_i ws _
      cases ws <;> simp_all [rankD, phase, afterNotify]

theorem rankD_rx (cfg : Cfg) (s : St) (l : Label) (s' : St) (h : InvLiveD cfg s) (_hg : ¬ GoalD s)
    (hl : l.isRx = true) (hs : step cfg s l = some s') : GoalD s' ∨ rankD cfg s' < rankD cfg s := by
  obtain ⟨hb, ha, ho⟩ := h
  by_cases hidle : s.rx = .idle
  · cases l <;> simp [Label.isRx] at hl
    all_goals (step_elim hs <;> simp_all [rankD, phase, cycle, GoalD] <;> omega)
  · have hlt := phase_step_rx cfg s l s' hb hl hidle hs
    cases l <;> simp [Label.isRx] at hl
    all_goals
      step_elim hs
      all_goals
        simp_all [rankD, GoalD]
        try omega

theorem drains_within (cfg : Cfg) (s : St) (hb : InvBound cfg s) (ha : s.senderAlive = false)
    (ho : s.isOpen = false) (ls : List Label) (s' : St)
    (hrun : run (step cfg) s ls = some s') (hk : 4 * cfg.retryMax + 7 < countSel Label.isRx ls) :
    s'.rx = .done := by
  have hr : rankD cfg s ≤ 4 * cfg.retryMax + 7 := by
    have := phase_le cfg s hb
    unfold rankD cycle
    simp only
    split <;> (try split) <;> (try split) <;> (try split) <;> omega
  exact progress_within (Inv := InvLiveD cfg) (Goal := GoalD) (isRx := Label.isRx) (rank := rankD cfg)
    (fun a l b ia st => invLiveD_step cfg a l b ia st)
    (fun a l b _ ga st => goalD_stable cfg a l b ga st)
    (fun a l b ia ng hl st => rankD_rx cfg a l b ia ng hl st)
    (fun a l b ia _ hl st => rankD_env cfg a l b ia hl st)
    ls s s' ⟨hb, ha, ho⟩ hrun (by omega)


/-! ### What the state looks like once the receiver has returned -/

structure InvDrain (s : St) : Prop where
  open_ : s.rx ≠ .done → s.senderAlive = true → s.isOpen = true
  closing : ∀ b tw fw, s.rx = .taken b tw fw false →
    s.senderAlive = false ∧ s.pending = [] ∧ s.pendFlushW = [] ∧ s.pendTakeW = []
  returned : s.rx = .done → s.tornDown = false →
    s.senderAlive = false ∧ s.pending = [] ∧ s.pendFlushW = [] ∧ s.pendTakeW = []

theorem invDrain_init : InvDrain init := by
  constructor <;> simp [init]

theorem send_drain (cfg : Cfg) (s : St) (x : Nat) :
    (send cfg s x).rx = s.rx ∧ (send cfg s x).senderAlive = s.senderAlive ∧
    (send cfg s x).isOpen = s.isOpen ∧ (send cfg s x).tornDown = s.tornDown := by
  unfold send
  by_cases hc : s.pending.length ≥ cfg.cap <;> by_cases ho : s.isOpen <;> simp [hc, ho, truncate, push]

theorem trySend_drain (cfg : Cfg) (s : St) (x : Nat) :
    (trySend cfg s x).1.rx = s.rx ∧ (trySend cfg s x).1.senderAlive = s.senderAlive ∧
    (trySend cfg s x).1.isOpen = s.isOpen ∧ (trySend cfg s x).1.tornDown = s.tornDown := by
  unfold trySend
  by_cases ho : s.isOpen <;> by_cases hc : s.pending.length < cfg.cap <;> simp [ho, hc, push]

theorem invDrain_step (cfg : Cfg) (s : St) (l : Label) (s' : St) (h : InvDrain s)
    (hs : step cfg s l = some s') : InvDrain s' := by
  obtain ⟨h1, h2, h3⟩ := h
  cases l
  case send x =>
    simp only [step] at hs
    split at hs
    case isFalse => simp at hs
    case isTrue ha =>
      simp only [Option.some.injEq] at hs; subst hs
      obtain ⟨e1, e2, e3, e4⟩ := send_drain cfg s x
      refine ⟨by rw [e1, e2, e3]; exact h1, ?_, ?_⟩
      · intro b tw fw hr; rw [e1] at hr; have := (h2 b tw fw hr).1; simp [ha] at this
      · intro hr ht; rw [e1] at hr; rw [e4] at ht; have := (h3 hr ht).1; simp [ha] at this
  case trySend x =>
    simp only [step] at hs
    split at hs
    case isFalse => simp at hs
    case isTrue ha =>
      simp only [Option.some.injEq] at hs; subst hs
      obtain ⟨e1, e2, e3, e4⟩ := trySend_drain cfg s x
      refine ⟨by rw [e1, e2, e3]; exact h1, ?_, ?_⟩
      · intro b tw fw hr; rw [e1] at hr; have := (h2 b tw fw hr).1; simp [ha] at this
      · intro hr ht; rw [e1] at hr; rw [e4] at ht; have := (h3 hr ht).1; simp [ha] at this
  all_goals
    step_elim hs
    all_goals
      constructor <;> simp_all
      try grind

theorem invDrain_reachable (cfg : Cfg) (s : St) (h : Reachable cfg s) : InvDrain s :=
  invariant_of_step invDrain_init (invDrain_step cfg) s h

end EmitModel.Batcher
