/-
  Lemmas/FileSetKept.lean — "event `e` is kept": complete, on a record boundary, in synced content of a durable
  file of the set (or in a file the worker's own retention deleted since). Monotone along everything the worker
  does afterwards (`Rel`). Used for the whole-batch durability theorem over the batcher's retry loop
  (`C10.batch_done_all_durable`).
-/
import EmitModel.Lemmas.FileSetAcked
import EmitModel.Lemmas.FileSetRel

namespace EmitModel.FileSet

/-- Event `e` is in synced content of a durable file of the set, complete and on a record boundary — or the worker
    itself deleted that file (retention) after log position `L`. -/
def Kept (cfg : Config) (c : Nat) (L : Nat) (e : List Nat) (s : St) : Prop :=
  ∃ n, isMember cfg.pfx cfg.ext n = true ∧
    (Ev.deleted n ∈ s.log.drop L ∨ ∃ f, fsGet s.fs n = some f ∧ f.durable = true ∧ Occurs c e f.synced)

theorem Kept.mono {cfg : Config} {c L : Nat} {e : List Nat} {s s' : St} (h : Kept cfg c L e s)
    (hL : L ≤ s.log.length) (hrel : Rel cfg (fun _ => True) s s') : Kept cfg c L e s' := by
  obtain ⟨n, hm, hk⟩ := h
  obtain ⟨⟨extra, hlog, _, _, hdur⟩, _⟩ := hrel
  refine ⟨n, hm, ?_⟩
  rcases hk with hdel | ⟨f, hget, hd, hocc⟩
  · left
    rw [hlog, List.drop_append_of_le_length hL]
    exact List.mem_append_left _ hdel
  · rcases hdur n f hget hd with hdel | ⟨f', hget', hd', hpre⟩
    · left
      rw [hlog, List.drop_append_of_le_length hL]
      exact List.mem_append_right _ hdel
    · right
      obtain ⟨t, ht⟩ := hpre
      exact ⟨f', hget', hd', by rw [← ht]; exact hocc.append t⟩

theorem Kept.weakenL {cfg : Config} {c L L' : Nat} {e : List Nat} {s : St} (h : Kept cfg c L' e s) (hL : L ≤ L') :
    Kept cfg c L e s := by
  obtain ⟨n, hm, hk⟩ := h
  refine ⟨n, hm, ?_⟩
  rcases hk with hdel | hk
  · left
    have : s.log.drop L' = (s.log.drop L).drop (L' - L) := by rw [List.drop_drop]; congr 1; omega
    rw [this] at hdel
    exact List.mem_of_mem_drop hdel
  · exact .inr hk

end EmitModel.FileSet
