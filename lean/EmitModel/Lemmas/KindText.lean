/-
  Lemmas/KindText.lean — C15. `eq_ignore_ascii_case` is equality after ASCII lower-casing.
-/
import EmitModel.Model.KindText

namespace EmitModel.KindText

theorem eqIgnoreAsciiCase_iff (a b : List Char) :
    eqIgnoreAsciiCase a b = true ↔ a.map asciiLower = b.map asciiLower := by
  induction a generalizing b with
  | nil => cases b <;> simp [eqIgnoreAsciiCase]
  | cons x xs ih =>
    cases b with
    | nil => simp [eqIgnoreAsciiCase]
    | cons y ys => simp [eqIgnoreAsciiCase, ih]

end EmitModel.KindText
