/-
  Lemmas/FileSetRun.lean — histories: arbitrary lists of batches and restarts, and the invariant along them.
-/
import EmitModel.Lemmas.FileSetRetention

namespace EmitModel.FileSet

/-- One thing that happens to the worker: a batch arrives (at a clock reading, with the id the rng would give if
    a file is created), or the worker is dropped and constructed again. -/
inductive Op where
  | batch (now : Parts) (id : Nat) (b : Batch)
  | restart

def Op.events : Op → List (List Nat)
  | .batch _ _ b => b.rest
  | .restart => []

def runOp (cfg : Config) (plan : Nat → Fault) (s : St) : Op → St
  | .batch now id b => (onBatch cfg plan now id b s).2
  | .restart => restart s

/-- The state after a history. -/
def run (cfg : Config) (plan : Nat → Fault) (s : St) (ops : List Op) : St := ops.foldl (runOp cfg plan) s

/-- The empty directory, before the first batch. -/
def emptyState : St := { fs := [], op := 0, active := none, log := [], faulted := false }

theorem inv_emptyState (cfg : Config) (E : List Nat → Prop) (c : Nat) : Inv cfg E c emptyState :=
  ⟨by simp [NamesNodup, names, emptyState], fun n f h => by simp [emptyState, fsGet] at h,
    fun a h => by simp [emptyState] at h⟩

theorem runOp_inv {cfg : Config} {E : List Nat → Prop} {c : Nat} (hsep : SepOk cfg E c) (plan : Nat → Fault)
    {s : St} (op : Op) (hE : ∀ e ∈ op.events, E e) (hinv : Inv cfg E c s) : Inv cfg E c (runOp cfg plan s op) := by
  cases op with
  | batch now id b => exact onBatch_inv hsep plan now id b s hE hinv
  | restart => exact ⟨hinv.nodup, hinv.good, fun a h => by simp [runOp, restart] at h⟩


theorem run_inv {cfg : Config} {E : List Nat → Prop} {c : Nat} (hsep : SepOk cfg E c) (plan : Nat → Fault)
    (ops : List Op) :
    ∀ (s : St), Inv cfg E c s → (∀ op ∈ ops, ∀ e ∈ op.events, E e) → Inv cfg E c (run cfg plan s ops) := by
  induction ops with
  | nil => intro s h _; exact h
  | cons op ops ih =>
    intro s h hE
    exact ih _ (runOp_inv hsep plan op (hE op (by simp)) h) (fun o ho => hE o (by simp [ho]))

/-! ### the byte counter of a batch -/

/-- The cursor is inside the buffers and `remaining_bytes` is the total length of the events from the cursor on. -/
def Batch.Wf (b : Batch) : Prop := b.index ≤ b.bufs.length ∧ b.remaining = (b.rest.map List.length).sum

theorem Batch.wf_empty : Batch.empty.Wf := by simp [Batch.Wf, Batch.empty, Batch.rest]

theorem Batch.rest_push {b : Batch} (h : b.index ≤ b.bufs.length) (e : List Nat) : (b.push e).rest = b.rest ++ [e] := by
  simp only [Batch.rest, Batch.push]
  exact List.drop_append_of_le_length h

theorem Batch.wf_push {b : Batch} (h : b.Wf) (e : List Nat) : (b.push e).Wf := by
  refine ⟨by simp [Batch.push]; have := h.1; omega, ?_⟩
  rw [Batch.rest_push h.1]
  simp [Batch.push, h.2]

theorem Batch.wf_clear (b : Batch) : b.clear.Wf := Batch.wf_empty

theorem Batch.wf_advance {b : Batch} {e : List Nat} {r : List (List Nat)} (h : b.Wf) (hr : b.rest = e :: r) :
    (b.advance e).Wf := by
  have hlt : b.index < b.bufs.length := by
    apply Classical.byContradiction
    intro hn
    unfold Batch.rest at hr
    rw [List.drop_of_length_le (by omega)] at hr
    cases hr
  refine ⟨by simp [Batch.advance]; omega, ?_⟩
  rw [Batch.rest_advance hr]
  have := h.2
  rw [hr] at this
  simp only [Batch.advance]
  simp at this
  omega

theorem Batch.wf_foldl_push (evs : List (List Nat)) : ∀ {b : Batch}, b.Wf → (evs.foldl Batch.push b).Wf := by
  induction evs with
  | nil => intro b h; exact h
  | cons e es ih => intro b h; exact ih (Batch.wf_push h e)

theorem Batch.rest_foldl_push (evs : List (List Nat)) :
    ∀ {b : Batch}, b.index ≤ b.bufs.length → (evs.foldl Batch.push b).rest = b.rest ++ evs := by
  induction evs with
  | nil => intro b _; simp
  | cons e es ih =>
    intro b h
    simp only [List.foldl_cons]
    rw [ih (by simp [Batch.push]; omega), Batch.rest_push h]
    simp

end EmitModel.FileSet
