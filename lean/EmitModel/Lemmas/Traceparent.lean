/-
  Lemmas/Traceparent.lean — helper lemmas for C18.
-/
import EmitModel.Model.Traceparent

namespace EmitModel.Traceparent

def validOf (st : Option Active) : Bool := (st.filter (fun a => a.tp.valid)).isSome

/-- No rng-drawn span id visible in the active traceparent is ahead of the counter. -/
def Below (st : Option Active) (n : Nat) : Prop :=
  ∀ a k, st = some a → a.tp.spanId = some (.gen k) → k ≤ n

@[simp] theorem completeSpan_st (b : Bool) (e : Env) : (completeSpan b e).st = e.st := by
  unfold completeSpan; split <;> rfl
@[simp] theorem completeSpan_calls (b : Bool) (e : Env) : (completeSpan b e).calls = e.calls := by
  unfold completeSpan; split <;> rfl
@[simp] theorem completeSpan_rng (b : Bool) (e : Env) : (completeSpan b e).rng = e.rng := by
  unfold completeSpan; split <;> rfl

theorem validOf_some (a : Active) : validOf (some a) = a.tp.valid := by
  simp only [validOf, Option.filter]; split <;> simp_all

theorem validOf_none : validOf none = false := rfl

/-- The explicit outcome of `SpanGuard::new` under the traceparent runtime when fresh ids do not collide. -/
def openSpec (c : Cfg) (e : Env) : Bool × Ids × Option Active × Env :=
  let cur := ambientIds e.st
  let rng1 := if cur.traceId.isSome then e.rng else e.rng + 1
  let traceId : Option Id := if cur.traceId.isSome then cur.traceId else some (.gen (e.rng + 1))
  let sid : Id := .gen (rng1 + 1)
  let child : Ids := ⟨traceId, cur.spanId, some sid⟩
  let seen : Ids := ⟨traceId, cur.spanId.or cur.spanParent, some sid⟩
  match e.st.filter (fun a => a.tp.valid) with
  | some a =>
    let en := a.tp.sampled
    (en, child, some ⟨⟨a.tp.traceId, some sid, if en then a.tp.flags % 256 else 0⟩, a.tp.spanId, a.state⟩,
      { e with rng := rng1 + 1, out := .spanOpen en seen :: e.out })
  | none =>
    if c.hasSampler then
      let d := c.decide e.calls
      (d, child, some ⟨⟨traceId, some sid, if d then 1 else 0⟩, none, 0⟩,
        { e with rng := rng1 + 1, calls := e.calls + 1, out := .spanOpen d seen :: .sampler traceId sid d :: e.out })
    else
      -- no sampler configured: every new trace is sampled
      (true, child, some ⟨⟨traceId, some sid, 1⟩, none, 0⟩,
        { e with rng := rng1 + 1, out := .spanOpen true seen :: e.out })

theorem openSpan_eq_spec (c : Cfg) (e : Env) (hb : Below e.st e.rng) : openSpan c e = openSpec c e := by
  unfold openSpan openSpec incoming
  cases hst : e.st with
  | none => simp [ambientIds, Ids.empty, Option.filter, maskIsSampled, applyMask]; cases c.hasSampler <;> cases c.decide e.calls <;> simp [TP.sampled, applyMask]
  | some a =>
    by_cases hv : a.tp.valid = true
    · have hne1 : a.tp.spanId ≠ some (Id.gen (e.rng + 1)) := by
        intro h; have := hb a _ hst h; omega
      have hne2 : a.tp.spanId ≠ some (Id.gen (e.rng + 1 + 1)) := by
        intro h; have := hb a _ hst h; omega
      by_cases hs : a.tp.sampled = true
      · have hs' : a.tp.flags % 2 = 1 := by simpa [TP.sampled] using hs
        cases ht : a.tp.traceId with
        | none => simp [TP.valid, ht] at hv
        | some t =>
          simp [ambientIds, hs, ht, Option.filter, hv, hne1, applyMask, TP.sampled, hs']
      · have hs0 : a.tp.sampled = false := by simpa using hs
        have hs' : a.tp.flags % 2 = 0 := by
          have : ¬ (a.tp.flags % 2 = 1) := by simpa [TP.sampled] using hs
          omega
        simp [ambientIds, hs0, Ids.empty, Option.filter, hv, hne2, applyMask, TP.sampled, hs']
    · have hv0 : a.tp.valid = false := by simpa using hv
      by_cases hs : a.tp.sampled = true
      · cases ht : a.tp.traceId with
        | none =>
          simp [ambientIds, hs, ht, Option.filter, hv0, maskIsSampled, applyMask]
          cases c.hasSampler <;> cases c.decide e.calls <;> simp [TP.sampled, applyMask]
        | some t =>
          simp [ambientIds, hs, ht, Option.filter, hv0, maskIsSampled, applyMask]
          cases c.hasSampler <;> cases c.decide e.calls <;> simp [TP.sampled, applyMask]
      · have hs0 : a.tp.sampled = false := by simpa using hs
        simp [ambientIds, hs0, Ids.empty, Option.filter, hv0, maskIsSampled, applyMask]
        cases c.hasSampler <;> cases c.decide e.calls <;> simp [TP.sampled, applyMask]

@[simp] theorem openSpan_st (c : Cfg) (e : Env) : (openSpan c e).2.2.2.st = e.st := by
  simp [openSpan]

/-- `InSampledTraceFilter::matches`: the active traceparent's flag, or the configured answer outside traces. -/
def passInSampled (c : Cfg) (st : Option Active) : Bool :=
  match st with
  | some a => a.tp.sampled
  | none => c.outside

/-- The log of a manual span from the log of a guard opened at the same point: the same sampler observation
    underneath, the `spanOpen enabled seen` on top replaced by `spanEvent seen enabled passIn`. -/
def asSpanEvent (passIn : Bool) : List Obs → List Obs
  | .spanOpen en seen :: rest => .spanEvent seen en passIn :: rest
  | o => o

/-- **A manual span is filtered exactly like the start of a guard.** Emitting a span as an event draws the same
    ids, consults the sampler under the same condition and gets the same `TraceparentFilter` verdict as
    `SpanGuard::new` at the same point (`openSpan`); only no frame comes out of it. -/
theorem emitSpanEvent_eq_open (c : Cfg) (e : Env) :
    emitSpanEvent c e =
      { (openSpan c e).2.2.2 with out := asSpanEvent (passInSampled c e.st) (openSpan c e).2.2.2.out } := by
  rfl

@[simp] theorem emitSpanEvent_st (c : Cfg) (e : Env) : (emitSpanEvent c e).st = e.st := by
  simp [emitSpanEvent]

/-- **restore** (helper form): every program leaves the thread's active traceparent as it found it — proved
    together with the fact that polling a frame-wrapped future segment by segment (enter/exit around every
    poll) threads the environment exactly like running the segments inside one entered frame. -/
theorem restore (c : Cfg) : ∀ (p : Prog) (e : Env), (run c p e).st = e.st
  | .event, e => by simp [run, observeEvent]
  | .spanEvent, e => by simp [run]
  | .span cs, e => by
    simp only [run]
    cases hs : (openSpan c e).2.2.1 with
    | none => simp [exitSt, enterSt, restoreList c cs]
    | some a => simp [exitSt]
  | .spanThread cs, e => by simp [run]
  | .spanAsync cs, e => by
    simp only [run]
    cases hs : (openSpan c e).2.2.1 with
    | none =>
      have := polls_inactive c cs none (openSpan c e).2.2.2
      simp [this, Frm.swap, restoreList c cs]
    | some a =>
      have := polls_active c cs a (openSpan c e).2.2.2
      simp [this, Frm.swap]
  | .push tp cs, e => by simp [run]
  | .pushState ts cs, e => by simp [run]
  | .pushBoth tp ts cs, e => by simp [run]
  | .carry cs, e => by simp [run]
  where
  restoreList (c : Cfg) : ∀ (ps : List Prog) (e : Env), (runList c ps e).st = e.st
  | [], e => rfl
  | p :: ps, e => by simp only [runList]; rw [restoreList c ps, restore c p]
  polls_inactive (c : Cfg) : ∀ (ps : List Prog) (sl : Option Active) (e : Env),
      runPolls c ps ⟨false, sl⟩ e = (⟨false, sl⟩, runList c ps e)
  | [], sl, e => rfl
  | p :: ps, sl, e => by
    simp only [runPolls, runList, Frm.swap, Bool.false_eq_true, if_false]
    rw [polls_inactive c ps sl]
  polls_active (c : Cfg) : ∀ (ps : List Prog) (a : Active) (e : Env),
      runPolls c ps ⟨true, some a⟩ e = (⟨true, some a⟩, { runList c ps { e with st := some a } with st := e.st })
  | [], a, e => by simp [runPolls, runList]
  | p :: ps, a, e => by
    simp only [runPolls, runList, Frm.swap, if_true]
    have h1 : (run c p { e with st := some a }).st = some a := restore c p _
    generalize hr : run c p { e with st := some a } = e1 at h1 ⊢
    obtain ⟨st1, rng1, calls1, out1⟩ := e1
    simp only at h1
    subst h1
    rw [polls_active c ps a]

/-- **Polling is transparent.** A span whose body is a future polled segment by segment — the frame entered
    and exited around every poll, the slot swapped each time — behaves exactly like the span whose body runs
    inside one entered frame. -/
theorem run_spanAsync_eq (c : Cfg) (cs : List Prog) (e : Env) : run c (.spanAsync cs) e = run c (.span cs) e := by
  have hst := openSpan_st c e
  simp only [run]
  rcases hO : openSpan c e with ⟨en, ch, sl, ⟨st1, rng1, calls1, out1⟩⟩
  rw [hO] at hst
  simp only at hst
  subst hst
  cases sl with
  | none =>
    simp only [Option.isSome_none, restore.polls_inactive, Frm.swap, Bool.false_eq_true, if_false, enterSt, exitSt]
  | some a =>
    simp only [Option.isSome_some, restore.polls_active, Frm.swap, if_true, enterSt, exitSt]
    have h := restore.restoreList c cs { st := some a, rng := rng1, calls := calls1, out := out1 }
    generalize runList c cs { st := some a, rng := rng1, calls := calls1, out := out1 } = r at h ⊢
    obtain ⟨rst, rrng, rcalls, rout⟩ := r
    simp only at h
    subst h
    simp [completeSpan]

end EmitModel.Traceparent
