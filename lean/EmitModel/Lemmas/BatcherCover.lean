/-
  Lemmas/BatcherCover.lean — every accepted item is pending, in flight, finalised or truncated (while the receiver
  has not been torn down), and the obligation recorded for a flush watcher covers everything accepted before its
  registration that is not already through. Links C07 `flush_sound` to the wording of the property.
-/
import EmitModel.Lemmas.BatcherFlush

namespace EmitModel.Batcher
open EmitModel.Sched

structure InvCover (s : St) : Prop where
  cover : ∀ x ∈ s.accepted, x ∈ s.pending ∨ x ∈ s.rx.inflight ∨ Done s x
  acc : ∀ w acc, (w, acc) ∈ s.acceptedAt → ∃ obs, (w, obs) ∈ s.obligations ∧ ∀ x ∈ acc, x ∈ obs ∨ Done s x

macro "cover_close" : tactic => `(tactic|
  (constructor <;> simp_all [Done] <;> first | assumption | grind))

theorem invCover_init : InvCover init := by
  constructor <;> simp [init]

theorem invCover_congr {s t : St} (h : InvCover s)
    (e1 : t.accepted = s.accepted) (e2 : t.pending = s.pending) (e3 : t.rx = s.rx)
    (e4 : t.finalised = s.finalised) (e5 : t.truncations = s.truncations) (e6 : t.acceptedAt = s.acceptedAt)
    (e7 : t.obligations = s.obligations) : InvCover t := by
  obtain ⟨h1, h2⟩ := h
  constructor <;> simp only [Done, e1, e2, e3, e4, e5, e6, e7] <;> assumption

theorem invCover_truncate (s : St) (h : InvCover s) : InvCover (truncate s) := by
  obtain ⟨h1, h2⟩ := h
  simp only [truncate]
  cover_close

theorem invCover_push (s : St) (x : Nat) (h : InvCover s) : InvCover (push s x) := by
  obtain ⟨h1, h2⟩ := h
  simp only [push]
  cover_close

theorem invCover_send (cfg : Cfg) (s : St) (x : Nat) (h : InvCover s) : InvCover (send cfg s x) := by
  unfold send
  have ht := invCover_truncate s h
  by_cases hc : s.pending.length ≥ cfg.cap <;> simp only [hc, if_true, if_false]
  · by_cases ho : (truncate s).isOpen <;> simp [ho, ht, invCover_push]
  · by_cases ho : s.isOpen <;> simp [ho, h, invCover_push]

theorem invCover_trySend (cfg : Cfg) (s : St) (x : Nat) (h : InvCover s) : InvCover (trySend cfg s x).1 := by
  unfold trySend
  by_cases ho : s.isOpen <;> by_cases hc : s.pending.length < cfg.cap <;> simp [ho, hc, h, invCover_push]

theorem invCover_whenFlushed (s : St) (w : Nat) (h : InvCover s) : InvCover (whenFlushed s w) := by
  obtain ⟨h1, h2⟩ := h
  simp only [whenFlushed]
  split
  all_goals
    refine ⟨h1, ?_⟩
    intro w' acc hm
    simp only [List.mem_append, List.mem_singleton, Prod.mk.injEq] at hm
    rcases hm with hm | ⟨rfl, rfl⟩
    · obtain ⟨obs, ho, hx⟩ := h2 w' acc hm
      exact ⟨obs, by simp [ho], hx⟩
    · refine ⟨s.pending ++ s.rx.inflight, by simp, ?_⟩
      intro x hx
      rcases h1 x hx with a | a | a
      · exact Or.inl (by simp [a])
      · exact Or.inl (by simp [a])
      · exact Or.inr a

theorem invCover_conclude (s : St) (orig cur ws : List Nat) (hrx : s.rx = .processing orig cur ws)
    (h : InvCover s) : InvCover (conclude s orig ws) := by
  obtain ⟨h1, h2⟩ := h
  simp only [conclude]
  cover_close

theorem invCover_retryLater (s : St) (orig cur ws rem : List Nat) (hrx : s.rx = .processing orig cur ws)
    (h : InvCover s) : InvCover { s with rx := .retryWait orig rem ws } := by
  obtain ⟨h1, h2⟩ := h
  cover_close

theorem invCover_rxOutcome (cfg : Cfg) (s s' : St) (o : Outcome) (h : InvCover s)
    (hs : rxOutcome cfg s o = some s') : InvCover s' := by
  simp only [rxOutcome] at hs
  split at hs
  case h_2 => simp at hs
  case h_1 orig cur ws hrx =>
    have hc : ∀ t : St, t.accepted = s.accepted → t.pending = s.pending → t.rx = s.rx →
        t.finalised = s.finalised → t.truncations = s.truncations → t.acceptedAt = s.acceptedAt →
        t.obligations = s.obligations → InvCover (conclude t orig ws) := by
      intro t e1 e2 e3 e4 e5 e6 e7
      exact invCover_conclude t orig cur ws (e3 ▸ hrx) (invCover_congr h e1 e2 e3 e4 e5 e6 e7)
    cases o
    case failRetry rem =>
      simp only at hs
      split at hs
      · split at hs
        · simp only [Option.some.injEq] at hs; subst hs
          exact invCover_congr (invCover_retryLater s orig cur ws rem hrx h) rfl rfl rfl rfl rfl rfl rfl
        · simp only [Option.some.injEq] at hs; subst hs
          exact hc _ rfl rfl rfl rfl rfl rfl rfl
      · simp only [Option.some.injEq] at hs; subst hs
        exact hc _ rfl rfl rfl rfl rfl rfl rfl
    all_goals
      simp only [Option.some.injEq] at hs; subst hs
      exact hc _ rfl rfl rfl rfl rfl rfl rfl

/-- While the receiver has not been torn down. -/
def InvC (s : St) : Prop := s.tornDown = false → InvCover s

theorem invC_step (cfg : Cfg) (s : St) (l : Label) (s' : St) (h : InvC s) (hs : step cfg s l = some s') :
    InvC s' := by
  intro ht
  cases l
  case send x =>
    step_elim hs
    exact invCover_send cfg s x (h ((send_reg cfg s x).2 ▸ ht))
  case trySend x =>
    step_elim hs
    exact invCover_trySend cfg s x (h ((trySend_reg cfg s x).2 ▸ ht))
  case whenFlushed w =>
    simp only [step] at hs
    split at hs
    case isFalse => simp at hs
    case isTrue ha =>
      simp only [Option.some.injEq] at hs; subst hs
      have htd : (whenFlushed s w).tornDown = s.tornDown := by
        simp only [whenFlushed]; split <;> rfl
      exact invCover_whenFlushed s w (h (htd ▸ ht))
  case rxOutcome o =>
    simp only [step] at hs
    have hr : s'.tornDown = s.tornDown := by
      simp only [rxOutcome, conclude] at hs; flush_split hs <;> rfl
    exact invCover_rxOutcome cfg s s' o (h (hr ▸ ht)) hs
  case dropReceiver =>
    simp only [step, dropReceiver] at hs
    flush_split hs
    simp at ht
  all_goals
    step_elim hs
    all_goals
      obtain ⟨h1, h2⟩ := h (by simpa using ht)
      cover_close

theorem invC_reachable (cfg : Cfg) (s : St) (h : Reachable cfg s) : InvC s :=
  invariant_of_step (fun _ => invCover_init) (invC_step cfg) s h

end EmitModel.Batcher

namespace EmitModel.Batcher
open EmitModel.Sched

/-! ### Small monotonicity facts used by the blocking / async flush theorems -/

theorem send_fired (cfg : Cfg) (s : St) (x : Nat) :
    (send cfg s x).fired = s.fired ∧ (send cfg s x).dropped = s.dropped ∧
    (send cfg s x).finalised = s.finalised := by
  unfold send
  by_cases hc : s.pending.length ≥ cfg.cap <;> by_cases ho : s.isOpen <;> simp [hc, ho, truncate, push]

theorem trySend_fired (cfg : Cfg) (s : St) (x : Nat) :
    (trySend cfg s x).1.fired = s.fired ∧ (trySend cfg s x).1.dropped = s.dropped ∧
    (trySend cfg s x).1.finalised = s.finalised := by
  unfold trySend
  by_cases ho : s.isOpen <;> by_cases hc : s.pending.length < cfg.cap <;> simp [ho, hc, push]

/-- A callback that ran stays "ran". -/
theorem fired_mono_step (cfg : Cfg) (s : St) (l : Label) (s' : St) (w : Nat) (h : w ∈ s.fired)
    (hs : step cfg s l = some s') : w ∈ s'.fired := by
  cases l
  case send x => step_elim hs; rw [(send_fired cfg s x).1]; exact h
  case trySend x => step_elim hs; rw [(trySend_fired cfg s x).1]; exact h
  all_goals
    step_elim hs
    all_goals simp_all

theorem fired_mono (cfg : Cfg) (w : Nat) (ls : List Label) (s s' : St) (h : w ∈ s.fired)
    (hs : run (step cfg) s ls = some s') : w ∈ s'.fired :=
  run_invariant (Inv := fun t => w ∈ t.fired) (fun a l b ha st => fired_mono_step cfg a l b w ha st) ls s s' h hs

/-- Watchers are dropped unrun only by a receiver teardown. -/
theorem dropped_step (cfg : Cfg) (s : St) (l : Label) (s' : St) (h : s.dropped ≠ [] → s.tornDown = true)
    (hs : step cfg s l = some s') : s'.dropped ≠ [] → s'.tornDown = true := by
  cases l
  case send x => step_elim hs; rw [(send_fired cfg s x).2.1, (send_reg cfg s x).2]; exact h
  case trySend x => step_elim hs; rw [(trySend_fired cfg s x).2.1, (trySend_reg cfg s x).2]; exact h
  all_goals
    step_elim hs
    all_goals simp_all

end EmitModel.Batcher
