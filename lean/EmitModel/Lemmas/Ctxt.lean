/-
  Lemmas/Ctxt.lean — C03. The ghost bookkeeping (`G`: which frames are entered where, in what order, and what
  each opened frame shows), the well-nestedness discipline `wstep`/`run` ("exits happen in stack order per
  (thread, context); a frame is entered at most once at a time; a handle is opened once"), the inductive
  invariant `Inv` and its preservation by every event, and the bridge `compile_balanced`: every compiled
  program — guards, closures, polls, unwinding alike — is a balanced block.
-/
import EmitModel.Model.Ctxt
namespace EmitModel.Ctxt
variable {V : Type}

theorem get_insert (m : List (String × V)) (k : String) (v : V) (k' : String) :
    get (insert k v m) k' = if k = k' then some v else get m k' := by
  induction m with
  | nil => simp [insert, get]
  | cons a m ih =>
    obtain ⟨ka, va⟩ := a
    simp only [insert]
    split
    · simp [get]
    · split
      · rename_i h; subst h; simp only [get]; split <;> simp_all
      · simp only [get, ih]; split <;> rename_i h1
        · subst h1; simp_all
        · rfl

/-- last pair with key `k` -/
def lastOf (ps : List (String × V)) (k : String) : Option V :=
  match ps with
  | [] => none
  | (k', v) :: r => match lastOf r k with
    | some v' => some v'
    | none => if k' = k then some v else none

theorem get_insertAll (ps : List (String × V)) (m : List (String × V)) (k : String) :
    get (insertAll m ps) k = (lastOf ps k).or (get m k) := by
  induction ps generalizing m with
  | nil => simp [insertAll, lastOf]
  | cons a ps ih =>
    obtain ⟨ka, va⟩ := a
    have : insertAll m ((ka, va) :: ps) = insertAll (insert ka va m) ps := rfl
    rw [this, ih, get_insert]
    simp only [lastOf]
    cases lastOf ps k <;> simp
    split <;> simp

structure G (V : Type) where
  stack : Nat → Nat → List Nat
  loc : Nat → Option (Nat × Nat)
  ctxtOf : Nat → Option Nat
  view : Nat → Option (List (String × V))
  base : Nat → Nat → Option (List (String × V))

def setStack (a : Nat → Nat → List Nat) (t c : Nat) (v : List Nat) : Nat → Nat → List Nat :=
  fun t' c' => if t' = t ∧ c' = c then v else a t' c'

def wstep (s : St V) (g : G V) : Ev V → Option (G V)
  | .open t c f kind ps =>
    if g.ctxtOf f = none then
      some { g with ctxtOf := setSlot g.ctxtOf f (some c), view := setSlot g.view f (openFrame kind (s.active t c) ps) }
    else none
  | .enter t c f =>
    if g.ctxtOf f = some c ∧ g.loc f = none then
      some { g with stack := setStack g.stack t c (f :: g.stack t c), loc := setSlot g.loc f (some (t, c)) }
    else none
  | .exit t c f =>
    match g.stack t c with
    | f' :: rest => if f' = f then some { g with stack := setStack g.stack t c rest, loc := setSlot g.loc f none } else none
    | [] => none
  | .observe _ _ => some g

def run (s : St V) (g : G V) : List (Ev V) → Option (St V × G V)
  | [] => some (s, g)
  | e :: es =>
    match wstep s g e with
    | some g' => run (step s e) g' es
    | none => none

def topOf (g : G V) (t c : Nat) : List Nat → Option (List (String × V))
  | [] => g.base t c
  | f :: _ => g.view f

structure Inv (s : St V) (g : G V) : Prop where
  act : ∀ t c, s.active t c = topOf g t c (g.stack t c)
  chain : ∀ t c f r, (f :: r) <:+ g.stack t c → (s.slot f).get = topOf g t c r
  idle : ∀ f c, g.ctxtOf f = some c → g.loc f = none → (s.slot f).get = g.view f
  locs : ∀ t c f, f ∈ g.stack t c ↔ g.loc f = some (t, c)
  nodup : ∀ t c, (g.stack t c).Nodup
  opened : ∀ f p, g.loc f = some p → ∃ c, g.ctxtOf f = some c

@[simp] theorem Erased.get_new {α} (b : Bool) (a : α) : (Erased.new b a).get = a := by
  unfold Erased.new; split <;> rfl
@[simp] theorem Erased.get_set {α} (e : Erased α) (a : α) : (e.set a).get = a := by
  cases e <;> rfl

theorem inv_observe {s : St V} {g : G V} (h : Inv s g) (t c : Nat) : Inv (step s (.observe t c)) g := h



theorem topOf_congr (g g' : G V) (t c : Nat) (l : List Nat) (hb : g'.base = g.base)
    (hv : ∀ x ∈ l, g'.view x = g.view x) : topOf g' t c l = topOf g t c l := by
  cases l with
  | nil => simp [topOf, hb]
  | cons a l => simp [topOf, hv]

theorem inv_open {s : St V} {g : G V} (h : Inv s g) (t c f : Nat) (kind : Kind) (ps) (g' : G V)
    (hw : wstep s g (.open t c f kind ps) = some g') : Inv (step s (.open t c f kind ps)) g' := by
  simp only [wstep] at hw
  split at hw <;> simp at hw
  subst hw
  rename_i hf
  have notin : ∀ t c, f ∉ g.stack t c := by
    intro t c hm
    obtain ⟨c', hc⟩ := h.opened f _ ((h.locs t c f).1 hm)
    simp [hf] at hc
  have hview : ∀ t' c' l, l <:+ g.stack t' c' → ∀ x ∈ l,
      setSlot g.view f (openFrame kind (s.active t c) ps) x = g.view x := by
    intro t' c' l hl x hx
    have : x ≠ f := fun e => notin t' c' (e ▸ hl.subset hx)
    simp [setSlot, this]
  constructor
  · intro t' c'
    simp only [step]
    rw [h.act]
    apply Eq.symm; apply topOf_congr
    · rfl
    · exact hview t' c' _ (List.suffix_refl _)
  · intro t' c' f' r hs
    have hne : f' ≠ f := fun e => notin t' c' (e ▸ hs.subset (List.mem_cons_self))
    simp only [step, setSlot, hne, if_false]
    rw [h.chain t' c' f' r hs]
    apply Eq.symm; apply topOf_congr
    · rfl
    · exact hview t' c' r ((List.suffix_cons f' r).trans hs)
  · intro f' c' h1 h2
    simp only [step, setSlot] at *
    split
    · simp
    · simp_all; exact h.idle f' c' h1 h2
  · exact h.locs
  · exact h.nodup
  · intro f' p hp
    simp only [setSlot]; split
    · exact ⟨c, rfl⟩
    · exact h.opened f' p hp

theorem inv_enter {s : St V} {g : G V} (h : Inv s g) (t c f : Nat) (g' : G V)
    (hw : wstep s g (.enter t c f) = some g') : Inv (step s (.enter t c f)) g' := by
  simp only [wstep] at hw
  split at hw <;> simp at hw
  subst hw
  rename_i hf
  obtain ⟨hc, hl⟩ := hf
  have notin : ∀ t c, f ∉ g.stack t c := by
    intro t c hm
    have := (h.locs t c f).1 hm
    simp [hl] at this
  have hslot := h.idle f c hc hl
  constructor
  · intro t' c'
    simp only [step, swap, setActive, setStack]
    split
    · simp [topOf, hslot]
    · exact h.act t' c'
  · intro t' c' f' r hs
    simp only [step, swap, setSlot, setStack] at *
    split at hs
    · rename_i htc; obtain ⟨rfl, rfl⟩ := htc
      rcases List.suffix_cons_iff.1 hs with heq | hs'
      · injection heq with h1 h2; subst h1 h2
        simp [h.act]; rfl
      · have hne : f' ≠ f := fun e => notin t' c' (e ▸ hs'.subset (List.mem_cons_self))
        simp [hne]; exact h.chain _ _ _ _ hs'
    · have hne : f' ≠ f := fun e => notin t' c' (e ▸ hs.subset (List.mem_cons_self))
      simp [hne]; exact h.chain _ _ _ _ hs
  · intro f' c' h1 h2
    simp only [step, swap, setSlot] at *
    split at h2
    · simp at h2
    · rename_i hne; simp [hne]; exact h.idle f' c' h1 h2
  · intro t' c' f'
    simp only [setStack, setSlot]
    by_cases htc : t' = t ∧ c' = c
    · obtain ⟨rfl, rfl⟩ := htc
      simp only [and_self, if_true, List.mem_cons]
      by_cases hff : f' = f
      · simp [hff]
      · simp [hff]; exact h.locs _ _ _
    · simp only [htc, if_false]
      by_cases hff : f' = f
      · subst hff; simp [notin]; intro h1 h2; exact htc ⟨h1.symm, h2.symm⟩
      · simp [hff]; exact h.locs _ _ _
  · intro t' c'
    simp only [setStack]; split
    · rename_i htc; obtain ⟨rfl, rfl⟩ := htc
      exact List.nodup_cons.2 ⟨notin _ _, h.nodup _ _⟩
    · exact h.nodup _ _
  · intro f' p hp
    simp only [setSlot] at hp
    split at hp
    · rename_i e; subst e; exact ⟨c, hc⟩
    · exact h.opened f' p hp

theorem inv_exit {s : St V} {g : G V} (h : Inv s g) (t c f : Nat) (g' : G V)
    (hw : wstep s g (.exit t c f) = some g') : Inv (step s (.exit t c f)) g' := by
  simp only [wstep] at hw
  split at hw <;> simp at hw
  rename_i f0 rest hst
  obtain ⟨rfl, rfl⟩ := hw
  have hnd := h.nodup t c
  rw [hst] at hnd
  have hfr : f0 ∉ rest := (List.nodup_cons.1 hnd).1
  have hloc : g.loc f0 = some (t, c) := (h.locs t c f0).1 (by rw [hst]; exact List.mem_cons_self)
  have other : ∀ t' c' f', f' ∈ g.stack t' c' → ¬(t' = t ∧ c' = c) → f' ≠ f0 := by
    intro t' c' f' hm htc e
    subst e
    have := (h.locs t' c' f').1 hm
    rw [hloc] at this
    injection this with this; injection this with h1 h2
    exact htc ⟨h1.symm, h2.symm⟩
  constructor
  · intro t' c'
    simp only [step, swap, setActive, setStack]
    split
    · rename_i htc; obtain ⟨rfl, rfl⟩ := htc
      exact h.chain _ _ f0 rest (by rw [hst]; exact List.suffix_refl _)
    · exact h.act t' c'
  · intro t' c' f' r hs
    simp only [step, swap, setSlot, setStack] at *
    split at hs
    · rename_i htc; obtain ⟨rfl, rfl⟩ := htc
      have hne : f' ≠ f0 := fun e => hfr (e ▸ hs.subset (List.mem_cons_self))
      simp [hne]
      exact h.chain _ _ _ _ (by rw [hst]; exact hs.trans (List.suffix_cons _ _))
    · rename_i htc
      have hne : f' ≠ f0 := other t' c' f' (hs.subset (List.mem_cons_self)) htc
      simp [hne]; exact h.chain _ _ _ _ hs
  · intro f' c' h1 h2
    simp only [step, swap, setSlot] at *
    split
    · rename_i e; subst e
      simp [h.act, hst, topOf]
    · rename_i hne; simp [hne] at h2; exact h.idle f' c' h1 h2
  · intro t' c' f'
    simp only [setStack, setSlot]
    by_cases htc : t' = t ∧ c' = c
    · obtain ⟨rfl, rfl⟩ := htc
      simp only [and_self, if_true]
      by_cases hff : f' = f0
      · subst hff; simp [hfr]
      · simp [hff]; rw [← h.locs, hst]; simp [hff]
    · simp only [htc, if_false]
      by_cases hff : f' = f0
      · subst hff; simp
        intro hm; exact other t' c' f' hm htc rfl
      · simp [hff]; exact h.locs _ _ _
  · intro t' c'
    simp only [setStack]; split
    · exact (List.nodup_cons.1 hnd).2
    · exact h.nodup _ _
  · intro f' p hp
    simp only [setSlot] at hp
    split at hp
    · simp at hp
    · exact h.opened f' p hp

theorem inv_step {s : St V} {g : G V} (h : Inv s g) (e : Ev V) (g' : G V) (hw : wstep s g e = some g') :
    Inv (step s e) g' := by
  cases e with
  | «open» t c f kind ps => exact inv_open h t c f kind ps g' hw
  | enter t c f => exact inv_enter h t c f g' hw
  | exit t c f => exact inv_exit h t c f g' hw
  | observe t c => simp [wstep] at hw; subst hw; exact h

theorem inv_run {s : St V} {g : G V} (h : Inv s g) (evs : List (Ev V)) (s' : St V) (g' : G V)
    (hr : run s g evs = some (s', g')) : Inv s' g' := by
  induction evs generalizing s g with
  | nil => simp [run] at hr; obtain ⟨rfl, rfl⟩ := hr; exact h
  | cons e es ih =>
    simp only [run] at hr
    split at hr
    · rename_i g1 hw; exact ih (inv_step h e g1 hw) hr
    · simp at hr

theorem run_fst {s : St V} {g : G V} (evs : List (Ev V)) (s' : St V) (g' : G V)
    (hr : run s g evs = some (s', g')) : s' = exec s evs := by
  induction evs generalizing s g with
  | nil => simp [run] at hr; simp [exec, hr.1]
  | cons e es ih =>
    simp only [run] at hr
    split at hr
    · exact ih hr
    · simp at hr

theorem run_append {s : St V} {g : G V} (a b : List (Ev V)) :
    run s g (a ++ b) = (run s g a).bind (fun p => run p.1 p.2 b) := by
  induction a generalizing s g with
  | nil => simp [run]
  | cons e es ih =>
    simp only [List.cons_append, run]
    split
    · exact ih
    · simp

/-- the ghost bookkeeping only ever adds opened frames, and never changes the view of an opened frame -/
structure Ext (g g' : G V) : Prop where
  ctxtOf : ∀ f c, g.ctxtOf f = some c → g'.ctxtOf f = some c
  view : ∀ f c, g.ctxtOf f = some c → g'.view f = g.view f
  base : g'.base = g.base

theorem Ext.refl (g : G V) : Ext g g := ⟨fun _ _ h => h, fun _ _ _ => rfl, rfl⟩
theorem Ext.trans {g1 g2 g3 : G V} (a : Ext g1 g2) (b : Ext g2 g3) : Ext g1 g3 :=
  ⟨fun f c h => b.ctxtOf f c (a.ctxtOf f c h), fun f c h => (b.view f c (a.ctxtOf f c h)).trans (a.view f c h),
   b.base.trans a.base⟩

theorem ext_step {s : St V} {g : G V} (e : Ev V) (g' : G V) (hw : wstep s g e = some g') : Ext g g' := by
  cases e with
  | «open» t c f kind ps =>
    simp only [wstep] at hw
    split at hw <;> simp at hw
    subst hw
    rename_i hf
    refine ⟨?_, ?_, rfl⟩
    · intro f' c' h; simp only [setSlot]; split
      · rename_i e; subst e; simp [hf] at h
      · exact h
    · intro f' c' h; simp only [setSlot]; split
      · rename_i e; subst e; simp [hf] at h
      · rfl
  | enter t c f =>
    simp only [wstep] at hw
    split at hw <;> simp at hw
    subst hw; exact ⟨fun _ _ h => h, fun _ _ _ => rfl, rfl⟩
  | exit t c f =>
    simp only [wstep] at hw
    split at hw <;> simp at hw
    obtain ⟨_, rfl⟩ := hw; exact ⟨fun _ _ h => h, fun _ _ _ => rfl, rfl⟩
  | observe t c => simp [wstep] at hw; subst hw; exact Ext.refl g

theorem ext_run {s : St V} {g : G V} (evs : List (Ev V)) (s' : St V) (g' : G V)
    (hr : run s g evs = some (s', g')) : Ext g g' := by
  induction evs generalizing s g with
  | nil => simp [run] at hr; rw [hr.2]; exact Ext.refl _
  | cons e es ih =>
    simp only [run] at hr
    split at hr
    · rename_i g1 hw; exact (ext_step e g1 hw).trans (ih hr)
    · simp at hr

structure Agree (σ : List (Nat × FSt)) (g : G V) : Prop where
  fresh : ∀ f, lookupF σ f = none → g.ctxtOf f = none
  idle : ∀ f c, lookupF σ f = some (.idle c) → g.ctxtOf f = some c ∧ g.loc f = none

theorem setStack_restore (st : Nat → Nat → List Nat) (t c : Nat) (l : List Nat) :
    setStack (setStack st t c l) t c (st t c) = st := by
  funext t' c'; simp only [setStack]; split
  · rename_i h; rw [h.1, h.2]
  · rfl

/-- What a compiled program does to the ghost state: it runs (never gets stuck), leaves every stack as it
    found it, and keeps the scoping state in agreement. -/
def Balanced (σ : List (Nat × FSt)) (evs : List (Ev V)) (σ' : List (Nat × FSt)) : Prop :=
  ∀ (s : St V) (g : G V), Agree σ g → Inv s g →
    ∃ s' g', run s g evs = some (s', g') ∧ g'.stack = g.stack ∧ Agree σ' g'

mutual
theorem compile_balanced (p : SProg V) (t : Nat) (σ : List (Nat × FSt)) (evs : List (Ev V)) (σ' : List (Nat × FSt))
    (hc : compile t σ p = some (evs, σ')) : Balanced σ evs σ' := by
  intro s g ha hi
  cases p with
  | obs c =>
    simp [compile] at hc; obtain ⟨rfl, rfl⟩ := hc
    exact ⟨s, g, by simp [run, wstep, step], rfl, ha⟩
  | new f c kind ps =>
    simp only [compile] at hc
    split at hc <;> simp at hc
    obtain ⟨rfl, rfl⟩ := hc
    rename_i hl
    have hf := ha.fresh f hl
    refine ⟨step s (.open t c f kind ps), { g with ctxtOf := setSlot g.ctxtOf f (some c), view := setSlot g.view f (openFrame kind (s.active t c) ps) }, by simp only [run, wstep, hf, if_true], rfl, ?_, ?_⟩
    · intro f' h'; simp only [lookupF] at h'; split at h'
      · simp at h'
      · rename_i hne; simp only [setSlot, Ne.symm hne, if_false]; exact ha.fresh f' h'
    · intro f' c' h'; simp only [lookupF] at h'; split at h'
      · rename_i e; subst e; simp at h'; subst h'
        refine ⟨by simp [setSlot], ?_⟩
        cases hloc : g.loc f with
        | none => rfl
        | some p => obtain ⟨c'', hc''⟩ := hi.opened f p hloc; simp [hf] at hc''
      · rename_i hne; simp only [setSlot, Ne.symm hne, if_false]; exact ha.idle f' c' h'
  | use f m body =>
    simp only [compile] at hc
    split at hc <;> try simp at hc
    rename_i c hl
    split at hc <;> simp at hc
    rename_i ebody σb hcb
    obtain ⟨rfl, rfl⟩ := hc
    obtain ⟨hco, hlo⟩ := ha.idle f c hl
    -- enter
    let g1 : G V := { g with stack := setStack g.stack (m.thread t) c (f :: g.stack (m.thread t) c),
                             loc := setSlot g.loc f (some (m.thread t, c)) }
    have hw1 : wstep s g (.enter (m.thread t) c f) = some g1 := by simp [wstep, hco, hlo, g1]
    have hi1 := inv_step hi _ _ hw1
    have ha1 : Agree ((f, FSt.entered) :: σ) g1 := by
      constructor
      · intro f' h'; simp only [lookupF] at h'; split at h'
        · simp at h'
        · exact ha.fresh f' h'
      · intro f' c' h'; simp only [lookupF] at h'; split at h'
        · simp at h'
        · rename_i hne; have := ha.idle f' c' h'; simp [g1, setSlot, Ne.symm hne, this]
    -- optional observation
    have hobs : ∀ (l : List (Ev V)), run (step s (.enter (m.thread t) c f)) g1
        ((if m.observes then [Ev.observe (m.thread t) c] else []) ++ l) = run (step s (.enter (m.thread t) c f)) g1 l := by
      intro l; split <;> simp [run, wstep, step]
    obtain ⟨s2, g2, hr2, hst2, ha2⟩ := compileL_balanced body (m.thread t) _ ebody σb hcb _ g1 ha1 hi1
    have hx := ext_run _ _ _ hr2
    have hi2 := inv_run hi1 _ _ _ hr2
    have hstk : g2.stack (m.thread t) c = f :: g.stack (m.thread t) c := by
      rw [hst2]; simp [g1, setStack]
    let g3 : G V := { g2 with stack := setStack g2.stack (m.thread t) c (g.stack (m.thread t) c),
                              loc := setSlot g2.loc f none }
    have hw3 : wstep s2 g2 (.exit (m.thread t) c f) = some g3 := by simp [wstep, hstk, g3]
    refine ⟨step s2 (.exit (m.thread t) c f), g3, ?_, ?_, ?_⟩
    · simp only [run, hw1, hobs, run_append, hr2, Option.bind, hw3]
    · simp only [g3, hst2, g1]; exact setStack_restore _ _ _ _
    · constructor
      · intro f' h'; simp only [lookupF] at h'; split at h'
        · simp at h'
        · exact ha2.fresh f' h'
      · intro f' c' h'; simp only [lookupF] at h'; split at h'
        · rename_i e; subst e
          split at h' <;> simp at h'
          subst h'
          exact ⟨hx.ctxtOf _ _ (by simpa [g1] using hco), by simp [g3, setSlot]⟩
        · rename_i hne; have := ha2.idle f' c' h'; simp [g3, setSlot, Ne.symm hne, this]
  | on t' body =>
    simp only [compile] at hc
    exact compileL_balanced body t' σ evs σ' hc s g ha hi
  | catch_ body =>
    simp only [compile] at hc
    exact compileL_balanced body t σ evs σ' hc s g ha hi
  | panic =>
    simp [compile] at hc; obtain ⟨rfl, rfl⟩ := hc
    exact ⟨s, g, by simp [run], rfl, ha⟩
  | drop f =>
    simp only [compile] at hc
    split at hc <;> simp at hc
    obtain ⟨rfl, rfl⟩ := hc
    refine ⟨s, g, by simp [run], rfl, ?_, ?_⟩
    · intro f' h'; simp only [lookupF] at h'; split at h'
      · simp at h'
      · exact ha.fresh f' h'
    · intro f' c' h'; simp only [lookupF] at h'; split at h'
      · simp at h'
      · exact ha.idle f' c' h'
  | parts f =>
    simp only [compile] at hc
    split at hc <;> simp at hc
    obtain ⟨rfl, rfl⟩ := hc
    exact ⟨s, g, by simp [run], rfl, ha⟩
theorem compileL_balanced (ps : List (SProg V)) (t : Nat) (σ : List (Nat × FSt)) (evs : List (Ev V))
    (σ' : List (Nat × FSt)) (hc : compileL t σ ps = some (evs, σ')) : Balanced σ evs σ' := by
  intro s g ha hi
  cases ps with
  | nil =>
    simp [compileL] at hc; obtain ⟨rfl, rfl⟩ := hc
    exact ⟨s, g, by simp [run], rfl, ha⟩
  | cons p ps =>
    simp only [compileL] at hc
    split at hc <;> try simp at hc
    rename_i e1 σ1 hc1
    obtain ⟨s1, g1, hr1, hst1, ha1⟩ := compile_balanced p t σ e1 σ1 hc1 s g ha hi
    split at hc
    · simp at hc; obtain ⟨rfl, rfl⟩ := hc
      exact ⟨s1, g1, hr1, hst1, ha1⟩
    · split at hc <;> simp at hc
      rename_i e2 σ2 hc2
      obtain ⟨rfl, rfl⟩ := hc
      obtain ⟨s2, g2, hr2, hst2, ha2⟩ := compileL_balanced ps t σ1 e2 σ2 hc2 s1 g1 ha1 (inv_run hi _ _ _ hr1)
      exact ⟨s2, g2, by simp [run_append, hr1, Option.bind, hr2], hst2.trans hst1, ha2⟩
end
end EmitModel.Ctxt
