/-
  Lemmas/HexId.lean — helper lemmas about Model/HexId.lean (C15).
  Also the *specification vocabulary* of the hex codecs: the documented alphabet `[0-9a-fA-F]`, the numeric
  value of a hex text, ASCII lower-casing. These definitions are independent of the model's tables.
-/
import EmitModel.Model.HexId

namespace EmitModel.HexId
open EmitModel.Text

/-- the documented alphabet `[0-9a-fA-F]` -/
def isHexDigit (b : UInt8) : Bool := (48 ≤ b && b ≤ 57) || (97 ≤ b && b ≤ 102) || (65 ≤ b && b ≤ 70)

/-- numeric value of a hex digit -/
def hexDigitVal (b : UInt8) : Nat :=
  if 48 ≤ b && b ≤ 57 then b.toNat - 48 else if 97 ≤ b && b ≤ 102 then b.toNat - 87 else b.toNat - 55

/-- numeric value of a hex text, most significant digit first -/
def hexValue (bs : List UInt8) : Nat := bs.foldl (fun acc b => acc * 16 + hexDigitVal b) 0

def asciiLower (b : UInt8) : UInt8 := if 65 ≤ b && b ≤ 90 then b + 32 else b

theorem forall_uint8 {P : UInt8 → Prop} (h : ∀ n, n < 256 → P (UInt8.ofNat n)) : ∀ b, P b := by
  intro b
  have := h b.toNat b.toNat_lt
  simpa using this

/-! ### the tables -/

theorem byte_roundtrip : ∀ b : UInt8,
    (hexDecode (hexEncode (b >>> 4)) ||| hexDecode (hexEncode (b &&& 0x0f))) ≠ 0xff ∧
    ((hexDecode (hexEncode (b >>> 4)) <<< 4) ||| hexDecode (hexEncode (b &&& 0x0f))) = b := by
  apply forall_uint8
  decide +kernel

theorem hexEncode_shape : ∀ b : UInt8,
    isHexDigit (hexEncode (b >>> 4)) = true ∧ isHexDigit (hexEncode (b &&& 0x0f)) = true ∧
    asciiLower (hexEncode (b >>> 4)) = hexEncode (b >>> 4) ∧
    asciiLower (hexEncode (b &&& 0x0f)) = hexEncode (b &&& 0x0f) := by
  apply forall_uint8
  decide +kernel

theorem hexDecode_spec : ∀ b : UInt8,
    (isHexDigit b = true →
      (hexDecode b).toNat = hexDigitVal b ∧ hexDecode b < 16 ∧ hexEncode (hexDecode b) = asciiLower b) ∧
    (isHexDigit b = false → hexDecode b = 0xff) := by
  apply forall_uint8
  decide +kernel

theorem nibble_pair : ∀ a b : UInt8, a < 16 → b < 16 →
    (a ||| b) ≠ 0xff ∧ ((a <<< 4) ||| b).toNat = a.toNat * 16 + b.toNat ∧
    ((a <<< 4) ||| b) >>> 4 = a ∧ ((a <<< 4) ||| b) &&& 0x0f = b := by
  have : ∀ n, n < 16 → ∀ m, m < 16 →
      (UInt8.ofNat n ||| UInt8.ofNat m) ≠ 0xff ∧
      ((UInt8.ofNat n <<< 4) ||| UInt8.ofNat m).toNat = (UInt8.ofNat n).toNat * 16 + (UInt8.ofNat m).toNat ∧
      ((UInt8.ofNat n <<< 4) ||| UInt8.ofNat m) >>> 4 = UInt8.ofNat n ∧
      ((UInt8.ofNat n <<< 4) ||| UInt8.ofNat m) &&& 0x0f = UInt8.ofNat m := by
    decide +kernel
  intro a b ha hb
  have := this a.toNat (by simpa [UInt8.lt_iff_toNat_lt] using ha) b.toNat (by simpa [UInt8.lt_iff_toNat_lt] using hb)
  simpa using this

theorem or_ff : ∀ a b : UInt8, a = 0xff ∨ b = 0xff → (a ||| b) = 0xff := by
  intro a b h
  rcases h with rfl | rfl
  · revert b; apply forall_uint8; decide +kernel
  · revert a; apply forall_uint8; decide +kernel

/-- one step of the decode loop: the sentinel test is exactly "one of the two is not a hex digit" -/
theorem pair_ok (a b : UInt8) :
    ((hexDecode a ||| hexDecode b) == 0xff) = !(isHexDigit a && isHexDigit b) := by
  cases ha : isHexDigit a <;> cases hb : isHexDigit b
  · simp [or_ff _ _ (Or.inl ((hexDecode_spec a).2 ha))]
  · simp [or_ff _ _ (Or.inl ((hexDecode_spec a).2 ha))]
  · simp [or_ff _ _ (Or.inr ((hexDecode_spec b).2 hb))]
  · have h1 := ((hexDecode_spec a).1 ha).2.1
    have h2 := ((hexDecode_spec b).1 hb).2.1
    simp [(nibble_pair _ _ h1 h2).1]

theorem hexDigitVal_zero : ∀ b : UInt8, isHexDigit b = true → (hexDigitVal b = 0 ↔ b = 48) := by
  apply forall_uint8
  decide +kernel

/-! ### big-endian bytes -/

theorem toBeBytes_length (n v : Nat) : (toBeBytes n v).length = n := by
  induction n generalizing v with
  | zero => rfl
  | succ n ih => simp [toBeBytes, ih]

theorem encodeBytes_length (bs : List UInt8) : (encodeBytes bs).length = 2 * bs.length := by
  induction bs with
  | nil => rfl
  | cons b rest ih =>
    simp only [encodeBytes, List.flatMap_cons, List.length_append, List.length_cons, List.length_nil] at *
    omega

theorem toHex_length (n v : Nat) : (toHex n v).length = 2 * n := by
  simp [toHex, encodeBytes_length, toBeBytes_length]

theorem fromBeBytes_append (xs : List UInt8) (b : UInt8) :
    fromBeBytes (xs ++ [b]) = fromBeBytes xs * 256 + b.toNat := by
  simp [fromBeBytes, List.foldl_append]

theorem fromBeBytes_toBeBytes (n v : Nat) : fromBeBytes (toBeBytes n v) = v % 256 ^ n := by
  induction n generalizing v with
  | zero => simp [toBeBytes, fromBeBytes, Nat.mod_one]
  | succ n ih =>
    simp only [toBeBytes, fromBeBytes_append, ih]
    have : (UInt8.ofNat (v % 256)).toNat = v % 256 := by simp
    rw [this, Nat.pow_succ]
    have h1 := Nat.mod_mul_right_div_self v 256 (256 ^ n)
    have := Nat.div_add_mod (v % (256 ^ n * 256)) 256
    rw [Nat.mul_comm (256^n) 256] at *
    have h2 : v % (256 * 256 ^ n) % 256 = v % 256 := Nat.mod_mul_right_mod v 256 (256 ^ n)
    omega

theorem toBeBytes_fromBeBytes (n : Nat) (dst : List UInt8) (h : dst.length = n) :
    toBeBytes n (fromBeBytes dst) = dst := by
  induction n generalizing dst with
  | zero => simp at h; subst h; rfl
  | succ n ih =>
    have hne : dst ≠ [] := by intro h0; subst h0; simp at h
    have hsplit := List.dropLast_concat_getLast hne
    rw [← hsplit, fromBeBytes_append]
    simp only [toBeBytes]
    have hb := (dst.getLast hne).toNat_lt
    have h1 : (fromBeBytes dst.dropLast * 256 + (dst.getLast hne).toNat) / 256 = fromBeBytes dst.dropLast := by omega
    have h2 : (fromBeBytes dst.dropLast * 256 + (dst.getLast hne).toNat) % 256 = (dst.getLast hne).toNat := by omega
    rw [h1, h2, ih _ (by simp [h])]
    simp

theorem fromBeBytes_lt (dst : List UInt8) : fromBeBytes dst < 256 ^ dst.length := by
  have h := fromBeBytes_toBeBytes dst.length (fromBeBytes dst)
  rw [toBeBytes_fromBeBytes _ _ rfl] at h
  rw [h]
  exact Nat.mod_lt _ (Nat.pow_pos (by decide))

/-! ### the encode and decode loops -/

theorem decodePairs_encodeBytes (bs : List UInt8) : decodePairs (encodeBytes bs) = some bs := by
  induction bs with
  | nil => rfl
  | cons b rest ih =>
    have h := byte_roundtrip b
    simp only [encodeBytes, List.flatMap_cons, List.cons_append, List.nil_append] at *
    simp [decodePairs, h.1, h.2, ih]

theorem encodeBytes_shape (bs : List UInt8) :
    ∀ c ∈ encodeBytes bs, isHexDigit c = true ∧ asciiLower c = c := by
  induction bs with
  | nil => simp [encodeBytes]
  | cons b rest ih =>
    have h := hexEncode_shape b
    simp only [encodeBytes, List.flatMap_cons, List.cons_append, List.nil_append, List.mem_cons] at *
    rintro c (rfl | rfl | hc)
    · exact ⟨h.1, h.2.2.1⟩
    · exact ⟨h.2.1, h.2.2.2⟩
    · exact ih c hc

/-- `decodePairs` succeeds only on runs of hex digits; the bytes it produces spell the numeric value of the
    text and re-encode to the lower-cased text. -/
theorem decodePairs_some (bs dst : List UInt8) (h : decodePairs bs = some dst) :
    bs.length = 2 * dst.length ∧ (∀ b ∈ bs, isHexDigit b = true) ∧
    (∀ A, dst.foldl (fun acc b => acc * 256 + b.toNat) A = bs.foldl (fun acc b => acc * 16 + hexDigitVal b) A) ∧
    encodeBytes dst = bs.map asciiLower := by
  induction bs using decodePairs.induct generalizing dst with
  | case1 => simp [decodePairs] at h; subst h; simp [encodeBytes]
  | case2 x => simp [decodePairs] at h
  | case3 a b rest h1 h2 hbad =>
    simp only [decodePairs] at h
    simp only [h1, h2] at hbad
    simp [hbad] at h
  | case4 a b rest h1 h2 hok ih =>
    simp only [decodePairs] at h
    simp only [h1, h2] at hok
    simp only [hok] at h
    cases hr : decodePairs rest with
    | none => simp [hr] at h
    | some tl =>
      simp [hr] at h
      subst h
      have ⟨l, d, f, e⟩ := ih tl hr
      rw [pair_ok] at hok
      simp at hok
      have ⟨va, la, ea⟩ := (hexDecode_spec a).1 hok.1
      have ⟨vb, lb, eb⟩ := (hexDecode_spec b).1 hok.2
      have np := nibble_pair _ _ la lb
      refine ⟨by simp [l]; omega, ?_, ?_, ?_⟩
      · intro x hx
        simp at hx
        rcases hx with rfl | rfl | hx
        · exact hok.1
        · exact hok.2
        · exact d x hx
      · intro A
        simp only [List.foldl_cons]
        rw [f, np.2.1, va, vb]
        congr 1
        omega
      · simp only [encodeBytes, List.flatMap_cons, List.map_cons] at *
        rw [e, np.2.2.1, np.2.2.2, ea, eb]
        simp

theorem decodePairs_none (bs : List UInt8) (h : decodePairs bs = none) :
    bs.length % 2 = 1 ∨ ∃ b ∈ bs, isHexDigit b = false := by
  induction bs using decodePairs.induct with
  | case1 => simp [decodePairs] at h
  | case2 x => simp
  | case3 a b rest h1 h2 hbad =>
    simp only [h1, h2] at hbad
    rw [pair_ok] at hbad
    right
    simp at hbad
    cases ha : isHexDigit a
    · exact ⟨a, by simp, ha⟩
    · exact ⟨b, by simp, by simpa [ha] using hbad⟩
  | case4 a b rest h1 h2 hok ih =>
    simp only [decodePairs] at h
    simp only [h1, h2] at hok
    simp only [hok] at h
    cases hr : decodePairs rest with
    | some tl => simp [hr] at h
    | none =>
      rcases ih hr with h | ⟨x, hx, hd⟩
      · left; simp; omega
      · right; exact ⟨x, by simp [hx], hd⟩

/-! ### zero -/

theorem foldl_hex_zero (bs : List UInt8) (A : Nat) :
    bs.foldl (fun acc b => acc * 16 + hexDigitVal b) A = 0 ↔ A = 0 ∧ ∀ b ∈ bs, hexDigitVal b = 0 := by
  induction bs generalizing A with
  | nil => simp
  | cons b rest ih =>
    simp only [List.foldl_cons, ih, List.mem_cons, forall_eq_or_imp]
    constructor
    · rintro ⟨h1, h2⟩; exact ⟨by omega, by omega, h2⟩
    · rintro ⟨h1, h2, h3⟩; exact ⟨by omega, h3⟩

theorem hexValue_zero (bs : List UInt8) (hd : ∀ b ∈ bs, isHexDigit b = true) :
    hexValue bs = 0 ↔ ∀ b ∈ bs, b = 48 := by
  unfold hexValue
  rw [foldl_hex_zero]
  simp only [true_and]
  constructor
  · intro h b hb; exact (hexDigitVal_zero b (hd b hb)).1 (h b hb)
  · intro h b hb; exact (hexDigitVal_zero b (hd b hb)).2 (h b hb)

/-- Full characterisation of `try_from_hex_slice`. -/
theorem tryFromHexSlice_eq_some (n : Nat) (bs : List UInt8) (v : Nat) :
    tryFromHexSlice n bs = some v ↔
      bs.length = 2 * n ∧ (∀ b ∈ bs, isHexDigit b = true) ∧ hexValue bs = v ∧ v ≠ 0 := by
  unfold tryFromHexSlice
  by_cases hl : bs.length = 2 * n
  · simp only [hl, ne_eq, not_true_eq_false, ↓reduceIte, true_and]
    cases hd : decodePairs bs with
    | none =>
      constructor
      · intro h; cases h
      · rintro ⟨hall, _, _⟩
        rcases decodePairs_none bs hd with h | ⟨b, hb, hbd⟩
        · omega
        · rw [hall b hb] at hbd; cases hbd
    | some dst =>
      have ⟨_, hall, hval, _⟩ := decodePairs_some bs dst hd
      have hv : fromBeBytes dst = hexValue bs := hval 0
      simp only [hv]
      by_cases hz : hexValue bs = 0
      · simp only [hz, ↓reduceIte]
        constructor
        · intro h; cases h
        · rintro ⟨_, h1, h2⟩; omega
      · simp only [hz, ↓reduceIte, Option.some.injEq]
        constructor
        · intro h; exact ⟨hall, h, by omega⟩
        · intro h; exact h.2.1
  · simp [hl]

end EmitModel.HexId

namespace EmitModel.HexId
open EmitModel.Text

theorem tryFromHexSlice_some_dst (n : Nat) (bs : List UInt8) (v : Nat) (h : tryFromHexSlice n bs = some v) :
    ∃ dst, decodePairs bs = some dst ∧ dst.length = n ∧ fromBeBytes dst = v := by
  unfold tryFromHexSlice at h
  by_cases hl : bs.length = 2 * n
  · simp only [hl, ne_eq, not_true_eq_false, ↓reduceIte] at h
    cases hd : decodePairs bs with
    | none => simp [hd] at h
    | some dst =>
      simp only [hd] at h
      have ⟨l, _, _, _⟩ := decodePairs_some bs dst hd
      by_cases hz : fromBeBytes dst = 0
      · simp [hz] at h
      · simp only [hz, ↓reduceIte, Option.some.injEq] at h
        exact ⟨dst, rfl, by omega, h⟩
  · simp [hl] at h

/-- `try_from_hex` (through `Buffer<2n>`) accepts and rejects exactly what `try_from_hex_slice` does. -/
theorem tryFromHex_eq (n : Nat) (s : List UInt8) : tryFromHex n s = tryFromHexSlice n s := by
  unfold tryFromHex buffer
  by_cases h : s.length ≤ 2 * n
  · simp [h]
  · have : s.length ≠ 2 * n := by omega
    simp [h, tryFromHexSlice, this]

/-- parsing the text of a non-zero `n`-byte id gives the id back -/
theorem tryFromHexSlice_toHex (n v : Nat) (h0 : v ≠ 0) (hlt : v < 256 ^ n) :
    tryFromHexSlice n (toHex n v) = some v := by
  unfold tryFromHexSlice
  simp only [toHex_length, ne_eq, not_true_eq_false, ↓reduceIte]
  simp only [toHex, decodePairs_encodeBytes, fromBeBytes_toBeBytes, Nat.mod_eq_of_lt hlt, h0, ↓reduceIte]

end EmitModel.HexId
