/-
  Lemmas/FileSetChunks.lean — the shape of file contents (DESIGN Appendix A.3, as a language of byte strings):

    Clean ::= ε | Clean · event | Clean · sep | Clean · trunc · sep          (ends on a record boundary)
    Good  ::= Clean | Clean · trunc                                          (may end in a torn event)

  `event` ranges over a set `E` of event buffers, `trunc` over non-empty strict prefixes of members of `E`, and
  `trunc` pieces are allowed only when the flag `t` (an interrupting fault has happened) is set.
-/
import EmitModel.Lemmas.FileSetNames

namespace EmitModel.FileSet

section
variable (E : List Nat → Prop) (c : Nat)

/-- A non-empty strict prefix of an event buffer. -/
def IsTrunc (p : List Nat) : Prop := p ≠ [] ∧ ∃ e, E e ∧ p <+: e ∧ p.length < e.length

inductive Clean (t : Bool) : List Nat → Prop
  | nil : Clean t []
  | evt {x e : List Nat} : Clean t x → E e → Clean t (x ++ e)
  | sep {x : List Nat} : Clean t x → Clean t (x ++ [c])
  | trunc {x p : List Nat} : Clean t x → t = true → IsTrunc E p → Clean t (x ++ p ++ [c])

def Good (t : Bool) (x : List Nat) : Prop :=
  Clean E c t x ∨ (t = true ∧ ∃ x0 p, Clean E c t x0 ∧ IsTrunc E p ∧ x = x0 ++ p)

variable {E c}

theorem Clean.mono {t : Bool} {x : List Nat} (h : Clean E c t x) : Clean E c true x := by
  induction h with
  | nil => exact .nil
  | evt _ he ih => exact .evt ih he
  | sep _ ih => exact .sep ih
  | trunc _ _ hp ih => exact .trunc ih rfl hp

theorem Clean.mono' {t t' : Bool} {x : List Nat} (h : Clean E c t x) (ht : t = true → t' = true) :
    Clean E c t' x := by
  cases t with
  | false =>
    induction h with
    | nil => exact .nil
    | evt _ he ih => exact .evt ih he
    | sep _ ih => exact .sep ih
    | trunc _ ht' _ _ => cases ht'
  | true => rw [ht rfl]; exact h

theorem Good.mono' {t t' : Bool} {x : List Nat} (h : Good E c t x) (ht : t = true → t' = true) :
    Good E c t' x := by
  rcases h with h | ⟨htt, x0, p, h0, hp, rfl⟩
  · exact .inl (h.mono' ht)
  · exact .inr ⟨ht htt, x0, p, h0.mono' ht, hp, rfl⟩

theorem Clean.good {t : Bool} {x : List Nat} (h : Clean E c t x) : Good E c t x := .inl h

theorem Good.nil {t : Bool} : Good E c t [] := .inl .nil

/-- Writing the separator makes any good content clean. -/
theorem Good.append_sep {t : Bool} {x : List Nat} (h : Good E c t x) : Clean E c t (x ++ [c]) := by
  rcases h with h | ⟨htt, x0, p, h0, hp, rfl⟩
  · exact .sep h
  · exact .trunc h0 htt hp

/-- A torn write of an event after clean content. -/
theorem Clean.append_trunc {t : Bool} {x p : List Nat} (h : Clean E c t x) (ht : t = true) (hp : IsTrunc E p) :
    Good E c t (x ++ p) := .inr ⟨ht, x, p, h, hp, rfl⟩

theorem IsTrunc.take {p : List Nat} (hp : IsTrunc E p) {k : Nat} (hk : 0 < k) : IsTrunc E (p.take k) := by
  obtain ⟨hne, e, he, hpre, hlen⟩ := hp
  refine ⟨?_, e, he, ?_, ?_⟩
  · cases p with
    | nil => exact absurd rfl hne
    | cons a as => cases k with
      | zero => omega
      | succ k => simp
  · exact List.IsPrefix.trans (List.take_prefix k p) hpre
  · rw [List.length_take]; omega

theorem isTrunc_take_event {e : List Nat} (he : E e) {k : Nat} (hk : 0 < k) (hlt : k < e.length) :
    IsTrunc E (e.take k) := by
  refine ⟨?_, e, he, List.take_prefix k e, ?_⟩
  · cases e with
    | nil => simp at hlt
    | cons a as => cases k with
      | zero => omega
      | succ k => simp
  · rw [List.length_take]; omega

/-- Appending a prefix of an event after clean content (a torn or complete write). -/
theorem Clean.append_take {t : Bool} {x e : List Nat} (h : Clean E c t x) (he : E e) (k : Nat)
    (ht : 0 < k → k < e.length → t = true) : Good E c t (x ++ e.take k) := by
  by_cases hk : k = 0
  · subst hk; simpa using h.good
  · by_cases hlt : k < e.length
    · exact h.append_trunc (ht (by omega) hlt) (isTrunc_take_event he (by omega) hlt)
    · rw [List.take_of_length_le (by omega)]; exact (Clean.evt h he).good

/-- Losing a suffix (a crash) leaves good content good. -/
theorem Clean.take {x : List Nat} (h : Clean E c true x) (m : Nat) : Good E c true (x.take m) := by
  induction h generalizing m with
  | nil => simpa using Good.nil
  | @evt x e hx he ih =>
    rw [List.take_append]
    by_cases hm : m ≤ x.length
    · have : m - x.length = 0 := by omega
      rw [this]; simpa using ih m
    · rw [List.take_of_length_le (by omega)]
      exact hx.append_take he _ (fun _ _ => rfl)
  | @sep x hx ih =>
    rw [List.take_append]
    by_cases hm : m ≤ x.length
    · have : m - x.length = 0 := by omega
      rw [this]; simpa using ih m
    · rw [List.take_of_length_le (by omega)]
      have : m - x.length ≥ 1 := by omega
      rw [List.take_of_length_le (by simpa using this)]
      exact (Clean.sep hx).good
  | @trunc x p hx ht hp ih =>
    rw [List.append_assoc, List.take_append]
    by_cases hm : m ≤ x.length
    · have : m - x.length = 0 := by omega
      rw [this]; simpa using ih m
    · rw [List.take_of_length_le (l := x) (by omega), List.take_append]
      by_cases hm2 : m - x.length ≤ p.length
      · have : m - x.length - p.length = 0 := by omega
        rw [this]; simp only [List.take_zero, List.append_nil]
        exact hx.append_trunc rfl (hp.take (by omega))
      · rw [List.take_of_length_le (l := p) (by omega)]
        have : m - x.length - p.length ≥ 1 := by omega
        rw [List.take_of_length_le (by simpa using this), ← List.append_assoc]
        exact (Clean.trunc hx rfl hp).good

theorem Good.take {t : Bool} {x : List Nat} (h : Good E c t x) (m : Nat) : Good E c true (x.take m) := by
  rcases h with h | ⟨_, x0, p, h0, hp, rfl⟩
  · exact h.mono.take m
  · rw [List.take_append]
    by_cases hm : m ≤ x0.length
    · have : m - x0.length = 0 := by omega
      rw [this]; simpa using h0.mono.take m
    · rw [List.take_of_length_le (by omega)]
      exact h0.mono.append_trunc rfl (hp.take (by omega))

/-! ### record boundaries -/

/-- Every event ends with the separator and contains it nowhere else. -/
def WfEvents (E : List Nat → Prop) (c : Nat) : Prop := ∀ e, E e → ∃ body, e = body ++ [c] ∧ c ∉ body

/-- Clean content is empty or ends with the separator. -/
theorem Clean.boundary {t : Bool} {x : List Nat} (hwf : WfEvents E c) (h : Clean E c t x) :
    x = [] ∨ ∃ q, x = q ++ [c] := by
  cases h with
  | nil => exact .inl rfl
  | @evt x e _ he =>
    obtain ⟨body, rfl, _⟩ := hwf e he
    exact .inr ⟨x ++ body, by simp⟩
  | sep _ => exact .inr ⟨_, rfl⟩
  | trunc _ _ _ => exact .inr ⟨_, rfl⟩

theorem splitOn_cons_sep (x : List Nat) : splitOn c (c :: x) = [] :: splitOn c x := by
  simp only [splitOn]
  cases hs : splitOn c x with
  | nil => exact absurd hs (splitOn_ne_nil c x)
  | cons r rs => simp

theorem splitOn_cons_ne {a : Nat} {x r : List Nat} {rs : List (List Nat)} (ha : a ≠ c)
    (hs : splitOn c x = r :: rs) : splitOn c (a :: x) = (a :: r) :: rs := by
  simp [splitOn, hs, ha]

theorem splitOn_append_of_boundary {x : List Nat} (y : List Nat) {recs : List (List Nat)}
    (h : splitOn c x = recs ++ [[]]) : splitOn c (x ++ y) = recs ++ splitOn c y := by
  induction x generalizing recs with
  | nil =>
    simp only [splitOn] at h
    cases recs with
    | nil => simp
    | cons r rs => simp at h
  | cons a x' ih =>
    cases hs : splitOn c x' with
    | nil => exact absurd hs (splitOn_ne_nil c x')
    | cons r rs =>
      by_cases ha : a = c
      · subst ha
        rw [splitOn_cons_sep, hs] at h
        rw [List.cons_append, splitOn_cons_sep]
        cases recs with
        | nil => simp at h
        | cons q recs' =>
          simp only [List.cons_append, List.cons.injEq] at h
          obtain ⟨rfl, h2⟩ := h
          rw [ih (recs := recs') (by rw [hs, h2])]
          simp
      · rw [splitOn_cons_ne ha hs] at h
        cases recs with
        | nil => simp at h
        | cons q recs' =>
          simp only [List.cons_append, List.cons.injEq] at h
          obtain ⟨rfl, h2⟩ := h
          have h3 := ih (recs := r :: recs') (by rw [hs, h2]; simp)
          rw [List.cons_append, splitOn_cons_ne ha (r := r) (rs := recs' ++ splitOn c y) (by simpa using h3)]
          simp

/-- The pieces a record may be: empty, a complete event body, or (only after an interrupting fault) a
    non-empty strict prefix of an event. -/
def RecordOk (E : List Nat → Prop) (c : Nat) (t : Bool) (r : List Nat) : Prop :=
  r = [] ∨ E (r ++ [c]) ∨ (t = true ∧ IsTrunc E r)

theorem not_mem_of_isTrunc (hwf : WfEvents E c) {p : List Nat} (hp : IsTrunc E p) : c ∉ p := by
  obtain ⟨_, e, he, hpre, hlen⟩ := hp
  obtain ⟨body, rfl, hb⟩ := hwf e he
  obtain ⟨s, hs⟩ := hpre
  -- p is a prefix of body
  have : p <+: body := by
    have hl : p.length ≤ body.length := by simp at hlen; omega
    have h1 : p = (body ++ [c]).take p.length := by rw [← hs]; simp
    rw [List.take_append_of_le_length hl] at h1
    rw [h1]; exact List.take_prefix _ _
  intro hm
  exact hb (this.subset hm)

theorem Clean.records {t : Bool} {x : List Nat} (hwf : WfEvents E c) (h : Clean E c t x) :
    ∃ recs, splitOn c x = recs ++ [[]] ∧ ∀ r ∈ recs, RecordOk E c t r := by
  induction h with
  | nil => exact ⟨[], rfl, by simp⟩
  | @evt x e hx he ih =>
    obtain ⟨recs, hs, hr⟩ := ih
    obtain ⟨body, rfl, hb⟩ := hwf e he
    refine ⟨recs ++ [body], ?_, ?_⟩
    · rw [splitOn_append_of_boundary _ hs]
      have : splitOn c (body ++ [c]) = [body, []] := by
        have := splitOn_append_sep (c := c) (a := body) [] hb
        simpa [splitOn] using this
      rw [this]; simp
    · intro r hr'
      rcases List.mem_append.mp hr' with h | h
      · exact hr r h
      · simp at h; subst h; exact .inr (.inl he)
  | @sep x hx ih =>
    obtain ⟨recs, hs, hr⟩ := ih
    refine ⟨recs ++ [[]], ?_, ?_⟩
    · rw [splitOn_append_of_boundary _ hs]
      have : splitOn c [c] = [[], []] := by simp [splitOn]
      rw [this]; simp
    · intro r hr'
      rcases List.mem_append.mp hr' with h | h
      · exact hr r h
      · simp at h; subst h; exact .inl rfl
  | @trunc x p hx ht hp ih =>
    obtain ⟨recs, hs, hr⟩ := ih
    refine ⟨recs ++ [p], ?_, ?_⟩
    · rw [List.append_assoc, splitOn_append_of_boundary _ hs]
      have : splitOn c (p ++ [c]) = [p, []] := by
        have := splitOn_append_sep (c := c) (a := p) [] (not_mem_of_isTrunc hwf hp)
        simpa [splitOn] using this
      rw [this]; simp
    · intro r hr'
      rcases List.mem_append.mp hr' with h | h
      · exact hr r h
      · simp at h; subst h; exact .inr (.inr ⟨ht, hp⟩)

/-- Every separator-delimited record of good content is empty, a complete event, or a strict prefix of one
    event (the latter only if an interrupting fault has happened) — never bytes of two events. -/
theorem Good.records {t : Bool} {x : List Nat} (hwf : WfEvents E c) (h : Good E c t x) :
    ∀ r ∈ splitOn c x, RecordOk E c t r := by
  rcases h with h | ⟨ht, x0, p, h0, hp, rfl⟩
  · obtain ⟨recs, hs, hr⟩ := h.records hwf
    intro r hr'
    rw [hs] at hr'
    rcases List.mem_append.mp hr' with h | h
    · exact hr r h
    · simp at h; subst h; exact .inl rfl
  · obtain ⟨recs, hs, hr⟩ := h0.records hwf
    intro r hr'
    rw [splitOn_append_of_boundary _ hs, splitOn_of_not_mem (not_mem_of_isTrunc hwf hp)] at hr'
    rcases List.mem_append.mp hr' with h | h
    · exact hr r h
    · simp at h; subst h; exact .inr (.inr ⟨ht, hp⟩)

/-! ### complete occurrences (for acknowledged events) -/

/-- `e` occurs in `x` starting on a record boundary. -/
def Occurs (c : Nat) (e x : List Nat) : Prop :=
  ∃ pre post, x = pre ++ e ++ post ∧ (pre = [] ∨ ∃ q, pre = q ++ [c])

theorem Occurs.append {e x : List Nat} (h : Occurs c e x) (y : List Nat) : Occurs c e (x ++ y) := by
  obtain ⟨pre, post, rfl, hb⟩ := h
  exact ⟨pre, post ++ y, by simp, hb⟩

theorem Occurs.of_clean {t : Bool} {x : List Nat} (hwf : WfEvents E c) (h : Clean E c t x) (e : List Nat) :
    Occurs c e (x ++ e) :=
  ⟨x, [], by simp, h.boundary hwf⟩

end

end EmitModel.FileSet
