/-
  Lemmas/EncodeFile.lean — C13. Facts about `toJson` / `fileRecord` (Model/FileRecord.lean).
-/
import EmitModel.Model.FileRecord
import EmitModel.Lemmas.EncodeJson
import EmitModel.Lemmas.EncodeDedup

namespace EmitModel.Encode
open EmitModel.Json

/-! ### the assumption about the opaque float tokens: a finite float's token is a JSON number
    (checked by the harness on every real token, `float_tokens_ok`) -/

mutual
def V.ToksOk : V → Prop
  | .f64 bits tok _ => isFiniteBits bits = true → IsNumber tok.toList
  | .f32 bits tok _ => isFiniteBits bits = true → IsNumber tok.toList
  | .seq xs => V.ToksOkList xs
  | .tuple xs => V.ToksOkList xs
  | .tvar _ xs => V.ToksOkList xs
  | .map kvs => V.ToksOkEntries kvs
  | .record fs => V.ToksOkFields fs
  | .svar _ fs => V.ToksOkFields fs
  | .some v => v.ToksOk
  | .nvar _ v => v.ToksOk
  | _ => True
def V.ToksOkList : List V → Prop
  | [] => True
  | x :: xs => x.ToksOk ∧ V.ToksOkList xs
def V.ToksOkEntries : List (V × V) → Prop
  | [] => True
  | (_, v) :: rest => v.ToksOk ∧ V.ToksOkEntries rest
def V.ToksOkFields : List (String × V) → Prop
  | [] => True
  | (_, v) :: rest => v.ToksOk ∧ V.ToksOkFields rest
end

theorem floatJson_numsOk (bits : UInt64) (tok : String) (h : isFiniteBits bits = true → IsNumber tok.toList) :
    (floatJson bits tok).NumsOk := by
  unfold floatJson
  split
  · rename_i hf; simpa [Json.NumsOk] using h hf
  · simp [Json.NumsOk]

theorem numsOkList_ints (bs : List UInt8) : Json.NumsOkList (bs.map fun b => Json.int b.toNat) := by
  induction bs with
  | nil => simp [Json.NumsOkList]
  | cons b bs ih => simp [Json.NumsOkList, Json.NumsOk, ih]

mutual
theorem toJson_numsOk : (v : V) → v.ToksOk → ∀ j, toJson v = some j → j.NumsOk
  | .null, _, j, h => by simp [toJson] at h; subst h; simp [Json.NumsOk]
  | .bool _, _, j, h => by simp [toJson] at h; subst h; simp [Json.NumsOk]
  | .int _, _, j, h => by simp [toJson] at h; subst h; simp [Json.NumsOk]
  | .f64 bits tok _, ht, j, h => by
    simp [toJson] at h; subst h; exact floatJson_numsOk bits tok (by simpa [V.ToksOk] using ht)
  | .f32 bits tok _, ht, j, h => by
    simp [toJson] at h; subst h; exact floatJson_numsOk bits tok (by simpa [V.ToksOk] using ht)
  | .text _, _, j, h => by simp [toJson] at h; subst h; simp [Json.NumsOk]
  | .bytes bs, _, j, h => by
    simp [toJson] at h; subst h; simp only [Json.NumsOk]; exact numsOkList_ints bs
  | .seq xs, ht, j, h => by
    simp only [toJson, Option.map_eq_some_iff] at h
    obtain ⟨js, hjs, rfl⟩ := h
    simp only [Json.NumsOk]
    exact toJsonList_numsOk xs (by simpa [V.ToksOk] using ht) js hjs
  | .tuple xs, ht, j, h => by
    simp only [toJson, Option.map_eq_some_iff] at h
    obtain ⟨js, hjs, rfl⟩ := h
    simp only [Json.NumsOk]
    exact toJsonList_numsOk xs (by simpa [V.ToksOk] using ht) js hjs
  | .map kvs, ht, j, h => by
    simp only [toJson, Option.map_eq_some_iff] at h
    obtain ⟨ms, hms, rfl⟩ := h
    simp only [Json.NumsOk]
    exact toJsonEntries_numsOk kvs (by simpa [V.ToksOk] using ht) ms hms
  | .record fs, ht, j, h => by
    simp only [toJson, Option.map_eq_some_iff] at h
    obtain ⟨ms, hms, rfl⟩ := h
    simp only [Json.NumsOk]
    exact toJsonFields_numsOk fs (by simpa [V.ToksOk] using ht) ms hms
  | .some v, ht, j, h => by
    simp only [toJson] at h
    exact toJson_numsOk v (by simpa [V.ToksOk] using ht) j h
  | .uvar _, _, j, h => by simp [toJson] at h; subst h; simp [Json.NumsOk]
  | .nvar l v, ht, j, h => by
    simp only [toJson, Option.map_eq_some_iff] at h
    obtain ⟨j', hj', rfl⟩ := h
    simp only [Json.NumsOk, Json.NumsOkMembers, and_true]
    exact toJson_numsOk v (by simpa [V.ToksOk] using ht) j' hj'
  | .svar l fs, ht, j, h => by
    simp only [toJson, Option.map_eq_some_iff] at h
    obtain ⟨ms, hms, rfl⟩ := h
    simp only [Json.NumsOk, Json.NumsOkMembers, and_true]
    exact toJsonFields_numsOk fs (by simpa [V.ToksOk] using ht) ms hms
  | .tvar l xs, ht, j, h => by
    simp only [toJson, Option.map_eq_some_iff] at h
    obtain ⟨js, hjs, rfl⟩ := h
    simp only [Json.NumsOk, Json.NumsOkMembers, and_true]
    exact toJsonList_numsOk xs (by simpa [V.ToksOk] using ht) js hjs
theorem toJsonList_numsOk : (xs : List V) → V.ToksOkList xs → ∀ js, toJsonList xs = some js → Json.NumsOkList js
  | [], _, js, h => by simp [toJsonList] at h; subst h; simp [Json.NumsOkList]
  | x :: xs, ht, js, h => by
    simp only [toJsonList] at h
    split at h
    · rename_i j js' hj hjs
      cases h
      exact ⟨toJson_numsOk x ht.1 j hj, toJsonList_numsOk xs ht.2 js' hjs⟩
    · cases h
theorem toJsonEntries_numsOk : (kvs : List (V × V)) → V.ToksOkEntries kvs → ∀ ms, toJsonEntries kvs = some ms →
    Json.NumsOkMembers ms
  | [], _, ms, h => by simp [toJsonEntries] at h; subst h; simp [Json.NumsOkMembers]
  | (k, v) :: rest, ht, ms, h => by
    simp only [toJsonEntries] at h
    split at h
    · rename_i ks j ms' _ hj hms
      cases h
      exact ⟨toJson_numsOk v ht.1 j hj, toJsonEntries_numsOk rest ht.2 ms' hms⟩
    · cases h
theorem toJsonFields_numsOk : (fs : List (String × V)) → V.ToksOkFields fs → ∀ ms, toJsonFields fs = some ms →
    Json.NumsOkMembers ms
  | [], _, ms, h => by simp [toJsonFields] at h; subst h; simp [Json.NumsOkMembers]
  | (l, v) :: rest, ht, ms, h => by
    simp only [toJsonFields] at h
    split at h
    · rename_i j ms' hj hms
      cases h
      exact ⟨toJson_numsOk v ht.1 j hj, toJsonFields_numsOk rest ht.2 ms' hms⟩
    · cases h
end

/-! ### the property fields -/

/-- every value of a property list has sound float tokens -/
def PropsToksOk (ps : List (String × PV)) : Prop := ∀ p ∈ ps, p.2.image.ToksOk

theorem propFields_numsOk : (ps : List (String × PV)) → PropsToksOk ps → ∀ ms, propFields ps = some ms →
    Json.NumsOkMembers ms
  | [], _, ms, h => by simp [propFields] at h; subst h; simp [Json.NumsOkMembers]
  | (k, v) :: rest, ht, ms, h => by
    simp only [propFields] at h
    have ht' : PropsToksOk rest := fun p hp => ht p (List.mem_cons_of_mem _ hp)
    split at h
    · exact propFields_numsOk rest ht' ms h
    · split at h
      · rename_i j ms' hj hms
        cases h
        exact ⟨toJson_numsOk _ (ht (k, v) (by simp)) j hj, propFields_numsOk rest ht' ms' hms⟩
      · cases h

theorem numsOkMembers_append : ∀ (a b : List (String × Json)), Json.NumsOkMembers a → Json.NumsOkMembers b →
    Json.NumsOkMembers (a ++ b)
  | [], _, _, hb => by simpa using hb
  | (k, v) :: rest, b, ha, hb => by
    simp only [List.cons_append, Json.NumsOkMembers]
    exact ⟨ha.1, numsOkMembers_append rest b ha.2 hb⟩

theorem fixedFields_numsOk (e : Event) : Json.NumsOkMembers (fixedFields e) := by
  unfold fixedFields
  cases e.extent <;> simp [Json.NumsOkMembers, Json.NumsOk]

/-- the member names of the property part are the non-reserved property keys, in order -/
theorem propFields_keys : ∀ (ps : List (String × PV)) ms, propFields ps = some ms →
    keys ms = (keys ps).filter fun k => !reservedKey k
  | [], ms, h => by simp [propFields] at h; subst h; rfl
  | (k, v) :: rest, ms, h => by
    simp only [propFields] at h
    split at h
    · rename_i hr
      simp only [keys, List.map_cons, List.filter_cons, hr, Bool.not_true, Bool.false_eq_true, if_false]
      exact propFields_keys rest ms h
    · rename_i hr
      split at h
      · rename_i j ms' _ hms
        cases h
        simp only [keys, List.map_cons, List.filter_cons, hr, Bool.not_false, if_true]
        have := propFields_keys rest ms' hms
        simp only [keys] at this
        rw [this]
      · cases h

theorem propFields_mem : ∀ (ps : List (String × PV)) ms, propFields ps = some ms → ∀ k v, (k, v) ∈ ps →
    reservedKey k = false → ∃ j, toJson v.image = some j ∧ (k, j) ∈ ms
  | [], _, _, _, _, hm, _ => by simp at hm
  | (k', v') :: rest, ms, h, k, v, hm, hr => by
    simp only [propFields] at h
    split at h
    · rename_i hr'
      rcases List.mem_cons.mp hm with hm | hm
      · cases hm; simp [hr] at hr'
      · exact propFields_mem rest ms h k v hm hr
    · split at h
      · rename_i j ms' hj hms
        cases h
        rcases List.mem_cons.mp hm with hm | hm
        · cases hm; exact ⟨j, hj, by simp⟩
        · obtain ⟨j2, h1, h2⟩ := propFields_mem rest ms' hms k v hm hr
          exact ⟨j2, h1, List.mem_cons_of_mem _ h2⟩
      · cases h

/-- formatting fails exactly when some written property value cannot be written -/
theorem propFields_none_iff : ∀ (ps : List (String × PV)),
    propFields ps = none ↔ ∃ p ∈ ps, reservedKey p.1 = false ∧ toJson p.2.image = none
  | [] => by simp [propFields]
  | (k, v) :: rest => by
    simp only [propFields]
    have ih := propFields_none_iff rest
    by_cases hr : reservedKey k = true
    · simp only [hr, if_true, List.mem_cons]
      rw [ih]
      constructor
      · rintro ⟨p, hp, h1, h2⟩; exact ⟨p, Or.inr hp, h1, h2⟩
      · rintro ⟨p, hp | hp, h1, h2⟩
        · subst hp; simp [hr] at h1
        · exact ⟨p, hp, h1, h2⟩
    · have hr' : reservedKey k = false := by simpa using hr
      simp only [hr', Bool.false_eq_true, if_false]
      cases hj : toJson v.image with
      | none => simp [hr', hj]
      | some j =>
        cases hrest : propFields rest with
        | none =>
          simp only [List.mem_cons, true_iff]
          obtain ⟨p, hp, h1, h2⟩ := ih.mp hrest
          exact ⟨p, Or.inr hp, h1, h2⟩
        | some ms =>
          simp only [List.mem_cons, false_iff, reduceCtorEq]
          rintro ⟨p, hp | hp, h1, h2⟩
          · subst hp; simp [hj] at h2
          · have := ih.mpr ⟨p, hp, h1, h2⟩
            simp [hrest] at this

/-! ### the reserved member names -/

def fixedNames : List String := ["ts_start", "ts", "mdl", "msg", "tpl"]

theorem reservedKey_iff (k : String) : reservedKey k = true ↔ k ∈ fixedNames := by
  unfold reservedKey fixedNames
  simp [Bool.or_eq_true]
  constructor
  · rintro ((((h | h) | h) | h) | h) <;> simp [h]
  · rintro (h | h | h | h | h) <;> simp [h]

theorem fixedFields_keys (e : Event) : ∀ k ∈ keys (fixedFields e), k ∈ fixedNames := by
  unfold fixedFields fixedNames
  cases e.extent <;> simp [keys]

theorem fixedFields_nodup (e : Event) : (keys (fixedFields e)).Nodup := by
  unfold fixedFields
  cases e.extent <;> simp [keys]


end EmitModel.Encode
