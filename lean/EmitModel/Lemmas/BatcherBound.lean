/-
  Lemmas/BatcherBound.lean — C08 safety invariants: retry budget / per-batch call counts / back-off delays
  (`InvBound`) and conservation of callbacks (`InvCount`).
-/
import EmitModel.Lemmas.Batcher
namespace EmitModel.Batcher
open EmitModel.Sched

theorem bumpLast_append (ini : List Nat) (n : Nat) : bumpLast (ini ++ [n]) = ini ++ [n + 1] := by
  induction ini with
  | nil => rfl
  | cons a t ih =>
    cases t with
    | nil => simp [bumpLast]
    | cons b t' => simp only [List.cons_append] at ih ⊢; rw [bumpLast, ih]; simp

theorem delayNext_le (cur step cap : Nat) : delayNext cur step cap ≤ cap := by
  unfold delayNext; omega

theorem delayNext_ge (cur step cap : Nat) (h : cur ≤ cap) : cur ≤ delayNext cur step cap := by
  unfold delayNext; omega

/-- Retry budget, per-batch call counts and back-off delays (C08). -/
structure InvBound (cfg : Cfg) (s : St) : Prop where
  proc : ∀ o c w, s.rx = .processing o c w →
    s.retryCur ≤ cfg.retryMax ∧ ∃ ini, s.callsPerBatch = ini ++ [s.retryCur + 1]
  rwait : ∀ o r w, s.rx = .retryWait o r w →
    s.retryCur ≤ cfg.retryMax ∧ 1 ≤ s.retryCur ∧ ∃ ini, s.callsPerBatch = ini ++ [s.retryCur]
  perBatch : ∀ n ∈ s.callsPerBatch, n ≤ 1 + cfg.retryMax
  lenEq : s.callsPerBatch.length = s.firstAttempts.length
  sumEq : s.callsPerBatch.sum = s.calls.length
  rdelay : s.retryDelay ≤ cfg.retryCap
  idelay : s.idleDelay ≤ cfg.idleCap
  bwLe : ∀ d ∈ s.batchWaits, d ≤ s.retryDelay
  bwSorted : s.batchWaits.Pairwise (· ≤ ·)
  waitsLe : ∀ d ∈ s.waits, d ≤ max cfg.retryCap cfg.idleCap

theorem invBound_init (cfg : Cfg) : InvBound cfg init := by
  constructor <;> simp [init]

theorem invBound_congr {cfg : Cfg} {s t : St} (h : InvBound cfg s)
    (e1 : t.rx = s.rx) (e2 : t.retryCur = s.retryCur) (e3 : t.callsPerBatch = s.callsPerBatch)
    (e4 : t.firstAttempts = s.firstAttempts) (e5 : t.calls = s.calls) (e6 : t.retryDelay = s.retryDelay)
    (e7 : t.idleDelay = s.idleDelay) (e8 : t.batchWaits = s.batchWaits) (e9 : t.waits = s.waits) :
    InvBound cfg t := by
  obtain ⟨h1, h2, h3, h4, h5, h6, h7, h8, h9, h10⟩ := h
  constructor <;> simp only [e1, e2, e3, e4, e5, e6, e7, e8, e9] <;> assumption

theorem send_bound (cfg : Cfg) (s : St) (x : Nat) :
    (send cfg s x).rx = s.rx ∧ (send cfg s x).retryCur = s.retryCur ∧
    (send cfg s x).callsPerBatch = s.callsPerBatch ∧ (send cfg s x).firstAttempts = s.firstAttempts ∧
    (send cfg s x).calls = s.calls ∧ (send cfg s x).retryDelay = s.retryDelay ∧
    (send cfg s x).idleDelay = s.idleDelay ∧ (send cfg s x).batchWaits = s.batchWaits ∧
    (send cfg s x).waits = s.waits := by
  unfold send
  by_cases hc : s.pending.length ≥ cfg.cap <;> by_cases ho : s.isOpen <;> simp [hc, ho, truncate, push]

theorem trySend_bound (cfg : Cfg) (s : St) (x : Nat) :
    (trySend cfg s x).1.rx = s.rx ∧ (trySend cfg s x).1.retryCur = s.retryCur ∧
    (trySend cfg s x).1.callsPerBatch = s.callsPerBatch ∧ (trySend cfg s x).1.firstAttempts = s.firstAttempts ∧
    (trySend cfg s x).1.calls = s.calls ∧ (trySend cfg s x).1.retryDelay = s.retryDelay ∧
    (trySend cfg s x).1.idleDelay = s.idleDelay ∧ (trySend cfg s x).1.batchWaits = s.batchWaits ∧
    (trySend cfg s x).1.waits = s.waits := by
  unfold trySend
  by_cases ho : s.isOpen <;> by_cases hc : s.pending.length < cfg.cap <;> simp [ho, hc, push]

theorem invBound_step (cfg : Cfg) (s : St) (l : Label) (s' : St) (h : InvBound cfg s)
    (hs : step cfg s l = some s') : InvBound cfg s' := by
  cases l
  case send x =>
    step_elim hs
    obtain ⟨e1, e2, e3, e4, e5, e6, e7, e8, e9⟩ := send_bound cfg s x
    exact invBound_congr h e1 e2 e3 e4 e5 e6 e7 e8 e9
  case trySend x =>
    step_elim hs
    obtain ⟨e1, e2, e3, e4, e5, e6, e7, e8, e9⟩ := trySend_bound cfg s x
    exact invBound_congr h e1 e2 e3 e4 e5 e6 e7 e8 e9
  case rxBegin =>
    obtain ⟨h1, h2, h3, h4, h5, h6, h7, h8, h9, h10⟩ := h
    have := delayNext_le s.idleDelay cfg.idleStep cfg.idleCap
    step_elim hs
    all_goals (constructor <;> simp_all <;> first | assumption | omega | grind)
  case rxOutcome o =>
    obtain ⟨h1, h2, h3, h4, h5, h6, h7, h8, h9, h10⟩ := h
    have d1 := delayNext_le s.retryDelay cfg.retryStep cfg.retryCap
    have d2 := delayNext_ge s.retryDelay cfg.retryStep cfg.retryCap h6
    step_elim hs
    all_goals (constructor <;> simp_all <;> first | assumption | omega | grind)
  case rxRetryWaited =>
    obtain ⟨h1, h2, h3, h4, h5, h6, h7, h8, h9, h10⟩ := h
    step_elim hs
    rename_i o r w hrx
    obtain ⟨a, b, ini, c⟩ := h2 o r w hrx
    constructor <;> simp_all [bumpLast_append] <;> first | assumption | omega | grind
  all_goals
    obtain ⟨h1, h2, h3, h4, h5, h6, h7, h8, h9, h10⟩ := h
    step_elim hs
    all_goals (constructor <;> simp_all <;> first | assumption | omega | grind)

/-- Conservation of callbacks: every registration is in exactly one place — ran, attached to the pending batch,
    travelling with the batch the receiver holds, or dropped unrun by a receiver teardown. -/
structure InvCount (s : St) : Prop where
  flush : ∀ w, s.registered.count w =
    s.fired.count w + s.pendFlushW.count w + s.rx.ws.count w + s.dropped.count w
  take : ∀ w, s.registeredTake.count w = s.firedTake.count w + s.pendTakeW.count w + s.rx.takeWs.count w

theorem invCount_init : InvCount init := by
  constructor <;> simp [init]

theorem invCount_congr {s t : St} (h : InvCount s)
    (e1 : t.registered = s.registered) (e2 : t.fired = s.fired) (e3 : t.pendFlushW = s.pendFlushW)
    (e4 : t.rx = s.rx) (e5 : t.dropped = s.dropped) (e6 : t.registeredTake = s.registeredTake)
    (e7 : t.firedTake = s.firedTake) (e8 : t.pendTakeW = s.pendTakeW) : InvCount t := by
  obtain ⟨h1, h2⟩ := h
  constructor <;> simp only [e1, e2, e3, e4, e5, e6, e7, e8] <;> assumption

theorem send_count (cfg : Cfg) (s : St) (x : Nat) :
    (send cfg s x).registered = s.registered ∧ (send cfg s x).fired = s.fired ∧
    (send cfg s x).pendFlushW = s.pendFlushW ∧ (send cfg s x).rx = s.rx ∧
    (send cfg s x).dropped = s.dropped ∧ (send cfg s x).registeredTake = s.registeredTake ∧
    (send cfg s x).firedTake = s.firedTake ∧ (send cfg s x).pendTakeW = s.pendTakeW := by
  unfold send
  by_cases hc : s.pending.length ≥ cfg.cap <;> by_cases ho : s.isOpen <;> simp [hc, ho, truncate, push]

theorem trySend_count (cfg : Cfg) (s : St) (x : Nat) :
    (trySend cfg s x).1.registered = s.registered ∧ (trySend cfg s x).1.fired = s.fired ∧
    (trySend cfg s x).1.pendFlushW = s.pendFlushW ∧ (trySend cfg s x).1.rx = s.rx ∧
    (trySend cfg s x).1.dropped = s.dropped ∧ (trySend cfg s x).1.registeredTake = s.registeredTake ∧
    (trySend cfg s x).1.firedTake = s.firedTake ∧ (trySend cfg s x).1.pendTakeW = s.pendTakeW := by
  unfold trySend
  by_cases ho : s.isOpen <;> by_cases hc : s.pending.length < cfg.cap <;> simp [ho, hc, push]

theorem invCount_step (cfg : Cfg) (s : St) (l : Label) (s' : St) (h : InvCount s)
    (hs : step cfg s l = some s') : InvCount s' := by
  cases l
  case send x =>
    step_elim hs
    obtain ⟨e1, e2, e3, e4, e5, e6, e7, e8⟩ := send_count cfg s x
    exact invCount_congr h e1 e2 e3 e4 e5 e6 e7 e8
  case trySend x =>
    step_elim hs
    obtain ⟨e1, e2, e3, e4, e5, e6, e7, e8⟩ := trySend_count cfg s x
    exact invCount_congr h e1 e2 e3 e4 e5 e6 e7 e8
  case dropReceiver =>
    obtain ⟨h1, h2⟩ := h
    step_elim hs
    all_goals
      constructor <;> intro w <;> have a := h1 w <;> have b := h2 w <;>
        cases hrx : s.rx <;> simp_all [List.count_append] <;> first | omega | grind
  all_goals
    obtain ⟨h1, h2⟩ := h
    step_elim hs
    all_goals
      constructor <;> intro w <;> have a := h1 w <;> have b := h2 w <;>
        simp_all [List.count_append, List.count_cons] <;> omega

theorem invBound_reachable (cfg : Cfg) (s : St) (h : Reachable cfg s) : InvBound cfg s :=
  invariant_of_step (invBound_init cfg) (invBound_step cfg) s h

theorem invCount_reachable (cfg : Cfg) (s : St) (h : Reachable cfg s) : InvCount s :=
  invariant_of_step invCount_init (invCount_step cfg) s h

end EmitModel.Batcher
