/-
  Lemmas/Otlp.lean — helper lemmas for Thm/C14.lean and Thm/C12.lean.
-/
import EmitModel.Model.Otlp

namespace EmitModel.Otlp

/-! ### C14: the `Extract` stream classifies values -/

theorem extract_of_isNum (v : Val) (e : Ext) (h : isNum v = true) :
    extract v e = some { e with points := e.points + 1 } := by
  cases v <;> simp_all [isNum, extract]

theorem extract_inSeq_of_not_isNum (v : Val) (e : Ext) (hs : e.inSeq = true) (h : isNum v = false) :
    extract v e = none := by
  cases v <;> simp_all [isNum, extract]

/-- Inside a sequence (`in_seq = true`) the elements must all be plain numbers; each one adds a point. -/
theorem extractList_inSeq (xs : List Val) (e : Ext) (hs : e.inSeq = true) :
    extractList xs e =
      if xs.all isNum then some { e with points := e.points + xs.length } else none := by
  induction xs generalizing e with
  | nil => simp [extractList]
  | cons v vs ih =>
    cases hv : isNum v
    · simp [extractList, extract_inSeq_of_not_isNum v e hs hv, hv]
    · simp only [extractList, extract_of_isNum v e hv, List.all_cons, hv, Bool.true_and]
      rw [ih { e with points := e.points + 1 } hs]
      split <;> simp [Nat.add_assoc, Nat.add_comm 1]

/-- Top level (`in_seq = false`): what `value.stream(&mut extract)` returns, by value class. -/
theorem extract_top (v : Option Val) (p : Nat) :
    (match v with
      | none => (none : Option Ext)
      | some v => extract v ⟨false, p⟩) =
    match valueClass v, v with
    | .num, _ => some ⟨false, p + 1⟩
    | .seqNums _, some (.seq xs) => some ⟨false, p + xs.length⟩
    | _, _ => none := by
  cases v with
  | none => simp [valueClass]
  | some v =>
    cases v with
    | seq xs =>
      simp only [valueClass, extract]
      have := extractList_inSeq xs ⟨true, p⟩ rfl
      by_cases hall : xs.all isNum = true
      · simp [hall, this]
      · simp only [Bool.not_eq_true] at hall
        rw [this]
        simp only [hall, Bool.false_eq_true, ↓reduceIte]
        by_cases hany : xs.any isSeq = true <;> simp [hany]
    | int n =>
      cases h : inI64 n <;> simp [valueClass, isNum, extract, h]
    | f64 b => simp [valueClass, isNum, extract]
    | kind k => simp [valueClass, isNum, extract]
    | str s => simp [valueClass, isNum, extract]
    | disp s => simp [valueClass, isNum, extract]
    | bool b => simp [valueClass, isNum, extract]
    | null => simp [valueClass, isNum, extract]

theorem aggIsSumLike_eq (v : Option Val) : aggIsSumLike v = (aggClass v).sumLike := by
  cases v with
  | none => rfl
  | some v =>
    cases v <;> try rfl
    rename_i s
    simp only [aggIsSumLike, aggClass]
    by_cases h1 : s = "count"
    · simp [h1, AggS.sumLike]
    · by_cases h2 : s = "sum"
      · simp [h2, AggS.sumLike]
      · by_cases h3 : s = "min"
        · simp [h3, AggS.sumLike]
        · by_cases h4 : s = "max"
          · simp [h4, AggS.sumLike]
          · by_cases h5 : s = "last" <;> simp [h1, h2, h3, h4, h5, AggS.sumLike]

theorem pullKind_metric_iff (props : List (String × Val)) :
    (pullKind props = some .metric) ↔ kindClass props = .metric := by
  unfold pullKind kindClass
  cases lookupFirst "evt_kind" props with
  | none => simp
  | some v =>
    simp only [Option.bind_some]
    cases h : castKind v with
    | none => simp
    | some k => cases k <;> simp

theorem pullKind_span_iff (props : List (String × Val)) :
    (pullKind props = some .span) ↔ kindClass props = .span := by
  unfold pullKind kindClass
  cases lookupFirst "evt_kind" props with
  | none => simp
  | some v =>
    simp only [Option.bind_some]
    cases h : castKind v with
    | none => simp
    | some k => cases k <;> simp


/-! ### C12: grouping -/

/-- The grouping invariant of `Channel::push` after the events `evs` were pushed with limit `limit`. -/
structure Chan.Inv (limit : Nat) (c : Chan) (evs : List Ev) : Prop where
  flat : c.requests.reverse.flatten = evs
  total : c.total = evs.length
  nonempty : ∀ r ∈ c.requests, r ≠ []
  closed : ∀ r ∈ c.requests.tail, limit ≤ reqSize r
  open_ : ∀ r ∈ c.requests, ∀ k, 0 < k → k < r.length → reqSize (r.take k) < limit
  cur : c.cur = reqSize (c.requests.headD [])

theorem reqSize_append (a b : Request) : reqSize (a ++ b) = reqSize a + reqSize b := by
  simp [reqSize]

theorem Chan.inv_empty (limit : Nat) : Chan.Inv limit Chan.empty [] := by
  constructor <;> simp [Chan.empty, reqSize]

theorem Chan.inv_push (limit : Nat) (c : Chan) (evs : List Ev) (e : Ev) (h : Chan.Inv limit c evs) :
    Chan.Inv limit (c.push limit e) (evs ++ [e]) := by
  obtain ⟨hf, ht, hn, hc, ho, hcur⟩ := h
  unfold Chan.push
  cases hr : c.requests with
  | nil =>
    rw [hr] at hf
    simp at hf
    subst hf
    constructor <;> simp_all [reqSize]
    intro k h0 h1; omega
  | cons r rs =>
    rw [hr] at hf hn hc ho hcur
    simp only [List.headD_cons] at hcur
    by_cases hlim : c.cur ≥ limit
    · simp only [hlim, ↓reduceIte]
      constructor
      · simp only [List.reverse_cons, List.flatten_append, List.flatten_cons, List.flatten_nil,
          List.append_nil] at hf ⊢
        rw [hf]
      · simp [ht]
      · intro q hq
        simp only [List.mem_cons] at hq
        rcases hq with rfl | hq
        · simp
        · exact hn q (by simpa using hq)
      · intro q hq
        simp only [List.tail_cons, List.mem_cons] at hq
        rcases hq with rfl | hq
        · omega
        · exact hc q (by simpa using hq)
      · intro q hq k h0 h1
        simp only [List.mem_cons] at hq
        rcases hq with rfl | hq
        · simp at h1; omega
        · exact ho q (by simpa using hq) k h0 h1
      · simp [reqSize]
    · simp only [hlim, ↓reduceIte]
      have hlt : c.cur < limit := by omega
      constructor
      · simp only [List.reverse_cons, List.flatten_append, List.flatten_cons, List.flatten_nil,
          List.append_nil] at hf ⊢
        rw [← hf]; simp
      · simp [ht]
      · intro q hq
        simp only [List.mem_cons] at hq
        rcases hq with rfl | hq
        · simp
        · exact hn q (by simp [hq])
      · intro q hq
        simp only [List.tail_cons] at hq hc
        exact hc q hq
      · intro q hq k h0 h1
        simp only [List.mem_cons] at hq
        rcases hq with rfl | hq
        · simp only [List.length_append, List.length_cons, List.length_nil, Nat.zero_add] at h1
          by_cases hk : k < r.length
          · rw [List.take_append_of_le_length (by omega)]
            exact ho r (by simp) k h0 hk
          · have : k = r.length := by omega
            subst this
            simp only [List.take_left']
            omega
        · exact ho q (by simp [hq]) k h0 h1
      · simp [hcur, reqSize]

theorem Chan.inv_foldl (limit : Nat) (es : List Ev) (c : Chan) (pre : List Ev) (h : Chan.Inv limit c pre) :
    Chan.Inv limit (es.foldl (Chan.push limit) c) (pre ++ es) := by
  induction es generalizing c pre with
  | nil => simpa using h
  | cons e es ih =>
    simp only [List.foldl_cons]
    have := ih (c.push limit e) (pre ++ [e]) (Chan.inv_push limit c pre e h)
    simpa using this


/-- A recorded request that the client took as acknowledged. -/
def ackedBy (tr : Transport) (e : Entry) : Bool := okResp tr e.resp

/-- What one response costs the retry budget: 1 when the client counts it as a failure, plus 1 when it leaves a
    stale sender in the slot (the next attempt fails on it without reaching the endpoint). -/
def respCost (tr : Transport) (r : Resp) : Nat :=
  (if okResp tr r then 0 else 1) + (if r.leavesStale then 1 else 0)

/-- Upper bound of the attempts that will fail while the endpoint works through a script. -/
def failCount (tr : Transport) : List Resp → Nat
  | [] => 0
  | r :: rs => respCost tr r + failCount tr rs

/-- The same for a transport state: the script, plus the failure a stale pooled sender already holds. -/
def Net.pending (tr : Transport) (net : Net) : Nat :=
  failCount tr net.script + (if net.staleNow then 1 else 0)

theorem okResp_ack (tr : Transport) : okResp tr .ack = true := by cases tr <;> decide

theorem okResp_not_rstB (tr : Transport) : okResp tr .rstB = false := by cases tr <;> decide

theorem attempt_dead (tr : Transport) (net : Net) (r : Request) (h : net.dead = true) :
    attempt tr net r = (false, { net with slot := false }) := by
  simp [attempt, h]

theorem attempt_stale (tr : Transport) (net : Net) (r : Request) (h : net.dead = false)
    (hs : net.staleNow = true) :
    attempt tr net r = (false, { net with slot := false, stale := false }) := by
  simp [attempt, h, hs]

theorem attempt_live (tr : Transport) (net : Net) (r : Request) (h : net.dead = false)
    (hs : net.staleNow = false) :
    attempt tr net r = (okResp tr net.nextResp, net.record r) := by
  simp [attempt, h, hs]

@[simp] theorem record_log (net : Net) (r : Request) :
    (net.record r).log = ⟨if net.nextResp = .rstB then none else some (reqIds r), net.nextResp, !net.slot⟩ :: net.log := rfl
@[simp] theorem record_dead (net : Net) (r : Request) : (net.record r).dead = net.dead := rfl
@[simp] theorem record_script (net : Net) (r : Request) : (net.record r).script = net.script.tail := rfl
@[simp] theorem record_slot (net : Net) (r : Request) : (net.record r).slot = net.nextResp.headArrives := rfl
@[simp] theorem record_stale (net : Net) (r : Request) : (net.record r).stale = net.nextResp.leavesStale := rfl

/-- A successful `send`: every request of the batch reached the endpoint exactly once, in order, each was
    acknowledged, and nothing else was sent. -/
theorem send_ok (tr : Transport) (reqs : List Request) (net net' : Net)
    (h : send tr reqs net = (.ok, net')) :
    ∃ es : List Entry, net'.log = es ++ net.log ∧
      es.reverse.map (·.ids) = reqs.map (fun r => some (reqIds r)) ∧
      (∀ e ∈ es, ackedBy tr e = true) ∧ net'.dead = net.dead ∧
      net'.script = net.script.drop reqs.length ∧ (reqs ≠ [] → net.dead = false ∧ net.staleNow = false) := by
  induction reqs generalizing net with
  | nil =>
    simp only [send, Prod.mk.injEq, true_and] at h
    subst h
    exact ⟨[], by simp⟩
  | cons r rs ih =>
    simp only [send] at h
    cases hd : net.dead with
    | true => simp [attempt_dead tr net r hd] at h
    | false =>
      cases hst : net.staleNow with
      | true => simp [attempt_stale tr net r hd hst] at h
      | false =>
        rw [attempt_live tr net r hd hst] at h
        cases hok : okResp tr net.nextResp with
        | false => simp [hok] at h
        | true =>
          simp only [hok] at h
          obtain ⟨es, hlog, hids, hack, hdead, hscript, _⟩ := ih _ h
          have hne : net.nextResp ≠ .rstB := by
            intro hc; rw [hc, okResp_not_rstB] at hok; cases hok
          refine ⟨es ++ [⟨some (reqIds r), net.nextResp, !net.slot⟩], ?_, ?_, ?_, ?_, ?_, ?_⟩
          · simp [hlog, hne]
          · simp [hids]
          · intro e he
            simp only [List.mem_append, List.mem_singleton] at he
            rcases he with he | rfl
            · exact hack e he
            · simpa [ackedBy] using hok
          · simp [hdead, hd]
          · simp [hscript]
          · intro _; exact ⟨rfl, rfl⟩

theorem send_dead (tr : Transport) (r : Request) (rs : List Request) (net : Net) (h : net.dead = true) :
    send tr (r :: rs) net = (.retry (r :: rs), { net with slot := false }) := by
  simp [send, attempt_dead tr net r h]

/-- A failing `send` on a live endpoint. `fs` is the failed transmission: one entry — or none, when the attempt
    found a stale sender in the slot (left there by the initial state or by the response to the last
    acknowledged request) and nothing reached the endpoint. -/
theorem send_retry (tr : Transport) (reqs rem : List Request) (net net' : Net) (hd : net.dead = false)
    (h : send tr reqs net = (.retry rem, net')) :
    ∃ (done : List Request) (es fs : List Entry) (r : Request) (rest : List Request),
      reqs = done ++ rem ∧ rem = r :: rest ∧
      net'.log = fs ++ (es ++ net.log) ∧
      es.reverse.map (·.ids) = done.map (fun r => some (reqIds r)) ∧
      (∀ e ∈ es, ackedBy tr e = true) ∧
      net'.dead = false ∧
      ((∃ f, fs = [f] ∧ ackedBy tr f = false ∧ (f.ids = some (reqIds r) ∨ (f.ids = none ∧ f.resp = .rstB)) ∧
          net'.slot = f.resp.headArrives ∧ net'.stale = f.resp.leavesStale) ∨
       (fs = [] ∧ net'.slot = false ∧
          ((es = [] ∧ net.staleNow = true) ∨ (∃ e es', es = e :: es' ∧ e.resp.leavesStale = true)))) := by
  induction reqs generalizing net with
  | nil => simp [send] at h
  | cons r rs ih =>
    simp only [send] at h
    cases hst : net.staleNow with
    | true =>
      rw [attempt_stale tr net r hd hst] at h
      simp only [Prod.mk.injEq, SendResult.retry.injEq] at h
      obtain ⟨hrem, hnet⟩ := h
      subst hrem hnet
      exact ⟨[], [], [], r, rs, by simp, rfl, by simp, by simp, by simp, hd,
        Or.inr ⟨rfl, rfl, Or.inl ⟨rfl, rfl⟩⟩⟩
    | false =>
      rw [attempt_live tr net r hd hst] at h
      cases hok : okResp tr net.nextResp with
      | false =>
        simp only [hok, Prod.mk.injEq, SendResult.retry.injEq] at h
        obtain ⟨hrem, hnet⟩ := h
        subst hrem hnet
        refine ⟨[], [], [⟨if net.nextResp = .rstB then none else some (reqIds r), net.nextResp, !net.slot⟩],
          r, rs, by simp, rfl, by simp, by simp, by simp, hd, Or.inl ⟨_, rfl, ?_, ?_, by simp, by simp⟩⟩
        · simpa [ackedBy] using hok
        · by_cases hb : net.nextResp = .rstB <;> simp [hb]
      | true =>
        simp only [hok] at h
        have hne : net.nextResp ≠ .rstB := by
          intro hc; rw [hc, okResp_not_rstB] at hok; cases hok
        obtain ⟨done, es, fs, r', rest, hreqs, hrem, hlog, hids, hack, hdead, hcase⟩ :=
          ih _ (by simpa using hd) h
        refine ⟨r :: done, es ++ [⟨some (reqIds r), net.nextResp, !net.slot⟩], fs, r', rest,
          by simp [hreqs], hrem, ?_, ?_, ?_, hdead, ?_⟩
        · simp [hlog, hne]
        · simp [hids]
        · intro e he
          simp only [List.mem_append, List.mem_singleton] at he
          rcases he with he | rfl
          · exact hack e he
          · simpa [ackedBy] using hok
        · rcases hcase with hreal | ⟨hfs, hslot, hcause⟩
          · exact Or.inl hreal
          · refine Or.inr ⟨hfs, hslot, Or.inr ?_⟩
            rcases hcause with ⟨hes, hstale⟩ | ⟨e, es', hes, hle⟩
            · subst hes
              refine ⟨⟨some (reqIds r), net.nextResp, !net.slot⟩, [], by simp, ?_⟩
              simp only [Net.staleNow, record_slot, record_stale, Bool.and_eq_true] at hstale
              exact hstale.2
            · exact ⟨e, es' ++ [⟨some (reqIds r), net.nextResp, !net.slot⟩], by simp [hes], hle⟩


/-! ### C12: the retry loop -/

theorem failCount_nil (tr : Transport) : failCount tr [] = 0 := rfl

theorem failCount_tail_le (tr : Transport) (s : List Resp) : failCount tr s.tail ≤ failCount tr s := by
  cases s with
  | nil => simp [failCount]
  | cons a as => simp only [List.tail_cons, failCount]; omega

/-- The potential argument behind the retry budget: a failing `send` uses up at least one unit of
    `Net.pending`, a successful one never adds to it. -/
theorem send_pending (tr : Transport) (reqs : List Request) (net net' : Net) (res : SendResult)
    (hd : net.dead = false) (h : send tr reqs net = (res, net')) :
    (∀ rem, res = .retry rem → net'.pending tr + 1 ≤ net.pending tr) ∧ net'.pending tr ≤ net.pending tr := by
  induction reqs generalizing net with
  | nil =>
    simp only [send, Prod.mk.injEq] at h
    obtain ⟨h1, h2⟩ := h
    subst h1 h2
    exact ⟨(by intro rem hr; cases hr), Nat.le_refl _⟩
  | cons r rs ih =>
    simp only [send] at h
    cases hst : net.staleNow with
    | true =>
      rw [attempt_stale tr net r hd hst] at h
      simp only [Prod.mk.injEq] at h
      obtain ⟨h1, h2⟩ := h
      subst h1 h2
      have hst' := hst
      simp only [Net.staleNow, Bool.and_eq_true] at hst'
      simp [Net.pending, Net.staleNow, hst']
    | false =>
      rw [attempt_live tr net r hd hst] at h
      -- one transmission: the head of the script is consumed
      have hstep : (net.record r).pending tr + (if okResp tr net.nextResp then 0 else 1) ≤ net.pending tr := by
        simp only [Net.pending, Net.staleNow, record_slot, record_stale, record_script]
        cases hs : net.script with
        | nil =>
          have : net.nextResp = .ack := by simp [Net.nextResp, hs]
          simp [this, okResp_ack, failCount, Resp.leavesStale]
        | cons a as =>
          have : net.nextResp = a := by simp [Net.nextResp, hs]
          simp only [this, List.tail_cons, failCount, respCost]
          cases okResp tr a <;> cases a.leavesStale <;> cases a.headArrives <;> simp <;> omega
      cases hok : okResp tr net.nextResp with
      | false =>
        simp only [hok, Prod.mk.injEq] at h
        obtain ⟨h1, h2⟩ := h
        subst h1 h2
        simp only [hok, Bool.false_eq_true, ↓reduceIte] at hstep
        exact ⟨(by intro _ _; exact hstep), by omega⟩
      | true =>
        simp only [hok] at h
        simp only [hok, ↓reduceIte, Nat.add_zero] at hstep
        obtain ⟨h1, h2⟩ := ih _ (by simpa using hd) h
        exact ⟨(by intro rem hr; have := h1 rem hr; omega), by omega⟩

theorem send_ne_noRetry (tr : Transport) (reqs : List Request) (net net' : Net) :
    send tr reqs net ≠ (.noRetry, net') := by
  induction reqs generalizing net with
  | nil => simp [send]
  | cons r rs ih =>
    simp only [send]
    cases h : attempt tr net r with
    | mk b n =>
      cases b
      · simp
      · simpa using ih n

/-- While the failures still to come (failing responses of the script, stale pooled senders) fit in the retry
    budget, the batch is delivered: the receiver reports success and every request has an acknowledged entry
    among the new log entries. -/
theorem exec_delivers (tr : Transport) (total : Nat) (ht : 0 < total) (retries : Nat) (reqs : List Request)
    (net : Net) (hd : net.dead = false) (hf : net.pending tr ≤ retries) :
    ∃ (net' : Net) (es : List Entry), execBatch tr total retries reqs net = (true, net') ∧
      net'.log = es ++ net.log ∧ net'.dead = false ∧
      ∀ r ∈ reqs, ∃ e ∈ es, ackedBy tr e = true ∧ e.ids = some (reqIds r) := by
  induction retries generalizing reqs net with
  | zero =>
    rw [execBatch]
    cases hs : send tr reqs net with
    | mk res n1 =>
      cases res with
      | ok =>
        obtain ⟨es, hlog, hids, hack, hdead, _, _⟩ := send_ok tr reqs net n1 hs
        refine ⟨n1, es, rfl, hlog, by simp [hdead, hd], ?_⟩
        intro r hr
        have : some (reqIds r) ∈ es.reverse.map (·.ids) := by rw [hids]; exact List.mem_map_of_mem hr
        obtain ⟨e, he, hid⟩ := List.mem_map.1 this
        exact ⟨e, by simpa using he, hack e (by simpa using he), hid⟩
      | noRetry => exact absurd hs (send_ne_noRetry tr reqs net n1)
      | retry rem =>
        have := (send_pending tr reqs net n1 _ hd hs).1 rem rfl
        omega
  | succ k ih =>
    rw [execBatch]
    cases hs : send tr reqs net with
    | mk res n1 =>
      cases res with
      | ok =>
        obtain ⟨es, hlog, hids, hack, hdead, _, _⟩ := send_ok tr reqs net n1 hs
        refine ⟨n1, es, rfl, hlog, by simp [hdead, hd], ?_⟩
        intro r hr
        have : some (reqIds r) ∈ es.reverse.map (·.ids) := by rw [hids]; exact List.mem_map_of_mem hr
        obtain ⟨e, he, hid⟩ := List.mem_map.1 this
        exact ⟨e, by simpa using he, hack e (by simpa using he), hid⟩
      | noRetry => exact absurd hs (send_ne_noRetry tr reqs net n1)
      | retry rem =>
        obtain ⟨done, es, fs, r, rest, hreqs, _, hlog, hids, hack, hdead, _⟩ :=
          send_retry tr reqs rem net n1 hd hs
        have h1 := (send_pending tr reqs net n1 _ hd hs).1 rem rfl
        obtain ⟨net', es', hex, hlog', hdead', hall⟩ := ih rem n1 hdead (by omega)
        simp only [ht, ↓reduceIte]
        refine ⟨net', es' ++ (fs ++ es), hex, by simp [hlog', hlog], hdead', ?_⟩
        intro q hq
        rw [hreqs] at hq
        rcases List.mem_append.1 hq with hq | hq
        · have : some (reqIds q) ∈ es.reverse.map (·.ids) := by rw [hids]; exact List.mem_map_of_mem hq
          obtain ⟨e, he, hid⟩ := List.mem_map.1 this
          exact ⟨e, by simp [List.mem_reverse.1 he], hack e (by simpa using he), hid⟩
        · obtain ⟨e, he, h2⟩ := hall q hq
          exact ⟨e, by simp [he], h2⟩

/-- Without any failure to come the batch goes through on the first `send`: the new log entries are exactly
    the batch's requests, each once, each acknowledged. -/
theorem exec_no_failure (tr : Transport) (total retries : Nat) (reqs : List Request) (net : Net)
    (hd : net.dead = false) (hf : net.pending tr = 0) :
    ∃ (net' : Net) (es : List Entry), execBatch tr total retries reqs net = (true, net') ∧
      net'.log = es ++ net.log ∧ es.reverse.map (·.ids) = reqs.map (fun r => some (reqIds r)) ∧
      ∀ e ∈ es, ackedBy tr e = true := by
  have key : ∀ res n1, send tr reqs net = (res, n1) → res = .ok ∧
      ∃ es, n1.log = es ++ net.log ∧ es.reverse.map (·.ids) = reqs.map (fun r => some (reqIds r)) ∧
        ∀ e ∈ es, ackedBy tr e = true := by
    intro res n1 hs
    cases res with
    | ok =>
      obtain ⟨es, hlog, hids, hack, _, _, _⟩ := send_ok tr reqs net n1 hs
      exact ⟨rfl, es, hlog, hids, hack⟩
    | noRetry => exact absurd hs (send_ne_noRetry tr reqs net n1)
    | retry rem =>
      have := (send_pending tr reqs net n1 _ hd hs).1 rem rfl
      omega
  cases hs : send tr reqs net with
  | mk res n1 =>
    obtain ⟨hres, es, h2⟩ := key res n1 hs
    subst hres
    refine ⟨n1, es, ?_, h2⟩
    cases retries <;> rw [execBatch, hs]

/-- A dead endpoint: nothing is ever transmitted; after the retry budget the batch is dropped. -/
theorem exec_dead (tr : Transport) (total retries : Nat) (r : Request) (rs : List Request) (net : Net)
    (hd : net.dead = true) :
    execBatch tr total retries (r :: rs) net = (false, { net with slot := false }) := by
  induction retries generalizing net with
  | zero => rw [execBatch, send_dead tr r rs net hd]
  | succ k ih =>
    rw [execBatch, send_dead tr r rs net hd]
    simp only
    split
    · rw [ih _ (by simpa using hd)]
    · rfl


end EmitModel.Otlp
