/-
  Lemmas/Otlp.lean — helper lemmas for Thm/C14.lean and Thm/C12.lean.
-/
import EmitModel.Model.Otlp

namespace EmitModel.Otlp

/-! ### C14: the `Extract` stream classifies values -/

theorem extract_of_isNum (v : Val) (e : Ext) (h : isNum v = true) :
    extract v e = some { e with points := e.points + 1 } := by
  cases v <;> simp_all [isNum, extract]

theorem extract_inSeq_of_not_isNum (v : Val) (e : Ext) (hs : e.inSeq = true) (h : isNum v = false) :
    extract v e = none := by
  cases v <;> simp_all [isNum, extract]

/-- Inside a sequence (`in_seq = true`) the elements must all be plain numbers; each one adds a point. -/
theorem extractList_inSeq (xs : List Val) (e : Ext) (hs : e.inSeq = true) :
    extractList xs e =
      if xs.all isNum then some { e with points := e.points + xs.length } else none := by
  induction xs generalizing e with
  | nil => simp [extractList]
  | cons v vs ih =>
    cases hv : isNum v
    · simp [extractList, extract_inSeq_of_not_isNum v e hs hv, hv]
    · simp only [extractList, extract_of_isNum v e hv, List.all_cons, hv, Bool.true_and]
      rw [ih { e with points := e.points + 1 } hs]
      split <;> simp [Nat.add_assoc, Nat.add_comm 1]

/-- Top level (`in_seq = false`): what `value.stream(&mut extract)` returns, by value class. -/
theorem extract_top (v : Option Val) (p : Nat) :
    (match v with
      | none => (none : Option Ext)
      | some v => extract v ⟨false, p⟩) =
    match valueClass v, v with
    | .num, _ => some ⟨false, p + 1⟩
    | .seqNums _, some (.seq xs) => some ⟨false, p + xs.length⟩
    | _, _ => none := by
  cases v with
  | none => simp [valueClass]
  | some v =>
    cases v with
    | seq xs =>
      simp only [valueClass, extract]
      have := extractList_inSeq xs ⟨true, p⟩ rfl
      by_cases hall : xs.all isNum = true
      · simp [hall, this]
      · simp only [Bool.not_eq_true] at hall
        rw [this]
        simp only [hall, Bool.false_eq_true, ↓reduceIte]
        by_cases hany : xs.any isSeq = true <;> simp [hany]
    | int n =>
      cases h : inI64 n <;> simp [valueClass, isNum, extract, h]
    | f64 b => simp [valueClass, isNum, extract]
    | kind k => simp [valueClass, isNum, extract]
    | str s => simp [valueClass, isNum, extract]
    | disp s => simp [valueClass, isNum, extract]
    | bool b => simp [valueClass, isNum, extract]
    | null => simp [valueClass, isNum, extract]

theorem aggIsSumLike_eq (v : Option Val) : aggIsSumLike v = (aggClass v).sumLike := by
  cases v with
  | none => rfl
  | some v =>
    cases v <;> try rfl
    rename_i s
    simp only [aggIsSumLike, aggClass]
    by_cases h1 : s = "count"
    · simp [h1, AggS.sumLike]
    · by_cases h2 : s = "sum"
      · simp [h2, AggS.sumLike]
      · by_cases h3 : s = "min"
        · simp [h3, AggS.sumLike]
        · by_cases h4 : s = "max"
          · simp [h4, AggS.sumLike]
          · by_cases h5 : s = "last" <;> simp [h1, h2, h3, h4, h5, AggS.sumLike]

theorem pullKind_metric_iff (props : List (String × Val)) :
    (pullKind props = some .metric) ↔ kindClass props = .metric := by
  unfold pullKind kindClass
  cases lookupFirst "evt_kind" props with
  | none => simp
  | some v =>
    simp only [Option.bind_some]
    cases h : castKind v with
    | none => simp
    | some k => cases k <;> simp

theorem pullKind_span_iff (props : List (String × Val)) :
    (pullKind props = some .span) ↔ kindClass props = .span := by
  unfold pullKind kindClass
  cases lookupFirst "evt_kind" props with
  | none => simp
  | some v =>
    simp only [Option.bind_some]
    cases h : castKind v with
    | none => simp
    | some k => cases k <;> simp

end EmitModel.Otlp
