/-
  Lemmas/FileSetAcked.lean — the successful and the failing path of the write loop, exactly:
  what was appended when `on_batch` returns Ok, and where the cursor stands when it asks for a retry.
-/
import EmitModel.Lemmas.FileSetWalk

namespace EmitModel.FileSet

/-- The bytes the write loop appends for `evs` when every write succeeds: the separator first if the file is
    flagged for recovery, then the events back to back. -/
def laid (sep : List Nat) : Bool → List (List Nat) → List Nat
  | _, [] => []
  | nr, e :: rest => (if nr then sep else []) ++ e ++ laid sep false rest

section
variable {cfg : Config} {E : List Nat → Prop} {c : Nat}

theorem writeEvents_ok {plan : Nat → Fault} (evs : List (List Nat)) :
    ∀ {a a' : Active} {b : Batch} {s s' : St} {res : Res},
      writeEvents cfg plan a b s evs = (res, some a', s') →
      res = .ok ∧ s'.fs = appendBytes s.fs a.name (laid cfg.sep a.needsRecovery evs) ∧ s'.faulted = s.faulted ∧
        s'.active = s.active ∧ a'.name = a.name ∧ a'.ts = a.ts := by
  induction evs with
  | nil =>
    intro a a' b s s' res h
    simp only [writeEvents] at h
    cases h
    exact ⟨rfl, (appendBytes_nil _ _).symm, rfl, rfl, rfl, rfl⟩
  | cons e rest ih =>
    intro a a' b s s' res h
    simp only [writeEvents] at h
    cases h1 : writeEvent cfg plan a e s with
    | err s1 => simp only [h1] at h; cases h
    | crash s1 => simp only [h1] at h; cases h
    | ok a1 s1 =>
      simp only [h1] at h
      obtain ⟨e1, e2, e3, e4, e5, e6, _⟩ := writeEvent_ok h1
      obtain ⟨r1, r2, r3, r4, r5, r6⟩ := ih h
      refine ⟨r1, ?_, by rw [r3, e2], by rw [r4, e3], by rw [r5, e4], by rw [r6, e6]⟩
      rw [r2, e1, e4, e5, appendBytes_appendBytes]
      simp [laid]

/-- The sync of the written prefix never turns a failed attempt into a successful one. -/
theorem syncWritten_ne_ok (plan : Nat → Fault) (n : List Nat) (b b' : Batch) (s s' : St) :
    syncWritten plan n b b' s ≠ (.ok, s') := by
  unfold syncWritten
  split
  · cases hf : flushFile plan s with
    | err s3 => simp
    | crash s3 => simp
    | ok u s3 => simp only; cases hy : syncAll plan n s3 <;> simp
  · simp

theorem syncWritten_active (plan : Nat → Fault) (n : List Nat) (b b' : Batch) {s : St} (h : s.active = none) :
    (syncWritten plan n b b' s).2.active = none := by
  unfold syncWritten
  split
  · have f2 := flushFile_active plan h
    cases hf : flushFile plan s with
    | err s3 => simp only [hf, R.st] at f2 ⊢; exact f2
    | crash s3 => simp only [hf, R.st] at f2 ⊢; exact f2
    | ok u s3 =>
      simp only [hf, R.st] at f2 ⊢
      have y2 := syncAll_active plan n f2
      cases hy : syncAll plan n s3 <;> simp only [hy, R.st] at y2 ⊢ <;> exact y2
  · exact h

/-- When the attempt still ends in a retry, the batch handed back is the one the write loop produced, and either
    nothing had been written (no IO at all) or the flush and the sync of the written prefix both succeeded. -/
theorem syncWritten_retry {plan : Nat → Fault} {n : List Nat} {b b' b'' : Batch} {s s' : St}
    (h : syncWritten plan n b b' s = (.retry b'', s')) :
    b'' = b' ∧ ((b'.remaining = b.remaining ∧ s' = s) ∨
      (b'.remaining ≠ b.remaining ∧ ∃ s3, flushFile plan s = .ok () s3 ∧ syncAll plan n s3 = .ok () s')) := by
  unfold syncWritten at h
  split at h
  · rename_i hne
    cases hf : flushFile plan s with
    | err s3 => simp only [hf] at h; cases h
    | crash s3 => simp only [hf] at h; cases h
    | ok u s3 =>
      simp only [hf] at h
      cases hy : syncAll plan n s3 with
      | err s4 => simp only [hy] at h; cases h
      | crash s4 => simp only [hy] at h; cases h
      | ok u' s4 =>
        simp only [hy] at h
        cases h
        exact ⟨rfl, .inr ⟨hne, s3, rfl, hy⟩⟩
  · rename_i heq
    cases h
    exact ⟨rfl, .inl ⟨by simpa using heq, rfl⟩⟩

theorem writeEvents_res_ok {plan : Nat → Fault} (evs : List (List Nat)) :
    ∀ {a : Active} {oa : Option Active} {b : Batch} {s s' : St},
      writeEvents cfg plan a b s evs = (.ok, oa, s') → ∃ a', oa = some a' := by
  induction evs with
  | nil =>
    intro a oa b s s' h
    simp only [writeEvents] at h
    cases h; exact ⟨_, rfl⟩
  | cons e rest ih =>
    intro a oa b s s' h
    simp only [writeEvents] at h
    cases h1 : writeEvent cfg plan a e s with
    | err s1 => simp only [h1] at h; cases h
    | crash s1 => simp only [h1] at h; cases h
    | ok a1 s1 => simp only [h1] at h; exact ih h

/-- A retry from the write loop: the events before the cursor were written in full, the write of the event
    under the cursor failed, the batch handed back has advanced over exactly the written ones. -/
theorem writeEvents_retry {plan : Nat → Fault} (evs : List (List Nat)) :
    ∀ {a : Active} {oa : Option Active} {b b' : Batch} {s s' : St},
      writeEvents cfg plan a b s evs = (.retry b', oa, s') →
      ∃ pre e post a1 s1, evs = pre ++ e :: post ∧ b' = pre.foldl Batch.advance b ∧
        writeEvents cfg plan a b s pre = (.ok, some a1, s1) ∧ writeEvent cfg plan a1 e s1 = .err s' := by
  induction evs with
  | nil =>
    intro a oa b b' s s' h
    simp only [writeEvents] at h
    cases h
  | cons e rest ih =>
    intro a oa b b' s s' h
    simp only [writeEvents] at h
    cases h1 : writeEvent cfg plan a e s with
    | err s1 =>
      simp only [h1] at h
      cases h
      exact ⟨[], e, rest, a, s, rfl, rfl, rfl, h1⟩
    | crash s1 => simp only [h1] at h; cases h
    | ok a1 s1 =>
      simp only [h1] at h
      obtain ⟨pre, e', post, a2, s2, k1, k2, k3, k4⟩ := ih h
      refine ⟨e :: pre, e', post, a2, s2, by rw [k1]; rfl, by rw [k2]; rfl, ?_, k4⟩
      simp only [writeEvents, h1]
      exact k3

theorem Batch.rest_advance {b : Batch} {e : List Nat} {r : List (List Nat)} (h : b.rest = e :: r) :
    (b.advance e).rest = r := by
  unfold Batch.rest Batch.advance at *
  simp only
  have hlt : b.index < b.bufs.length := by
    apply Classical.byContradiction
    intro hn
    rw [List.drop_of_length_le (by omega)] at h
    cases h
  rw [List.drop_set_of_lt (by omega)]
  have : List.drop (b.index + 1) b.bufs = (List.drop b.index b.bufs).tail := by
    rw [List.tail_drop]
  rw [this, h]; rfl

theorem Batch.rest_foldl_advance (pre : List (List Nat)) :
    ∀ {b : Batch} {r : List (List Nat)}, b.rest = pre ++ r → (pre.foldl Batch.advance b).rest = r := by
  induction pre with
  | nil => intro b r h; simpa using h
  | cons e pre ih =>
    intro b r h
    simp only [List.foldl_cons]
    exact ih (Batch.rest_advance (by simpa using h))

/-- Every event laid down after good content starts on a record boundary. -/
theorem occurs_laid (hwf : WfEvents E c) {t : Bool} (evs : List (List Nat)) :
    ∀ {x : List Nat} {nr : Bool}, Good E c t x → (nr = false → Clean E c t x) → (∀ e ∈ evs, E e) →
      ∀ e ∈ evs, Occurs c e (x ++ laid [c] nr evs) := by
  induction evs with
  | nil => intro x nr _ _ _ e he; cases he
  | cons e0 rest ih =>
    intro x nr hgood hclean hE e he
    have hclean' : Clean E c t (x ++ if nr then [c] else []) := by
      cases nr with
      | true => simpa using hgood.append_sep
      | false => simpa using hclean rfl
    have hnext : Clean E c t ((x ++ if nr then [c] else []) ++ e0) := .evt hclean' (hE e0 (by simp))
    have heq : x ++ laid [c] nr (e0 :: rest) = ((x ++ if nr then [c] else []) ++ e0) ++ laid [c] false rest := by
      simp [laid]
    rw [heq]
    rcases List.mem_cons.mp he with rfl | hr
    · exact (Occurs.of_clean hwf hclean' e).append _
    · exact ih hnext.good (fun _ => hnext) (fun x hx => hE x (by simp [hx])) e hr

/-! ### a failed write: what it leaves behind, and the byte counter of the batch handed back -/

theorem writeAll_err {plan : Nat → Fault} {n buf : List Nat} {s s' : St} (h : writeAll plan n buf s = .err s') :
    ∃ t, s'.fs = appendBytes s.fs n t := by
  unfold writeAll at h
  split at h
  · cases h
  · split at h
    · cases h
    · cases h; exact ⟨[], (appendBytes_nil _ _).symm⟩
    · cases h; exact ⟨_, rfl⟩
    · cases h

theorem writeEvent_err {cfg : Config} {plan : Nat → Fault} {a : Active} {e : List Nat} {s s' : St}
    (h : writeEvent cfg plan a e s = .err s') : ∃ t, s'.fs = appendBytes s.fs a.name t := by
  unfold writeEvent at h
  by_cases hnr : a.needsRecovery = true
  · simp only [hnr, if_true] at h
    cases h1 : writeAll plan a.name cfg.sep s with
    | err s1 => simp only [h1] at h; cases h; exact writeAll_err h1
    | crash s1 => simp only [h1] at h; cases h
    | ok u s1 =>
      simp only [h1] at h
      obtain ⟨k1, _, _⟩ := writeAll_ok h1
      cases h2 : writeAll plan a.name e s1 with
      | err s2 =>
        simp only [h2] at h; cases h
        obtain ⟨t, ht⟩ := writeAll_err h2
        exact ⟨cfg.sep ++ t, by rw [ht, k1, appendBytes_appendBytes]⟩
      | crash s2 => simp only [h2] at h; cases h
      | ok u2 s2 => simp only [h2] at h; cases h
  · simp only [hnr, Bool.false_eq_true, if_false] at h
    cases h2 : writeAll plan a.name e s with
    | err s2 => simp only [h2] at h; cases h; exact writeAll_err h2
    | crash s2 => simp only [h2] at h; cases h
    | ok u2 s2 => simp only [h2] at h; cases h

theorem Batch.remaining_foldl_advance (pre : List (List Nat)) :
    ∀ (b : Batch), (pre.foldl Batch.advance b).remaining = b.remaining - (pre.map List.length).sum := by
  induction pre with
  | nil => intro b; simp
  | cons e pre ih =>
    intro b
    simp only [List.foldl_cons, List.map_cons, List.sum_cons]
    rw [ih]
    simp only [Batch.advance]
    omega

end

end EmitModel.FileSet
