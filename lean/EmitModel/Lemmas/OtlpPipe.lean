/-
  Lemmas/OtlpPipe.lean — one signal of the OTLP emitter as a whole (Model/OtlpPipe.lean): every composite execution
  projects onto an execution of the channel, and an invariant relating the channel's bookkeeping to what the
  collector has acknowledged.
-/
import EmitModel.Model.OtlpPipe
import EmitModel.Lemmas.BatcherFrame
import EmitModel.Lemmas.Otlp
import EmitModel.Thm.C12
set_option maxHeartbeats 400000

namespace EmitModel.OtlpPipe
open EmitModel EmitModel.Otlp

/-- Event `x` is in a request the collector recorded and the client took as acknowledged. -/
def Delivered (tr : Transport) (log : List Entry) (x : Int) : Prop :=
  ∃ e ∈ log, ackedBy tr e = true ∧ ∃ ids, e.ids = some ids ∧ x ∈ ids

theorem Delivered.mono {tr : Transport} {log : List Entry} {x : Int} (h : Delivered tr log x) (new : List Entry) :
    Delivered tr (new ++ log) x := by
  obtain ⟨e, he, h1, h2⟩ := h
  exact ⟨e, List.mem_append_right _ he, h1, h2⟩

/-- One run of the send loop, summarised: the collector's log only grows; the requests split into an acknowledged
    prefix — every event of which is delivered — and the remainder handed back (empty on success). -/
theorem send_spec (tr : Transport) : ∀ (reqs : List Request) (net : Net) (res : SendResult) (net' : Net),
    send tr reqs net = (res, net') →
    (∃ new, net'.log = new ++ net.log) ∧ res ≠ .noRetry ∧
    ∃ done rem, reqs = done ++ rem ∧ (res = .ok → rem = []) ∧ (∀ rem', res = .retry rem' → rem' = rem ∧ rem ≠ []) ∧
      ∀ r ∈ done, ∀ ev ∈ r, Delivered tr net'.log ev.id := by
  intro reqs
  induction reqs with
  | nil =>
    intro net res net' h
    simp only [send, Prod.mk.injEq] at h
    obtain ⟨rfl, rfl⟩ := h
    exact ⟨⟨[], rfl⟩, by simp, [], [], rfl, fun _ => rfl, by simp, by simp⟩
  | cons r rs ih =>
    intro net res net' h
    simp only [send] at h
    cases ha : attempt tr net r with
    | mk ok net1 =>
      simp only [ha] at h
      cases ok with
      | false =>
        simp only [Prod.mk.injEq] at h
        obtain ⟨rfl, rfl⟩ := h
        have hlog : net1.log = net.log ∨ ∃ e, net1.log = e :: net.log := by
          unfold attempt at ha
          split at ha
          · cases ha; exact .inl rfl
          · split at ha
            · cases ha; exact .inl rfl
            · simp only [Prod.mk.injEq] at ha
              obtain ⟨_, rfl⟩ := ha
              exact .inr ⟨_, rfl⟩
        refine ⟨?_, by simp, [], r :: rs, rfl, by simp, fun rem' h => by cases h; exact ⟨rfl, by simp⟩, by simp⟩
        rcases hlog with h | ⟨e, h⟩
        · exact ⟨[], by simp [h]⟩
        · exact ⟨[e], by simp [h]⟩
      | true =>
        obtain ⟨⟨new, hnew⟩, hnr, done, rem, hsplit, hok, hretry, hdel⟩ := ih net1 res net' h
        -- the attempt succeeded: the endpoint is live, the response was taken as an acknowledgement
        have hrec : net1 = net.record r ∧ okResp tr net.nextResp = true := by
          unfold attempt at ha
          split at ha
          · cases ha
          · split at ha
            · cases ha
            · simp only [Prod.mk.injEq] at ha; exact ⟨ha.2.symm, ha.1⟩
        obtain ⟨rfl, hokr⟩ := hrec
        have hne : net.nextResp ≠ .rstB := by
          intro hc; rw [hc, okResp_not_rstB] at hokr; cases hokr
        refine ⟨⟨new ++ [⟨some (reqIds r), net.nextResp, !net.slot⟩], by simp [hnew, Net.record, hne]⟩, hnr,
          r :: done, rem, by simp [hsplit], hok, hretry, ?_⟩
        intro r' hr' ev hev
        rcases List.mem_cons.mp hr' with rfl | hr'
        · refine ⟨⟨some (reqIds r'), net.nextResp, !net.slot⟩, ?_, by simpa [ackedBy] using hokr, reqIds r', rfl,
            List.mem_map.mpr ⟨ev, hev, rfl⟩⟩
          rw [hnew]; simp [Net.record, hne]
        · exact hdel r' hr' ev hev

/-- Every composite step is a step of the channel (with the outcome the transport produced). -/
theorem step_proj (cfg : Cfg) (s s' : St) (l : Label) (h : step cfg s l = some s') :
    ∃ bl, chanLabel cfg s l = some bl ∧ Batcher.step cfg.ch s.ch bl = some s'.ch := by
  cases l with
  | chan bl =>
    refine ⟨bl, rfl, ?_⟩
    cases bl
    case rxOutcome o => simp [step] at h
    case rxBegin =>
      simp only [step] at h
      cases hb : Batcher.step cfg.ch s.ch .rxBegin with
      | none => simp [hb] at h
      | some ch' =>
        simp only [hb] at h
        split at h <;> (cases h; rfl)
    all_goals
      simp only [step, Option.map_eq_some_iff] at h
      obtain ⟨ch', hc, rfl⟩ := h
      exact hc
  | process =>
    simp only [step] at h
    split at h
    · rename_i orig c ws reqs hrx hcur
      simp only [chanLabel, hrx, hcur]
      cases hob : send cfg.tr reqs s.net with
      | mk r net' =>
        simp only [hob] at h
        cases r with
        | ok =>
          simp only [Option.map_eq_some_iff] at h
          obtain ⟨ch', hc, rfl⟩ := h
          exact ⟨_, rfl, hc⟩
        | retry rem =>
          simp only [Option.map_eq_some_iff] at h
          obtain ⟨ch', hc, rfl⟩ := h
          refine ⟨_, rfl, ?_⟩
          rw [hc]; split <;> rfl
        | noRetry =>
          simp only [Option.map_eq_some_iff] at h
          obtain ⟨ch', hc, rfl⟩ := h
          exact ⟨_, rfl, hc⟩
    · simp at h

theorem reachable_proj (cfg : Cfg) (net0 : Net) (s : St) (h : Reachable cfg net0 s) :
    Batcher.Reachable cfg.ch s.ch := by
  obtain ⟨ls, hls⟩ := h
  suffices ∀ (ls : List Label) (s0 s : St), Batcher.Reachable cfg.ch s0.ch → Sched.run (step cfg) s0 ls = some s →
      Batcher.Reachable cfg.ch s.ch from this ls (init net0) s (Sched.Reachable.init _ _) hls
  intro ls
  induction ls with
  | nil => intro s0 s h0 h; simp at h; subst h; exact h0
  | cons l ls ih =>
    intro s0 s h0 h
    simp only [Sched.run] at h
    cases hs : step cfg s0 l with
    | none => simp [hs] at h
    | some s1 =>
      simp only [hs] at h
      obtain ⟨bl, _, hb⟩ := step_proj cfg s0 s1 l hs
      exact ih s1 s (h0.step hb) h

/-- Item `x` is one of the events of the requests. -/
def InReqs (reqs : List Request) (x : Nat) : Prop := ∃ r ∈ reqs, ∃ e ∈ r, e.id = (x : Int)

structure PInv (cfg : Cfg) (s : St) : Prop where
  held : ∀ orig cu, s.ch.rx.held = some (orig, cu) →
    ∃ reqs, s.cur = some reqs ∧ ∀ x ∈ orig, Delivered cfg.tr s.net.log x ∨ InReqs reqs x
  fin : ∀ x ∈ s.ch.finalised, x ∈ s.failed ∨ x ∈ s.okd
  okd : ∀ x ∈ s.okd, Delivered cfg.tr s.net.log (x : Int)

theorem pinv_init (cfg : Cfg) (net0 : Net) : PInv cfg (init net0) :=
  ⟨by intro o cu h; simp [init, Batcher.init, Batcher.Rx.held] at h, by simp [init, Batcher.init], by simp [init]⟩

theorem pinv_step (cfg : Cfg) (s s' : St) (l : Label) (hi : PInv cfg s) (h : step cfg s l = some s') :
    PInv cfg s' := by
  obtain ⟨i2, i3, i4⟩ := hi
  cases l with
  | chan bl =>
    by_cases hob : ∃ o, bl = .rxOutcome o
    · obtain ⟨o, rfl⟩ := hob; simp [step] at h
    by_cases hbg : bl = .rxBegin
    · subst hbg
      simp only [step] at h
      cases hb : Batcher.step cfg.ch s.ch .rxBegin with
      | none => simp [hb] at h
      | some ch' =>
        simp only [hb] at h
        have hfin : ch'.finalised = s.ch.finalised ∧
            ((∃ b fw, ch'.rx = .processing b b fw) ∨ ch'.rx.held = none) := by
          step_elim hb
          all_goals (first | exact ⟨rfl, .inr rfl⟩ | skip)
          rename_i b fw wasOpen hrx hlen
          exact ⟨rfl, .inl ⟨b, fw, rfl⟩⟩
        obtain ⟨f1, f2⟩ := hfin
        rcases f2 with ⟨b, fw, hrx'⟩ | hnone
        · simp only [hrx'] at h
          cases h
          refine ⟨?_, by simpa [f1] using i3, i4⟩
          intro orig cu hh
          simp only [hrx', Batcher.Rx.held, Option.some.injEq, Prod.mk.injEq] at hh
          obtain ⟨h1, h2⟩ := hh
          refine ⟨_, rfl, fun x hx => .inr ?_⟩
          rw [← h1] at hx
          have hflat := (C12.grouping_partitions cfg.limit (b.map cfg.ev)).1
          have hmem : cfg.ev x ∈ (Chan.ofEvents cfg.limit (b.map cfg.ev)).requests.reverse.flatten := by
            rw [hflat]; exact List.mem_map.mpr ⟨x, hx, rfl⟩
          obtain ⟨r, hr, her⟩ := List.mem_flatten.mp hmem
          exact ⟨r, List.mem_reverse.mp hr, cfg.ev x, her, rfl⟩
        · have : s' = { s with ch := ch' } := by
            split at h
            · rename_i o c0 w0 hp; rw [hp] at hnone; simp [Batcher.Rx.held] at hnone
            · cases h; rfl
          subst this
          refine ⟨?_, by simpa [f1] using i3, i4⟩
          intro orig cu hh
          simp only at hh
          rw [hnone] at hh; cases hh
    · have hgen : ∃ ch', Batcher.step cfg.ch s.ch bl = some ch' ∧ s' = { s with ch := ch' } := by
        cases bl
        case rxOutcome o => exact absurd ⟨o, rfl⟩ hob
        case rxBegin => exact absurd rfl hbg
        all_goals
          simp only [step, Option.map_eq_some_iff] at h
          obtain ⟨ch', hc, rfl⟩ := h
          exact ⟨ch', hc, rfl⟩
      obtain ⟨ch', hc, rfl⟩ := hgen
      obtain ⟨f1, f2⟩ := Batcher.chan_frame cfg.ch s.ch ch' bl (fun o ho => hob ⟨o, ho⟩) hbg hc
      refine ⟨?_, by simpa [f1] using i3, i4⟩
      intro orig cu hh
      simp only at hh
      rcases f2 with f2 | f2
      · rw [f2] at hh; cases hh
      · rw [f2] at hh; exact i2 orig cu hh
  | process =>
    simp only [step] at h
    split at h
    · rename_i orig cu ws reqs hrx hcur
      obtain ⟨reqs0, hr0, hall⟩ := i2 orig cu (by rw [hrx]; rfl)
      rw [hcur] at hr0; cases hr0
      cases hob : send cfg.tr reqs s.net with
      | mk r net' =>
        obtain ⟨⟨new, hnew⟩, hnr, done, rem, hsplit, hok, hretry, hdel⟩ := send_spec cfg.tr reqs s.net r net' hob
        have hokd : ∀ x ∈ s.okd, Delivered cfg.tr net'.log (x : Int) := fun x hx => by
          rw [hnew]; exact (i4 x hx).mono new
        -- every item of the first-attempt batch is delivered or still in the remainder
        have hall' : ∀ x ∈ orig, Delivered cfg.tr net'.log x ∨ InReqs rem x := by
          intro x hx
          rcases hall x hx with hd | ⟨r0, hr0, e, he, hid⟩
          · left; rw [hnew]; exact hd.mono new
          · rw [hsplit] at hr0
            rcases List.mem_append.mp hr0 with hr0 | hr0
            · left; rw [← hid]; exact hdel r0 hr0 e he
            · exact .inr ⟨r0, hr0, e, he, hid⟩
        have hfail : ∀ ch' : Batcher.St, ch'.finalised = s.ch.finalised ++ orig → ch'.rx.held = none →
            PInv cfg { s with ch := ch', net := net', cur := none, failed := s.failed ++ orig } := by
          intro ch' hf hh
          refine ⟨?_, ?_, hokd⟩
          · intro o cu' hh'; simp only at hh'; rw [hh] at hh'; cases hh'
          · intro x hx
            simp only [hf, List.mem_append] at hx ⊢
            rcases hx with hx | hx
            · rcases i3 x hx with h1 | h1
              · exact .inl (.inl h1)
              · exact .inr h1
            · exact .inl (.inr hx)
        simp only [hob] at h
        cases r with
        | noRetry => exact absurd rfl hnr
        | ok =>
          simp only [Batcher.step, Batcher.rxOutcome, hrx, Batcher.conclude, Option.map_some, Option.some.injEq] at h
          subst h
          have hrem := hok rfl
          refine ⟨?_, ?_, ?_⟩
          · intro o cu' hh'; simp only [Batcher.held_afterNotify] at hh'; cases hh'
          · intro x hx
            simp only [List.mem_append] at hx ⊢
            rcases hx with hx | hx
            · rcases i3 x hx with h1 | h1
              · exact .inl h1
              · exact .inr (.inl h1)
            · exact .inr (.inr hx)
          · intro x hx
            simp only [List.mem_append] at hx
            rcases hx with hx | hx
            · exact hokd x hx
            · rcases hall' x hx with hd | ⟨r0, hr0, _⟩
              · exact hd
              · rw [hrem] at hr0; cases hr0
        | retry rem' =>
          obtain ⟨rfl, _⟩ := hretry rem' rfl
          dsimp only at h
          simp only [Batcher.step, Batcher.rxOutcome, hrx, Batcher.conclude] at h
          split at h
          · split at h
            · simp only [Option.map_some, Option.some.injEq] at h
              subst h
              refine ⟨?_, by simpa using i3, hokd⟩
              intro o cu' hh'
              simp only [Batcher.Rx.held, Option.some.injEq, Prod.mk.injEq] at hh'
              obtain ⟨h1, _⟩ := hh'
              exact ⟨rem', rfl, by rw [← h1]; exact hall'⟩
            · simp only [Option.map_some, Option.some.injEq] at h
              subst h
              cases ws <;> exact hfail _ rfl rfl
          · simp only [Option.map_some, Option.some.injEq] at h
            subst h
            cases ws <;> exact hfail _ rfl rfl
    · simp at h

theorem pinv_reachable (cfg : Cfg) (net0 : Net) (s : St) (h : Reachable cfg net0 s) : PInv cfg s :=
  Sched.invariant_of_step (pinv_init cfg net0) (fun s l s' hi hs => pinv_step cfg s s' l hi hs) s h

end EmitModel.OtlpPipe
