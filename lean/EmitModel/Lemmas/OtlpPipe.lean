/-
  Lemmas/OtlpPipe.lean — one signal of the OTLP emitter as a whole (Model/OtlpPipe.lean): every composite execution
  projects onto an execution of the channel, and an invariant relating the channel's bookkeeping to what the
  collector has acknowledged.
-/
import EmitModel.Model.OtlpPipe
import EmitModel.Lemmas.BatcherFrame
import EmitModel.Lemmas.Otlp
import EmitModel.Thm.C12
set_option maxHeartbeats 400000

namespace EmitModel.OtlpPipe
open EmitModel EmitModel.Otlp

/-- Event `x` is in a request the collector recorded and the client took as acknowledged. -/
def Delivered (tr : Transport) (log : List Entry) (x : Int) : Prop :=
  ∃ e ∈ log, ackedBy tr e = true ∧ ∃ ids, e.ids = some ids ∧ x ∈ ids

theorem Delivered.mono {tr : Transport} {log : List Entry} {x : Int} (h : Delivered tr log x) (new : List Entry) :
    Delivered tr (new ++ log) x := by
  obtain ⟨e, he, h1, h2⟩ := h
  exact ⟨e, List.mem_append_right _ he, h1, h2⟩

/-- One run of the send loop, summarised: the collector's log only grows; the requests split into an acknowledged
    prefix — every event of which is delivered — and the remainder handed back (empty on success). -/
theorem send_spec (tr : Transport) : ∀ (reqs : List Request) (net : Net) (res : SendResult) (net' : Net),
    send tr reqs net = (res, net') →
    (∃ new, net'.log = new ++ net.log) ∧ res ≠ .noRetry ∧
    ∃ done rem, reqs = done ++ rem ∧ (res = .ok → rem = []) ∧ (∀ rem', res = .retry rem' → rem' = rem ∧ rem ≠ []) ∧
      ∀ r ∈ done, ∀ ev ∈ r, Delivered tr net'.log ev.id := by
  intro reqs
  induction reqs with
  | nil =>
    intro net res net' h
    simp only [send, Prod.mk.injEq] at h
    obtain ⟨rfl, rfl⟩ := h
    exact ⟨⟨[], rfl⟩, by simp, [], [], rfl, fun _ => rfl, by simp, by simp⟩
  | cons r rs ih =>
    intro net res net' h
    simp only [send] at h
    cases ha : attempt tr net r with
    | mk ok net1 =>
      simp only [ha] at h
      cases ok with
      | false =>
        simp only [Prod.mk.injEq] at h
        obtain ⟨rfl, rfl⟩ := h
        have hlog : net1.log = net.log ∨ ∃ e, net1.log = e :: net.log := by
          unfold attempt at ha
          split at ha
          · cases ha; exact .inl rfl
          · split at ha
            · cases ha; exact .inl rfl
            · simp only [Prod.mk.injEq] at ha
              obtain ⟨_, rfl⟩ := ha
              exact .inr ⟨_, rfl⟩
        refine ⟨?_, by simp, [], r :: rs, rfl, by simp, fun rem' h => by cases h; exact ⟨rfl, by simp⟩, by simp⟩
        rcases hlog with h | ⟨e, h⟩
        · exact ⟨[], by simp [h]⟩
        · exact ⟨[e], by simp [h]⟩
      | true =>
        obtain ⟨⟨new, hnew⟩, hnr, done, rem, hsplit, hok, hretry, hdel⟩ := ih net1 res net' h
        -- the attempt succeeded: the endpoint is live, the response was taken as an acknowledgement
        have hrec : net1 = net.record r ∧ okResp tr net.nextResp = true := by
          unfold attempt at ha
          split at ha
          · cases ha
          · split at ha
            · cases ha
            · simp only [Prod.mk.injEq] at ha; exact ⟨ha.2.symm, ha.1⟩
        obtain ⟨rfl, hokr⟩ := hrec
        have hne : net.nextResp ≠ .rstB := by
          intro hc; rw [hc, okResp_not_rstB] at hokr; cases hokr
        refine ⟨⟨new ++ [⟨some (reqIds r), net.nextResp, !net.slot⟩], by simp [hnew, Net.record, hne]⟩, hnr,
          r :: done, rem, by simp [hsplit], hok, hretry, ?_⟩
        intro r' hr' ev hev
        rcases List.mem_cons.mp hr' with rfl | hr'
        · refine ⟨⟨some (reqIds r'), net.nextResp, !net.slot⟩, ?_, by simpa [ackedBy] using hokr, reqIds r', rfl,
            List.mem_map.mpr ⟨ev, hev, rfl⟩⟩
          rw [hnew]; simp [Net.record, hne]
        · exact hdel r' hr' ev hev

/-- Every composite step is a step of the channel (with the outcome the transport produced). -/
theorem step_proj (cfg : Cfg) (s s' : St) (l : Label) (h : step cfg s l = some s') :
    ∃ bl, chanLabel cfg s l = some bl ∧ Batcher.step cfg.ch s.ch bl = some s'.ch := by
  cases l with
  | chan bl =>
    refine ⟨bl, rfl, ?_⟩
    cases bl
    case rxOutcome o => simp [step] at h
    case rxBegin =>
      simp only [step] at h
      cases hb : Batcher.step cfg.ch s.ch .rxBegin with
      | none => simp [hb] at h
      | some ch' =>
        simp only [hb] at h
        split at h <;> (cases h; rfl)
    all_goals
      simp only [step, Option.map_eq_some_iff] at h
      obtain ⟨ch', hc, rfl⟩ := h
      exact hc
  | process =>
    simp only [step] at h
    split at h
    · rename_i orig c ws reqs hrx hcur
      simp only [chanLabel, hrx, hcur]
      cases hob : send cfg.tr reqs s.net with
      | mk r net' =>
        simp only [hob] at h
        cases r with
        | ok =>
          simp only [Option.map_eq_some_iff] at h
          obtain ⟨ch', hc, rfl⟩ := h
          exact ⟨_, rfl, hc⟩
        | retry rem =>
          simp only [Option.map_eq_some_iff] at h
          obtain ⟨ch', hc, rfl⟩ := h
          refine ⟨_, rfl, ?_⟩
          rw [hc]; split <;> rfl
        | noRetry =>
          simp only [Option.map_eq_some_iff] at h
          obtain ⟨ch', hc, rfl⟩ := h
          exact ⟨_, rfl, hc⟩
    · simp at h

theorem reachable_proj (cfg : Cfg) (net0 : Net) (s : St) (h : Reachable cfg net0 s) :
    Batcher.Reachable cfg.ch s.ch := by
  obtain ⟨ls, hls⟩ := h
  suffices ∀ (ls : List Label) (s0 s : St), Batcher.Reachable cfg.ch s0.ch → Sched.run (step cfg) s0 ls = some s →
      Batcher.Reachable cfg.ch s.ch from this ls (init net0) s (Sched.Reachable.init _ _) hls
  intro ls
  induction ls with
  | nil => intro s0 s h0 h; simp at h; subst h; exact h0
  | cons l ls ih =>
    intro s0 s h0 h
    simp only [Sched.run] at h
    cases hs : step cfg s0 l with
    | none => simp [hs] at h
    | some s1 =>
      simp only [hs] at h
      obtain ⟨bl, _, hb⟩ := step_proj cfg s0 s1 l hs
      exact ih s1 s (h0.step hb) h

/-- Item `x` is one of the events of the requests. -/
def InReqs (reqs : List Request) (x : Nat) : Prop := ∃ r ∈ reqs, ∃ e ∈ r, e.id = (x : Int)

structure PInv (cfg : Cfg) (s : St) : Prop where
  held : ∀ orig cu, s.ch.rx.held = some (orig, cu) →
    ∃ reqs, s.cur = some reqs ∧ ∀ x ∈ orig, Delivered cfg.tr s.net.log x ∨ InReqs reqs x
  fin : ∀ x ∈ s.ch.finalised, x ∈ s.failed ∨ x ∈ s.okd
  okd : ∀ x ∈ s.okd, Delivered cfg.tr s.net.log (x : Int)

theorem pinv_init (cfg : Cfg) (net0 : Net) : PInv cfg (init net0) :=
  ⟨by intro o cu h; simp [init, Batcher.init, Batcher.Rx.held] at h, by simp [init, Batcher.init], by simp [init]⟩

theorem pinv_step (cfg : Cfg) (s s' : St) (l : Label) (hi : PInv cfg s) (h : step cfg s l = some s') :
    PInv cfg s' := by
  obtain ⟨i2, i3, i4⟩ := hi
  cases l with
  | chan bl =>
    by_cases hob : ∃ o, bl = .rxOutcome o
    · obtain ⟨o, rfl⟩ := hob; simp [step] at h
    by_cases hbg : bl = .rxBegin
    · subst hbg
      simp only [step] at h
      cases hb : Batcher.step cfg.ch s.ch .rxBegin with
      | none => simp [hb] at h
      | some ch' =>
        simp only [hb] at h
        have hfin : ch'.finalised = s.ch.finalised ∧
            ((∃ b fw, ch'.rx = .processing b b fw) ∨ ch'.rx.held = none) := by
          step_elim hb
          all_goals (first | exact ⟨rfl, .inr rfl⟩ | skip)
          rename_i b fw wasOpen hrx hlen
          exact ⟨rfl, .inl ⟨b, fw, rfl⟩⟩
        obtain ⟨f1, f2⟩ := hfin
        rcases f2 with ⟨b, fw, hrx'⟩ | hnone
        · simp only [hrx'] at h
          cases h
          refine ⟨?_, by simpa [f1] using i3, i4⟩
          intro orig cu hh
          simp only [hrx', Batcher.Rx.held, Option.some.injEq, Prod.mk.injEq] at hh
          obtain ⟨h1, h2⟩ := hh
          refine ⟨_, rfl, fun x hx => .inr ?_⟩
          rw [← h1] at hx
          have hflat := (C12.grouping_partitions cfg.limit (b.map cfg.ev)).1
          have hmem : cfg.ev x ∈ (Chan.ofEvents cfg.limit (b.map cfg.ev)).requests.reverse.flatten := by
            rw [hflat]; exact List.mem_map.mpr ⟨x, hx, rfl⟩
          obtain ⟨r, hr, her⟩ := List.mem_flatten.mp hmem
          exact ⟨r, List.mem_reverse.mp hr, cfg.ev x, her, rfl⟩
        · have : s' = { s with ch := ch' } := by
            split at h
            · rename_i o c0 w0 hp; rw [hp] at hnone; simp [Batcher.Rx.held] at hnone
            · cases h; rfl
          subst this
          refine ⟨?_, by simpa [f1] using i3, i4⟩
          intro orig cu hh
          simp only at hh
          rw [hnone] at hh; cases hh
    · have hgen : ∃ ch', Batcher.step cfg.ch s.ch bl = some ch' ∧ s' = { s with ch := ch' } := by
        cases bl
        case rxOutcome o => exact absurd ⟨o, rfl⟩ hob
        case rxBegin => exact absurd rfl hbg
        all_goals
          simp only [step, Option.map_eq_some_iff] at h
          obtain ⟨ch', hc, rfl⟩ := h
          exact ⟨ch', hc, rfl⟩
      obtain ⟨ch', hc, rfl⟩ := hgen
      obtain ⟨f1, f2⟩ := Batcher.chan_frame cfg.ch s.ch ch' bl (fun o ho => hob ⟨o, ho⟩) hbg hc
      refine ⟨?_, by simpa [f1] using i3, i4⟩
      intro orig cu hh
      simp only at hh
      rcases f2 with f2 | f2
      · rw [f2] at hh; cases hh
      · rw [f2] at hh; exact i2 orig cu hh
  | process =>
    simp only [step] at h
    split at h
    · rename_i orig cu ws reqs hrx hcur
      obtain ⟨reqs0, hr0, hall⟩ := i2 orig cu (by rw [hrx]; rfl)
      rw [hcur] at hr0; cases hr0
      cases hob : send cfg.tr reqs s.net with
      | mk r net' =>
        obtain ⟨⟨new, hnew⟩, hnr, done, rem, hsplit, hok, hretry, hdel⟩ := send_spec cfg.tr reqs s.net r net' hob
        have hokd : ∀ x ∈ s.okd, Delivered cfg.tr net'.log (x : Int) := fun x hx => by
          rw [hnew]; exact (i4 x hx).mono new
        -- every item of the first-attempt batch is delivered or still in the remainder
        have hall' : ∀ x ∈ orig, Delivered cfg.tr net'.log x ∨ InReqs rem x := by
          intro x hx
          rcases hall x hx with hd | ⟨r0, hr0, e, he, hid⟩
          · left; rw [hnew]; exact hd.mono new
          · rw [hsplit] at hr0
            rcases List.mem_append.mp hr0 with hr0 | hr0
            · left; rw [← hid]; exact hdel r0 hr0 e he
            · exact .inr ⟨r0, hr0, e, he, hid⟩
        have hfail : ∀ ch' : Batcher.St, ch'.finalised = s.ch.finalised ++ orig → ch'.rx.held = none →
            PInv cfg { s with ch := ch', net := net', cur := none, failed := s.failed ++ orig } := by
          intro ch' hf hh
          refine ⟨?_, ?_, hokd⟩
          · intro o cu' hh'; simp only at hh'; rw [hh] at hh'; cases hh'
          · intro x hx
            simp only [hf, List.mem_append] at hx ⊢
            rcases hx with hx | hx
            · rcases i3 x hx with h1 | h1
              · exact .inl (.inl h1)
              · exact .inr h1
            · exact .inl (.inr hx)
        simp only [hob] at h
        cases r with
        | noRetry => exact absurd rfl hnr
        | ok =>
          simp only [Batcher.step, Batcher.rxOutcome, hrx, Batcher.conclude, Option.map_some, Option.some.injEq] at h
          subst h
          have hrem := hok rfl
          refine ⟨?_, ?_, ?_⟩
          · intro o cu' hh'; simp only [Batcher.held_afterNotify] at hh'; cases hh'
          · intro x hx
            simp only [List.mem_append] at hx ⊢
            rcases hx with hx | hx
            · rcases i3 x hx with h1 | h1
              · exact .inl h1
              · exact .inr (.inl h1)
            · exact .inr (.inr hx)
          · intro x hx
            simp only [List.mem_append] at hx
            rcases hx with hx | hx
            · exact hokd x hx
            · rcases hall' x hx with hd | ⟨r0, hr0, _⟩
              · exact hd
              · rw [hrem] at hr0; cases hr0
        | retry rem' =>
          obtain ⟨rfl, _⟩ := hretry rem' rfl
          dsimp only at h
          simp only [Batcher.step, Batcher.rxOutcome, hrx, Batcher.conclude] at h
          split at h
          · split at h
            · simp only [Option.map_some, Option.some.injEq] at h
              subst h
              refine ⟨?_, by simpa using i3, hokd⟩
              intro o cu' hh'
              simp only [Batcher.Rx.held, Option.some.injEq, Prod.mk.injEq] at hh'
              obtain ⟨h1, _⟩ := hh'
              exact ⟨rem', rfl, by rw [← h1]; exact hall'⟩
            · simp only [Option.map_some, Option.some.injEq] at h
              subst h
              cases ws <;> exact hfail _ rfl rfl
          · simp only [Option.map_some, Option.some.injEq] at h
            subst h
            cases ws <;> exact hfail _ rfl rfl
    · simp at h

theorem pinv_reachable (cfg : Cfg) (net0 : Net) (s : St) (h : Reachable cfg net0 s) : PInv cfg s :=
  Sched.invariant_of_step (pinv_init cfg net0) (fun s l s' hi hs => pinv_step cfg s s' l hi hs) s h

/-! ### within the retry budget no batch is ever given up -/

theorem send_keeps_dead (tr : Transport) : ∀ (reqs : List Request) (net : Net),
    (send tr reqs net).2.dead = net.dead := by
  intro reqs
  induction reqs with
  | nil => intro net; rfl
  | cons r rs ih =>
    intro net
    simp only [send]
    cases ha : attempt tr net r with
    | mk ok net1 =>
      have hd : net1.dead = net.dead := by
        unfold attempt at ha
        split at ha
        · cases ha; rfl
        · split at ha
          · cases ha; rfl
          · simp only [Prod.mk.injEq] at ha; obtain ⟨_, rfl⟩ := ha; rfl
      cases ok with
      | false => simpa using hd
      | true => simp only; rw [ih, hd]

/-- The retry budget as a potential: the failures the collector still has in store plus the retries the held batch has
    already used never exceed the budget — so no batch is ever given up. -/
structure BInv (cfg : Cfg) (s : St) : Prop where
  alive : s.net.dead = false
  noneFailed : s.failed = []
  nonempty : ∀ reqs, s.cur = some reqs → ∀ r ∈ reqs, r ≠ []
  budget : s.net.pending cfg.tr + (if s.ch.rx.held.isSome then s.ch.retryCur else 0) ≤ cfg.ch.retryMax

theorem binv_init (cfg : Cfg) (net0 : Net) (hd : net0.dead = false) (hb : net0.pending cfg.tr ≤ cfg.ch.retryMax) :
    BInv cfg (init net0) :=
  ⟨hd, rfl, by intro reqs h; simp [init] at h, by simpa [init, Batcher.init, Batcher.Rx.held] using hb⟩

theorem itemsOf_ne_nil {reqs : List Request} (hne : reqs ≠ []) (hall : ∀ r ∈ reqs, r ≠ []) : itemsOf reqs ≠ [] := by
  cases reqs with
  | nil => exact absurd rfl hne
  | cons r rs =>
    have hr := hall r (by simp)
    cases r with
    | nil => exact absurd rfl hr
    | cons e es => simp [itemsOf]

theorem binv_step (cfg : Cfg) (s s' : St) (l : Label) (hi : BInv cfg s) (h : step cfg s l = some s') :
    BInv cfg s' := by
  obtain ⟨j1, j2, j3, j4⟩ := hi
  cases l with
  | chan bl =>
    by_cases hob : ∃ o, bl = .rxOutcome o
    · obtain ⟨o, rfl⟩ := hob; simp [step] at h
    by_cases hbg : bl = .rxBegin
    · subst hbg
      simp only [step] at h
      cases hb : Batcher.step cfg.ch s.ch .rxBegin with
      | none => simp [hb] at h
      | some ch' =>
        simp only [hb] at h
        have hpend : s.net.pending cfg.tr ≤ cfg.ch.retryMax := by
          split at j4 <;> omega
        have hfin : (∃ b fw, ch'.rx = .processing b b fw ∧ ch'.retryCur = 0) ∨ ch'.rx.held = none := by
          step_elim hb
          all_goals (first | exact .inr rfl | skip)
          rename_i b fw wasOpen hrx hlen
          exact .inl ⟨b, fw, rfl, rfl⟩
        rcases hfin with ⟨b, fw, hrx', hrc⟩ | hnone
        · simp only [hrx'] at h
          cases h
          refine ⟨j1, j2, ?_, by simpa [hrx', Batcher.Rx.held, hrc] using hpend⟩
          intro reqs hreqs r hr
          simp only [Option.some.injEq] at hreqs
          subst hreqs
          exact (C12.grouping_partitions cfg.limit (b.map cfg.ev)).2.2.1 r hr
        · have : s' = { s with ch := ch' } := by
            split at h
            · rename_i o c0 w0 hp; rw [hp] at hnone; simp [Batcher.Rx.held] at hnone
            · cases h; rfl
          subst this
          exact ⟨j1, j2, j3, by simpa [hnone] using hpend⟩
    · have hgen : ∃ ch', Batcher.step cfg.ch s.ch bl = some ch' ∧ s' = { s with ch := ch' } := by
        cases bl
        case rxOutcome o => exact absurd ⟨o, rfl⟩ hob
        case rxBegin => exact absurd rfl hbg
        all_goals
          simp only [step, Option.map_eq_some_iff] at h
          obtain ⟨ch', hc, rfl⟩ := h
          exact ⟨ch', hc, rfl⟩
      obtain ⟨ch', hc, rfl⟩ := hgen
      obtain ⟨_, f2⟩ := Batcher.chan_frame cfg.ch s.ch ch' bl (fun o ho => hob ⟨o, ho⟩) hbg hc
      have f3 := Batcher.chan_frame_retry cfg.ch s.ch ch' bl (fun o ho => hob ⟨o, ho⟩) hbg hc
      refine ⟨j1, j2, j3, ?_⟩
      simp only
      rcases f2 with f2 | f2
      · rw [f2]; split at j4 <;> simp <;> omega
      · rw [f2, f3]; exact j4
  | process =>
    simp only [step] at h
    split at h
    · rename_i orig cu ws reqs hrx hcur
      have hheld : s.ch.rx.held.isSome = true := by rw [hrx]; rfl
      simp only [hheld, if_true] at j4
      cases hob : send cfg.tr reqs s.net with
      | mk r net' =>
        have hdead : net'.dead = false := by
          have := send_keeps_dead cfg.tr reqs s.net
          rw [hob] at this; simpa [j1] using this
        obtain ⟨hp1, hp2⟩ := send_pending cfg.tr reqs s.net net' r j1 hob
        obtain ⟨_, hnr, done, rem, hsplit, _, hretry, _⟩ := send_spec cfg.tr reqs s.net r net' hob
        simp only [hob] at h
        cases r with
        | noRetry => exact absurd rfl hnr
        | ok =>
          simp only [Batcher.step, Batcher.rxOutcome, hrx, Batcher.conclude, Option.map_some, Option.some.injEq] at h
          subst h
          refine ⟨hdead, j2, (by intro reqs h; cases h), ?_⟩
          simp only [Batcher.held_afterNotify, Option.isSome_none, Bool.false_eq_true, if_false]
          omega
        | retry rem' =>
          obtain ⟨rfl, hne⟩ := hretry rem' rfl
          have hp := hp1 rem' rfl
          have hall : ∀ r ∈ rem', r ≠ [] := fun r hr => j3 reqs hcur r (by rw [hsplit]; exact List.mem_append_right _ hr)
          have hitems : (itemsOf rem').length > 0 := List.length_pos_iff.mpr (itemsOf_ne_nil hne hall)
          dsimp only at h
          simp only [Batcher.step, Batcher.rxOutcome, hrx, Batcher.conclude, hitems, if_true] at h
          split at h
          · rename_i hle
            simp only [Option.map_some, Option.some.injEq] at h
            subst h
            refine ⟨hdead, j2, (by intro reqs h; cases h; exact hall), ?_⟩
            simp only [Batcher.Rx.held, Option.isSome_some, if_true]
            omega
          · rename_i hgt
            exfalso
            omega
    · simp at h

theorem binv_reachable (cfg : Cfg) (net0 : Net) (hd : net0.dead = false) (hb : net0.pending cfg.tr ≤ cfg.ch.retryMax)
    (s : St) (h : Reachable cfg net0 s) : BInv cfg s :=
  Sched.invariant_of_step (binv_init cfg net0 hd hb) (fun s l s' hi hs => binv_step cfg s s' l hi hs) s h

/-! ### receiver steps: a composite execution has the receiver steps of its channel execution -/

/-- The composite labels that are steps of the receiver: its channel steps and the conclusions of `on_batch`. -/
def Label.isRx : Label → Bool
  | .chan l => l.isRx
  | .process => true

theorem step_proj' (cfg : Cfg) (s s' : St) (l : Label) (h : step cfg s l = some s') :
    ∃ bl, Batcher.step cfg.ch s.ch bl = some s'.ch ∧ bl.isRx = Label.isRx l := by
  cases l with
  | chan bl =>
    refine ⟨bl, ?_, rfl⟩
    cases bl
    case rxOutcome o => simp [step] at h
    case rxBegin =>
      simp only [step] at h
      cases hb : Batcher.step cfg.ch s.ch .rxBegin with
      | none => simp [hb] at h
      | some ch' =>
        simp only [hb] at h
        split at h <;> (cases h; rfl)
    all_goals
      simp only [step, Option.map_eq_some_iff] at h
      obtain ⟨ch', hc, rfl⟩ := h
      exact hc
  | process =>
    simp only [step] at h
    split at h
    · rename_i orig c ws reqs hrx hcur
      cases hob : send cfg.tr reqs s.net with
      | mk r net' =>
        simp only [hob] at h
        cases r with
        | ok =>
          simp only [Option.map_eq_some_iff] at h
          obtain ⟨ch', hc, rfl⟩ := h
          exact ⟨_, hc, rfl⟩
        | retry rem =>
          simp only [Option.map_eq_some_iff] at h
          obtain ⟨ch', hc, rfl⟩ := h
          refine ⟨.rxOutcome (.failRetry (itemsOf rem)), ?_, rfl⟩
          rw [hc]; split <;> rfl
        | noRetry =>
          simp only [Option.map_eq_some_iff] at h
          obtain ⟨ch', hc, rfl⟩ := h
          exact ⟨_, hc, rfl⟩
    · simp at h

theorem run_proj (cfg : Cfg) : ∀ (ls : List Label) (s s' : St), Sched.run (step cfg) s ls = some s' →
    ∃ bls, Sched.run (Batcher.step cfg.ch) s.ch bls = some s'.ch ∧
      Sched.countSel Batcher.Label.isRx bls = Sched.countSel Label.isRx ls := by
  intro ls
  induction ls with
  | nil => intro s s' h; simp at h; subst h; exact ⟨[], rfl, rfl⟩
  | cons l ls ih =>
    intro s s' h
    simp only [Sched.run] at h
    cases hs : step cfg s l with
    | none => simp [hs] at h
    | some s1 =>
      simp only [hs] at h
      obtain ⟨bl, hbl, hrx⟩ := step_proj' cfg s s1 l hs
      obtain ⟨bls, hb, hc⟩ := ih s1 s' h
      refine ⟨bl :: bls, by simp [Sched.run, hbl, hb], ?_⟩
      rw [Sched.countSel_cons, Sched.countSel_cons, hc, hrx]

/-- Which channel step a composite step is. -/
theorem step_chan (cfg : Cfg) (s s' : St) (l : Label) (h : step cfg s l = some s') :
    ∃ bl, Batcher.step cfg.ch s.ch bl = some s'.ch ∧ (l = .chan bl ∨ (l = .process ∧ ∃ o, bl = .rxOutcome o)) := by
  cases l with
  | chan bl =>
    refine ⟨bl, ?_, .inl rfl⟩
    cases bl
    case rxOutcome o => simp [step] at h
    case rxBegin =>
      simp only [step] at h
      cases hb : Batcher.step cfg.ch s.ch .rxBegin with
      | none => simp [hb] at h
      | some ch' =>
        simp only [hb] at h
        split at h <;> (cases h; rfl)
    all_goals
      simp only [step, Option.map_eq_some_iff] at h
      obtain ⟨ch', hc, rfl⟩ := h
      exact hc
  | process =>
    simp only [step] at h
    split at h
    · rename_i orig c ws reqs hrx hcur
      cases hob : send cfg.tr reqs s.net with
      | mk r net' =>
        simp only [hob] at h
        cases r with
        | ok =>
          simp only [Option.map_eq_some_iff] at h
          obtain ⟨ch', hc, rfl⟩ := h
          exact ⟨_, hc, .inr ⟨rfl, _, rfl⟩⟩
        | retry rem =>
          simp only [Option.map_eq_some_iff] at h
          obtain ⟨ch', hc, rfl⟩ := h
          refine ⟨.rxOutcome (.failRetry (itemsOf rem)), ?_, .inr ⟨rfl, _, rfl⟩⟩
          rw [hc]; split <;> rfl
        | noRetry =>
          simp only [Option.map_eq_some_iff] at h
          obtain ⟨ch', hc, rfl⟩ := h
          exact ⟨_, hc, .inr ⟨rfl, _, rfl⟩⟩
    · simp at h
end EmitModel.OtlpPipe
