/-
  Lemmas/TimestampOrder.lean — C15. Formatted timestamps order lexicographically (as bytes) exactly as the instants:
    * `blt_append`, `digits_cmp`: comparing concatenations of equal-length digit fields;
    * `fmtParts_lt`: text order = lexicographic order of the printed fields;
    * `year_mono`, `date_mono`, `date_key`: `to_parts` is strictly monotone in the day number (needs the
      "day 365 only in leap years" clause of the era decomposition);
    * `fields_order`, `fmt_order_lemma`.
-/
import EmitModel.Lemmas.TimestampText

namespace EmitModel.Timestamp
open EmitModel.Text

/-- `a < b` on byte strings as a proposition -/
def BLt (a b : List UInt8) : Prop := bytesLt a b = true

theorem blt_nil (a : List UInt8) : ¬ BLt a [] := by
  cases a <;> simp [BLt, bytesLt]

theorem blt_irrefl (a : List UInt8) : ¬ BLt a a := by
  induction a with
  | nil => simp [BLt, bytesLt]
  | cons x xs ih =>
    simp only [BLt, bytesLt, Bool.or_eq_true, decide_eq_true_eq, Bool.and_eq_true, beq_iff_eq, true_and]
    intro h
    rcases h with h | h
    · exact absurd h (UInt8.lt_irrefl x)
    · exact ih h

/-- comparing two concatenations whose first parts have the same length -/
theorem blt_append (x1 x2 r1 r2 : List UInt8) (h : x1.length = x2.length) :
    BLt (x1 ++ r1) (x2 ++ r2) ↔ BLt x1 x2 ∨ (x1 = x2 ∧ BLt r1 r2) := by
  induction x1 generalizing x2 with
  | nil =>
    have : x2 = [] := List.eq_nil_of_length_eq_zero (by simpa using h.symm)
    subst this
    simp [BLt, bytesLt]
  | cons a as ih =>
    cases x2 with
    | nil => simp at h
    | cons b bs =>
      have hl : as.length = bs.length := by simpa using h
      have := ih bs hl
      simp only [BLt] at this ⊢
      simp only [List.cons_append, bytesLt, Bool.or_eq_true, decide_eq_true_eq, Bool.and_eq_true, beq_iff_eq,
        this, List.cons.injEq]
      constructor
      · rintro (h1 | ⟨h1, h2 | ⟨h2, h3⟩⟩)
        · exact Or.inl (Or.inl h1)
        · exact Or.inl (Or.inr ⟨h1, h2⟩)
        · exact Or.inr ⟨⟨h1, h2⟩, h3⟩
      · rintro ((h1 | ⟨h1, h2⟩) | ⟨⟨h1, h2⟩, h3⟩)
        · exact Or.inl h1
        · exact Or.inr ⟨h1, Or.inl h2⟩
        · exact Or.inr ⟨h1, Or.inr ⟨h2, h3⟩⟩

theorem lex_mul (dx dy vx vy P : Nat) (hx : vx < P) (hy : vy < P) :
    (dx * P + vx < dy * P + vy ↔ dx < dy ∨ (dx = dy ∧ vx < vy)) ∧
    (dx * P + vx = dy * P + vy ↔ dx = dy ∧ vx = vy) := by
  rcases Nat.lt_trichotomy dx dy with h | h | h
  · have h1 : (dx + 1) * P ≤ dy * P := Nat.mul_le_mul_right P h
    rw [Nat.succ_mul] at h1
    constructor <;> constructor <;> intro _ <;> omega
  · subst h
    constructor <;> constructor <;> intro _ <;> omega
  · have h1 : (dy + 1) * P ≤ dx * P := Nat.mul_le_mul_right P h
    rw [Nat.succ_mul] at h1
    constructor <;> constructor <;> intro _ <;> omega

theorem foldl_acc (xs : List UInt8) (acc : Nat) :
    xs.foldl (fun acc b => acc * 10 + digitVal b) acc =
      acc * 10 ^ xs.length + xs.foldl (fun acc b => acc * 10 + digitVal b) 0 := by
  induction xs generalizing acc with
  | nil => simp
  | cons b rest ih =>
    simp only [List.foldl_cons, List.length_cons]
    rw [ih (acc * 10 + digitVal b), ih (0 * 10 + digitVal b), Nat.pow_succ]
    simp only [Nat.zero_mul, Nat.zero_add, Nat.add_mul, Nat.mul_assoc, Nat.add_assoc]
    rw [Nat.mul_comm 10 (10 ^ rest.length)]

theorem digitsVal_cons (x : UInt8) (xs : List UInt8) :
    digitsVal (x :: xs) = digitVal x * 10 ^ xs.length + digitsVal xs := by
  simp only [digitsVal, List.foldl_cons, Nat.zero_mul, Nat.zero_add]
  exact foldl_acc xs (digitVal x)

theorem digitsVal_append' (xs ys : List UInt8) :
    digitsVal (xs ++ ys) = digitsVal xs * 10 ^ ys.length + digitsVal ys := by
  simp only [digitsVal, List.foldl_append]
  exact foldl_acc ys _

theorem digit_cmp (x y : UInt8) (hx : isDigit x = true) (hy : isDigit y = true) :
    (x < y ↔ digitVal x < digitVal y) ∧ (x = y ↔ digitVal x = digitVal y) := by
  simp only [isDigit, Bool.and_eq_true, decide_eq_true_eq, UInt8.le_iff_toNat_le] at hx hy
  have h48 : (48 : UInt8).toNat = 48 := rfl
  have h57 : (57 : UInt8).toNat = 57 := rfl
  rw [h48, h57] at hx hy
  simp only [digitVal, UInt8.lt_iff_toNat_lt, ← UInt8.toNat_inj]
  omega

theorem digits_cmp (a b : List UInt8) (hl : a.length = b.length) (ha : a.all isDigit = true)
    (hb : b.all isDigit = true) :
    (BLt a b ↔ digitsVal a < digitsVal b) ∧ (a = b ↔ digitsVal a = digitsVal b) := by
  induction a generalizing b with
  | nil =>
    have : b = [] := List.eq_nil_of_length_eq_zero (by simpa using hl.symm)
    subst this
    simp [BLt, bytesLt]
  | cons x xs ih =>
    cases b with
    | nil => simp at hl
    | cons y ys =>
      simp only [List.all_cons, Bool.and_eq_true] at ha hb
      have hl' : xs.length = ys.length := by simpa using hl
      obtain ⟨i1, i2⟩ := ih ys hl' ha.2 hb.2
      obtain ⟨c1, c2⟩ := digit_cmp x y ha.1 hb.1
      have vx := digitsVal_lt_aux xs ha.2 0
      have vy := digitsVal_lt_aux ys hb.2 0
      simp only [Nat.zero_add, Nat.one_mul] at vx vy
      have vx' : digitsVal xs < 10 ^ xs.length := vx
      have vy' : digitsVal ys < 10 ^ xs.length := by rw [hl']; exact vy
      obtain ⟨m1, m2⟩ := lex_mul (digitVal x) (digitVal y) (digitsVal xs) (digitsVal ys) (10 ^ xs.length) vx' vy'
      rw [digitsVal_cons, digitsVal_cons, ← hl']
      have hb1 : BLt (x :: xs) (y :: ys) ↔ x < y ∨ (x = y ∧ BLt xs ys) := by
        simp [BLt, bytesLt]
      rw [hb1, m1, m2, c1, c2, i1, List.cons.injEq, c2, i2]
      exact ⟨Iff.rfl, Iff.rfl⟩

theorem blt_field (a b r1 r2 : List UInt8) (hl : a.length = b.length) (ha : a.all isDigit = true)
    (hb : b.all isDigit = true) :
    BLt (a ++ r1) (b ++ r2) ↔ digitsVal a < digitsVal b ∨ (digitsVal a = digitsVal b ∧ BLt r1 r2) := by
  obtain ⟨c1, c2⟩ := digits_cmp a b hl ha hb
  rw [blt_append a b r1 r2 hl, c1, c2]

theorem blt_sep (c : UInt8) (r1 r2 : List UInt8) : BLt (c :: r1) (c :: r2) ↔ BLt r1 r2 := by
  simp [BLt, bytesLt]

theorem digits_some (bs : List UInt8) (v : Nat) (h : digits bs = some v) :
    bs.all isDigit = true ∧ digitsVal bs = v := by
  unfold digits at h
  split at h
  · rename_i hd; exact ⟨hd, by simpa using h⟩
  · cases h

theorem two_spec (x : Nat) (hx : x < 100) : (two x).all isDigit = true ∧ digitsVal (two x) = x ∧ (two x).length = 2 := by
  have := digits_some _ _ (digits2 x hx)
  exact ⟨this.1, this.2, rfl⟩

theorem four_spec (x : Nat) (hx : x < 10000) :
    (four x).all isDigit = true ∧ digitsVal (four x) = x ∧ (four x).length = 4 := by
  have := digits_some _ _ (digits4 x hx)
  exact ⟨this.1, this.2, rfl⟩

theorem fmtParts_segs (k : Nat) (p : Parts) :
    fmtParts (some k) p =
      four p.years ++ (45 :: (two p.months ++ (45 :: (two p.days ++ (84 :: (two p.hours ++ (58 :: (two p.minutes ++
        (58 :: (two p.seconds ++ (if k = 0 then [90] else 46 :: (fracDigits (min 9 k) p.nanos ++ [90])))))))))))) := by
  cases k with
  | zero => simp [fmtParts, fmtDateTime, four, two]
  | succ k => simp [fmtParts, fmtDateTime, four, two]

/-- Text order of two formatted in-range calendar parts at the same precision = lexicographic order of the
    fields (years, months, days, hours, minutes, seconds, printed fraction). -/
theorem fmtParts_lt (k : Nat) (hk : k ≤ 9) (p q : Parts) (hp : InRange p) (hq : InRange q) :
    BLt (fmtParts (some k) p) (fmtParts (some k) q) ↔
      p.years < q.years ∨ (p.years = q.years ∧ (p.months < q.months ∨ (p.months = q.months ∧
      (p.days < q.days ∨ (p.days = q.days ∧ (p.hours < q.hours ∨ (p.hours = q.hours ∧
      (p.minutes < q.minutes ∨ (p.minutes = q.minutes ∧ (p.seconds < q.seconds ∨ (p.seconds = q.seconds ∧
      p.nanos / 10 ^ (9 - k) < q.nanos / 10 ^ (9 - k)))))))))))) := by
  obtain ⟨⟨_, py⟩, ⟨_, pmo⟩, ⟨_, pd⟩, ph, pmi, ps, pn⟩ := hp
  obtain ⟨⟨_, qy⟩, ⟨_, qmo⟩, ⟨_, qd⟩, qh, qmi, qs, qn⟩ := hq
  obtain ⟨y1, y2, y3⟩ := four_spec p.years (by omega)
  obtain ⟨y1', y2', y3'⟩ := four_spec q.years (by omega)
  obtain ⟨a1, a2, a3⟩ := two_spec p.months (by omega)
  obtain ⟨a1', a2', a3'⟩ := two_spec q.months (by omega)
  obtain ⟨b1, b2, b3⟩ := two_spec p.days (by omega)
  obtain ⟨b1', b2', b3'⟩ := two_spec q.days (by omega)
  obtain ⟨c1, c2, c3⟩ := two_spec p.hours (by omega)
  obtain ⟨c1', c2', c3'⟩ := two_spec q.hours (by omega)
  obtain ⟨d1, d2, d3⟩ := two_spec p.minutes (by omega)
  obtain ⟨d1', d2', d3'⟩ := two_spec q.minutes (by omega)
  obtain ⟨e1, e2, e3⟩ := two_spec p.seconds (by omega)
  obtain ⟨e1', e2', e3'⟩ := two_spec q.seconds (by omega)
  rw [fmtParts_segs, fmtParts_segs,
    blt_field _ _ _ _ (by rw [y3, y3']) y1 y1', blt_sep,
    blt_field _ _ _ _ (by rw [a3, a3']) a1 a1', blt_sep,
    blt_field _ _ _ _ (by rw [b3, b3']) b1 b1', blt_sep,
    blt_field _ _ _ _ (by rw [c3, c3']) c1 c1', blt_sep,
    blt_field _ _ _ _ (by rw [d3, d3']) d1 d1', blt_sep,
    blt_field _ _ _ _ (by rw [e3, e3']) e1 e1',
    y2, y2', a2, a2', b2, b2', c2, c2', d2, d2', e2, e2']
  have tail : BLt (if k = 0 then [90] else 46 :: (fracDigits (min 9 k) p.nanos ++ [90]))
        (if k = 0 then [90] else 46 :: (fracDigits (min 9 k) q.nanos ++ [90])) ↔
      p.nanos / 10 ^ (9 - k) < q.nanos / 10 ^ (9 - k) := by
    by_cases h0 : k = 0
    · subst h0
      simp only [↓reduceIte, Nat.sub_zero]
      have e : (10 : Nat) ^ 9 = 1000000000 := by decide
      rw [e, Nat.div_eq_of_lt (by omega), Nat.div_eq_of_lt (by omega)]
      simp [BLt, bytesLt]
    · have hmin : min 9 k = k := by omega
      have hn9 : (10 : Nat) ^ 9 = 1000000000 := by decide
      obtain ⟨f1, f2⟩ := fracDigits_spec k p.nanos hk (by rw [hn9]; omega)
      obtain ⟨g1, g2⟩ := fracDigits_spec k q.nanos hk (by rw [hn9]; omega)
      simp only [h0, ↓reduceIte, hmin]
      rw [blt_sep, blt_field _ _ _ _ (by rw [fracDigits_length, fracDigits_length]) f1 g1, f2, g2]
      have : ¬ BLt [90] [90] := blt_irrefl _
      simp [this]
  rw [tail]

theorem year_mono (qc c q y qc' c' q' y' : Int)
    (c0 : 0 ≤ c) (c3 : c ≤ 3) (q0 : 0 ≤ q) (q24 : q ≤ 24) (y0 : 0 ≤ y) (y3 : y ≤ 3)
    (c0' : 0 ≤ c') (c3' : c' ≤ 3) (q0' : 0 ≤ q') (q24' : q' ≤ 24) (y0' : 0 ≤ y') (y3' : y' ≤ 3)
    (h : y' + 4 * q' + 100 * c' + 400 * qc' + 1 ≤ y + 4 * q + 100 * c + 400 * qc) :
    146097 * qc' + 36524 * c' + 1461 * q' + 365 * y' + 365 ≤ 146097 * qc + 36524 * c + 1461 * q + 365 * y ∧
    (y' = 3 → (q' = 24 → c' = 3) →
      146097 * qc' + 36524 * c' + 1461 * q' + 365 * y' + 366 ≤ 146097 * qc + 36524 * c + 1461 * q + 365 * y) := by
  rcases Int.lt_trichotomy qc' qc with hq | hq | hq
  · constructor
    · omega
    · intro _ _; omega
  · subst hq
    rcases Int.lt_trichotomy c' c with hc | hc | hc
    · constructor
      · omega
      · intro _ _; omega
    · subst hc
      rcases Int.lt_trichotomy q' q with hq | hq | hq
      · constructor
        · omega
        · intro _ _; omega
      · subst hq
        constructor
        · omega
        · intro _ _; omega
      · omega
    · omega
  · omega

theorem date_mono (d qc c q y r3 d' qc' c' q' y' r3' : Int) (hE : Era d qc c q y r3) (hE' : Era d' qc' c' q' y' r3')
    (hd : d < d') :
    y + 4 * q + 100 * c + 400 * qc < y' + 4 * q' + 100 * c' + 400 * qc' ∨
    (qc = qc' ∧ c = c' ∧ q = q' ∧ y = y' ∧ r3 < r3') := by
  obtain ⟨c0, c3, q0, q24, y0, y3, r0, r365, hsum, hleap⟩ := hE
  obtain ⟨c0', c3', q0', q24', y0', y3', r0', r365', hsum', hleap'⟩ := hE'
  rcases Int.lt_trichotomy (y + 4 * q + 100 * c + 400 * qc) (y' + 4 * q' + 100 * c' + 400 * qc') with h | h | h
  · exact Or.inl h
  · right
    have e1 : qc = qc' := by omega
    have e2 : c = c' := by omega
    have e3 : q = q' := by omega
    have e4 : y = y' := by omega
    refine ⟨e1, e2, e3, e4, ?_⟩
    subst e1 e2 e3 e4
    omega
  · exfalso
    obtain ⟨m1, m2⟩ := year_mono qc c q y qc' c' q' y' c0 c3 q0 q24 y0 y3 c0' c3' q0' q24' y0' y3' (by omega)
    by_cases hl : r3' = 365
    · obtain ⟨l1, l2⟩ := hleap' hl
      have := m2 l1 l2
      omega
    · omega

def mkey (n : Nat) : Nat := 32 * (monthOfDoy n).1 + (monthOfDoy n).2

theorem mkey_succ : ∀ n, n < 365 → mkey n < mkey (n + 1) := by decide +kernel

theorem mkey_mono (n m : Nat) (h : n < m) (hm : m < 366) : mkey n < mkey m := by
  induction m with
  | zero => omega
  | succ m ih =>
    rcases Nat.lt_or_ge n m with h' | h'
    · exact Nat.lt_trans (ih h' (by omega)) (mkey_succ m (by omega))
    · have : n = m := by omega
      subst this
      exact mkey_succ n (by omega)

/-- everything `to_parts` computes, as equations between the fields and the era digits -/
theorem toPartsO_fields (t secs : Nat) (e1 : t / NANOS = secs) (ht : secs ≤ MAX_SECS) :
    ∃ p qc c q y r3, toPartsO t = .ok p ∧ Era (((secs / 86400 : Nat) : Int) - 11017) qc c q y r3 ∧
      (12 * (p.years : Int) + p.months = 12 * (y + 4 * q + 100 * c + 400 * qc + 2000) + (monthOfDoy r3.toNat).1 + 3) ∧
      1 ≤ p.months ∧ p.months ≤ 12 ∧
      p.days = (monthOfDoy r3.toNat).2 + 1 ∧ p.days ≤ 31 ∧
      p.hours = secs % 86400 / 3600 ∧ p.minutes = secs % 86400 / 60 % 60 ∧
      p.seconds = secs % 86400 % 60 ∧ p.nanos = t % NANOS := by
  obtain ⟨qc, c, q, y, r3, hE, hdate⟩ := dateOfDays_spec (((secs / 86400 : Nat) : Int) - 11017)
  have hrs : ¬ (((secs % 86400 : Nat) : Int) < 0) := by omega
  have hrl : secs % 86400 < 86400 := Nat.mod_lt _ (by decide)
  unfold toPartsO
  simp only [e1, hrs, ↓reduceIte, hdate]
  have hsm : secs ≤ 253402300799 := ht
  obtain ⟨hylo, hylo'⟩ := year_lo _ _ _ _ _ _ hE (by omega)
  have hE' := hE
  obtain ⟨c0, c3, q0, q24, y0, y3, r0, r365, hsum, hleap⟩ := hE
  have hmf := month_facts r3.toNat (by omega)
  have h0 : (0 : Int) ≤ ((secs % 86400 : Nat) : Int) := by omega
  have h1 : (0 : Int) ≤ ((secs % 86400 : Nat) : Int) / 60 := by omega
  have t1 : (((secs % 86400 : Nat) : Int).tdiv 3600).toNat = secs % 86400 / 3600 := by
    rw [Int.tdiv_eq_ediv_of_nonneg h0]; omega
  have t2 : ((((secs % 86400 : Nat) : Int).tdiv 60).tmod 60).toNat = secs % 86400 / 60 % 60 := by
    rw [Int.tdiv_eq_ediv_of_nonneg h0, Int.tmod_eq_emod_of_nonneg h1]; omega
  have t3 : (((secs % 86400 : Nat) : Int).tmod 60).toNat = secs % 86400 % 60 := by
    rw [Int.tmod_eq_emod_of_nonneg h0]; omega
  rcases hmf with ⟨hlt, hcum, hd30, hn306⟩ | ⟨hge, hle, hcum, hd30⟩
  · have hb : ¬ (((monthOfDoy r3.toNat).1 : Int) ≥ 10) := by omega
    simp only [hb, ↓reduceIte]
    refine ⟨_, qc, c, q, y, r3, rfl, hE', ?_, ?_, ?_, ?_, ?_, t1, t2, t3, rfl⟩ <;> simp only <;> omega
  · have hb : (((monthOfDoy r3.toNat).1 : Int) ≥ 10) := by omega
    simp only [hb, ↓reduceIte]
    refine ⟨_, qc, c, q, y, r3, rfl, hE', ?_, ?_, ?_, ?_, ?_, t1, t2, t3, rfl⟩ <;> simp only <;> omega

theorem date_mono' (d qc c q y r3 d' qc' c' q' y' r3' : Int) (hE : Era d qc c q y r3) (hE' : Era d' qc' c' q' y' r3')
    (hd : d ≤ d') :
    y + 4 * q + 100 * c + 400 * qc < y' + 4 * q' + 100 * c' + 400 * qc' ∨
    (qc = qc' ∧ c = c' ∧ q = q' ∧ y = y' ∧ r3' = r3 + (d' - d)) := by
  rcases Int.lt_or_eq_of_le hd with h | h
  · rcases date_mono d qc c q y r3 d' qc' c' q' y' r3' hE hE' h with h1 | ⟨e1, e2, e3, e4, _⟩
    · exact Or.inl h1
    · right
      refine ⟨e1, e2, e3, e4, ?_⟩
      have s1 := hE.sum
      have s2 := hE'.sum
      subst e1 e2 e3 e4
      omega
  · subst h
    obtain ⟨c0, c3, q0, q24, y0, y3, r0, r365, hsum, hleap⟩ := hE
    obtain ⟨c0', c3', q0', q24', y0', y3', r0', r365', hsum', hleap'⟩ := hE'
    rcases Int.lt_trichotomy (y + 4 * q + 100 * c + 400 * qc) (y' + 4 * q' + 100 * c' + 400 * qc') with h | h | h
    · exact Or.inl h
    · right
      have e1 : qc = qc' := by omega
      have e2 : c = c' := by omega
      have e3 : q = q' := by omega
      have e4 : y = y' := by omega
      refine ⟨e1, e2, e3, e4, ?_⟩
      subst e1 e2 e3 e4
      omega
    · exfalso
      obtain ⟨m1, m2⟩ := year_mono qc c q y qc' c' q' y' c0 c3 q0 q24 y0 y3 c0' c3' q0' q24' y0' y3' (by omega)
      by_cases hl : r3' = 365
      · obtain ⟨l1, l2⟩ := hleap' hl
        have := m2 l1 l2
        omega
      · omega

theorem mfst_le (n : Nat) (h : n < 366) : (monthOfDoy n).1 ≤ 11 ∧ (monthOfDoy n).2 ≤ 30 := by
  rcases month_facts n h with ⟨h1, _, h3, _⟩ | ⟨_, h2, _, h4⟩ <;> omega

/-- the date key `((12·N + mi)·32 + md)` is strictly monotone in the day number -/
theorem date_key (d qc c q y r3 d' qc' c' q' y' r3' : Int) (hE : Era d qc c q y r3) (hE' : Era d' qc' c' q' y' r3')
    (hd : d ≤ d') :
    (d < d' → (12 * (y + 4 * q + 100 * c + 400 * qc) + (monthOfDoy r3.toNat).1) * 32 + (monthOfDoy r3.toNat).2 <
      (12 * (y' + 4 * q' + 100 * c' + 400 * qc') + (monthOfDoy r3'.toNat).1) * 32 + (monthOfDoy r3'.toNat).2) ∧
    (d = d' → y + 4 * q + 100 * c + 400 * qc = y' + 4 * q' + 100 * c' + 400 * qc' ∧ r3 = r3') := by
  have b1 := mfst_le r3.toNat (by have := hE.r0; have := hE.r365; omega)
  have b2 := mfst_le r3'.toNat (by have := hE'.r0; have := hE'.r365; omega)
  rcases date_mono' d qc c q y r3 d' qc' c' q' y' r3' hE hE' hd with h | ⟨e1, e2, e3, e4, e5⟩
  · constructor
    · intro _; omega
    · intro hd'
      exfalso
      subst hd'
      rcases date_mono' d qc' c' q' y' r3' d qc c q y r3 hE' hE (Int.le_refl _) with h' | ⟨f1, f2, f3, f4, _⟩
      · omega
      · subst f1 f2 f3 f4; omega
  · subst e1 e2 e3 e4
    constructor
    · intro hlt
      have hr : r3.toNat < r3'.toNat := by have := hE.r0; omega
      have := mkey_mono r3.toNat r3'.toNat hr (by have := hE'.r0; have := hE'.r365; omega)
      unfold mkey at this
      omega
    · intro heq
      exact ⟨rfl, by omega⟩

/-- lexicographic order of the printed fields = order of `(seconds, printed fraction)` -/
theorem fields_order (a b sa sb : Nat) (ea : a / NANOS = sa) (eb : b / NANOS = sb) (ha : sa ≤ MAX_SECS)
    (hb : sb ≤ MAX_SECS) (fa fb : Nat) :
    ∃ p q, toPartsO a = .ok p ∧ toPartsO b = .ok q ∧
    ((p.years < q.years ∨ (p.years = q.years ∧ (p.months < q.months ∨ (p.months = q.months ∧
      (p.days < q.days ∨ (p.days = q.days ∧ (p.hours < q.hours ∨ (p.hours = q.hours ∧
      (p.minutes < q.minutes ∨ (p.minutes = q.minutes ∧ (p.seconds < q.seconds ∨ (p.seconds = q.seconds ∧
      fa < fb)))))))))))) ↔ sa < sb ∨ (sa = sb ∧ fa < fb)) := by
  obtain ⟨p, qc, c, q, y, r3, hp, hE, hym, hm1, hm12, hd, hd31, hh, hmi, hs, _⟩ := toPartsO_fields a sa ea ha
  obtain ⟨p', qc', c', q', y', r3', hp', hE', hym', hm1', hm12', hd', hd31', hh', hmi', hs', _⟩ :=
    toPartsO_fields b sb eb hb
  refine ⟨p, p', hp, hp', ?_⟩
  have hsa : sa = 86400 * (sa / 86400) + sa % 86400 := (Nat.div_add_mod sa 86400).symm
  have hsb : sb = 86400 * (sb / 86400) + sb % 86400 := (Nat.div_add_mod sb 86400).symm
  have ra : sa % 86400 < 86400 := Nat.mod_lt _ (by decide)
  have rb : sb % 86400 < 86400 := Nat.mod_lt _ (by decide)
  have b1 := mfst_le r3.toNat (by have := hE.r0; have := hE.r365; omega)
  have b2 := mfst_le r3'.toNat (by have := hE'.r0; have := hE'.r365; omega)
  rw [hh, hmi, hs, hh', hmi', hs']
  generalize sa % 86400 = rsa at *
  generalize sb % 86400 = rsb at *
  rcases Nat.lt_trichotomy (sa / 86400) (sb / 86400) with hlt | heq | hgt
  · obtain ⟨k1, _⟩ := date_key _ _ _ _ _ _ _ _ _ _ _ _ hE hE' (by omega)
    have := k1 (by omega)
    generalize sa / 86400 = dna at *
    generalize sb / 86400 = dnb at *
    omega
  · obtain ⟨_, k2⟩ := date_key _ _ _ _ _ _ _ _ _ _ _ _ hE hE' (by omega)
    obtain ⟨k3, k4⟩ := k2 (by omega)
    subst k4
    generalize sa / 86400 = dna at *
    generalize sb / 86400 = dnb at *
    omega
  · obtain ⟨k1, _⟩ := date_key _ _ _ _ _ _ _ _ _ _ _ _ hE' hE (by omega)
    have := k1 (by omega)
    generalize sa / 86400 = dna at *
    generalize sb / 86400 = dnb at *
    omega


theorem trunc_lt (a b k : Nat) (hk : k ≤ 9) :
    a - a % 10 ^ (9 - k) < b - b % 10 ^ (9 - k) ↔
      a / NANOS < b / NANOS ∨ (a / NANOS = b / NANOS ∧ a % NANOS / 10 ^ (9 - k) < b % NANOS / 10 ^ (9 - k)) := by
  have : k = 0 ∨ k = 1 ∨ k = 2 ∨ k = 3 ∨ k = 4 ∨ k = 5 ∨ k = 6 ∨ k = 7 ∨ k = 8 ∨ k = 9 := by omega
  rcases this with rfl | rfl | rfl | rfl | rfl | rfl | rfl | rfl | rfl | rfl <;>
    simp only [NANOS, Nat.reduceSub, Nat.reducePow] <;> omega

theorem fmt_order_lemma (a b k : Nat) (ha : a ≤ MAX_NS) (hb : b ≤ MAX_NS) (hk : k ≤ 9) :
    BLt (fmtRfc3339 (some k) a) (fmtRfc3339 (some k) b) ↔ a - a % 10 ^ (9 - k) < b - b % 10 ^ (9 - k) := by
  have hsa : a / NANOS ≤ MAX_SECS := by
    have h1 : a ≤ 253402300799 * 1000000000 + 999999999 := ha
    have h2 : a / 1000000000 ≤ 253402300799 := by omega
    exact h2
  have hsb : b / NANOS ≤ MAX_SECS := by
    have h1 : b ≤ 253402300799 * 1000000000 + 999999999 := hb
    have h2 : b / 1000000000 ≤ 253402300799 := by omega
    exact h2
  obtain ⟨p, q, hp, hq, hlex⟩ := fields_order a b _ _ rfl rfl hsa hsb
    (a % NANOS / 10 ^ (9 - k)) (b % NANOS / 10 ^ (9 - k))
  obtain ⟨p1, hp1, hr1, hn1, _⟩ := calendar_roundtrip_lemma a ha
  obtain ⟨q1, hq1, hr2, hn2, _⟩ := calendar_roundtrip_lemma b hb
  have e1 : p1 = p := by rw [hp] at hp1; exact (Outcome.ok.inj hp1).symm
  have e2 : q1 = q := by rw [hq] at hq1; exact (Outcome.ok.inj hq1).symm
  subst e1 e2
  rw [fmtRfc3339, fmtRfc3339, toParts_eq a p1 hp, toParts_eq b q1 hq, fmtParts_lt k hk p1 q1 hr1 hr2, hn1, hn2,
    hlex, trunc_lt a b k hk]

end EmitModel.Timestamp
