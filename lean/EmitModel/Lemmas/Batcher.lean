/-
  Lemmas/Batcher.lean — inductive invariants of the batcher LTS used by C06 and C09 (and reused by C07/C08):
  `step_elim` (one goal per branch of the code), `InvPart` (partition / FIFO / truncation accounting),
  `capacity` bound, `InvRetry` (retry = remainder), `InvTear` (what a receiver teardown can lose).
-/
import EmitModel.Model.Batcher

namespace EmitModel.Batcher
open EmitModel.Sched

/-- Decompose `hs : step cfg s l = some s'` into one goal per branch of the code, with `s'` substituted.
    (`send` / `trySend` are left folded: use the per-operation lemmas.) -/
macro "step_elim" hs:ident : tactic => `(tactic| (
  simp only [step, rxTake, rxFireTake, rxFireFlush, rxBegin, rxOutcome, rxRetryWaited, rxIdleWaited, dropSender,
    dropReceiver, whenFlushed, whenEmpty, conclude] at $hs:ident
  repeat' (split at $hs:ident)
  all_goals (first | (simp at $hs:ident; done) | skip)
  all_goals (try (simp only [Option.some.injEq] at $hs:ident; subst $hs:ident))))

/-! ### The accessors on each control point (so that proofs never unfold them into a `match`) -/

@[simp] theorem inflight_idle : Rx.inflight .idle = [] := rfl
@[simp] theorem inflight_taken (b tw fw : List Nat) (o : Bool) : Rx.inflight (.taken b tw fw o) = b := rfl
@[simp] theorem inflight_processing (a c ws : List Nat) : Rx.inflight (.processing a c ws) = a := rfl
@[simp] theorem inflight_retryWait (a c ws : List Nat) : Rx.inflight (.retryWait a c ws) = a := rfl
@[simp] theorem inflight_notifying (ws : List Nat) : Rx.inflight (.notifying ws) = [] := rfl
@[simp] theorem inflight_idleWait : Rx.inflight .idleWait = [] := rfl
@[simp] theorem inflight_done : Rx.inflight .done = [] := rfl
@[simp] theorem ws_idle : Rx.ws .idle = [] := rfl
@[simp] theorem ws_taken (b tw fw : List Nat) (o : Bool) : Rx.ws (.taken b tw fw o) = fw := rfl
@[simp] theorem ws_processing (a c ws : List Nat) : Rx.ws (.processing a c ws) = ws := rfl
@[simp] theorem ws_retryWait (a c ws : List Nat) : Rx.ws (.retryWait a c ws) = ws := rfl
@[simp] theorem ws_notifying (ws : List Nat) : Rx.ws (.notifying ws) = ws := rfl
@[simp] theorem ws_idleWait : Rx.ws .idleWait = [] := rfl
@[simp] theorem ws_done : Rx.ws .done = [] := rfl
@[simp] theorem takeWs_idle : Rx.takeWs .idle = [] := rfl
@[simp] theorem takeWs_taken (b tw fw : List Nat) (o : Bool) : Rx.takeWs (.taken b tw fw o) = tw := rfl
@[simp] theorem takeWs_processing (a c ws : List Nat) : Rx.takeWs (.processing a c ws) = [] := rfl
@[simp] theorem takeWs_retryWait (a c ws : List Nat) : Rx.takeWs (.retryWait a c ws) = [] := rfl
@[simp] theorem takeWs_notifying (ws : List Nat) : Rx.takeWs (.notifying ws) = [] := rfl
@[simp] theorem takeWs_idleWait : Rx.takeWs .idleWait = [] := rfl
@[simp] theorem takeWs_done : Rx.takeWs .done = [] := rfl
@[simp] theorem takenBatch_idle : Rx.takenBatch .idle = [] := rfl
@[simp] theorem takenBatch_taken (b tw fw : List Nat) (o : Bool) : Rx.takenBatch (.taken b tw fw o) = b := rfl
@[simp] theorem takenBatch_processing (a c ws : List Nat) : Rx.takenBatch (.processing a c ws) = [] := rfl
@[simp] theorem takenBatch_retryWait (a c ws : List Nat) : Rx.takenBatch (.retryWait a c ws) = [] := rfl
@[simp] theorem takenBatch_notifying (ws : List Nat) : Rx.takenBatch (.notifying ws) = [] := rfl
@[simp] theorem takenBatch_idleWait : Rx.takenBatch .idleWait = [] := rfl
@[simp] theorem takenBatch_done : Rx.takenBatch .done = [] := rfl

/-! ### `afterNotify ws` is the loop head or the notifying state: what the accessors and tests say about it -/

@[simp] theorem afterNotify_takenBatch (ws : List Nat) : (afterNotify ws).takenBatch = [] := by
  cases ws <;> rfl
@[simp] theorem afterNotify_inflight (ws : List Nat) : (afterNotify ws).inflight = [] := by
  cases ws <;> rfl
@[simp] theorem afterNotify_ws (ws : List Nat) : (afterNotify ws).ws = ws := by
  cases ws <;> rfl
@[simp] theorem afterNotify_takeWs (ws : List Nat) : (afterNotify ws).takeWs = [] := by
  cases ws <;> rfl
@[simp] theorem afterNotify_ne_taken (ws b tw fw : List Nat) (o : Bool) : afterNotify ws ≠ .taken b tw fw o := by
  cases ws <;> simp [afterNotify]
@[simp] theorem afterNotify_ne_processing (ws a b c : List Nat) : afterNotify ws ≠ .processing a b c := by
  cases ws <;> simp [afterNotify]
@[simp] theorem afterNotify_ne_retryWait (ws a b c : List Nat) : afterNotify ws ≠ .retryWait a b c := by
  cases ws <;> simp [afterNotify]
@[simp] theorem afterNotify_ne_done (ws : List Nat) : afterNotify ws ≠ .done := by
  cases ws <;> simp [afterNotify]
@[simp] theorem afterNotify_ne_idleWait (ws : List Nat) : afterNotify ws ≠ .idleWait := by
  cases ws <;> simp [afterNotify]
@[simp] theorem afterNotify_eq_taken (ws b tw fw : List Nat) (o : Bool) :
    (afterNotify ws = .taken b tw fw o) = False := by simp
@[simp] theorem afterNotify_eq_processing (ws a b c : List Nat) : (afterNotify ws = .processing a b c) = False := by
  simp
@[simp] theorem afterNotify_eq_retryWait (ws a b c : List Nat) : (afterNotify ws = .retryWait a b c) = False := by
  simp
@[simp] theorem afterNotify_eq_done (ws : List Nat) : (afterNotify ws = .done) = False := by simp
@[simp] theorem afterNotify_eq_idleWait (ws : List Nat) : (afterNotify ws = .idleWait) = False := by simp

theorem dropTail_append (a b : List Nat) : dropTail (a ++ b) b.length = a := by
  simp [dropTail]

/-! ### Partition / FIFO / truncation accounting (C06) -/

/-- The kept accepted sequence is, in order: the first attempts, then a swapped-out batch not yet handed over,
    then the pending queue; truncations are counted and account for everything that is not kept. -/
structure InvPart (s : St) : Prop where
  part : s.acceptedKept = (s.firstAttempts.flatten ++ s.rx.takenBatch) ++ s.pending
  truncCount : s.truncations.length = s.mTruncated
  perm : s.accepted.Perm (s.acceptedKept ++ s.truncations.flatten)

theorem invPart_init : InvPart init := by
  constructor <;> simp [init]

theorem invPart_truncate (s : St) (h : InvPart s) : InvPart (truncate s) := by
  obtain ⟨h1, h2, h3⟩ := h
  constructor
  · simp only [truncate]; rw [h1, dropTail_append]; simp
  · simp [truncate, h2]
  · simp only [truncate]
    rw [h1] at h3 ⊢
    rw [dropTail_append]
    simp only [List.flatten_append, List.flatten_cons, List.flatten_nil, List.append_nil]
    refine h3.trans ?_
    rw [List.append_assoc]
    exact List.Perm.append_left _ List.perm_append_comm

theorem invPart_push (s : St) (x : Nat) (h : InvPart s) : InvPart (push s x) := by
  obtain ⟨h1, h2, h3⟩ := h
  constructor
  · simp [push, h1]
  · simp [push, h2]
  · simp only [push]
    have := List.Perm.append_right [x] h3
    refine this.trans ?_
    simp only [List.append_assoc]
    exact List.Perm.append_left _ List.perm_append_comm

theorem invPart_send (cfg : Cfg) (s : St) (x : Nat) (h : InvPart s) : InvPart (send cfg s x) := by
  unfold send
  have ht := invPart_truncate s h
  by_cases hc : s.pending.length ≥ cfg.cap <;> simp only [hc, if_true, if_false]
  · by_cases ho : (truncate s).isOpen <;> simp [ho, ht, invPart_push]
  · by_cases ho : s.isOpen <;> simp [ho, h, invPart_push]

theorem invPart_trySend (cfg : Cfg) (s : St) (x : Nat) (h : InvPart s) : InvPart (trySend cfg s x).1 := by
  unfold trySend
  by_cases ho : s.isOpen <;> by_cases hc : s.pending.length < cfg.cap <;> simp [ho, hc, h, invPart_push]

theorem invPart_step (cfg : Cfg) (s : St) (l : Label) (s' : St) (h : InvPart s) (hs : step cfg s l = some s') :
    InvPart s' := by
  cases l
  case send x => step_elim hs; exact invPart_send cfg s x h
  case trySend x => step_elim hs; exact invPart_trySend cfg s x h
  all_goals
    obtain ⟨h1, h2, h3⟩ := h
    step_elim hs
    all_goals (constructor <;> simp_all)
    all_goals (cases hrx : s.rx <;> simp_all <;> grind)

theorem invPart_reachable (cfg : Cfg) (s : St) (h : Reachable cfg s) : InvPart s :=
  invariant_of_step invPart_init (invPart_step cfg) s h

/-! ### Capacity bound (C09) -/

/-- The fields `send` / `trySend` leave alone, and what they do to `pending`. -/
theorem send_pending (cfg : Cfg) (s : St) (x : Nat) :
    (send cfg s x).pending =
      if s.pending.length ≥ cfg.cap then (if s.isOpen then [x] else [])
      else (if s.isOpen then s.pending ++ [x] else s.pending) := by
  unfold send
  by_cases hc : s.pending.length ≥ cfg.cap <;> by_cases ho : s.isOpen <;> simp [hc, ho, truncate, push]

theorem capacity_step (cfg : Cfg) (hcap : 1 ≤ cfg.cap) (s : St) (l : Label) (s' : St)
    (h : s.pending.length ≤ cfg.cap) (hs : step cfg s l = some s') : s'.pending.length ≤ cfg.cap := by
  cases l
  case send x =>
    step_elim hs
    rw [send_pending]
    by_cases hc : s.pending.length ≥ cfg.cap <;> by_cases ho : s.isOpen <;> simp [hc, ho] <;> omega
  case trySend x =>
    step_elim hs
    unfold trySend
    by_cases ho : s.isOpen <;> by_cases hc : s.pending.length < cfg.cap <;> simp [ho, hc, push] <;> omega
  all_goals
    step_elim hs
    all_goals simp_all

theorem send_reg (cfg : Cfg) (s : St) (x : Nat) :
    (send cfg s x).registered = s.registered ∧ (send cfg s x).tornDown = s.tornDown := by
  unfold send
  by_cases hc : s.pending.length ≥ cfg.cap <;> by_cases ho : s.isOpen <;> simp [hc, ho, truncate, push]

theorem trySend_reg (cfg : Cfg) (s : St) (x : Nat) :
    (trySend cfg s x).1.registered = s.registered ∧ (trySend cfg s x).1.tornDown = s.tornDown := by
  unfold trySend
  by_cases ho : s.isOpen <;> by_cases hc : s.pending.length < cfg.cap <;> simp [ho, hc, push]

/-- Bound and exact size of every truncated segment: a truncation happens iff the queue holds exactly `cap`. -/
structure InvCap (cfg : Cfg) (s : St) : Prop where
  bound : s.pending.length ≤ cfg.cap
  segs : ∀ seg ∈ s.truncations, seg.length = cfg.cap

theorem invCap_step (cfg : Cfg) (hcap : 1 ≤ cfg.cap) (s : St) (l : Label) (s' : St) (h : InvCap cfg s)
    (hs : step cfg s l = some s') : InvCap cfg s' := by
  obtain ⟨h1, h2⟩ := h
  refine ⟨capacity_step cfg hcap s l s' h1 hs, ?_⟩
  cases l
  case send x =>
    step_elim hs
    unfold send
    by_cases hc : s.pending.length ≥ cfg.cap <;> by_cases ho : s.isOpen <;>
      simp [hc, ho, truncate, push] <;>
      first
      | assumption
      | (intro seg hseg; rcases hseg with hseg | hseg
         · exact h2 seg hseg
         · subst hseg; omega)
  case trySend x =>
    step_elim hs
    unfold trySend
    by_cases ho : s.isOpen <;> by_cases hc : s.pending.length < cfg.cap <;> simp [ho, hc, push] <;> assumption
  all_goals
    step_elim hs
    all_goals simp_all

/-! ### Retries re-deliver exactly the returned remainder (C06) -/

structure InvRetry (s : St) : Prop where
  retryRem : ∀ o r w, s.rx = .retryWait o r w → s.lastReturned = r
  retryOk : ∀ p ∈ s.retryCalls, p.1 = p.2
  callsLen : s.calls.length = s.firstAttempts.length + s.retryCalls.length

theorem send_rx (cfg : Cfg) (s : St) (x : Nat) :
    (send cfg s x).rx = s.rx ∧ (send cfg s x).lastReturned = s.lastReturned ∧
    (send cfg s x).retryCalls = s.retryCalls ∧ (send cfg s x).calls = s.calls ∧
    (send cfg s x).firstAttempts = s.firstAttempts := by
  unfold send
  by_cases hc : s.pending.length ≥ cfg.cap <;> by_cases ho : s.isOpen <;> simp [hc, ho, truncate, push]

theorem trySend_rx (cfg : Cfg) (s : St) (x : Nat) :
    (trySend cfg s x).1.rx = s.rx ∧ (trySend cfg s x).1.lastReturned = s.lastReturned ∧
    (trySend cfg s x).1.retryCalls = s.retryCalls ∧ (trySend cfg s x).1.calls = s.calls ∧
    (trySend cfg s x).1.firstAttempts = s.firstAttempts := by
  unfold trySend
  by_cases ho : s.isOpen <;> by_cases hc : s.pending.length < cfg.cap <;> simp [ho, hc, push]

theorem invRetry_init : InvRetry init := by
  constructor <;> simp [init]

theorem invRetry_step (cfg : Cfg) (s : St) (l : Label) (s' : St) (h : InvRetry s) (hs : step cfg s l = some s') :
    InvRetry s' := by
  obtain ⟨h1, h2, h3⟩ := h
  cases l
  case send x =>
    step_elim hs
    obtain ⟨e1, e2, e3, e4, e5⟩ := send_rx cfg s x
    exact ⟨by rw [e1, e2]; exact h1, by rw [e3]; exact h2, by rw [e3, e4, e5]; exact h3⟩
  case trySend x =>
    step_elim hs
    obtain ⟨e1, e2, e3, e4, e5⟩ := trySend_rx cfg s x
    exact ⟨by rw [e1, e2]; exact h1, by rw [e3]; exact h2, by rw [e3, e4, e5]; exact h3⟩
  case rxRetryWaited =>
    step_elim hs
    rename_i o r w hrx
    have := h1 o r w hrx
    refine ⟨by simp, ?_, by simp; omega⟩
    intro p hp
    simp only [List.mem_append, List.mem_singleton] at hp
    rcases hp with hp | hp
    · exact h2 p hp
    · subst hp; exact this
  all_goals
    step_elim hs
    all_goals (constructor <;> simp_all <;> omega)

theorem invRetry_reachable (cfg : Cfg) (s : St) (h : Reachable cfg s) : InvRetry s :=
  invariant_of_step invRetry_init (invRetry_step cfg) s h

/-! ### Receiver teardown (C06) -/

structure InvTear (s : St) : Prop where
  done : s.tornDown = true → s.rx = .done
  closed : s.rx = .done → s.isOpen = false
  pend : s.tornDown = true → s.pending = s.pendingAtTeardown ∨ s.pending = []

theorem send_tear (cfg : Cfg) (s : St) (x : Nat) :
    (send cfg s x).rx = s.rx ∧ (send cfg s x).tornDown = s.tornDown ∧ (send cfg s x).isOpen = s.isOpen ∧
    (send cfg s x).pendingAtTeardown = s.pendingAtTeardown := by
  unfold send
  by_cases hc : s.pending.length ≥ cfg.cap <;> by_cases ho : s.isOpen <;> simp [hc, ho, truncate, push]

theorem trySend_tear (cfg : Cfg) (s : St) (x : Nat) :
    (trySend cfg s x).1.rx = s.rx ∧ (trySend cfg s x).1.tornDown = s.tornDown ∧
    (trySend cfg s x).1.isOpen = s.isOpen ∧ (trySend cfg s x).1.pendingAtTeardown = s.pendingAtTeardown ∧
    (s.isOpen = false → (trySend cfg s x).1.pending = s.pending) := by
  unfold trySend
  by_cases ho : s.isOpen <;> by_cases hc : s.pending.length < cfg.cap <;> simp [ho, hc, push]

theorem invTear_init : InvTear init := by
  constructor <;> simp [init]

theorem invTear_step (cfg : Cfg) (s : St) (l : Label) (s' : St) (h : InvTear s) (hs : step cfg s l = some s') :
    InvTear s' := by
  obtain ⟨h1, h2, h3⟩ := h
  cases l
  case send x =>
    step_elim hs
    obtain ⟨e1, e2, e3, e4⟩ := send_tear cfg s x
    refine ⟨by simp_all, by simp_all, ?_⟩
    intro ht
    rw [e2] at ht
    have hc := h2 (h1 ht)
    rw [send_pending, e4]
    by_cases hcap : s.pending.length ≥ cfg.cap <;> simp [hcap, hc]
    exact h3 ht
  case trySend x =>
    step_elim hs
    obtain ⟨e1, e2, e3, e4, e5⟩ := trySend_tear cfg s x
    refine ⟨by simp_all, by simp_all, ?_⟩
    intro ht
    rw [e2] at ht
    rw [e5 (h2 (h1 ht)), e4]
    exact h3 ht
  all_goals
    step_elim hs
    all_goals (constructor <;> simp_all)

theorem invTear_reachable (cfg : Cfg) (s : St) (h : Reachable cfg s) : InvTear s :=
  invariant_of_step invTear_init (invTear_step cfg) s h

end EmitModel.Batcher
