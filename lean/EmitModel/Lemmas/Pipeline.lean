/-
  Lemmas/Pipeline.lean — helper lemmas for Model/Pipeline.lean (property C01).

  `Flt` and `Emt` are nested inductives (through `Option`), which the `induction` tactic rejects; the two
  induction principles below are proved once by structural recursion and used as `induction … using`.
-/
import EmitModel.Model.Pipeline

namespace EmitModel.Pipeline

/-! ### Induction principles -/

theorem Flt.induct {motive : Flt → Prop}
    (leaf : ∀ i, motive (.leaf i)) (always : motive .always) (empty : motive .empty)
    (and : ∀ a b, motive a → motive b → motive (.and a b))
    (or : ∀ a b, motive a → motive b → motive (.or a b))
    (optNone : motive (.opt none)) (optSome : ∀ f, motive f → motive (.opt (some f)))
    (ref : ∀ f, motive f → motive (.ref f)) (boxed : ∀ f, motive f → motive (.boxed f))
    (shared : ∀ f, motive f → motive (.shared f)) (erased : ∀ f, motive f → motive (.erased f))
    (internal : ∀ f, motive f → motive (.internal f)) : ∀ f, motive f
  | .leaf i => leaf i
  | .always => always
  | .empty => empty
  | .and a b => and a b
      (Flt.induct leaf always empty and or optNone optSome ref boxed shared erased internal a)
      (Flt.induct leaf always empty and or optNone optSome ref boxed shared erased internal b)
  | .or a b => or a b
      (Flt.induct leaf always empty and or optNone optSome ref boxed shared erased internal a)
      (Flt.induct leaf always empty and or optNone optSome ref boxed shared erased internal b)
  | .opt none => optNone
  | .opt (some f) => optSome f
      (Flt.induct leaf always empty and or optNone optSome ref boxed shared erased internal f)
  | .ref f => ref f (Flt.induct leaf always empty and or optNone optSome ref boxed shared erased internal f)
  | .boxed f => boxed f (Flt.induct leaf always empty and or optNone optSome ref boxed shared erased internal f)
  | .shared f => shared f (Flt.induct leaf always empty and or optNone optSome ref boxed shared erased internal f)
  | .erased f => erased f (Flt.induct leaf always empty and or optNone optSome ref boxed shared erased internal f)
  | .internal f => internal f
      (Flt.induct leaf always empty and or optNone optSome ref boxed shared erased internal f)

theorem Emt.induct {motive : Emt → Prop}
    (leaf : ∀ i, motive (.leaf i)) (fnLeaf : ∀ i, motive (.fnLeaf i)) (empty : motive .empty)
    (and : ∀ a b, motive a → motive b → motive (.and a b))
    (optNone : motive (.opt none)) (optSome : ∀ e, motive e → motive (.opt (some e)))
    (wrapFilter : ∀ f e, motive e → motive (.wrapFilter f e))
    (wrapMap : ∀ g e, motive e → motive (.wrapMap g e))
    (ref : ∀ e, motive e → motive (.ref e)) (boxed : ∀ e, motive e → motive (.boxed e))
    (shared : ∀ e, motive e → motive (.shared e)) (erased : ∀ e, motive e → motive (.erased e))
    (internal : ∀ e, motive e → motive (.internal e))
    (runtime : ∀ f amb clk e, motive e → motive (.runtime f amb clk e)) : ∀ e, motive e
  | .leaf i => leaf i
  | .fnLeaf i => fnLeaf i
  | .empty => empty
  | .and a b => and a b
      (Emt.induct leaf fnLeaf empty and optNone optSome wrapFilter wrapMap ref boxed shared erased internal runtime a)
      (Emt.induct leaf fnLeaf empty and optNone optSome wrapFilter wrapMap ref boxed shared erased internal runtime b)
  | .opt none => optNone
  | .opt (some e) => optSome e
      (Emt.induct leaf fnLeaf empty and optNone optSome wrapFilter wrapMap ref boxed shared erased internal runtime e)
  | .wrapFilter f e => wrapFilter f e
      (Emt.induct leaf fnLeaf empty and optNone optSome wrapFilter wrapMap ref boxed shared erased internal runtime e)
  | .wrapMap g e => wrapMap g e
      (Emt.induct leaf fnLeaf empty and optNone optSome wrapFilter wrapMap ref boxed shared erased internal runtime e)
  | .ref e => ref e
      (Emt.induct leaf fnLeaf empty and optNone optSome wrapFilter wrapMap ref boxed shared erased internal runtime e)
  | .boxed e => boxed e
      (Emt.induct leaf fnLeaf empty and optNone optSome wrapFilter wrapMap ref boxed shared erased internal runtime e)
  | .shared e => shared e
      (Emt.induct leaf fnLeaf empty and optNone optSome wrapFilter wrapMap ref boxed shared erased internal runtime e)
  | .erased e => erased e
      (Emt.induct leaf fnLeaf empty and optNone optSome wrapFilter wrapMap ref boxed shared erased internal runtime e)
  | .internal e => internal e
      (Emt.induct leaf fnLeaf empty and optNone optSome wrapFilter wrapMap ref boxed shared erased internal runtime e)
  | .runtime f amb clk e => runtime f amb clk e
      (Emt.induct leaf fnLeaf empty and optNone optSome wrapFilter wrapMap ref boxed shared erased internal runtime e)

/-! ### Filters only ever log filter calls -/

theorem calls_dlv (ρ : Nat → Evt → Bool) (f : Flt) (x : Evt) :
    (f.evalTrace ρ x).2.filterMap Obs.dlv? = [] := by
  induction f using Flt.induct with
  | leaf i => rfl
  | and a b iha ihb =>
    simp only [Flt.evalTrace]; split <;> simp only [List.filterMap_append, iha, ihb, List.append_nil]
  | or a b iha ihb =>
    simp only [Flt.evalTrace]; split <;> simp only [List.filterMap_append, iha, ihb, List.append_nil]
  | _ => simp_all [Flt.evalTrace]

/-! ### `deliver`, equation by equation -/

section deliver
variable (ρ : Nat → Evt → Bool) (μ : Nat → Evt → Evt)

@[simp] theorem deliver_leaf (i : Nat) (x : Evt) : (Emt.leaf i).deliver ρ μ x = [(i, x)] := rfl
@[simp] theorem deliver_fnLeaf (i : Nat) (x : Evt) : (Emt.fnLeaf i).deliver ρ μ x = [(i, x)] := rfl
@[simp] theorem deliver_empty (x : Evt) : Emt.empty.deliver ρ μ x = [] := rfl
@[simp] theorem deliver_optNone (x : Evt) : (Emt.opt none).deliver ρ μ x = [] := rfl
@[simp] theorem deliver_optSome (e : Emt) (x : Evt) : (Emt.opt (some e)).deliver ρ μ x = e.deliver ρ μ x := rfl
@[simp] theorem deliver_and (a b : Emt) (x : Evt) :
    (Emt.and a b).deliver ρ μ x = a.deliver ρ μ x ++ b.deliver ρ μ x := by
  simp [Emt.deliver, Emt.run]
@[simp] theorem deliver_wrapMap (g : Nat) (e : Emt) (x : Evt) :
    (Emt.wrapMap g e).deliver ρ μ x = e.deliver ρ μ (μ g x) := rfl
@[simp] theorem deliver_ref (e : Emt) (x : Evt) : (Emt.ref e).deliver ρ μ x = e.deliver ρ μ x := rfl
@[simp] theorem deliver_boxed (e : Emt) (x : Evt) : (Emt.boxed e).deliver ρ μ x = e.deliver ρ μ x := rfl
@[simp] theorem deliver_shared (e : Emt) (x : Evt) : (Emt.shared e).deliver ρ μ x = e.deliver ρ μ x := rfl
@[simp] theorem deliver_erased (e : Emt) (x : Evt) : (Emt.erased e).deliver ρ μ x = e.deliver ρ μ x := rfl
@[simp] theorem deliver_internal (e : Emt) (x : Evt) : (Emt.internal e).deliver ρ μ x = e.deliver ρ μ x := rfl

theorem emitCore_dlv (k : Evt → List Obs) (f : Flt) (amb : List (String × Val)) (clk : Option Nat) (x : Evt) :
    (emitCore k (f.evalTrace ρ) amb clk x).filterMap Obs.dlv? =
      if f.eval ρ (build amb clk x) then (k (build amb clk x)).filterMap Obs.dlv? else [] := by
  have h1 : (f.evalTrace ρ (build amb clk x)).1 = f.eval ρ (build amb clk x) := rfl
  simp only [emitCore, List.filterMap_append, calls_dlv, List.nil_append, h1]
  cases f.eval ρ (build amb clk x) <;> simp

@[simp] theorem deliver_wrapFilter (f : Flt) (e : Emt) (x : Evt) :
    (Emt.wrapFilter f e).deliver ρ μ x = if f.eval ρ x then e.deliver ρ μ x else [] := by
  have h1 : (f.evalTrace ρ x).1 = f.eval ρ x := rfl
  simp only [Emt.deliver, Emt.run, List.filterMap_append, calls_dlv, List.nil_append, h1]
  cases f.eval ρ x <;> simp

@[simp] theorem deliver_runtime (f : Flt) (amb : List (String × Val)) (clk : Option Nat) (e : Emt) (x : Evt) :
    (Emt.runtime f amb clk e).deliver ρ μ x =
      if f.eval ρ (build amb clk x) then e.deliver ρ μ (build amb clk x) else [] := by
  simp only [Emt.deliver, Emt.run, emitCore_dlv]

end deliver

/-! ### Small list facts -/

theorem filterMap_none {α β : Type} (l : List α) : l.filterMap (fun _ => (none : Option β)) = [] := by
  induction l <;> simp_all

theorem filterMap_fst_sublist {α β γ : Type} (f : α → Option (β × γ)) (g : α → β)
    (h : ∀ a r, f a = some r → r.1 = g a) (l : List α) :
    ((l.filterMap f).map Prod.fst).Sublist (l.map g) := by
  induction l with
  | nil => simp
  | cons a l ih =>
    cases hf : f a with
    | none => simpa [List.filterMap_cons, hf] using ih.cons _
    | some r =>
      have := h a r hf
      simp only [List.filterMap_cons, hf, List.map_cons, this]
      exact ih.cons_cons _

theorem div_two_div_pow (t d : Nat) : t / 2 / 2 ^ d = t / 2 ^ (d + 1) := by
  rw [Nat.div_div_eq_div_mul, Nat.pow_succ, Nat.mul_comm]

/-! ### Property lookup under the macro-attached level -/

/-- no property of the list has key `k` -/
def NoKey (k : String) (props : List (String × Val)) : Prop := ∀ p ∈ props, p.1 ≠ k

theorem lookupFirst_append_of_noKey (k : String) (a b : List (String × Val)) (h : NoKey k a) :
    lookupFirst k (a ++ b) = lookupFirst k b := by
  induction a with
  | nil => rfl
  | cons p a ih =>
    obtain ⟨k', v⟩ := p
    have hk : k' ≠ k := h (k', v) (by simp)
    have : (k' == k) = false := by simpa using hk
    simp only [List.cons_append, lookupFirst, this]
    exact ih (fun q hq => h q (by simp [hq]))

theorem lookupFirst_insertProp (k : String) (v : Val) (props : List (String × Val)) (h : NoKey k props) :
    lookupFirst k (insertProp k v props) = some v := by
  induction props with
  | nil => simp [insertProp, lookupFirst]
  | cons p props ih =>
    obtain ⟨k', v'⟩ := p
    have hk : k' ≠ k := h (k', v') (by simp)
    have hb : (k' == k) = false := by simpa using hk
    simp only [insertProp]
    split
    · simp [lookupFirst]
    · simp only [lookupFirst, hb]
      exact ih (fun q hq => h q (by simp [hq]))

theorem lookupFirst_insertProp_append (k : String) (v : Val) (props rest : List (String × Val)) (h : NoKey k props) :
    lookupFirst k (insertProp k v props ++ rest) = some v := by
  induction props with
  | nil => simp [insertProp, lookupFirst]
  | cons p props ih =>
    obtain ⟨k', v'⟩ := p
    have hk : k' ≠ k := h (k', v') (by simp)
    have hb : (k' == k) = false := by simpa using hk
    simp only [insertProp]
    split
    · simp [lookupFirst]
    · simp only [List.cons_append, lookupFirst, hb]
      exact ih (fun q hq => h q (by simp [hq]))

/-- the level lookup of the level model on converted properties is the pipeline lookup, converted -/
theorem lvl_lookupFirst (k : String) (props : List (String × Val)) :
    EmitModel.Level.lookupFirst k (lvlProps props) = (lookupFirst k props).map Val.toLvlVal := by
  induction props with
  | nil => rfl
  | cons p props ih =>
    obtain ⟨k', v⟩ := p
    simp only [lvlProps, List.map_cons, EmitModel.Level.lookupFirst, lookupFirst]
    split
    · rfl
    · simpa [lvlProps] using ih

end EmitModel.Pipeline
