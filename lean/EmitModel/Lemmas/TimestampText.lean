/-
  Lemmas/TimestampText.lean — C15. The RFC 3339 text layer of Model/Timestamp.lean:
    * `parse_nofrac` / `parse_frac`: the parser on a text laid out as `YYYY-MM-DDThh:mm:ss[.F]Z` is the field parsers;
    * digit rendering/parsing (`digits2`, `digits4`, `fracDigits_spec`);
    * `parse_fmtParts`, `ts_roundtrip_lemma`: parsing the formatter's output at precision k gives the instant
      truncated to k sub-second digits.
-/
import EmitModel.Lemmas.Calendar

namespace EmitModel.Timestamp
open EmitModel.Text

def head19 (y0 y1 y2 y3 m0 m1 d0 d1 h0 h1 i0 i1 s0 s1 : UInt8) : List UInt8 :=
  [y0, y1, y2, y3, 45, m0, m1, 45, d0, d1, 84, h0, h1, 58, i0, i1, 58, s0, s1]

theorem parse_nofrac (y0 y1 y2 y3 m0 m1 d0 d1 h0 h1 i0 i1 s0 s1 : UInt8) :
    parseRfc3339 (head19 y0 y1 y2 y3 m0 m1 d0 d1 h0 h1 i0 i1 s0 s1 ++ [90]) =
      parseFields (digits [y0, y1, y2, y3]) (digits [m0, m1]) (digits [d0, d1]) (digits [h0, h1])
        (digits [i0, i1]) (digits [s0, s1]) (some 0) := by
  simp [parseRfc3339, parseNanos, head19, sub]

theorem parse_frac (y0 y1 y2 y3 m0 m1 d0 d1 h0 h1 i0 i1 s0 s1 : UInt8) (F : List UInt8)
    (h0' : F ≠ []) (h9 : F.length ≤ 9) :
    parseRfc3339 (head19 y0 y1 y2 y3 m0 m1 d0 d1 h0 h1 i0 i1 s0 s1 ++ 46 :: (F ++ [90])) =
      parseFields (digits [y0, y1, y2, y3]) (digits [m0, m1]) (digits [d0, d1]) (digits [h0, h1])
        (digits [i0, i1]) (digits [s0, s1]) ((digits F).map fun v => v * 10 ^ (9 - F.length)) := by
  have hl : 0 < F.length := List.length_pos_iff.2 h0'
  simp [parseRfc3339, parseNanos, head19, sub, h0']
  intro h
  omega

theorem dig_spec : ∀ n, n < 10 → isDigit (dig n) = true ∧ digitVal (dig n) = n := by decide

theorem digits2 (x : Nat) (hx : x < 100) : digits [dig (x / 10), dig (x % 10)] = some x := by
  have h1 := dig_spec (x / 10) (by omega)
  have h2 := dig_spec (x % 10) (by omega)
  simp only [digits, List.all_cons, List.all_nil, h1.1, h2.1, Bool.and_self, ↓reduceIte, digitsVal,
    List.foldl_cons, List.foldl_nil, h1.2, h2.2]
  congr 1
  omega

theorem digits4 (x : Nat) (hx : x < 10000) :
    digits [dig (x / 1000), dig (x / 100 % 10), dig (x / 10 % 10), dig (x % 10)] = some x := by
  have h1 := dig_spec (x / 1000) (by omega)
  have h2 := dig_spec (x / 100 % 10) (by omega)
  have h3 := dig_spec (x / 10 % 10) (by omega)
  have h4 := dig_spec (x % 10) (by omega)
  simp only [digits, List.all_cons, List.all_nil, h1.1, h2.1, h3.1, h4.1, Bool.and_self, ↓reduceIte, digitsVal,
    List.foldl_cons, List.foldl_nil, h1.2, h2.2, h3.2, h4.2]
  congr 1
  omega

theorem fracDigits_succ (k n : Nat) : fracDigits (k + 1) n = fracDigits k n ++ [dig (n / 10 ^ (8 - k) % 10)] := by
  simp [fracDigits, List.range_succ]

theorem fracDigits_length (k n : Nat) : (fracDigits k n).length = k := by simp [fracDigits]

theorem digitsVal_append (xs : List UInt8) (b : UInt8) : digitsVal (xs ++ [b]) = digitsVal xs * 10 + digitVal b := by
  simp [digitsVal, List.foldl_append]

theorem fracDigits_spec (k n : Nat) (hk : k ≤ 9) (hn : n < 10 ^ 9) :
    (fracDigits k n).all isDigit = true ∧ digitsVal (fracDigits k n) = n / 10 ^ (9 - k) := by
  induction k with
  | zero => simp [fracDigits, digitsVal]; omega
  | succ k ih =>
    have ⟨a, v⟩ := ih (by omega)
    have hd := dig_spec (n / 10 ^ (8 - k) % 10) (Nat.mod_lt _ (by decide))
    rw [fracDigits_succ, digitsVal_append, List.all_append, a, v, hd.2]
    refine ⟨by simp [hd.1], ?_⟩
    have e : 9 - k = (8 - k) + 1 := by omega
    have e' : 9 - (k + 1) = 8 - k := by omega
    rw [e, e', Nat.pow_succ, ← Nat.div_div_eq_div_mul]
    omega


theorem trunc_facts (t p : Nat) (hp : p ≤ 9) :
    (t - t % 10 ^ (9 - p)) / NANOS = t / NANOS ∧
    (t - t % 10 ^ (9 - p)) % NANOS = t % NANOS / 10 ^ (9 - p) * 10 ^ (9 - p) ∧
    t - t % 10 ^ (9 - p) ≤ t := by
  have : p = 0 ∨ p = 1 ∨ p = 2 ∨ p = 3 ∨ p = 4 ∨ p = 5 ∨ p = 6 ∨ p = 7 ∨ p = 8 ∨ p = 9 := by omega
  rcases this with rfl | rfl | rfl | rfl | rfl | rfl | rfl | rfl | rfl | rfl <;>
    simp only [NANOS, Nat.reduceSub, Nat.reducePow] <;> omega

/-- `to_parts` looks at the instant only through `as_secs()` and `subsec_nanos()` -/
theorem toPartsO_congr (t t' : Nat) (h : t' / NANOS = t / NANOS) :
    toPartsO t' = (toPartsO t).map (fun p => { p with nanos := t' % NANOS }) := by
  unfold toPartsO
  simp only [h]
  cases dateOfDays _ with
  | panic => rfl
  | err => rfl
  | ok v => obtain ⟨a, b, c⟩ := v; rfl

theorem fmtDateTime_eq (p : Parts) :
    fmtDateTime p = head19 (dig (p.years / 1000)) (dig (p.years / 100 % 10)) (dig (p.years / 10 % 10)) (dig (p.years % 10))
      (dig (p.months / 10)) (dig (p.months % 10)) (dig (p.days / 10)) (dig (p.days % 10))
      (dig (p.hours / 10)) (dig (p.hours % 10)) (dig (p.minutes / 10)) (dig (p.minutes % 10))
      (dig (p.seconds / 10)) (dig (p.seconds % 10)) := rfl

/-- parsing the text of in-range parts gives back the fields (fraction scaled to nanoseconds) -/
theorem parse_fmtParts (p : Parts) (hr : InRange p) (k : Nat) (hk : k ≤ 9) :
    parseRfc3339 (fmtParts (some k) p) =
      finish p.years p.months p.days p.hours p.minutes p.seconds (p.nanos / 10 ^ (9 - k) * 10 ^ (9 - k)) := by
  obtain ⟨⟨_, hy⟩, ⟨_, hmo⟩, ⟨_, hd⟩, hh, hmi, hs, hn⟩ := hr
  have dY := digits4 p.years (by omega)
  have dM := digits2 p.months (by omega)
  have dD := digits2 p.days (by omega)
  have dH := digits2 p.hours (by omega)
  have dI := digits2 p.minutes (by omega)
  have dS := digits2 p.seconds (by omega)
  cases k with
  | zero =>
    have e : p.nanos / 10 ^ (9 - 0) * 10 ^ (9 - 0) = 0 := by
      simp only [Nat.reduceSub, Nat.reducePow]; omega
    simp only [fmtParts, fmtDateTime_eq, parse_nofrac, dY, dM, dD, dH, dI, dS, parseFields, e]
  | succ k =>
    have hF := fracDigits_spec (k + 1) p.nanos hk (by simp only [Nat.reducePow]; omega)
    have hne : fracDigits (k + 1) p.nanos ≠ [] := by
      intro h; have := fracDigits_length (k + 1) p.nanos; rw [h] at this; simp at this
    have hmin : min 9 (k + 1) = k + 1 := by omega
    simp only [fmtParts, Option.getD_some, hmin, fmtDateTime_eq, List.append_assoc, List.singleton_append, List.cons_append, List.nil_append]
    rw [parse_frac _ _ _ _ _ _ _ _ _ _ _ _ _ _ _ hne (by rw [fracDigits_length]; exact hk)]
    have dF : digits (fracDigits (k + 1) p.nanos) = some (p.nanos / 10 ^ (9 - (k + 1))) := by
      simp only [digits, hF.1, ↓reduceIte, hF.2]
    simp only [dY, dM, dD, dH, dI, dS, dF, Option.map_some, fracDigits_length, parseFields]

theorem toParts_eq (t : Nat) (p : Parts) (h : toPartsO t = .ok p) : toParts t = p := by
  simp [toParts, h]

theorem ts_roundtrip_lemma (t k : Nat) (ht : t ≤ MAX_NS) (hk : k ≤ 9) :
    fmtRfc3339O (some k) t = .ok (fmtRfc3339 (some k) t) ∧
    parseRfc3339 (fmtRfc3339 (some k) t) = .ok (t - t % 10 ^ (9 - k)) := by
  obtain ⟨p, hp, hr, hnanos, hfp⟩ := calendar_roundtrip_lemma t ht
  obtain ⟨e1, e2, e3⟩ := trunc_facts t k hk
  obtain ⟨p', hp', hr', hn', hfp'⟩ := calendar_roundtrip_lemma (t - t % 10 ^ (9 - k)) (Nat.le_trans e3 ht)
  have hc := toPartsO_congr t _ e1
  rw [hp, hp'] at hc
  have hpe : p' = { p with nanos := (t - t % 10 ^ (9 - k)) % NANOS } := by
    simpa [Outcome.map, Outcome.bind] using hc
  refine ⟨by simp [fmtRfc3339O, fmtRfc3339, hp, toParts_eq t p hp, Outcome.map, Outcome.bind], ?_⟩
  rw [fmtRfc3339, toParts_eq t p hp, parse_fmtParts p hr k hk, hnanos, ← e2]
  have hm : ¬ (p.months = 0 ∨ p.days = 0) := by have := hr.mo.1; have := hr.d.1; omega
  rw [hpe] at hfp'
  simp only [finish, hm, ↓reduceIte, hfp']

/-! ### strictness: the accepted language is exactly the documented grammar -/

theorem exists_cons_of_length (s : List UInt8) (n : Nat) (h : n + 1 ≤ s.length) :
    ∃ a rest, s = a :: rest ∧ n ≤ rest.length := by
  cases s with
  | nil => simp at h
  | cons a rest => exact ⟨a, rest, rfl, by simpa using h⟩

theorem exists_head19 (s0 : List UInt8) (h0 : 18 + 1 ≤ s0.length) :
    ∃ a0 a1 a2 a3 a4 a5 a6 a7 a8 a9 a10 a11 a12 a13 a14 a15 a16 a17 a18 rest, s0 = a0 :: a1 :: a2 :: a3 :: a4 :: a5 :: a6 :: a7 :: a8 :: a9 :: a10 :: a11 :: a12 :: a13 :: a14 :: a15 :: a16 :: a17 :: a18 :: rest := by
  obtain ⟨a0, s1, rfl, h1⟩ := exists_cons_of_length s0 18 h0
  obtain ⟨a1, s2, rfl, h2⟩ := exists_cons_of_length s1 17 h1
  obtain ⟨a2, s3, rfl, h3⟩ := exists_cons_of_length s2 16 h2
  obtain ⟨a3, s4, rfl, h4⟩ := exists_cons_of_length s3 15 h3
  obtain ⟨a4, s5, rfl, h5⟩ := exists_cons_of_length s4 14 h4
  obtain ⟨a5, s6, rfl, h6⟩ := exists_cons_of_length s5 13 h5
  obtain ⟨a6, s7, rfl, h7⟩ := exists_cons_of_length s6 12 h6
  obtain ⟨a7, s8, rfl, h8⟩ := exists_cons_of_length s7 11 h7
  obtain ⟨a8, s9, rfl, h9⟩ := exists_cons_of_length s8 10 h8
  obtain ⟨a9, s10, rfl, h10⟩ := exists_cons_of_length s9 9 h9
  obtain ⟨a10, s11, rfl, h11⟩ := exists_cons_of_length s10 8 h10
  obtain ⟨a11, s12, rfl, h12⟩ := exists_cons_of_length s11 7 h11
  obtain ⟨a12, s13, rfl, h13⟩ := exists_cons_of_length s12 6 h12
  obtain ⟨a13, s14, rfl, h14⟩ := exists_cons_of_length s13 5 h13
  obtain ⟨a14, s15, rfl, h15⟩ := exists_cons_of_length s14 4 h14
  obtain ⟨a15, s16, rfl, h16⟩ := exists_cons_of_length s15 3 h15
  obtain ⟨a16, s17, rfl, h17⟩ := exists_cons_of_length s16 2 h16
  obtain ⟨a17, s18, rfl, h18⟩ := exists_cons_of_length s17 1 h17
  obtain ⟨a18, s19, rfl, h19⟩ := exists_cons_of_length s18 0 h18
  exact ⟨a0, a1, a2, a3, a4, a5, a6, a7, a8, a9, a10, a11, a12, a13, a14, a15, a16, a17, a18, s19, rfl⟩

theorem parse_len20 (a0 a1 a2 a3 a4 a5 a6 a7 a8 a9 a10 a11 a12 a13 a14 a15 a16 a17 a18 z : UInt8) :
    parseRfc3339 (a0 :: a1 :: a2 :: a3 :: a4 :: a5 :: a6 :: a7 :: a8 :: a9 :: a10 :: a11 :: a12 :: a13 :: a14 :: a15 :: a16 :: a17 :: a18 :: [z]) =
      if a4 ≠ 45 ∨ a7 ≠ 45 ∨ a10 ≠ 84 ∨ a13 ≠ 58 ∨ a16 ≠ 58 then .err
      else if z = 90 then
        parseFields (digits [a0, a1, a2, a3]) (digits [a5, a6]) (digits [a8, a9]) (digits [a11, a12])
          (digits [a14, a15]) (digits [a17, a18]) (some 0)
      else .err := by
  simp [parseRfc3339, parseNanos, sub]

theorem parse_longer (a0 a1 a2 a3 a4 a5 a6 a7 a8 a9 a10 a11 a12 a13 a14 a15 a16 a17 a18 a19 z : UInt8) (F : List UInt8) :
    parseRfc3339 (a0 :: a1 :: a2 :: a3 :: a4 :: a5 :: a6 :: a7 :: a8 :: a9 :: a10 :: a11 :: a12 :: a13 :: a14 :: a15 :: a16 :: a17 :: a18 :: a19 :: (F ++ [z])) =
      if F.length > 9 then .err
      else if a4 ≠ 45 ∨ a7 ≠ 45 ∨ a10 ≠ 84 ∨ a13 ≠ 58 ∨ a16 ≠ 58 then .err
      else if z = 90 then
        parseFields (digits [a0, a1, a2, a3]) (digits [a5, a6]) (digits [a8, a9]) (digits [a11, a12])
          (digits [a14, a15]) (digits [a17, a18])
          (if a19 ≠ 46 ∨ F = [] then none else (digits F).map fun v => v * 10 ^ (9 - F.length))
      else .err := by
  simp [parseRfc3339, parseNanos, sub]
  by_cases h : 9 < F.length
  · rw [if_pos (Or.inr (by omega)), if_pos h]
  · rw [if_neg (by omega), if_neg h]

theorem forall_uint8' {P : UInt8 → Prop} (h : ∀ n, n < 256 → P (UInt8.ofNat n)) : ∀ b, P b := by
  intro b
  have := h b.toNat b.toNat_lt
  simpa using this

theorem dig_digitVal : ∀ b : UInt8, isDigit b = true → dig (digitVal b) = b ∧ digitVal b < 10 := by
  apply forall_uint8'
  decide +kernel

def two (x : Nat) : List UInt8 := [dig (x / 10), dig (x % 10)]
def four (x : Nat) : List UInt8 := [dig (x / 1000), dig (x / 100 % 10), dig (x / 10 % 10), dig (x % 10)]

theorem digits_two (a b : UInt8) (v : Nat) : digits [a, b] = some v ↔ [a, b] = two v ∧ v < 100 := by
  constructor
  · intro h
    simp only [digits, List.all_cons, List.all_nil, Bool.and_true] at h
    split at h
    · rename_i hd
      simp only [Bool.and_eq_true] at hd
      have ⟨ea, la⟩ := dig_digitVal a hd.1
      have ⟨eb, lb⟩ := dig_digitVal b hd.2
      simp only [digitsVal, List.foldl_cons, List.foldl_nil, Option.some.injEq] at h
      subst h
      refine ⟨?_, by omega⟩
      have e1 : ((0 * 10 + digitVal a) * 10 + digitVal b) / 10 = digitVal a := by omega
      have e2 : ((0 * 10 + digitVal a) * 10 + digitVal b) % 10 = digitVal b := by omega
      simp only [two, e1, e2, ea, eb]
    · cases h
  · rintro ⟨h, hv⟩
    rw [h]
    exact digits2 v hv

theorem digits_four (a b c d : UInt8) (v : Nat) :
    digits [a, b, c, d] = some v ↔ [a, b, c, d] = four v ∧ v < 10000 := by
  constructor
  · intro h
    simp only [digits, List.all_cons, List.all_nil, Bool.and_true] at h
    split at h
    · rename_i hd
      simp only [Bool.and_eq_true] at hd
      have ⟨ea, la⟩ := dig_digitVal a hd.1
      have ⟨eb, lb⟩ := dig_digitVal b hd.2.1
      have ⟨ec, lc⟩ := dig_digitVal c hd.2.2.1
      have ⟨ed, ld⟩ := dig_digitVal d hd.2.2.2
      simp only [digitsVal, List.foldl_cons, List.foldl_nil, Option.some.injEq] at h
      subst h
      refine ⟨?_, by omega⟩
      have e1 : ((((0 * 10 + digitVal a) * 10 + digitVal b) * 10 + digitVal c) * 10 + digitVal d) / 1000 = digitVal a := by omega
      have e2 : ((((0 * 10 + digitVal a) * 10 + digitVal b) * 10 + digitVal c) * 10 + digitVal d) / 100 % 10 = digitVal b := by omega
      have e3 : ((((0 * 10 + digitVal a) * 10 + digitVal b) * 10 + digitVal c) * 10 + digitVal d) / 10 % 10 = digitVal c := by omega
      have e4 : ((((0 * 10 + digitVal a) * 10 + digitVal b) * 10 + digitVal c) * 10 + digitVal d) % 10 = digitVal d := by omega
      simp only [four, e1, e2, e3, e4, ea, eb, ec, ed]
    · cases h
  · rintro ⟨h, hv⟩
    rw [h]
    exact digits4 v hv

theorem finish_ok (y mo d h mi s n t : Nat) :
    finish y mo d h mi s n = .ok t ↔ 1 ≤ mo ∧ 1 ≤ d ∧ fromParts ⟨y, mo, d, h, mi, s, n⟩ = .ok (some t) := by
  unfold finish
  by_cases hz : mo = 0 ∨ d = 0
  · simp only [hz, ↓reduceIte]
    constructor
    · intro h; cases h
    · rintro ⟨h1, h2, _⟩; omega
  · simp only [hz, ↓reduceIte]
    have : 1 ≤ mo ∧ 1 ≤ d := by omega
    cases hf : fromParts ⟨y, mo, d, h, mi, s, n⟩ with
    | ok v => cases v <;> simp [this]
    | err => simp
    | panic => simp

theorem parseFields_ok (a b c d e f g : Option Nat) (t : Nat) :
    parseFields a b c d e f g = .ok t ↔
      ∃ y mo dd h mi s n, a = some y ∧ b = some mo ∧ c = some dd ∧ d = some h ∧ e = some mi ∧ f = some s ∧
        g = some n ∧ finish y mo dd h mi s n = .ok t := by
  cases a <;> cases b <;> cases c <;> cases d <;> cases e <;> cases f <;> cases g <;> simp [parseFields]

/-- The documented grammar `YYYY-MM-DDThh:mm:ss[.F]Z`; `F = []` stands for "no sub-second part". -/
def rfc3339Text (Y Mo D H Mi S : Nat) (F : List UInt8) : List UInt8 :=
  four Y ++ [45] ++ two Mo ++ [45] ++ two D ++ [84] ++ two H ++ [58] ++ two Mi ++ [58] ++ two S ++
    (if F = [] then [90] else 46 :: (F ++ [90]))

/-- the sub-second digits scaled to nanoseconds -/
def fracNanos (F : List UInt8) : Nat := digitsVal F * 10 ^ (9 - F.length)

theorem rfc3339Text_eq (Y Mo D H Mi S : Nat) (F : List UInt8) :
    rfc3339Text Y Mo D H Mi S F =
      head19 (dig (Y / 1000)) (dig (Y / 100 % 10)) (dig (Y / 10 % 10)) (dig (Y % 10)) (dig (Mo / 10)) (dig (Mo % 10))
        (dig (D / 10)) (dig (D % 10)) (dig (H / 10)) (dig (H % 10)) (dig (Mi / 10)) (dig (Mi % 10))
        (dig (S / 10)) (dig (S % 10)) ++ (if F = [] then [90] else 46 :: (F ++ [90])) := by
  simp [rfc3339Text, head19, four, two]

theorem parse_text (Y Mo D H Mi S : Nat) (F : List UInt8) (hY : Y < 10000) (hMo : Mo < 100) (hD : D < 100)
    (hH : H < 100) (hMi : Mi < 100) (hS : S < 100) (hF : F.length ≤ 9) (hFd : F.all isDigit = true) :
    parseRfc3339 (rfc3339Text Y Mo D H Mi S F) = finish Y Mo D H Mi S (fracNanos F) := by
  rw [rfc3339Text_eq]
  have dY := digits4 Y hY
  have dM := digits2 Mo hMo
  have dD := digits2 D hD
  have dH := digits2 H hH
  have dI := digits2 Mi hMi
  have dS := digits2 S hS
  by_cases hF0 : F = []
  · subst hF0
    simp only [↓reduceIte, parse_nofrac, dY, dM, dD, dH, dI, dS, parseFields, fracNanos, digitsVal,
      List.foldl_nil, Nat.zero_mul]
  · have dF : digits F = some (digitsVal F) := by simp [digits, hFd]
    simp only [hF0, ↓reduceIte]
    rw [parse_frac _ _ _ _ _ _ _ _ _ _ _ _ _ _ _ hF0 hF]
    simp only [dY, dM, dD, dH, dI, dS, dF, Option.map_some, parseFields, fracNanos]

theorem fields_shape (a0 a1 a2 a3 a4 a5 a6 a7 a8 a9 a10 a11 a12 a13 a14 a15 a16 a17 a18 : UInt8) (tail : List UInt8) (y mo dd hh mi ss : Nat)
    (e1 : digits [a0, a1, a2, a3] = some y) (e2 : digits [a5, a6] = some mo) (e3 : digits [a8, a9] = some dd)
    (e4 : digits [a11, a12] = some hh) (e5 : digits [a14, a15] = some mi) (e6 : digits [a17, a18] = some ss)
    (hsep : ¬(a4 ≠ 45 ∨ a7 ≠ 45 ∨ a10 ≠ 84 ∨ a13 ≠ 58 ∨ a16 ≠ 58)) :
    a0 :: a1 :: a2 :: a3 :: a4 :: a5 :: a6 :: a7 :: a8 :: a9 :: a10 :: a11 :: a12 :: a13 :: a14 :: a15 :: a16 :: a17 :: a18 :: tail =
      head19 (dig (y / 1000)) (dig (y / 100 % 10)) (dig (y / 10 % 10)) (dig (y % 10)) (dig (mo / 10)) (dig (mo % 10))
        (dig (dd / 10)) (dig (dd % 10)) (dig (hh / 10)) (dig (hh % 10)) (dig (mi / 10)) (dig (mi % 10))
        (dig (ss / 10)) (dig (ss % 10)) ++ tail ∧
      y < 10000 ∧ mo < 100 ∧ dd < 100 ∧ hh < 100 ∧ mi < 100 ∧ ss < 100 := by
  obtain ⟨g1, l1⟩ := (digits_four _ _ _ _ _).1 e1
  obtain ⟨g2, l2⟩ := (digits_two _ _ _).1 e2
  obtain ⟨g3, l3⟩ := (digits_two _ _ _).1 e3
  obtain ⟨g4, l4⟩ := (digits_two _ _ _).1 e4
  obtain ⟨g5, l5⟩ := (digits_two _ _ _).1 e5
  obtain ⟨g6, l6⟩ := (digits_two _ _ _).1 e6
  simp only [four, two, List.cons.injEq, and_true] at g1 g2 g3 g4 g5 g6
  simp only [ne_eq, not_or, Decidable.not_not] at hsep
  refine ⟨?_, l1, l2, l3, l4, l5, l6⟩
  simp [head19, g1, g2, g3, g4, g5, g6, hsep]

theorem ts_strict_lemma (s : List UInt8) (t : Nat) :
    parseRfc3339 s = .ok t ↔
      ∃ Y Mo D H Mi S F, Y < 10000 ∧ Mo < 100 ∧ D < 100 ∧ H < 100 ∧ Mi < 100 ∧ S < 100 ∧
        F.length ≤ 9 ∧ F.all isDigit = true ∧ s = rfc3339Text Y Mo D H Mi S F ∧
        1 ≤ Mo ∧ 1 ≤ D ∧ fromParts ⟨Y, Mo, D, H, Mi, S, fracNanos F⟩ = .ok (some t) := by
  constructor
  · intro h
    have hlen : 20 ≤ s.length := by
      rcases Nat.lt_or_ge s.length 20 with hl | hl
      · simp [parseRfc3339, hl] at h
      · exact hl
    obtain ⟨a0, a1, a2, a3, a4, a5, a6, a7, a8, a9, a10, a11, a12, a13, a14, a15, a16, a17, a18, rest, rfl⟩ :=
      exists_head19 s (by omega)
    have hrest : rest ≠ [] := by
      intro h0; subst h0; simp at hlen
    obtain ⟨init, z, rfl⟩ : ∃ init z, rest = init ++ [z] :=
      ⟨rest.dropLast, rest.getLast hrest, (List.dropLast_concat_getLast hrest).symm⟩
    cases init with
    | nil =>
      rw [List.nil_append, parse_len20] at h
      split at h
      · cases h
      · rename_i hsep
        split at h
        · rename_i hz
          subst hz
          obtain ⟨y, mo, dd, hh, mi, ss, n, e1, e2, e3, e4, e5, e6, e7, hfin⟩ :=
            (parseFields_ok _ _ _ _ _ _ _ _).1 h
          obtain ⟨f1, f2, f3⟩ := (finish_ok _ _ _ _ _ _ _ _).1 hfin
          obtain ⟨hshape, l1, l2, l3, l4, l5, l6⟩ :=
            fields_shape _ _ _ _ _ _ _ _ _ _ _ _ _ _ _ _ _ _ _ [90] y mo dd hh mi ss e1 e2 e3 e4 e5 e6 hsep
          simp only [Option.some.injEq] at e7
          subst e7
          refine ⟨y, mo, dd, hh, mi, ss, [], l1, l2, l3, l4, l5, l6, by simp, by simp, ?_, f1, f2, ?_⟩
          · rw [List.nil_append, hshape, rfc3339Text_eq]; simp
          · simpa [fracNanos, digitsVal] using f3
        · cases h
    | cons a19 F =>
      rw [List.cons_append, parse_longer] at h
      split at h
      · cases h
      · rename_i hF9
        split at h
        · cases h
        · rename_i hsep
          split at h
          · rename_i hz
            subst hz
            obtain ⟨y, mo, dd, hh, mi, ss, n, e1, e2, e3, e4, e5, e6, e7, hfin⟩ :=
              (parseFields_ok _ _ _ _ _ _ _ _).1 h
            obtain ⟨f1, f2, f3⟩ := (finish_ok _ _ _ _ _ _ _ _).1 hfin
            obtain ⟨hshape, l1, l2, l3, l4, l5, l6⟩ :=
              fields_shape _ _ _ _ _ _ _ _ _ _ _ _ _ _ _ _ _ _ _ (a19 :: (F ++ [90])) y mo dd hh mi ss
                e1 e2 e3 e4 e5 e6 hsep
            split at e7
            · cases e7
            · rename_i hdot
              simp only [ne_eq, not_or, Decidable.not_not] at hdot
              obtain ⟨rfl, hF0⟩ := hdot
              cases hdF : digits F with
              | none => simp [hdF] at e7
              | some v =>
                simp only [hdF, Option.map_some, Option.some.injEq] at e7
                have hall : F.all isDigit = true := by
                  unfold digits at hdF
                  split at hdF
                  · assumption
                  · cases hdF
                have hv : v = digitsVal F := by
                  unfold digits at hdF
                  simp only [hall, ↓reduceIte, Option.some.injEq] at hdF
                  exact hdF.symm
                refine ⟨y, mo, dd, hh, mi, ss, F, l1, l2, l3, l4, l5, l6, by omega, hall, ?_, f1, f2, ?_⟩
                · rw [List.cons_append, hshape, rfc3339Text_eq]; simp [hF0]
                · rw [fracNanos, ← hv, e7]; exact f3
          · cases h
  · rintro ⟨Y, Mo, D, H, Mi, S, F, hY, hMo, hD, hH, hMi, hS, hF, hFd, rfl, h1, h2, hfp⟩
    rw [parse_text Y Mo D H Mi S F hY hMo hD hH hMi hS hF hFd]
    exact (finish_ok _ _ _ _ _ _ _ _).2 ⟨h1, h2, hfp⟩

theorem fromParts_ne_panic (p : Parts) (hd : p.days ≠ 0) (hm : p.months ≠ 0) : fromParts p ≠ .panic := by
  unfold fromParts
  simp only [hd, hm, ↓reduceIte]
  repeat' split
  all_goals simp

theorem finish_ne_panic (y mo d h mi s n : Nat) : finish y mo d h mi s n ≠ .panic := by
  unfold finish
  split
  · simp
  · rename_i hz
    have := fromParts_ne_panic ⟨y, mo, d, h, mi, s, n⟩ (by simp only; omega) (by simp only; omega)
    cases hf : fromParts ⟨y, mo, d, h, mi, s, n⟩ with
    | ok v => cases v <;> simp
    | err => simp
    | panic => exact absurd hf this

theorem parse_total_lemma (s : List UInt8) : parseRfc3339 s ≠ .panic := by
  unfold parseRfc3339
  split
  · simp
  · split
    · simp
    · split
      · simp
      · unfold parseFields
        split
        · exact finish_ne_panic _ _ _ _ _ _ _
        · simp

theorem parseDisplay_eq (s : List UInt8) : parseDisplay s = parseRfc3339 s := by
  unfold parseDisplay buffer30
  by_cases h : s.length ≤ 30
  · simp [h]
  · have : s.length > 30 := by omega
    simp [h, parseRfc3339, this]

theorem digitsVal_lt_aux (F : List UInt8) (h : F.all isDigit = true) (acc : Nat) :
    F.foldl (fun acc b => acc * 10 + digitVal b) acc < (acc + 1) * 10 ^ F.length := by
  induction F generalizing acc with
  | nil => simp
  | cons b rest ih =>
    simp only [List.all_cons, Bool.and_eq_true] at h
    have hb := (dig_digitVal b h.1).2
    simp only [List.foldl_cons, List.length_cons, Nat.pow_succ]
    have := ih h.2 (acc * 10 + digitVal b)
    calc _ < (acc * 10 + digitVal b + 1) * 10 ^ rest.length := this
      _ ≤ ((acc + 1) * 10) * 10 ^ rest.length := Nat.mul_le_mul_right _ (by omega)
      _ = (acc + 1) * (10 ^ rest.length * 10) := by rw [Nat.mul_assoc, Nat.mul_comm 10]

theorem fracNanos_lt (F : List UInt8) (hF : F.length ≤ 9) (h : F.all isDigit = true) : fracNanos F < NANOS := by
  have h1 := digitsVal_lt_aux F h 0
  simp only [Nat.zero_add, Nat.one_mul] at h1
  have h2 : digitsVal F < 10 ^ F.length := h1
  have e : (10 : Nat) ^ F.length * 10 ^ (9 - F.length) = NANOS := by
    rw [← Nat.pow_add]
    have : F.length + (9 - F.length) = 9 := by omega
    rw [this]; decide
  rw [← e, fracNanos]
  exact Nat.mul_lt_mul_of_pos_right h2 (Nat.pow_pos (by decide))

theorem accepts_lemma (t : Nat) (ht : t ≤ MAX_NS) (F : List UInt8) (hF : F.length ≤ 9)
    (hFd : F.all isDigit = true) :
    parseRfc3339 (rfc3339Text (toParts t).years (toParts t).months (toParts t).days (toParts t).hours
        (toParts t).minutes (toParts t).seconds F) = .ok (t / NANOS * NANOS + fracNanos F) := by
  have hfr := fracNanos_lt F hF hFd
  obtain ⟨t1, ht1⟩ : ∃ t1, t1 = t / NANOS * NANOS + fracNanos F := ⟨_, rfl⟩
  rw [← ht1]
  have hs : t / NANOS ≤ MAX_SECS := by
    have h1 : t ≤ 253402300799 * 1000000000 + 999999999 := ht
    have h2 : t / 1000000000 ≤ 253402300799 := by omega
    exact h2
  have hq : t1 / NANOS = t / NANOS := by
    rw [ht1, Nat.mul_comm, Nat.mul_add_div (by decide : NANOS > 0), Nat.div_eq_of_lt hfr, Nat.add_zero]
  have hm : t1 % NANOS = fracNanos F := by
    rw [ht1, Nat.mul_comm, Nat.mul_add_mod, Nat.mod_eq_of_lt hfr]
  have hle : t1 ≤ MAX_NS := by
    have h1 : t1 = t / NANOS * NANOS + fracNanos F := ht1
    have h2 : fracNanos F < 1000000000 := hfr
    have h3 : t / NANOS ≤ 253402300799 := hs
    have h4 : t / NANOS * NANOS ≤ 253402300799 * 1000000000 := Nat.mul_le_mul h3 (Nat.le_refl _)
    show t1 ≤ 253402300799 * 1000000000 + 999999999
    omega
  obtain ⟨p, hp, hr, hnanos, hfp⟩ := calendar_roundtrip_lemma t ht
  obtain ⟨p1, hp1, hr1, hn1, hfp1⟩ := calendar_roundtrip_lemma t1 hle
  have hc := toPartsO_congr t t1 hq
  rw [hp, hp1] at hc
  have hpe : p1 = { p with nanos := t1 % NANOS } := by
    simpa [Outcome.map, Outcome.bind] using hc
  rw [toParts_eq t p hp]
  obtain ⟨⟨_, hy⟩, ⟨hmo1, hmo⟩, ⟨hd1, hd⟩, hh, hmi, hsec, hn⟩ := hr
  rw [parse_text _ _ _ _ _ _ F (by omega) (by omega) (by omega) (by omega) (by omega) (by omega) hF hFd]
  rw [hpe, hm] at hfp1
  exact (finish_ok _ _ _ _ _ _ _ _).2 ⟨hmo1, hd1, hfp1⟩

end EmitModel.Timestamp
