/-
  Lemmas/TimestampText.lean — C15. The RFC 3339 text layer of Model/Timestamp.lean:
    * `parse_nofrac` / `parse_frac`: the parser on a text laid out as `YYYY-MM-DDThh:mm:ss[.F]Z` is the field parsers;
    * digit rendering/parsing (`digits2`, `digits4`, `fracDigits_spec`);
    * `parse_fmtParts`, `ts_roundtrip_lemma`: parsing the formatter's output at precision k gives the instant
      truncated to k sub-second digits.
-/
import EmitModel.Lemmas.Calendar

namespace EmitModel.Timestamp
open EmitModel.Text

def head19 (y0 y1 y2 y3 m0 m1 d0 d1 h0 h1 i0 i1 s0 s1 : UInt8) : List UInt8 :=
  [y0, y1, y2, y3, 45, m0, m1, 45, d0, d1, 84, h0, h1, 58, i0, i1, 58, s0, s1]

theorem parse_nofrac (y0 y1 y2 y3 m0 m1 d0 d1 h0 h1 i0 i1 s0 s1 : UInt8) :
    parseRfc3339 (head19 y0 y1 y2 y3 m0 m1 d0 d1 h0 h1 i0 i1 s0 s1 ++ [90]) =
      parseFields (digits [y0, y1, y2, y3]) (digits [m0, m1]) (digits [d0, d1]) (digits [h0, h1])
        (digits [i0, i1]) (digits [s0, s1]) (some 0) := by
  simp [parseRfc3339, parseNanos, head19, sub]

theorem parse_frac (y0 y1 y2 y3 m0 m1 d0 d1 h0 h1 i0 i1 s0 s1 : UInt8) (F : List UInt8)
    (h0' : F ≠ []) (h9 : F.length ≤ 9) :
    parseRfc3339 (head19 y0 y1 y2 y3 m0 m1 d0 d1 h0 h1 i0 i1 s0 s1 ++ 46 :: (F ++ [90])) =
      parseFields (digits [y0, y1, y2, y3]) (digits [m0, m1]) (digits [d0, d1]) (digits [h0, h1])
        (digits [i0, i1]) (digits [s0, s1]) ((digits F).map fun v => v * 10 ^ (9 - F.length)) := by
  have hl : 0 < F.length := List.length_pos_iff.2 h0'
  simp [parseRfc3339, parseNanos, head19, sub, h0']
  intro h
  omega

theorem dig_spec : ∀ n, n < 10 → isDigit (dig n) = true ∧ digitVal (dig n) = n := by decide

theorem digits2 (x : Nat) (hx : x < 100) : digits [dig (x / 10), dig (x % 10)] = some x := by
  have h1 := dig_spec (x / 10) (by omega)
  have h2 := dig_spec (x % 10) (by omega)
  simp only [digits, List.all_cons, List.all_nil, h1.1, h2.1, Bool.and_self, ↓reduceIte, digitsVal,
    List.foldl_cons, List.foldl_nil, h1.2, h2.2]
  congr 1
  omega

theorem digits4 (x : Nat) (hx : x < 10000) :
    digits [dig (x / 1000), dig (x / 100 % 10), dig (x / 10 % 10), dig (x % 10)] = some x := by
  have h1 := dig_spec (x / 1000) (by omega)
  have h2 := dig_spec (x / 100 % 10) (by omega)
  have h3 := dig_spec (x / 10 % 10) (by omega)
  have h4 := dig_spec (x % 10) (by omega)
  simp only [digits, List.all_cons, List.all_nil, h1.1, h2.1, h3.1, h4.1, Bool.and_self, ↓reduceIte, digitsVal,
    List.foldl_cons, List.foldl_nil, h1.2, h2.2, h3.2, h4.2]
  congr 1
  omega

theorem fracDigits_succ (k n : Nat) : fracDigits (k + 1) n = fracDigits k n ++ [dig (n / 10 ^ (8 - k) % 10)] := by
  simp [fracDigits, List.range_succ]

theorem fracDigits_length (k n : Nat) : (fracDigits k n).length = k := by simp [fracDigits]

theorem digitsVal_append (xs : List UInt8) (b : UInt8) : digitsVal (xs ++ [b]) = digitsVal xs * 10 + digitVal b := by
  simp [digitsVal, List.foldl_append]

theorem fracDigits_spec (k n : Nat) (hk : k ≤ 9) (hn : n < 10 ^ 9) :
    (fracDigits k n).all isDigit = true ∧ digitsVal (fracDigits k n) = n / 10 ^ (9 - k) := by
  induction k with
  | zero => simp [fracDigits, digitsVal]; omega
  | succ k ih =>
    have ⟨a, v⟩ := ih (by omega)
    have hd := dig_spec (n / 10 ^ (8 - k) % 10) (Nat.mod_lt _ (by decide))
    rw [fracDigits_succ, digitsVal_append, List.all_append, a, v, hd.2]
    refine ⟨by simp [hd.1], ?_⟩
    have e : 9 - k = (8 - k) + 1 := by omega
    have e' : 9 - (k + 1) = 8 - k := by omega
    rw [e, e', Nat.pow_succ, ← Nat.div_div_eq_div_mul]
    omega


theorem trunc_facts (t p : Nat) (hp : p ≤ 9) :
    (t - t % 10 ^ (9 - p)) / NANOS = t / NANOS ∧
    (t - t % 10 ^ (9 - p)) % NANOS = t % NANOS / 10 ^ (9 - p) * 10 ^ (9 - p) ∧
    t - t % 10 ^ (9 - p) ≤ t := by
  have : p = 0 ∨ p = 1 ∨ p = 2 ∨ p = 3 ∨ p = 4 ∨ p = 5 ∨ p = 6 ∨ p = 7 ∨ p = 8 ∨ p = 9 := by omega
  rcases this with rfl | rfl | rfl | rfl | rfl | rfl | rfl | rfl | rfl | rfl <;>
    simp only [NANOS, Nat.reduceSub, Nat.reducePow] <;> omega

/-- `to_parts` looks at the instant only through `as_secs()` and `subsec_nanos()` -/
theorem toPartsO_congr (t t' : Nat) (h : t' / NANOS = t / NANOS) :
    toPartsO t' = (toPartsO t).map (fun p => { p with nanos := t' % NANOS }) := by
  unfold toPartsO
  simp only [h]
  cases dateOfDays _ with
  | panic => rfl
  | err => rfl
  | ok v => obtain ⟨a, b, c⟩ := v; rfl

theorem fmtDateTime_eq (p : Parts) :
    fmtDateTime p = head19 (dig (p.years / 1000)) (dig (p.years / 100 % 10)) (dig (p.years / 10 % 10)) (dig (p.years % 10))
      (dig (p.months / 10)) (dig (p.months % 10)) (dig (p.days / 10)) (dig (p.days % 10))
      (dig (p.hours / 10)) (dig (p.hours % 10)) (dig (p.minutes / 10)) (dig (p.minutes % 10))
      (dig (p.seconds / 10)) (dig (p.seconds % 10)) := rfl

/-- parsing the text of in-range parts gives back the fields (fraction scaled to nanoseconds) -/
theorem parse_fmtParts (p : Parts) (hr : InRange p) (k : Nat) (hk : k ≤ 9) :
    parseRfc3339 (fmtParts (some k) p) =
      finish p.years p.months p.days p.hours p.minutes p.seconds (p.nanos / 10 ^ (9 - k) * 10 ^ (9 - k)) := by
  obtain ⟨⟨_, hy⟩, ⟨_, hmo⟩, ⟨_, hd⟩, hh, hmi, hs, hn⟩ := hr
  have dY := digits4 p.years (by omega)
  have dM := digits2 p.months (by omega)
  have dD := digits2 p.days (by omega)
  have dH := digits2 p.hours (by omega)
  have dI := digits2 p.minutes (by omega)
  have dS := digits2 p.seconds (by omega)
  cases k with
  | zero =>
    have e : p.nanos / 10 ^ (9 - 0) * 10 ^ (9 - 0) = 0 := by
      simp only [Nat.reduceSub, Nat.reducePow]; omega
    simp only [fmtParts, fmtDateTime_eq, parse_nofrac, dY, dM, dD, dH, dI, dS, parseFields, e]
  | succ k =>
    have hF := fracDigits_spec (k + 1) p.nanos hk (by simp only [Nat.reducePow]; omega)
    have hne : fracDigits (k + 1) p.nanos ≠ [] := by
      intro h; have := fracDigits_length (k + 1) p.nanos; rw [h] at this; simp at this
    have hmin : min 9 (k + 1) = k + 1 := by omega
    simp only [fmtParts, Option.getD_some, hmin, fmtDateTime_eq, List.append_assoc, List.singleton_append, List.cons_append, List.nil_append]
    rw [parse_frac _ _ _ _ _ _ _ _ _ _ _ _ _ _ _ hne (by rw [fracDigits_length]; exact hk)]
    have dF : digits (fracDigits (k + 1) p.nanos) = some (p.nanos / 10 ^ (9 - (k + 1))) := by
      simp only [digits, hF.1, ↓reduceIte, hF.2]
    simp only [dY, dM, dD, dH, dI, dS, dF, Option.map_some, fracDigits_length, parseFields]

theorem toParts_eq (t : Nat) (p : Parts) (h : toPartsO t = .ok p) : toParts t = p := by
  simp [toParts, h]

theorem ts_roundtrip_lemma (t k : Nat) (ht : t ≤ MAX_NS) (hk : k ≤ 9) :
    fmtRfc3339O (some k) t = .ok (fmtRfc3339 (some k) t) ∧
    parseRfc3339 (fmtRfc3339 (some k) t) = .ok (t - t % 10 ^ (9 - k)) := by
  obtain ⟨p, hp, hr, hnanos, hfp⟩ := calendar_roundtrip_lemma t ht
  obtain ⟨e1, e2, e3⟩ := trunc_facts t k hk
  obtain ⟨p', hp', hr', hn', hfp'⟩ := calendar_roundtrip_lemma (t - t % 10 ^ (9 - k)) (Nat.le_trans e3 ht)
  have hc := toPartsO_congr t _ e1
  rw [hp, hp'] at hc
  have hpe : p' = { p with nanos := (t - t % 10 ^ (9 - k)) % NANOS } := by
    simpa [Outcome.map, Outcome.bind] using hc
  refine ⟨by simp [fmtRfc3339O, fmtRfc3339, hp, toParts_eq t p hp, Outcome.map, Outcome.bind], ?_⟩
  rw [fmtRfc3339, toParts_eq t p hp, parse_fmtParts p hr k hk, hnanos, ← e2]
  have hm : ¬ (p.months = 0 ∨ p.days = 0) := by have := hr.mo.1; have := hr.d.1; omega
  rw [hpe] at hfp'
  simp only [finish, hm, ↓reduceIte, hfp']

end EmitModel.Timestamp
