/-
  Lemmas/Props.lean — helper lemmas for C02 (Model/Props.lean).
-/
import EmitModel.Model.Props

namespace EmitModel.Props
open EmitModel.Assoc Std

/-- The uncurried visitor. -/
abbrev unc {σ : Type} (f : Visitor σ) : σ → String × Val → σ × Bool := fun s kv => f s kv.1 kv.2

theorem andThen_eq {σ : Type} (r : σ × Bool) (k : σ → σ × Bool) :
    andThen r k = match r with
      | (s, true) => (s, true)
      | (s, false) => k s := by
  rcases r with ⟨s, b⟩; cases b <;> rfl

theorem foldUntil_macro {σ : Type} (f : Visitor σ) (s : σ) (es : List (String × Option Val)) :
    foldUntil (fun s (kv : String × Option Val) => match kv.2 with
                           | some v => f s kv.1 v
                           | none => (s, false)) s es
      = foldUntil (unc f) s (macroEnum es) := by
  induction es generalizing s with
  | nil => rfl
  | cons a es ih =>
    obtain ⟨k, ov⟩ := a
    cases ov with
    | none => simp [foldUntil, macroEnum, ih]
    | some v =>
      simp only [foldUntil, macroEnum, unc]
      rcases h : f s k v with ⟨s', b⟩
      cases b <;> simp [ih]

theorem foldUntil_singleton {σ α : Type} (f : σ → α → σ × Bool) (s : σ) (x : α) :
    foldUntil f s [x] = f s x := by
  simp only [foldUntil]
  rcases f s x with ⟨s', b⟩
  cases b <;> rfl

/-- The inner pass of `Dedup::for_each` over a list: a fold of `entry().or_insert()`. -/
theorem foldUntil_collect (m : List (String × Val)) (xs : List (String × Val)) :
    (foldUntil (unc fun (m : List (String × Val)) k v => (insertIfAbsent compare m k v, false)) m xs).1
      = xs.foldl (fun m kv => insertIfAbsent compare m kv.1 kv.2) m := by
  show (foldUntil (fun m (kv : String × Val) => (insertIfAbsent compare m kv.1 kv.2, false)) m xs).1 = _
  rw [foldUntil_never]

mutual
/-- **Master lemma.** `for_each` with any visitor is the break-honouring fold of that visitor over the
    enumeration — for every collection, visitor and initial state. -/
theorem forEach_eq {σ : Type} : ∀ (p : P) (f : Visitor σ) (s : σ),
    forEach p f s = foldUntil (unc f) s (enum p)
  | .pair k v, f, s => by simp [forEach, enum, foldUntil_singleton]
  | .slice ps, f, s => by simp only [forEach, enum]; exact forEachList_eq ps f s
  | .arr ps, f, s => by simp only [forEach, enum]; exact forEachList_eq ps f s
  | .btree es, f, s => by simp [forEach, enum]
  | .hash es, f, s => by simp [forEach, enum]
  | .optNone, f, s => by simp [forEach, enum]
  | .optSome p, f, s => by simp only [forEach, enum]; exact forEach_eq p f s
  | .and a b, f, s => by
    simp only [forEach, enum, foldUntil_append, andThen_eq, forEach_eq a f s]
    rcases foldUntil (unc f) s (enum a) with ⟨s', b'⟩
    cases b' <;> simp [forEach_eq b f]
  | .ref p, f, s => by simp only [forEach, enum]; exact forEach_eq p f s
  | .boxed p, f, s => by simp only [forEach, enum]; exact forEach_eq p f s
  | .shared p, f, s => by simp only [forEach, enum]; exact forEach_eq p f s
  | .erased p, f, s => by simp only [forEach, enum]; exact forEach_eq p f s
  | .asMap p, f, s => by simp only [forEach, enum]; exact forEach_eq p f s
  | .dedup p, f, s => by
    simp only [forEach, enum]
    split
    · exact forEach_eq p f s
    · rw [forEach_eq p, foldUntil_collect]; rfl
  | .empty, f, s => by simp [forEach, enum]
  | .macro es, f, s => by simp only [forEach, enum]; exact foldUntil_macro f s es
  | .extentPoint ts, f, s => by simp [forEach, enum]
  | .extentRange a b, f, s => by simp [forEach, enum]
  | .spanCtxt t sp pa, f, s => by simp [forEach, enum]
  | .spanView name p, f, s => by
    simp only [forEach, enum, foldUntil_append, andThen_eq, forEach_eq p f]
    try rfl
  | .metricView name agg v p, f, s => by
    simp only [forEach, enum, foldUntil_append, andThen_eq, forEach_eq p f]
    try rfl
  | .frame es, f, s => by simp [forEach, enum]
  | .slot p, f, s => by simp only [forEach, enum]; exact forEach_eq p f s
theorem forEachList_eq {σ : Type} : ∀ (ps : List P) (f : Visitor σ) (s : σ),
    forEachList ps f s = foldUntil (unc f) s (enumList ps)
  | [], f, s => by simp [forEachList, enumList]
  | p :: ps, f, s => by
    simp only [forEachList, enumList, foldUntil_append, andThen_eq, forEach_eq p f s]
    rcases foldUntil (unc f) s (enum p) with ⟨s', b'⟩
    cases b' <;> simp [forEachList_eq ps f]
end

/-- The finder visitor of the default `get` over a list: the first-wins lookup. -/
theorem foldUntil_finder (key : String) (xs : List (String × Val)) (r : Option Val) :
    (foldUntil (unc fun (value : Option Val) k v => if k = key then (some v, true) else (value, false)) r xs).1
      = (lookupFirst key xs).or r := by
  induction xs generalizing r with
  | nil => simp
  | cons a xs ih =>
    obtain ⟨k, v⟩ := a
    simp only [foldUntil, unc, lookupFirst_cons]
    by_cases h : k = key <;> simp [h, ih]

theorem scan_eq (p : P) (key : String) : scan p key = lookupFirst key (enum p) := by
  simp [scan, forEach_eq, foldUntil_finder]

theorem btreeGet_eq {es : List (String × Val)} (h : Sorted compare es) (q : String) :
    btreeGet es q = lookupFirst q es := by
  induction es with
  | nil => rfl
  | cons a es ih =>
    obtain ⟨k, v⟩ := a
    have h' := List.pairwise_cons.1 h
    simp only [btreeGet]
    split
    · next hc =>
      have : k ≠ q := by rintro rfl; rw [ReflCmp.compare_self (cmp := compare)] at hc; cases hc
      rw [lookupFirst_cons, if_neg this, ih h'.2]
    · next hc =>
      have := LawfulEqCmp.eq_of_compare hc; subst this
      simp [lookupFirst_cons]
    · next hc =>
      have hlt : compare q k = .lt := by rw [OrientedCmp.eq_swap (cmp := compare)]; simp [hc]
      exact (lookupFirst_eq_none_of_lt h hlt).symm

theorem macroGet_eq (es : List (String × Option Val)) (q : String) :
    macroGet es q = lookupFirst q (macroEnum es) := by
  induction es with
  | nil => rfl
  | cons a es ih =>
    obtain ⟨k, ov⟩ := a
    cases ov with
    | none => simp [macroGet, macroEnum, ih]
    | some v => simp [macroGet, macroEnum, lookupFirst_cons, ih]

/-- `enum (dedup p)` in both branches has the lookups of `enum p`. -/
theorem lookupFirst_enum_dedup (p : P) (q : String) :
    lookupFirst q (enum (.dedup p)) = lookupFirst q (enum p) := by
  simp only [enum]
  split
  · rfl
  · exact lookupFirst_collectFirst _ _

end EmitModel.Props
