/-
  Lemmas/FileSetSteps.lean — the atomic effects the worker can have on the filesystem (`FsStep`), and the
  invariants / relations each of them preserves:
    * `NamesNodup`  — names stay unique,
    * `GoodInv`     — every member file's content stays `Good` (chunk invariant),
    * `Rel`         — log entries name members only; durable files keep their synced bytes unless the worker
                      deleted them (logged); non-member files never gain a byte and are never created or deleted.
  Lemmas/FileSetWalk.lean shows that `onBatch` is a sequence of such steps.
-/
import EmitModel.Lemmas.FileSetFs

namespace EmitModel.FileSet

def Ev.name : Ev → List Nat
  | .created n => n
  | .deleted n => n
  | .opened n => n

def newFile : File := { synced := [], unsynced := [], durable := false }

section
variable (cfg : Config) (E : List Nat → Prop) (c : Nat) (N : List Nat → Prop)

def Mem (n : List Nat) : Prop := isMember cfg.pfx cfg.ext n = true

/-- The file `n`, if it exists, holds clean content. -/
def CleanAt (s : St) (n : List Nat) : Prop := ∀ f, fsGet s.fs n = some f → Clean E c s.faulted f.content

/-- `N` says which names a `create` step may use (the name computed from the clock reading and id of the batch). -/
inductive FsStep : St → St → Prop
  | idle {s s' : St} (hfs : s'.fs = s.fs) (hlog : s'.log = s.log) (hf : s.faulted = true → s'.faulted = true) :
      FsStep s s'
  | crash {s s' : St} (lose : List Nat) (d : Bool) (hfs : s'.fs = crashFs lose d s.fs) (hlog : s'.log = s.log)
      (hf : s'.faulted = true) : FsStep s s'
  | create {s s' : St} (n : List Nat) (hm : Mem cfg n) (hN : N n) (hnone : fsGet s.fs n = none)
      (hfs : s'.fs = s.fs ++ [(n, newFile)]) (hlog : s'.log = s.log ++ [.created n])
      (hf : s.faulted = true → s'.faulted = true) : FsStep s s'
  | syncParent {s s' : St} (hfs : s'.fs = s.fs.map fun e => (e.1, e.2.setDurable))
      (hlog : s'.log = s.log) (hf : s.faulted = true → s'.faulted = true) : FsStep s s'
  | opened {s s' : St} (n : List Nat) (hm : Mem cfg n) (hfs : s'.fs = s.fs) (hlog : s'.log = s.log ++ [.opened n])
      (hf : s.faulted = true → s'.faulted = true) : FsStep s s'
  | appendSep {s s' : St} (n : List Nat) (hm : Mem cfg n) (hfs : s'.fs = appendBytes s.fs n [c])
      (hlog : s'.log = s.log) (hf : s.faulted = true → s'.faulted = true) : FsStep s s'
  | appendEvt {s s' : St} (n e : List Nat) (hm : Mem cfg n) (he : E e) (hclean : CleanAt E c s n)
      (hfs : s'.fs = appendBytes s.fs n e) (hlog : s'.log = s.log) (hf : s.faulted = true → s'.faulted = true) :
      FsStep s s'
  | appendTrunc {s s' : St} (n p : List Nat) (hm : Mem cfg n) (hp : IsTrunc E p) (hclean : CleanAt E c s n)
      (hfs : s'.fs = appendBytes s.fs n p) (hlog : s'.log = s.log) (hf : s'.faulted = true) : FsStep s s'
  | syncAll {s s' : St} (n : List Nat) (f : File) (hm : Mem cfg n) (hget : fsGet s.fs n = some f)
      (hfs : s'.fs = fsSet s.fs n f.syncedAll)
      (hlog : s'.log = s.log) (hf : s.faulted = true → s'.faulted = true) : FsStep s s'
  | remove {s s' : St} (n : List Nat) (hm : Mem cfg n) (hsome : fsGet s.fs n ≠ none) (hfs : s'.fs = fsErase s.fs n)
      (hlog : s'.log = s.log ++ [.deleted n]) (hf : s.faulted = true → s'.faulted = true) : FsStep s s'

inductive FsSteps : St → St → Prop
  | refl (s : St) : FsSteps s s
  | tail {s s' s'' : St} : FsSteps s s' → FsStep cfg E c N s' s'' → FsSteps s s''

variable {cfg E c N}

theorem FsSteps.single {s s' : St} (h : FsStep cfg E c N s s') : FsSteps cfg E c N s s' := .tail (.refl s) h

theorem FsSteps.trans {s s' s'' : St} (h1 : FsSteps cfg E c N s s') (h2 : FsSteps cfg E c N s' s'') :
    FsSteps cfg E c N s s'' := by
  induction h2 with
  | refl => exact h1
  | tail _ hstep ih => exact .tail ih hstep

theorem FsStep.faulted_mono {s s' : St} (h : FsStep cfg E c N s s') : s.faulted = true → s'.faulted = true := by
  cases h <;> first | assumption | (intro _; assumption)

/-! ### names stay unique -/

def NamesNodup (s : St) : Prop := (names s.fs).Nodup

theorem FsStep.nodup {s s' : St} (h : FsStep cfg E c N s s') (hn : NamesNodup s) : NamesNodup s' := by
  unfold NamesNodup at *
  cases h with
  | idle hfs => rw [hfs]; exact hn
  | crash lose d hfs => rw [hfs]; exact (names_crashFs_sublist lose d s.fs).nodup hn
  | create n _ _ hnone hfs =>
    rw [hfs]
    have : n ∉ names s.fs := fsGet_eq_none_iff.mp hnone
    simp only [names, List.map_append, List.map_cons, List.map_nil] at this ⊢
    rw [List.nodup_append]
    refine ⟨hn, by simp, ?_⟩
    intro a ha b hb
    simp at hb; subst hb
    intro e; subst e; exact this ha
  | syncParent hfs => rw [hfs, names_map _ File.setDurable]; exact hn
  | opened _ _ hfs => rw [hfs]; exact hn
  | appendSep _ _ hfs => rw [hfs, names_appendBytes]; exact hn
  | appendEvt _ _ _ _ _ hfs => rw [hfs, names_appendBytes]; exact hn
  | appendTrunc _ _ _ _ _ hfs => rw [hfs, names_appendBytes]; exact hn
  | syncAll n f _ hget hfs => rw [hfs, names_fsSet_of_mem _ (mem_names_of_fsGet hget)]; exact hn
  | remove n _ _ hfs => rw [hfs, names_fsErase]; exact hn.filter _

theorem FsSteps.nodup {s s' : St} (h : FsSteps cfg E c N s s') (hn : NamesNodup s) : NamesNodup s' := by
  induction h with
  | refl => exact hn
  | tail _ hstep ih => exact hstep.nodup ih

/-! ### the chunk invariant -/

/-- Every member file holds good content (trunc pieces only if an interrupting fault has happened). -/
def GoodInv (cfg : Config) (E : List Nat → Prop) (c : Nat) (s : St) : Prop :=
  ∀ n f, fsGet s.fs n = some f → Mem cfg n → Good E c s.faulted f.content

theorem crashFile_content (lose : List Nat) (f : File) :
    (crashFile lose f).content = f.content.take (f.synced.length + (f.unsynced.length - lossOf lose f.unsynced.length)) := by
  simp only [crashFile, File.content, List.take_append, List.append_nil]
  rw [List.take_of_length_le (Nat.le_add_right _ _), Nat.add_sub_cancel_left]

theorem FsStep.goodInv {s s' : St} (h : FsStep cfg E c N s s') (hn : NamesNodup s) (hg : GoodInv cfg E c s) :
    GoodInv cfg E c s' := by
  intro m g hget hm
  cases h with
  | idle hfs _ hf => rw [hfs] at hget; exact (hg m g hget hm).mono' hf
  | crash lose d hfs _ hf =>
    rw [hfs, fsGet_crashFs lose d hn] at hget
    cases hget0 : fsGet s.fs m with
    | none => simp [hget0] at hget
    | some f =>
      simp only [hget0, Option.bind_some] at hget
      split at hget
      · cases hget
        rw [hf, crashFile_content]
        exact (hg m f hget0 hm).take _
      · cases hget
  | create n _ _ hnone hfs _ hf =>
    rw [hfs] at hget
    cases hget0 : fsGet s.fs m with
    | none =>
      rw [fsGet_append_of_none _ hget0] at hget
      simp only [fsGet] at hget
      split at hget
      · cases hget; exact Good.nil
      · cases hget
    | some f =>
      rw [fsGet_append_of_some _ hget0] at hget
      cases hget; exact (hg m _ hget0 hm).mono' hf
  | syncParent hfs _ hf =>
    rw [hfs, fsGet_map _ File.setDurable] at hget
    cases hget0 : fsGet s.fs m with
    | none => simp [hget0] at hget
    | some f =>
      simp only [hget0, Option.map_some, Option.some.injEq] at hget
      subst hget
      exact (hg m f hget0 hm).mono' hf
  | opened _ _ hfs _ hf => rw [hfs] at hget; exact (hg m g hget hm).mono' hf
  | appendSep n _ hfs _ hf =>
    rw [hfs] at hget
    by_cases hmn : m = n
    · subst hmn
      cases hget0 : fsGet s.fs m with
      | none => rw [appendBytes_of_none _ hget0, hget0] at hget; cases hget
      | some f =>
        rw [fsGet_appendBytes_same _ hget0] at hget
        cases hget
        have := ((hg m f hget0 hm).append_sep).good.mono' hf
        simpa [File.content] using this
    · rw [fsGet_appendBytes_ne _ _ hmn] at hget; exact (hg m g hget hm).mono' hf
  | appendEvt n e _ he hclean hfs _ hf =>
    rw [hfs] at hget
    by_cases hmn : m = n
    · subst hmn
      cases hget0 : fsGet s.fs m with
      | none => rw [appendBytes_of_none _ hget0, hget0] at hget; cases hget
      | some f =>
        rw [fsGet_appendBytes_same _ hget0] at hget
        cases hget
        have := (Clean.evt (hclean f hget0) he).good.mono' hf
        simpa [File.content] using this
    · rw [fsGet_appendBytes_ne _ _ hmn] at hget; exact (hg m g hget hm).mono' hf
  | appendTrunc n p _ hp hclean hfs _ hf =>
    rw [hfs] at hget
    by_cases hmn : m = n
    · subst hmn
      cases hget0 : fsGet s.fs m with
      | none => rw [appendBytes_of_none _ hget0, hget0] at hget; cases hget
      | some f =>
        rw [fsGet_appendBytes_same _ hget0] at hget
        cases hget
        have := ((hclean f hget0).mono' (t' := s'.faulted) (fun _ => hf)).append_trunc hf hp
        simpa [File.content] using this
    · rw [fsGet_appendBytes_ne _ _ hmn] at hget
      exact (hg m g hget hm).mono' (fun _ => hf)
  | syncAll n f _ hget0 hfs _ hf =>
    rw [hfs] at hget
    by_cases hmn : m = n
    · subst hmn
      rw [fsGet_fsSet_same] at hget
      cases hget
      have := (hg m f hget0 hm).mono' hf
      simpa [File.content, File.syncedAll] using this
    · rw [fsGet_fsSet_ne _ _ hmn] at hget; exact (hg m g hget hm).mono' hf
  | remove n _ _ hfs _ hf =>
    rw [hfs] at hget
    by_cases hmn : m = n
    · subst hmn; rw [fsGet_fsErase_same] at hget; cases hget
    · rw [fsGet_fsErase_ne _ hmn] at hget; exact (hg m g hget hm).mono' hf

theorem FsSteps.goodInv {s s' : St} (h : FsSteps cfg E c N s s') (hn : NamesNodup s) (hg : GoodInv cfg E c s) :
    GoodInv cfg E c s' := by
  induction h with
  | refl => exact hg
  | tail hsteps hstep ih => exact hstep.goodInv (hsteps.nodup hn) ih

end

end EmitModel.FileSet
