/-
  Lemmas/Level.lean — helper lemmas for C17: the trie of `MinLevelPathMap` refines longest-prefix lookup.
-/
import EmitModel.Model.Level

namespace EmitModel.Level
open Std

variable {α β : Type}

/-! ### The abstract side: partial maps from paths to payloads, longest-prefix match -/

def longestBelow (g : List α → Option β) : List α → Option β
  | [] => none
  | s :: rest => (longestBelow (fun q => g (s :: q)) rest).or (g [s])

def longest (g : List α → Option β) (m : List α) : Option β :=
  (longestBelow g m).or (g [])

theorem longestBelow_none (m : List α) : longestBelow (fun _ => (none : Option β)) m = none := by
  induction m with
  | nil => rfl
  | cons s rest ih => simp [longestBelow, ih]

theorem longestBelow_congr {g h : List α → Option β} (m : List α) (e : ∀ q, g q = h q) :
    longestBelow g m = longestBelow h m := by
  induction m generalizing g h with
  | nil => rfl
  | cons s rest ih =>
    simp only [longestBelow]
    rw [ih (fun q => e (s :: q)), e]

theorem longestBelow_eq_none_iff (g : List α → Option β) (l : List α) :
    longestBelow g l = none ↔ ∀ j, 0 < j → j ≤ l.length → g (l.take j) = none := by
  induction l generalizing g with
  | nil => simp [longestBelow]; intro j h1 h2; omega
  | cons a l ih =>
    simp only [longestBelow, Option.or_eq_none_iff, ih]
    constructor
    · rintro ⟨h1, h2⟩ j hj1 hj2
      obtain ⟨j', rfl⟩ : ∃ j', j = j' + 1 := ⟨j - 1, by omega⟩
      by_cases h0 : j' = 0
      · subst h0; simpa using h2
      · simpa using h1 j' (by omega) (by simpa using hj2)
    · intro h
      refine ⟨?_, by simpa using h 1 (by omega) (by simp)⟩
      intro j hj1 hj2
      simpa using h (j + 1) (by omega) (by simpa using hj2)

theorem longestBelow_eq_some_iff (g : List α → Option β) (l : List α) (v : β) :
    longestBelow g l = some v ↔
      ∃ k, 0 < k ∧ k ≤ l.length ∧ g (l.take k) = some v ∧ ∀ j, k < j → j ≤ l.length → g (l.take j) = none := by
  induction l generalizing g with
  | nil => simp [longestBelow]; intro k h1 h2; omega
  | cons a l ih =>
    simp only [longestBelow, Option.or_eq_some_iff, ih, longestBelow_eq_none_iff]
    constructor
    · rintro (⟨k, hk0, hk, hg, hj⟩ | ⟨hnone, hg⟩)
      · refine ⟨k + 1, by omega, by simpa using hk, by simpa using hg, ?_⟩
        intro j h1 h2
        obtain ⟨j', rfl⟩ : ∃ j', j = j' + 1 := ⟨j - 1, by omega⟩
        simpa using hj j' (by omega) (by simpa using h2)
      · refine ⟨1, by omega, by simp, by simpa using hg, ?_⟩
        intro j h1 h2
        obtain ⟨j', rfl⟩ : ∃ j', j = j' + 1 := ⟨j - 1, by omega⟩
        simpa using hnone j' (by omega) (by simpa using h2)
    · rintro ⟨k, hk0, hk, hg, hj⟩
      obtain ⟨k', rfl⟩ : ∃ k', k = k' + 1 := ⟨k - 1, by omega⟩
      by_cases h0 : k' = 0
      · subst h0
        right
        refine ⟨?_, by simpa using hg⟩
        intro j hj1 hj2
        simpa using hj (j + 1) (by omega) (by simpa using hj2)
      · left
        refine ⟨k', by omega, by simpa using hk, by simpa using hg, ?_⟩
        intro j hj1 hj2
        simpa using hj (j + 1) (by omega) (by simpa using hj2)

theorem longest_eq_some_iff (g : List α → Option β) (m : List α) (v : β) :
    longest g m = some v ↔
      ∃ k, k ≤ m.length ∧ g (m.take k) = some v ∧ ∀ j, k < j → j ≤ m.length → g (m.take j) = none := by
  simp only [longest, Option.or_eq_some_iff, longestBelow_eq_some_iff, longestBelow_eq_none_iff]
  constructor
  · rintro (⟨k, _, hk, hg, hj⟩ | ⟨hnone, hg⟩)
    · exact ⟨k, hk, hg, hj⟩
    · exact ⟨0, by omega, by simpa using hg, fun j h1 h2 => hnone j h1 h2⟩
  · rintro ⟨k, hk, hg, hj⟩
    by_cases h0 : k = 0
    · subst h0; right; exact ⟨fun j h1 h2 => hj j h1 h2, by simpa using hg⟩
    · left; exact ⟨k, by omega, hk, hg, hj⟩

theorem longest_eq_none_iff (g : List α → Option β) (m : List α) :
    longest g m = none ↔ ∀ j, j ≤ m.length → g (m.take j) = none := by
  simp only [longest, Option.or_eq_none_iff, longestBelow_eq_none_iff]
  constructor
  · rintro ⟨h1, h2⟩ j hj
    by_cases h0 : j = 0
    · subst h0; simpa using h2
    · exact h1 j (by omega) hj
  · intro h; exact ⟨fun j _ hj => h j hj, by simpa using h 0 (by omega)⟩

/-! ### The concrete side: exact-path `get` on the trie -/

namespace Node
variable (cmp : α → α → Ordering)

mutual
def get : Node α β → List α → Option β
  | .mk l _, [] => l
  | .mk _ cs, s :: rest => getCh cs s rest
def getCh : List (α × Node α β) → α → List α → Option β
  | [], _, _ => none
  | (k, n) :: cs, s, rest =>
    match cmp k s with
    | .lt => getCh cs s rest
    | .eq => get n rest
    | .gt => none
end

mutual
def Sorted : Node α β → Prop
  | .mk _ cs => SortedCh cs
def SortedCh : List (α × Node α β) → Prop
  | [] => True
  | (k, n) :: cs => Sorted n ∧ (∀ p ∈ cs, cmp k p.1 = .lt) ∧ SortedCh cs
end

theorem get_nil (n : Node α β) : get cmp n [] = n.lvl := by
  cases n; simp [get, lvl]

theorem chain_get [TransCmp cmp] [LawfulEqCmp cmp] (p q : List α) (f : β) [DecidableEq α] :
    get cmp (chain p f) q = if q = p then some f else none := by
  induction p generalizing q with
  | nil => cases q <;> simp [chain, get, getCh]
  | cons s rest ih =>
    cases q with
    | nil => simp [chain, get]
    | cons s' q =>
      simp only [chain, get, getCh]
      cases h : cmp s s' with
      | lt => 
        have : s' ≠ s := by rintro rfl; simp [ReflCmp.compare_self] at h
        simp [this]
      | eq => 
        have := LawfulEqCmp.eq_of_compare h; subst this
        simp [ih]
      | gt =>
        have : s' ≠ s := by rintro rfl; simp [ReflCmp.compare_self] at h
        simp [this]

/-- walk = longest-prefix over `get`, no sortedness needed (both use the same scan). -/
theorem walk_eq : ∀ (n : Node α β) (m : List α) (acc : Option β),
    walk cmp n m acc = (longestBelow (get cmp n) m).or acc
  | .mk l cs, [], acc => by simp [walk, longestBelow]
  | .mk l cs, s :: rest, acc => by
    simp only [walk, longestBelow]
    rw [walkCh_eq cs s rest acc]
    simp [get]
  where walkCh_eq : ∀ (cs : List (α × Node α β)) (s : α) (rest : List α) (acc : Option β),
    walkCh cmp cs s rest acc = ((longestBelow (fun q => getCh cmp cs s q) rest).or (getCh cmp cs s [])).or acc
  | [], s, rest, acc => by simp [walkCh, getCh, longestBelow_none]
  | (k, n) :: cs, s, rest, acc => by
    simp only [walkCh, getCh]
    cases h : cmp k s with
    | lt => simp only; exact walkCh_eq cs s rest acc
    | eq => simp only; rw [walk_eq n rest]; simp [get_nil, Option.or_assoc]
    | gt => simp [longestBelow_none]

theorem get_insert [TransCmp cmp] [LawfulEqCmp cmp] [DecidableEq α] : ∀ (n : Node α β) (p q : List α) (f : β),
    get cmp (insert cmp n p f) q = if q = p then some f else get cmp n q
  | .mk l cs, [], q, f => by cases q <;> simp [insert, get]
  | .mk l cs, s :: rest, [], f => by simp [insert, get]
  | .mk l cs, s :: rest, s' :: q, f => by
    simp only [insert, get]
    rw [getCh_insertCh cs s rest s' q f]
    simp
  where getCh_insertCh : ∀ (cs : List (α × Node α β)) (s : α) (rest : List α) (s' : α) (q : List α) (f : β),
    getCh cmp (insertCh cmp cs s rest f) s' q = if s' = s ∧ q = rest then some f else getCh cmp cs s' q
  | [], s, rest, s', q, f => by
    simp only [insertCh, getCh]
    cases h : cmp s s' with
    | lt => have : s' ≠ s := by rintro rfl; simp [ReflCmp.compare_self] at h
            simp [this]
    | eq => have := LawfulEqCmp.eq_of_compare h; subst this; simp [chain_get]
    | gt => have : s' ≠ s := by rintro rfl; simp [ReflCmp.compare_self] at h
            simp [this]
  | (k, n) :: cs, s, rest, s', q, f => by
    simp only [insertCh]
    cases h : cmp k s with
    | lt =>
      simp only [getCh]
      cases h' : cmp k s' with
      | lt => simp only; exact getCh_insertCh cs s rest s' q f
      | eq => have := LawfulEqCmp.eq_of_compare h'; subst this
              have : k ≠ s := by rintro rfl; simp [ReflCmp.compare_self] at h
              simp [this]
      | gt => have : s' ≠ s := by rintro rfl; simp [h] at h'
              simp [this]
    | eq =>
      have := LawfulEqCmp.eq_of_compare h; subst this
      simp only [getCh]
      cases h' : cmp k s' with
      | lt => have : s' ≠ k := by rintro rfl; simp [ReflCmp.compare_self] at h'
              simp [this]
      | eq => have := LawfulEqCmp.eq_of_compare h'; subst this
              simp [get_insert n rest q f]
      | gt => have : s' ≠ k := by rintro rfl; simp [ReflCmp.compare_self] at h'
              simp [this]
    | gt =>
      simp only [getCh]
      cases h' : cmp s s' with
      | lt => have : s' ≠ s := by rintro rfl; simp [ReflCmp.compare_self] at h'
              simp [this]
      | eq => have := LawfulEqCmp.eq_of_compare h'; subst this
              simp [chain_get, h]
      | gt => have : s' ≠ s := by rintro rfl; simp [ReflCmp.compare_self] at h'
              have h1 : cmp s' s = .lt := by rw [OrientedCmp.eq_swap (cmp := cmp)]; simp [h']
              have h2 : cmp s k = .lt := by rw [OrientedCmp.eq_swap (cmp := cmp)]; simp [h]
              have h3 : cmp k s' = .gt := by
                rw [OrientedCmp.eq_swap (cmp := cmp)]; simp [TransCmp.lt_trans h1 h2]
              simp [this, h3]

theorem chain_sorted (p : List α) (f : β) : Sorted cmp (chain p f) := by
  induction p with
  | nil => simp [chain, Sorted, SortedCh]
  | cons s rest ih => simp [chain, Sorted, SortedCh, ih]

theorem insertCh_keys [TransCmp cmp] [LawfulEqCmp cmp] (cs : List (α × Node α β)) (s : α) (rest : List α) (f : β) :
    ∀ p ∈ insertCh cmp cs s rest f, p.1 = s ∨ ∃ p' ∈ cs, p'.1 = p.1 := by
  induction cs with
  | nil => simp [insertCh]
  | cons kn cs ih =>
    obtain ⟨k, n⟩ := kn
    simp only [insertCh]
    cases h : cmp k s with
    | lt => 
      simp only [List.mem_cons]
      rintro p (rfl | hp)
      · right; exact ⟨(k, n), by simp, rfl⟩
      · rcases ih p hp with h1 | ⟨p', hp', e⟩
        · left; exact h1
        · right; exact ⟨p', by simp [hp'], e⟩
    | eq => 
      have := LawfulEqCmp.eq_of_compare h; subst this
      simp only [List.mem_cons]
      rintro p (rfl | hp)
      · left; rfl
      · right; exact ⟨p, by simp [hp], rfl⟩
    | gt => 
      simp only [List.mem_cons]
      rintro p (rfl | rfl | hp)
      · left; rfl
      · right; exact ⟨(k, n), by simp, rfl⟩
      · right; exact ⟨p, by simp [hp], rfl⟩

theorem sorted_insert [TransCmp cmp] [LawfulEqCmp cmp] : ∀ (n : Node α β) (p : List α) (f : β),
    Sorted cmp n → Sorted cmp (insert cmp n p f)
  | .mk l cs, [], f, h => by simpa [insert, Sorted] using h
  | .mk l cs, s :: rest, f, h => by
    simp only [insert, Sorted] at h ⊢
    exact sortedCh_insertCh cs s rest f h
  where sortedCh_insertCh : ∀ (cs : List (α × Node α β)) (s : α) (rest : List α) (f : β),
    SortedCh cmp cs → SortedCh cmp (insertCh cmp cs s rest f)
  | [], s, rest, f, _ => by simp [insertCh, SortedCh, chain_sorted]
  | (k, n) :: cs, s, rest, f, h => by
    simp only [SortedCh] at h
    obtain ⟨hn, hk, hcs⟩ := h
    simp only [insertCh]
    cases hc : cmp k s with
    | lt =>
      simp only [SortedCh]
      refine ⟨hn, ?_, sortedCh_insertCh cs s rest f hcs⟩
      intro p hp
      rcases insertCh_keys cmp cs s rest f p hp with h1 | ⟨p', hp', e⟩
      · rw [h1]; exact hc
      · rw [← e]; exact hk p' hp'
    | eq =>
      simp only [SortedCh]
      exact ⟨sorted_insert n rest f hn, hk, hcs⟩
    | gt =>
      have h2 : cmp s k = .lt := by rw [OrientedCmp.eq_swap (cmp := cmp)]; simp [hc]
      simp only [SortedCh]
      refine ⟨chain_sorted cmp rest f, ?_, hn, hk, hcs⟩
      intro p hp
      simp only [List.mem_cons] at hp
      rcases hp with rfl | hp
      · exact h2
      · exact TransCmp.lt_trans h2 (hk p hp)

theorem empty_sorted : Sorted cmp (empty : Node α β) := by simp [empty, Sorted, SortedCh]

theorem get_empty (q : List α) : get cmp (empty : Node α β) q = none := by
  cases q <;> simp [empty, get, getCh]

end Node

/-! ### Registrations -/

/-- The payload of the last registration of exactly path `p` (later registrations overwrite). -/
def lastReg [DecidableEq α] : List (List α × β) → List α → Option β
  | [], _ => none
  | (p', f) :: rest, p => (lastReg rest p).or (if p' = p then some f else none)

theorem get_foldl_insert (cmp : α → α → Ordering) [TransCmp cmp] [LawfulEqCmp cmp] [DecidableEq α]
    (regs : List (List α × β)) (n : Node α β) (p : List α) :
    Node.get cmp (regs.foldl (fun n r => Node.insert cmp n r.1 r.2) n) p = (lastReg regs p).or (Node.get cmp n p) := by
  induction regs generalizing n with
  | nil => simp [lastReg]
  | cons r rest ih =>
    obtain ⟨p', f⟩ := r
    simp only [List.foldl_cons, ih, Node.get_insert, lastReg]
    by_cases h : p = p'
    · subst h; simp
    · have : ¬ p' = p := fun e => h e.symm
      simp [h, this]

theorem sorted_foldl_insert (cmp : α → α → Ordering) [TransCmp cmp] [LawfulEqCmp cmp]
    (regs : List (List α × β)) (n : Node α β) (h : Node.Sorted cmp n) :
    Node.Sorted cmp (regs.foldl (fun n r => Node.insert cmp n r.1 r.2) n) := by
  induction regs generalizing n with
  | nil => simpa
  | cons r rest ih => exact ih _ (Node.sorted_insert cmp n r.1 r.2 h)


/-! ### Segments vs. text: `::` boundaries -/

def ColonFree (s : List Char) : Prop := ∀ c ∈ s, c ≠ ':'

theorem splitColons_cons_ne (c : Char) (rest cur : List Char) (hc : c ≠ ':') :
    splitColons (c :: rest) cur = splitColons rest (c :: cur) := by
  rw [splitColons.eq_def]
  split
  · simp at *
  · rename_i heq; simp at heq; exact absurd heq.1 hc
  · rename_i heq; simp at heq; obtain ⟨rfl, rfl⟩ := heq; rfl

theorem splitColons_sep (rest cur : List Char) :
    splitColons (':' :: ':' :: rest) cur = cur.reverse :: splitColons rest [] := by
  rw [splitColons]

/-- splitting `seg ++ tail` where `seg` has no colon just accumulates `seg` -/
theorem splitColons_append (seg tail cur : List Char) (h : ColonFree seg) :
    splitColons (seg ++ tail) cur = splitColons tail (seg.reverse ++ cur) := by
  induction seg generalizing cur with
  | nil => simp
  | cons c rest ih =>
    have hc : c ≠ ':' := h c (by simp)
    have hr : ColonFree rest := fun d hd => h d (by simp [hd])
    simp only [List.cons_append]
    rw [splitColons_cons_ne _ _ _ hc, ih _ hr]; simp

/-- **`segments` inverts joining**: splitting the `::`-join of colon-free segments returns them. -/
theorem splitColons_join (segs : List (List Char)) (hne : segs ≠ []) (h : ∀ s ∈ segs, ColonFree s) :
    splitColons (joinSegs segs) [] = segs := by
  induction segs with
  | nil => exact absurd rfl hne
  | cons s rest ih =>
    cases rest with
    | nil =>
      have := splitColons_append s [] [] (h s (by simp))
      simpa [joinSegs, splitColons] using this
    | cons t rest =>
      simp only [joinSegs]
      rw [splitColons_append s _ [] (h s (by simp)), splitColons_sep]
      rw [ih (by simp) (fun x hx => h x (by simp [hx]))]
      simp

/-- `parent` followed by nothing or by something starting with `::` -/
def IsChild (child parent : List Char) : Prop :=
  ∃ r, child = parent ++ r ∧ (r = [] ∨ ∃ r', r = ':' :: ':' :: r')

theorem isChildOf_iff (child parent : List Char) : isChildOf child parent = true ↔ IsChild child parent := by
  unfold isChildOf IsChild
  simp only [Bool.and_eq_true, Bool.or_eq_true, List.isEmpty_iff, beq_iff_eq]
  constructor
  · rintro ⟨hp, hr⟩
    obtain ⟨r, rfl⟩ := List.isPrefixOf_iff_prefix.mp hp
    refine ⟨r, rfl, ?_⟩
    simp only [List.drop_left] at hr
    rcases hr with h | h
    · exact Or.inl h
    · right
      match r, h with
      | a :: b :: r', h => simp at h; exact ⟨r', by rw [h.1, h.2]⟩
      | [a], h => simp at h
      | [], h => simp at h
  · rintro ⟨r, rfl, hr⟩
    refine ⟨List.isPrefixOf_iff_prefix.mpr ⟨r, rfl⟩, ?_⟩
    simp only [List.drop_left]
    rcases hr with rfl | ⟨r', rfl⟩
    · exact Or.inl rfl
    · right; simp

/-- `x` is empty or starts with a colon -/
def ColonStart (x : List Char) : Prop := x = [] ∨ ∃ t, x = ':' :: t

theorem colonFree_split_unique : ∀ (a b x y : List Char), ColonFree a → ColonFree b → ColonStart x → ColonStart y →
    a ++ x = b ++ y → a = b ∧ x = y
  | [], [], x, y, _, _, _, _, h => ⟨rfl, by simpa using h⟩
  | [], c :: b, x, y, _, hb, hx, _, h => by
    have hc : c ≠ ':' := hb c (by simp)
    rcases hx with rfl | ⟨t, rfl⟩
    · simp at h
    · simp at h; exact absurd h.1.symm hc
  | c :: a, [], x, y, ha, _, _, hy, h => by
    have hc : c ≠ ':' := ha c (by simp)
    rcases hy with rfl | ⟨t, rfl⟩
    · simp at h
    · simp at h; exact absurd h.1 hc
  | c :: a, d :: b, x, y, ha, hb, hx, hy, h => by
    simp only [List.cons_append, List.cons.injEq] at h
    obtain ⟨rfl, h⟩ := h
    obtain ⟨rfl, rfl⟩ := colonFree_split_unique a b x y (fun e he => ha e (by simp [he])) (fun e he => hb e (by simp [he])) hx hy h
    exact ⟨rfl, rfl⟩

/-- the part of a join after the first segment -/
def tailJoin : List (List Char) → List Char
  | [] => []
  | t :: rest => ':' :: ':' :: joinSegs (t :: rest)

theorem joinSegs_cons (s : List Char) (rest : List (List Char)) : joinSegs (s :: rest) = s ++ tailJoin rest := by
  cases rest <;> simp [joinSegs, tailJoin]

theorem tailJoin_colonStart (l : List (List Char)) : ColonStart (tailJoin l) := by
  cases l with
  | nil => exact Or.inl rfl
  | cons t r => exact Or.inr ⟨_, rfl⟩

theorem joinSegs_append (ps ext : List (List Char)) (hp : ps ≠ []) :
    joinSegs (ps ++ ext) = joinSegs ps ++ tailJoin ext := by
  induction ps with
  | nil => exact absurd rfl hp
  | cons p ps ih =>
    cases ps with
    | nil => simp [joinSegs_cons, joinSegs]
    | cons q ps =>
      rw [List.cons_append, joinSegs_cons, joinSegs_cons p]
      have := ih (by simp)
      simp only [tailJoin, List.cons_append] at this ⊢
      rw [this]; simp

/-- **Segment prefixes are exactly ancestors at `::` boundaries.** For paths made of colon-free segments,
    the registered path `ps` is a segment-wise prefix of the module `ms` iff the module's text is the path's text
    followed by nothing or by `::…` — i.e. `Path::is_child_of`. (`aa::b` is not a child of `a`.) -/
theorem prefix_iff_child : ∀ (ps ms : List (List Char)), ps ≠ [] → ms ≠ [] →
    (∀ s ∈ ps, ColonFree s) → (∀ s ∈ ms, ColonFree s) →
    (IsChild (joinSegs ms) (joinSegs ps) ↔ ps <+: ms)
  | [], _, h, _, _, _ => absurd rfl h
  | _, [], _, h, _, _ => absurd rfl h
  | p :: ps, m :: ms, _, _, hps, hms => by
    constructor
    · rintro ⟨r, hr, hrs⟩
      rw [joinSegs_cons, joinSegs_cons, List.append_assoc] at hr
      have hx : ColonStart (tailJoin ps ++ r) := by
        cases ps with
        | nil =>
          rcases hrs with rfl | ⟨r', rfl⟩
          · exact Or.inl rfl
          · exact Or.inr ⟨_, rfl⟩
        | cons q ps => exact Or.inr ⟨_, rfl⟩
      obtain ⟨rfl, h2⟩ := colonFree_split_unique m p _ _ (hms m (by simp)) (hps p (by simp))
        (tailJoin_colonStart ms) hx hr
      cases ps with
      | nil => exact ⟨ms, rfl⟩
      | cons q ps =>
        cases ms with
        | nil => simp [tailJoin] at h2
        | cons n ms =>
          simp only [tailJoin, List.cons_append, List.cons.injEq, true_and] at h2
          have ih := (prefix_iff_child (q :: ps) (n :: ms) (by simp) (by simp)
            (fun s hs => hps s (by simp [hs])) (fun s hs => hms s (by simp [hs]))).mp ⟨r, h2, hrs⟩
          obtain ⟨ext, hext⟩ := ih
          exact ⟨ext, by rw [List.cons_append, hext]⟩
    · rintro ⟨ext, hext⟩
      rw [← hext, joinSegs_append _ _ (by simp)]
      refine ⟨tailJoin ext, rfl, ?_⟩
      cases ext with
      | nil => exact Or.inl rfl
      | cons t r => exact Or.inr ⟨_, rfl⟩

end EmitModel.Level
