/-
  Lemmas/FileSetWalk.lean — every function of the worker model is a sequence of `FsStep`s (for all fault plans),
  with the facts about its result that the property theorems need.
-/
import EmitModel.Lemmas.FileSetRel

namespace EmitModel.FileSet

def R.st {α : Type} : R α → St
  | .ok _ s => s
  | .err s => s
  | .crash s => s

section
variable {cfg : Config} {E : List Nat → Prop} {c : Nat} {N : List Nat → Prop}

/-! ### primitive calls -/

theorem steps_tick (s : St) : FsSteps cfg E c N s s.tick :=
  .single (.idle rfl rfl id)

theorem steps_crashed (s : St) (lose : List Nat) (d : Bool) : FsSteps cfg E c N s (s.crashed lose d) :=
  .single (.crash lose d rfl rfl rfl)

theorem simpleOp_steps {α : Type} (plan : Nat → Fault) (s : St) (act : St → R α)
    (hact : FsSteps cfg E c N s.tick (act s.tick).st) : FsSteps cfg E c N s (simpleOp plan s act).st := by
  unfold simpleOp
  split
  · exact (steps_tick s).trans hact
  · exact steps_tick s
  · exact steps_tick s
  · exact steps_crashed s _ _

theorem createDirAll_steps (plan : Nat → Fault) (s : St) : FsSteps cfg E c N s (createDirAll plan s).st :=
  simpleOp_steps plan s _ (.refl _)

theorem readDir_steps (plan : Nat → Fault) (s : St) : FsSteps cfg E c N s (readDir plan s).st :=
  simpleOp_steps plan s _ (.refl _)

theorem flushFile_steps (plan : Nat → Fault) (s : St) : FsSteps cfg E c N s (flushFile plan s).st :=
  simpleOp_steps plan s _ (.refl _)

theorem fileLen_steps (plan : Nat → Fault) (n : List Nat) (s : St) : FsSteps cfg E c N s (fileLen plan n s).st := by
  refine simpleOp_steps plan s _ ?_
  split <;> exact .refl _

theorem openNew_steps (plan : Nat → Fault) {n : List Nat} (hm : Mem cfg n) (hN : N n) (s : St) :
    FsSteps cfg E c N s (openNew plan n s).st := by
  refine simpleOp_steps plan s _ ?_
  split
  · exact .refl _
  · rename_i hnone
    exact .single (.create n hm hN hnone rfl rfl id)

theorem syncParent_steps (plan : Nat → Fault) (s : St) : FsSteps cfg E c N s (syncParent plan s).st :=
  simpleOp_steps plan s _ (.single (.syncParent rfl rfl id))

theorem openExisting_steps (plan : Nat → Fault) {n : List Nat} (hm : Mem cfg n) (s : St) :
    FsSteps cfg E c N s (openExisting plan n s).st := by
  refine simpleOp_steps plan s _ ?_
  split
  · exact .single (.opened n hm rfl rfl id)
  · exact .refl _

theorem syncAll_steps (plan : Nat → Fault) {n : List Nat} (hm : Mem cfg n) (s : St) :
    FsSteps cfg E c N s (syncAll plan n s).st := by
  refine simpleOp_steps plan s _ ?_
  split
  · rename_i f hget
    exact .single (.syncAll n f hm hget rfl rfl id)
  · exact .refl _

theorem removeFile_steps (plan : Nat → Fault) {n : List Nat} (hm : Mem cfg n) (s : St) :
    FsSteps cfg E c N s (removeFile plan n s).st := by
  refine simpleOp_steps plan s _ ?_
  split
  · rename_i f hget
    exact .single (.remove n hm (by rw [hget]; simp) rfl rfl id)
  · exact .refl _

/-- Writing the (single-byte) separator. -/
theorem writeSep_steps (plan : Nat → Fault) {n : List Nat} (hm : Mem cfg n) (s : St) :
    FsSteps cfg E c N s (writeAll plan n [c] s).st := by
  unfold writeAll
  simp only [List.cons_ne_nil, if_false, List.length_singleton]
  split
  · exact .single (.appendSep n hm rfl rfl id)
  · exact steps_tick s
  · rename_i k _
    have hk : k % 1 = 0 := Nat.mod_one k
    refine .single (.idle ?_ rfl ?_)
    · simp [R.st, St.tick, hk, appendBytes_nil]
    · simp [R.st, St.tick, hk]
  · rename_i w lose d _
    have hw : w % (1 + 1) = 0 ∨ w % (1 + 1) = 1 := by omega
    rcases hw with hw | hw
    · refine .single (.crash lose d ?_ rfl rfl)
      simp [R.st, St.crashed, hw, appendBytes_nil]
    · refine FsSteps.tail (s' := { s with fs := appendBytes s.fs n [c] }) (.single (.appendSep n hm rfl rfl id)) ?_
      refine .crash lose d ?_ rfl rfl
      simp [R.st, St.crashed, hw]

/-- Writing an event buffer after clean content. -/
theorem writeEvt_steps (plan : Nat → Fault) {n e : List Nat} (hm : Mem cfg n) (he : E e) (s : St)
    (hclean : CleanAt E c s n) : FsSteps cfg E c N s (writeAll plan n e s).st := by
  unfold writeAll
  split
  · exact .refl _
  · rename_i hne
    have hlen : 0 < e.length := by cases e <;> simp_all
    split
    · exact .single (.appendEvt n e hm he hclean rfl rfl id)
    · exact steps_tick s
    · rename_i k _
      by_cases hk : k % e.length = 0
      · refine .single (.idle ?_ rfl ?_)
        · simp [R.st, St.tick, hk, appendBytes_nil]
        · simp [R.st, St.tick, hk]
      · have hlt : k % e.length < e.length := Nat.mod_lt _ hlen
        refine .single (.appendTrunc n (e.take (k % e.length)) hm (isTrunc_take_event he (by omega) hlt) hclean
          rfl rfl ?_)
        simp [R.st, St.tick]; omega
    · rename_i w lose d _
      have hle : w % (e.length + 1) < e.length + 1 := Nat.mod_lt _ (by omega)
      by_cases hk : w % (e.length + 1) = 0
      · refine .single (.crash lose d ?_ rfl rfl)
        simp [R.st, St.crashed, hk, appendBytes_nil]
      · by_cases hfull : w % (e.length + 1) = e.length
        · refine FsSteps.tail (s' := { s with fs := appendBytes s.fs n e })
            (.single (.appendEvt n e hm he hclean rfl rfl id)) ?_
          refine .crash lose d ?_ rfl rfl
          simp [R.st, St.crashed, hfull]
        · refine FsSteps.tail
            (s' := { s with fs := appendBytes s.fs n (e.take (w % (e.length + 1))), faulted := true })
            (.single (.appendTrunc n _ hm (isTrunc_take_event he (by omega) (by omega)) hclean rfl rfl rfl)) ?_
          refine .crash lose d ?_ rfl rfl
          simp [R.st, St.crashed]

/-! ### what a successful primitive call did (inversions) -/

theorem simpleOp_ok {α : Type} {plan : Nat → Fault} {s s' : St} {act : St → R α} {a : α}
    (h : simpleOp plan s act = .ok a s') : act s.tick = .ok a s' := by
  unfold simpleOp at h
  split at h <;> first | exact h | cases h

theorem openNew_ok {plan : Nat → Fault} {n : List Nat} {s s' : St} (h : openNew plan n s = .ok () s') :
    fsGet s.fs n = none ∧ s'.fs = s.fs ++ [(n, newFile)] ∧ s'.faulted = s.faulted := by
  have := simpleOp_ok h
  split at this
  · cases this
  · rename_i hnone
    cases this
    exact ⟨hnone, rfl, rfl⟩

theorem syncParent_ok {plan : Nat → Fault} {s s' : St} (h : syncParent plan s = .ok () s') :
    s'.fs = s.fs.map (fun e => (e.1, e.2.setDurable)) ∧ s'.faulted = s.faulted := by
  have := simpleOp_ok h
  cases this
  exact ⟨rfl, rfl⟩

theorem openExisting_ok {plan : Nat → Fault} {n : List Nat} {s s' : St} (h : openExisting plan n s = .ok () s') :
    (∃ f, fsGet s.fs n = some f) ∧ s'.fs = s.fs ∧ s'.faulted = s.faulted := by
  have := simpleOp_ok h
  split at this
  · rename_i f hget
    cases this
    exact ⟨⟨f, hget⟩, rfl, rfl⟩
  · cases this

theorem fileLen_ok {plan : Nat → Fault} {n : List Nat} {s s' : St} {l : Nat} (h : fileLen plan n s = .ok l s') :
    s'.fs = s.fs ∧ s'.faulted = s.faulted := by
  have := simpleOp_ok h
  split at this
  · cases this; exact ⟨rfl, rfl⟩
  · cases this

theorem flushFile_ok {plan : Nat → Fault} {s s' : St} (h : flushFile plan s = .ok () s') :
    s'.fs = s.fs ∧ s'.faulted = s.faulted ∧ s'.active = s.active := by
  have := simpleOp_ok h
  cases this
  exact ⟨rfl, rfl, rfl⟩

theorem syncAll_ok {plan : Nat → Fault} {n : List Nat} {s s' : St} (h : syncAll plan n s = .ok () s') :
    s'.faulted = s.faulted ∧ s'.active = s.active ∧
      ((∃ f, fsGet s.fs n = some f ∧ s'.fs = fsSet s.fs n f.syncedAll) ∨ (fsGet s.fs n = none ∧ s'.fs = s.fs)) := by
  have := simpleOp_ok h
  split at this
  · rename_i f hget
    cases this
    exact ⟨rfl, rfl, .inl ⟨f, hget, rfl⟩⟩
  · rename_i hnone
    cases this
    exact ⟨rfl, rfl, .inr ⟨hnone, rfl⟩⟩

theorem writeAll_ok {plan : Nat → Fault} {n buf : List Nat} {s s' : St} (h : writeAll plan n buf s = .ok () s') :
    s'.fs = appendBytes s.fs n buf ∧ s'.faulted = s.faulted ∧ s'.active = s.active := by
  unfold writeAll at h
  split at h
  · rename_i hnil
    cases h; subst hnil
    exact ⟨(appendBytes_nil _ _).symm, rfl, rfl⟩
  · split at h
    · cases h; exact ⟨rfl, rfl, rfl⟩
    · cases h
    · cases h
    · cases h

/-! ### the active-file slot is only ever emptied by filesystem calls -/

theorem simpleOp_active {α : Type} (plan : Nat → Fault) (s : St) (act : St → R α)
    (hact : (act s.tick).st.active = none) (h : s.active = none) : (simpleOp plan s act).st.active = none := by
  unfold simpleOp
  split <;> simp_all [R.st, St.tick, St.crashed]

theorem createDirAll_active (plan : Nat → Fault) {s : St} (h : s.active = none) :
    (createDirAll plan s).st.active = none :=
  simpleOp_active plan s _ (by simpa [R.st, St.tick] using h) h

theorem readDir_active (plan : Nat → Fault) {s : St} (h : s.active = none) : (readDir plan s).st.active = none :=
  simpleOp_active plan s _ (by simpa [R.st, St.tick] using h) h

theorem flushFile_active (plan : Nat → Fault) {s : St} (h : s.active = none) : (flushFile plan s).st.active = none :=
  simpleOp_active plan s _ (by simpa [R.st, St.tick] using h) h

theorem fileLen_active (plan : Nat → Fault) (n : List Nat) {s : St} (h : s.active = none) :
    (fileLen plan n s).st.active = none :=
  simpleOp_active plan s _ (by split <;> simpa [R.st, St.tick] using h) h

theorem openNew_active (plan : Nat → Fault) (n : List Nat) {s : St} (h : s.active = none) :
    (openNew plan n s).st.active = none :=
  simpleOp_active plan s _ (by split <;> simpa [R.st, St.tick] using h) h

theorem syncParent_active (plan : Nat → Fault) {s : St} (h : s.active = none) :
    (syncParent plan s).st.active = none :=
  simpleOp_active plan s _ (by simpa [R.st, St.tick] using h) h

theorem openExisting_active (plan : Nat → Fault) (n : List Nat) {s : St} (h : s.active = none) :
    (openExisting plan n s).st.active = none :=
  simpleOp_active plan s _ (by split <;> simpa [R.st, St.tick] using h) h

theorem syncAll_active (plan : Nat → Fault) (n : List Nat) {s : St} (h : s.active = none) :
    (syncAll plan n s).st.active = none :=
  simpleOp_active plan s _ (by split <;> simpa [R.st, St.tick] using h) h

theorem removeFile_active (plan : Nat → Fault) (n : List Nat) {s : St} (h : s.active = none) :
    (removeFile plan n s).st.active = none :=
  simpleOp_active plan s _ (by split <;> simpa [R.st, St.tick] using h) h

theorem writeAll_active (plan : Nat → Fault) (n buf : List Nat) {s : St} (h : s.active = none) :
    (writeAll plan n buf s).st.active = none := by
  unfold writeAll
  split
  · simpa [R.st] using h
  · split <;> simp_all [R.st, St.tick, St.crashed]

/-! ### listing, retention, opening -/

theorem readSet_steps (plan : Nat → Fault) (s : St) : FsSteps cfg E c N s (readSet cfg plan s).st := by
  have := readDir_steps (cfg := cfg) (E := E) (c := c) (N := N) plan s
  unfold readSet
  cases h : readDir plan s <;> simp only [h, R.st] at this ⊢ <;> exact this

theorem readSet_active (plan : Nat → Fault) {s : St} (hs : s.active = none) :
    (readSet cfg plan s).st.active = none := by
  have := readDir_active plan hs
  unfold readSet
  cases h : readDir plan s <;> simp only [h, R.st] at this ⊢ <;> exact this

theorem readSet_mem {plan : Nat → Fault} {s s' : St} {set : List (List Nat)}
    (h : readSet cfg plan s = .ok set s') : ∀ n ∈ set, Mem cfg n := by
  unfold readSet at h
  cases hr : readDir plan s with
  | ok names s1 =>
    simp only [hr] at h
    cases h
    intro n hn
    have := mem_sortDesc.mp hn
    exact (List.mem_filter.mp this).2
  | err s1 => simp only [hr] at h; cases h; intro n hn; cases hn
  | crash s1 => simp only [hr] at h; cases h

theorem removeAll_steps (plan : Nat → Fault) (vs : List (List Nat)) (hv : ∀ n ∈ vs, Mem cfg n) (s : St) :
    FsSteps cfg E c N s (removeAll plan vs s).st := by
  induction vs generalizing s with
  | nil => exact .refl _
  | cons n ns ih =>
    have h1 := removeFile_steps (cfg := cfg) (E := E) (c := c) (N := N) plan (hv n (by simp)) s
    have ih' := fun s => ih (fun m hm => hv m (by simp [hm])) s
    unfold removeAll
    cases h : removeFile plan n s with
    | ok u s1 => simp only [h, R.st] at h1 ⊢; exact h1.trans (ih' s1)
    | err s1 => simp only [h, R.st] at h1 ⊢; exact h1.trans (ih' s1)
    | crash s1 => simp only [h, R.st] at h1 ⊢; exact h1

theorem removeAll_active (plan : Nat → Fault) (vs : List (List Nat)) {s : St} (hs : s.active = none) :
    (removeAll plan vs s).st.active = none := by
  induction vs generalizing s with
  | nil => simpa [removeAll, R.st] using hs
  | cons n ns ih =>
    have h1 := removeFile_active plan n hs
    unfold removeAll
    cases h : removeFile plan n s with
    | ok u s1 => simp only [h, R.st] at h1 ⊢; exact ih h1
    | err s1 => simp only [h, R.st] at h1 ⊢; exact ih h1
    | crash s1 => simp only [h, R.st] at h1 ⊢; exact h1

theorem victims_mem {keep : Nat} {set : List (List Nat)} (h : ∀ n ∈ set, Mem cfg n) :
    ∀ n ∈ victims keep set, Mem cfg n := by
  intro n hn
  simp only [victims, List.mem_reverse] at hn
  exact h n (List.mem_of_mem_drop hn)

theorem tryOpenReuse_steps (plan : Nat → Fault) (n : List Nat) (s : St) :
    FsSteps cfg E c N s (tryOpenReuse cfg plan n s).st := by
  unfold tryOpenReuse
  split
  · exact .refl _
  · rename_i ts hts
    have hm : Mem cfg n := by simp [Mem, isMember, hts]
    have h1 := openExisting_steps (cfg := cfg) (E := E) (c := c) (N := N) plan hm s
    cases h : openExisting plan n s with
    | err s1 => simp only [h, R.st] at h1 ⊢; exact h1
    | crash s1 => simp only [h, R.st] at h1 ⊢; exact h1
    | ok u s1 =>
      simp only [h, R.st] at h1 ⊢
      have h2 := syncParent_steps (cfg := cfg) (E := E) (c := c) (N := N) plan s1
      cases h' : syncParent plan s1 with
      | err s2 => simp only [h', R.st] at h2 ⊢; exact h1.trans h2
      | crash s2 => simp only [h', R.st] at h2 ⊢; exact h1.trans h2
      | ok u s2 =>
        simp only [h', R.st] at h2 ⊢
        have h3 := fileLen_steps (cfg := cfg) (E := E) (c := c) (N := N) plan n s2
        cases h'' : fileLen plan n s2 with
        | err s3 => simp only [h'', R.st] at h3 ⊢; exact (h1.trans h2).trans h3
        | crash s3 => simp only [h'', R.st] at h3 ⊢; exact (h1.trans h2).trans h3
        | ok l s3 => simp only [h'', R.st] at h3 ⊢; exact (h1.trans h2).trans h3

theorem tryOpenReuse_active (plan : Nat → Fault) (n : List Nat) {s : St} (hs : s.active = none) :
    (tryOpenReuse cfg plan n s).st.active = none := by
  unfold tryOpenReuse
  split
  · simpa [R.st] using hs
  · have h1 := openExisting_active plan n hs
    cases h : openExisting plan n s with
    | err s1 => simp only [h, R.st] at h1 ⊢; exact h1
    | crash s1 => simp only [h, R.st] at h1 ⊢; exact h1
    | ok u s1 =>
      simp only [h, R.st] at h1 ⊢
      have h2 := syncParent_active plan h1
      cases h' : syncParent plan s1 with
      | err s2 => simp only [h', R.st] at h2 ⊢; exact h2
      | crash s2 => simp only [h', R.st] at h2 ⊢; exact h2
      | ok u s2 =>
        simp only [h', R.st] at h2 ⊢
        have h3 := fileLen_active plan n h2
        cases h'' : fileLen plan n s2 with
        | err s3 => simp only [h'', R.st] at h3 ⊢; exact h3
        | crash s3 => simp only [h'', R.st] at h3 ⊢; exact h3
        | ok l s3 => simp only [h'', R.st] at h3 ⊢; exact h3

/-- A reused file: a member, existing with a durable entry, flagged for recovery, its recorded size the real one. -/
theorem tryOpenReuse_ok {plan : Nat → Fault} {n : List Nat} {s s' : St} {a : Active}
    (h : tryOpenReuse cfg plan n s = .ok a s') :
    a.name = n ∧ Mem cfg n ∧ a.needsRecovery = true ∧ memberTs? cfg.pfx cfg.ext n = some a.ts ∧
      ∃ f, fsGet s'.fs n = some f ∧ f.durable = true ∧ a.size = f.content.length := by
  unfold tryOpenReuse at h
  split at h
  · cases h
  · rename_i ts hts
    have hm : Mem cfg n := by simp [Mem, isMember, hts]
    cases h1 : openExisting plan n s with
    | err s1 => simp only [h1] at h; cases h
    | crash s1 => simp only [h1] at h; cases h
    | ok u s1 =>
      simp only [h1] at h
      obtain ⟨⟨f, hf⟩, hfs1, _⟩ := openExisting_ok h1
      cases h2 : syncParent plan s1 with
      | err s2 => simp only [h2] at h; cases h
      | crash s2 => simp only [h2] at h; cases h
      | ok u s2 =>
        simp only [h2] at h
        obtain ⟨hfs2, _⟩ := syncParent_ok h2
        cases h3 : fileLen plan n s2 with
        | err s3 => simp only [h3] at h; cases h
        | crash s3 => simp only [h3] at h; cases h
        | ok l s3 =>
          simp only [h3] at h
          have hl := simpleOp_ok h3
          have hget2 : fsGet s2.fs n = some f.setDurable := by
            rw [hfs2, fsGet_map _ File.setDurable, hfs1, hf]; rfl
          have hget2' : fsGet s2.tick.fs n = some f.setDurable := hget2
          simp only [hget2'] at hl
          cases hl
          cases h
          exact ⟨rfl, hm, rfl, hts, f.setDurable, hget2, rfl, rfl⟩

theorem createFile_steps (plan : Nat → Fault) (now : Parts) (id : Nat) {set : List (List Nat)}
    (hN : N (nameFor cfg.pfx cfg.ext cfg.rollBy now id)) (hset : ∀ n ∈ set, Mem cfg n) (s : St) : FsSteps cfg E c N s (createFile cfg plan now id set s).st := by
  unfold createFile
  have h0 := removeAll_steps (cfg := cfg) (E := E) (c := c) (N := N) plan _ (victims_mem (keep := cfg.maxFiles - 1) hset) s
  cases h : removeAll plan (victims (cfg.maxFiles - 1) set) s with
  | err s1 => simp only [h, R.st] at h0 ⊢; exact h0
  | crash s1 => simp only [h, R.st] at h0 ⊢; exact h0
  | ok u s1 =>
    simp only [h, R.st] at h0 ⊢
    have hts := memberTs?_nameFor cfg.pfx cfg.ext cfg.rollBy now id
    simp only [hts]
    have hm : Mem cfg (nameFor cfg.pfx cfg.ext cfg.rollBy now id) := by simp [Mem, isMember, hts]
    have h1 := openNew_steps (cfg := cfg) (E := E) (c := c) (N := N) plan hm hN s1
    cases h' : openNew plan (nameFor cfg.pfx cfg.ext cfg.rollBy now id) s1 with
    | err s2 => simp only [h', R.st] at h1 ⊢; exact h0.trans h1
    | crash s2 => simp only [h', R.st] at h1 ⊢; exact h0.trans h1
    | ok u s2 =>
      simp only [h', R.st] at h1 ⊢
      have h2 := syncParent_steps (cfg := cfg) (E := E) (c := c) (N := N) plan s2
      cases h'' : syncParent plan s2 with
      | err s3 => simp only [h'', R.st] at h2 ⊢; exact (h0.trans h1).trans h2
      | crash s3 => simp only [h'', R.st] at h2 ⊢; exact (h0.trans h1).trans h2
      | ok u s3 => simp only [h'', R.st] at h2 ⊢; exact (h0.trans h1).trans h2

theorem createFile_active (plan : Nat → Fault) (now : Parts) (id : Nat) (set : List (List Nat)) {s : St}
    (hs : s.active = none) : (createFile cfg plan now id set s).st.active = none := by
  unfold createFile
  have h0 := removeAll_active plan (victims (cfg.maxFiles - 1) set) hs
  cases h : removeAll plan (victims (cfg.maxFiles - 1) set) s with
  | err s1 => simp only [h, R.st] at h0 ⊢; exact h0
  | crash s1 => simp only [h, R.st] at h0 ⊢; exact h0
  | ok u s1 =>
    simp only [h, R.st] at h0 ⊢
    have hts := memberTs?_nameFor cfg.pfx cfg.ext cfg.rollBy now id
    simp only [hts]
    have h1 := openNew_active plan (nameFor cfg.pfx cfg.ext cfg.rollBy now id) h0
    cases h' : openNew plan (nameFor cfg.pfx cfg.ext cfg.rollBy now id) s1 with
    | err s2 => simp only [h', R.st] at h1 ⊢; exact h1
    | crash s2 => simp only [h', R.st] at h1 ⊢; exact h1
    | ok u s2 =>
      simp only [h', R.st] at h1 ⊢
      have h2 := syncParent_active plan h1
      cases h'' : syncParent plan s2 with
      | err s3 => simp only [h'', R.st] at h2 ⊢; exact h2
      | crash s3 => simp only [h'', R.st] at h2 ⊢; exact h2
      | ok u s3 => simp only [h'', R.st] at h2 ⊢; exact h2

/-- A created file: named after the clock reading and the id, empty, its directory entry durable. -/
theorem createFile_ok {plan : Nat → Fault} {now : Parts} {id : Nat} {set : List (List Nat)} {s s' : St} {a : Active}
    (h : createFile cfg plan now id set s = .ok a s') :
    a = { name := nameFor cfg.pfx cfg.ext cfg.rollBy now id, ts := fileTs cfg.rollBy now, needsRecovery := false,
          size := 0 } ∧
      fsGet s'.fs a.name = some { synced := [], unsynced := [], durable := true } := by
  unfold createFile at h
  cases h0 : removeAll plan (victims (cfg.maxFiles - 1) set) s with
  | err s1 => simp only [h0] at h; cases h
  | crash s1 => simp only [h0] at h; cases h
  | ok u s1 =>
    simp only [h0] at h
    have hts := memberTs?_nameFor cfg.pfx cfg.ext cfg.rollBy now id
    simp only [hts] at h
    cases h1 : openNew plan (nameFor cfg.pfx cfg.ext cfg.rollBy now id) s1 with
    | err s2 => simp only [h1] at h; cases h
    | crash s2 => simp only [h1] at h; cases h
    | ok u s2 =>
      simp only [h1] at h
      obtain ⟨hnone, hfs2, _⟩ := openNew_ok h1
      cases h2 : syncParent plan s2 with
      | err s3 => simp only [h2] at h; cases h
      | crash s3 => simp only [h2] at h; cases h
      | ok u s3 =>
        simp only [h2] at h
        obtain ⟨hfs3, _⟩ := syncParent_ok h2
        cases h
        refine ⟨rfl, ?_⟩
        rw [hfs3, fsGet_map _ File.setDurable, hfs2, fsGet_append_of_none _ hnone]
        simp [fsGet, newFile, File.setDurable]

/-! ### choosing the file -/

/-- What the worker may assume about the file it holds: it is a member of the set, exists with a durable
    directory entry, its recorded size is the real one, and unless flagged for recovery its content ends on a
    record boundary. -/
def ActiveOk (cfg : Config) (E : List Nat → Prop) (c : Nat) (s : St) (a : Active) : Prop :=
  Mem cfg a.name ∧ (∃ f, fsGet s.fs a.name = some f ∧ f.durable = true ∧ a.size = f.content.length) ∧
    (a.needsRecovery = false → CleanAt E c s a.name)

theorem activeOk_of_createFile_ok {plan : Nat → Fault} {now : Parts} {id : Nat} {set : List (List Nat)} {s s' : St}
    {a : Active} (h : createFile cfg plan now id set s = .ok a s') : ActiveOk cfg E c s' a := by
  obtain ⟨ha, hget⟩ := createFile_ok h
  refine ⟨?_, ⟨_, hget, rfl, by subst ha; rfl⟩, ?_⟩
  · subst ha; simp [Mem, isMember, memberTs?_nameFor]
  · intro _ f hf
    rw [hget] at hf; cases hf
    exact .nil

theorem openOrCreate_spec (plan : Nat → Fault) (now : Parts) (id : Nat) (b : Batch) {set : List (List Nat)}
    (hN : N (nameFor cfg.pfx cfg.ext cfg.rollBy now id)) (hset : ∀ n ∈ set, Mem cfg n) {s : St} (hs : s.active = none) :
    FsSteps cfg E c N s (openOrCreate cfg plan now id b set s).st ∧
      (openOrCreate cfg plan now id b set s).st.active = none ∧
      ∀ a s', openOrCreate cfg plan now id b set s = .ok a s' → ActiveOk cfg E c s' a := by
  unfold openOrCreate
  split
  · exact ⟨createFile_steps plan now id hN hset s, createFile_active plan now id set hs,
      fun a s' h => activeOk_of_createFile_ok h⟩
  · rename_i n _
    have h1 := tryOpenReuse_steps (cfg := cfg) (E := E) (c := c) (N := N) plan n s
    have h2 := tryOpenReuse_active (cfg := cfg) plan n hs
    cases h : tryOpenReuse cfg plan n s with
    | crash s1 =>
      simp only [h, R.st] at h1 h2 ⊢
      exact ⟨h1, h2, fun a s' h => by cases h⟩
    | err s1 =>
      simp only [h, R.st] at h1 h2 ⊢
      exact ⟨h1.trans (createFile_steps plan now id hN hset s1), createFile_active plan now id set h2,
        fun a s' h => activeOk_of_createFile_ok h⟩
    | ok a1 s1 =>
      simp only [h, R.st] at h1 h2
      by_cases hfit : fits cfg now b a1 = true
      · simp only [hfit, if_true, R.st]
        refine ⟨h1, h2, ?_⟩
        intro a s' he
        cases he
        obtain ⟨hn, hm, hnr, _, f, hf, hd, hsz⟩ := tryOpenReuse_ok h
        refine ⟨by rw [hn]; exact hm, ⟨f, by rw [hn]; exact hf, hd, hsz⟩, ?_⟩
        intro hfalse; rw [hnr] at hfalse; cases hfalse
      · simp only [hfit]
        exact ⟨h1.trans (createFile_steps plan now id hN hset s1), createFile_active plan now id set h2,
          fun a s' h => activeOk_of_createFile_ok h⟩

theorem acquire_spec (plan : Nat → Fault) (now : Parts) (id : Nat) (b : Batch) (s : St)
    (hN : N (nameFor cfg.pfx cfg.ext cfg.rollBy now id)) (hact : ∀ a, s.active = some a → ActiveOk cfg E c s a) :
    FsSteps cfg E c N s (acquire cfg plan now id b s).st ∧ (acquire cfg plan now id b s).st.active = none ∧
      ∀ a s', acquire cfg plan now id b s = .ok a s' → ActiveOk cfg E c s' a := by
  have h0 : FsSteps cfg E c N s { s with active := none } := .single (.idle rfl rfl fun h => h)
  unfold acquire
  cases hs : s.active with
  | some a0 =>
    simp only []
    by_cases hfit : fits cfg now b a0 = true
    · simp only [hfit, if_true, R.st]
      refine ⟨h0, trivial, ?_⟩
      intro a s' he
      cases he
      exact hact a0 hs
    · simp only [hfit]
      have h1 := readSet_steps (cfg := cfg) (E := E) (c := c) (N := N) plan { s with active := none }
      have h2 := readSet_active (cfg := cfg) plan (s := { s with active := none }) rfl
      cases h : readSet cfg plan { s with active := none } with
      | err s1 => simp only [h, R.st] at h1 h2 ⊢; exact ⟨h0.trans h1, h2, fun a s' h => by cases h⟩
      | crash s1 => simp only [h, R.st] at h1 h2 ⊢; exact ⟨h0.trans h1, h2, fun a s' h => by cases h⟩
      | ok set s1 =>
        simp only [h, R.st] at h1 h2 ⊢
        exact ⟨(h0.trans h1).trans (createFile_steps plan now id hN (readSet_mem h) s1),
          createFile_active plan now id set h2, fun a s' h => activeOk_of_createFile_ok h⟩
  | none =>
    simp only []
    have h1 := createDirAll_steps (cfg := cfg) (E := E) (c := c) (N := N) plan { s with active := none }
    have h2 := createDirAll_active plan (s := { s with active := none }) rfl
    cases h : createDirAll plan { s with active := none } with
    | err s1 => simp only [h, R.st] at h1 h2 ⊢; exact ⟨h0.trans h1, h2, fun a s' h => by cases h⟩
    | crash s1 => simp only [h, R.st] at h1 h2 ⊢; exact ⟨h0.trans h1, h2, fun a s' h => by cases h⟩
    | ok u s1 =>
      simp only [h, R.st] at h1 h2 ⊢
      have h3 := readSet_steps (cfg := cfg) (E := E) (c := c) (N := N) plan s1
      have h4 := readSet_active (cfg := cfg) plan h2
      cases h' : readSet cfg plan s1 with
      | err s2 => simp only [h', R.st] at h3 h4 ⊢; exact ⟨(h0.trans h1).trans h3, h4, fun a s' h => by cases h⟩
      | crash s2 => simp only [h', R.st] at h3 h4 ⊢; exact ⟨(h0.trans h1).trans h3, h4, fun a s' h => by cases h⟩
      | ok set s2 =>
        simp only [h', R.st] at h3 h4 ⊢
        obtain ⟨k1, k2, k3⟩ := openOrCreate_spec (cfg := cfg) (E := E) (c := c) (N := N) plan now id b hN (readSet_mem h') h4
        exact ⟨((h0.trans h1).trans h3).trans k1, k2, k3⟩

/-! ### writing -/

theorem FsSteps.faulted_mono {s s' : St} (h : FsSteps cfg E c N s s') : s.faulted = true → s'.faulted = true := by
  induction h with
  | refl => exact fun h => h
  | tail _ hstep ih => exact fun h => hstep.faulted_mono (ih h)

/-- What a successful `write_event` did. -/
theorem writeEvent_ok {plan : Nat → Fault} {a a' : Active} {e : List Nat} {s s' : St}
    (h : writeEvent cfg plan a e s = .ok a' s') :
    s'.fs = appendBytes s.fs a.name ((if a.needsRecovery then cfg.sep else []) ++ e) ∧ s'.faulted = s.faulted ∧
      s'.active = s.active ∧ a'.name = a.name ∧ a'.needsRecovery = false ∧ a'.ts = a.ts ∧
      a'.size = a.size + ((if a.needsRecovery then cfg.sep else []) ++ e).length := by
  unfold writeEvent at h
  by_cases hnr : a.needsRecovery = true
  · simp only [hnr, if_true] at h ⊢
    cases h1 : writeAll plan a.name cfg.sep s with
    | err s1 => simp only [h1] at h; cases h
    | crash s1 => simp only [h1] at h; cases h
    | ok u s1 =>
      simp only [h1] at h
      obtain ⟨e1, e2, e3⟩ := writeAll_ok h1
      cases h2 : writeAll plan a.name e s1 with
      | err s2 => simp only [h2] at h; cases h
      | crash s2 => simp only [h2] at h; cases h
      | ok u s2 =>
        simp only [h2] at h
        obtain ⟨f1, f2, f3⟩ := writeAll_ok h2
        cases h
        refine ⟨?_, by rw [f2, e2], by rw [f3, e3], rfl, rfl, rfl, by simp [Nat.add_assoc]⟩
        rw [f1, e1, appendBytes_appendBytes]
  · simp only [hnr, Bool.false_eq_true, if_false, List.nil_append] at h ⊢
    cases h2 : writeAll plan a.name e s with
    | err s2 => simp only [h2] at h; cases h
    | crash s2 => simp only [h2] at h; cases h
    | ok u s2 =>
      simp only [h2] at h
      obtain ⟨f1, f2, f3⟩ := writeAll_ok h2
      cases h
      exact ⟨f1, f2, f3, rfl, rfl, rfl, rfl⟩

theorem writeEvent_active (plan : Nat → Fault) (a : Active) (e : List Nat) {s : St} (hs : s.active = none) :
    (writeEvent cfg plan a e s).st.active = none := by
  unfold writeEvent
  by_cases hnr : a.needsRecovery = true
  · simp only [hnr, if_true]
    have h1 := writeAll_active plan a.name cfg.sep hs
    cases h : writeAll plan a.name cfg.sep s with
    | err s1 => simp only [h, R.st] at h1 ⊢; exact h1
    | crash s1 => simp only [h, R.st] at h1 ⊢; exact h1
    | ok u s1 =>
      simp only [h, R.st] at h1 ⊢
      have h2 := writeAll_active plan a.name e h1
      cases h' : writeAll plan a.name e s1 <;> simp only [h', R.st] at h2 ⊢ <;> exact h2
  · simp only [hnr, Bool.false_eq_true, if_false]
    have h2 := writeAll_active plan a.name e hs
    cases h' : writeAll plan a.name e s <;> simp only [h', R.st] at h2 ⊢ <;> exact h2

/-- After the separator has gone in, the file is clean. -/
theorem cleanAt_after_sep {s s1 : St} {n : List Nat} (hm : Mem cfg n) (hg : GoodInv cfg E c s)
    (hfs : s1.fs = appendBytes s.fs n [c]) (hf : s1.faulted = s.faulted) : CleanAt E c s1 n := by
  intro f1 hget
  rw [hfs] at hget
  cases hget0 : fsGet s.fs n with
  | none => rw [appendBytes_of_none _ hget0, hget0] at hget; cases hget
  | some f =>
    rw [fsGet_appendBytes_same _ hget0] at hget
    cases hget
    rw [hf]
    have := (hg n f hget0 hm).append_sep
    simpa [File.content] using this

/-- Either the separator is the single byte `c` (the setting of the C10 theorems), or the event set is
    unconstrained (every byte string counts as an event: the content shape says nothing, which is all the C11
    theorems need, for any separator). -/
def SepOk (cfg : Config) (E : List Nat → Prop) (c : Nat) : Prop := cfg.sep = [c] ∨ ∀ x, E x

theorem clean_of_all (hall : ∀ x, E x) (t : Bool) (x : List Nat) : Clean E c t x := by
  have := Clean.evt (c := c) (t := t) .nil (hall x)
  simpa using this

theorem writeEvent_steps (hsep : SepOk cfg E c) (plan : Nat → Fault) {a : Active} {e : List Nat} {s : St}
    (he : E e) (hg : GoodInv cfg E c s) (ha : ActiveOk cfg E c s a) :
    FsSteps cfg E c N s (writeEvent cfg plan a e s).st := by
  obtain ⟨hm, _, hclean⟩ := ha
  unfold writeEvent
  by_cases hnr : a.needsRecovery = true
  · simp only [hnr, if_true]
    have h1 : FsSteps cfg E c N s (writeAll plan a.name cfg.sep s).st := by
      rcases hsep with hsep | hall
      · rw [hsep]; exact writeSep_steps plan hm s
      · exact writeEvt_steps plan hm (hall _) s (fun f _ => clean_of_all hall _ _)
    cases h : writeAll plan a.name cfg.sep s with
    | err s1 => simp only [h, R.st] at h1 ⊢; exact h1
    | crash s1 => simp only [h, R.st] at h1 ⊢; exact h1
    | ok u s1 =>
      simp only [h, R.st] at h1 ⊢
      obtain ⟨e1, e2, _⟩ := writeAll_ok h
      have hc1 : CleanAt E c s1 a.name := by
        rcases hsep with hsep | hall
        · exact cleanAt_after_sep hm hg (by rw [e1, hsep]) e2
        · exact fun f _ => clean_of_all hall _ _
      have h2 := writeEvt_steps (cfg := cfg) (N := N) plan hm he s1 hc1
      cases h' : writeAll plan a.name e s1 <;> simp only [h', R.st] at h2 ⊢ <;> exact h1.trans h2
  · simp only [hnr, Bool.false_eq_true, if_false]
    have h2 := writeEvt_steps (cfg := cfg) (N := N) plan hm he s (hclean (by simpa using hnr))
    cases h' : writeAll plan a.name e s <;> simp only [h', R.st] at h2 ⊢ <;> exact h2

/-- After a successful `write_event` the file is still fine and ends on a record boundary. -/
theorem writeEvent_post (hsep : SepOk cfg E c) {plan : Nat → Fault} {a a' : Active} {e : List Nat} {s s' : St}
    (he : E e) (hg : GoodInv cfg E c s) (ha : ActiveOk cfg E c s a)
    (h : writeEvent cfg plan a e s = .ok a' s') : ActiveOk cfg E c s' a' := by
  obtain ⟨hfs, hf, _, hn, hnr, _, hsize⟩ := writeEvent_ok h
  obtain ⟨hm, ⟨f, hget, hd, hsz⟩, hclean⟩ := ha
  unfold ActiveOk
  rw [hn]
  refine ⟨hm, ⟨{ f with unsynced := f.unsynced ++ ((if a.needsRecovery = true then cfg.sep else []) ++ e) },
    by rw [hfs]; exact fsGet_appendBytes_same _ hget, hd, ?_⟩, ?_⟩
  · rw [hsize, hsz]; simp [File.content, Nat.add_assoc]
  intro _ f' hget'
  rw [hfs, fsGet_appendBytes_same _ hget] at hget'
  cases hget'
  rw [hf]
  by_cases hrec : a.needsRecovery = true
  · rcases hsep with hsep | hall
    · have h1 := (hg a.name f hget hm).append_sep
      have := Clean.evt h1 he
      simpa [File.content, hrec, hsep] using this
    · exact clean_of_all hall _ _
  · have := Clean.evt (hclean (by simpa using hrec) f hget) he
    simpa [File.content, hrec] using this

theorem writeEvents_spec (hsep : SepOk cfg E c) (plan : Nat → Fault) (evs : List (List Nat)) :
    ∀ (a : Active) (b : Batch) (s : St), (∀ e ∈ evs, E e) → NamesNodup s → GoodInv cfg E c s →
      ActiveOk cfg E c s a →
      FsSteps cfg E c N s (writeEvents cfg plan a b s evs).2.2 ∧
        (s.active = none → (writeEvents cfg plan a b s evs).2.2.active = none) ∧
        (∀ a', (writeEvents cfg plan a b s evs).2.1 = some a' →
          ActiveOk cfg E c (writeEvents cfg plan a b s evs).2.2 a') := by
  induction evs with
  | nil =>
    intro a b s _ _ _ ha
    simp only [writeEvents]
    exact ⟨.refl _, fun h => h, fun a' h => by cases h; exact ha⟩
  | cons e rest ih =>
    intro a b s hE hn hg ha
    have he : E e := hE e (by simp)
    have h1 := writeEvent_steps (N := N) hsep plan he hg ha
    simp only [writeEvents]
    cases h : writeEvent cfg plan a e s with
    | err s1 =>
      simp only [h, R.st] at h1 ⊢
      refine ⟨h1, fun hs => ?_, fun a' h => by cases h⟩
      have := writeEvent_active (cfg := cfg) plan a e hs
      simpa [h, R.st] using this
    | crash s1 =>
      simp only [h, R.st] at h1 ⊢
      refine ⟨h1, fun hs => ?_, fun a' h => by cases h⟩
      have := writeEvent_active (cfg := cfg) plan a e hs
      simpa [h, R.st] using this
    | ok a1 s1 =>
      simp only [h, R.st] at h1 ⊢
      have hpost := writeEvent_post hsep he hg ha h
      obtain ⟨k1, k2, k3⟩ := ih a1 (b.advance e) s1 (fun x hx => hE x (by simp [hx])) (h1.nodup hn)
        (h1.goodInv hn hg) hpost
      refine ⟨h1.trans k1, fun hs => k2 ?_, k3⟩
      have := writeEvent_active (cfg := cfg) plan a e hs
      simpa [h, R.st] using this

/-! ### the invariant of the worker -/

structure Inv (cfg : Config) (E : List Nat → Prop) (c : Nat) (s : St) : Prop where
  nodup : NamesNodup s
  good : GoodInv cfg E c s
  active : ∀ a, s.active = some a → ActiveOk cfg E c s a

theorem activeOk_of_fs_eq {s s' : St} {a : Active} (hfs : s'.fs = s.fs) (hf : s'.faulted = s.faulted)
    (h : ActiveOk cfg E c s a) : ActiveOk cfg E c s' a := by
  obtain ⟨hm, hex, hclean⟩ := h
  refine ⟨hm, by rw [hfs]; exact hex, fun hnr f hget => ?_⟩
  rw [hf]; rw [hfs] at hget; exact hclean hnr f hget

theorem activeOk_after_syncAll {s s' : St} {a : Active} {f : File} (hget : fsGet s.fs a.name = some f)
    (hfs : s'.fs = fsSet s.fs a.name f.syncedAll) (hf : s'.faulted = s.faulted)
    (h : ActiveOk cfg E c s a) : ActiveOk cfg E c s' a := by
  obtain ⟨hm, ⟨g, hg, hd, hsz⟩, hclean⟩ := h
  rw [hget] at hg; cases hg
  refine ⟨hm, ⟨f.syncedAll, by rw [hfs, fsGet_fsSet_same], hd, by rw [hsz]; simp [File.content, File.syncedAll]⟩,
    fun hnr f' hget' => ?_⟩
  rw [hfs, fsGet_fsSet_same] at hget'
  cases hget'
  rw [hf]
  have := hclean hnr f hget
  simpa [File.content, File.syncedAll] using this

/-- `on_batch` is a sequence of filesystem steps, and leaves the worker's assumptions about its file intact. -/
theorem onBatch_spec (hsep : SepOk cfg E c) (plan : Nat → Fault) (now : Parts) (id : Nat) (b : Batch) (s : St)
    (hN : N (nameFor cfg.pfx cfg.ext cfg.rollBy now id)) (hE : ∀ e ∈ b.rest, E e) (hinv : Inv cfg E c s) :
    FsSteps cfg E c N s (onBatch cfg plan now id b s).2 ∧
      ∀ a, (onBatch cfg plan now id b s).2.active = some a → ActiveOk cfg E c (onBatch cfg plan now id b s).2 a := by
  obtain ⟨a1, a2, a3⟩ := acquire_spec (cfg := cfg) (E := E) (c := c) (N := N) plan now id b s hN hinv.active
  unfold onBatch
  cases h : acquire cfg plan now id b s with
  | err s1 =>
    simp only [h, R.st] at a1 a2 ⊢
    exact ⟨a1, fun a ha => by rw [a2] at ha; cases ha⟩
  | crash s1 =>
    simp only [h, R.st] at a1 a2 ⊢
    exact ⟨a1, fun a ha => by rw [a2] at ha; cases ha⟩
  | ok a s1 =>
    simp only [h, R.st] at a1 a2 ⊢
    have hok := a3 a s1 h
    obtain ⟨w1, w2, w3⟩ := writeEvents_spec hsep plan b.rest a b s1 hE (a1.nodup hinv.nodup)
      (a1.goodInv hinv.nodup hinv.good) hok
    have w2' := w2 a2
    generalize hw : writeEvents cfg plan a b s1 b.rest = w at w1 w2' w3
    obtain ⟨res, oa, s2⟩ := w
    simp only at w1 w2' w3
    cases res with
    | retry b' =>
      simp only [syncWritten]
      split
      · have f1 := flushFile_steps (cfg := cfg) (E := E) (c := c) (N := N) plan s2
        have f2 := flushFile_active plan w2'
        cases hf : flushFile plan s2 with
        | err s3 =>
          simp only [hf, R.st] at f1 f2 ⊢
          exact ⟨(a1.trans w1).trans f1, fun a ha => by rw [f2] at ha; cases ha⟩
        | crash s3 =>
          simp only [hf, R.st] at f1 f2 ⊢
          exact ⟨(a1.trans w1).trans f1, fun a ha => by rw [f2] at ha; cases ha⟩
        | ok u s3 =>
          simp only [hf, R.st] at f1 f2 ⊢
          have y1 := syncAll_steps (cfg := cfg) (E := E) (c := c) (N := N) plan hok.1 s3
          have y2 := syncAll_active plan a.name f2
          cases hy : syncAll plan a.name s3 with
          | err s4 =>
            simp only [hy, R.st] at y1 y2 ⊢
            exact ⟨((a1.trans w1).trans f1).trans y1, fun a ha => by rw [y2] at ha; cases ha⟩
          | crash s4 =>
            simp only [hy, R.st] at y1 y2 ⊢
            exact ⟨((a1.trans w1).trans f1).trans y1, fun a ha => by rw [y2] at ha; cases ha⟩
          | ok u s4 =>
            simp only [hy, R.st] at y1 y2 ⊢
            exact ⟨((a1.trans w1).trans f1).trans y1, fun a ha => by rw [y2] at ha; cases ha⟩
      · exact ⟨a1.trans w1, fun a ha => by simp only at ha; rw [w2'] at ha; cases ha⟩
    | noRetry => exact ⟨a1.trans w1, fun a ha => by simp only at ha; rw [w2'] at ha; cases ha⟩
    | crashed => exact ⟨a1.trans w1, fun a ha => by simp only at ha; rw [w2'] at ha; cases ha⟩
    | ok =>
      cases oa with
      | none => exact ⟨a1.trans w1, fun a ha => by simp only at ha; rw [w2'] at ha; cases ha⟩
      | some a' =>
        simp only
        have hok' := w3 a' rfl
        have f1 := flushFile_steps (cfg := cfg) (E := E) (c := c) (N := N) plan s2
        have f2 := flushFile_active plan w2'
        cases hf : flushFile plan s2 with
        | err s3 =>
          simp only [hf, R.st] at f1 f2 ⊢
          exact ⟨(a1.trans w1).trans f1, fun a ha => by rw [f2] at ha; cases ha⟩
        | crash s3 =>
          simp only [hf, R.st] at f1 f2 ⊢
          exact ⟨(a1.trans w1).trans f1, fun a ha => by rw [f2] at ha; cases ha⟩
        | ok u s3 =>
          simp only [hf, R.st] at f1 f2 ⊢
          obtain ⟨g1, g2, _⟩ := flushFile_ok hf
          have hok3 : ActiveOk cfg E c s3 a' := activeOk_of_fs_eq g1 g2 hok'
          have y1 := syncAll_steps (cfg := cfg) (E := E) (c := c) (N := N) plan hok3.1 s3
          have y2 := syncAll_active plan a'.name f2
          cases hy : syncAll plan a'.name s3 with
          | err s4 =>
            simp only [hy, R.st] at y1 y2 ⊢
            exact ⟨((a1.trans w1).trans f1).trans y1, fun a ha => by rw [y2] at ha; cases ha⟩
          | crash s4 =>
            simp only [hy, R.st] at y1 y2 ⊢
            exact ⟨((a1.trans w1).trans f1).trans y1, fun a ha => by rw [y2] at ha; cases ha⟩
          | ok u s4 =>
            simp only [hy, R.st] at y1 y2 ⊢
            refine ⟨(((a1.trans w1).trans f1).trans y1).trans (.single (.idle rfl rfl fun h => h)), ?_⟩
            intro a ha
            cases ha
            obtain ⟨z1, _, z3⟩ := syncAll_ok hy
            rcases z3 with ⟨f, hget, hfs⟩ | ⟨hnone, hfs⟩
            · exact activeOk_of_fs_eq (s := s4) rfl rfl (activeOk_after_syncAll hget hfs z1 hok3)
            · exact activeOk_of_fs_eq (s := s4) rfl rfl (activeOk_of_fs_eq hfs z1 hok3)

theorem onBatch_inv (hsep : SepOk cfg E c) (plan : Nat → Fault) (now : Parts) (id : Nat) (b : Batch) (s : St)
    (hE : ∀ e ∈ b.rest, E e) (hinv : Inv cfg E c s) : Inv cfg E c (onBatch cfg plan now id b s).2 := by
  obtain ⟨h1, h2⟩ := onBatch_spec (N := fun _ => True) hsep plan now id b s trivial hE hinv
  exact ⟨h1.nodup hinv.nodup, h1.goodInv hinv.nodup hinv.good, h2⟩

end

end EmitModel.FileSet
