/-
  Lemmas/FileSetOk.lean — the worker on a filesystem without faults (`okPlan`): what listing, retention and
  creation compute, and the count of member files afterwards (C11 quantifies over fault-free runs).
-/
import EmitModel.Lemmas.FileSetAcked

namespace EmitModel.FileSet

/-- No fault at any call. -/
def okPlan : Nat → Fault := fun _ => .ok

theorem simpleOp_okPlan {α : Type} (s : St) (act : St → R α) : simpleOp okPlan s act = act s.tick := rfl

/-- The listing of the set: member names, newest (largest) first. -/
def memberSet (cfg : Config) (fs : List (List Nat × File)) : List (List Nat) :=
  sortDesc ((names fs).filter (isMember cfg.pfx cfg.ext))

def memberCount (cfg : Config) (fs : List (List Nat × File)) : Nat :=
  ((names fs).filter (isMember cfg.pfx cfg.ext)).length

theorem readSet_okPlan (cfg : Config) (s : St) : readSet cfg okPlan s = .ok (memberSet cfg s.fs) s.tick := rfl

theorem fsErase_of_none {fs : List (List Nat × File)} {n : List Nat} (h : fsGet fs n = none) : fsErase fs n = fs := by
  have hn := fsGet_eq_none_iff.mp h
  unfold fsErase
  apply List.filter_eq_self.mpr
  intro e he
  simp only [ne_eq, decide_eq_true_eq]
  intro heq
  exact hn (by simp only [names, List.mem_map]; exact ⟨e, he, heq⟩)

theorem removeFile_okPlan (n : List Nat) (s : St) :
    ∃ s', (removeFile okPlan n s = .ok () s' ∨ removeFile okPlan n s = .err s') ∧ s'.fs = fsErase s.fs n ∧
      s'.active = s.active ∧ (s'.log = s.log ∨ s'.log = s.log ++ [.deleted n]) := by
  unfold removeFile
  rw [simpleOp_okPlan]
  cases h : fsGet s.tick.fs n with
  | some f => exact ⟨_, .inl rfl, rfl, rfl, .inr rfl⟩
  | none => exact ⟨_, .inr rfl, (fsErase_of_none h).symm, rfl, .inl rfl⟩

theorem removeAll_okPlan (vs : List (List Nat)) :
    ∀ (s : St), ∃ s', removeAll okPlan vs s = .ok () s' ∧ s'.fs = vs.foldl fsErase s.fs ∧ s'.active = s.active ∧
      ∃ dl : List (List Nat), s'.log = s.log ++ dl.map Ev.deleted ∧ ∀ d ∈ dl, d ∈ vs := by
  induction vs with
  | nil => intro s; exact ⟨s, rfl, rfl, rfl, [], by simp, by simp⟩
  | cons n ns ih =>
    intro s
    obtain ⟨s1, h1, hfs1, ha1, hl1⟩ := removeFile_okPlan n s
    obtain ⟨s2, h2, hfs2, ha2, dl, hl2, hd2⟩ := ih s1
    refine ⟨s2, ?_, by rw [hfs2, hfs1]; rfl, by rw [ha2, ha1], ?_⟩
    · unfold removeAll
      rcases h1 with h1 | h1 <;> simp only [h1] <;> exact h2
    · rcases hl1 with hl1 | hl1
      · exact ⟨dl, by rw [hl2, hl1], fun d hd => List.mem_cons_of_mem _ (hd2 d hd)⟩
      · refine ⟨n :: dl, by rw [hl2, hl1]; simp, ?_⟩
        intro d hd
        rcases List.mem_cons.mp hd with rfl | hd
        · simp
        · exact List.mem_cons_of_mem _ (hd2 d hd)

theorem names_foldl_fsErase (vs : List (List Nat)) :
    ∀ (fs : List (List Nat × File)), names (vs.foldl fsErase fs) = (names fs).filter fun m => decide (m ∉ vs) := by
  induction vs with
  | nil =>
    intro fs
    simp only [List.foldl_nil, List.not_mem_nil, not_false_eq_true, decide_true]
    exact (List.filter_eq_self.mpr (fun _ _ => rfl)).symm
  | cons n ns ih =>
    intro fs
    simp only [List.foldl_cons]
    rw [ih, names_fsErase, List.filter_filter]
    congr 1
    funext m
    simp only [List.mem_cons, not_or, ne_eq]
    by_cases h1 : m = n <;> by_cases h2 : m ∈ ns <;> simp [h1, h2]

theorem fsGet_foldl_fsErase_none (vs : List (List Nat)) :
    ∀ {fs : List (List Nat × File)} {n : List Nat}, fsGet fs n = none → fsGet (vs.foldl fsErase fs) n = none := by
  induction vs with
  | nil => intro fs n h; exact h
  | cons v vs ih =>
    intro fs n h
    simp only [List.foldl_cons]
    apply ih
    by_cases hv : n = v
    · subst hv; exact fsGet_fsErase_same _ _
    · rw [fsGet_fsErase_ne _ hv]; exact h

/-- What `createFile` computes without faults. -/
theorem createFile_okPlan (cfg : Config) (now : Parts) (id : Nat) (set : List (List Nat)) (s : St) :
    let fs1 := (victims (cfg.maxFiles - 1) set).foldl fsErase s.fs
    let n := nameFor cfg.pfx cfg.ext cfg.rollBy now id
    (fsGet fs1 n = none →
      ∃ s', createFile cfg okPlan now id set s =
          .ok { name := n, ts := fileTs cfg.rollBy now, needsRecovery := false, size := 0 } s' ∧
        s'.fs = (fs1 ++ [(n, newFile)]).map (fun e => (e.1, e.2.setDurable)) ∧
        ∃ dl : List (List Nat), s'.log = s.log ++ dl.map Ev.deleted ++ [.created n] ∧
          ∀ d ∈ dl, d ∈ victims (cfg.maxFiles - 1) set) ∧
    (fsGet fs1 n ≠ none → ∃ s', createFile cfg okPlan now id set s = .err s' ∧ s'.fs = fs1) := by
  intro fs1 n
  obtain ⟨s1, h1, hfs1, _, dl, hl1, hd1⟩ := removeAll_okPlan (victims (cfg.maxFiles - 1) set) s
  have hts := memberTs?_nameFor cfg.pfx cfg.ext cfg.rollBy now id
  constructor
  · intro hnone
    have hnone1 : fsGet s1.tick.fs (nameFor cfg.pfx cfg.ext cfg.rollBy now id) = none := by
      rw [show s1.tick.fs = s1.fs from rfl, hfs1]; exact hnone
    unfold createFile
    simp only [h1, hts]
    unfold openNew
    rw [simpleOp_okPlan]
    simp only [hnone1]
    unfold syncParent
    rw [simpleOp_okPlan]
    refine ⟨_, rfl, ?_, dl, ?_, hd1⟩
    · simp only [St.tick, hfs1]; rfl
    · simp only [St.tick, hl1]; rfl
  · intro hsome
    cases hget : fsGet fs1 n with
    | none => exact absurd hget hsome
    | some f =>
      have hsome1 : fsGet s1.tick.fs (nameFor cfg.pfx cfg.ext cfg.rollBy now id) = some f := by
        rw [show s1.tick.fs = s1.fs from rfl, hfs1]; exact hget
      refine ⟨s1.tick, ?_, hfs1⟩
      unfold createFile
      simp only [h1, hts]
      unfold openNew
      rw [simpleOp_okPlan]
      simp only [hsome1]

/-! ### counting -/

theorem nodup_length_le_of_subset {l m : List (List Nat)} (hl : l.Nodup) (h : ∀ x ∈ l, x ∈ m) : l.length ≤ m.length := by
  induction l generalizing m with
  | nil => simp
  | cons a l ih =>
    rw [List.nodup_cons] at hl
    have ham : a ∈ m := h a (by simp)
    have : l.length ≤ (m.erase a).length := by
      apply ih hl.2
      intro x hx
      have hxa : x ≠ a := fun e => hl.1 (e ▸ hx)
      exact (List.mem_erase_of_ne hxa).mpr (h x (by simp [hx]))
    rw [List.length_erase_of_mem ham] at this
    have hpos : 0 < m.length := List.length_pos_of_mem ham
    simp only [List.length_cons]; omega

theorem desc_take_drop {set : List (List Nat)} (h : Desc set) (keep : Nat) :
    ∀ k ∈ set.take keep, ∀ v ∈ set.drop keep, lexLt k v = false := by
  have : Desc (set.take keep ++ set.drop keep) := by rw [List.take_append_drop]; exact h
  unfold Desc at this
  rw [List.pairwise_append] at this
  exact this.2.2

/-- **Retention arithmetic**: with unique names and a fault-free filesystem, after a successful create the set
    holds at most `max_files` files, for every `max_files ≥ 1`. -/
theorem memberCount_after_create {cfg : Config} (hmax : 1 ≤ cfg.maxFiles) {now : Parts} {id : Nat} {s s' : St}
    {a : Active} (hnd : NamesNodup s)
    (h : createFile cfg okPlan now id (memberSet cfg s.fs) s = .ok a s') :
    memberCount cfg s'.fs ≤ cfg.maxFiles := by
  obtain ⟨h1, h2⟩ := createFile_okPlan cfg now id (memberSet cfg s.fs) s
  by_cases hnone : fsGet ((victims (cfg.maxFiles - 1) (memberSet cfg s.fs)).foldl fsErase s.fs)
      (nameFor cfg.pfx cfg.ext cfg.rollBy now id) = none
  · obtain ⟨s2, he, hfs, _⟩ := h1 hnone
    rw [he] at h; cases h
    unfold memberCount
    rw [hfs, names_map _ File.setDurable]
    simp only [names, List.map_append, List.map_cons, List.map_nil, List.filter_append, List.length_append]
    have hlen1 : (List.filter (isMember cfg.pfx cfg.ext) [nameFor cfg.pfx cfg.ext cfg.rollBy now id]).length ≤ 1 := by
      have := List.length_filter_le (isMember cfg.pfx cfg.ext) [nameFor cfg.pfx cfg.ext cfg.rollBy now id]
      simpa using this
    have hkeep : (List.filter (isMember cfg.pfx cfg.ext)
        (List.map (·.1) ((victims (cfg.maxFiles - 1) (memberSet cfg s.fs)).foldl fsErase s.fs))).length ≤
        cfg.maxFiles - 1 := by
      have hnames := names_foldl_fsErase (victims (cfg.maxFiles - 1) (memberSet cfg s.fs)) s.fs
      unfold names at hnames
      rw [hnames]
      have hsub : ∀ x ∈ List.filter (isMember cfg.pfx cfg.ext)
          (List.filter (fun m => decide (m ∉ victims (cfg.maxFiles - 1) (memberSet cfg s.fs))) (List.map (·.1) s.fs)),
          x ∈ (memberSet cfg s.fs).take (cfg.maxFiles - 1) := by
        intro x hx
        obtain ⟨hx1, hxm⟩ := List.mem_filter.mp hx
        obtain ⟨hx2, hxv⟩ := List.mem_filter.mp hx1
        have hxset : x ∈ memberSet cfg s.fs := mem_sortDesc.mpr (List.mem_filter.mpr ⟨hx2, hxm⟩)
        have hxv' : x ∉ (memberSet cfg s.fs).drop (cfg.maxFiles - 1) := by
          simpa [victims] using hxv
        rw [← List.take_append_drop (cfg.maxFiles - 1) (memberSet cfg s.fs)] at hxset
        rcases List.mem_append.mp hxset with h | h
        · exact h
        · exact absurd h hxv'
      have hnd' : (List.filter (isMember cfg.pfx cfg.ext)
          (List.filter (fun m => decide (m ∉ victims (cfg.maxFiles - 1) (memberSet cfg s.fs)))
            (List.map (·.1) s.fs))).Nodup := (hnd.filter _).filter _
      have := nodup_length_le_of_subset hnd' hsub
      have hl := List.length_take_le (cfg.maxFiles - 1) (memberSet cfg s.fs)
      omega
    omega
  · obtain ⟨s2, he, _⟩ := h2 hnone
    rw [he] at h; cases h

end EmitModel.FileSet
