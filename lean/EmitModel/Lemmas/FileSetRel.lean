/-
  Lemmas/FileSetRel.lean — what any sequence of worker steps guarantees about the directory:
  log entries name members only; a durable file keeps its synced bytes unless the worker deleted it (logged);
  a non-member file is never created, deleted (unless its entry was never durable and a crash drops it) or grown.
-/
import EmitModel.Lemmas.FileSetSteps

namespace EmitModel.FileSet

/-- How a file that is not a member of the set may change: only by a crash (loses unsynced bytes, or vanishes if
    its directory entry was never durable). -/
def ForeignRel : Option File → Option File → Prop
  | none, none => True
  | none, some _ => False
  | some f, none => f.durable = false
  | some f, some f' => f.synced <+: f'.synced ∧ f'.content <+: f.content ∧ (f.durable = true → f'.durable = true)

theorem ForeignRel.refl (x : Option File) : ForeignRel x x := by
  cases x with
  | none => trivial
  | some f => exact ⟨List.prefix_refl _, List.prefix_refl _, id⟩

theorem ForeignRel.of_eq {x y : Option File} (h : y = x) : ForeignRel x y := by subst h; exact .refl _

theorem ForeignRel.trans {x y z : Option File} (h1 : ForeignRel x y) (h2 : ForeignRel y z) : ForeignRel x z := by
  cases x with
  | none =>
    cases y with
    | none => exact h2
    | some g => exact False.elim h1
  | some f =>
    cases y with
    | none =>
      cases z with
      | none => exact h1
      | some k => exact False.elim h2
    | some g =>
      cases z with
      | none =>
        simp only [ForeignRel] at h1 h2 ⊢
        cases hd : f.durable with
        | false => rfl
        | true => rw [h1.2.2 hd] at h2; cases h2
      | some k =>
        simp only [ForeignRel] at h1 h2 ⊢
        exact ⟨h1.1.trans h2.1, h2.2.1.trans h1.2.1, fun h => h2.2.2 (h1.2.2 h)⟩

def Rel (cfg : Config) (N : List Nat → Prop) (s s' : St) : Prop :=
  (∃ extra, s'.log = s.log ++ extra ∧ (∀ ev ∈ extra, Mem cfg ev.name) ∧ (∀ n, Ev.created n ∈ extra → N n) ∧
    ∀ n f, fsGet s.fs n = some f → f.durable = true →
      Ev.deleted n ∈ extra ∨ ∃ f', fsGet s'.fs n = some f' ∧ f'.durable = true ∧ f.synced <+: f'.synced) ∧
  ∀ n, ¬ Mem cfg n → ForeignRel (fsGet s.fs n) (fsGet s'.fs n)

theorem Rel.refl (cfg : Config) (N : List Nat → Prop) (s : St) : Rel cfg N s s :=
  ⟨⟨[], by simp, by simp, by simp, fun n f h hd => .inr ⟨f, h, hd, List.prefix_refl _⟩⟩, fun n _ => .refl _⟩

theorem Rel.weaken {cfg : Config} {N N' : List Nat → Prop} {s s' : St} (h : Rel cfg N s s') (hN : ∀ n, N n → N' n) :
    Rel cfg N' s s' := by
  obtain ⟨⟨e1, hl1, hm1, hc1, hd1⟩, hf1⟩ := h
  exact ⟨⟨e1, hl1, hm1, fun n hn => hN n (hc1 n hn), hd1⟩, hf1⟩

theorem Rel.trans {cfg : Config} {N : List Nat → Prop} {s s' s'' : St} (h1 : Rel cfg N s s') (h2 : Rel cfg N s' s'') :
    Rel cfg N s s'' := by
  obtain ⟨⟨e1, hl1, hm1, hc1, hd1⟩, hf1⟩ := h1
  obtain ⟨⟨e2, hl2, hm2, hc2, hd2⟩, hf2⟩ := h2
  refine ⟨⟨e1 ++ e2, by rw [hl2, hl1, List.append_assoc], ?_, ?_, ?_⟩, fun n hn => (hf1 n hn).trans (hf2 n hn)⟩
  · intro ev hev
    rcases List.mem_append.mp hev with h | h
    · exact hm1 ev h
    · exact hm2 ev h
  · intro n hn
    rcases List.mem_append.mp hn with h | h
    · exact hc1 n h
    · exact hc2 n h
  · intro n f hget hdur
    rcases hd1 n f hget hdur with h | ⟨f', hget', hdur', hpre⟩
    · exact .inl (List.mem_append_left _ h)
    · rcases hd2 n f' hget' hdur' with h | ⟨f'', hget'', hdur'', hpre'⟩
      · exact .inl (List.mem_append_right _ h)
      · exact .inr ⟨f'', hget'', hdur'', hpre.trans hpre'⟩

section
variable {cfg : Config} {E : List Nat → Prop} {c : Nat} {N : List Nat → Prop}

/-- Steps that leave every lookup unchanged except at member names, and log nothing harmful. -/
theorem Rel.of_same_fs {s s' : St} (extra : List Ev) (hlog : s'.log = s.log ++ extra)
    (hm : ∀ ev ∈ extra, Mem cfg ev.name) (hc : ∀ n, Ev.created n ∈ extra → N n) (hfs : s'.fs = s.fs) :
    Rel cfg N s s' :=
  ⟨⟨extra, hlog, hm, hc, fun n f h hd => .inr ⟨f, by rw [hfs]; exact h, hd, List.prefix_refl _⟩⟩,
    fun n _ => .of_eq (by rw [hfs])⟩

theorem rel_of_append {s s' : St} {n : List Nat} (bytes : List Nat) (hmem : Mem cfg n)
    (hfs : s'.fs = appendBytes s.fs n bytes) (hlog : s'.log = s.log) : Rel cfg N s s' := by
  refine ⟨⟨[], by simp [hlog], by simp, by simp, ?_⟩, ?_⟩
  · intro m f hget hdur
    refine .inr ?_
    by_cases hmn : m = n
    · subst hmn
      exact ⟨{ f with unsynced := f.unsynced ++ bytes }, by rw [hfs]; exact fsGet_appendBytes_same _ hget, hdur,
        List.prefix_refl _⟩
    · exact ⟨f, by rw [hfs, fsGet_appendBytes_ne _ _ hmn]; exact hget, hdur, List.prefix_refl _⟩
  · intro m hm
    have hmn : m ≠ n := fun e => hm (e ▸ hmem)
    exact .of_eq (by rw [hfs, fsGet_appendBytes_ne _ _ hmn])

theorem FsStep.rel {s s' : St} (h : FsStep cfg E c N s s') (hn : NamesNodup s) : Rel cfg N s s' := by
  cases h with
  | idle hfs hlog _ => exact Rel.of_same_fs [] (by simp [hlog]) (by simp) (by simp) hfs
  | crash lose d hfs hlog _ =>
    refine ⟨⟨[], by simp [hlog], by simp, by simp, ?_⟩, ?_⟩
    · intro m f hget hdur
      refine .inr ⟨crashFile lose f, ?_, rfl, ?_⟩
      · rw [hfs, fsGet_crashFs lose d hn, hget]; simp [hdur]
      · simp [crashFile]
    · intro m _
      rw [hfs, fsGet_crashFs lose d hn]
      cases hget : fsGet s.fs m with
      | none => trivial
      | some f =>
        simp only [Option.bind_some]
        split
        · refine ⟨by simp [crashFile], ?_, fun _ => rfl⟩
          rw [crashFile_content]; exact List.take_prefix _ _
        · rename_i hc
          simp only [ForeignRel]
          cases hd : f.durable with
          | false => rfl
          | true => simp [hd] at hc
  | create n hmem hN hnone hfs hlog _ =>
    refine ⟨⟨[.created n], hlog, by simpa [Ev.name] using hmem, by simpa using hN, ?_⟩, ?_⟩
    · intro m f hget hdur
      exact .inr ⟨f, by rw [hfs]; exact fsGet_append_of_some _ hget, hdur, List.prefix_refl _⟩
    · intro m hm
      have hmn : n ≠ m := fun e => hm (e ▸ hmem)
      cases hget : fsGet s.fs m with
      | none => rw [hfs, fsGet_append_of_none _ hget]; simp [fsGet, hmn, ForeignRel]
      | some f => rw [hfs, fsGet_append_of_some _ hget]; exact .refl _
  | syncParent hfs hlog _ =>
    refine ⟨⟨[], by simp [hlog], by simp, by simp, ?_⟩, ?_⟩
    · intro m f hget _
      exact .inr ⟨f.setDurable, by rw [hfs, fsGet_map _ File.setDurable, hget]; rfl, rfl, List.prefix_refl _⟩
    · intro m _
      rw [hfs, fsGet_map _ File.setDurable]
      cases hget : fsGet s.fs m with
      | none => trivial
      | some f => exact ⟨List.prefix_refl _, List.prefix_refl _, fun _ => rfl⟩
  | opened n hmem hfs hlog _ => exact Rel.of_same_fs [.opened n] hlog (by simpa [Ev.name] using hmem) (by simp) hfs
  | appendSep n hmem hfs hlog _ => exact rel_of_append _ hmem hfs hlog
  | appendEvt n e hmem _ _ hfs hlog _ => exact rel_of_append _ hmem hfs hlog
  | appendTrunc n p hmem _ _ hfs hlog _ => exact rel_of_append _ hmem hfs hlog
  | syncAll n f hmem hget0 hfs hlog _ =>
    refine ⟨⟨[], by simp [hlog], by simp, by simp, ?_⟩, ?_⟩
    · intro m g hget hdur
      refine .inr ?_
      by_cases hmn : m = n
      · subst hmn
        rw [hget0] at hget; cases hget
        exact ⟨f.syncedAll, by rw [hfs, fsGet_fsSet_same], hdur, by simp [File.syncedAll]⟩
      · exact ⟨g, by rw [hfs, fsGet_fsSet_ne _ _ hmn]; exact hget, hdur, List.prefix_refl _⟩
    · intro m hm
      have hmn : m ≠ n := fun e => hm (e ▸ hmem)
      exact .of_eq (by rw [hfs, fsGet_fsSet_ne _ _ hmn])
  | remove n hmem _ hfs hlog _ =>
    refine ⟨⟨[.deleted n], hlog, by simpa [Ev.name] using hmem, by simp, ?_⟩, ?_⟩
    · intro m f hget hdur
      by_cases hmn : m = n
      · subst hmn; exact .inl (by simp)
      · exact .inr ⟨f, by rw [hfs, fsGet_fsErase_ne _ hmn]; exact hget, hdur, List.prefix_refl _⟩
    · intro m hm
      have hmn : m ≠ n := fun e => hm (e ▸ hmem)
      exact .of_eq (by rw [hfs, fsGet_fsErase_ne _ hmn])

theorem FsSteps.rel {s s' : St} (h : FsSteps cfg E c N s s') (hn : NamesNodup s) : Rel cfg N s s' := by
  induction h with
  | refl => exact Rel.refl cfg N _
  | tail hsteps hstep ih => exact ih.trans (hstep.rel (hsteps.nodup hn))

end

end EmitModel.FileSet
