/-
  Lemmas/TraceparentText.lean — helper lemmas about Model/TraceparentText.lean (C15): a 55-byte text that passes
  the separator/version checks *is* `00-` t `-` s `-` f with |t| = 32, |s| = 16, |f| = 2, and the parser on such a
  frame is the three field parsers.
-/
import EmitModel.Lemmas.HexId
import EmitModel.Model.TraceparentText

namespace EmitModel.TraceparentText
open EmitModel.HexId EmitModel.Text

/-- the trace-id field: 32 zeros mean "no trace id" -/
def tidOf (t : List UInt8) : Option (Option Nat) :=
  if t = zeros 32 then some none else (tryFromHexSlice 16 t).map some

/-- the span-id field: 16 zeros mean "no span id" -/
def sidOf (s : List UInt8) : Option (Option Nat) :=
  if s = zeros 16 then some none else (tryFromHexSlice 8 s).map some

/-- the documented version-00 layout -/
def frame (t s f : List UInt8) : List UInt8 := [48, 48, 45] ++ t ++ [45] ++ s ++ [45] ++ f

theorem sub_frame (t s f : List UInt8) (ht : t.length = 32) (hs : s.length = 16) (hf : f.length = 2) :
    (frame t s f).length = 55 ∧ (frame t s f)[2]? = some 45 ∧ (frame t s f)[35]? = some 45 ∧
    (frame t s f)[52]? = some 45 ∧ sub (frame t s f) 0 2 = [48, 48] ∧ sub (frame t s f) 3 35 = t ∧
    sub (frame t s f) 36 52 = s ∧ sub (frame t s f) 53 55 = f := by
  have e1 : List.drop 50 t = [] := List.drop_eq_nil_of_le (by omega)
  have e2 : List.drop 17 s = [] := List.drop_eq_nil_of_le (by omega)
  have e3 : List.take 2 f = f := List.take_of_length_le (by omega)
  refine ⟨by simp [frame, ht, hs, hf], by simp [frame], ?_, ?_, by simp [frame, sub], ?_, ?_, ?_⟩
  · simp [frame, ht, hs, hf]
  · simp [frame, ht, hs, hf]
  · simp [frame, sub, ht]
  · simp [frame, sub, List.drop_append, List.take_append, ht, hs]
  · simp [frame, sub, List.drop_append, ht, hs, e1, e2, e3]

theorem parse_frame (t s f : List UInt8) (ht : t.length = 32) (hs : s.length = 16) (hf : f.length = 2) :
    parseTraceparent (frame t s f) =
      (tidOf t).bind fun tid => (sidOf s).bind fun sid => (flagsParse f).map fun fl => ⟨tid, sid, fl⟩ := by
  have ⟨h1, h2, h3, h4, h5, h6, h7, h8⟩ := sub_frame t s f ht hs hf
  unfold parseTraceparent
  simp only [h1, h2, h3, h4, h5, h6, h7, h8, tidOf, sidOf]
  simp only [ne_eq, not_true_eq_false, ↓reduceIte]
  cases h : (if t = zeros 32 then some none else Option.map some (tryFromHexSlice 16 t)) with
  | none => simp [dash]
  | some tid =>
    cases h' : (if s = zeros 16 then some none else Option.map some (tryFromHexSlice 8 s)) with
    | none => simp [dash]
    | some sid =>
      cases flagsParse f <;> simp [dash]

theorem getElem?_split (bs : List UInt8) (i : Nat) (c : UInt8) (h : bs[i]? = some c) :
    bs = bs.take i ++ c :: bs.drop (i + 1) := by
  have hi : i < bs.length := by
    rcases Nat.lt_or_ge i bs.length with h' | h'
    · exact h'
    · rw [List.getElem?_eq_none h'] at h; cases h
  have : bs[i] = c := by
    rw [List.getElem?_eq_getElem hi] at h; exact Option.some.inj h
  rw [← this, ← List.drop_eq_getElem_cons hi, List.take_append_drop]

theorem shape_of_checks (bs : List UInt8) (hl : bs.length = 55) (h2 : bs[2]? = some 45) (h35 : bs[35]? = some 45)
    (h52 : bs[52]? = some 45) (hv : sub bs 0 2 = [48, 48]) :
    bs = frame (sub bs 3 35) (sub bs 36 52) (sub bs 53 55) ∧
    (sub bs 3 35).length = 32 ∧ (sub bs 36 52).length = 16 ∧ (sub bs 53 55).length = 2 := by
  refine ⟨?_, by simp [sub, hl], by simp [sub, hl], by simp [sub, hl]⟩
  have s1 := getElem?_split bs 2 45 h2
  have s2 := getElem?_split (bs.drop 3) 32 45 (by simpa using h35)
  have s3 := getElem?_split (bs.drop 36) 16 45 (by simpa using h52)
  simp only [List.drop_drop] at s2 s3
  have hv' : bs.take 2 = [48, 48] := by simpa [sub] using hv
  have e : List.take 2 (List.drop 53 bs) = List.drop 53 bs := List.take_of_length_le (by simp [hl])
  simp only [frame, sub, e]
  conv => lhs; rw [s1, hv']
  simp only [List.cons_append, List.nil_append, List.cons.injEq, true_and, List.append_assoc]
  conv => lhs; rw [s2]
  simp only [List.append_cancel_left_eq, List.cons.injEq, true_and]
  exact s3

/-- A text is accepted only if it has the version-00 layout. -/
theorem parse_some_shape (bs : List UInt8) (tp : Traceparent) (h : parseTraceparent bs = some tp) :
    ∃ t s f, bs = frame t s f ∧ t.length = 32 ∧ s.length = 16 ∧ f.length = 2 := by
  unfold parseTraceparent at h
  split at h
  · cases h
  · rename_i hl
    split at h
    · cases h
    · rename_i hsep
      split at h
      · cases h
      · rename_i hv
        have hl' : bs.length = 55 := by simpa using hl
        have hv' : sub bs 0 2 = [48, 48] := by simpa using hv
        have hsep' : bs[2]? = some 45 ∧ bs[35]? = some 45 ∧ bs[52]? = some 45 := by
          simp only [dash, ne_eq, not_or, Decidable.not_not] at hsep; exact hsep
        have ⟨e, l1, l2, l3⟩ := shape_of_checks bs hl' hsep'.1 hsep'.2.1 hsep'.2.2 hv'
        exact ⟨_, _, _, e, l1, l2, l3⟩

theorem zeros_hex (n : Nat) : tryFromHexSlice n (zeros (2 * n)) = none := by
  cases h : tryFromHexSlice n (zeros (2 * n)) with
  | none => rfl
  | some v =>
    have ⟨_, d, e, nz⟩ := (tryFromHexSlice_eq_some n _ v).1 h
    exact absurd (e ▸ (hexValue_zero _ d).2 (by simp [zeros])) nz

theorem toHex_ne_zeros (n v : Nat) (h0 : v ≠ 0) (hlt : v < 256 ^ n) : toHex n v ≠ zeros (2 * n) := by
  intro h
  have := tryFromHexSlice_toHex n v h0 hlt
  rw [h, zeros_hex] at this
  cases this

end EmitModel.TraceparentText
