/-
  Thm/C16.lean — property C16: templates render and compare by meaning, for any text.
  Property theorems only; helper lemmas live in Lemmas/Template.lean.

  OBLIGATIONS (audited by `check` with `#print axioms`):
    eq_total, eq_iff_norm, eq_iff_atoms, eq_refl, eq_symm, eq_trans, eq_split_insensitive,
    eq_empty_fragment_insensitive, eq_ignores_formatter, norm_normal
-/
import EmitModel.Lemmas.Template

namespace EmitModel.C16
open EmitModel.Template

/-! ## Equality (`PartialEq for Template`, core/src/template.rs:180-273)

`eq` is the model of the code as it is after
`fix: compare template text fragments as bytes and skip empty fragments in Template equality` (defect D12: before it,
`[text "aé", hole x] == [text "ab", hole x]` panicked and `[text "", hole x] != [hole x]`; both cases are in
harness/corpus/c16_eq.txt). Holes are compared by label only — the code ignores the formatter. -/

/-- Equality never panics, for any two part sequences (any bytes, in particular any UTF-8 text cut anywhere). -/
theorem eq_total (a b : List Part) : eq a b ≠ .panic := by
  rw [eq_atoms]; simp

/-- Equality is exactly equality of normal forms (`norm` drops empty text parts, merges adjacent text parts and
    forgets formatters): same holes (by label) in the same positions, same text between them, however split. -/
theorem eq_iff_norm (a b : List Part) : eq a b = .ok (decide (norm a = norm b)) := by
  rw [eq_atoms]
  congr 1
  rw [Bool.eq_iff_iff]
  simp [norm_eq_iff_atoms_eq]

/-- The same, on the flattened stream of bytes and holes. -/
theorem eq_iff_atoms (a b : List Part) : eq a b = .ok (decide (atoms a = atoms b)) := eq_atoms a b

/-- `norm` really produces a normal form: no empty text run, no two adjacent text runs. -/
def Normal : List Seg → Prop
  | [] => True
  | .text t :: r => t ≠ [] ∧ (match r with | .text _ :: _ => False | _ => True) ∧ Normal r
  | .hole _ :: r => Normal r

theorem norm_normal (ps : List Part) : Normal (norm ps) := by
  have key : ∀ (t : List UInt8) (r : List Seg), Normal r → Normal (consText t r) := by
    intro t r hr
    cases r with
    | nil => by_cases h : t = [] <;> simp [consText, h, Normal]
    | cons s r =>
      cases s with
      | text u =>
        simp only [Normal] at hr
        simp only [consText, Normal]
        exact ⟨by simp [hr.1], hr.2.1, hr.2.2⟩
      | hole l =>
        by_cases h : t = []
        · simpa [consText, h] using hr
        · simp only [consText, h, if_false, Normal]
          exact ⟨h, trivial, hr⟩
  induction ps with
  | nil => trivial
  | cons p ps ih =>
    cases p with
    | text t => exact key t _ ih
    | hole l f => simpa [norm, Normal] using ih

theorem eq_refl (a : List Part) : eq a a = .ok true := by
  rw [eq_iff_norm]; simp

theorem eq_symm (a b : List Part) : eq a b = eq b a := by
  rw [eq_iff_norm, eq_iff_norm]
  congr 1
  rw [Bool.eq_iff_iff]
  simp [eq_comm]

theorem eq_trans (a b c : List Part) (hab : eq a b = .ok true) (hbc : eq b c = .ok true) : eq a c = .ok true := by
  rw [eq_iff_norm] at *
  simp only [Res.ok.injEq, decide_eq_true_eq] at *
  rw [hab, hbc]

/-- Splitting a text fragment anywhere (at any byte, so in particular at any character boundary) does not change
    the template. -/
theorem eq_split_insensitive (pre post : List Part) (s t : List UInt8) :
    eq (pre ++ .text (s ++ t) :: post) (pre ++ .text s :: .text t :: post) = .ok true := by
  rw [eq_iff_atoms]
  have : ∀ pre, atoms (pre ++ .text (s ++ t) :: post) = atoms (pre ++ .text s :: .text t :: post) := by
    intro pre
    induction pre with
    | nil => simp [atoms]
    | cons p pre ih => cases p <;> simp [atoms, ih]
  simp [this]

/-- Inserting an empty text fragment anywhere (also next to a hole, at the start or at the end) does not change the
    template. -/
theorem eq_empty_fragment_insensitive (pre post : List Part) :
    eq (pre ++ post) (pre ++ .text [] :: post) = .ok true := by
  rw [eq_iff_atoms]
  have : ∀ pre, atoms (pre ++ post) = atoms (pre ++ .text [] :: post) := by
    intro pre
    induction pre with
    | nil => simp [atoms]
    | cons p pre ih => cases p <;> simp [atoms, ih]
  simp [this]

/-- What the code really does with formatters: nothing — two holes with the same label are the same hole. -/
theorem eq_ignores_formatter (pre post : List Part) (l : List UInt8) (f g : Option Nat) :
    eq (pre ++ .hole l f :: post) (pre ++ .hole l g :: post) = .ok true := by
  rw [eq_iff_atoms]
  have : ∀ pre, atoms (pre ++ .hole l f :: post) = atoms (pre ++ .hole l g :: post) := by
    intro pre
    induction pre with
    | nil => simp [atoms]
    | cons p pre ih => cases p <;> simp [atoms, ih]
  simp [this]

/-! Non-vacuity / sanity: the D12 reproducers now compare as the property demands, and unequal things stay unequal. -/
example : eq [.text [0x61, 0xc3, 0xa9], .hole [0x78] none] [.text [0x61, 0x62], .hole [0x78] none] = .ok false := by
  rw [eq_iff_norm]; decide
example : eq [.text [], .hole [0x78] none] [.hole [0x78] none] = .ok true := by
  rw [eq_iff_norm]; decide
example : eq [.text [0xc3], .text [0xa9]] [.text [0xc3, 0xa9]] = .ok true := by
  rw [eq_iff_norm]; decide
example : eq [.hole [0x78] none] [.text [0x7b, 0x78, 0x7d]] = .ok false := by
  rw [eq_iff_norm]; decide
example : eq [.text [0x61], .hole [0x78] none] [.text [0x61], .hole [0x78] none, .hole [0x78] none] = .ok false := by
  rw [eq_iff_norm]; decide

end EmitModel.C16
