/-
  Thm/C16.lean — property C16 (step 1: the comparison AS IT IS on the unchanged tree; defect D12).
-/
import EmitModel.Model.Template

namespace EmitModel.C16
open EmitModel.Template

/-- D12a: `[text "aé", hole x] == [text "ab", hole x]` panics (`&at[..2]` cuts `é`). -/
theorem v0_panics :
    eqV0 [.text [0x61, 0xc3, 0xa9], .hole [0x78] none] [.text [0x61, 0x62], .hole [0x78] none] = .panic := by
  simp [eqV0, asLiteral, eqLoopV0, isCharBoundary]

/-- D12b: `[text "", hole x] != [hole x]`. -/
theorem v0_empty_vs_hole : eqV0 [.text [], .hole [0x78] none] [.hole [0x78] none] = .ok false := by
  simp [eqV0, asLiteral, eqLoopV0]

end EmitModel.C16
