/-
  Thm/C16.lean — property C16: templates render and compare by meaning, for any text.
  Property theorems only; helper lemmas live in Lemmas/Template.lean.

  OBLIGATIONS (audited by `check` with `#print axioms`):
    eq_total, eq_iff_norm, eq_iff_atoms, eq_refl, eq_symm, eq_trans, eq_split_insensitive,
    eq_empty_fragment_insensitive, eq_ignores_formatter, norm_normal,
    render_spec, render_any_writer, render_recorded, lookup_first_wins, lookup_absent_iff,
    render_owned_borrowed_same, render_same_of_eq,
    macro_parts_norm, macro_eq_meaning, macro_render_same, macro_plain_literal_same
-/
import EmitModel.Lemmas.Template
import EmitModel.Lemmas.TemplateMacro

namespace EmitModel.C16
open EmitModel.Template

/-! ## Equality (`PartialEq for Template`, core/src/template.rs:180-273)

`eq` is the model of the code as it is after
`fix: compare template text fragments as bytes and skip empty fragments in Template equality` (defect D12: before it,
`[text "aé", hole x] == [text "ab", hole x]` panicked and `[text "", hole x] != [hole x]`; both cases are in
harness/corpus/c16_eq.txt). Holes are compared by label only — the code ignores the formatter. -/

/-- Equality never panics, for any two part sequences (any bytes, in particular any UTF-8 text cut anywhere). -/
theorem eq_total (a b : List Part) : eq a b ≠ .panic := by
  rw [eq_atoms]; simp

/-- Equality is exactly equality of normal forms (`norm` drops empty text parts, merges adjacent text parts and
    forgets formatters): same holes (by label) in the same positions, same text between them, however split. -/
theorem eq_iff_norm (a b : List Part) : eq a b = .ok (decide (norm a = norm b)) := by
  rw [eq_atoms]
  congr 1
  rw [Bool.eq_iff_iff]
  simp [norm_eq_iff_atoms_eq]

/-- The same, on the flattened stream of bytes and holes. -/
theorem eq_iff_atoms (a b : List Part) : eq a b = .ok (decide (atoms a = atoms b)) := eq_atoms a b

/-- `norm` really produces a normal form: no empty text run, no two adjacent text runs. -/
def Normal : List Seg → Prop
  | [] => True
  | .text t :: r => t ≠ [] ∧ (match r with | .text _ :: _ => False | _ => True) ∧ Normal r
  | .hole _ :: r => Normal r

theorem norm_normal (ps : List Part) : Normal (norm ps) := by
  have key : ∀ (t : List UInt8) (r : List Seg), Normal r → Normal (consText t r) := by
    intro t r hr
    cases r with
    | nil => by_cases h : t = [] <;> simp [consText, h, Normal]
    | cons s r =>
      cases s with
      | text u =>
        simp only [Normal] at hr
        simp only [consText, Normal]
        exact ⟨by simp [hr.1], hr.2.1, hr.2.2⟩
      | hole l =>
        by_cases h : t = []
        · simpa [consText, h] using hr
        · simp only [consText, h, if_false, Normal]
          exact ⟨h, trivial, hr⟩
  induction ps with
  | nil => trivial
  | cons p ps ih =>
    cases p with
    | text t => exact key t _ ih
    | hole l f => simpa [norm, Normal] using ih

theorem eq_refl (a : List Part) : eq a a = .ok true := by
  rw [eq_iff_norm]; simp

theorem eq_symm (a b : List Part) : eq a b = eq b a := by
  rw [eq_iff_norm, eq_iff_norm]
  congr 1
  rw [Bool.eq_iff_iff]
  simp [eq_comm]

theorem eq_trans (a b c : List Part) (hab : eq a b = .ok true) (hbc : eq b c = .ok true) : eq a c = .ok true := by
  rw [eq_iff_norm] at *
  simp only [Res.ok.injEq, decide_eq_true_eq] at *
  rw [hab, hbc]

/-- Splitting a text fragment anywhere (at any byte, so in particular at any character boundary) does not change
    the template. -/
theorem eq_split_insensitive (pre post : List Part) (s t : List UInt8) :
    eq (pre ++ .text (s ++ t) :: post) (pre ++ .text s :: .text t :: post) = .ok true := by
  rw [eq_iff_atoms]
  have : ∀ pre, atoms (pre ++ .text (s ++ t) :: post) = atoms (pre ++ .text s :: .text t :: post) := by
    intro pre
    induction pre with
    | nil => simp [atoms]
    | cons p pre ih => cases p <;> simp [atoms, ih]
  simp [this]

/-- Inserting an empty text fragment anywhere (also next to a hole, at the start or at the end) does not change the
    template. -/
theorem eq_empty_fragment_insensitive (pre post : List Part) :
    eq (pre ++ post) (pre ++ .text [] :: post) = .ok true := by
  rw [eq_iff_atoms]
  have : ∀ pre, atoms (pre ++ post) = atoms (pre ++ .text [] :: post) := by
    intro pre
    induction pre with
    | nil => simp [atoms]
    | cons p pre ih => cases p <;> simp [atoms, ih]
  simp [this]

/-- What the code really does with formatters: nothing — two holes with the same label are the same hole. -/
theorem eq_ignores_formatter (pre post : List Part) (l : List UInt8) (f g : Option Nat) :
    eq (pre ++ .hole l f :: post) (pre ++ .hole l g :: post) = .ok true := by
  rw [eq_iff_atoms]
  have : ∀ pre, atoms (pre ++ .hole l f :: post) = atoms (pre ++ .hole l g :: post) := by
    intro pre
    induction pre with
    | nil => simp [atoms]
    | cons p pre ih => cases p <;> simp [atoms, ih]
  simp [this]

/-! ## Rendering (`Render::write`, `Part::write`, `Write` defaults; core/src/template.rs:306-319, 334-403, 570-591) -/

/-- The default rendering (the `String` writer, `Display`/`to_string()`): the concatenation over the parts of
    text verbatim | the first-wins property value, through the hole's formatter if it has one | `{label}` when the
    property is absent — for any parts (empty, repeated, any bytes), any properties, any formatter table, appended
    to whatever the writer already holds. (`partBytes` is this three-way case distinction, Lemmas/Template.lean.) -/
theorem render_spec (tbl : Nat → Val → List UInt8) (props : List (List UInt8 × Val)) (parts : List Part)
    (s : List UInt8) :
    render (stringWriter tbl) props parts s = (s ++ (parts.map (partBytes tbl props)).flatten, true) :=
  Template.render_spec tbl props parts s

/-- To any writer: all `Render::write` does to a `template::Write` implementation, whatever its callbacks do, is to
    feed it the callbacks of the parts (`partEv`: `write_text` | `write_hole_value` | `write_hole_fmt` |
    `write_hole_label`, determined by part and properties alone) in order, stopping at the first `Err`. -/
theorem render_any_writer {σ : Type} (w : Writer σ) (props : List (List UInt8 × Val)) (parts : List Part) (s : σ) :
    render w props parts s = feed w (parts.map (partEv props)) s :=
  Template.render_any_writer w props parts s

/-- The harness's recording writer sees exactly those callbacks; failing on callback `k` it has seen the first `k`
    and the error is propagated iff callback `k` exists. -/
theorem render_recorded (props : List (List UInt8 × Val)) (parts : List Part) (failAt : Option Nat) :
    render (recWriter failAt) props parts [] =
      match failAt with
      | none => (parts.map (partEv props), true)
      | some k => ((parts.map (partEv props)).take k, decide (parts.length ≤ k)) :=
  Template.render_recorded props parts failAt

/-- First value wins: pairs after the first one with the hole's label are never looked at. -/
theorem lookup_first_wins (l : List UInt8) (pre post : List (List UInt8 × Val)) (v : Val)
    (h : ∀ kv ∈ pre, kv.1 ≠ l) : lookupFirst l (pre ++ (l, v) :: post) = some v :=
  lookupFirst_first l pre post v h

/-- A hole renders as `{label}` exactly when no pair has its label. -/
theorem lookup_absent_iff (l : List UInt8) (props : List (List UInt8 × Val)) :
    lookupFirst l props = none ↔ ∀ kv ∈ props, kv.1 ≠ l :=
  lookupFirst_none_iff l props

/-- `to_owned`, `by_ref` and the literal constructors are identities on the parts, hence on rendering (to any writer)
    and on equality. -/
theorem render_owned_borrowed_same (ps : List Part) :
    toOwned ps = ps ∧ byRef ps = ps ∧
    (∀ {σ : Type} (w : Writer σ) props s, render w props (toOwned ps) s = render w props ps s ∧
        render w props (byRef ps) s = render w props ps s) ∧
    (∀ t, literal t = [.text t]) ∧
    (∀ b, eq (toOwned ps) b = eq ps b ∧ eq (byRef ps) b = eq ps b) := by
  refine ⟨toOwned_id ps, byRef_id ps, ?_, fun _ => rfl, ?_⟩
  · intro σ w props s; rw [toOwned_id, byRef_id]; exact ⟨rfl, rfl⟩
  · intro b; rw [toOwned_id, byRef_id]; exact ⟨rfl, rfl⟩

/-- The two halves fit: templates that compare equal and carry no formatters render identically for every property
    set. (With formatters they need not — see `eq_ignores_formatter` and the example below.) -/
theorem render_same_of_eq (tbl : Nat → Val → List UInt8) (a b : List Part) (h : eq a b = .ok true)
    (ha : NoFmt a) (hb : NoFmt b) (props : List (List UInt8 × Val)) (s : List UInt8) :
    render (stringWriter tbl) props a s = render (stringWriter tbl) props b s := by
  rw [eq_iff_atoms] at h
  simp only [Res.ok.injEq, decide_eq_true_eq] at h
  rw [render_spec, render_spec, flatten_partBytes_of_noFmt tbl props a ha, flatten_partBytes_of_noFmt tbl props b hb, h]

example : render (stringWriter fun _ v => [0x5b] ++ v.display ++ [0x5d])
    [([0x78], .str [0x37]), ([0x78], .str [0x38])] [.text [0x61], .hole [0x78] none, .hole [0x78] (some 0), .hole [0x79] none] [] =
    ([0x61, 0x37, 0x5b, 0x37, 0x5d, 0x7b, 0x79, 0x7d], true) := by decide
/-- equal (label-wise) templates with different formatters render differently -/
example : eq [.hole [0x78] none] [.hole [0x78] (some 0)] = .ok true ∧
    render (stringWriter fun _ _ => [0x23]) [([0x78], .str [0x37])] [.hole [0x78] none] [] ≠
    render (stringWriter fun _ _ => [0x23]) [([0x78], .str [0x37])] [.hole [0x78] (some 0)] [] := by
  constructor
  · rw [eq_iff_norm]; decide
  · decide
example : NoFmt [.text [0x61], .hole [0x78] none] := by
  intro l f h; simp at h; exact h.2

/-! ## Macro-built templates (fv_template scanner + macros/src/template.rs:88-199 visitor)

`macroParts ext src` is the parts array the macros generate for the template literal whose SOURCE text (between the
quotes) is `src` — after `fix: evaluate escape sequences in the text of macro template literals` (before it the text
kept backslash escapes verbatim: `emit::tpl!("tab\there")` rendered a backslash and a `t`).
`literalMeaning src` reads the literal unit by unit (`specText`: a backslash escape is the character it denotes,
`{{` is `{`, `}}` is `}`; `{ … }` is a hole named by the key identifier of its field-value). -/

open EmitModel.TemplateMacro in
/-- The parts generated for a literal normalise to the literal's meaning — for every literal the scanner and the
    visitor accept, any `#[emit::fmt]` flags, however the scanner happened to cut the text. -/
theorem macro_parts_norm (ext : List (List Char × List Char)) (src : List Char) (parts : List MPart)
    (h : macroParts ext src = some parts) : literalMeaning src = some (norm (toParts parts)) := by
  unfold macroParts at h
  unfold literalMeaning
  split at h
  · simp at h
  · rename_i segs hsegs
    rw [hsegs]
    simp only [toParts, visitAll_spec ext segs parts 0 (segments_ok hsegs) h, Option.map_some, norm_strip]

open EmitModel.TemplateMacro in
/-- Hence a macro-built template `==` (real `PartialEq`) any hand-built template with that meaning. -/
theorem macro_eq_meaning (ext : List (List Char × List Char)) (src : List Char) (parts : List MPart)
    (h : macroParts ext src = some parts) (other : List Part) (ho : literalMeaning src = some (norm other)) :
    eq (toParts parts) other = .ok true := by
  rw [macro_parts_norm ext src parts h] at ho
  rw [eq_iff_norm]
  simp only [Option.some.injEq] at ho
  simp [ho]

open EmitModel.TemplateMacro in
/-- A macro-built template without format flags renders, for every property set, exactly like any formatter-free
    hand-built (borrowed or owned) template with the literal's meaning. -/
theorem macro_render_same (tbl : Nat → Val → List UInt8) (ext : List (List Char × List Char)) (src : List Char)
    (parts : List MPart) (h : macroParts ext src = some parts) (hf : NoFlags parts)
    (other : List Part) (ho : literalMeaning src = some (norm other)) (hof : NoFmt other)
    (props : List (List UInt8 × Val)) (s : List UInt8) :
    render (stringWriter tbl) props (toParts parts) s = render (stringWriter tbl) props other s :=
  render_same_of_eq tbl _ _ (macro_eq_meaning ext src parts h other ho) (noFmt_toParts parts hf) hof props s

open EmitModel.TemplateMacro in
/-- A literal without braces and backslashes is one text part holding the literal itself: the macro-built template
    is the `Template::literal` of the same text. -/
theorem macro_plain_literal_same (ext : List (List Char × List Char)) (src : List Char) (h : NoBrace src)
    (hb : src.contains '\\' = false) : macroParts ext src = some [.text src] ∧ toParts [.text src] = literal (utf8 src) := by
  refine ⟨?_, rfl⟩
  unfold macroParts segments
  by_cases he : src = []
  · subst he
    simp [visitAll, visitSeg, finishText, unescapeText]
  · have : src.isEmpty = false := by cases src <;> simp_all
    simp only [this, Bool.false_eq_true, if_false, textMode_plain src [] false h, List.nil_append]
    have hb' : '\\' ∉ src := by simpa using hb
    simp [flushText, this, visitAll, visitSeg, finishText, unescapeText, hb']

open EmitModel.TemplateMacro in
/-- the hypothesis of `macro_parts_norm` is met by real literals: `"{{{x}\n"` (source text) -/
example : macroParts [] ['{', '{', '{', 'x', '}', '\\', 'n'] = some [.text ['{'], .hole ['x'] none, .text ['\n']] := by
  simp [macroParts, segments, textMode, holeMode, flushText, visitAll, visitSeg, finishText, finishHole, replaceDouble,
    unescapeText, unescape, unescapeSt, escChar, parseHole, isWs, isIdentChar]
open EmitModel.TemplateMacro in
/-- and literals the macros reject have no parts: `"a}"`, `"{"` -/
example : macroParts [] ['a', '}'] = none ∧ macroParts [] ['{'] = none := by
  simp [macroParts, segments, textMode]
open EmitModel.TemplateMacro in
example : NoFlags [.text ['{'], .hole ['x'] none, .text ['\n']] := by
  intro l f h; simp at h; exact h.2
open EmitModel.TemplateMacro in
example : NoBrace ['h', 'i'] ∧ ['h', 'i'].contains '\\' = false := by
  refine ⟨?_, by decide⟩
  intro c hc
  simp only [List.mem_cons, List.not_mem_nil, or_false] at hc
  rcases hc with rfl | rfl <;> decide

/-! Non-vacuity / sanity: the D12 reproducers now compare as the property demands, and unequal things stay unequal. -/
example : eq [.text [0x61, 0xc3, 0xa9], .hole [0x78] none] [.text [0x61, 0x62], .hole [0x78] none] = .ok false := by
  rw [eq_iff_norm]; decide
example : eq [.text [], .hole [0x78] none] [.hole [0x78] none] = .ok true := by
  rw [eq_iff_norm]; decide
example : eq [.text [0xc3], .text [0xa9]] [.text [0xc3, 0xa9]] = .ok true := by
  rw [eq_iff_norm]; decide
example : eq [.hole [0x78] none] [.text [0x7b, 0x78, 0x7d]] = .ok false := by
  rw [eq_iff_norm]; decide
example : eq [.text [0x61], .hole [0x78] none] [.text [0x61], .hole [0x78] none, .hole [0x78] none] = .ok false := by
  rw [eq_iff_norm]; decide

end EmitModel.C16
