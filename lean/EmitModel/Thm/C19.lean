/-
  Thm/C19.lean — property C19: captured values keep their type and structure from call site to sink.
  Property theorems about Model/Capture.lean (the functions the driver of stream `c19` executes).

  PARTIAL by design (DESIGN.md §7.19): the theorems are about emit's own dispatch (which hook a key / attribute
  selects, what each capture trait does with which type, `#[emit::optional]`, buffering and the ambient
  context's typed fast path) and about path-invariance, GIVEN the table `Cap.cast / toDisplay / toDebug / serdeJson /
  svalJson / chain / tid` that states value_bag's behaviour. The table itself is sampled by the correspondence,
  not proved. Helper lemmas live in Lemmas/Capture.lean.

  OBLIGATIONS (audited by `check` with `#print axioms`):
    default_hook_unless_well_known, well_known_hooks, attribute_overrides_key,
    default_typed_roundtrip_int, default_typed_roundtrip, default_displays_display_text,
    display_inspect_is_default, display_exact, debug_exact, display_debug_exact, debug_inspect_exact,
    structured_same_tokens_serde, structured_same_tokens_sval_partial, structured_same_tokens_partial,
    sval_nested_seq_serde_malformed, structured_inspect_primitive,
    optional_none_absent, optional_some_is_plain, error_chain_kept, error_chain_lost_when_shared,
    read_path_invariant, read_path_invariant_values, read_path_invariant_sval, downcast_along_paths,
    capture_idByDisplay,
    sink_term_error_chain, sink_otlp_int_exact, sink_otlp_structure_preserved   (the "via each sink" clause; streams
    `c13_term` / `c13_otlp` are shared with C13, whose models of the sinks these theorems are about)
-/
import EmitModel.Model.Capture
import EmitModel.Lemmas.Capture
import EmitModel.Model.Term
import EmitModel.Lemmas.EncodeOtlp

namespace EmitModel.C19
open EmitModel.Capture

/-! ### Hook selection (emit's macro logic) -/

/-- Only the five well-known keys leave the default hook. -/
theorem default_hook_unless_well_known (key : String)
    (h : key ≠ "lvl" ∧ key ≠ "err" ∧ key ≠ "span_id" ∧ key ≠ "span_parent" ∧ key ≠ "trace_id") :
    hookFor key none = .default := by
  obtain ⟨h1, h2, h3, h4, h5⟩ := h
  simp [hookFor, defaultHook, h1, h2, h3, h4, h5]

theorem well_known_hooks :
    hookFor "lvl" none = .level ∧ hookFor "err" none = .error ∧ hookFor "span_id" none = .spanId ∧
    hookFor "span_parent" none = .spanId ∧ hookFor "trace_id" none = .traceId := by decide

/-- A capture attribute wins over the key name. -/
theorem attribute_overrides_key (key : String) (a : Attr) :
    hookFor key (some a) = hookFor "k" (some a) := by
  cases a <;> rfl

/-! ### 1. default: numbers, booleans and strings can be pulled back as the same typed value -/

/-- An integer of any Rust integer type, captured with the default hook, pulls back as the same value of that type
    (and of every wider type) — on every read path. -/
theorem default_typed_roundtrip_int (t : IntTy) (i : Int) (h : t.inRange i = true) (p : Path) :
    ∃ c, captureWith .default (.int t i) = some (some c) ∧ (readVia p c).cast.toInt t = some i ∧
      ∀ t', t'.inRange i = true → (readVia p c).cast.toInt t' = some i := by
  obtain ⟨c, hc, hi, hk⟩ := primLeaf_int t i h
  have hr : (readVia p c).cast.int? = some i := by rw [readVia_int c p hk, hi]
  refine ⟨c, ?_, toInt_of_int t _ i hr h, fun t' h' => toInt_of_int t' _ i hr h'⟩
  simp [captureWith, V.display?, tryCapture, hc]

/-- Booleans, floats (an `f32` as the `f64` it widens to) and strings (`&str` and `String`): the same typed value
    comes back, on every read path; a string also displays as itself. -/
theorem default_typed_roundtrip (p : Path) :
    (∀ b, ∃ c, captureWith .default (.bool b) = some (some c) ∧ (readVia p c).cast.toBool = some b) ∧
    (∀ x, ∃ c, captureWith .default (.f64 x) = some (some c) ∧ (readVia p c).cast.toF64 = some x.bits) ∧
    (∀ x w, ∃ c, captureWith .default (.f32 x w) = some (some c) ∧ (readVia p c).cast.toF64 = some w.bits) ∧
    (∀ o s d, ∃ c, captureWith .default (.str o s d) = some (some c) ∧
      (readVia p c).cast.toStr = some s ∧ (readVia p c).cast.toBorrowedStr = some s ∧
      (readVia p c).toDisplay = some s) := by
  refine ⟨?_, ?_, ?_, ?_⟩
  · intro b; cases p <;>
      simp [captureWith, V.display?, tryCapture, primLeaf?, readVia, toOwned, toShared, ctxtStore, Cap.tid, Cap.cast,
        Cast.toBool]
  · intro x; cases p <;>
      simp [captureWith, V.display?, tryCapture, primLeaf?, readVia, toOwned, toShared, ctxtStore, Cap.tid, Cap.cast,
        Cast.toF64]
  · intro x w; cases p <;>
      simp [captureWith, V.display?, tryCapture, primLeaf?, readVia, toOwned, toShared, ctxtStore, Cap.tid, Cap.cast,
        Cast.toF64]
  · intro o s d; cases o <;> cases p <;>
      simp [captureWith, V.display?, tryCapture, primLeaf?, readVia, toOwned, toShared, ctxtStore, Cap.tid, Cap.cast,
        Cast.toStr, Cast.toBorrowedStr, Cap.toDisplay]

/-- … and anything else (indeed everything but an `f32`, which is captured as the `f64` it widens to) displays as
    its Display text — on every read path. -/
theorem default_displays_display_text (v : V) (t : String) (h : v.display? = some t)
    (hf : ∀ x w, v ≠ .f32 x w) (hr : ∀ ty i, v = .int ty i → ty.inRange i = true) (p : Path) :
    ∃ c, captureWith .default v = some (some c) ∧ (readVia p c).toDisplay = some t := by
  cases v with
  | f32 x w => exact absurd rfl (hf x w)
  | str o s d =>
    simp only [V.display?, Option.some.injEq] at h; subst h
    cases o <;> cases p <;>
      simp [captureWith, V.display?, tryCapture, primLeaf?, readVia, toOwned, toShared, ctxtStore, Cap.tid, Cap.toDisplay]
  | int ty i =>
    simp only [V.display?, Option.some.injEq] at h; subst h
    have hi := (inRange_iff ty i).1 (hr ty i rfl)
    cases ty <;> simp [IntTy.lo] at hi <;> cases p <;>
      simp [captureWith, V.display?, tryCapture, primLeaf?, IntTy.signed, readVia, toOwned, toShared, ctxtStore, Cap.tid,
        Cap.toDisplay] <;> exact toString_toNat i (by omega)
  | err chain d =>
    simp only [V.display?] at h
    cases chain with
    | nil => simp at h
    | cons e rest =>
      simp only [List.head?_cons, Option.some.injEq] at h; subst h
      cases p <;>
        simp [captureWith, V.display?, tryCapture, primLeaf?, V.tid, readVia, toOwned, toShared, ctxtStore, Cap.tid,
          Cap.toDisplay]
  | fmtOnly d g =>
    simp only [V.display?] at h; subst h
    cases p <;>
      simp [captureWith, V.display?, tryCapture, primLeaf?, V.tid, readVia, toOwned, toShared, ctxtStore, Cap.tid,
        Cap.toDisplay]
  | bool b =>
    simp only [V.display?, Option.some.injEq] at h; subst h
    cases b <;> cases p <;>
      simp [captureWith, V.display?, tryCapture, primLeaf?, readVia, toOwned, toShared, ctxtStore, Cap.tid, Cap.toDisplay]
  | f64 _ | char _ _ | level _ | traceId _ | spanId _ =>
    simp only [V.display?, Option.some.injEq] at h; subst h
    cases p <;>
      simp [captureWith, V.display?, tryCapture, primLeaf?, V.tid, readVia, toOwned, toShared, ctxtStore, Cap.tid,
        Cap.toDisplay]
  | _ => simp [V.display?] at h

/-! ### 2. display / debug modes give exactly the corresponding formatting -/

/-- `#[emit::as_display(inspect: true)]` is the default capture. -/
theorem display_inspect_is_default (v : V) : captureWith (.display true) v = captureWith .default v := by
  cases v <;> rfl

/-- `#[emit::as_display]`: `to_string()` of the captured value is the value's Display text, serializers see that
    text as a string — on every read path. -/
theorem display_exact (v : V) (t : String) (h : v.display? = some t) (p : Path) :
    ∃ c, captureWith (.display false) v = some (some c) ∧ (readVia p c).toDisplay = some t ∧
      (readVia p c).serdeJson = jsonStr t ∧ (readVia p c).svalJson = jsonStr t := by
  by_cases hs : ∃ s d, v = .str false s d
  · obtain ⟨s, d, rfl⟩ := hs
    simp only [V.display?, Option.some.injEq] at h; subst h
    cases p <;>
      simp [captureWith, readVia, toOwned, toShared, ctxtStore, Cap.tid, Cap.toDisplay, Cap.serdeJson, Cap.svalJson]
  · have hc : captureWith (.display false) v = some (some (.display t .no)) := by
      cases v <;> simp_all [captureWith]
    refine ⟨_, hc, ?_⟩
    cases p <;>
      simp [readVia, toOwned, toShared, ctxtStore, Cap.tid, Cap.toDisplay, Cap.serdeJson, Cap.svalJson]

/-- `#[emit::as_debug]`: `{:?}` of the captured value is the value's Debug text on every read path; and unless the
    value is a `&str` (which stays a string: src/macro_hooks.rs:151-155) `to_string()` and the string seen by
    serializers are that Debug text too. -/
theorem debug_exact (v : V) (t : String) (h : v.debug? = some t) (p : Path) :
    ∃ c, captureWith (.debug false) v = some (some c) ∧ (readVia p c).toDebug = some t ∧
      ((∀ s d, v ≠ .str false s d) →
        (readVia p c).toDisplay = some t ∧ (readVia p c).serdeJson = jsonStr t ∧ (readVia p c).svalJson = jsonStr t) := by
  by_cases hs : ∃ s d, v = .str false s d
  · obtain ⟨s, d, rfl⟩ := hs
    simp only [V.debug?, V.debugText, Option.some.injEq] at h; subst h
    refine ⟨.str s d, rfl, ?_, fun hn => absurd rfl (hn s d)⟩
    cases p <;> simp [readVia, toOwned, toShared, ctxtStore, Cap.tid, Cap.toDebug]
  · have hc : captureWith (.debug false) v = some (some (.debug t .no)) := by
      cases v <;> simp_all [captureWith]
    refine ⟨_, hc, ?_⟩
    cases p <;>
      simp [readVia, toOwned, toShared, ctxtStore, Cap.tid, Cap.toDisplay, Cap.toDebug, Cap.serdeJson, Cap.svalJson]

/-- DESIGN §7.19 `display_debug_exact`: both modes give exactly the corresponding formatting, on every read path. -/
theorem display_debug_exact (v : V) (t : String) (p : Path) :
    (v.display? = some t → ∃ c, captureWith (.display false) v = some (some c) ∧ (readVia p c).toDisplay = some t) ∧
    (v.debug? = some t → ∃ c, captureWith (.debug false) v = some (some c) ∧ (readVia p c).toDebug = some t) :=
  ⟨fun h => let ⟨c, hc, hd, _⟩ := display_exact v t h p; ⟨c, hc, hd⟩,
   fun h => let ⟨c, hc, hd, _⟩ := debug_exact v t h p; ⟨c, hc, hd⟩⟩

/-- With `inspect: true` a value outside value_bag's primitive table is still captured through `Debug`
    (ids keep their type for `downcast_ref`; they are excluded here because the ambient context then stores the id
    itself). -/
theorem debug_inspect_exact (v : V) (t : String) (h : v.debug? = some t) (hp : tryCapture v = none)
    (hid : v.tid = .no) (p : Path) :
    ∃ c, captureWith (.debug true) v = some (some c) ∧ (readVia p c).toDebug = some t := by
  have hns : ∀ s d, v ≠ .str false s d := by
    intro s d hv; subst hv; simp [tryCapture, primLeaf?] at hp
  have hc : captureWith (.debug true) v = some (some (.debug t .no)) := by
    cases v <;> simp_all [captureWith]
  refine ⟨_, hc, ?_⟩
  cases p <;> simp [readVia, toOwned, toShared, ctxtStore, Cap.tid, Cap.toDebug]

/-! ### 3. serde / sval modes: any serializer sees what the original value would have produced -/

/-- Captured with `#[emit::as_serde]`: serde_json AND sval_json of the captured value are exactly what they produce
    for the original value — on every read path (buffered by serde_buf, shared, through the ambient context, on
    another thread). -/
theorem structured_same_tokens_serde (v : V) (h : v.hasSerde = true) (p : Path) :
    ∃ c, captureWith (.serde false) v = some (some c) ∧
      (readVia p c).serdeJson = v.directJson .serde ∧ (readVia p c).svalJson = v.directJson .sval := by
  by_cases hs : ∃ s d, v = .str false s d
  · obtain ⟨s, d, rfl⟩ := hs
    refine ⟨.str s d, rfl, ?_⟩
    cases p <;>
      simp [readVia, toOwned, toShared, ctxtStore, Cap.tid, Cap.serdeJson, Cap.svalJson, V.directJson, V.json]
  · have hc : captureWith (.serde false) v = some (some (.serde v false .no)) := by
      cases v <;> simp_all [captureWith]
    refine ⟨_, hc, ?_⟩
    cases p <;>
      simp [readVia, toOwned, toShared, ctxtStore, Cap.tid, Cap.serdeJson, Cap.svalJson, V.directJson]

/-- FULL STATEMENT (what the property asks, and what fails): the same for `#[emit::as_sval]` without any hypothesis.
    PROVED: sval_json always sees the original structure; serde_json sees it unless a non-empty sequence sits below
    the root (`V.nestedSeq`, finding `sval-nested-seq-via-serde`, third-party). -/
theorem structured_same_tokens_sval_partial (v : V) (h : v.hasSval = true) (p : Path) :
    ∃ c, captureWith (.sval false) v = some (some c) ∧
      (readVia p c).svalJson = v.directJson .sval ∧
      (v.nestedSeq = false → (readVia p c).serdeJson = v.directJson .serde) := by
  by_cases hs : ∃ s d, v = .str false s d
  · obtain ⟨s, d, rfl⟩ := hs
    refine ⟨.str s d, rfl, ?_⟩
    cases p <;>
      simp [readVia, toOwned, toShared, ctxtStore, Cap.tid, Cap.serdeJson, Cap.svalJson, V.directJson, V.json]
  · have hc : captureWith (.sval false) v = some (some (.sval v false .no)) := by
      cases v <;> simp_all [captureWith]
    refine ⟨_, hc, ?_⟩
    have hb : v.nestedSeq = false → v.json .serde true true = v.json .serde false true :=
      fun hn => json_broken_eq .serde v true hn
    cases p <;>
      simpa [readVia, toOwned, toShared, ctxtStore, Cap.tid, Cap.serdeJson, Cap.svalJson, V.directJson] using hb

/-- DESIGN §7.19 `structured_same_tokens`, as far as it holds: whichever framework captured the value, on every
    read path, sval_json sees what it produces for the original, and so does serde_json — unless sval captured it
    and a non-empty sequence sits below the root. -/
theorem structured_same_tokens_partial (v : V) (hs : v.hasSerde = true) (hv : v.hasSval = true) (p : Path)
    (attr : Bool) (hd : attr = false → v.nestedSeq = false) :
    ∃ c, captureWith (if attr then .serde false else .sval false) v = some (some c) ∧
      (readVia p c).serdeJson = v.directJson .serde ∧ (readVia p c).svalJson = v.directJson .sval := by
  cases attr with
  | true => exact structured_same_tokens_serde v hs p
  | false =>
    obtain ⟨c, hc, hsv, hsj⟩ := structured_same_tokens_sval_partial v hv p
    exact ⟨c, hc, hsj (hd rfl), hsv⟩

/-- The counterexample inside the excluded region, as the model (and the real code) computes it: `vec![vec![1u8]]`
    captured with `#[emit::as_sval]` reaches serde_json as `[[],1]]`; captured with `#[emit::as_serde]` as `[[1]]`. -/
theorem sval_nested_seq_serde_malformed :
    (captureWith (.sval false) (.seq [.seq [.int .u8 1]])).map (Option.map Cap.serdeJson) = some (some "[[],1]]") ∧
    (captureWith (.serde false) (.seq [.seq [.int .u8 1]])).map (Option.map Cap.serdeJson) = some (some "[[1]]") ∧
    V.directJson .serde (.seq [.seq [.int .u8 1]]) = "[[1]]" := by
  refine ⟨?_, ?_, ?_⟩ <;> decide

/-- `inspect: true` on a primitive (or an `Option` of one) captures the primitive itself; apart from an `f32`
    (captured as the `f64` it widens to, whose shortest text differs) serializers still see the original's output. -/
theorem structured_inspect_primitive (v : V) (c : Cap) (h : tryCapture v = some c)
    (hf : ∀ x w, v ≠ .f32 x w ∧ v ≠ .optSome (.f32 x w))
    (hr : ∀ ty i, (v = .int ty i ∨ v = .optSome (.int ty i)) → ty.inRange i = true) :
    c.serdeJson = v.directJson .serde ∧ c.svalJson = v.directJson .sval := by
  cases v with
  | optNone b => cases b <;> simp [tryCapture, primLeaf?] at h; subst h; simp [Cap.serdeJson, Cap.svalJson, V.directJson, V.json]
  | optSome v' =>
    have := primLeaf_json v' c (by simpa [tryCapture] using h) (fun x w hv => (hf x w).2 (by rw [hv]))
      (fun ty i hv => hr ty i (Or.inr (by rw [hv])))
    simpa [V.directJson, V.json] using this
  | seq _ | map _ | tuple _ | record _ _ | tstruct _ _ | ustruct _ | uvar _ | nvar _ _ | tvar _ _ | svar _ _ | err _ _
  | fmtOnly _ _ | level _ | traceId _ | spanId _ | unit => simp [tryCapture, primLeaf?] at h
  | bool _ | int _ _ | f32 _ _ | f64 _ | char _ _ | str _ _ _ =>
    have := primLeaf_json _ c (by simpa [tryCapture] using h) (fun x w hv => (hf x w).1 hv)
      (fun ty i hv => hr ty i (Or.inl hv))
    simpa [V.directJson, V.json] using this

/-! ### 5. `#[emit::optional]`: `None` contributes no property at all -/

/-- Whatever the key, the attribute and the type: the `None` form never yields a value, and the slot it leaves in
    the macro's props is invisible to enumeration and lookup. -/
theorem optional_none_absent (key : String) (attr : Option Attr) (v : V) :
    (∀ c, captureSite key attr .none v ≠ some (some c)) ∧
    (∀ slot, captureSite key attr .none v = some slot →
      Slots.forEach [(key, slot)] = [] ∧ Slots.get [(key, slot)] key = none) := by
  constructor
  · intro c h
    simp only [captureSite] at h
    cases hcw : captureWith (hookFor key attr) v <;> simp [hcw] at h
  · intro slot h
    simp only [captureSite] at h
    cases hcw : captureWith (hookFor key attr) v <;> simp [hcw] at h
    subst h
    simp [Slots.forEach, Slots.get]

/-- `Some(&v)` under `#[emit::optional]` is captured exactly like `v` itself. -/
theorem optional_some_is_plain (key : String) (attr : Option Attr) (v : V) :
    captureSite key attr .some v = captureSite key attr .plain v := rfl

/-! ### 4. error mode preserves the source chain -/

/-- The `err` key (or `#[emit::as_error]`) captures an error so that consumers get the error back with its whole
    `source()` chain, and `to_string()` shows the error with its root cause — read directly, through an erased event,
    and after `to_owned`. -/
theorem error_chain_kept (chain : List String) (d : String) (p : Path) (hp : p.unshared = true) :
    hookFor "err" none = .error ∧
    ∃ c, captureWith .error (.err chain d) = some (some c) ∧ (readVia p c).chain = some chain ∧
      (readVia p c).toDisplay = some (match chain with
        | [] => ""
        | [e] => e
        | e :: rest => e ++ " (" ++ rest.getLast?.getD "" ++ ")") := by
  refine ⟨by decide, .error chain, rfl, ?_⟩
  cases p <;> simp [Path.unshared] at hp <;>
    (simp only [readVia, toOwned, Cap.chain, true_and]
     cases chain with
     | nil => simp [Cap.toDisplay]
     | cons e rest => cases rest <;> simp [Cap.toDisplay])

/-- What the table says about the remaining paths (not promised by the property, which lists numbers, booleans,
    strings and structured values as surviving buffering): behind `to_shared` — hence in the ambient context —
    value_bag no longer hands the error out (vb:internal/error.rs:29-36), so the chain is gone and only the error's
    own message is displayed. -/
theorem error_chain_lost_when_shared (chain : List String) (p : Path) (hp : p.unshared = false) :
    (readVia p (.error chain)).chain = none ∧ (readVia p (.error chain)).toDisplay = some (chain.head?.getD "") := by
  cases p <;> simp [Path.unshared] at hp <;>
    simp [readVia, toOwned, toShared, ctxtStore, Cap.tid, Cap.chain, Cap.toDisplay]

/-! ### 6. read paths: direct = erased = owned = shared = via the ambient context = on another thread -/

/-- READ-PATH INVARIANCE. Whatever was captured (`IdByDisplay` excludes only an id captured through
    `as_debug/as_sval/as_serde(inspect: true)`), every surviving observation — all typed pulls, Display, Debug,
    serde_json, sval_json, null-ness — is the same whether the property is read in place, through `&dyn ErasedProps`,
    through an erased event, as the event the emitter receives, after `to_owned`, after `to_shared`, on another thread,
    or after being buffered in (nested frames of) the ambient context on this or another thread. -/
theorem read_path_invariant (p : Path) (c : Cap) (o : ObsKind) (hid : IdByDisplay c) (h : Survives o c) :
    observe o (readVia p c) = observe o c := by
  cases p <;> simp only [readVia]
  all_goals first
    | exact observe_toOwned o c h
    | exact observe_toShared o c h
    | exact observe_ctxtStore o c hid h

/-- numbers, booleans, strings (and chars, nulls), serde-captured or already buffered structured values -/
def isPlainValue : Cap → Bool
  | .signed _ | .unsigned _ | .bigSigned _ | .bigUnsigned _ | .float _ | .bool _ | .char _ _ | .str _ _ | .empty => true
  | .serde _ _ .no => true
  | .sval _ true .no => true
  | _ => false

/-- Numbers, booleans, strings (and chars, nulls) and serde-captured or already buffered structured values: EVERY
    observation survives every path, `downcast_ref` included (it answers `None` throughout). -/
theorem read_path_invariant_values (p : Path) (c : Cap) (o : ObsKind) (hc : isPlainValue c = true) :
    observe o (readVia p c) = observe o c := by
  by_cases hd : o = .downcast
  · subst hd
    cases c with
    | sval v b t =>
      cases b <;> cases t <;> simp [isPlainValue] at hc <;> cases p <;>
        simp [observe, readVia, toOwned, toShared, ctxtStore, Cap.tid]
    | serde v b t =>
      cases t <;> simp [isPlainValue] at hc <;> cases p <;>
        simp [observe, readVia, toOwned, toShared, ctxtStore, Cap.tid]
    | _ =>
      simp [isPlainValue] at hc <;> cases p <;>
        simp [observe, readVia, toOwned, toShared, ctxtStore, Cap.tid]
  · refine read_path_invariant p c o ?_ ⟨hd, ?_, ?_⟩
    · cases c with
      | sval v b t => cases b <;> cases t <;> simp [isPlainValue] at hc <;> simp [IdByDisplay]
      | serde v b t => cases t <;> simp [isPlainValue] at hc <;> simp [IdByDisplay]
      | _ => simp [isPlainValue] at hc <;> simp [IdByDisplay]
    · intro he; cases c <;> simp_all [isPlainValue, isErrorCap]
    · intro hs
      cases c with
      | sval v b t => cases b <;> cases t <;> simp [isPlainValue] at hc <;> simp [isUnbufferedSval] at hs
      | _ => simp [isUnbufferedSval] at hs

/-- An sval-captured structure that has not been buffered yet differs only in `pull::<&str>`. -/
theorem read_path_invariant_sval (p : Path) (v : V) (o : ObsKind) (ho : o ≠ .pullBorrowedStr) :
    observe o (readVia p (.sval v false .no)) = observe o (.sval v false .no) := by
  by_cases hd : o = .downcast
  · subst hd; cases p <;> simp [observe, readVia, toOwned, toShared, ctxtStore, Cap.tid]
  · exact read_path_invariant p _ o (by simp [IdByDisplay]) ⟨hd, by simp [isErrorCap], fun _ => ho⟩

/-- What `downcast_ref` answers along each path: kept where the value is only borrowed or erased, gone once
    buffered, and — the ambient context's typed fast path (src/platform/thread_local_ctxt.rs:70-84) — kept for trace
    and span ids through the context. -/
theorem downcast_along_paths (p : Path) (c : Cap) :
    (readVia p c).tid =
      match p with
      | .direct | .erased | .event | .emit => c.tid
      | .owned | .ownedThread | .shared => .no
      | _ => match c.tid with
        | .trace n => .trace n
        | .span n => .span n
        | _ => .no := by
  cases p <;> cases c <;> simp [readVia, toOwned, toShared, ctxtStore, Cap.tid] <;>
    (rename_i t; cases t <;> simp [toShared, toOwned, Cap.tid])

/-- Every capture hook yields ids that satisfy `IdByDisplay`, except the three inspecting non-Display hooks — so
    `read_path_invariant` applies to everything those hooks capture. -/
theorem capture_idByDisplay (hk : Hook) (v : V) (c : Cap) (h : captureWith hk v = some (some c))
    (hh : hk ≠ .debug true ∧ hk ≠ .sval true ∧ hk ≠ .serde true) : IdByDisplay c := by
  obtain ⟨h1, h2, h3⟩ := hh
  have hstr : ∀ s d, IdByDisplay (.str s d) := by intros; simp [IdByDisplay]
  have hdisp : ∀ (v : V), (∀ s d, v ≠ .str false s d) →
      ((v.display?).map fun t => some ((tryCapture v).getD (.display t v.tid))) = some (some c) → IdByDisplay c := by
    intro v _ h
    cases hd : v.display? with
    | none => simp [hd] at h
    | some t =>
      simp only [hd, Option.map_some, Option.some.injEq] at h
      cases ht : tryCapture v with
      | none => simp [ht] at h; subst h; exact display_tid_id v t hd
      | some c' => simp [ht] at h; subst h; exact tryCapture_id v _ ht
  cases hk with
  | default =>
    by_cases hs : ∃ s d, v = .str false s d
    · obtain ⟨s, d, rfl⟩ := hs; simp [captureWith] at h; subst h; exact hstr s d
    · refine hdisp v (fun s d hv => hs ⟨s, d, hv⟩) ?_
      cases v <;> simp_all [captureWith]
  | display i =>
    cases i with
    | true =>
      by_cases hs : ∃ s d, v = .str false s d
      · obtain ⟨s, d, rfl⟩ := hs; simp [captureWith] at h; subst h; exact hstr s d
      · refine hdisp v (fun s d hv => hs ⟨s, d, hv⟩) ?_
        cases v <;> simp_all [captureWith]
    | false =>
      by_cases hs : ∃ s d, v = .str false s d
      · obtain ⟨s, d, rfl⟩ := hs; simp [captureWith] at h; subst h; exact hstr s d
      · cases hd : v.display? with
        | none => cases v <;> simp_all [captureWith]
        | some t =>
          have : captureWith (.display false) v = some (some (.display t .no)) := by
            cases v <;> simp_all [captureWith]
          rw [this] at h; simp at h; subst h; simp [IdByDisplay]
  | debug i =>
    cases i with
    | true => exact absurd rfl h1
    | false =>
      by_cases hs : ∃ s d, v = .str false s d
      · obtain ⟨s, d, rfl⟩ := hs; simp [captureWith] at h; subst h; exact hstr s d
      · cases hd : v.debug? with
        | none => cases v <;> simp_all [captureWith]
        | some t =>
          have : captureWith (.debug false) v = some (some (.debug t .no)) := by
            cases v <;> simp_all [captureWith]
          rw [this] at h; simp at h; subst h; simp [IdByDisplay]
  | sval i =>
    cases i with
    | true => exact absurd rfl h2
    | false =>
      by_cases hs : ∃ s d, v = .str false s d
      · obtain ⟨s, d, rfl⟩ := hs; simp [captureWith] at h; subst h; exact hstr s d
      · have : captureWith (.sval false) v = if v.hasSval then some (some (.sval v false .no)) else none := by
          cases v <;> simp_all [captureWith]
        rw [this] at h; split at h <;> simp at h; subst h; simp [IdByDisplay]
  | serde i =>
    cases i with
    | true => exact absurd rfl h3
    | false =>
      by_cases hs : ∃ s d, v = .str false s d
      · obtain ⟨s, d, rfl⟩ := hs; simp [captureWith] at h; subst h; exact hstr s d
      · have : captureWith (.serde false) v = if v.hasSerde then some (some (.serde v false .no)) else none := by
          cases v <;> simp_all [captureWith]
        rw [this] at h; split at h <;> simp at h; subst h; simp [IdByDisplay]
  | value i =>
    simp only [captureWith] at h
    cases ht : toValue? v with
    | none => simp [ht] at h
    | some c' => simp [ht] at h; subst h; exact toValue_id v _ ht
  | error =>
    cases v <;> simp [captureWith] at h <;> (try subst h) <;> (try simp [IdByDisplay])
    all_goals (rename_i o s d; cases o <;> simp at h; subst h; simp [IdByDisplay])
  | level =>
    cases v with
    | optSome v' => cases v' <;> simp [captureWith] at h <;> subst h <;> simp [IdByDisplay]
    | str o s d => cases o <;> simp [captureWith] at h; subst h; simp [IdByDisplay]
    | _ => simp [captureWith] at h <;> (try subst h) <;> (try simp [IdByDisplay])
  | spanId =>
    cases v with
    | optSome v' =>
      cases v' with
      | int t i => cases t <;> simp [captureWith] at h; subst h; simp [IdByDisplay]
      | _ => simp [captureWith] at h <;> (try subst h) <;> (try simp [IdByDisplay])
    | int t i => cases t <;> simp [captureWith] at h; subst h; simp [IdByDisplay]
    | str o s d => cases o <;> simp [captureWith] at h; subst h; simp [IdByDisplay]
    | _ => simp [captureWith] at h <;> (try subst h) <;> (try simp [IdByDisplay])
  | traceId =>
    cases v with
    | optSome v' =>
      cases v' with
      | int t i => cases t <;> simp [captureWith] at h; subst h; simp [IdByDisplay]
      | _ => simp [captureWith] at h <;> (try subst h) <;> (try simp [IdByDisplay])
    | int t i => cases t <;> simp [captureWith] at h; subst h; simp [IdByDisplay]
    | str o s d => cases o <;> simp [captureWith] at h; subst h; simp [IdByDisplay]
    | _ => simp [captureWith] at h <;> (try subst h) <;> (try simp [IdByDisplay])

/-! ### Non-vacuity: concrete values meeting the hypotheses, evaluated by the very functions the driver runs -/

private def f1 : F := ⟨4607182418800017408, "1", "1.0", "1.0", "1.0"⟩
private def sample : V :=
  .record "Rec2" [("a", .optSome (.int .i64 (-3))), ("b", .map [(.str true "k" "\"k\"", .nvar "New" (.f64 f1))])]
private def sampleSeq : V := .record "Rec2" [("a", .ustruct "UnitS"), ("b", .seq [.int .u8 1, .int .u8 2])]

example : IntTy.u8.inRange 200 = true ∧ IntTy.i8.inRange 200 = false := by decide
example : captureSite "k" none .plain (.int .u8 200) = some (some (.unsigned 200)) := rfl
example : captureSite "k" (some (.debug false)) .none (.str true "x" "\"x\"") = some none := rfl
example : observe .pullI64 (readVia .ctxtThread (.unsigned 200)) = .i (some 200) := by decide
example : observe .pullU8 (readVia .owned (.signed 300)) = .i none := by decide
example : observe .pullF64 (.signed (-2)) = .n (some 13835058055282163712) := by decide
-- serde- and sval-capture of a nested value: both serializers, both captures, the original's text
example : sample.hasSerde = true ∧ sample.nestedSeq = false := by decide
example : sample.directJson .serde = "{\"a\":-3,\"b\":{\"k\":{\"New\":1.0}}}" := by decide
example : (Cap.sval sample false .no).serdeJson = sample.directJson .serde := by decide
example : (readVia .emitCtxt (Cap.serde sample false .no)).svalJson = sample.directJson .sval := by decide
-- the excluded region is inhabited, and differs only there
example : sampleSeq.nestedSeq = true ∧ sampleSeq.directJson .serde = "{\"a\":null,\"b\":[1,2]}" ∧
    (Cap.sval sampleSeq false .no).serdeJson = "{\"a\":null,\"b\":[],1,2]}" ∧
    (Cap.sval sampleSeq false .no).svalJson = "{\"a\":\"UnitS\",\"b\":[1,2]}" := by decide
-- display / debug
example : sample.debug? = some "Rec2 { a: Some(-3), b: {\"k\": New(1.0)} }" := by decide
example : (V.err ["outer", "mid", "root"] "E").display? = some "outer" := rfl
example : (readVia .owned (.error ["outer", "mid", "root"])).toDisplay = some "outer (root)" := by decide
example : (readVia .ctxtPush (.error ["outer", "mid", "root"])).chain = none := by decide
-- the ambient context's typed fast path
example : (readVia .ctxtRoot (.display (traceIdText 255) (.trace 255))).tid = .trace 255 := by decide
example : (readVia .shared (.display (traceIdText 255) (.trace 255))).tid = .no := by decide
example : IdByDisplay (.display (traceIdText 255) (.trace 255)) := rfl
example : Survives .serdeJson (.error ["e"]) ∧ ¬ Survives .chain (.error ["e"]) := by
  constructor
  · exact ⟨by decide, fun _ => ⟨by decide, by decide⟩, fun h => by simp [isUnbufferedSval] at h⟩
  · intro h; exact (h.2.1 rfl).1 rfl

/-! ### Via each sink (the sink models of C13: Model/Term.lean, Model/AnyValue.lean) -/

section Sinks
open EmitModel.Encode

/-- the `err:` / `caused by:` block the terminal writer prints for a captured error -/
def errBlock (top : String) (causes : List String) : String :=
  "  err: " ++ top ++ "\n" ++ String.join (causes.map fun c => "  caused by: " ++ c ++ "\n")

theorem sink_term_error_chain (e : Event) (x : Enc String) (top : String) (causes : List String)
    (h : termOutput e = some x)
    (he : (lookupFirst "err" e.props).bind PV.error? = some (top, causes))
    (hm : ∀ mv, lookupFirst "metric_value" e.props = some mv → ∀ bs, seqView mv ≠ .seq bs) :
    ∃ pre, x = .ok (pre ++ errBlock top causes) := by
  unfold termOutput at h
  simp only [he] at h
  split at h
  · cases h; exact ⟨_, rfl⟩
  · rename_i mv hmv
    split at h
    · cases h
    · cases h; exact ⟨_, rfl⟩
    · cases h; exact ⟨_, rfl⟩
    · rename_i bs _ hsv
      exact absurd hsv (hm mv hmv _)

/-- every integer, of any width and sign, reaches the OTLP sink exactly: as an `intValue` when it fits 64 signed
    bits, otherwise as its exact decimal text — never rounded through a double -/
theorem sink_otlp_int_exact (i : Int) :
    anyValue (.int i) = .ok (if inI64 i then .int i else .str (toString i)) := by
  cases h : inI64 i <;> simp [anyValue, h]

/-- structured values reach the OTLP sink with their structure (restated from `C13.structure_preserved`) -/
theorem sink_otlp_structure_preserved (a : AnyValue) (h : IntsFit a) : anyValue (embed a) = .ok a :=
  structure_preserved_value a h

example : anyValue (.int 18446744073709551615) = .ok (.str "18446744073709551615") := by rfl
end Sinks

end EmitModel.C19
