/-
  Thm/C19.lean — property C19: captured values keep their type and structure from call site to sink.
  Property theorems about Model/Capture.lean (the functions the driver of stream `c19` executes).

  PARTIAL by design (DESIGN.md §7.19): the theorems are about emit's own dispatch (which hook a key / attribute
  selects, what each capture trait does with which type, `#[emit::optional]`, buffering and the ambient
  context's typed fast path) and about path-invariance, GIVEN the table `Cap.cast / toDisplay / toDebug / serdeJson /
  svalJson / chain / tid` that states value_bag's behaviour. The table itself is sampled by the correspondence,
  not proved.
-/
import EmitModel.Model.Capture

namespace EmitModel.C19
open EmitModel.Capture

/-! ### Well-formedness -/

/-- The integer carriers hold values of their Rust type. -/
def CapWf : Cap → Prop
  | .signed i => IntTy.i64.inRange i = true
  | .unsigned n => IntTy.u64.inRange n = true
  | .bigSigned i => IntTy.i128.inRange i = true
  | .bigUnsigned n => IntTy.u128.inRange n = true
  | _ => True

/-- An id that is still downcastable was captured through its Display impl (true of every capture except
    `as_debug/as_sval/as_serde(inspect: true)` applied to a `TraceId`/`SpanId`, where the ambient context's typed
    fast path legitimately replaces the Debug/structured capture by the id itself). -/
def IdByDisplay : Cap → Prop
  | .display t (.trace n) => t = traceIdText n
  | .display t (.span n) => t = spanIdText n
  | .debug _ (.trace _) | .debug _ (.span _) => False
  | .sval _ _ (.trace _) | .sval _ _ (.span _) => False
  | .serde _ _ (.trace _) | .serde _ _ (.span _) => False
  | _ => True

/-! ### Hook selection (emit's macro logic) -/

/-- Only the five well-known keys leave the default hook. -/
theorem default_hook_unless_well_known (key : String)
    (h : key ≠ "lvl" ∧ key ≠ "err" ∧ key ≠ "span_id" ∧ key ≠ "span_parent" ∧ key ≠ "trace_id") :
    hookFor key none = .default := by
  obtain ⟨h1, h2, h3, h4, h5⟩ := h
  simp [hookFor, defaultHook, h1, h2, h3, h4, h5]

theorem well_known_hooks :
    hookFor "lvl" none = .level ∧ hookFor "err" none = .error ∧ hookFor "span_id" none = .spanId ∧
    hookFor "span_parent" none = .spanId ∧ hookFor "trace_id" none = .traceId := by decide

/-- A capture attribute wins over the key name. -/
theorem attribute_overrides_key (key : String) (a : Attr) :
    hookFor key (some a) = hookFor "k" (some a) := by
  cases a <;> rfl

/-! ### 1. default: numbers, booleans and strings can be pulled back as the same typed value -/

theorem inRange_iff (t : IntTy) (i : Int) : t.inRange i = true ↔ t.lo ≤ i ∧ i < t.hi := by
  simp [IntTy.inRange]

theorem carrier_inRange (t : IntTy) (i : Int) (h : t.inRange i = true) : t.carrier.inRange i = true := by
  rw [inRange_iff] at *
  cases t <;> simp [IntTy.carrier, IntTy.signed, IntTy.lo, IntTy.hi] at * <;> omega

/-- A cast that holds the integer `i` answers `pull::<T>` with `i` for every integer type `T` that can hold it. -/
theorem toInt_of_int (t : IntTy) (c : Cast) (i : Int) (hc : c.int? = some i) (h : t.inRange i = true) :
    c.toInt t = some i := by
  simp [Cast.toInt, hc, Option.filter, carrier_inRange t i h, h]

def isIntCap : Cap → Bool
  | .signed _ | .unsigned _ | .bigSigned _ | .bigUnsigned _ => true
  | _ => false

/-- Buffering widens `i64`/`u64` to the 128-bit carriers (vb:internal/owned.rs:204-222) — the integer is the same. -/
theorem readVia_int (c : Cap) (p : Path) (hc : isIntCap c = true) :
    (readVia p c).cast.int? = c.cast.int? := by
  cases c <;> simp [isIntCap] at hc <;> cases p <;>
    simp [readVia, toOwned, toShared, ctxtStore, Cap.tid, Cap.cast, Cast.int?]

theorem primLeaf_int (t : IntTy) (i : Int) (h : t.inRange i = true) :
    ∃ c, primLeaf? (.int t i) = some c ∧ c.cast.int? = some i ∧ isIntCap c = true := by
  rw [inRange_iff] at h
  cases t <;> simp [IntTy.lo] at h <;>
    simp [primLeaf?, IntTy.signed, Cap.cast, Cast.int?, isIntCap] <;> omega

/-- An integer of any Rust integer type, captured with the default hook, pulls back as the same value of that type
    (and of every wider type) — on every read path. -/
theorem default_typed_roundtrip_int (t : IntTy) (i : Int) (h : t.inRange i = true) (p : Path) :
    ∃ c, captureWith .default (.int t i) = some (some c) ∧ (readVia p c).cast.toInt t = some i ∧
      ∀ t', t'.inRange i = true → (readVia p c).cast.toInt t' = some i := by
  obtain ⟨c, hc, hi, hk⟩ := primLeaf_int t i h
  have hr : (readVia p c).cast.int? = some i := by rw [readVia_int c p hk, hi]
  refine ⟨c, ?_, toInt_of_int t _ i hr h, fun t' h' => toInt_of_int t' _ i hr h'⟩
  simp [captureWith, V.display?, tryCapture, hc]

/-- Booleans, floats (an `f32` as the `f64` it widens to) and strings (`&str` and `String`): the same typed value
    comes back, on every read path; a string also displays as itself. -/
theorem default_typed_roundtrip (p : Path) :
    (∀ b, ∃ c, captureWith .default (.bool b) = some (some c) ∧ (readVia p c).cast.toBool = some b) ∧
    (∀ x, ∃ c, captureWith .default (.f64 x) = some (some c) ∧ (readVia p c).cast.toF64 = some x.bits) ∧
    (∀ x w, ∃ c, captureWith .default (.f32 x w) = some (some c) ∧ (readVia p c).cast.toF64 = some w.bits) ∧
    (∀ o s d, ∃ c, captureWith .default (.str o s d) = some (some c) ∧
      (readVia p c).cast.toStr = some s ∧ (readVia p c).cast.toBorrowedStr = some s ∧
      (readVia p c).toDisplay = some s) := by
  refine ⟨?_, ?_, ?_, ?_⟩
  · intro b; cases p <;>
      simp [captureWith, V.display?, tryCapture, primLeaf?, readVia, toOwned, toShared, ctxtStore, Cap.tid, Cap.cast,
        Cast.toBool]
  · intro x; cases p <;>
      simp [captureWith, V.display?, tryCapture, primLeaf?, readVia, toOwned, toShared, ctxtStore, Cap.tid, Cap.cast,
        Cast.toF64]
  · intro x w; cases p <;>
      simp [captureWith, V.display?, tryCapture, primLeaf?, readVia, toOwned, toShared, ctxtStore, Cap.tid, Cap.cast,
        Cast.toF64]
  · intro o s d; cases o <;> cases p <;>
      simp [captureWith, V.display?, tryCapture, primLeaf?, readVia, toOwned, toShared, ctxtStore, Cap.tid, Cap.cast,
        Cast.toStr, Cast.toBorrowedStr, Cap.toDisplay]

/-! ### 5. `#[emit::optional]`: `None` contributes no property at all -/

/-- Whatever the key, the attribute and the type: the `None` form never yields a value, and the slot it leaves in
    the macro's props is invisible to enumeration and lookup. -/
theorem optional_none_absent (key : String) (attr : Option Attr) (v : V) :
    (∀ c, captureSite key attr .none v ≠ some (some c)) ∧
    (∀ slot, captureSite key attr .none v = some slot →
      Slots.forEach [(key, slot)] = [] ∧ Slots.get [(key, slot)] key = none) := by
  constructor
  · intro c h
    simp only [captureSite] at h
    cases hcw : captureWith (hookFor key attr) v <;> simp [hcw] at h
  · intro slot h
    simp only [captureSite] at h
    cases hcw : captureWith (hookFor key attr) v <;> simp [hcw] at h
    subst h
    simp [Slots.forEach, Slots.get]

/-- `Some(&v)` under `#[emit::optional]` is captured exactly like `v` itself. -/
theorem optional_some_is_plain (key : String) (attr : Option Attr) (v : V) :
    captureSite key attr .some v = captureSite key attr .plain v := rfl

/-! ### Non-vacuity -/

example : captureSite "k" none .plain (.int .u8 200) = some (some (.unsigned 200)) := rfl
example : captureSite "k" (some (.debug false)) .none (.str true "x" "\"x\"") = some none := rfl
example : observe .pullI64 (readVia .ctxtThread (.unsigned 200)) = .i (some 200) := by decide

end EmitModel.C19
