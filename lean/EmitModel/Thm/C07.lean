/-
  Thm/C07.lean — property C07: a successful flush means everything emitted before it has been processed.
  Property theorems only; the inductive invariants (DESIGN Appendix A.2) live in Lemmas/BatcherFlush.lean and
  Lemmas/BatcherCover.lean.

  Quantifiers: every configuration, every state reachable by ANY label list (= every interleaving of flush
  requests with sends, hand-off, retries, any processor outcomes, any number of flushers), as long as the receiver
  has not been torn down (`tornDown = false`: alive, or returned normally after the sender was dropped).
  Flush-watcher names are ghost labels; the hypothesis `registered.Nodup` only says that distinct registrations
  were given distinct names (every real execution can be labelled that way).

  OBLIGATIONS (audited by `check` with `#print axioms`):
    flush_sound, flush_sound_accepted, in_batch_flag_covers_inflight, flush_after_retry,
    wait_timeout_true_only_if_flag, blocking_true_only_if_fired, async_true_only_if_fired_or_hungup,
    hangup_only_after_teardown, handoff_notifies_only_watchers_taken_under_lock, channel_calls_locked_only_in_take
-/
import EmitModel.Lemmas.BatcherCover
import EmitModel.Lemmas.BatcherExt
import EmitModel.Model.OtlpE2E
import EmitModel.Lemmas.FilePipe
import EmitModel.Lemmas.OtlpPipe
import EmitModel.Lemmas.OtlpAll

namespace EmitModel.C07
open EmitModel.Batcher EmitModel.Sched

/-- **Flush soundness** (obligation = what was pending or in flight at the registration). If the callback of
    flush watcher `w` has run, every item of its obligation is finalised (the last attempt of its batch has
    concluded: ok, permanent failure, retries exhausted, empty remainder, panic) or was cleared by a counted
    truncation; none is still queued, in flight or waiting for a retry. -/
theorem flush_sound (cfg : Cfg) (s : St) (h : Reachable cfg s) (hn : s.registered.Nodup)
    (ht : s.tornDown = false) (w : Nat) (obs : List Nat) (ho : (w, obs) ∈ s.obligations) (hf : w ∈ s.fired) :
    ∀ x ∈ obs, x ∈ s.finalised ∨ x ∈ s.truncations.flatten :=
  (invF_reachable cfg s h hn ht).fired_ok w obs ho hf

/-- **Flush soundness in the words of the property**: when the callback of `w` has run, *every item accepted
    before the flush was requested* is finalised or was discarded by an overflow truncation. -/
theorem flush_sound_accepted (cfg : Cfg) (s : St) (h : Reachable cfg s) (hn : s.registered.Nodup)
    (ht : s.tornDown = false) (w : Nat) (acc : List Nat) (ha : (w, acc) ∈ s.acceptedAt) (hf : w ∈ s.fired) :
    ∀ x ∈ acc, x ∈ s.finalised ∨ x ∈ s.truncations.flatten := by
  intro x hx
  obtain ⟨obs, ho, hc⟩ := (invC_reachable cfg s h ht).acc w acc ha
  rcases hc x hx with hxo | hd
  · exact flush_sound cfg s h hn ht w obs ho hf x hxo
  · exact hd

/-- `is_in_batch` over-approximates "a batch is in flight" — what makes the immediate-fire branch of
    `when_flushed` (lib.rs:293) sound; and with the `Sender` in hand the channel is open, which rules out the
    "closed ⇒ fire at once" disjunct firing over a non-empty queue. -/
theorem in_batch_flag_covers_inflight (cfg : Cfg) (s : St) (h : Reachable cfg s) (hn : s.registered.Nodup)
    (ht : s.tornDown = false) :
    (s.rx.inflight ≠ [] → s.inBatch = true) ∧ (s.senderAlive = true → s.isOpen = true) :=
  let i := invF_reachable cfg s h hn ht
  ⟨i.inflight_flag, i.open_⟩

/-- **Watchers travel with the remainder.** A granted retry fires nothing and keeps the watchers of the batch,
    through the back-off wait and into the retry call; and a watcher attached to an unfinished batch is bound by
    the items of that batch (its obligation is inside the batch or already through). -/
theorem flush_after_retry (cfg : Cfg) (s s' : St) (orig cur ws : List Nat) (hrx : s.rx = .processing orig cur ws) :
    (∀ rem orig' rem' ws', step cfg s (.rxOutcome (.failRetry rem)) = some s' → s'.rx = .retryWait orig' rem' ws' →
        orig' = orig ∧ rem' = rem ∧ ws' = ws ∧ s'.fired = s.fired ∧ s'.finalised = s.finalised) ∧
    (∀ t t' orig' rem' ws', t.rx = .retryWait orig' rem' ws' → step cfg t .rxRetryWaited = some t' →
        t'.rx = .processing orig' rem' ws' ∧ t'.fired = t.fired ∧ t'.finalised = t.finalised) := by
  constructor
  · intro rem orig' rem' ws' hs hr
    simp only [step, rxOutcome, hrx, conclude] at hs
    flush_split hs <;> simp_all
  · intro t t' orig' rem' ws' hr hs
    simp only [step, rxRetryWaited, hr] at hs
    simp only [Option.some.injEq] at hs; subst hs
    simp

/-- `Trigger::wait_timeout` (sync.rs:155-193) returns `true` only if it saw the flag set — at the first lock or
    after some wake-up. The flag is written only by `Trigger::trigger`, which `blocking_flush` calls only from
    the callback it registers (sync.rs:81-87). -/
theorem wait_timeout_true_only_if_flag (timeout : Nat) (flag0 : Bool) (wakes : List CvWake)
    (h : waitTimeout timeout flag0 wakes = some true) : flag0 = true ∨ ∃ k ∈ wakes, k.flag = true := by
  induction wakes generalizing timeout flag0 with
  | nil =>
    unfold waitTimeout at h
    by_cases hf : flag0 = true
    · exact Or.inl hf
    · by_cases h0 : timeout = 0 <;> simp [hf, h0] at h
  | cons k rest ih =>
    unfold waitTimeout at h
    by_cases hf : flag0 = true
    · exact Or.inl hf
    · right
      by_cases h0 : timeout = 0
      · simp [hf, h0] at h
      · simp only [hf, h0, if_false, Bool.false_eq_true] at h
        cases hto : k.timedOut
        · simp only [hto, Bool.not_false, if_true] at h
          by_cases hle : k.elapsed ≤ timeout
          · simp only [hle, if_true] at h
            rcases ih _ _ h with a | ⟨k', hk', a⟩
            · exact ⟨k, by simp, a⟩
            · exact ⟨k', by simp [hk'], a⟩
          · simp [hle] at h; exact ⟨k, by simp, h⟩
        · simp [hto] at h; exact ⟨k, by simp, h⟩

/-- **A blocking flush returns `true` only if the callback ran.** `s0` is the state right after the
    registration of `w`, the flag readings of `wait_timeout` are "has the callback of `w` run" in the states
    `sts` the system is in at the wake-ups; all of them lie on the way to the state `sf` in which the call
    returns. Then `w ∈ sf.fired`, and `flush_sound` applies to `sf`. -/
theorem blocking_true_only_if_fired (cfg : Cfg) (w timeout : Nat) (s0 sf : St) (sts : List (St × Bool × Nat))
    (h0 : ∃ ls, run (step cfg) s0 ls = some sf) (hs : ∀ p ∈ sts, ∃ ls, run (step cfg) p.1 ls = some sf)
    (hret : waitTimeout timeout (decide (w ∈ s0.fired))
      (sts.map fun p => { flag := decide (w ∈ p.1.fired), timedOut := p.2.1, elapsed := p.2.2 }) = some true) :
    w ∈ sf.fired := by
  rcases wait_timeout_true_only_if_flag _ _ _ hret with a | ⟨k, hk, a⟩
  · obtain ⟨ls, hl⟩ := h0
    exact fired_mono cfg w ls s0 sf (by simpa using a) hl
  · simp only [List.mem_map] at hk
    obtain ⟨p, hp, rfl⟩ := hk
    obtain ⟨ls, hl⟩ := hs p hp
    exact fired_mono cfg w ls p.1 sf (by simpa using a) hl

/-- **The async flush** (`tokio::wait`, tokio.rs:121-141) resolves `true` only if the oneshot was sent — the
    callback ran — or its sender was dropped unsent, i.e. the callback was dropped without running. -/
theorem async_true_only_if_fired_or_hungup (timeout : Nat) (atTry : Oneshot) (later : TimedRecv)
    (h : oneshotWait timeout atTry later = true) :
    atTry = .sent ∨ later = .received ∨ later = .hungUp := by
  unfold oneshotWait at h
  by_cases h1 : atTry = .sent
  · exact Or.inl h1
  · by_cases h2 : timeout = 0
    · simp [h1, h2] at h
    · cases later <;> simp_all

/-- … and a flush callback is dropped without running only when the receiver is torn down (outside "while the
    receiver is alive"). -/
theorem hangup_only_after_teardown (cfg : Cfg) (s : St) (h : Reachable cfg s) :
    s.dropped ≠ [] → s.tornDown = true :=
  invariant_of_step (Inv := fun s => s.dropped ≠ [] → s.tornDown = true) (by simp [init])
    (dropped_step cfg) s h

/-- **A hand-off notifies exactly the flush watchers it took under the lock.** Whatever sender steps land after the
    critical section of a hand-off — from inside a user-supplied `Channel` method the receiver calls outside the lock
    (`chanCallsAfter`, `chanCallsIn`), from inside a callback or closure, from another thread — the watchers the
    receiver holds (the ones this hand-off, or the batch it took, will notify) are exactly those that were pending
    at the instant the queue was swapped out / found empty: a watcher first registered afterwards is not among them
    (it waits behind whatever was accepted before it), and the state is an ordinary reachable one, so `flush_sound`
    applies to it. In particular "send, then when_flushed" landing right after the receiver found the queue empty is
    not notified by that empty hand-off. -/
theorem handoff_notifies_only_watchers_taken_under_lock (cfg : Cfg) (s s1 s' : St) (h : Reachable cfg s)
    (hn : s.registered.Nodup) (ht : s.tornDown = false) (htake : step cfg s .rxTake = some s1)
    (ls : List Label) (hl : ∀ l ∈ ls, l.isSender = true) (hrun : run (step cfg) s1 ls = some s') :
    s'.rx = s1.rx ∧ s'.rx.ws = s.pendFlushW ∧ (∀ w, w ∉ s.registered → w ∉ s'.rx.ws) ∧ Reachable cfg s' := by
  obtain ⟨e1, _, _⟩ := sender_run_rx cfg ls s1 s' hl hrun
  have hws : s1.rx.ws = s.pendFlushW := by
    simp only [step, rxTake] at htake
    flush_split htake <;> rfl
  refine ⟨e1, by rw [e1, hws], ?_, Sched.Reachable.run (Sched.Reachable.step h htake) hrun⟩
  intro w hw hin
  rw [e1, hws] at hin
  exact hw ((invF_reachable cfg s h hn ht).pend_reg w hin)

/-- **Where the receiver calls user code under the lock.** Of all the `Channel` method calls `Receiver::exec`
    makes, only the two inside the critical section of the hand-off (`rxTake`) happen with the state lock held; every
    other one — at the start of `exec`, after the `when_empty` callbacks of a hand-off, before the re-allocation,
    after a returned remainder — is outside it, i.e. a position between two labels of the system (what stream
    `batcher` observes on the real receiver by probing the lock from inside its own channel type). -/
theorem channel_calls_locked_only_in_take (s : St) (l : Label) :
    (∀ c ∈ chanCallsIn s l, c.locked = true → l = .rxTake) ∧
    (∀ c ∈ chanCallsAfter s l, c.locked = false) ∧ (∀ c ∈ chanCallsAtStart, c.locked = false) := by
  refine ⟨?_, ?_, by simp [chanCallsAtStart]⟩
  · intro c hc hl
    cases l <;> simp [chanCallsIn] at hc
    case rxTake => rfl
    case rxBegin => rcases hc.2 with rfl | rfl <;> simp at hl
    case rxOutcome o => cases o <;> simp at hc; subst hc; simp at hl
  · intro c hc
    cases l <;> simp [chanCallsAfter] at hc
    all_goals (split at hc <;> simp at hc; subst hc; rfl)

/-- The sequence case of stream `batcher_blocking_c07` (`Model.flushSequence`: two blocking flushes on one thread,
    the first timing out; the earlier call's callback — watcher 1 — runs during the later call): when watcher 1
    has run, item 3 (accepted before flush #2 was requested) is not finalised yet and watcher 2 has not run; when
    watcher 2 has run, everything is. Each call reads only its own trigger. -/
def seqLabels : List Label :=
  [.send 1, .rxTake, .rxBegin, .send 2, .whenFlushed 1, .rxOutcome .ok, .rxTake, .rxBegin, .send 3, .whenFlushed 2,
   .rxOutcome .ok, .rxFireFlush, .rxTake, .rxBegin]

example : ∃ s, Reachable (Cfg.real 8) s ∧ s.fired = [1] ∧ s.finalised = [1, 2] ∧ s.rx.ws = [2] :=
  ⟨_, ⟨seqLabels, rfl⟩, by decide⟩

example : ∃ s, Reachable (Cfg.real 8) s ∧ s.fired = [1, 2] ∧ s.finalised = [1, 2, 3] :=
  ⟨_, ⟨seqLabels ++ [.rxOutcome .ok, .rxFireFlush], rfl⟩, by decide⟩

/-- The slow-processor case of stream `batcher_blocking_c07` (`Model.slowFlush`, seeded change C07-r4m2): items
    `[1, 2]` are with the processor when the companion watcher 0 and the flush's watcher 1 are registered; whatever
    the attempt's outcome — and however long it takes: the execution below is the same label list for a 1 s and a
    120 s attempt — both watchers run only after it, with both items through their final attempt (`flush_sound` for
    this reachable state); one label earlier nothing has fired. -/
example : ∀ o ∈ [Outcome.ok, .failNoRetry, .panicSync, .panicAsync, .failRetry []],
    (slowFlush (Cfg.real 4) 2 o 60000).map (fun r => (r.1, r.2.1, r.2.2.1)) = some (true, 2, 2) := by decide

example : ∃ s, Reachable (Cfg.real 4) s ∧ s.rx = .processing [1, 2] [1, 2] [] ∧ s.pendFlushW = [0, 1] ∧
    s.fired = [] ∧ s.finalised = [] ∧ (1, [1, 2]) ∈ s.obligations :=
  ⟨_, ⟨[.send 1, .send 2, .rxTake, .rxBegin, .whenFlushed 0, .whenFlushed 1], rfl⟩, by decide⟩

/-! ### Non-vacuity -/

/-- Flush requested while batch `[1]` is in flight and `2` is queued; the batch is retried, succeeds; the next
    batch `[2]` panics; only then the callback runs. -/
def demo : List Label :=
  [.send 1, .rxTake, .rxBegin, .send 2, .whenFlushed 7, .rxOutcome (.failRetry [1]), .rxRetryWaited,
   .rxOutcome .ok, .rxTake, .rxBegin, .rxOutcome .panicAsync, .rxFireFlush]

example : ∃ s, Reachable (Cfg.real 4) s ∧ s.registered.Nodup ∧ s.tornDown = false ∧
    (7, [2, 1]) ∈ s.obligations ∧ (7, [1, 2]) ∈ s.acceptedAt ∧ 7 ∈ s.fired ∧ s.finalised = [1, 2] :=
  ⟨_, ⟨demo, rfl⟩, by decide⟩

/-- The schedule of seeded change C07-r4m1 (corpus of stream `batcher`): the receiver finds the queue empty; `send 1`
    and `when_flushed 10` land right behind the critical section (inside the `Channel` call that follows it). The
    empty hand-off does not notify watcher 10 — it is pending behind item 1 — … -/
example : ∃ s, Reachable (Cfg.real 4) s ∧ s.rx = .taken [] [] [] true ∧ s.pending = [1] ∧ s.pendFlushW = [10] ∧
    s.fired = [] ∧ (10, [1]) ∈ s.obligations :=
  ⟨_, ⟨[.rxTake, .send 1, .whenFlushed 10], rfl⟩, by decide⟩

/-- … and runs only after the batch `[1]` has been processed. -/
example : ∃ s, Reachable (Cfg.real 4) s ∧ s.fired = [10] ∧ s.finalised = [1] :=
  ⟨_, ⟨[.rxTake, .send 1, .whenFlushed 10, .rxBegin, .rxIdleWaited, .rxTake, .rxBegin, .rxOutcome .ok, .rxFireFlush], rfl⟩,
   by decide⟩

/-- One step earlier the callback has not run. -/
example : ∃ s, Reachable (Cfg.real 4) s ∧ 7 ∉ s.fired ∧ s.rx.ws = [7] :=
  ⟨_, ⟨demo.dropLast, rfl⟩, by decide⟩

example : waitTimeout 100 false [⟨false, false, 30⟩, ⟨true, false, 20⟩] = some true := by decide
example : waitTimeout 100 false [⟨false, false, 30⟩, ⟨false, true, 70⟩] = some false := by decide

end EmitModel.C07

/-! ### Carry-through to the OTLP emitter (stream `c07_otlp`) -/
namespace EmitModel.C07
open EmitModel.OtlpE2E

/-- **OTLP flush waits on every configured signal.** `Otlp::blocking_flush` reports success iff every configured
    signal's channel flush does — whatever the other signals' results, in particular a healthy later signal
    cannot mask an earlier one that still has a request in flight or waiting to be retried. -/
theorem otlp_flush_true_iff (l t m : SigState) :
    otlpFlush l t m = true ↔ ∀ s ∈ [l, t, m], s.configured = true → s.busy = false := by
  cases l <;> cases t <;> cases m <;> decide

/-- A request parked at the collector (or waiting in a retry back-off) on any configured signal makes the flush
    report `false` — also with a zero timeout. -/
theorem otlp_flush_false_if_busy (l t m : SigState) (s : SigState) (hs : s ∈ [l, t, m])
    (hc : s.configured = true) (hb : s.busy = true) : otlpFlush l t m = false := by
  cases h : otlpFlush l t m with
  | false => rfl
  | true => have := (otlp_flush_true_iff l t m).mp h s hs hc; simp [hb] at this

end EmitModel.C07

/-! ### Carry-through to the rolling-file emitter (Model/FilePipe.lean: the channel with the file worker as its processor) -/
namespace EmitModel.C07
open EmitModel.Batcher EmitModel.Sched EmitModel.FileSet

/-- **A successful flush of the file emitter means written and synced.** In every execution of the rolling-file
    emitter as a whole — any interleaving of sends, flush requests, hand-offs, callbacks, retry waits and drops,
    with every conclusion of an `on_batch` call being what the file worker does on the held batch under ANY fault
    plan (errors and short writes at any filesystem call) — once the callback of flush watcher `w` has run, every
    item accepted before the flush was requested is: cleared by a counted overflow truncation; or part of a batch
    the worker gave up (`no_retry`, or the retry budget ran out — `failed`); or KEPT: its event is complete, on a
    record boundary, in the synced content of a durable file of the set (unless the worker's own retention has
    deleted that file since the batch began). In particular an event written by an attempt that later failed is
    synced too (D19). The statement covers the states AFTER A CRASH as well: a filesystem call that kills the process
    leaves what the crash left (synced content, durable entries) and ends the execution; what a fired flush callback
    promised is still there (`PInv.okd` is kept through `FsSteps` of every outcome, crashes included). Receiver alive,
    as in `flush_sound`. -/
theorem file_flush_means_synced (cfg : FilePipe.Cfg) (E : List Nat → Prop) (c : Nat) (hsep : cfg.file.sep = [c])
    (hwf : WfEvents E c) (hev : ∀ x, E (cfg.ev x)) (fs0 : FileSet.St) (h0 : FileSet.Inv cfg.file E c fs0)
    (s : FilePipe.St) (h : FilePipe.Reachable cfg fs0 s) (hn : s.ch.registered.Nodup) (ht : s.ch.tornDown = false)
    (w : Nat) (acc : List Nat) (ha : (w, acc) ∈ s.ch.acceptedAt) (hf : w ∈ s.ch.fired) :
    ∀ x ∈ acc, x ∈ s.ch.truncations.flatten ∨ x ∈ s.failed ∨
      ∃ L, L ≤ s.fs.log.length ∧ Kept cfg.file c L (cfg.ev x) s.fs := by
  intro x hx
  have hp := FilePipe.pinv_reachable hsep hwf hev fs0 h0 s h
  rcases flush_sound_accepted cfg.ch s.ch (FilePipe.reachable_proj cfg fs0 s h) hn ht w acc ha hf x hx with hfin | htr
  · rcases hp.fin x hfin with hfail | ⟨L, hL⟩
    · exact .inr (.inl hfail)
    · exact .inr (.inr ⟨L, (hp.okd _ hL).1, (hp.okd _ hL).2⟩)
  · exact .inl htr

/-- non-vacuity: two events, the write of the second fails once, the retry goes to a new file; the flush callback
    registered before the hand-off fires after the retry, and both events are in synced content -/
private def pcfg : FilePipe.Cfg :=
  { ch := Batcher.Cfg.real 10,
    file := { pfx := [97], ext := [108], rollBy := .minute, reuse := false, maxFiles := 3, maxSize := 100, sep := [10] },
    ev := fun x => [97 + x, 10],
    plan := fun i => if i = 5 then .err else .ok }
private def pnow : Parts := { years := 2024, months := 1, days := 1, hours := 0, minutes := 0, seconds := 0, nanos := 0 }
private def plabels : List FilePipe.Label :=
  [.chan (.send 0), .chan (.send 1), .chan (.whenFlushed 7), .chan .rxTake, .chan .rxBegin, .process pnow 7,
   .chan .rxRetryWaited, .process pnow 8, .chan .rxFireFlush]

example : ((Sched.run (FilePipe.step pcfg) (FilePipe.init emptyState) plabels).map fun s =>
    (s.ch.fired, s.ch.acceptedAt, s.failed, s.okd, s.fs.fs.map (·.2.synced), s.ch.tornDown)) =
    some ([7], [(7, [0, 1])], [], [(0, 0), (1, 0)], [[97, 10], [98, 10]], false) := by rfl
/-- non-vacuity with a crash: event 0 is flushed (callback 7 fires), then the process dies at filesystem call 8 while
    the next batch is being written (losing unsynced bytes and the new, not yet durable directory entry): the state is
    reachable, crashed, and event 0 is still in synced content -/
private def ccfg : FilePipe.Cfg :=
  { ch := Batcher.Cfg.real 10,
    file := { pfx := [97], ext := [108], rollBy := .minute, reuse := false, maxFiles := 3, maxSize := 100, sep := [10] },
    ev := fun x => [97 + x, 10],
    plan := fun i => if i = 8 then .crash 1 [5] true else .ok }
private def clabels : List FilePipe.Label :=
  [.chan (.send 0), .chan (.whenFlushed 7), .chan .rxTake, .chan .rxBegin, .process pnow 7, .chan .rxFireFlush,
   .chan (.send 1), .chan .rxTake, .chan .rxBegin, .process pnow 8]

example : ((Sched.run (FilePipe.step ccfg) (FilePipe.init emptyState) clabels).map fun s =>
    (s.crashed, s.ch.fired, s.okd, s.ch.tornDown, s.fs.fs.map (fun nf => (nf.2.synced, nf.2.unsynced)))) =
    some (true, [7], [(0, 0)], false, [([97, 10], [])]) := by rfl

end EmitModel.C07

/-! ### Carry-through to the OTLP emitter as a whole (Model/OtlpPipe.lean: the channel with the send loop as its processor) -/
namespace EmitModel.C07
open EmitModel.Batcher EmitModel.Sched EmitModel.Otlp

/-- **A successful flush of an OTLP signal means answered.** In every execution of one signal of the OTLP emitter as
    a whole — any interleaving of sends, flush requests, hand-offs, callbacks, retry waits and drops, with every
    conclusion of an `on_batch` call being what the transport's send loop does with the held requests against ANY
    collector script (acknowledgements, error statuses, gRPC statuses, resets before or after the body, stalls,
    connections dropped behind a response head, a dead endpoint) — once the callback of flush watcher `w` has run,
    every item accepted before the flush was requested is: cleared by a counted overflow truncation; or part of a batch
    that was given up (retry budget exhausted / `no_retry`); or DELIVERED: contained in a request the collector
    recorded and answered with what the client takes as an acknowledgement. Receiver alive, as in `flush_sound`. -/
theorem otlp_flush_means_answered (cfg : OtlpPipe.Cfg) (net0 : Net) (s : OtlpPipe.St)
    (h : OtlpPipe.Reachable cfg net0 s) (hn : s.ch.registered.Nodup) (ht : s.ch.tornDown = false)
    (w : Nat) (acc : List Nat) (ha : (w, acc) ∈ s.ch.acceptedAt) (hf : w ∈ s.ch.fired) :
    ∀ x ∈ acc, x ∈ s.ch.truncations.flatten ∨ x ∈ s.failed ∨ OtlpPipe.Delivered cfg.tr s.net.log (x : Int) := by
  intro x hx
  have hp := OtlpPipe.pinv_reachable cfg net0 s h
  rcases flush_sound_accepted cfg.ch s.ch (OtlpPipe.reachable_proj cfg net0 s h) hn ht w acc ha hf x hx with hfin | htr
  · rcases hp.fin x hfin with hfail | hok
    · exact .inr (.inl hfail)
    · exact .inr (.inr (hp.okd x hok))
  · exact .inl htr

/-- non-vacuity: three events in two requests (limit 2 bytes, sizes 1), the collector answers the first request with
    503 and then acknowledges; the flush callback registered before the hand-off fires after the retry and all three
    events are in acknowledged requests -/
private def ocfg : OtlpPipe.Cfg := { ch := Batcher.Cfg.real 10, tr := .http, limit := 2, size := fun _ => 1 }
private def onet : Net := { dead := false, script := [.status 503], slot := false, conns := 0, log := [] }
private def olabels : List OtlpPipe.Label :=
  [.chan (.send 0), .chan (.send 1), .chan (.send 2), .chan (.whenFlushed 7), .chan .rxTake, .chan .rxBegin, .process,
   .chan .rxRetryWaited, .process, .chan .rxFireFlush]

example : ((Sched.run (OtlpPipe.step ocfg) (OtlpPipe.init onet) olabels).map fun s =>
    (s.ch.fired, s.ch.acceptedAt, s.failed, s.okd, s.net.log.map (fun e => (e.ids, okResp .http e.resp)), s.ch.tornDown)) =
    some ([7], [(7, [0, 1, 2])], [], [0, 1, 2],
      [(some [0, 1], true), (some [2], true), (some [2], false)], false) := by rfl

end EmitModel.C07

/-! ### More about the emitters as a whole -/
namespace EmitModel.C07
open EmitModel.Batcher EmitModel.Sched EmitModel.Otlp EmitModel.FileSet

/-- **Within the retry budget a successful OTLP flush means delivered.** If the collector is reachable and the failures
    it still has in store (`Net.pending`: the responses the client counts as failures, plus one wasted attempt per
    connection dropped behind a response head) fit in the retry budget, then in every execution of the signal as a
    whole no batch is ever given up — so once the callback of flush watcher `w` has run, every item accepted before the
    flush was requested was cleared by a counted overflow truncation or is in a request the collector acknowledged.
    (C12 `every_event_delivered` for one batch, here for every interleaving and any number of batches.) -/
theorem otlp_flush_means_delivered_within_budget (cfg : OtlpPipe.Cfg) (net0 : Net) (hd : net0.dead = false)
    (hb : net0.pending cfg.tr ≤ cfg.ch.retryMax) (s : OtlpPipe.St) (h : OtlpPipe.Reachable cfg net0 s)
    (hn : s.ch.registered.Nodup) (ht : s.ch.tornDown = false) (w : Nat) (acc : List Nat)
    (ha : (w, acc) ∈ s.ch.acceptedAt) (hf : w ∈ s.ch.fired) :
    ∀ x ∈ acc, x ∈ s.ch.truncations.flatten ∨ OtlpPipe.Delivered cfg.tr s.net.log (x : Int) := by
  intro x hx
  have hnone := (OtlpPipe.binv_reachable cfg net0 hd hb s h).noneFailed
  rcases otlp_flush_means_answered cfg net0 s h hn ht w acc ha hf x hx with h1 | h1 | h1
  · exact .inl h1
  · rw [hnone] at h1; cases h1
  · exact .inr h1

-- the hypotheses are met by the run above: one failing response against a budget of ten
example : onet.dead = false ∧ onet.pending ocfg.tr ≤ ocfg.ch.retryMax := by decide

/-- **No record is ever mangled — in the emitter as a whole.** In every state the rolling-file emitter can reach (any
    interleaving of sends, flush requests, hand-offs, retries, drops; any fault plan), every separator-delimited
    record of every file of the set is empty, a complete event some `emit` formatted, or a non-empty strict prefix of
    one such event — never bytes of two events; and without an interrupting fault (short write that put bytes) every
    record is empty or complete. -/
theorem file_pipeline_records_wellformed (cfg : FilePipe.Cfg) (E : List Nat → Prop) (c : Nat) (hsep : cfg.file.sep = [c])
    (hwf : WfEvents E c) (hev : ∀ x, E (cfg.ev x)) (fs0 : FileSet.St) (h0 : FileSet.Inv cfg.file E c fs0)
    (s : FilePipe.St) (h : FilePipe.Reachable cfg fs0 s) (n : List Nat) (f : File)
    (hget : fsGet s.fs.fs n = some f) (hmem : isMember cfg.file.pfx cfg.file.ext n = true) :
    ∀ r ∈ splitOn c f.content,
      r = [] ∨ E (r ++ [c]) ∨ (s.fs.faulted = true ∧ r ≠ [] ∧ ∃ e, E e ∧ r <+: e ∧ r.length < e.length) := by
  have hp := FilePipe.pinv_reachable hsep hwf hev fs0 h0 s h
  intro r hr
  rcases (hp.fsInv.good n f hget hmem).records hwf r hr with h | h | ⟨ht, h⟩
  · exact .inl h
  · exact .inr (.inl h)
  · exact .inr (.inr ⟨ht, h⟩)

end EmitModel.C07

/-! ### The OTLP emitter with its three signals (Model/OtlpAll.lean) -/
namespace EmitModel.C07
open EmitModel.Batcher EmitModel.Sched EmitModel.Otlp

/-- **A successful flush of the OTLP emitter means answered, signal by signal.** In every execution of the whole
    emitter — events of any shape emitted in any order and routed by `OtlpInner::emit` (C14), the three signals' channels,
    workers and collectors running interleaved in any way, each against any collector script — once the callback of a
    flush watcher `w` registered on signal `g` has run (`Otlp::blocking_flush` registers one per configured signal and
    reports success only when all have, `otlp_flush_true_iff`), every event that signal had accepted before the
    registration is one the routing assigns to `g` and no other signal, and it was cleared by a counted overflow
    truncation of `g`'s channel, belongs to a batch `g` gave up, or is in a request `g`'s collector acknowledged. -/
theorem otlp_emitter_flush_means_answered (cfg : OtlpAll.Cfg) (net0 : Signal → Net) (s : OtlpAll.St)
    (h : OtlpAll.Reachable cfg net0 s) (g : Signal) (hn : (s.get g).ch.registered.Nodup)
    (ht : (s.get g).ch.tornDown = false) (w : Nat) (acc : List Nat)
    (ha : (w, acc) ∈ (s.get g).ch.acceptedAt) (hf : w ∈ (s.get g).ch.fired) :
    ∀ x ∈ acc, route cfg.logs cfg.traces cfg.metrics (cfg.shape x) = .signal g ∧
      (x ∈ (s.get g).ch.truncations.flatten ∨ x ∈ (s.get g).failed ∨
        OtlpPipe.Delivered (cfg.pipe g).tr (s.get g).net.log (x : Int)) := by
  intro x hx
  obtain ⟨hr, hrouted⟩ := OtlpAll.reachable_sig cfg net0 s h g
  have hsub := (Batcher.invAcc_reachable (cfg.pipe g).ch (s.get g).ch
    (OtlpPipe.reachable_proj (cfg.pipe g) (net0 g) (s.get g) hr)).sub (w, acc) ha x hx
  exact ⟨hrouted x hsub, otlp_flush_means_answered (cfg.pipe g) (net0 g) (s.get g) hr hn ht w acc ha hf x hx⟩

/-- non-vacuity: logs and traces configured; events 0 and 2 are logs, event 1 is a span; the traces collector answers 503
    once; a flush watcher registered on traces fires after the retry: the one event the traces signal had accepted is the
    span, delivered on traces; the log events sit in the logs channel, untouched -/
private def spanShape : Shape := { kind := .span, extent := .range, hasName := false, value := .missing, agg := .missing }
private def logShape : Shape := { kind := .none, extent := .point, hasName := false, value := .missing, agg := .missing }
private def acfg : OtlpAll.Cfg :=
  { logs := true, traces := true, metrics := false,
    pipe := fun _ => { ch := Batcher.Cfg.real 10, tr := .http, limit := 100, size := fun _ => 1 },
    shape := fun x => if x = 1 then spanShape else logShape }
private def anet : Signal → Net := fun g =>
  { dead := false, script := if g = .traces then [.status 503] else [], slot := false, conns := 0, log := [] }
private def alabels : List OtlpAll.Label :=
  [.emit 0, .emit 1, .emit 2, .sig .traces (.chan (.whenFlushed 7)), .sig .traces (.chan .rxTake), .sig .traces (.chan .rxBegin),
   .sig .traces .process, .sig .traces (.chan .rxRetryWaited), .sig .traces .process, .sig .traces (.chan .rxFireFlush)]
example : ((Sched.run (OtlpAll.step acfg) (OtlpAll.init anet) alabels).map fun s =>
    (s.traces.ch.fired, s.traces.ch.acceptedAt, s.traces.okd, s.logs.ch.accepted,
     s.traces.net.log.map (fun e => (e.ids, okResp .http e.resp)), s.logs.net.log.length, s.traces.ch.tornDown)) =
    some ([7], [(7, [1])], [1], [0, 2], [(some [1], true), (some [1], false)], 0, false) := by rfl

end EmitModel.C07
