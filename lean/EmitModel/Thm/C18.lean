/-
  Thm/C18.lean — property C18: a sampling decision is made once per trace and governs everything inside it.
  Property theorems about Model/Traceparent.lean (the functions the driver executes); helper lemmas in
  Lemmas/Traceparent.lean. Programs are trees of spans (body on the same or on a fresh thread), pushed incoming
  headers, carried frames and observation points; `run` threads the running thread's ACTIVE_TRACEPARENT, the
  counter rng, the sampler call count and the observation log through them.
-/
import EmitModel.Lemmas.Traceparent

namespace EmitModel.C18
open EmitModel.Traceparent

/- `hs` = a sampler is configured: only then does a root span cost a sampler call. -/
mutual
def roots (hs : Bool) (validActive : Bool) : Prog → Nat
  | .event => 0
  -- a span emitted as an event where no valid traceparent is active starts (and is all of) a new trace
  | .spanEvent => if validActive then 0 else if hs then 1 else 0
  | .span cs => (if validActive then 0 else if hs then 1 else 0) + rootsList hs true cs
  | .spanThread cs => (if validActive then 0 else if hs then 1 else 0) + rootsList hs true cs
  | .spanAsync cs => (if validActive then 0 else if hs then 1 else 0) + rootsList hs true cs
  | .push tp cs => rootsList hs tp.valid cs
  | .pushState _ cs => rootsList hs validActive cs
  | .pushBoth tp _ cs => rootsList hs tp.valid cs
  | .carry cs => rootsList hs validActive cs
def rootsList (hs : Bool) (validActive : Bool) : List Prog → Nat
  | [] => 0
  | p :: ps => roots hs validActive p + rootsList hs validActive ps
end

mutual
def ExtOnly : Prog → Prop
  | .event => True
  | .spanEvent => True
  | .span cs => ExtOnlyList cs
  | .spanThread cs => ExtOnlyList cs
  | .spanAsync cs => ExtOnlyList cs
  | .push tp cs => (∀ k, tp.spanId ≠ some (.gen k)) ∧ ExtOnlyList cs
  | .pushState _ cs => ExtOnlyList cs
  | .pushBoth tp _ cs => (∀ k, tp.spanId ≠ some (.gen k)) ∧ ExtOnlyList cs
  | .carry cs => ExtOnlyList cs
def ExtOnlyList : List Prog → Prop
  | [] => True
  | p :: ps => ExtOnly p ∧ ExtOnlyList ps
end

theorem openSpec_facts (c : Cfg) (e : Env) :
    ∃ a', (openSpec c e).2.2.1 = some a' ∧ a'.tp.valid = true ∧
      a'.tp.spanId = some (.gen (openSpec c e).2.2.2.rng) ∧ e.rng ≤ (openSpec c e).2.2.2.rng ∧
      (openSpec c e).2.2.2.calls = e.calls + (if validOf e.st then 0 else if c.hasSampler then 1 else 0) ∧
      (openSpec c e).2.2.2.st = e.st := by
  unfold openSpec
  cases hf : e.st.filter (fun a => a.tp.valid) with
  | none =>
    have hv : validOf e.st = false := by simp [validOf, hf]
    dsimp only
    rw [hv]
    cases hsm : c.hasSampler
    · simp only [Bool.false_eq_true, if_false]
      refine ⟨_, rfl, ?_, ?_, ?_, ?_, ?_⟩
      · simp only [TP.valid]; split <;> simp_all
      · rfl
      · split <;> omega
      · trivial
      · trivial
    · simp only [if_true]
      refine ⟨_, rfl, ?_, ?_, ?_, ?_, ?_⟩
      · simp only [TP.valid]; split <;> simp_all
      · rfl
      · split <;> omega
      · trivial
      · trivial
  | some a =>
    have hv : validOf e.st = true := by simp [validOf, hf]
    have hav : a.tp.valid = true := by
      cases hst : e.st with
      | none => simp [hst] at hf
      | some b =>
        simp only [hst, Option.filter] at hf
        split at hf
        · cases hf; assumption
        · cases hf
    dsimp only
    rw [hv]
    refine ⟨_, rfl, ?_, ?_, ?_, ?_, ?_⟩
    · simp only [TP.valid] at hav ⊢; simp_all
    · rfl
    · split <;> omega
    · trivial
    · trivial
theorem enterSt_self_none (st : Option Active) : enterSt st none = st := by
  cases st <;> rfl

theorem validOf_stateActive (st : Option Active) (ts : Nat) : validOf (some (stateActive st ts)) = validOf st := by
  cases st with
  | none => simp [stateActive, validOf_some, validOf_none, TP.empty, TP.valid]
  | some a => simp [stateActive, validOf_some]

theorem below_stateActive (st : Option Active) (ts n : Nat) (hb : Below st n) : Below (some (stateActive st ts)) n := by
  intro a k h1 h2
  cases st with
  | none => cases h1; simp [stateActive, TP.empty] at h2
  | some b => cases h1; exact hb b k rfl (by simpa [stateActive] using h2)

theorem run_main_span (c : Cfg) (cs : List Prog) (e : Env) (hb : Below e.st e.rng)
    (ih : ∀ e' : Env, Below e'.st e'.rng →
      e'.rng ≤ (runList c cs e').rng ∧ (runList c cs e').calls = e'.calls + rootsList c.hasSampler (validOf e'.st) cs) :
    e.rng ≤ (run c (.span cs) e).rng ∧
    (run c (.span cs) e).calls = e.calls + ((if validOf e.st then 0 else if c.hasSampler then 1 else 0) + rootsList c.hasSampler true cs) := by
  simp only [run, openSpan_eq_spec c e hb]
  obtain ⟨a', hslot, hval, hsid, hrng, hcalls, hst⟩ := openSpec_facts c e
  simp only [hslot, enterSt, completeSpan_rng, completeSpan_calls]
  have hb' : Below (some a') (openSpec c e).2.2.2.rng := by
    intro a k h1 h2; cases h1; rw [hsid] at h2; cases h2; exact Nat.le_refl _
  have := ih { (openSpec c e).2.2.2 with st := some a' } hb'
  simp only [validOf_some, hval] at this
  omega

theorem run_main (c : Cfg) : ∀ (p : Prog) (e : Env), ExtOnly p → Below e.st e.rng →
    e.rng ≤ (run c p e).rng ∧ (run c p e).calls = e.calls + roots c.hasSampler (validOf e.st) p
  | .event, e, _, _ => by simp [run, observeEvent, roots]
  | .spanEvent, e, _, hb => by
    simp only [run, roots, emitSpanEvent_eq_open, openSpan_eq_spec c e hb]
    obtain ⟨_, _, _, _, hrng, hcalls, _⟩ := openSpec_facts c e
    exact ⟨hrng, hcalls⟩
  | .span cs, e, hx, hb => by
    simp only [roots]
    exact run_main_span c cs e hb (fun e' hb' => run_list c cs e' (by simpa [ExtOnly] using hx) hb')
  | .spanAsync cs, e, hx, hb => by
    rw [run_spanAsync_eq]; simp only [roots]
    exact run_main_span c cs e hb (fun e' hb' => run_list c cs e' (by simpa [ExtOnly] using hx) hb')
  | .spanThread cs, e, hx, hb => by
    simp only [run, openSpan_eq_spec c e hb]
    obtain ⟨a', hslot, hval, hsid, hrng, hcalls, hst⟩ := openSpec_facts c e
    simp only [hslot, enterSt, completeSpan_rng, completeSpan_calls]
    have hb' : Below (some a') (openSpec c e).2.2.2.rng := by
      intro a k h1 h2; cases h1; rw [hsid] at h2; cases h2; exact Nat.le_refl _
    have := run_list c cs { (openSpec c e).2.2.2 with st := some a' } (by simpa [ExtOnly] using hx) hb'
    simp only [validOf_some, hval] at this
    simp only [roots]
    omega
  | .push tp cs, e, hx, hb => by
    simp only [run, roots]
    simp only [ExtOnly] at hx
    have hb' : Below (some (pushedActive e.st tp)) e.rng := by
      intro a k h1 h2; cases h1; exact absurd h2 (hx.1 k)
    have := run_list c cs { e with st := some (pushedActive e.st tp) } hx.2 hb'
    simpa [validOf_some, pushedActive] using this
  | .pushState ts cs, e, hx, hb => by
    simp only [run, roots]
    have hb' : Below (some (stateActive e.st ts)) e.rng := below_stateActive e.st ts e.rng hb
    have := run_list c cs { e with st := some (stateActive e.st ts) } (by simpa [ExtOnly] using hx) hb'
    simpa [validOf_stateActive] using this
  | .pushBoth tp ts cs, e, hx, hb => by
    simp only [run, roots]
    simp only [ExtOnly] at hx
    have hb' : Below (some (bothActive e.st tp ts)) e.rng := by
      intro a k h1 h2; cases h1; exact absurd h2 (hx.1 k)
    have := run_list c cs { e with st := some (bothActive e.st tp ts) } hx.2 hb'
    simpa [validOf_some, bothActive, pushedActive] using this
  | .carry cs, e, hx, hb => by
    simp only [run, roots, enterSt_self_none]
    have := run_list c cs { e with st := e.st } (by simpa [ExtOnly] using hx) hb
    simpa using this
  where run_list (c : Cfg) : ∀ (ps : List Prog) (e : Env), ExtOnlyList ps → Below e.st e.rng →
    e.rng ≤ (runList c ps e).rng ∧ (runList c ps e).calls = e.calls + rootsList c.hasSampler (validOf e.st) ps
  | [], e, _, _ => by simp [runList, rootsList]
  | p :: ps, e, hx, hb => by
    simp only [ExtOnlyList] at hx
    simp only [runList, rootsList]
    have h1 := run_main c p e hx.1 hb
    have hst : (run c p e).st = e.st := restore c p e
    have hb' : Below (run c p e).st (run c p e).rng := by
      intro a k h2 h3; rw [hst] at h2; exact Nat.le_trans (hb a k h2 h3) h1.1
    have h2 := run_list c ps (run c p e) hx.2 hb'
    rw [hst] at h2
    omega

/-! ### Property theorems -/

/-- **Restore.** Whatever a program does — spans, spans moved to other threads, pushed headers, carried
    frames, to any depth — the thread's current traceparent afterwards is exactly what it was before. -/
theorem restore_after (c : Cfg) (p : Prog) (e : Env) : (run c p e).st = e.st := restore c p e

/-- **The sampler runs once per new trace, at its root span.** The number of sampler calls a program makes is
    exactly its number of root spans: spans opened where no valid traceparent is active (no enclosing span, no
    valid pushed header). Never for a child span, never under a valid incoming header, and a carried frame
    continues the trace. For every program, sampler and starting state (rng ids fresh: `Below`). -/
theorem sampler_once_per_root (c : Cfg) (p : Prog) (e : Env) (hx : ExtOnly p) (hb : Below e.st e.rng) :
    (run c p e).calls = e.calls + roots c.hasSampler (validOf e.st) p :=
  (run_main c p e hx hb).2

mutual
def NoPush : Prog → Prop
  | .event => True
  | .spanEvent => True
  | .span cs => NoPushList cs
  | .spanThread cs => NoPushList cs
  | .spanAsync cs => NoPushList cs
  | .push _ _ => False
  | .pushState _ cs => NoPushList cs      -- pushing a tracestate does not touch the traceparent
  | .pushBoth _ _ _ => False
  | .carry cs => NoPushList cs
def NoPushList : List Prog → Prop
  | [] => True
  | p :: ps => NoPush p ∧ NoPushList ps
end

theorem extOnly_of_noPush : ∀ (p : Prog), NoPush p → ExtOnly p
  | .event, _ => trivial
  | .spanEvent, _ => trivial
  | .span cs, h => by simp only [ExtOnly]; exact list cs (by simpa [NoPush] using h)
  | .spanThread cs, h => by simp only [ExtOnly]; exact list cs (by simpa [NoPush] using h)
  | .spanAsync cs, h => by simp only [ExtOnly]; exact list cs (by simpa [NoPush] using h)
  | .push _ _, h => by simp [NoPush] at h
  | .pushState _ cs, h => by simp only [ExtOnly]; exact list cs (by simpa [NoPush] using h)
  | .pushBoth _ _ _, h => by simp [NoPush] at h
  | .carry cs, h => by simp only [ExtOnly]; exact list cs (by simpa [NoPush] using h)
  where list : ∀ (ps : List Prog), NoPushList ps → ExtOnlyList ps
  | [], _ => trivial
  | p :: ps, h => by
    simp only [NoPushList] at h
    exact ⟨extOnly_of_noPush p h.1, list ps h.2⟩

/-- What "silent" means for one observation. -/
def Silent : Obs → Prop
  | .sampler _ _ _ => False
  | .spanOpen enabled _ => enabled = false
  | .spanDone _ => False
  | .event cur _ ids _ passIn => cur.sampled = false ∧ ids = Ids.empty ∧ passIn = false
  -- a span emitted as an event is rejected by both filters (so the runtime does not emit it)
  | .spanEvent _ pass passIn => pass = false ∧ passIn = false

/-- What "inside the sampled trace `t`" means for one observation. -/
def InTrace (t : Option Id) : Obs → Prop
  | .sampler _ _ _ => False
  | .spanOpen enabled ids => enabled = true ∧ ids.traceId = t
  | .spanDone ids => ids.traceId = t ∧ ids.spanId.isSome = true
  | .event cur _ ids _ passIn =>
    cur.traceId = t ∧ cur.sampled = true ∧ passIn = true ∧ ids.traceId = t ∧ ids.spanId = cur.spanId
  -- a span emitted as an event passes both filters and is in the trace
  | .spanEvent ids pass passIn => pass = true ∧ passIn = true ∧ ids.traceId = t ∧ ids.spanId.isSome = true

theorem openSpec_unsampled (c : Cfg) (e : Env) (a : Active) (hst : e.st = some a) (hv : a.tp.valid = true)
    (hs : a.tp.sampled = false) :
    ∃ child seen sid n, openSpec c e = (false, child, some ⟨⟨a.tp.traceId, some sid, 0⟩, a.tp.spanId, a.state⟩,
      { e with rng := n, out := .spanOpen false seen :: e.out }) ∧ sid = .gen n ∧ e.rng ≤ n := by
  unfold openSpec
  simp only [hst, Option.filter, hv, hs, if_true]
  exact ⟨_, _, _, _, rfl, rfl, by split <;> omega⟩

theorem openSpec_sampled (c : Cfg) (e : Env) (a : Active) (hst : e.st = some a) (hv : a.tp.valid = true)
    (hs : a.tp.sampled = true) :
    openSpec c e = (true, ⟨a.tp.traceId, a.tp.spanId, some (.gen (e.rng + 1))⟩,
      some ⟨⟨a.tp.traceId, some (.gen (e.rng + 1)), a.tp.flags % 256⟩, a.tp.spanId, a.state⟩,
      { e with rng := e.rng + 1, out := .spanOpen true ⟨a.tp.traceId, a.tp.spanId, some (.gen (e.rng + 1))⟩ :: e.out }) := by
  have ht : a.tp.traceId.isSome = true := by simp only [TP.valid] at hv; simp_all
  have hsp : a.tp.spanId.isSome = true := by simp only [TP.valid] at hv; simp_all
  obtain ⟨sp, hsp'⟩ := Option.isSome_iff_exists.mp hsp
  unfold openSpec
  simp [hst, Option.filter, hv, hs, ambientIds, ht, hsp']

theorem valid_child (a : Active) (sid : Traceparent.Id) (f : Nat) (hv : a.tp.valid = true) :
    (⟨a.tp.traceId, some sid, f⟩ : TP).valid = true := by
  simp only [TP.valid, Bool.and_eq_true, Option.isSome_some, and_true] at hv ⊢
  exact hv.1

theorem unsampled_span (c : Cfg) (cs : List Prog) (e : Env) (a : Active) (hb : Below e.st e.rng)
    (hst : e.st = some a) (hv : a.tp.valid = true) (hs : a.tp.sampled = false)
    (ih : ∀ (e' : Env) (a' : Active), Below e'.st e'.rng → e'.st = some a' → a'.tp.valid = true →
      a'.tp.sampled = false → ∀ o ∈ (runList c cs e').out, o ∈ e'.out ∨ Silent o) :
    ∀ o ∈ (run c (.span cs) e).out, o ∈ e.out ∨ Silent o := by
  intro o ho
  simp only [run, openSpan_eq_spec c e hb] at ho
  obtain ⟨child, seen, sid, n, hopen, hsid, hn'⟩ := openSpec_unsampled c e a hst hv hs
  simp only [hopen, enterSt, completeSpan, Bool.false_eq_true, if_false] at ho
  have hb' : Below (some ⟨⟨a.tp.traceId, some sid, 0⟩, a.tp.spanId, a.state⟩) n := by
    intro a' k h1 h2; cases h1; subst hsid; cases h2; exact Nat.le_refl _
  have := ih _ _ hb' rfl (valid_child a sid 0 hv) (by simp [TP.sampled]) o ho
  rcases this with h | h
  · simp only [List.mem_cons] at h
    rcases h with rfl | h
    · right; simp [Silent]
    · exact Or.inl h
  · exact Or.inr h

/-- **Unsampled traces are silent.** Inside an unsampled trace (a valid, unsampled traceparent is active) no
    span is enabled, no span event is emitted, the sampler is not consulted, the current traceparent reports
    unsampled, no ids are visible, and the sampled-trace filter rejects every event — for every subtree,
    including bodies moved to other threads and carried frames. -/
theorem unsampled_silent (c : Cfg) : ∀ (p : Prog) (e : Env) (a : Active), NoPush p → Below e.st e.rng →
    e.st = some a → a.tp.valid = true → a.tp.sampled = false →
    ∀ o ∈ (run c p e).out, o ∈ e.out ∨ Silent o
  | .event, e, a, _, _, hst, _, hs => by
    intro o ho
    simp only [run, observeEvent, hst, List.mem_cons] at ho
    rcases ho with rfl | ho
    · right; simp [Silent, current, ambientIds, hs]
    · exact Or.inl ho
  | .spanEvent, e, a, _, hb, hst, hv, hs => by
    intro o ho
    obtain ⟨child, seen, sid, n, hopen, _, _⟩ := openSpec_unsampled c e a hst hv hs
    simp only [run, emitSpanEvent_eq_open, openSpan_eq_spec c e hb, hopen, asSpanEvent, passInSampled, hst,
      List.mem_cons] at ho
    rcases ho with rfl | ho
    · right; simp [Silent, hs]
    · exact Or.inl ho
  | .span cs, e, a, hn, hb, hst, hv, hs =>
    unsampled_span c cs e a hb hst hv hs
      (fun e' a' hb' hst' hv' hs' => unsampled_list c cs e' a' (by simpa [NoPush] using hn) hb' hst' hv' hs')
  | .spanAsync cs, e, a, hn, hb, hst, hv, hs => by
    rw [run_spanAsync_eq]
    exact unsampled_span c cs e a hb hst hv hs
      (fun e' a' hb' hst' hv' hs' => unsampled_list c cs e' a' (by simpa [NoPush] using hn) hb' hst' hv' hs')
  | .spanThread cs, e, a, hn, hb, hst, hv, hs => by
    intro o ho
    simp only [run, openSpan_eq_spec c e hb] at ho
    obtain ⟨child, seen, sid, n, hopen, hsid, hn'⟩ := openSpec_unsampled c e a hst hv hs
    simp only [hopen, enterSt, completeSpan, Bool.false_eq_true, if_false] at ho
    have hb' : Below (some ⟨⟨a.tp.traceId, some sid, 0⟩, a.tp.spanId, a.state⟩) n := by
      intro a' k h1 h2; cases h1; subst hsid; cases h2; exact Nat.le_refl _
    have := unsampled_list c cs _ _ (by simpa [NoPush] using hn) hb' rfl
      (valid_child a sid 0 hv) (by simp [TP.sampled]) o ho
    rcases this with h | h
    · simp only [List.mem_cons] at h
      rcases h with rfl | h
      · right; simp [Silent]
      · exact Or.inl h
    · exact Or.inr h
  | .push _ _, _, _, hn, _, _, _, _ => by simp [NoPush] at hn
  | .pushBoth _ _ _, _, _, hn, _, _, _, _ => by simp [NoPush] at hn
  | .pushState ts cs, e, a, hn, hb, hst, hv, hs => by
    intro o ho
    simp only [run] at ho
    have hb' : Below (some (stateActive e.st ts)) e.rng := below_stateActive e.st ts e.rng hb
    have hsa : stateActive e.st ts = { a with state := ts } := by simp [stateActive, hst]
    exact unsampled_list c cs { e with st := some (stateActive e.st ts) } { a with state := ts }
      (by simpa [NoPush] using hn) hb' (by simp [hsa]) hv hs o (by simpa using ho)
  | .carry cs, e, a, hn, hb, hst, hv, hs => by
    intro o ho
    simp only [run, enterSt_self_none] at ho
    exact unsampled_list c cs e a (by simpa [NoPush] using hn) hb hst hv hs o (by simpa using ho)
  where unsampled_list (c : Cfg) : ∀ (ps : List Prog) (e : Env) (a : Active), NoPushList ps → Below e.st e.rng →
    e.st = some a → a.tp.valid = true → a.tp.sampled = false →
    ∀ o ∈ (runList c ps e).out, o ∈ e.out ∨ Silent o
  | [], e, _, _, _, _, _, _ => by intro o ho; exact Or.inl ho
  | p :: ps, e, a, hn, hb, hst, hv, hs => by
    intro o ho
    simp only [NoPushList] at hn
    simp only [runList] at ho
    have hst' : (run c p e).st = some a := by rw [restore c p e, hst]
    have hmono := (run_main c p e (extOnly_of_noPush p hn.1) hb).1
    have hb' : Below (run c p e).st (run c p e).rng := by
      intro a' k h2 h3; rw [restore c p e] at h2; exact Nat.le_trans (hb a' k h2 h3) hmono
    rcases unsampled_list c ps (run c p e) a hn.2 hb' hst' hv hs o ho with h | h
    · exact unsampled_silent c p e a hn.1 hb hst hv hs o h
    · exact Or.inr h

theorem sampled_span (c : Cfg) (cs : List Prog) (e : Env) (a : Active) (hb : Below e.st e.rng)
    (hst : e.st = some a) (hv : a.tp.valid = true) (hs : a.tp.sampled = true)
    (ih : ∀ (e' : Env) (a' : Active), Below e'.st e'.rng → e'.st = some a' → a'.tp.valid = true →
      a'.tp.sampled = true → ∀ o ∈ (runList c cs e').out, o ∈ e'.out ∨ InTrace a'.tp.traceId o) :
    ∀ o ∈ (run c (.span cs) e).out, o ∈ e.out ∨ InTrace a.tp.traceId o := by
  intro o ho
  simp only [run, openSpan_eq_spec c e hb, openSpec_sampled c e a hst hv hs, enterSt, completeSpan,
    if_true, List.mem_cons] at ho
  have hv' : (⟨a.tp.traceId, some (.gen (e.rng + 1)), a.tp.flags % 256⟩ : TP).valid = true :=
    valid_child a _ _ hv
  have hs' : (⟨a.tp.traceId, some (.gen (e.rng + 1)), a.tp.flags % 256⟩ : TP).sampled = true := by
    simp only [TP.sampled] at hs ⊢
    have : a.tp.flags % 2 = 1 := by simpa using hs
    have : a.tp.flags % 256 % 2 = 1 := by omega
    simpa using this
  have hb' : Below (some ⟨⟨a.tp.traceId, some (.gen (e.rng + 1)), a.tp.flags % 256⟩, a.tp.spanId, a.state⟩) (e.rng + 1) := by
    intro a' k h1 h2; cases h1; cases h2; exact Nat.le_refl _
  rcases ho with rfl | ho
  · right
    rw [restore.restoreList c cs]
    simp [InTrace, ambientIds, hs']
  · have := ih _ _ hb' rfl hv' hs' o ho
    rcases this with h | h
    · simp only [List.mem_cons] at h
      rcases h with rfl | h
      · right; simp [InTrace]
      · exact Or.inl h
    · exact Or.inr h

/-- **Sampled traces: everything is emitted and carries the trace.** Inside a sampled trace every span is
    enabled and emitted, shares the trace id, the sampler is not consulted again, every event passes the
    sampled-trace filter, and the current traceparent is sampled, in the trace, with the span id that is also
    the ambient span id. -/
theorem sampled_in_trace (c : Cfg) : ∀ (p : Prog) (e : Env) (a : Active), NoPush p → Below e.st e.rng →
    e.st = some a → a.tp.valid = true → a.tp.sampled = true →
    ∀ o ∈ (run c p e).out, o ∈ e.out ∨ InTrace a.tp.traceId o
  | .event, e, a, _, _, hst, _, hs => by
    intro o ho
    simp only [run, observeEvent, hst, List.mem_cons] at ho
    rcases ho with rfl | ho
    · right; simp [InTrace, current, ambientIds, hs]
    · exact Or.inl ho
  | .spanEvent, e, a, _, hb, hst, hv, hs => by
    intro o ho
    simp only [run, emitSpanEvent_eq_open, openSpan_eq_spec c e hb, openSpec_sampled c e a hst hv hs, asSpanEvent,
      passInSampled, hst, List.mem_cons] at ho
    rcases ho with rfl | ho
    · right; simp [InTrace, hs]
    · exact Or.inl ho
  | .span cs, e, a, hn, hb, hst, hv, hs =>
    sampled_span c cs e a hb hst hv hs
      (fun e' a' hb' hst' hv' hs' => sampled_list c cs e' a' (by simpa [NoPush] using hn) hb' hst' hv' hs')
  | .spanAsync cs, e, a, hn, hb, hst, hv, hs => by
    rw [run_spanAsync_eq]
    exact sampled_span c cs e a hb hst hv hs
      (fun e' a' hb' hst' hv' hs' => sampled_list c cs e' a' (by simpa [NoPush] using hn) hb' hst' hv' hs')
  | .spanThread cs, e, a, hn, hb, hst, hv, hs => by
    intro o ho
    simp only [run, openSpan_eq_spec c e hb, openSpec_sampled c e a hst hv hs, enterSt, completeSpan,
      if_true, List.mem_cons] at ho
    have hv' : (⟨a.tp.traceId, some (.gen (e.rng + 1)), a.tp.flags % 256⟩ : TP).valid = true :=
      valid_child a _ _ hv
    have hs' : (⟨a.tp.traceId, some (.gen (e.rng + 1)), a.tp.flags % 256⟩ : TP).sampled = true := by
      simp only [TP.sampled] at hs ⊢
      have : a.tp.flags % 2 = 1 := by simpa using hs
      have : a.tp.flags % 256 % 2 = 1 := by omega
      simpa using this
    have hb' : Below (some ⟨⟨a.tp.traceId, some (.gen (e.rng + 1)), a.tp.flags % 256⟩, a.tp.spanId, a.state⟩) (e.rng + 1) := by
      intro a' k h1 h2; cases h1; cases h2; exact Nat.le_refl _
    rcases ho with rfl | ho
    · right
      rw [restore.restoreList c cs]
      simp [InTrace, ambientIds, hs']
    · have := sampled_list c cs _ _ (by simpa [NoPush] using hn) hb' rfl hv' hs' o ho
      rcases this with h | h
      · simp only [List.mem_cons] at h
        rcases h with rfl | h
        · right; simp [InTrace]
        · exact Or.inl h
      · exact Or.inr h
  | .push _ _, _, _, hn, _, _, _, _ => by simp [NoPush] at hn
  | .pushBoth _ _ _, _, _, hn, _, _, _, _ => by simp [NoPush] at hn
  | .pushState ts cs, e, a, hn, hb, hst, hv, hs => by
    intro o ho
    simp only [run] at ho
    have hb' : Below (some (stateActive e.st ts)) e.rng := below_stateActive e.st ts e.rng hb
    have hsa : stateActive e.st ts = { a with state := ts } := by simp [stateActive, hst]
    exact sampled_list c cs { e with st := some (stateActive e.st ts) } { a with state := ts }
      (by simpa [NoPush] using hn) hb' (by simp [hsa]) hv hs o (by simpa using ho)
  | .carry cs, e, a, hn, hb, hst, hv, hs => by
    intro o ho
    simp only [run, enterSt_self_none] at ho
    exact sampled_list c cs e a (by simpa [NoPush] using hn) hb hst hv hs o (by simpa using ho)
  where sampled_list (c : Cfg) : ∀ (ps : List Prog) (e : Env) (a : Active), NoPushList ps → Below e.st e.rng →
    e.st = some a → a.tp.valid = true → a.tp.sampled = true →
    ∀ o ∈ (runList c ps e).out, o ∈ e.out ∨ InTrace a.tp.traceId o
  | [], e, _, _, _, _, _, _ => by intro o ho; exact Or.inl ho
  | p :: ps, e, a, hn, hb, hst, hv, hs => by
    intro o ho
    simp only [NoPushList] at hn
    simp only [runList] at ho
    have hst' : (run c p e).st = some a := by rw [restore c p e, hst]
    have hmono := (run_main c p e (extOnly_of_noPush p hn.1) hb).1
    have hb' : Below (run c p e).st (run c p e).rng := by
      intro a' k h2 h3; rw [restore c p e] at h2; exact Nat.le_trans (hb a' k h2 h3) hmono
    rcases sampled_list c ps (run c p e) a hn.2 hb' hst' hv hs o ho with h | h
    · exact sampled_in_trace c p e a hn.1 hb hst hv hs o h
    · exact Or.inr h

/-- **The current traceparent is (trace id, innermost span id, flags).** A span opened inside a sampled trace
    runs its children with `Traceparent::current() = (the trace id, the span's own fresh id, the inherited
    flags)` and `span_parent` = the id of the span it is directly nested in (or of the pushed header); on
    completion it emits exactly one span event with those ids; afterwards the previous traceparent is back. -/
theorem span_in_sampled_trace (c : Cfg) (cs : List Prog) (e : Env) (a : Active) (hb : Below e.st e.rng)
    (hst : e.st = some a) (hv : a.tp.valid = true) (hs : a.tp.sampled = true) :
    let sid := Id.gen (e.rng + 1)
    let inner : Active := ⟨⟨a.tp.traceId, some sid, a.tp.flags % 256⟩, a.tp.spanId, a.state⟩
    let e2 := runList c cs { e with st := some inner, rng := e.rng + 1,
                                    out := .spanOpen true ⟨a.tp.traceId, a.tp.spanId, some sid⟩ :: e.out }
    run c (.span cs) e = { e2 with st := e.st, out := .spanDone ⟨a.tp.traceId, a.tp.spanId, some sid⟩ :: e2.out } := by
  have hs' : (⟨a.tp.traceId, some (.gen (e.rng + 1)), a.tp.flags % 256⟩ : TP).sampled = true := by
    simp only [TP.sampled] at hs ⊢
    have : a.tp.flags % 2 = 1 := by simpa using hs
    have : a.tp.flags % 256 % 2 = 1 := by omega
    simpa using this
  simp only [run, openSpan_eq_spec c e hb, openSpec_sampled c e a hst hv hs, enterSt, exitSt, completeSpan, if_true]
  rw [restore.restoreList c cs]
  simp [ambientIds, hs', hst]

/-- An event reports exactly the active traceparent; ids are visible only when it is sampled. -/
theorem event_reports_current (c : Cfg) (e : Env) (a : Active) (hst : e.st = some a) :
    run c .event e = { e with out := .event a.tp a.state (if a.tp.sampled then ⟨a.tp.traceId, a.spanParent, a.tp.spanId⟩ else Ids.empty)
                                      true a.tp.sampled :: e.out } := by
  simp [run, observeEvent, hst, current, currentState, ambientIds]

/-- **An incoming header makes the next spans children of the caller's span.** Under a pushed valid sampled
    header a span gets the header's trace id and the header's span id as its parent, without a sampler call. -/
theorem pushed_header_parents_spans (c : Cfg) (tp : TP) (cs : List Prog) (e : Env)
    (hx : ∀ k, tp.spanId ≠ some (.gen k)) (hv : tp.valid = true) (hs : tp.sampled = true) :
    let sid := Id.gen (e.rng + 1)
    let inner : Active := ⟨⟨tp.traceId, some sid, tp.flags % 256⟩, tp.spanId, currentState e.st⟩
    let e2 := runList c cs { e with st := some inner, rng := e.rng + 1,
                                    out := .spanOpen true ⟨tp.traceId, tp.spanId, some sid⟩ :: e.out }
    run c (.push tp [.span cs]) e = { e2 with st := e.st, out := .spanDone ⟨tp.traceId, tp.spanId, some sid⟩ :: e2.out } := by
  have hb : Below (some (pushedActive e.st tp)) e.rng := by
    intro a k h1 h2; cases h1; exact absurd h2 (hx k)
  have h := span_in_sampled_trace c cs { e with st := some (pushedActive e.st tp) } (pushedActive e.st tp) hb rfl
    (by simpa [pushedActive] using hv) (by simpa [pushedActive] using hs)
  have hpush : ∀ ps, run c (.push tp ps) e =
      { runList c ps { e with st := some (pushedActive e.st tp) } with st := e.st } := fun ps => by simp [run]
  have hone : ∀ (p : Prog) (e' : Env), runList c [p] e' = run c p e' := fun p e' => by simp [runList]
  rw [hpush, hone, h]
  simp [pushedActive]

/-- **Async spans behave like sync spans.** A span whose body is a future polled once per segment (the frame is
    entered and exited around every poll, swapping its slot with the thread's traceparent each time) makes
    exactly the observations of the span whose body runs inside one entered frame. -/
theorem async_polls_transparent (c : Cfg) (cs : List Prog) (e : Env) :
    run c (.spanAsync cs) e = run c (.span cs) e := run_spanAsync_eq c cs e

/-- **Without a sampler every new trace is sampled** and nothing is consulted: a root span opened by a
    sampler-less `TraceparentFilter` is enabled, its trace is sampled, the call count does not move — while a
    span under a valid traceparent still inherits that traceparent's flag (`openSpec`'s other branch). -/
theorem root_without_sampler_is_sampled (c : Cfg) (e : Env) (hns : c.hasSampler = false)
    (hv : validOf e.st = false) :
    (openSpec c e).1 = true ∧ (openSpec c e).2.2.2.calls = e.calls ∧
    ∃ a, (openSpec c e).2.2.1 = some a ∧ a.tp.sampled = true ∧ a.spanParent = none := by
  have hf : e.st.filter (fun a => a.tp.valid) = none := by
    cases h : e.st.filter (fun a => a.tp.valid) with
    | none => rfl
    | some a => simp [validOf, h] at hv
  unfold openSpec
  simp only [hf, hns, Bool.false_eq_true, if_false]
  exact ⟨trivial, trivial, _, rfl, by simp [TP.sampled], rfl⟩

/-! ### Spans emitted as events (no guard) are governed by the same decision -/

/-- **A manual span gets the verdict a guard would get.** A completed span emitted as an event through the
    runtime (range extent, `evt_kind: span`, ids of a new child of the current span context) is accepted by
    `TraceparentFilter` exactly when `SpanGuard::new` at the same point would have been enabled; it draws the same
    ids, costs the same sampler calls and logs the same sampler observation — and leaves the thread's traceparent
    alone (no frame). For every configuration and state, no freshness assumption. -/
theorem span_event_filtered_like_span_start (c : Cfg) (e : Env) :
    (run c .spanEvent e).st = e.st ∧
    (run c .spanEvent e).rng = (openSpan c e).2.2.2.rng ∧
    (run c .spanEvent e).calls = (openSpan c e).2.2.2.calls ∧
    ∃ seen rest, (openSpan c e).2.2.2.out = .spanOpen (openSpan c e).1 seen :: rest ∧
      (run c .spanEvent e).out = .spanEvent seen (openSpan c e).1 (passInSampled c e.st) :: rest := by
  refine ⟨by simp [run], rfl, rfl, _, _, rfl, rfl⟩

/-- **Inside an unsampled trace a span emitted as an event is rejected**, whatever its extent: under a valid
    unsampled traceparent `TraceparentFilter` answers `false` (so the runtime does not emit it), so does
    `InSampledTraceFilter`, the sampler is not called and nothing else is logged. -/
theorem span_event_in_unsampled_trace_rejected (c : Cfg) (e : Env) (a : Active) (hb : Below e.st e.rng)
    (hst : e.st = some a) (hv : a.tp.valid = true) (hs : a.tp.sampled = false) :
    ∃ seen n, e.rng ≤ n ∧
      run c .spanEvent e = { e with rng := n, out := .spanEvent seen false false :: e.out } := by
  obtain ⟨child, seen, sid, n, hopen, _, hn⟩ := openSpec_unsampled c e a hst hv hs
  refine ⟨seen, n, hn, ?_⟩
  simp only [run, emitSpanEvent_eq_open, openSpan_eq_spec c e hb, hopen, asSpanEvent, passInSampled, hst, hs]

/-- **Inside a sampled trace a span emitted as an event is accepted and belongs to the trace**: both filters
    answer `true`, the span carries the trace id, the current span id as its parent and one fresh span id; the
    sampler is not called. -/
theorem span_event_in_sampled_trace_accepted (c : Cfg) (e : Env) (a : Active) (hb : Below e.st e.rng)
    (hst : e.st = some a) (hv : a.tp.valid = true) (hs : a.tp.sampled = true) :
    run c .spanEvent e =
      { e with rng := e.rng + 1,
               out := .spanEvent ⟨a.tp.traceId, a.tp.spanId, some (.gen (e.rng + 1))⟩ true true :: e.out } := by
  simp only [run, emitSpanEvent_eq_open, openSpan_eq_spec c e hb, openSpec_sampled c e a hst hv hs, asSpanEvent,
    passInSampled, hst, hs]

/-- **Outside any trace a span emitted as an event is a trace of its own**: with a sampler configured the sampler
    is consulted exactly once and its answer is the verdict; without one the span is accepted and nothing is
    consulted. `InSampledTraceFilter` answers as configured for events outside traces when nothing at all is
    active. -/
theorem span_event_outside_trace (c : Cfg) (e : Env) (hv : validOf e.st = false) :
    ∃ seen rest, (run c .spanEvent e).out = .spanEvent seen (if c.hasSampler then c.decide e.calls else true)
        (passInSampled c e.st) :: rest ∧
      (run c .spanEvent e).calls = e.calls + (if c.hasSampler then 1 else 0) ∧
      (c.hasSampler = false → rest = e.out) := by
  have hf : e.st.filter (fun a => a.tp.valid) = none := by
    cases h : e.st.filter (fun a => a.tp.valid) with
    | none => rfl
    | some a => simp [validOf, h] at hv
  -- an invalid active traceparent is ignored by `incoming`: no freshness assumption is needed
  simp only [run, emitSpanEvent, incoming, hf, passInSampled]
  cases c.hasSampler
  · simp [applyMask, TP.sampled]; cases e.st <;> rfl
  · cases c.decide e.calls <;> simp [maskIsSampled, applyMask, TP.sampled] <;> cases e.st <;> rfl

/-- **Defect (before the fix)**: a frame captured with `Frame::current` was inactive, so on a fresh thread the
    trace was lost: no active traceparent there. -/
theorem carry_unfixed_loses_trace (st : Option Active) : carryUnfixedInside st = none := rfl

/-! ### Tracestate travels with the traceparent and never changes the decision -/

/-- **Pushing a tracestate does not touch the trace.** Under `Tracestate::push` the current traceparent, the
    ambient ids, whether a valid traceparent is active (so whether the next span is a root and costs a sampler
    call) and the sampled flag are exactly what they were; only `Tracestate::current()` changes. -/
theorem push_state_keeps_traceparent (st : Option Active) (ts : Nat) :
    current (some (stateActive st ts)) = current st ∧
    ambientIds (some (stateActive st ts)) = ambientIds st ∧
    validOf (some (stateActive st ts)) = validOf st ∧
    currentState (some (stateActive st ts)) = ts := by
  cases st with
  | none => simp [stateActive, current, ambientIds, validOf_some, validOf_none, TP.empty, TP.valid, TP.sampled, Ids.empty, currentState]
  | some a => exact ⟨rfl, rfl, by simp [validOf_some, stateActive], rfl⟩

/-- **`emit_traceparent::push(tp, ts)` is `Traceparent::push(tp)` with `Tracestate::push(ts)` inside it** (the
    free function carries its own copy of the span-parent rule; this says the copy agrees). -/
theorem push_both_is_push_then_state (c : Cfg) (tp : TP) (ts : Nat) (cs : List Prog) (e : Env) :
    run c (.pushBoth tp ts cs) e = run c (.push tp [.pushState ts cs]) e := by
  simp [run, runList, bothActive, stateActive]

/-- **Children inherit the tracestate, a new trace starts with the empty one.** The frame of a span opened
    under a valid traceparent carries that traceparent's tracestate; a root span's frame carries the empty
    tracestate (whatever an invalid active traceparent held). -/
theorem span_tracestate (c : Cfg) (e : Env) :
    ∃ a', (openSpec c e).2.2.1 = some a' ∧
      a'.state = (match e.st.filter (fun a => a.tp.valid) with | some a => a.state | none => 0) := by
  unfold openSpec
  cases hf : e.st.filter (fun a => a.tp.valid) with
  | none => dsimp only; cases c.hasSampler <;> exact ⟨_, rfl, rfl⟩
  | some a => exact ⟨_, rfl, rfl⟩

/-- A traceparent pushed by header keeps the tracestate in force. -/
theorem push_keeps_state (st : Option Active) (tp : TP) : (pushedActive st tp).state = currentState st := rfl

/-! ### Non-vacuity -/
private def cfg0 : Cfg := ⟨true, [true, false], false⟩
example : (run cfg0 (.span [.event, .span [.event]]) env0).calls = 1 := by decide
example : (run cfg0 (.span [.carry [.span []], .spanThread [.event]]) env0).calls = 1 := by decide
example : roots true false (.span [.span [], .push ⟨none, none, 1⟩ [.span []]]) = 2 := by decide
example : roots false false (.span [.span [], .push ⟨none, none, 1⟩ [.span []]]) = 0 := by decide
-- a tracestate pushed inside a trace is seen by events in child spans; the sampler still runs once
example : (run cfg0 (.span [.pushState 7 [.span [.event]]]) env0).calls = 1 := by decide
example : ((run cfg0 (.span [.pushState 7 [.span [.event]]]) env0).out.any fun o =>
    match o with | .event _ 7 _ _ _ => true | _ => false) = true := by decide
-- … while one pushed outside any trace is dropped when a root span starts
example : ((run cfg0 (.pushState 7 [.span [.event]]) env0).out.any fun o =>
    match o with | .event _ 0 _ _ _ => true | _ => false) = true := by decide

-- spans emitted as events: an unsampled trace rejects them without a sampler call …
private def unsampledEnv : Env := ⟨some ⟨⟨some (.ext 1000001), some (.ext 1000000), 0⟩, none, 0⟩, 0, 0, []⟩
private def sampledEnv : Env := ⟨some ⟨⟨some (.ext 1000001), some (.ext 1000000), 1⟩, none, 0⟩, 0, 0, []⟩
example : Below unsampledEnv.st unsampledEnv.rng ∧ Below sampledEnv.st sampledEnv.rng := by
  constructor <;> (intro a k h1 h2; cases h1; cases h2)
example : run cfg0 .spanEvent unsampledEnv =
    { unsampledEnv with rng := 2, out := [.spanEvent ⟨some (.gen 1), none, some (.gen 2)⟩ false false] } := by decide
-- … a sampled one accepts them as children of the current span …
example : run cfg0 .spanEvent sampledEnv =
    { sampledEnv with rng := 1, out := [.spanEvent ⟨some (.ext 1000001), some (.ext 1000000), some (.gen 1)⟩ true true] } := by
  decide
-- … and outside any trace each one is a root of its own: the sampler decides, one call each
example : (runList cfg0 [.spanEvent, .spanEvent, .event] env0).calls = 2 ∧
    (runList cfg0 [.spanEvent, .spanEvent] env0).out =
      [.spanEvent ⟨some (.gen 3), none, some (.gen 4)⟩ false false, .sampler (some (.gen 3)) (.gen 4) false,
       .spanEvent ⟨some (.gen 1), none, some (.gen 2)⟩ true false, .sampler (some (.gen 1)) (.gen 2) true] := by decide
example : roots true false (.span [.spanEvent]) = 1 ∧ roots true false .spanEvent = 1 ∧
    rootsList true false [.spanEvent, .push ⟨some (.ext 1000001), some (.ext 1000000), 0⟩ [.spanEvent]] = 1 := by decide
-- a rejected manual span inside a span whose trace the sampler refused
example : ((run cfg0 (.span [.span [.spanEvent]]) { env0 with calls := 1 }).out.any fun o =>
    match o with | .spanEvent _ false false => true | _ => false) = true := by decide

end EmitModel.C18
