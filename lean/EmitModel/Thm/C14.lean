/-
  Thm/C14.lean — property C14: each event goes to exactly one OTLP signal, chosen by kind, logs as fallback.
  Property theorems only; helper lemmas live in Lemmas/Otlp.lean.

  OBLIGATIONS (audited by `check` with `#print axioms`):
    route_evt_shape, extract_classifies, route_exactly_one, metric_goes_to_metrics, span_goes_to_traces,
    fallback_logs, fallback_logs_unqualified, discard_iff_no_signal_can_take, never_contradicts_kind,
    name_irrelevant, routeEvt_exactly_one, big_integer_goes_to_logs, empty_gauge_sequence_goes_to_logs,
    instants_irrelevant, logs_configured_never_discards
-/
import EmitModel.Lemmas.Otlp

namespace EmitModel.C14
open EmitModel.Otlp

/-! ### From events to shapes

The driver executes `routeEvt` (the code path on a concrete event: first-wins property lookup, the lenient
`Kind` parser, the streaming `Extract` visitor). The property is phrased over `Shape`s; these two theorems
say the concrete path factors through `shapeOf`, so every statement below about `route` is a statement about
`routeEvt`. -/

theorem acceptsMetricEvt_eq (e : Evt) : acceptsMetricEvt e = acceptsMetric (shapeOf e) := by
  unfold acceptsMetricEvt acceptsMetric Shape.numeric shapeOf
  by_cases hk : pullKind e.props = some .metric
  · have hk' := (pullKind_metric_iff e.props).1 hk
    simp only [hk, bne_self_eq_false, Bool.false_eq_true, ↓reduceIte, hk', beq_self_eq_true, Bool.true_and]
    have h := extract_top (lookupFirst "metric_value" e.props) 0
    rw [← aggIsSumLike_eq]
    cases hv : lookupFirst "metric_value" e.props with
    | none => simp [valueClass]
    | some v =>
      rw [hv] at h
      simp only at h
      dsimp only
      rw [h]
      cases hc : valueClass (some v) with
      | missing => simp
      | nested => simp
      | nonNumeric => simp
      | num => simp
      | seqNums empty =>
        cases v with
        | seq xs =>
          simp only [valueClass] at hc
          by_cases hall : xs.all isNum = true
          · simp only [hall, ↓reduceIte, ValueS.seqNums.injEq] at hc
            subst hc
            cases xs <;> simp
          · simp only [hall, Bool.false_eq_true, ↓reduceIte] at hc
            split at hc <;> cases hc
        | int n => simp only [valueClass] at hc; split at hc <;> cases hc
        | f64 b => simp [valueClass, isNum] at hc
        | kind k => simp [valueClass, isNum] at hc
        | str s => simp [valueClass, isNum] at hc
        | disp s => simp [valueClass, isNum] at hc
        | bool b => simp [valueClass, isNum] at hc
        | null => simp [valueClass, isNum] at hc
  · have hk' : kindClass e.props ≠ .metric := fun h => hk ((pullKind_metric_iff e.props).2 h)
    simp [hk, hk']

theorem acceptsSpanEvt_eq (e : Evt) : acceptsSpanEvt e = acceptsSpan (shapeOf e) := by
  unfold acceptsSpanEvt acceptsSpan shapeOf
  by_cases hk : pullKind e.props = some .span
  · have hk' := (pullKind_span_iff e.props).1 hk
    cases he : e.extent <;> simp [hk, hk', extentClass]
  · have hk' : kindClass e.props ≠ .span := fun h => hk ((pullKind_span_iff e.props).2 h)
    simp [hk, hk']

/-- `OtlpInner::emit` on a concrete event = the shape-level decision on `shapeOf`. -/
theorem route_evt_shape (c : Cfg) (e : Evt) :
    routeEvt c e = route c.logs c.traces c.metrics (shapeOf e) := by
  simp [routeEvt, route, acceptsMetricEvt_eq, acceptsSpanEvt_eq, acceptsLogEvt, acceptsLog]

/-- What the metrics encoder's value visitor accepts, for **every** value (arbitrary nesting): it succeeds
    exactly on an i64-range integer or float (one point) and on a flat sequence of such numbers (one point
    per element); it fails on everything else — text, bool, null, big integers, and any sequence that
    contains a non-number or another sequence. -/
theorem extract_classifies (v : Val) :
    (∃ st, extract v ⟨false, 0⟩ = some st) ↔
      (valueClass (some v) = .num ∨ ∃ b, valueClass (some v) = .seqNums b) := by
  have h := extract_top (some v) 0
  simp only at h
  rw [h]
  cases hc : valueClass (some v) with
  | missing => simp
  | nested => simp
  | nonNumeric => simp
  | num => simp
  | seqNums empty =>
    cases v with
    | seq xs => simp
    | int n => simp only [valueClass] at hc; split at hc <;> cases hc
    | f64 b => simp [valueClass, isNum] at hc
    | kind k => simp [valueClass, isNum] at hc
    | str s => simp [valueClass, isNum] at hc
    | disp s => simp [valueClass, isNum] at hc
    | bool b => simp [valueClass, isNum] at hc
    | null => simp [valueClass, isNum] at hc

/-! ### The decision logic, stated outright (all configurations, all shapes) -/

/-- Exactly one thing happens to an event: it is exported through one signal, or it is discarded and counted
    once — never both, never twice. -/
theorem route_exactly_one (l t m : Bool) (s : Shape) :
    (route l t m s).exports + (route l t m s).discards = 1 ∧
    ((∃ sig, route l t m s = .signal sig ∧ ∀ sig', route l t m s = .signal sig' → sig' = sig) ∨
      route l t m s = .discard) := by
  cases h : route l t m s with
  | discard => simp [Outcome.exports, Outcome.discards]
  | signal sig =>
    refine ⟨by simp [Outcome.exports, Outcome.discards], Or.inl ⟨sig, rfl, ?_⟩⟩
    intro sig' h'
    cases h'
    rfl

/-- A metric sample (metric kind; value a number, a non-empty flat sequence of numbers, or an empty sequence
    under a sum/count aggregation) goes through the metrics signal whenever that signal is configured,
    whatever else is configured and whatever its extent or aggregation. -/
theorem metric_goes_to_metrics (l t : Bool) (s : Shape) (hk : s.kind = .metric) (hv : s.numeric = true) :
    route l t true s = .signal .metrics := by
  simp [route, acceptsMetric, hk, hv]

/-- A span (span kind, range extent) goes through the traces signal whenever that signal is configured. -/
theorem span_goes_to_traces (l m : Bool) (s : Shape) (hk : s.kind = .span) (he : s.extent = .range) :
    route l true m s = .signal .traces := by
  simp [route, acceptsMetric, acceptsSpan, hk, he]

/-- Everything the metrics and traces signals do not take goes through logs when logs is configured. -/
theorem fallback_logs (t m : Bool) (s : Shape)
    (hm : ¬ (m = true ∧ acceptsMetric s = true)) (ht : ¬ (t = true ∧ acceptsSpan s = true)) :
    route true t m s = .signal .logs := by
  simp only [route, Bool.and_eq_true]
  simp [hm, ht, acceptsLog]

/-- The cases the property lists for the fallback: un-kinded / unknown-kinded events; metric-kinded events
    that do not qualify or whose signal is off; span-kinded events that do not qualify or whose signal is off. -/
theorem fallback_logs_unqualified (t m : Bool) (s : Shape)
    (h : (s.kind = .none ∨ s.kind = .unknown) ∨
         (s.kind = .metric ∧ (s.numeric = false ∨ m = false)) ∨
         (s.kind = .span ∧ (s.extent ≠ .range ∨ t = false))) :
    route true t m s = .signal .logs := by
  apply fallback_logs
  · rcases h with (h | h) | ⟨h, h' | h'⟩ | ⟨h, _⟩ <;> simp [acceptsMetric, *]
  · rcases h with (h | h) | ⟨h, _⟩ | ⟨h, h' | h'⟩ <;> simp [acceptsSpan, *]

/-- An event is dropped (and `event_discarded` incremented) iff no configured signal can take it; since logs
    takes everything this means: logs is off, and metrics is off or declines, and traces is off or declines. -/
theorem discard_iff_no_signal_can_take (l t m : Bool) (s : Shape) :
    route l t m s = .discard ↔
      (¬ (m = true ∧ acceptsMetric s = true) ∧ ¬ (t = true ∧ acceptsSpan s = true) ∧ l = false) := by
  simp only [route, acceptsLog, Bool.and_true]
  cases m <;> cases t <;> cases l <;> cases acceptsMetric s <;> cases acceptsSpan s <;> simp

/-- No event is exported through a signal that contradicts its kind. -/
theorem never_contradicts_kind (l t m : Bool) (s : Shape) :
    (route l t m s = .signal .traces → t = true ∧ s.kind = .span ∧ s.extent = .range) ∧
    (route l t m s = .signal .metrics → m = true ∧ s.kind = .metric ∧ s.numeric = true) ∧
    (route l t m s = .signal .logs → l = true) := by
  simp only [route, acceptsLog, Bool.and_true]
  refine ⟨?_, ?_, ?_⟩
  · intro h
    by_cases h1 : (m && acceptsMetric s) = true
    · simp [h1] at h
    · by_cases h2 : (t && acceptsSpan s) = true
      · simp only [Bool.and_eq_true, acceptsSpan, beq_iff_eq] at h2
        exact ⟨h2.1, h2.2.1, h2.2.2⟩
      · simp only [h1, h2, Bool.false_eq_true, ↓reduceIte] at h
        split at h <;> cases h
  · intro h
    by_cases h1 : (m && acceptsMetric s) = true
    · simp only [Bool.and_eq_true, acceptsMetric, beq_iff_eq] at h1
      exact ⟨h1.1, h1.2.1, h1.2.2⟩
    · simp only [h1, Bool.false_eq_true, ↓reduceIte] at h
      split at h
      · cases h
      · split at h <;> cases h
  · intro h
    by_cases h1 : (m && acceptsMetric s) = true
    · simp [h1] at h
    · by_cases h2 : (t && acceptsSpan s) = true
      · simp [h1, h2] at h
      · simp only [h1, h2, Bool.false_eq_true, ↓reduceIte] at h
        split at h
        · assumption
        · cases h

/-- `metric_name` is never consulted by the routing (the name falls back to the message). -/
theorem name_irrelevant (l t m b : Bool) (s : Shape) :
    route l t m { s with hasName := b } = route l t m s := rfl

/-- The event-level statement the correspondence stream `c14` exercises. -/
theorem routeEvt_exactly_one (c : Cfg) (e : Evt) :
    (routeEvt c e).exports + (routeEvt c e).discards = 1 ∧
    (routeEvt c e = .discard ↔
      (¬ (c.metrics = true ∧ acceptsMetric (shapeOf e) = true) ∧
       ¬ (c.traces = true ∧ acceptsSpan (shapeOf e) = true) ∧ c.logs = false)) := by
  rw [route_evt_shape]
  exact ⟨(route_exactly_one _ _ _ _).1, discard_iff_no_signal_can_take _ _ _ _⟩

/-- The routing never looks at the *instants* of an extent, only at whether the extent is absent, a point or a
    range: two events with the same properties whose extents are of the same class go the same way. In
    particular an instant that does not fit the 64-bit nanosecond fields of OTLP (at or after 2^64 ns,
    2554-07-21 — `Timestamp` goes up to year 9999) is routed like any other: what is *recorded* for it is
    C13's subject (`EmitModel.C13.log_time_wraps`), no encoder may decline the event because of it. -/
theorem instants_irrelevant (c : Cfg) (x y : Extent) (props : List (String × Val))
    (h : extentClass x = extentClass y) : routeEvt c ⟨x, props⟩ = routeEvt c ⟨y, props⟩ := by
  rw [route_evt_shape, route_evt_shape]
  simp [shapeOf, h]

/-- Logs is the catch-all: with the logs signal configured **no event is ever dropped**, whatever its kind,
    its properties and its extent — it goes through exactly one signal (and through logs unless its own
    signal takes it). -/
theorem logs_configured_never_discards (c : Cfg) (e : Evt) (h : c.logs = true) :
    (∃ s, routeEvt c e = .signal s) ∧ (routeEvt c e).discards = 0 ∧
    ((¬ (c.metrics = true ∧ acceptsMetric (shapeOf e) = true) ∧
      ¬ (c.traces = true ∧ acceptsSpan (shapeOf e) = true)) → routeEvt c e = .signal .logs) := by
  have hd := (routeEvt_exactly_one c e).2
  refine ⟨?_, ?_, ?_⟩
  · cases hr : routeEvt c e with
    | signal s => exact ⟨s, rfl⟩
    | discard => rw [hd] at hr; simp [h] at hr
  · cases hr : routeEvt c e with
    | signal s => rfl
    | discard => rw [hd] at hr; simp [h] at hr
  · intro ⟨hm, ht⟩
    rw [route_evt_shape, h]
    exact fallback_logs _ _ _ hm ht

/-! ### Two boundary facts of the code, recorded as theorems (see props/C14.json `assumptions`) -/

/-- An integer outside the i64 range (e.g. `u64::MAX`) is streamed by sval as tagged *text*, so the metrics
    encoder declines it and the sample is exported as a log record. -/
theorem big_integer_goes_to_logs :
    routeEvt ⟨true, true, true⟩
      ⟨.none, [("evt_kind", .kind .metric), ("metric_agg", .str "count"),
               ("metric_value", .int 18446744073709551615)]⟩ = .signal .logs := by decide

/-- An empty sequence has no points: accepted (as a zero sum) under `sum`/`count`, declined under a gauge
    aggregation — then it falls back to logs. -/
theorem empty_gauge_sequence_goes_to_logs :
    routeEvt ⟨true, true, true⟩
      ⟨.none, [("evt_kind", .kind .metric), ("metric_agg", .str "last"), ("metric_value", .seq [])]⟩
        = .signal .logs ∧
    routeEvt ⟨true, true, true⟩
      ⟨.none, [("evt_kind", .kind .metric), ("metric_agg", .str "sum"), ("metric_value", .seq [])]⟩
        = .signal .metrics := by decide

/-! ### Non-vacuity: concrete states satisfying the hypotheses -/

example : ∃ s : Shape, s.kind = .metric ∧ s.numeric = true :=
  ⟨⟨.metric, .point, true, .seqNums false, .last⟩, rfl, rfl⟩
example : ∃ s : Shape, s.kind = .span ∧ s.extent = .range := ⟨⟨.span, .range, false, .missing, .missing⟩, rfl, rfl⟩
example : ∃ (t m : Bool) (s : Shape), ¬ (m = true ∧ acceptsMetric s = true) ∧ ¬ (t = true ∧ acceptsSpan s = true) :=
  ⟨true, true, ⟨.metric, .range, true, .nested, .sum⟩, by decide, by decide⟩
example : route false true true ⟨.span, .point, false, .missing, .missing⟩ = .discard := by decide
example : routeEvt ⟨true, true, true⟩
    ⟨.range 1 2, [("evt_kind", .str " SPAN "), ("evt_kind", .kind .metric)]⟩ = .signal .traces := by decide
-- far-future instants (year 3000, `Timestamp::MAX`): a plain event, a span-kinded point event and a metric sample
-- whose signal is off all go through logs; a qualifying span stays on traces
example : routeEvt ⟨true, true, true⟩ ⟨.point 32503680000000000000, []⟩ = .signal .logs := by decide
example : routeEvt ⟨true, true, true⟩ ⟨.point 253402300799999999999, [("evt_kind", .kind .span)]⟩ = .signal .logs := by
  decide
example : routeEvt ⟨true, true, false⟩ ⟨.range 0 253402300799999999999,
    [("evt_kind", .kind .metric), ("metric_value", .int 1)]⟩ = .signal .logs := by decide
example : routeEvt ⟨true, true, true⟩ ⟨.range 32503680000000000000 253402300799999999999,
    [("evt_kind", .kind .span)]⟩ = .signal .traces := by decide
example : extentClass (.point 1) = extentClass (.point 253402300799999999999) := rfl

end EmitModel.C14
