/-
  Thm/C08.lean — property C08: the background worker always makes progress; failures and panics never wedge it.
  Property theorems only; invariants and ranking functions live in Lemmas/BatcherBound.lean and
  Lemmas/BatcherLive.lean.

  Safety theorems quantify over every configuration and every state reachable by ANY label list (every
  interleaving, every outcome sequence incl. both kinds of panic, sender drop at any point). Liveness theorems are
  BOUNDED and need no fairness assumption: "every execution from `s` that contains more than K receiver steps
  ends in the goal", where receiver steps are the LOOP labels `rxTake, rxBegin, rxOutcome _, rxRetryWaited,
  rxIdleWaited` (an outcome / a timer expiry is a step of what the receiver awaits); the individual callback
  invocations `rxFireTake` / `rxFireFlush` are separate labels that are NOT counted (so K does not depend on how
  many callbacks are registered), and any number of sender steps may be interleaved anywhere — also between two
  callbacks and between the last callback of an empty hand-off and the exit check. A panicking callback is the same label as any other callback: they are drained
  under `catch_unwind` (lib.rs:732-746), so the panic has no effect on the state.

  OBLIGATIONS (audited by `check` with `#print axioms`):
    attempts_bounded, backoff_monotone_bounded, delay_next_monotone_bounded, callbacks_fire_once,
    callbacks_fire_once_nodup, callbacks_fire_bounded, empty_callbacks_fire_bounded, later_batches_processed,
    drain_on_close, wait_timeout_within_budget, send_or_wait_within_budget, blocking_entry_total_partial
-/
import EmitModel.Lemmas.BatcherLive
import EmitModel.Lemmas.BatcherExt
import EmitModel.Model.OtlpE2E

namespace EmitModel.C08
open EmitModel.Batcher EmitModel.Sched

/-- **Bounded attempts.** `callsPerBatch` has one entry per batch (= per first attempt) counting the `on_batch`
    calls made for it; every entry is at most `1 + retryMax` (= 11 with the constants of `bounded`), the entries
    add up to all calls, and while a batch is being processed the retry counter is within budget (it is reset
    per batch, lib.rs:399-401). -/
theorem attempts_bounded (cfg : Cfg) (s : St) (h : Reachable cfg s) :
    (∀ n ∈ s.callsPerBatch, n ≤ 1 + cfg.retryMax) ∧
    s.callsPerBatch.length = s.firstAttempts.length ∧
    s.callsPerBatch.sum = s.calls.length ∧
    (∀ o c w, s.rx = .processing o c w → s.retryCur ≤ cfg.retryMax) :=
  let i := invBound_reachable cfg s h
  ⟨i.perBatch, i.lenEq, i.sumEq, fun o c w e => (i.proc o c w e).1⟩

/-- `Delay::next` (lib.rs:589-592) never exceeds its maximum and never goes down (from a value within bounds). -/
theorem delay_next_monotone_bounded (cur step cap : Nat) :
    delayNext cur step cap ≤ cap ∧ (cur ≤ cap → cur ≤ delayNext cur step cap) :=
  ⟨delayNext_le cur step cap, delayNext_ge cur step cap⟩

/-- **Back-off.** The retry waits requested for the current batch are non-decreasing and at most the configured
    maximum (10 s); every wait ever requested (retry or idle) is bounded by the larger of the two maxima. -/
theorem backoff_monotone_bounded (cfg : Cfg) (s : St) (h : Reachable cfg s) :
    s.batchWaits.Pairwise (· ≤ ·) ∧ (∀ d ∈ s.batchWaits, d ≤ cfg.retryCap) ∧
    (∀ d ∈ s.waits, d ≤ max cfg.retryCap cfg.idleCap) :=
  let i := invBound_reachable cfg s h
  ⟨i.bwSorted, fun d hd => Nat.le_trans (i.bwLe d hd) i.rdelay, i.waitsLe⟩

/-- **Exactly once (conservation).** Every registration of a flush callback is in exactly one place: ran,
    attached to the pending batch, travelling with the batch the receiver holds, or dropped unrun by a receiver
    teardown; likewise for `when_empty` callbacks (which are never dropped). So no callback runs more often
    than it was registered — whatever the outcomes, panics included. -/
theorem callbacks_fire_once (cfg : Cfg) (s : St) (h : Reachable cfg s) (w : Nat) :
    s.registered.count w = s.fired.count w + s.pendFlushW.count w + s.rx.ws.count w + s.dropped.count w ∧
    s.registeredTake.count w = s.firedTake.count w + s.pendTakeW.count w + s.rx.takeWs.count w :=
  let i := invCount_reachable cfg s h
  ⟨i.flush w, i.take w⟩

/-- With distinct names for distinct registrations, `fired` has no duplicates. -/
theorem callbacks_fire_once_nodup (cfg : Cfg) (s : St) (h : Reachable cfg s) :
    (s.registered.Nodup → s.fired.Nodup) ∧ (s.registeredTake.Nodup → s.firedTake.Nodup) := by
  have i := invCount_reachable cfg s h
  constructor
  · intro hn
    rw [List.nodup_iff_count] at hn ⊢
    intro w; have := i.flush w; have := hn w; omega
  · intro hn
    rw [List.nodup_iff_count] at hn ⊢
    intro w; have := i.take w; have := hn w; omega

/-- **Every registered flush callback runs within a bounded number of receiver steps.** From any reachable
    state in which `w` is waiting (attached to the pending batch or to the batch the receiver holds), every
    execution containing more than `K = 4·retryMax + 5` receiver steps — any sender steps interleaved, any
    outcomes — has run it, unless the receiver was torn down. -/
theorem callbacks_fire_bounded (cfg : Cfg) (s : St) (h : Reachable cfg s) (w : Nat)
    (hw : w ∈ s.pendFlushW ∨ w ∈ s.rx.ws) (ls : List Label) (s' : St)
    (hrun : run (step cfg) s ls = some s') (hk : 4 * cfg.retryMax + 5 < countSel Label.isRx ls) :
    w ∈ s'.fired ∨ s'.tornDown = true :=
  flush_fires_within cfg w s (invBound_reachable cfg s h) hw ls s' hrun hk

/-- The same for `when_empty` callbacks, with `K = 2·retryMax + 4`. -/
theorem empty_callbacks_fire_bounded (cfg : Cfg) (s : St) (h : Reachable cfg s) (w : Nat)
    (hw : w ∈ s.pendTakeW ∨ w ∈ s.rx.takeWs) (ls : List Label) (s' : St)
    (hrun : run (step cfg) s ls = some s') (hk : 2 * cfg.retryMax + 4 < countSel Label.isRx ls) :
    w ∈ s'.firedTake ∨ s'.tornDown = true :=
  empty_fires_within cfg w s (invBound_reachable cfg s h) hw ls s' hrun hk

/-- **Later batches are still processed.** Whatever happens to the batch in hand (success, failure, retries,
    panic in the closure or in the future), every item pending now is handed to the processor as part of a
    first attempt — or cleared by a counted truncation — within `2·retryMax + 4` receiver steps. -/
theorem later_batches_processed (cfg : Cfg) (s : St) (h : Reachable cfg s) (x : Nat) (hx : x ∈ s.pending)
    (ls : List Label) (s' : St) (hrun : run (step cfg) s ls = some s')
    (hk : 2 * cfg.retryMax + 4 < countSel Label.isRx ls) :
    x ∈ s'.firstAttempts.flatten ∨ x ∈ s'.truncations.flatten ∨ s'.tornDown = true :=
  item_processed_within cfg x s (invBound_reachable cfg s h) hx ls s' hrun hk

/-- **Drain on close.** Once the last sender is dropped, within `4·retryMax + 7` receiver steps the receiver has
    returned; and unless it was torn down instead, nothing is left queued, every kept item was handed to the
    processor, and every registered callback has run exactly as often as it was registered. -/
theorem drain_on_close (cfg : Cfg) (s : St) (h : Reachable cfg s) (ha : s.senderAlive = false)
    (ls : List Label) (s' : St) (hrun : run (step cfg) s ls = some s')
    (hk : 4 * cfg.retryMax + 7 < countSel Label.isRx ls) :
    s'.rx = .done ∧
    (s'.tornDown = false →
      s'.pending = [] ∧ s'.acceptedKept = s'.firstAttempts.flatten ∧
      (∀ w, s'.fired.count w = s'.registered.count w) ∧
      (∀ w, s'.firedTake.count w = s'.registeredTake.count w)) := by
  have hr' : Reachable cfg s' := Sched.Reachable.run h hrun
  have ho : s.isOpen = false := by
    have hd := invDrain_reachable cfg s h
    -- the sender is gone, so the channel is closed: `is_open` is only ever cleared, and dropping clears it
    have : ∀ t, Reachable cfg t → (t.senderAlive = false → t.isOpen = false) := by
      intro t ht
      refine invariant_of_step (Inv := fun t => t.senderAlive = false → t.isOpen = false) (by simp [init]) ?_ t ht
      intro a l b ia st
      cases l
      case send x => step_elim st; rw [(send_drain cfg a x).2.1, (send_drain cfg a x).2.2.1]; exact ia
      case trySend x => step_elim st; rw [(trySend_drain cfg a x).2.1, (trySend_drain cfg a x).2.2.1]; exact ia
      all_goals
        step_elim st
        all_goals simp_all
    exact this s h ha
  have hdone := drains_within cfg s (invBound_reachable cfg s h) ha ho ls s' hrun hk
  refine ⟨hdone, ?_⟩
  intro ht
  obtain ⟨_, hp, hf, htk⟩ := (invDrain_reachable cfg s' hr').returned hdone ht
  have hc := invCount_reachable cfg s' hr'
  have hdr : s'.dropped = [] := by
    have := invariant_of_step (Inv := fun s => s.dropped ≠ [] → s.tornDown = true) (by simp [init])
      (dropped_step cfg) s' hr'
    by_cases hd : s'.dropped = []
    · exact hd
    · simp [this hd] at ht
  have hpart := (invPart_reachable cfg s' hr').part
  refine ⟨hp, ?_, ?_, ?_⟩
  · rw [hpart, hp, hdone]; simp
  · intro w; have := hc.flush w; simp [hf, hdr, hdone] at this; omega
  · intro w; have := hc.take w; simp [htk, hdone] at this; omega

/-- **`Trigger::wait_timeout` returns within its budget** (remaining-time accounting, sync.rs:170-183): if every
    `Condvar::wait_timeout` call returns within the time it was asked for plus a slack `δ`, the total time spent
    waiting is at most `timeout + δ` — however many spurious or early wake-ups occur. -/
theorem wait_timeout_within_budget (δ timeout : Nat) (flag0 : Bool) (wakes : List CvWake)
    (h : waitTimeoutHonest δ timeout flag0 wakes) : waitTimeoutSpent timeout flag0 wakes ≤ timeout + δ := by
  induction wakes generalizing timeout flag0 with
  | nil => unfold waitTimeoutSpent; split <;> (try split) <;> simp
  | cons k rest ih =>
    unfold waitTimeoutSpent
    unfold waitTimeoutHonest at h
    by_cases hf : flag0 = true
    · simp [hf]
    · by_cases h0 : timeout = 0
      · simp [hf, h0]
      · simp only [hf, h0, if_false, Bool.false_eq_true] at h ⊢
        obtain ⟨hle, hrest⟩ := h
        cases hto : k.timedOut
        · simp only [hto, Bool.not_false, if_true] at hrest ⊢
          by_cases hl : k.elapsed ≤ timeout
          · simp only [hl, if_true] at hrest ⊢
            have := ih _ _ hrest
            omega
          · simp only [hl, if_false]; exact hle
        · simp only [Bool.not_true, Bool.false_eq_true, if_false]; exact hle

/-- **`send_or_wait` returns within its budget** (remaining-time accounting of the loop, lib.rs:236-253): every
    wait round is asked for `timeout - elapsed`, so if every wait returns within the time it was asked for plus a
    slack `δ`, every clock reading the loop takes — in particular the one at which the call returns — is at most
    `timeout + δ`, however often the woken sender loses the race for the freed slot. (Granting each round the full
    `timeout` instead would allow `2·timeout`; stream `batcher_blocking_c08` has the timing cases.) -/
theorem send_or_wait_within_budget (δ timeout : Nat) (obs : List (Nat × TryRes)) :
    ∀ (bound : Nat) (err : TryRes) (t : Nat), bound ≤ timeout + δ → sendOrWaitHonest δ timeout bound err obs →
      sendOrWaitLastReading timeout err obs = some t → t ≤ timeout + δ :=
  sendOrWait_within_budget δ timeout obs

/-- the timing case of stream `batcher_blocking_c08`: woken at 0.7·T, the slot is gone, the second wait is asked
    for the remaining 0.3·T — the item is handed back at T -/
example : sendOrWait 500 (.full 9) [(0, .full 9), (350, .full 9), (500, .full 9)] = some (.handedBack 9) ∧
    sendOrWaitLastReading 500 (.full 9) [(0, .full 9), (350, .full 9), (500, .full 9)] = some 500 ∧
    sendOrWaitHonest 0 500 0 (.full 9) [(0, .full 9), (350, .full 9), (500, .full 9)] := by
  refine ⟨by decide, by decide, ?_⟩
  simp [sendOrWaitHonest]

/-- **The blocking entry points are total in every calling context** (decision table, after fix D3): whichever
    module's `blocking_flush` / `blocking_send` is called from a plain thread, a worker of a tokio multi-thread
    runtime, inside its `block_on`, or inside a tokio current-thread runtime — built with or without time / io
    drivers — the way it waits is legal there according to tokio's
    documented rules (`pathPanics`) — it never takes `Handle::block_on`, and takes `block_in_place` only on the
    multi-thread flavour. Before the fix `tokio::blocking_*` took `Handle::block_on` in both runtime contexts and
    panicked ("Cannot start a runtime from within a runtime"); stream `batcher_blocking` reproduces that on the
    unfixed tree. That the condvar wait itself then returns within the timeout is `wait_timeout_within_budget`
    (under the runtime assumption about `Condvar::wait_timeout`) — sampled, *partial*. -/
theorem blocking_entry_total_partial (api : Api) (ctx : Ctx) :
    pathPanics (blockingPath api ctx) ctx = false ∧ blockingPath api ctx ≠ .handleBlockOn ∧
    blockingPath api ctx ≠ .blockInPlaceAsync := by
  cases api <;> cases ctx <;> decide

/-- … and they do not depend on the drivers of the runtime they are called from: running the ASYNC variants under
    `block_in_place` instead (timers!) would panic on a multi-thread runtime built without a time driver. -/
example : pathPanics .blockInPlaceAsync .tokioMultiThreadNoDrivers = true ∧
    pathPanics .blockInPlaceAsync .tokioMultiThreadNoDriversBlockOn = true ∧
    pathPanics .blockInPlaceAsync .tokioMultiThread = false := by decide

/-- the pre-fix table would have panicked: `Handle::block_on` inside either runtime flavour -/
example : pathPanics .handleBlockOn .tokioMultiThread = true ∧ pathPanics .handleBlockOn .tokioCurrentThread = true := by
  decide

/-! ### Non-vacuity -/

/-- A batch retried until the budget (2) is exhausted: 3 calls, two non-decreasing waits, then given up;
    the flush callback registered meanwhile runs only then; the next batch is processed. -/
def demoCfg : Cfg := { cap := 4, retryMax := 2, retryStep := 700, retryCap := 1000, idleStep := 1, idleCap := 500 }

def demo : List Label :=
  [.send 1, .rxTake, .rxBegin, .whenFlushed 7, .send 2,
   .rxOutcome (.failRetry [1]), .rxRetryWaited, .rxOutcome (.failRetry [1]), .rxRetryWaited,
   .rxOutcome (.failRetry [1]), .rxTake, .rxBegin]

example : ∃ s, Reachable demoCfg s ∧ s.callsPerBatch = [3, 1] ∧ s.waits = [700, 1000] ∧ s.fired = [] ∧
    s.rx.ws = [7] ∧ s.calls = [[1], [1], [1], [2]] ∧ s.finalised = [1] :=
  ⟨_, ⟨demo, rfl⟩, by decide⟩

example : ∃ s, Reachable demoCfg s ∧ s.senderAlive = false ∧ s.rx = .done ∧ s.tornDown = false ∧
    s.fired = [7] ∧ s.firstAttempts = [[1], [2]] :=
  ⟨_, ⟨demo ++ [.dropSender, .rxOutcome .panicSync, .rxFireFlush, .rxTake, .rxBegin], rfl⟩, by decide⟩

/-- The hypotheses of the bounded-liveness theorems are satisfiable: with `retryMax = 0` the bound for flush
    callbacks is 5; from the reachable state in which watcher 7 is attached to the pending batch, this execution
    contains 6 receiver steps (and a sender step in between) — and indeed ends with the callback run. -/
def liveCfg : Cfg := { cap := 4, retryMax := 0, retryStep := 700, retryCap := 1000, idleStep := 1, idleCap := 500 }

example : ∃ s, Reachable liveCfg s ∧ 7 ∈ s.pendFlushW ∧
    ∃ ls s', run (step liveCfg) s ls = some s' ∧ 4 * liveCfg.retryMax + 5 < countSel Label.isRx ls ∧ 7 ∈ s'.fired :=
  ⟨_, ⟨[.send 1, .whenFlushed 7], rfl⟩, by decide,
   [.rxTake, .rxBegin, .send 2, .rxOutcome (.failRetry [1]), .rxFireFlush, .rxTake, .rxBegin, .rxOutcome .panicAsync], _, rfl,
   by decide, by decide⟩

/-- … and `drain_on_close`: sender dropped with one item queued; 4·0 + 7 < 8 receiver steps cannot all be taken
    (the receiver has returned after 6), which is exactly what the theorem says: any execution that long would
    have ended in `done` — here the receiver is `done` after 6 steps and no further receiver label is enabled. -/
example : ∃ s, Reachable liveCfg s ∧ s.senderAlive = false ∧ s.rx ≠ .done ∧
    ∃ ls s', run (step liveCfg) s ls = some s' ∧ s'.rx = .done ∧ s'.tornDown = false ∧
      s'.firstAttempts = [[1]] ∧ step liveCfg s' .rxTake = none :=
  ⟨_, ⟨[.send 1, .dropSender], rfl⟩, by decide, by decide,
   [.rxTake, .rxBegin, .rxOutcome .ok, .rxTake, .rxBegin], _, rfl, by decide, by decide, by decide, by decide⟩


/-! ### The OTLP emitter's flush sits on three channels and still keeps ONE budget -/

open EmitModel.OtlpE2E in
/-- **`Otlp::blocking_flush(T)` returns within `T`** however many signals are configured and whatever each does:
    the signals share the one budget (each is given what is left of it), so the call returns no later than `T`
    after it started — not `T` per signal. -/
theorem otlp_flush_within_budget (T : Nat) : ∀ (cs : List (Option Nat)) (e : Nat), e ≤ T → (flushSeq T cs e).2 ≤ T
  | [], e, h => h
  | some t :: rest, e, h => by
    simp only [flushSeq]
    split
    · rename_i ht; exact otlp_flush_within_budget T rest (max e t) (Nat.max_le.2 ⟨h, ht⟩)
    · exact Nat.le_refl T
  | none :: _, _, _ => Nat.le_refl T

open EmitModel.OtlpE2E in
/-- … and it returns `true` exactly when every configured signal's channel became flushed within the budget; then
    it returned at the latest of those instants (or at once). -/
theorem otlp_flush_true_iff (T : Nat) : ∀ (cs : List (Option Nat)) (e : Nat),
    ((flushSeq T cs e).1 = true ↔ ∀ c ∈ cs, ∃ t, c = some t ∧ t ≤ T) ∧
    ((flushSeq T cs e).1 = true → (flushSeq T cs e).2 = cs.foldl (fun m c => max m (c.getD 0)) e)
  | [], e => by simp [flushSeq]
  | some t :: rest, e => by
    have ih := otlp_flush_true_iff T rest (max e t)
    by_cases ht : t ≤ T
    · simp only [flushSeq, ht, if_true, List.foldl, Option.getD]
      constructor
      · rw [ih.1]; simp [ht]
      · exact ih.2
    · simp [flushSeq, ht]
  | none :: rest, e => by simp [flushSeq]

open EmitModel.OtlpE2E in
example : flushSeq 1000 [some 800, some 0, none] 0 = (false, 1000) ∧ flushSeq 1000 [some 800, some 0, some 300] 0 = (true, 800) := by
  decide

end EmitModel.C08
