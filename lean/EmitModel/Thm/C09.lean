/-
  Thm/C09.lean — property C09: emitting never blocks or grows without bound; overflow drops the oldest, counted.
  Property theorems only; the inductive invariants live in Lemmas/Batcher.lean.

  OBLIGATIONS (audited by `check` with `#print axioms`):
    capacity_bound, send_overflow_keeps_newest, truncation_discards_exactly_capacity, send_no_overflow_appends, send_total, sampling_is_a_read, try_send_hands_back,
    send_or_wait_partial, blocking_variants_are_base_steps, counters_count_exactly, blocking_send_never_truncates,
    send_or_wait_asks_remaining, send_or_wait_total_wait_bound
-/
import EmitModel.Lemmas.Batcher
import EmitModel.Lemmas.BatcherExt
import EmitModel.Model.OtlpE2E

namespace EmitModel.C09
open EmitModel.Batcher EmitModel.Sched

/-- **Bound.** For every capacity ≥ 1, under every interleaving (receiver never running, processor never
    returning, … are just label lists without those labels) the pending queue never exceeds the capacity. -/
theorem capacity_bound (cfg : Cfg) (hcap : 1 ≤ cfg.cap) (s : St) (h : Reachable cfg s) :
    s.pending.length ≤ cfg.cap :=
  invariant_of_step (Inv := fun s => s.pending.length ≤ cfg.cap) (by simp [init])
    (capacity_step cfg hcap) s h

/-- **Overflow keeps the newest, counted.** A plain `send` that finds the (open) queue full discards the whole
    older queue, keeps the new item, and the truncation counter goes up by exactly one; the discarded segment is
    what was pending. (Any state, not only reachable ones.) -/
theorem send_overflow_keeps_newest (cfg : Cfg) (s : St) (x : Nat) (ho : s.isOpen = true)
    (hfull : cfg.cap ≤ s.pending.length) :
    (send cfg s x).pending = [x] ∧
    (send cfg s x).mTruncated = s.mTruncated + 1 ∧
    (send cfg s x).truncations = s.truncations ++ [s.pending] ∧
    (send cfg s x).accepted = s.accepted ++ [x] := by
  unfold send
  simp [hfull, ho, truncate, push]

/-- Every truncation discards exactly `capacity` items (the queue is full exactly when it holds `capacity`), so the
    number of discarded items is `capacity × queue_full_truncated` — the conservation law the multi-threaded soak
    (stream `batcher_mt`) checks on real threads. -/
theorem truncation_discards_exactly_capacity (cfg : Cfg) (hcap : 1 ≤ cfg.cap) (s : St) (h : Reachable cfg s) :
    (∀ seg ∈ s.truncations, seg.length = cfg.cap) ∧
    s.truncations.flatten.length = cfg.cap * s.mTruncated := by
  have i : InvCap cfg s :=
    invariant_of_step (Inv := InvCap cfg) ⟨by simp [init], by simp [init]⟩ (invCap_step cfg hcap) s h
  refine ⟨i.segs, ?_⟩
  rw [← (invPart_reachable cfg s h).truncCount, List.length_flatten]
  have : ∀ (T : List (List Nat)), (∀ seg ∈ T, seg.length = cfg.cap) →
      (T.map List.length).sum = cfg.cap * T.length := by
    intro T
    induction T with
    | nil => simp
    | cons a t ih =>
      intro hT
      simp only [List.map_cons, List.sum_cons, List.length_cons]
      rw [ih (fun seg hs => hT seg (by simp [hs])), hT a (by simp), Nat.mul_succ]; omega
  exact this _ i.segs

/-- Below capacity nothing is discarded: the item is appended and the counter is unchanged. -/
theorem send_no_overflow_appends (cfg : Cfg) (s : St) (x : Nat) (ho : s.isOpen = true)
    (hroom : s.pending.length < cfg.cap) :
    (send cfg s x).pending = s.pending ++ [x] ∧
    (send cfg s x).mTruncated = s.mTruncated ∧
    (send cfg s x).truncations = s.truncations := by
  unfold send
  have : ¬ cfg.cap ≤ s.pending.length := by omega
  simp [this, ho, push]

/-- **`send` never waits.** With the `Sender` in hand, `send` is enabled in every state whatsoever — whatever the
    receiver is doing, however full the queue — and is one atomic step that leaves the receiver untouched. -/
theorem send_total (cfg : Cfg) (s : St) (x : Nat) (ha : s.senderAlive = true) :
    ∃ s', step cfg s (.send x) = some s' ∧ s'.rx = s.rx ∧ s'.senderAlive = true := by
  refine ⟨send cfg s x, by simp [step, ha], (send_rx cfg s x).1, ?_⟩
  unfold send
  by_cases hc : s.pending.length ≥ cfg.cap <;> by_cases ho : s.isOpen <;> simp [hc, ho, truncate, push, ha]

/-- **Sampling never holds the lock while calling out**: `sample_metrics` is a read (`sampleQueueLength`, within
    the bound) that leaves the state as it is, so a sampler that emits into the channel it samples performs an
    ordinary `send` — enabled in every state, one atomic step (`send_total`) — never a wait on itself. -/
theorem sampling_is_a_read (cfg : Cfg) (hcap : 1 ≤ cfg.cap) (s : St) (h : Reachable cfg s) (x : Nat)
    (ha : s.senderAlive = true) :
    sampleQueueLength s ≤ cfg.cap ∧ ∃ s', step cfg s (.send x) = some s' ∧ s'.rx = s.rx := by
  refine ⟨capacity_bound cfg hcap s h, ?_⟩
  obtain ⟨s', h1, h2, _⟩ := send_total cfg s x ha
  exact ⟨s', h1, h2⟩

/-- **`try_send` never discards silently**: on an open channel it either appends the item, or returns that very
    item with the state unchanged; on a closed channel it changes nothing (and reports the closure). -/
theorem try_send_hands_back (cfg : Cfg) (s : St) (x : Nat) :
    (s.isOpen = true ∧ s.pending.length < cfg.cap ∧ trySend cfg s x = (push s x, .ok)) ∨
    (s.isOpen = true ∧ cfg.cap ≤ s.pending.length ∧ trySend cfg s x = (s, .full x)) ∨
    (s.isOpen = false ∧ trySend cfg s x = (s, .closed)) := by
  unfold trySend
  by_cases ho : s.isOpen <;> by_cases hc : s.pending.length < cfg.cap <;> simp [ho, hc] <;> omega

/-- **The waiting variants** (`send_or_wait`, behind `blocking_send` / async `send`): whatever the clock readings
    and however often the queue was found full again, the call ends with the item enqueued (`ok` — and then some
    `try_send` returned `ok`), or hands back the very item it was given; an error *without* the item is only
    possible when a `try_send` found the channel closed (receiver gone — outside the property's scope, DESIGN §8 F4).
    `_partial`: that the call returns within its timeout is a runtime property of the condvar / timer
    (sampled by stream `batcher_blocking`). -/
theorem send_or_wait_partial (timeout : Nat) (x : Nat) (first : TryRes) (obs : List (Nat × TryRes)) (r : SendRes)
    (hfirst : ∀ y, first = .full y → y = x) (hobs : ∀ p ∈ obs, ∀ y, p.2 = .full y → y = x)
    (h : sendOrWait timeout first obs = some r) :
    (r = .ok ∧ (first = .ok ∨ ∃ p ∈ obs, p.2 = .ok)) ∨ r = .handedBack x ∨
    (r = .errNoItem ∧ (first = .closed ∨ ∃ p ∈ obs, p.2 = .closed)) := by
  have loop : ∀ (obs : List (Nat × TryRes)) (e : TryRes), e ≠ .ok → (∀ y, e = .full y → y = x) →
      (∀ p ∈ obs, ∀ y, p.2 = .full y → y = x) → sendOrWaitLoop timeout e obs = some r →
      (r = .ok ∧ ∃ p ∈ obs, p.2 = .ok) ∨ r = .handedBack x ∨
      (r = .errNoItem ∧ (e = .closed ∨ ∃ p ∈ obs, p.2 = .closed)) := by
    intro obs
    induction obs with
    | nil => intro e hne _ _ h; cases e <;> simp_all [sendOrWaitLoop]
    | cons p rest ih =>
      intro e hne he hobs h
      obtain ⟨el, nx⟩ := p
      cases e with
      | ok => exact absurd rfl hne
      | closed => simp [sendOrWaitLoop] at h; right; right; exact ⟨h.symm, Or.inl rfl⟩
      | full y =>
        have hy : y = x := he y rfl
        subst hy
        simp only [sendOrWaitLoop] at h
        split at h
        · simp at h; right; left; exact h.symm
        · cases nx with
          | ok => simp at h; left; exact ⟨h.symm, ⟨(el, .ok), by simp, rfl⟩⟩
          | full z =>
            simp at h
            have hz : z = y := hobs (el, .full z) (by simp) z rfl
            rcases ih (.full z) (by simp) (by intro y' hy'; cases hy'; exact hz)
              (fun p hp => hobs p (by simp [hp])) h with h1 | h1 | h1
            · left; obtain ⟨a, p, hp, hpo⟩ := h1; exact ⟨a, p, by simp [hp], hpo⟩
            · right; left; exact h1
            · right; right
              obtain ⟨a, b⟩ := h1
              refine ⟨a, Or.inr ?_⟩
              rcases b with b | ⟨p, hp, hpc⟩
              · cases b
              · exact ⟨p, by simp [hp], hpc⟩
          | closed =>
            simp at h
            cases rest with
            | nil => simp [sendOrWaitLoop] at h
            | cons q rest' =>
              simp [sendOrWaitLoop] at h
              right; right
              exact ⟨h.symm, Or.inr ⟨(el, .closed), by simp, rfl⟩⟩
  unfold sendOrWait at h
  cases first with
  | ok => simp at h; left; exact ⟨h.symm, Or.inl rfl⟩
  | full y =>
    simp only at h
    rcases loop obs (.full y) (by simp) hfirst hobs h with h1 | h1 | h1
    · left; exact ⟨h1.1, Or.inr h1.2⟩
    · right; left; exact h1
    · right; right; obtain ⟨a, b⟩ := h1
      refine ⟨a, ?_⟩
      rcases b with b | b
      · cases b
      · exact Or.inr b
  | closed =>
    simp only at h
    rcases loop obs .closed (by simp) (by simp) hobs h with h1 | h1 | h1
    · left; exact ⟨h1.1, Or.inr h1.2⟩
    · right; left; exact h1
    · right; right; exact ⟨h1.1, Or.inl rfl⟩

/-! ### The blocking / async variants next to the plain send: the two counters, the remaining time -/

/-- **The blocking / async sends add nothing to the channel but a counter.** In the extended system (every label of
    the base system plus `sendOrWaitFirst`, the first attempt of `sync::blocking_send` / `tokio::blocking_send` /
    `tokio::send`; their later rounds are `whenEmpty` and `trySend` labels) every reachable channel state is a
    reachable state of the base system: the bound, keep-newest, partition, … theorems hold under ANY mix of plain,
    fallible, blocking and async sends from any number of threads. -/
theorem blocking_variants_are_base_steps (cfg : Cfg) (b : BSt) (h : BReachable cfg b) : Reachable cfg b.st :=
  breachable_base cfg b h

/-- **Count every drop, and nothing else.** Along EVERY execution of the extended system — any interleaving of
    plain sends, try_sends, blocking / async sends, watcher registrations and receiver steps — the truncation
    counter equals the number of plain `send`s that found the queue full (each of which discarded exactly the
    pending queue, `send_overflow_keeps_newest`), and the blocked counter equals the number of blocking / async
    sends whose first attempt failed. Neither counter is moved by anything else. -/
theorem counters_count_exactly (cfg : Cfg) (ls : List BLabel) (b : BSt) (h : run (bstep cfg) binit ls = some b) :
    b.st.mTruncated = countAlong cfg (truncatingSend cfg) binit ls ∧
    b.mBlocked = countAlong cfg (blockedSend cfg) binit ls := by
  have := brun_counters cfg ls binit b h
  simpa [binit, init] using this

/-- **The blocking variants never discard anything and never count a truncation**: the first attempt of
    `send_or_wait` leaves the truncation counter and the truncated segments alone; if it fails, the channel state is
    exactly what it was (the item comes back in the result: `full x`) and only `queue_full_blocked` moves, by one;
    if it succeeds, it is a `try_send` that appended the item, and no counter moves. (Any state.) -/
theorem blocking_send_never_truncates (cfg : Cfg) (b : BSt) (x : Nat) :
    (sendOrWaitFirst cfg b x).1.st.mTruncated = b.st.mTruncated ∧
    (sendOrWaitFirst cfg b x).1.st.truncations = b.st.truncations ∧
    ((sendOrWaitFirst cfg b x).2 = .ok →
      (sendOrWaitFirst cfg b x).1.st = push b.st x ∧ (sendOrWaitFirst cfg b x).1.mBlocked = b.mBlocked) ∧
    ((sendOrWaitFirst cfg b x).2 ≠ .ok →
      (sendOrWaitFirst cfg b x).1.st = b.st ∧ (sendOrWaitFirst cfg b x).1.mBlocked = b.mBlocked + 1 ∧
      ((sendOrWaitFirst cfg b x).2 = .full x ∨ (sendOrWaitFirst cfg b x).2 = .closed)) := by
  obtain ⟨e1, e2⟩ := sendOrWaitFirst_st cfg b x
  have eb := sendOrWaitFirst_blocked cfg b x
  rw [e1, e2, eb]
  refine ⟨(trySend_mTruncated cfg b.st x).1, (trySend_mTruncated cfg b.st x).2, ?_, ?_⟩
  · intro hok
    rcases try_send_hands_back cfg b.st x with ⟨_, _, h⟩ | ⟨_, _, h⟩ | ⟨_, h⟩ <;> simp_all
  · intro hne
    rcases try_send_hands_back cfg b.st x with ⟨_, _, h⟩ | ⟨_, _, h⟩ | ⟨_, h⟩ <;> simp_all

/-- **The waiter gets the REMAINING time on every round** (lib.rs:246 `timeout.saturating_sub(elapsed)`): whatever
    the clock readings and however often the woken sender finds the queue full again, every wait `send_or_wait`
    asks its runtime-specific waiter for (condvar in `sync::blocking_send`, oneshot + `tokio::time::timeout` in
    `tokio::send`) is asked at a reading `e < timeout` for exactly `timeout - e` — never for the full timeout again. -/
theorem send_or_wait_asks_remaining (timeout : Nat) (first : TryRes) (obs : List (Nat × TryRes)) (p : Nat × Nat)
    (h : p ∈ sendOrWaitAsked timeout first obs) : p.1 < timeout ∧ p.1 + p.2 = timeout :=
  sendOrWaitAsked_remaining timeout obs first p h

/-- **Hand-back when the timeout expires — total wait bound.** If every wait returns within the time it was asked
    for plus a slack `δ` (the runtime assumption about the condvar / the tokio timer), then every clock reading the
    loop takes — in particular the one at which the call returns the item — is at most `timeout + δ`: the waits of
    all rounds together never exceed the caller's timeout, however often the sender is woken part-way and loses the
    race for the freed slot. (A waiter that is granted the full `timeout` on every round allows `2·timeout`; stream
    `batcher_blocking_c09`, RX = refill, has the timing cases for the blocking and the async entry points.)
    The runtime assumption itself is sampled, not proved. -/
theorem send_or_wait_total_wait_bound (δ timeout : Nat) (first : TryRes) (obs : List (Nat × TryRes)) (t : Nat)
    (hh : sendOrWaitHonest δ timeout δ first obs) (ht : sendOrWaitLastReading timeout first obs = some t) :
    t ≤ timeout + δ :=
  sendOrWait_within_budget δ timeout obs δ first t (by omega) hh ht

/-! ### Non-vacuity -/

example : ∃ s, Reachable (Cfg.real 2) s ∧ s.pending = [3] ∧ s.mTruncated = 1 ∧ s.truncations = [[1, 2]] :=
  ⟨_, ⟨[.send 1, .send 2, .send 3], rfl⟩, by decide⟩

example : (trySend (Cfg.real 1) (send (Cfg.real 1) init 7) 8).2 = .full 8 := by decide

/-- DESIGN §8 F4, outside the statement ("while the receiver exists"): on a channel closed by a receiver teardown
    `try_send` reports the closure without the item, so the waiting variants end in an error that does not carry
    it. The code is modelled as it is; stream `batcher_blocking_c09` observes `err(noitem)` on both sides. -/
example : (trySend (Cfg.real 2) ((dropReceiver init).getD init) 7).2 = .closed ∧
    sendOrWait 100 .closed [(0, .closed)] = some .errNoItem := by decide

example : sendOrWait 100 (.full 5) [(10, .full 5), (60, .ok)] = some .ok := by decide
example : sendOrWait 100 (.full 5) [(10, .full 5), (120, .ok)] = some (.handedBack 5) := by decide

/-- the demo of seeded change C09-r3m3: capacity 2, two sends, a try_send and a blocking send that find the queue
    full, then a plain send that truncates — one truncation, one blocked send, and that is what the counters say -/
example : ∃ b, run (bstep (Cfg.real 2)) binit
      [.base (.send 1), .base (.send 2), .base (.trySend 3), .sendOrWaitFirst 4, .base (.send 5)] = some b ∧
    b.st.pending = [5] ∧ b.st.mTruncated = 1 ∧ b.mBlocked = 1 ∧
    countAlong (Cfg.real 2) (truncatingSend (Cfg.real 2)) binit
      [.base (.send 1), .base (.send 2), .base (.trySend 3), .sendOrWaitFirst 4, .base (.send 5)] = 1 :=
  ⟨_, rfl, by decide, by decide, by decide, by decide⟩

/-- the timing case of seeded change C09-r3m2 (T = 500): woken at 350, the slot is gone; the second wait is asked
    for the remaining 150 and the item is handed back at 500 — the hypotheses of the bound are satisfiable -/
example : sendOrWaitAsked 500 (.full 9) [(0, .full 9), (350, .full 9), (500, .full 9)] = [(0, 500), (350, 150)] ∧
    sendOrWaitHonest 0 500 0 (.full 9) [(0, .full 9), (350, .full 9), (500, .full 9)] ∧
    sendOrWaitLastReading 500 (.full 9) [(0, .full 9), (350, .full 9), (500, .full 9)] = some 500 := by
  refine ⟨by decide, ?_, by decide⟩
  simp [sendOrWaitHonest]

end EmitModel.C09

/-! ### Carry-through to the emitter-specific channels (stream `c09_otlp`) -/
namespace EmitModel.C09
open EmitModel.OtlpE2E EmitModel.Batcher

/-- The count-level step is exactly what `Sender::send` does to `Channel::len` and the truncation counter. -/
theorem sendCount_refines_send (cfg : Cfg) (s : St) (x : Nat) (ho : s.isOpen = true) :
    ((send cfg s x).pending.length, (send cfg s x).mTruncated) = sendCount cfg.cap (s.pending.length, s.mTruncated) := by
  unfold send sendCount
  by_cases h : s.pending.length ≥ cfg.cap
  · simp [h, truncate, push, ho]
  · simp [h, push, ho]

/-- However many events are emitted while the worker is stalled, the channel never reports more than its
    capacity, and every time it was full exactly one truncation is counted. -/
theorem sendN_bound (cap n : Nat) (st : Nat × Nat) (hc : 1 ≤ cap) (h : st.1 ≤ cap) : (sendN cap n st).1 ≤ cap := by
  induction n generalizing st with
  | zero => simpa [sendN]
  | succ n ih =>
    simp only [sendN]
    apply ih
    unfold sendCount
    split <;> simp <;> omega

end EmitModel.C09
