/-
  Thm/C05.lean — property C05: each enabled, started span completes exactly once; disabled spans never do.
  Property theorems about Model/SpanGuard.lean (the functions the driver executes).
-/
import EmitModel.Model.SpanGuard

namespace EmitModel.C05
open EmitModel.SpanGuard

/-- The calls made by running `ops`. -/
def calls (g : Guard) (clk : Clock) (ops : List Op) : List Call := (run g clk ops).1

/-- A guard that can still complete: started-or-initial with data and a completion. -/
def Live (g : Guard) : Prop := g.st ≠ .completed ∧ g.data.isSome ∧ g.completion.isSome

/-! ### helper facts (local; kept here because they are short) -/

theorem completeCore_calls_le (g : Guard) (clk : Clock) (who : Nat → Nat) :
    (completeCore g clk who).2.2.1.length ≤ 1 ∧ (completeCore g clk who).2.1 = movedFrom := by
  unfold completeCore
  split <;> simp

theorem completeCore_movedFrom (clk : Clock) (who : Nat → Nat) :
    completeCore movedFrom clk who = (false, movedFrom, [], clk) := by
  simp [completeCore, movedFrom]

theorem dropCalls_movedFrom (clk : Clock) : dropCalls movedFrom clk = ([], clk) := by
  simp [dropCalls, completeCore_movedFrom]

/-- A guard is inert when running anything on it makes no call. -/
def Inert (g : Guard) : Prop := g.st = .completed ∨ g.data = none ∨ g.completion = none

theorem completeCore_inert (g : Guard) (h : Inert g) (clk : Clock) (who : Nat → Nat) :
    completeCore g clk who = (false, movedFrom, [], clk) := by
  unfold completeCore
  rcases h with h | h | h <;> split <;> simp_all

theorem movedFrom_inert : Inert movedFrom := Or.inl rfl

theorem step_inert (g : Guard) (h : Inert g) (clk : Clock) (op : Op) :
    (step g clk op).calls = [] ∧ Inert (step g clk op).guard ∧ (step g clk op).clock = clk ∨
    (op = .start ∧ g.st = .initial ∧ (step g clk op).calls = [] ∧ Inert (step g clk op).guard) := by
  cases op with
  | start =>
    unfold step
    cases hs : g.st with
    | initial =>
      right
      refine ⟨rfl, rfl, by simp, ?_⟩
      rcases h with h | h | h
      · simp [hs] at h
      · right; left; simpa using h
      · right; right; simpa using h
    | started s => left; simp [h]
    | completed => left; simp [h]
  | withMdl m =>
    left; refine ⟨rfl, ?_, rfl⟩
    rcases h with h | h | h
    · exact Or.inl (by simpa [step] using h)
    · exact Or.inr (Or.inl (by simp [step, h]))
    · exact Or.inr (Or.inr (by simpa [step] using h))
  | withName n =>
    left; refine ⟨rfl, ?_, rfl⟩
    rcases h with h | h | h
    · exact Or.inl (by simpa [step] using h)
    · exact Or.inr (Or.inl (by simp [step, h]))
    · exact Or.inr (Or.inr (by simpa [step] using h))
  | withProps ps =>
    left
    simp only [step, dropCalls_movedFrom, true_and, and_true]
    rcases h with h | h | h
    · exact Or.inl h
    · exact Or.inr (Or.inl (by simp [h]))
    · exact Or.inr (Or.inr h)
  | mapProps ps =>
    left
    simp only [step, dropCalls_movedFrom, true_and, and_true]
    rcases h with h | h | h
    · exact Or.inl h
    · exact Or.inr (Or.inl (by simp [h]))
    · exact Or.inr (Or.inr h)
  | withCompletion c =>
    left
    simp only [step, dropCalls_movedFrom, true_and, and_true]
    rcases h with h | h | h
    · exact Or.inl h
    · exact Or.inr (Or.inl h)
    · exact Or.inr (Or.inr (by simp [h]))
  | complete =>
    left
    simp [step, completeCore_inert g h, dropCalls_movedFrom, movedFrom_inert]
  | completeWith c =>
    left
    simp [step, completeCore_inert g h, dropCalls_movedFrom, movedFrom_inert]
  | drop =>
    left
    simp [step, completeCore_inert g h, movedFrom_inert]

theorem run_inert (g : Guard) (h : Inert g) (clk : Clock) (ops : List Op) : calls g clk ops = [] := by
  induction ops generalizing g clk with
  | nil => rfl
  | cons op rest ih =>
    unfold calls at *
    simp only [run]
    rcases step_inert g h clk op with ⟨h1, h2, _⟩ | ⟨_, _, h1, h2⟩
    · simp [h1, ih _ h2]
    · simp [h1, ih _ h2]

theorem step_calls (g : Guard) (clk : Clock) (op : Op) :
    (step g clk op).calls = [] ∨ (∃ c, (step g clk op).calls = [c]) ∧ (step g clk op).guard = movedFrom := by
  cases op with
  | start => left; simp only [step]; split <;> simp
  | withMdl m => left; rfl
  | withName n => left; rfl
  | withProps ps => left; simp [step, dropCalls_movedFrom]
  | mapProps ps => left; simp [step, dropCalls_movedFrom]
  | withCompletion c => left; simp [step, dropCalls_movedFrom]
  | complete =>
    simp only [step]
    have := completeCore_calls_le g clk id
    unfold completeCore at *
    split <;> simp_all [dropCalls_movedFrom]
  | completeWith c =>
    simp only [step]
    unfold completeCore
    split <;> simp_all [dropCalls_movedFrom]
  | drop =>
    simp only [step]
    unfold completeCore
    split <;> simp_all

/-! ### Property theorems -/

/-- **At most once.** For every guard state, clock script and operation list — any order, any multiplicity —
    at most one completion call is ever made. -/
theorem at_most_once (g : Guard) (clk : Clock) (ops : List Op) : (calls g clk ops).length ≤ 1 := by
  induction ops generalizing g clk with
  | nil => simp [calls, run]
  | cons op rest ih =>
    have ih' := ih (step g clk op).guard (step g clk op).clock
    unfold calls at *
    simp only [run, List.length_append]
    rcases step_calls g clk op with h | ⟨⟨c, h⟩, hg⟩
    · simp [h]; exact ih'
    · have := run_inert _ (hg ▸ movedFrom_inert) (step g clk op).clock rest
      unfold calls at this
      simp [h, this]

/-- **Disabled never.** A guard whose span was rejected by the filter (`completion = None`) makes no completion
    call under any operation list — in particular `with_completion` does not re-enable it. -/
theorem disabled_never (c : Nat) (d : Data) (clk : Clock) (ops : List Op) :
    calls (new false c d) clk ops = [] :=
  run_inert _ (Or.inr (Or.inr rfl)) clk ops

/-- `is_enabled` stays false on a disabled guard whatever builder operations are applied. -/
theorem disabled_stays_disabled (g : Guard) (h : g.completion = none) (clk : Clock) (op : Op) :
    (step g clk op).guard.completion = none := by
  cases op <;> simp [step, h, movedFrom, completeCore] <;> (try split) <;> simp_all [movedFrom]

/-- **Never started, never completes**: without a `start` in the list an initial guard makes no call. -/
theorem unstarted_never (enabled : Bool) (c : Nat) (d : Data) (clk : Clock) (ops : List Op)
    (h : Op.start ∉ ops) : calls (new enabled c d) clk ops = [] := by
  suffices ∀ g : Guard, g.st = .initial ∨ Inert g → ∀ clk, calls g clk ops = [] from this _ (Or.inl rfl) clk
  induction ops with
  | nil => intros; rfl
  | cons op rest ih =>
    intro g hg clk
    have hop : op ≠ .start := fun e => h (by simp [e])
    have hrest : Op.start ∉ rest := fun e => h (by simp [e])
    rcases hg with hg | hg
    · unfold calls; simp only [run]
      have key : (step g clk op).calls = [] ∧ ((step g clk op).guard.st = .initial ∨ Inert (step g clk op).guard) := by
        cases op with
        | start => exact absurd rfl hop
        | withMdl m => exact ⟨rfl, Or.inl (by simpa [step] using hg)⟩
        | withName n => exact ⟨rfl, Or.inl (by simpa [step] using hg)⟩
        | withProps ps => exact ⟨by simp [step, dropCalls_movedFrom], Or.inl (by simpa [step] using hg)⟩
        | mapProps ps => exact ⟨by simp [step, dropCalls_movedFrom], Or.inl (by simpa [step] using hg)⟩
        | withCompletion c => exact ⟨by simp [step, dropCalls_movedFrom], Or.inl (by simpa [step] using hg)⟩
        | complete => simp [step, completeCore, hg, dropCalls_movedFrom, movedFrom_inert]
        | completeWith c => simp [step, completeCore, hg, dropCalls_movedFrom, movedFrom_inert]
        | drop => simp [step, completeCore, hg, movedFrom_inert]
      have := ih hrest _ key.2 (step g clk op).clock
      unfold calls at this
      simp [key.1, this]
    · exact run_inert g hg clk _

/-- Builder operations: everything except the three consuming terminals. -/
def isBuilder : Op → Bool
  | .complete | .completeWith _ | .drop => false
  | _ => true

def isTerminal (o : Op) : Bool := !isBuilder o

/-- The data a guard carries after a list of builder operations. -/
def applyData (d : Data) : List Op → Data
  | [] => d
  | .withMdl m :: rest => applyData { d with mdl := m } rest
  | .withName n :: rest => applyData { d with name := n } rest
  | .withProps ps :: rest => applyData { d with props := ps } rest
  | .mapProps extra :: rest => applyData { d with props := extra ++ d.props } rest
  | _ :: rest => applyData d rest

/-- The completion an enabled guard holds after a list of builder operations. -/
def applyCompletion (c : Nat) : List Op → Nat
  | [] => c
  | .withCompletion c' :: rest => applyCompletion c' rest
  | _ :: rest => applyCompletion c rest

/-- The state after a list of builder operations, and the clock left. -/
def applyStart : St → Clock → List Op → St × Clock
  | st, clk, [] => (st, clk)
  | .initial, clk, .start :: rest => applyStart (.started (now clk).1) (now clk).2 rest
  | st, clk, _ :: rest => applyStart st clk rest

theorem run_builders (st : St) (d : Data) (c : Nat) (clk : Clock) (bs : List Op)
    (hb : ∀ o ∈ bs, isBuilder o = true) (rest : List Op) :
    run { st := st, data := some d, completion := some c } clk (bs ++ rest) =
      run { st := (applyStart st clk bs).1, data := some (applyData d bs), completion := some (applyCompletion c bs) }
        (applyStart st clk bs).2 rest := by
  induction bs generalizing st d c clk with
  | nil => rfl
  | cons o bs ih =>
    have hb' : ∀ o ∈ bs, isBuilder o = true := fun o ho => hb o (by simp [ho])
    have ho := hb o (by simp)
    cases o with
    | start =>
      cases st with
      | initial => simp only [List.cons_append, run, step, now]; rw [ih _ _ _ _ hb']; simp [applyStart, applyData, applyCompletion, now]
      | started s => simp only [List.cons_append, run, step]; rw [ih _ _ _ _ hb']; simp [applyStart, applyData, applyCompletion]
      | completed => simp only [List.cons_append, run, step]; rw [ih _ _ _ _ hb']; simp [applyStart, applyData, applyCompletion]
    | withMdl m => simp only [List.cons_append, run, step, Option.map_some]; rw [ih _ _ _ _ hb']; cases st <;> simp [applyStart, applyData, applyCompletion]
    | withName n => simp only [List.cons_append, run, step, Option.map_some]; rw [ih _ _ _ _ hb']; cases st <;> simp [applyStart, applyData, applyCompletion]
    | withProps ps => simp only [List.cons_append, run, step, Option.map_some, dropCalls_movedFrom]; rw [ih _ _ _ _ hb']; cases st <;> simp [applyStart, applyData, applyCompletion]
    | mapProps ps => simp only [List.cons_append, run, step, Option.map_some, dropCalls_movedFrom]; rw [ih _ _ _ _ hb']; cases st <;> simp [applyStart, applyData, applyCompletion]
    | withCompletion c' => simp only [List.cons_append, run, step, Option.map_some, dropCalls_movedFrom]; rw [ih _ _ _ _ hb']; cases st <;> simp [applyStart, applyData, applyCompletion]
    | complete => simp [isBuilder] at ho
    | completeWith c' => simp [isBuilder] at ho
    | drop => simp [isBuilder] at ho

theorem applyStart_started (clk : Clock) (bs : List Op) (h : Op.start ∈ bs) :
    ∃ r clk', applyStart .initial clk bs = (.started r, clk') := by
  induction bs with
  | nil => simp at h
  | cons o bs ih =>
    have stay : ∀ (s : Option Ts) (c : Clock) (l : List Op), applyStart (.started s) c l = (.started s, c) := by
      intro s c l; induction l with
      | nil => rfl
      | cons a l ihl => cases a <;> simp [applyStart, ihl]
    cases o with
    | start => exact ⟨(now clk).1, (now clk).2, by simp [applyStart, stay]⟩
    | _ => simp only [applyStart]; exact ih (by simpa using h)

/-- The terminal's effect on a started, enabled guard with data: exactly one call, by the stored completion
    (or the one handed to `complete_with`), carrying the guard's current data and the timer's extent. -/
def terminalWho (c : Nat) : Op → Nat
  | .completeWith c' => c'
  | _ => c

/-- **Exactly once, with identity and extent.** An enabled guard that is started somewhere in an arbitrary
    sequence of builder operations and then ends by drop, `complete` or `complete_with` makes exactly one
    completion call; it carries the module/name/props after the last modification, goes to the last completion
    set (or the handler given to `complete_with`), and its extent is the range from the clock reading taken by
    the first `start` to the reading taken at completion — `None` when either reading is unavailable, and a
    (backwards) range when the second is smaller. Anything after the terminal adds no call. -/
theorem enabled_started_exactly_once (c : Nat) (d : Data) (clk : Clock) (bs : List Op) (t : Op) (after : List Op)
    (hb : ∀ o ∈ bs, isBuilder o = true) (hs : Op.start ∈ bs) (ht : isTerminal t = true) :
    ∃ r clk', applyStart .initial clk bs = (.started r, clk') ∧
      calls (new true c d) clk (bs ++ t :: after) =
        [{ by_ := terminalWho (applyCompletion c bs) t, mdl := (applyData d bs).mdl, name := (applyData d bs).name,
           props := (applyData d bs).props, extent := timerExtent r (now clk').1 }] := by
  obtain ⟨r, clk', hst⟩ := applyStart_started clk bs hs
  refine ⟨r, clk', hst, ?_⟩
  unfold calls new
  simp only [if_true]
  rw [run_builders _ _ _ _ _ hb, hst]
  simp only [run]
  have inert_after : ∀ clk0, (run movedFrom clk0 after).1 = [] := fun clk0 => by
    have := run_inert movedFrom movedFrom_inert clk0 after; simpa [calls] using this
  cases t with
  | complete => simp [step, completeCore, dropCalls_movedFrom, inert_after, terminalWho, now]
  | completeWith c' => simp [step, completeCore, dropCalls_movedFrom, inert_after, terminalWho, now]
  | drop => simp [step, completeCore, inert_after, terminalWho, now]
  | _ => simp [isTerminal, isBuilder] at ht

/-- The first `start` takes the first clock reading when no earlier operation reads the clock (none does). -/
theorem first_start_reads_first (r : Option Ts) (clk : Clock) (bs : List Op) (hs : Op.start ∈ bs) :
    ∃ clk', applyStart .initial (r :: clk) bs = (.started r, clk) ∧ clk' = clk := by
  refine ⟨clk, ?_, rfl⟩
  induction bs with
  | nil => simp at hs
  | cons o bs ih =>
    have stay : ∀ (s : Option Ts) (c : Clock) (l : List Op), applyStart (.started s) c l = (.started s, c) := by
      intro s c l; induction l with
      | nil => rfl
      | cons a l ihl => cases a <;> simp [applyStart, ihl]
    cases o with
    | start => simp [applyStart, now, stay]
    | _ => simp only [applyStart]; exact ih (by simpa using hs)

/-- **Extent = start reading .. completion reading**, stated on the clock script: with readings `a` then `b`
    the completed span has extent `range a..b` (also when `b < a`), and none if either is unavailable. -/
theorem extent_is_start_to_end (c : Nat) (d : Data) (a b : Option Ts) (clk : Clock) (bs : List Op) (t : Op)
    (hb : ∀ o ∈ bs, isBuilder o = true) (hs : Op.start ∈ bs) (ht : isTerminal t = true) :
    (calls (new true c d) (a :: b :: clk) (bs ++ [t])).map Call.extent = [timerExtent a b] := by
  obtain ⟨r, clk', h1, h2⟩ := enabled_started_exactly_once c d (a :: b :: clk) bs t [] hb hs ht
  obtain ⟨_, h3, _⟩ := first_start_reads_first a (b :: clk) bs hs
  rw [h3] at h1
  simp only [Prod.mk.injEq, St.started.injEq] at h1
  obtain ⟨rfl, rfl⟩ := h1
  simp [h2, now]

/-- The moved-from guard left behind by every consuming method makes no call when it is dropped. -/
theorem moved_from_inert (clk : Clock) (ops : List Op) : calls movedFrom clk ops = [] :=
  run_inert _ movedFrom_inert clk ops

/-- **Defect D2 (before the fix)**: with `completion: Some(completion)` a filtered-out guard became enabled. -/
theorem unfixed_with_completion_reenables (c c' : Nat) (d : Data) :
    (stepUnfixedWithCompletion (new false c d) c').completion = some c' := rfl

/-! ### Completion adapters and clock holders -/

theorem compCode_roundtrip (n : Nat) (a : Adapter) : compId (compCode n a) = n ∧ compAdapter (compCode n a) = a := by
  cases a <;> simp [compId, compCode, compAdapter, Adapter.code, Adapter.ofCode] <;> omega

/-- one `Completion::complete` call reaches the recorder at most once, and exactly once unless the completion
    is `Empty` -/
theorem deliver_length (c : Call) :
    (deliver c).length = if compAdapter c.by_ = .empty then 0 else 1 := by
  unfold deliver
  cases compAdapter c.by_ <;> simp

/-- **adapters_transparent** (G15). `&C`, `from_fn`, `dyn ErasedCompletion`, `dyn ErasedCompletion + Send + Sync`
    (and no adapter at all) hand the recorder the very span the guard completed with: module, name, props,
    extent. -/
theorem adapters_transparent (n : Nat) (a : Adapter) (h : a ≠ .empty ∧ a ≠ .fromEmitter) (c : Call)
    (hc : c.by_ = compCode n a) : deliver c = [.span n { c with by_ := n }] := by
  have := compCode_roundtrip n a
  unfold deliver
  rw [hc, this.1, this.2]
  cases a <;> simp_all

/-- `from_emitter`: the recorder (an emitter) receives the span as an event — same module, the span's own extent
    (no clock is consulted), `evt_kind` and `span_name` in front of the span's props, and nothing ambient. -/
theorem from_emitter_delivers_span_event (n : Nat) (c : Call) (hc : c.by_ = compCode n .fromEmitter) :
    deliver c = [.event n ⟨c.mdl, "{span_name} completed", rangeExt c.extent,
      [("evt_kind", "span"), ("span_name", c.name)] ++ c.props⟩] := by
  have := compCode_roundtrip n .fromEmitter
  unfold deliver
  rw [hc, this.1, this.2]
  simp [spanEvent]

/-- **completion_adapters_at_most_once** (G15). Whatever the operation list, the clock and the adapters the
    completions sit behind: the recorders receive at most one delivery in total. -/
theorem completion_adapters_at_most_once (g : Guard) (clk : Clock) (ops : List Op) :
    ((calls g clk ops).flatMap deliver).length ≤ 1 := by
  have h := at_most_once g clk ops
  match hc : calls g clk ops, h with
  | [], _ => simp
  | [c], _ => simp [deliver_length]; split <;> omega

/-- **completion_adapters_exactly_once** (G15). An enabled guard that was started and reaches a terminal delivers
    exactly once through every adapter — recorder and adapter being those of the completion in force at the
    terminal (the last `with_completion`, or the one given to `complete_with`) — and not at all through `Empty`. -/
theorem completion_adapters_exactly_once (c : Nat) (d : Data) (clk : Clock) (bs : List Op) (t : Op) (after : List Op)
    (hb : ∀ o ∈ bs, isBuilder o = true) (hs : Op.start ∈ bs) (ht : isTerminal t = true) :
    ((calls (new true c d) clk (bs ++ t :: after)).flatMap deliver).length =
      if compAdapter (terminalWho (applyCompletion c bs) t) = .empty then 0 else 1 := by
  obtain ⟨r, clk', _, h⟩ := enabled_started_exactly_once c d clk bs t after hb hs ht
  rw [h]
  simp [deliver_length]

/-- **clock_holders_transparent** (G17). Every holder but `Option::None` leaves the clock script, hence every
    call, extent and returned value of every theorem above, as it is. -/
theorem clock_holders_transparent (h : ClockHolder) (hne : h ≠ .none_) (clk : Clock) : h.script clk = clk := by
  cases h <;> simp_all [ClockHolder.script]

theorem step_nil_clock (g : Guard) (op : Op) :
    (step g [] op).clock = [] ∧ ∀ c ∈ (step g [] op).calls, c.extent = none := by
  have hcc : ∀ (g : Guard) (who : Nat → Nat), (completeCore g [] who).2.2.2 = [] ∧
      ∀ c ∈ (completeCore g [] who).2.2.1, c.extent = none := by
    intro g who
    unfold completeCore
    split <;> simp [now, timerExtent]
  have hd : ∀ g : Guard, (dropCalls g []).2 = [] ∧ ∀ c ∈ (dropCalls g []).1, c.extent = none := by
    intro g; exact hcc g id
  cases op with
  | start => simp only [step]; split <;> simp [now]
  | withMdl m => simp [step]
  | withName n => simp [step]
  | withProps ps => simp [step, dropCalls_movedFrom]
  | mapProps e => simp [step, dropCalls_movedFrom]
  | withCompletion c => simp [step, dropCalls_movedFrom]
  | complete =>
    have h1 := hcc g id
    simp only [step]
    have h2 := hd (completeCore g [] id).2.1
    rw [h1.1] at *
    refine ⟨h2.1, ?_⟩
    intro c hc
    rcases List.mem_append.1 hc with h | h
    · exact h1.2 c h
    · exact h2.2 c h
  | completeWith c' =>
    have h1 := hcc g (fun _ => c')
    simp only [step]
    have h2 := hd (completeCore g [] (fun _ => c')).2.1
    rw [h1.1] at *
    refine ⟨h2.1, ?_⟩
    intro c hc
    rcases List.mem_append.1 hc with h | h
    · exact h1.2 c h
    · exact h2.2 c h
  | drop =>
    have h1 := hcc g id
    simp only [step]
    exact h1

/-- `Option::None` as the clock: nothing is ever read, so no completed span has an extent. -/
theorem clock_none_no_extent (g : Guard) (clk : Clock) (ops : List Op) :
    ∀ c ∈ calls g (ClockHolder.none_.script clk) ops, c.extent = none := by
  simp only [ClockHolder.script]
  induction ops generalizing g with
  | nil => simp [calls, run]
  | cons op rest ih =>
    intro c hc
    unfold calls at hc ih
    simp only [run] at hc
    obtain ⟨h1, h2⟩ := step_nil_clock g op
    rw [h1] at hc
    rcases List.mem_append.1 hc with h | h
    · exact h2 c h
    · exact ih _ c h

/-! ### The default completion -/

def lookupFirst (k : Str) : Props → Option Str
  | [] => none
  | (k', v) :: rest => if k' == k then some v else lookupFirst k rest

/-- Panic unwinding adds the error and the panic level (default Error), overriding same-named span props. -/
theorem default_panic_adds_err_lvl (cfg : DefaultCfg) (ambient : Props) (c : Call) :
    lookupFirst "lvl" (defaultComplete cfg true ambient c).props = some (cfg.panicLvl.getD "error") ∧
    lookupFirst "err" (defaultComplete cfg true ambient c).props = some "panicked" := by
  simp [defaultComplete, lookupFirst]

/-- A normal completion carries the configured level if any, the span kind, name, extent and module, followed
    by the span's props and then the ambient props (which is where the ids come from inside the frame). -/
theorem default_normal_event (cfg : DefaultCfg) (ambient : Props) (c : Call) :
    (defaultComplete cfg false ambient c).props =
      (match cfg.lvl with | some l => [("lvl", l)] | none => []) ++
        [("evt_kind", "span"), ("span_name", c.name)] ++ c.props ++ ambient ∧
    (defaultComplete cfg false ambient c).extent = rangeExt c.extent ∧
    (defaultComplete cfg false ambient c).mdl = c.mdl := by
  refine ⟨?_, rfl, rfl⟩
  simp only [defaultComplete]
  cases cfg.lvl <;> rfl

/-! ### Non-vacuity -/

private def d0 : Data := ⟨"m", "n", [("k", "v")]⟩

example : calls (new true 7 d0) [some 5, some 3] [.withName "x", .start, .withCompletion 9, .mapProps [("a", "b")], .drop]
    = [⟨9, "m", "x", [("a", "b"), ("k", "v")], some (5, 3)⟩] := by decide
example : calls (new false 7 d0) [some 5, some 9] [.start, .withCompletion 9, .complete, .drop] = [] := by decide
example : calls (new true 7 d0) [some 5] [.start, .start, .completeWith 4, .drop, .complete] = [⟨4, "m", "n", [("k", "v")], none⟩] := by decide

end EmitModel.C05

namespace EmitModel.C05
open EmitModel.SpanGuard

/-! ### Macro forms -/

/-- The level and error the property promises for each exit path of a macro-instrumented span. -/
def expectedLvl (c : MacroCfg) : Exit → Option Str
  | .panic => some (c.panicLvl.getD "error")
  | .ok => if c.useResult then c.okLvl.or c.lvlDefault else c.lvlDefault
  | .err => if c.useResult then some ((c.errLvl.or c.lvlDefault).getD "error") else c.lvlDefault

def expectedErr (c : MacroCfg) (errText : Str) : Exit → Option Str
  | .panic => some "panicked"
  | .ok => none
  | .err => if c.useResult then some errText else none

/-- **Macro forms complete exactly once on every exit path** — fall-through, early return, error propagation
    and panic unwinding — when enabled, never when filtered out; the single event carries the level and error
    the attributes ask for (`ok_lvl`/`err_lvl`/`panic_lvl`/default level, `err` mapper), the span's name and
    module, kind span, and the extent from the start reading to the completion reading. -/
theorem macro_exactly_once (c : MacroCfg) (exit : Exit) (a b : Option Ts) (clk : Clock)
    (mdl name tpl errText : Str) (ambient : Props)
    (hamb : lookupFirst "lvl" ambient = none ∧ lookupFirst "err" ambient = none) :
    macroRun c false exit (a :: b :: clk) mdl name tpl errText ambient = [] ∧
    ∃ e, macroRun c true exit (a :: b :: clk) mdl name tpl errText ambient = [e] ∧
      e.mdl = mdl ∧ e.tpl = tpl ∧ (∀ x y, a = some x → b = some y → e.extent = some (.range x y)) ∧
      lookupFirst "lvl" e.props = expectedLvl c exit ∧
      lookupFirst "err" e.props = expectedErr c errText exit ∧
      lookupFirst "span_name" e.props = some name ∧ lookupFirst "evt_kind" e.props = some "span" := by
  obtain ⟨h1, h2⟩ := hamb
  refine ⟨?_, ?_⟩
  · have := disabled_never compDefault ⟨mdl, name, []⟩ (a :: b :: clk) (macroProgram c exit)
    simp [macroRun, calls] at this ⊢
    simp [this]
  · cases exit <;> cases hr : c.useResult <;> cases hm : c.manual <;>
      simp [macroRun, hm, macroProgram, hr, run, step, new, completeCore, dropCalls, now, movedFrom, macroEvent,
        compDefault, compOk, compErr, defaultComplete, timerExtent, rangeExt, lookupFirst, expectedLvl, expectedErr, h1, h2] <;>
      (try cases c.lvlDefault) <;> (try cases c.okLvl) <;> (try cases c.errLvl) <;> (try cases c.panicLvl) <;>
      simp_all [lookupFirst, Option.or, rangeExt, timerExtent] <;>
      (try (intro x y hx hy; subst hx; subst hy; simp [timerExtent, rangeExt]))

example : macroRun ⟨some "info", none, some "warn", false, false, none, false⟩ true .err [some 1, some 4] "m" "n" "t" "boom" []
    = [⟨"m", "t", some (.range 1 4), [("lvl", "warn"), ("err", "boom"), ("evt_kind", "span"), ("span_name", "n")]⟩] := by decide

end EmitModel.C05
